/- Helper lemmas for C10 (subscriptions). -/
import Liftbridge.Model.Subscribe
import Liftbridge.Proofs.Compact
namespace Liftbridge.Proofs.Subscribe
open Liftbridge Liftbridge.Log Liftbridge.Log.CLog Liftbridge.Subscribe Liftbridge.Proofs.Compact
open Liftbridge.Proofs Liftbridge.Proofs.Log

/-! ### `sort.Search` with a failing predicate -/

/-- When no probe in `[0, n)` fails, the error-aware search is the plain one and keeps its flag. -/
theorem goSearchErrAux_eq (f : Nat → Option Bool) (n : Nat) (hf : ∀ i, i < n → f i ≠ none)
    (i j : Nat) (err : Bool) (hj : j ≤ n) :
    goSearchErrAux f i j err = (goSearchAux (fun i => (f i).getD true) i j, err) := by
  fun_induction goSearchErrAux f i j err with
  | case1 i j err h m hm ih =>
    exact absurd hm (hf m (by simp only [m]; omega))
  | case2 i j err h m hm ih =>
    have hmj : m ≤ n := by simp only [m]; omega
    have hg : (f ((i + j) / 2)).getD true = true := by
      show (f m).getD true = true
      rw [hm]; rfl
    have e : goSearchAux (fun i => (f i).getD true) i j =
        goSearchAux (fun i => (f i).getD true) i m := by
      rw [goSearchAux]; simp [h, hg, m]
    rw [ih hmj, e]
  | case3 i j err h m hm ih =>
    have hg : (f ((i + j) / 2)).getD true = false := by
      show (f m).getD true = false
      rw [hm]; rfl
    have e : goSearchAux (fun i => (f i).getD true) i j =
        goSearchAux (fun i => (f i).getD true) (m + 1) j := by
      rw [goSearchAux]; simp [h, hg, m]
    rw [ih hj, e]
  | case4 i j err h =>
    rw [goSearchAux]
    simp [h]

theorem goSearchErr_spec (n : Nat) (f : Nat → Option Bool) (hf : ∀ i, i < n → f i ≠ none) :
    goSearchErr n f = (goSearch n (fun i => (f i).getD true), false) :=
  goSearchErrAux_eq f n hf 0 n false (Nat.le_refl _)

/-! ### The index found by a search over a list -/

/-- The raw index computed by the `sort.Search` lookups over a list. -/
def searchIdx {α} (xs : List α) (q : α → Bool) : Nat :=
  goSearch xs.length (fun i => match xs[i]? with
    | some x => q x
    | none => true)

theorem searchOpt_eq_idx {α} (xs : List α) (q : α → Bool) :
    searchOpt xs q = if searchIdx xs q = xs.length then none else some (searchIdx xs q) := rfl

theorem searchIdx_of_split {α} {xs : List α} {q : α → Bool} (mono : Mono xs q)
    {pre post : List α} {x : α} (hx : xs = pre ++ x :: post) (hq : q x = true)
    (hpre : ∀ a ∈ pre, q a = false) : searchIdx xs q = pre.length := by
  have := searchOpt_of_split mono hx hq hpre
  rw [searchOpt_eq_idx] at this
  split at this
  · cases this
  · exact Option.some.inj this

theorem searchIdx_none {α} {xs : List α} {q : α → Bool} (h : ∀ a ∈ xs, q a = false) :
    searchIdx xs q = xs.length := by
  have := searchOpt_none h
  rw [searchOpt_eq_idx] at this
  split at this
  · assumption
  · cases this

/-- The two outcomes of a search with a monotone predicate. -/
theorem searchIdx_cases {α} {xs : List α} {q : α → Bool} (mono : Mono xs q) :
    ((∀ a ∈ xs, q a = false) ∧ searchIdx xs q = xs.length) ∨
    ∃ pre x post, xs = pre ++ x :: post ∧ q x = true ∧ (∀ a ∈ pre, q a = false) ∧
      searchIdx xs q = pre.length := by
  by_cases h : ∃ a ∈ xs, q a = true
  · obtain ⟨pre, x, post, hx, hq, hpre⟩ := exists_first_split xs q h
    exact Or.inr ⟨pre, x, post, hx, hq, hpre, searchIdx_of_split mono hx hq hpre⟩
  · have h' : ∀ a ∈ xs, q a = false := by
      intro a ha
      cases hq : q a with
      | false => rfl
      | true => exact absurd ⟨a, ha, hq⟩ h
    exact Or.inl ⟨h', searchIdx_none h'⟩

/-! ### Pairwise helpers -/

theorem pairwise_mem_cases {α} {R : α → α → Prop} {L : List α} (h : L.Pairwise R) {a b : α}
    (ha : a ∈ L) (hb : b ∈ L) : a = b ∨ R a b ∨ R b a := by
  induction h with
  | nil => cases ha
  | cons hx _ ih =>
    rcases List.mem_cons.mp ha with ha1 | ha1 <;> rcases List.mem_cons.mp hb with hb1 | hb1
    · exact Or.inl (ha1.trans hb1.symm)
    · exact Or.inr (Or.inl (ha1 ▸ hx _ hb1))
    · exact Or.inr (Or.inr (hb1 ▸ hx _ ha1))
    · exact ih ha1 hb1

theorem pairwise_split {α} {R : α → α → Prop} {A B : List α} {r : α} (h : (A ++ r :: B).Pairwise R) :
    (∀ a ∈ A, R a r) ∧ (∀ b ∈ B, R r b) := by
  have := List.pairwise_append.mp h
  exact ⟨fun a ha => this.2.2 a ha r (by simp), (List.pairwise_cons.mp this.2.1).1⟩

theorem pairwise_of_dropLast {α} {P : α → Prop} : ∀ {xs : List α}, (∀ s ∈ xs.dropLast, P s) →
    xs.Pairwise (fun a _ => P a)
  | [], _ => List.Pairwise.nil
  | [a], _ => by simp
  | a :: b :: rest, h => by
    rw [List.dropLast_cons_of_ne_nil (by simp)] at h
    refine List.pairwise_cons.mpr ⟨fun _ _ => h a (by simp), ?_⟩
    exact pairwise_of_dropLast (fun s hs => h s (List.mem_cons_of_mem _ hs))

/-- Timestamps do not decrease along the list. -/
abbrev TsOrd (L : List Rec) : Prop := L.Pairwise (fun a b => a.ts ≤ b.ts)

/-- In an offset-sorted list with non-decreasing timestamps, offsets order timestamps. -/
theorem ts_le_of_offset_le {L : List Rec} (hs : Sorted L) (hm : TsOrd L) {a b : Rec}
    (ha : a ∈ L) (hb : b ∈ L) (h : a.offset ≤ b.offset) : a.ts ≤ b.ts := by
  rcases pairwise_mem_cases (hs.and hm) ha hb with rfl | h1 | h1
  · exact Int.le_refl _
  · exact h1.2
  · have := h1.1; omega

theorem below_mem {P Q : List Rec} {r a : Rec} (hs : Sorted (P ++ r :: Q)) (ha : a ∈ P ++ r :: Q)
    (hlt : a.offset < r.offset) : a ∈ P := by
  rcases List.mem_append.mp ha with ha | ha
  · exact ha
  · rcases List.mem_cons.mp ha with rfl | ha
    · omega
    · have := (pairwise_split hs).2 a ha; omega

theorem above_mem {P Q : List Rec} {r a : Rec} (hs : Sorted (P ++ r :: Q)) (ha : a ∈ P ++ r :: Q)
    (hlt : r.offset < a.offset) : a ∈ Q := by
  rcases List.mem_append.mp ha with ha | ha
  · have := (pairwise_split hs).1 a ha; omega
  · rcases List.mem_cons.mp ha with rfl | ha
    · omega
    · exact ha

/-- A record at or after `t` below which every record is before `t` splits the list at `t`. -/
theorem start_char {L : List Rec} (hs : Sorted L) (hm : TsOrd L) {r : Rec} {t : Int} (hr : r ∈ L)
    (ht : t ≤ r.ts) (hbelow : ∀ a ∈ L, a.offset < r.offset → a.ts < t) :
    ∀ r' ∈ L, (r.offset ≤ r'.offset ↔ t ≤ r'.ts) := by
  intro r' hr'
  constructor
  · intro h
    have := ts_le_of_offset_le hs hm hr hr' h
    omega
  · intro h
    apply Int.le_of_not_gt
    intro hlt
    have := hbelow r' hr' hlt
    omega

/-- A record at or before `t` above which every record is after `t` splits the list at `t`. -/
theorem stop_char {L : List Rec} (hs : Sorted L) (hm : TsOrd L) {r : Rec} {t : Int} (hr : r ∈ L)
    (ht : r.ts ≤ t) (habove : ∀ a ∈ L, r.offset < a.offset → t < a.ts) :
    ∀ r' ∈ L, (r'.offset ≤ r.offset ↔ r'.ts ≤ t) := by
  intro r' hr'
  constructor
  · intro h
    have := ts_le_of_offset_le hs hm hr' hr h
    omega
  · intro h
    apply Int.le_of_not_gt
    intro hlt
    have := habove r' hr' hlt
    omega

/-! ### Timestamp lookups: the searches -/

/-- The predicate of `findSegmentIndexByTimestamp` (post-fix: an empty segment sorts last). -/
def tsSegPred (t : Int) (s : Seg) : Bool :=
  match s.recs.head? with
  | none => true
  | some r => decide (r.ts > t)

theorem findSegIdxByTs_eq (segs : List Seg) (t : Int) :
    findSegIdxByTs segs t false = (searchIdx segs (tsSegPred t), false) := by
  unfold findSegIdxByTs
  rw [goSearchErr_spec]
  · unfold searchIdx
    congr 2
    funext i
    cases hi : segs[i]? with
    | none => rfl
    | some s =>
      simp only [tsSegPred]
      cases s.recs.head? <;>
        simp [Gen.Subscribe.tsEmptySegNoError, Gen.Log.findSegmentTsCmp, Cmp.evalInt]
  · intro i hi
    rw [List.getElem?_eq_getElem hi]
    simp only
    cases segs[i].recs.head? <;> simp [Gen.Subscribe.tsEmptySegNoError]

/-- The inclusive search (`>= t`) is the exclusive one for `t - 1`. -/
theorem findSegIdxByTs_incl_eq (segs : List Seg) (t : Int) :
    findSegIdxByTs segs t true = (searchIdx segs (tsSegPred (t - 1)), false) := by
  unfold findSegIdxByTs
  rw [goSearchErr_spec]
  · unfold searchIdx
    congr 2
    funext i
    cases hi : segs[i]? with
    | none => rfl
    | some s =>
      simp only [tsSegPred]
      cases hh : s.recs.head? with
      | none => simp [Gen.Subscribe.tsEmptySegNoError]
      | some r =>
        simp only [Gen.Log.findSegmentTsCmp, Cmp.evalInt, Bool.true_and, Option.getD_some]
        by_cases c : r.ts = t
        · simp [c]; omega
        · by_cases c2 : r.ts > t
          · have : r.ts > t - 1 := by omega
            simp [c, c2, this]
          · have : ¬ r.ts > t - 1 := by omega
            simp [c, c2, this]
  · intro i hi
    rw [List.getElem?_eq_getElem hi]
    simp only
    cases segs[i].recs.head? <;> simp [Gen.Subscribe.tsEmptySegNoError]

theorem findEntryByTs_eq (s : Seg) (t : Int) :
    findEntryByTs s t = s.recs[searchIdx s.recs (fun r => decide (r.ts ≥ t))]? := by
  unfold findEntryByTs searchIdx
  dsimp only
  congr 2
  funext i
  cases s.recs[i]? <;> rfl

theorem tsOrd_mono_ge {rs : List Rec} (hm : TsOrd rs) (t : Int) :
    Mono rs (fun r => decide (r.ts ≥ t)) := by
  unfold Mono
  refine List.Pairwise.imp ?_ hm
  intro a b hab
  simp only [decide_eq_true_eq]
  omega

theorem tsOrd_mono_gt {rs : List Rec} (hm : TsOrd rs) (t : Int) :
    Mono rs (fun r => decide (r.ts > t)) := by
  unfold Mono
  refine List.Pairwise.imp ?_ hm
  intro a b hab
  simp only [decide_eq_true_eq]
  omega

/-- `findEntryByTimestamp` on a segment with non-decreasing timestamps. -/
theorem findEntryByTs_cases {s : Seg} (hm : TsOrd s.recs) (t : Int) :
    ((∀ a ∈ s.recs, a.ts < t) ∧ findEntryByTs s t = none) ∨
    ∃ rp r rq, s.recs = rp ++ r :: rq ∧ t ≤ r.ts ∧ (∀ a ∈ rp, a.ts < t) ∧
      findEntryByTs s t = some r := by
  rw [findEntryByTs_eq]
  rcases searchIdx_cases (tsOrd_mono_ge hm t) with ⟨hall, hidx⟩ | ⟨rp, r, rq, hx, hq, hpre, hidx⟩
  · left
    refine ⟨fun a ha => ?_, by rw [hidx]; simp⟩
    have := hall a ha
    simp only [decide_eq_false_iff_not] at this
    omega
  · right
    refine ⟨rp, r, rq, hx, by simpa using hq, fun a ha => ?_, by rw [hidx, hx]; simp⟩
    have := hpre a ha
    simp only [decide_eq_false_iff_not] at this
    omega

/-- The slot search of `findLatestEntryByTimestamp`. -/
theorem latestIdx_cases {rs : List Rec} (hm : TsOrd rs) (t : Int) :
    ((∀ a ∈ rs, a.ts ≤ t) ∧ searchIdx rs (fun r => decide (r.ts > t)) = rs.length) ∨
    ∃ rp r rq, rs = rp ++ r :: rq ∧ t < r.ts ∧ (∀ a ∈ rp, a.ts ≤ t) ∧
      searchIdx rs (fun r => decide (r.ts > t)) = rp.length := by
  rcases searchIdx_cases (tsOrd_mono_gt hm t) with ⟨hall, hidx⟩ | ⟨rp, r, rq, hx, hq, hpre, hidx⟩
  · left
    refine ⟨fun a ha => ?_, hidx⟩
    have := hall a ha
    simp only [decide_eq_false_iff_not] at this
    omega
  · right
    refine ⟨rp, r, rq, hx, by simpa using hq, fun a ha => ?_, hidx⟩
    have := hpre a ha
    simp only [decide_eq_false_iff_not] at this
    omega

/-! ### Timestamp lookups: segments -/

theorem tsSegPred_false {t : Int} {s : Seg} (h : tsSegPred t s = false) :
    ∃ f fs, s.recs = f :: fs ∧ f.ts ≤ t := by
  unfold tsSegPred at h
  cases hr : s.recs with
  | nil => simp [hr] at h
  | cons f fs =>
    simp only [hr, List.head?_cons, decide_eq_false_iff_not] at h
    exact ⟨f, fs, rfl, by omega⟩

theorem tsSegPred_true {t : Int} {s : Seg} (h : tsSegPred t s = true) :
    s.recs = [] ∨ ∃ f fs, s.recs = f :: fs ∧ t < f.ts := by
  unfold tsSegPred at h
  cases hr : s.recs with
  | nil => exact Or.inl rfl
  | cons f fs =>
    simp only [hr, List.head?_cons, decide_eq_true_eq] at h
    exact Or.inr ⟨f, fs, rfl, by omega⟩

theorem segMono {l : CLog} (h : InvC l) (hm : TsOrd l.abs) (t : Int) :
    Mono l.segs (tsSegPred t) := by
  have h1 := (List.pairwise_flatMap.mp hm).2
  have h2 := pairwise_of_dropLast h.inner_nonempty
  unfold Mono
  refine List.Pairwise.imp ?_ (h1.and h2)
  rintro a b ⟨hab, hne⟩ hq
  rcases tsSegPred_true hq with ha | ⟨f, fs, ha, hf⟩
  · exact absurd ha hne
  · unfold tsSegPred
    cases hb : b.recs with
    | nil => rfl
    | cons y ys =>
      have := hab f (by simp [ha]) y (by simp [hb])
      simp only [List.head?_cons, decide_eq_true_eq]
      omega

theorem notLastNe {l : CLog} (h : InvC l) {pre post : List Seg} {x b : Seg}
    (hs : l.segs = pre ++ x :: b :: post) : x.recs ≠ [] := by
  apply h.inner_nonempty
  rw [hs, List.dropLast_append_of_ne_nil (by simp), List.dropLast_cons_of_ne_nil (by simp)]
  simp

theorem segTsOrd {l : CLog} (_h : InvC l) (hm : TsOrd l.abs) {s : Seg} (hs : s ∈ l.segs) :
    TsOrd s.recs := (List.pairwise_flatMap.mp hm).1 s hs

theorem ltLastNext {l : CLog} (h : InvC l) : ∀ r ∈ l.abs, r.offset < lastNextOffset l.segs := by
  intro r hr
  rcases List.eq_nil_or_concat l.segs with hn | ⟨init, last, hl⟩
  · exact absurd hn h.nonempty
  · rw [List.concat_eq_append] at hl
    have hlast : lastNextOffset l.segs = last.nextOffset := by
      simp [lastNextOffset, hl]
    have ok : SegOK last := h.wfc.segOK (by simp [hl])
    rw [hlast]
    have hr' : r ∈ init.flatMap Seg.recs ∨ r ∈ last.recs := by
      simpa [abs, hl] using hr
    rcases hr' with hr' | hr'
    · have := h.wfc.pre_lt hl r hr'
      have := ok.base_le_next
      omega
    · exact ok.lt_next r hr'

/-- Where the segment search lands: on the first segment (whose first record is after `t`, or
which is empty), or right after the last segment `y` whose first record is at or before `t`. -/
theorem tsIdx_cases {l : CLog} (h : InvC l) (hm : TsOrd l.abs) (t : Int) :
    (searchIdx l.segs (tsSegPred t) = 0 ∧ ∃ x post, l.segs = x :: post ∧ tsSegPred t x = true) ∨
    ∃ init y rest, l.segs = init ++ y :: rest ∧ searchIdx l.segs (tsSegPred t) = init.length + 1 ∧
      tsSegPred t y = false ∧ (rest = [] ∨ ∃ x post, rest = x :: post ∧ tsSegPred t x = true) := by
  rcases searchIdx_cases (segMono h hm t) with ⟨hall, hidx⟩ | ⟨pre, x, post, hx, hq, hpre, hidx⟩
  · right
    rcases List.eq_nil_or_concat l.segs with hn | ⟨init, y, hl⟩
    · exact absurd hn h.nonempty
    · rw [List.concat_eq_append] at hl
      refine ⟨init, y, [], hl, ?_, hall y (by simp [hl]), Or.inl rfl⟩
      rw [hidx, hl]; simp
  · rcases List.eq_nil_or_concat pre with hn | ⟨init, y, hl⟩
    · subst hn
      exact Or.inl ⟨by simpa using hidx, x, post, hx, hq⟩
    · rw [List.concat_eq_append] at hl
      subst hl
      right
      refine ⟨init, y, x :: post, by simpa using hx, by simpa using hidx, hpre y (by simp),
        Or.inr ⟨x, post, rfl, hq⟩⟩

theorem abs_split {l : CLog} {init rest : List Seg} {y : Seg} {rp rq : List Rec} {r : Rec}
    (hsegs : l.segs = init ++ y :: rest) (hy : y.recs = rp ++ r :: rq) :
    l.abs = (init.flatMap Seg.recs ++ rp) ++ r :: (rq ++ rest.flatMap Seg.recs) := by
  simp [abs, hsegs, hy]

/-- Everything in earlier segments precedes the first record of a segment. -/
theorem init_before {l : CLog} (h : InvC l) (hm : TsOrd l.abs) {init rest : List Seg} {y : Seg}
    {f : Rec} {fs : List Rec} (hsegs : l.segs = init ++ y :: rest) (hy : y.recs = f :: fs) :
    ∀ a ∈ init.flatMap Seg.recs, a.offset < f.offset ∧ a.ts ≤ f.ts := by
  have e := abs_split (rp := []) hsegs hy
  simp only [List.append_nil] at e
  have hb := h.sorted.and hm
  rw [e] at hb
  exact (pairwise_split hb).1

theorem end_char {l : CLog} (h : InvC l) {t : Int} (hall : ∀ a ∈ l.abs, a.ts < t) :
    ∀ r ∈ l.abs, (lastNextOffset l.segs ≤ r.offset ↔ t ≤ r.ts) := by
  intro r hr
  have := hall r hr
  have := ltLastNext h r hr
  omega

/-- `EarliestOffsetAfterTimestamp` (inclusive segment search) splits the log at `t`. -/
theorem earliestAfterTs_spec (l : CLog) (t : Int) (h : InvC l) (hm : TsOrd l.abs) :
    ∃ s, earliestAfterTs l t = .ok s ∧ ∀ r ∈ l.abs, (s ≤ r.offset ↔ t ≤ r.ts) := by
  unfold earliestAfterTs
  rw [show Gen.Subscribe.tsEarliestInclusive = true from rfl, findSegIdxByTs_incl_eq]
  simp only [Bool.false_eq_true, if_false]
  obtain ⟨idx, hi⟩ : ∃ idx, searchIdx l.segs (tsSegPred (t - 1)) = idx := ⟨_, rfl⟩
  rw [hi]
  rcases tsIdx_cases h hm (t - 1) with ⟨hidx, x, post, hsegs, hq⟩ | ⟨init, y, rest, hsegs, hidx, hq, hrest⟩
  · rw [hi] at hidx
    subst hidx
    have hxm : x ∈ l.segs := by simp [hsegs]
    rcases findEntryByTs_cases (segTsOrd h hm hxm) t with ⟨hall, hfe⟩ | ⟨rp, r, rq, hx, hr, hrp, hfe⟩
    · have hxe : x.recs = [] := by
        rcases tsSegPred_true hq with he | ⟨f, fs, he, hf⟩
        · exact he
        · have := hall f (by simp [he]); omega
      have hpost : post = [] := by
        cases post with
        | nil => rfl
        | cons b post' => exact absurd hxe (notLastNe h (pre := []) hsegs)
      subst hpost
      have habs : l.abs = [] := by simp [abs, hsegs, hxe]
      refine ⟨lastNextOffset l.segs, ?_, by simp [habs]⟩
      simp [hsegs, hfe, Gen.Subscribe.tsNextSegCmp, Gen.Subscribe.tsNextSegOff, Cmp.evalInt]
    · refine ⟨r.offset, by simp [hsegs, hfe], ?_⟩
      have e := abs_split (init := []) hsegs hx
      refine start_char h.sorted hm (by simp [e]) hr ?_
      intro a ha hlt
      have hs := h.sorted
      rw [e] at ha hs
      have := below_mem hs ha hlt
      simp only [List.flatMap_nil, List.nil_append] at this
      exact hrp a this
  · rw [hi] at hidx
    subst hidx
    obtain ⟨f, fs, hyf, hft⟩ := tsSegPred_false hq
    have hym : y ∈ l.segs := by simp [hsegs]
    have hinit := init_before h hm hsegs hyf
    rcases findEntryByTs_cases (segTsOrd h hm hym) t with ⟨hall, hfe⟩ | ⟨rp, r, rq, hx, hr, hrp, hfe⟩
    · -- nothing in `y` is at or after `t`
      have hinit' : ∀ a ∈ init.flatMap Seg.recs, a.ts < t := by
        intro a ha
        have := (hinit a ha).2
        have := hall f (by simp [hyf])
        omega
      rcases hrest with hrest | ⟨x, post, hrest, hqx⟩
      · subst hrest
        refine ⟨lastNextOffset l.segs, ?_, end_char h ?_⟩
        · simp [hsegs, hfe, Gen.Subscribe.tsNextSegCmp, Gen.Subscribe.tsNextSegOff, Cmp.evalInt]
        · intro a ha
          have : a ∈ init.flatMap Seg.recs ∨ a ∈ y.recs := by simpa [abs, hsegs] using ha
          rcases this with ha | ha
          · exact hinit' a ha
          · exact hall a ha
      · subst hrest
        have hsegs' : l.segs = (init ++ [y]) ++ x :: post := by simp [hsegs]
        have hxm : x ∈ l.segs := by simp [hsegs]
        have hpre : ∀ a ∈ (init ++ [y]).flatMap Seg.recs, a.ts < t := by
          intro a ha
          have : a ∈ init.flatMap Seg.recs ∨ a ∈ y.recs := by simpa using ha
          rcases this with ha | ha
          · exact hinit' a ha
          · exact hall a ha
        rcases findEntryByTs_cases (segTsOrd h hm hxm) t with
          ⟨hallx, hfex⟩ | ⟨rp, r, rq, hx, hr, hrp, hfex⟩
        · have hxe : x.recs = [] := by
            rcases tsSegPred_true hqx with he | ⟨g, gs, he, hg⟩
            · exact he
            · have := hallx g (by simp [he]); omega
          have hpost : post = [] := by
            cases post with
            | nil => rfl
            | cons b post' => exact absurd hxe (notLastNe h hsegs')
          subst hpost
          refine ⟨lastNextOffset l.segs, ?_, end_char h ?_⟩
          · simp [hsegs, hfe, hfex, Gen.Subscribe.tsNextSegCmp, Gen.Subscribe.tsNextSegOff,
              Cmp.evalInt]
          · intro a ha
            have : a ∈ (init ++ [y]).flatMap Seg.recs := by
              simpa [abs, hsegs, hxe] using ha
            exact hpre a this
        · refine ⟨r.offset, ?_, ?_⟩
          · simp [hsegs, hfe, hfex, Gen.Subscribe.tsNextSegCmp, Gen.Subscribe.tsNextSegOff,
              Cmp.evalInt]
            intro hc; omega
          · have e := abs_split hsegs' hx
            refine start_char h.sorted hm (by simp [e]) hr ?_
            intro a ha hlt
            have hs := h.sorted
            rw [e] at ha hs
            rcases List.mem_append.mp (below_mem hs ha hlt) with ha | ha
            · exact hpre a ha
            · exact hrp a ha
    · refine ⟨r.offset, by simp [hsegs, hfe], ?_⟩
      have e := abs_split hsegs hx
      refine start_char h.sorted hm (by simp [e]) hr ?_
      intro a ha hlt
      have hs := h.sorted
      rw [e] at ha hs
      rcases List.mem_append.mp (below_mem hs ha hlt) with ha | ha
      · have h1 := hinit a ha
        omega
      · exact hrp a ha

/-- From a segment on which the segment predicate holds, every record is after `t`. -/
theorem rest_after {l : CLog} (h : InvC l) (hm : TsOrd l.abs) {t : Int} {pre post : List Seg} {x : Seg}
    (hsegs : l.segs = pre ++ x :: post) (hq : tsSegPred t x = true) :
    ∀ a ∈ (x :: post).flatMap Seg.recs, t < a.ts := by
  rcases tsSegPred_true hq with he | ⟨g, gs, he, hg⟩
  · have hpost : post = [] := by
      cases post with
      | nil => rfl
      | cons b post' => exact absurd he (notLastNe h hsegs)
    subst hpost
    simp [he]
  · have e := abs_split (rp := []) hsegs he
    simp only [List.append_nil] at e
    rw [e] at hm
    have := (pairwise_split hm).2
    intro a ha
    have ha' : a = g ∨ a ∈ gs ++ post.flatMap Seg.recs := by
      simpa [he] using ha
    rcases ha' with rfl | ha'
    · exact hg
    · have := this a ha'; omega

theorem latestBeforeTs_spec (l : CLog) (t : Int) (h : InvC l) (hm : TsOrd l.abs)
    (hex : ∃ r ∈ l.abs, r.ts ≤ t) :
    ∃ s, latestBeforeTs l t = .ok s ∧ (∃ r ∈ l.abs, r.offset = s) ∧
      ∀ r ∈ l.abs, (r.offset ≤ s ↔ r.ts ≤ t) := by
  unfold latestBeforeTs
  rw [findSegIdxByTs_eq]
  simp only [Bool.false_eq_true, if_false]
  obtain ⟨idx, hi⟩ : ∃ idx, searchIdx l.segs (tsSegPred t) = idx := ⟨_, rfl⟩
  rw [hi]
  rcases tsIdx_cases h hm t with ⟨hidx, x, post, hsegs, hq⟩ | ⟨init, y, rest, hsegs, hidx, hq, hrest⟩
  · exfalso
    obtain ⟨r, hr, hrt⟩ := hex
    have := rest_after h hm (pre := []) hsegs hq r (by simpa [abs, hsegs] using hr)
    omega
  · rw [hi] at hidx
    subst hidx
    obtain ⟨f, fs, hyf, hft⟩ := tsSegPred_false hq
    have hym : y ∈ l.segs := by simp [hsegs]
    -- the slot search inside `y`
    have hslot : ∃ rp r tail, y.recs = rp ++ r :: tail ∧ r.ts ≤ t ∧
        (∀ a ∈ tail ++ rest.flatMap Seg.recs, t < a.ts) ∧
        searchIdx y.recs (fun r => decide (r.ts > t)) = rp.length + 1 := by
      rcases latestIdx_cases (segTsOrd h hm hym) t with ⟨hall, hidx⟩ | ⟨rp, r1, rq, hx, hr1, hrp, hidx⟩
      · rcases List.eq_nil_or_concat y.recs with hn | ⟨rp, r, hy⟩
        · rw [hn] at hyf; cases hyf
        · rw [List.concat_eq_append] at hy
          refine ⟨rp, r, [], hy, hall r (by simp [hy]), ?_, by rw [hidx, hy]; simp⟩
          intro a ha
          simp only [List.nil_append] at ha
          rcases hrest with hrest | ⟨x, post, hrest, hqx⟩
          · subst hrest; simp at ha
          · subst hrest
            exact rest_after h hm (pre := init ++ [y]) (by simp [hsegs]) hqx a ha
      · rcases List.eq_nil_or_concat rp with hn | ⟨rp', r, hrp'⟩
        · subst hn
          rw [hyf] at hx
          simp only [List.nil_append, List.cons.injEq] at hx
          have := hx.1
          subst this
          omega
        · rw [List.concat_eq_append] at hrp'
          subst hrp'
          refine ⟨rp', r, r1 :: rq, by simp [hx], hrp r (by simp), ?_, by simp [hidx]⟩
          have e := abs_split hsegs hx
          rw [e] at hm
          have := (pairwise_split hm).2
          intro a ha
          have ha' : a = r1 ∨ a ∈ rq ++ rest.flatMap Seg.recs := by
            simpa using ha
          rcases ha' with rfl | ha'
          · exact hr1
          · have := this a ha'; omega
    obtain ⟨rp, r, tail, hy, hrt, htail, hidx⟩ := hslot
    have e := abs_split hsegs hy
    have hrm : r ∈ l.abs := by simp [e]
    refine ⟨r.offset, ?_, ⟨r, hrm, rfl⟩, stop_char h.sorted hm hrm hrt ?_⟩
    · simp only [hsegs]
      simp only [Nat.add_eq_zero_iff, Nat.succ_ne_self, and_false, if_false, Nat.add_sub_cancel,
        List.getElem?_append_right (Nat.le_refl _), Nat.sub_self, List.getElem?_cons_zero,
        false_and, Gen.Subscribe.tsLatestExact, if_true]
      generalize hgi : goSearch y.recs.length _ = i
      have hi' : i = searchIdx y.recs (fun r => decide (r.ts > t)) := by
        rw [← hgi]
        unfold searchIdx
        congr 1
        funext j
        cases y.recs[j]? <;> simp [Gen.Subscribe.tsLatestCmp, Cmp.evalInt]
      rw [hi', hidx]
      simp [hy]
    · intro a ha hlt
      have hs := h.sorted
      rw [e] at ha hs
      exact htail a (above_mem hs ha hlt)

theorem latestBeforeTs_refused (l : CLog) (t : Int) (h : InvC l) (hm : TsOrd l.abs)
    (hnone : ∀ r ∈ l.abs, t < r.ts) : ∃ e, latestBeforeTs l t = .err e := by
  unfold latestBeforeTs
  rw [findSegIdxByTs_eq]
  simp only [Bool.false_eq_true, if_false]
  obtain ⟨idx, hi⟩ : ∃ idx, searchIdx l.segs (tsSegPred t) = idx := ⟨_, rfl⟩
  rw [hi]
  rcases tsIdx_cases h hm t with ⟨hidx, x, post, hsegs, hq⟩ | ⟨init, y, rest, hsegs, hidx, hq, hrest⟩
  · rw [hi] at hidx
    subst hidx
    refine ⟨"timestamp", ?_⟩
    rcases tsSegPred_true hq with he | ⟨g, gs, he, hg⟩
    · simp [hsegs, Gen.Subscribe.tsLatestEmptyCheck, Seg.isEmpty, Seg.firstOffset, he]
    · simp [hsegs, Seg.firstTs, he, hg]
  · exfalso
    obtain ⟨f, fs, hyf, hft⟩ := tsSegPred_false hq
    have := hnone f (by simp [abs, hsegs, hyf])
    omega

/-! ### The delivery loop -/

theorem deliverFwd_spec (stop : Int) : ∀ (rs : List Rec), Sorted rs → (∀ r ∈ rs, 0 ≤ r.offset) →
    (deliverFwd stop rs).1 = rs.filter (fun r => decide (stop = waitForNew ∨ r.offset ≤ stop)) ∧
    ((deliverFwd stop rs).2 = true ↔ stop ≠ waitForNew ∧ ∃ r ∈ rs, stop ≤ r.offset) := by
  intro rs
  induction rs with
  | nil => intro _ _; simp [deliverFwd]
  | cons r rs ih =>
    intro hs hnn
    have hs' := List.pairwise_cons.mp hs
    have hr0 : 0 ≤ r.offset := hnn r (by simp)
    obtain ⟨ih1, ih2⟩ := ih hs'.2 (fun a ha => hnn a (by simp [ha]))
    unfold deliverFwd
    simp only [Gen.Subscribe.stopBeyondCheck, Bool.true_and]
    by_cases h1 : stop ≠ waitForNew ∧ r.offset > stop
    · have hc : (decide (stop ≠ waitForNew) && decide (r.offset > stop)) = true := by simp [h1]
      rw [if_pos hc]
      refine ⟨?_, by simp only [true_iff]; exact ⟨h1.1, r, by simp, by omega⟩⟩
      symm
      apply List.filter_eq_nil_iff.mpr
      intro a ha
      have : r.offset ≤ a.offset := by
        rcases List.mem_cons.mp ha with rfl | ha
        · exact Int.le_refl _
        · have := hs'.1 a ha; omega
      simp only [decide_eq_true_eq]
      omega
    · have hc : ¬ ((decide (stop ≠ waitForNew) && decide (r.offset > stop)) = true) := by
        simpa using h1
      rw [if_neg hc]
      by_cases h2 : r.offset = stop
      · rw [if_pos h2]
        have hne : stop ≠ waitForNew := by unfold waitForNew; omega
        refine ⟨?_, by simp only [true_iff]; exact ⟨hne, r, by simp, by omega⟩⟩
        have hrest : rs.filter (fun r => decide (stop = waitForNew ∨ r.offset ≤ stop)) = [] := by
          apply List.filter_eq_nil_iff.mpr
          intro a ha
          have := hs'.1 a ha
          simp only [decide_eq_true_eq]
          omega
        rw [List.filter_cons, hrest]
        simp [h2]
      · rw [if_neg h2]
        have hpass : stop = waitForNew ∨ r.offset ≤ stop := by
          by_cases h3 : stop = waitForNew
          · exact Or.inl h3
          · right
            apply Int.le_of_not_gt
            intro hgt
            exact h1 ⟨h3, hgt⟩
        refine ⟨?_, ?_⟩
        · simp only [List.filter_cons, hpass, decide_true, if_true, ← ih1]
        · show (deliverFwd stop rs).2 = true ↔ _
          rw [ih2]
          constructor
          · rintro ⟨hne, a, ha, hle⟩
            exact ⟨hne, a, by simp [ha], hle⟩
          · rintro ⟨hne, a, ha, hle⟩
            refine ⟨hne, ?_⟩
            rcases List.mem_cons.mp ha with rfl | ha
            · exfalso
              rcases hpass with hp | hp
              · exact hne hp
              · omega
            · exact ⟨a, ha, hle⟩

/-- Strictly decreasing offsets (the order of the reverse reader). -/
abbrev SortedDesc (rs : List Rec) : Prop := rs.Pairwise (fun a b => b.offset < a.offset)

theorem deliverRev_spec (stop : Int) : ∀ (rs : List Rec), SortedDesc rs → (∀ r ∈ rs, 0 ≤ r.offset) →
    (deliverRev stop rs).1 = rs.filter (fun r => decide (stop = waitForNew ∨ stop ≤ r.offset)) := by
  intro rs
  induction rs with
  | nil => intro _ _; simp [deliverRev]
  | cons r rs ih =>
    intro hs hnn
    have hs' := List.pairwise_cons.mp hs
    have hr0 : 0 ≤ r.offset := hnn r (by simp)
    have ih1 := ih hs'.2 (fun a ha => hnn a (by simp [ha]))
    unfold deliverRev
    simp only [Gen.Subscribe.stopBeyondCheck, Bool.true_and]
    by_cases h1 : stop ≠ waitForNew ∧ r.offset < stop
    · have hc : (decide (stop ≠ waitForNew) && decide (r.offset < stop)) = true := by simp [h1]
      rw [if_pos hc]
      symm
      apply List.filter_eq_nil_iff.mpr
      intro a ha
      have : a.offset ≤ r.offset := by
        rcases List.mem_cons.mp ha with rfl | ha
        · exact Int.le_refl _
        · have := hs'.1 a ha; omega
      simp only [decide_eq_true_eq]
      omega
    · have hc : ¬ ((decide (stop ≠ waitForNew) && decide (r.offset < stop)) = true) := by
        simpa using h1
      rw [if_neg hc]
      by_cases h2 : r.offset = stop
      · rw [if_pos h2]
        have hne : stop ≠ waitForNew := by unfold waitForNew; omega
        have hrest : rs.filter (fun r => decide (stop = waitForNew ∨ stop ≤ r.offset)) = [] := by
          apply List.filter_eq_nil_iff.mpr
          intro a ha
          have := hs'.1 a ha
          simp only [decide_eq_true_eq]
          omega
        rw [List.filter_cons, hrest]
        simp [h2]
      · rw [if_neg h2]
        have hpass : stop = waitForNew ∨ stop ≤ r.offset := by
          by_cases h3 : stop = waitForNew
          · exact Or.inl h3
          · right
            apply Int.le_of_not_gt
            intro hgt
            exact h1 ⟨h3, hgt⟩
        simp only [List.filter_cons, hpass, decide_true, if_true, ← ih1]

/-! ### Draining a forward subscription -/

theorem abs_nonneg {l : CLog} (h : InvC l) : ∀ r ∈ l.abs, 0 ≤ r.offset := by
  intro r hr
  obtain ⟨s, hs, hrs⟩ := List.mem_flatMap.mp hr
  have := h.base_le s hs
  have := this.2 r hrs
  omega

theorem abs_nil_of_oldest {l : CLog} (h : InvC l) (ho : l.oldest = -1) : l.abs = [] := by
  apply Classical.byContradiction
  intro hne
  exact h.oldest_ne hne ho

/-- The committed reader from any non-negative position, parking branch included. -/
theorem readCommitted_sub {l : CLog} (h : InvC l) (hhw : l.hw = -1 ∨ ∃ r ∈ l.abs, r.offset = l.hw)
    {n : Int} (hn : 0 ≤ n) :
    l.readCommitted n = .ok (l.abs.filter (fun r => decide (n ≤ r.offset ∧ r.offset ≤ l.hw))) := by
  by_cases hpark : n > l.hw ∨ l.oldest = -1
  · have hnil : l.abs.filter (fun r => decide (n ≤ r.offset ∧ r.offset ≤ l.hw)) = [] := by
      rcases hpark with hp | hp
      · apply List.filter_eq_nil_iff.mpr
        intro a _
        simp only [decide_eq_true_eq]
        omega
      · rw [abs_nil_of_oldest h hp]; rfl
    rw [hnil]
    unfold readCommitted
    have hc : (Gen.Log.readerBeyondHWCmp.evalInt n l.hw || decide (l.oldest = -1)) = true := by
      simpa [Gen.Log.readerBeyondHWCmp, Cmp.evalInt] using hpark
    rw [if_pos hc]
  · have h1 : n ≤ l.hw := by omega
    have h2 : l.oldest ≠ -1 := fun hc => hpark (Or.inr hc)
    rcases hhw with hhw | hhw
    · omega
    · exact readCommitted_eq_wfc h.wfc h2 n hhw h1

/-- Where a subscription continues after delivering `d`. -/
def nextAfter (d : List Rec) (dflt : Int) : Int :=
  match d.getLast? with
  | some r => r.offset + 1
  | none => dflt

/-- The range a forward subscription must deliver (`Props.C10.fwdRange`). -/
def fwdR (l : CLog) (next stop : Int) : List Rec :=
  l.abs.filter (fun r => next ≤ r.offset ∧ r.offset ≤ l.hw ∧ (stop = waitForNew ∨ r.offset ≤ stop))

/-- Closed form of a drain of a live forward subscription. -/
theorem drain_spec (l : CLog) (s : Sub) (h : InvC l) (hhw : l.hw = -1 ∨ ∃ r ∈ l.abs, r.offset = l.hw)
    (hlive : s.ended = false) (hnext : 0 ≤ s.nextOff) :
    ∃ stopped : Bool,
      (stopped = true ↔ s.stop ≠ waitForNew ∧
        ∃ r ∈ l.abs, s.nextOff ≤ r.offset ∧ r.offset ≤ l.hw ∧ s.stop ≤ r.offset) ∧
      drain l s = (fwdR l s.nextOff s.stop,
        (if stopped then Ending.status "ResourceExhausted:stop"
         else if l.readonly && decide (l.hw = l.newest) then Ending.status "ResourceExhausted:readonly"
         else Ending.waiting),
        { s with nextOff := nextAfter (fwdR l s.nextOff s.stop) s.nextOff,
                 ended := stopped || (l.readonly && decide (l.hw = l.newest)) }) := by
  have hr := readCommitted_sub h hhw hnext
  generalize hrs : l.abs.filter (fun r => decide (s.nextOff ≤ r.offset ∧ r.offset ≤ l.hw)) = rs at hr
  have hsub : rs.Sublist l.abs := by rw [← hrs]; exact List.filter_sublist
  have hsorted : Sorted rs := h.sorted.sublist hsub
  have hnn : ∀ r ∈ rs, 0 ≤ r.offset := fun r hr => abs_nonneg h r (hsub.subset hr)
  obtain ⟨hd1, hd2⟩ := deliverFwd_spec s.stop rs hsorted hnn
  have hmem : ∀ r, r ∈ rs ↔ r ∈ l.abs ∧ s.nextOff ≤ r.offset ∧ r.offset ≤ l.hw := by
    intro r; rw [← hrs]; simp
  have hfw : rs.filter (fun r => decide (s.stop = waitForNew ∨ r.offset ≤ s.stop)) =
      fwdR l s.nextOff s.stop := by
    rw [← hrs, List.filter_filter]
    unfold fwdR
    apply List.filter_congr
    intro x _
    by_cases c1 : s.nextOff ≤ x.offset <;> by_cases c2 : x.offset ≤ l.hw <;>
      by_cases c3 : (s.stop = waitForNew ∨ x.offset ≤ s.stop) <;> simp [c1, c2, c3]
  rcases hdel : deliverFwd s.stop rs with ⟨d, st⟩
  rw [hdel] at hd1 hd2
  simp only at hd1 hd2
  rw [hfw] at hd1
  subst hd1
  refine ⟨st, ?_, ?_⟩
  · rw [hd2]
    constructor
    · rintro ⟨hne, r, hr, hle⟩
      exact ⟨hne, r, ((hmem r).mp hr).1, ((hmem r).mp hr).2.1, ((hmem r).mp hr).2.2, hle⟩
    · rintro ⟨hne, r, hr, h1, h2, hle⟩
      exact ⟨hne, r, (hmem r).mpr ⟨hr, h1, h2⟩, hle⟩
  · unfold drain
    simp only [hlive, Bool.false_eq_true, if_false, hr, hdel]
    cases st with
    | true =>
      simp [nextAfter]
      cases (fwdR l s.nextOff s.stop).getLast? <;> rfl
    | false =>
      -- nothing stopped the loop: everything read was delivered
      have hall : fwdR l s.nextOff s.stop = rs := by
        rw [← hfw]
        apply List.filter_eq_self.mpr
        intro a ha
        simp only [decide_eq_true_eq]
        by_cases h3 : s.stop = waitForNew
        · exact Or.inl h3
        · right
          apply Int.le_of_not_gt
          intro hgt
          have : (false = true) := hd2.mpr ⟨h3, a, ha, by omega⟩
          cases this
      simp only [Bool.false_eq_true, if_false, hall, decide_true, Bool.and_true, Bool.false_or]
      cases hro : (l.readonly && decide (l.hw = l.newest)) <;> simp [nextAfter] <;>
        (cases rs.getLast? <;> rfl)

theorem mem_fwdR {l : CLog} {next stop : Int} {r : Rec} :
    r ∈ fwdR l next stop ↔ r ∈ l.abs ∧ next ≤ r.offset ∧ r.offset ≤ l.hw ∧
      (stop = waitForNew ∨ r.offset ≤ stop) := by
  simp [fwdR]

theorem fwdR_sorted {l : CLog} (h : InvC l) (next stop : Int) : Sorted (fwdR l next stop) :=
  h.sorted.sublist List.filter_sublist

theorem nextAfter_ge {d : List Rec} {n : Int} (hd : ∀ r ∈ d, n ≤ r.offset) : n ≤ nextAfter d n := by
  unfold nextAfter
  cases hl : d.getLast? with
  | none => exact Int.le_refl _
  | some r =>
    have := hd r (List.mem_of_getLast? hl)
    simp only
    omega

theorem lt_nextAfter {d : List Rec} (hs : Sorted d) (n : Int) : ∀ r ∈ d, r.offset < nextAfter d n := by
  intro r hr
  rcases List.eq_nil_or_concat d with hn | ⟨init, z, hz⟩
  · rw [hn] at hr; cases hr
  · rw [List.concat_eq_append] at hz
    subst hz
    have hn : nextAfter (init ++ [z]) n = z.offset + 1 := by simp [nextAfter]
    rw [hn]
    rcases List.mem_append.mp hr with hr | hr
    · have := (pairwise_split hs).1 r hr; omega
    · simp at hr; subst hr; omega

theorem drain_delivers (l : CLog) (s : Sub) (h : InvC l)
    (hhw : l.hw = -1 ∨ ∃ r ∈ l.abs, r.offset = l.hw)
    (hlive : s.ended = false) (hnext : 0 ≤ s.nextOff) :
    (drain l s).1 = fwdR l s.nextOff s.stop := by
  obtain ⟨st, _, he⟩ := drain_spec l s h hhw hlive hnext
  rw [he]

theorem drain_ending' (l : CLog) (s : Sub) (h : InvC l)
    (hhw : l.hw = -1 ∨ ∃ r ∈ l.abs, r.offset = l.hw)
    (hlive : s.ended = false) (hnext : 0 ≤ s.nextOff) :
    (drain l s).2.1 =
      (if s.stop ≠ waitForNew ∧ ∃ r ∈ l.abs, s.nextOff ≤ r.offset ∧ r.offset ≤ l.hw ∧ s.stop ≤ r.offset
       then Ending.status "ResourceExhausted:stop"
       else if l.readonly = true ∧ l.hw = l.newest then Ending.status "ResourceExhausted:readonly"
       else Ending.waiting) := by
  obtain ⟨st, hst, he⟩ := drain_spec l s h hhw hlive hnext
  rw [he]
  simp only
  cases st with
  | true =>
    rw [if_pos (hst.mp rfl)]
    rfl
  | false =>
    have hn : ¬ (s.stop ≠ waitForNew ∧
        ∃ r ∈ l.abs, s.nextOff ≤ r.offset ∧ r.offset ≤ l.hw ∧ s.stop ≤ r.offset) := by
      intro hc
      have := hst.mpr hc
      cases this
    rw [if_neg hn]
    by_cases hro : l.readonly = true ∧ l.hw = l.newest
    · rw [if_pos hro]
      simp [hro.1, hro.2]
    · rw [if_neg hro]
      have : (l.readonly && decide (l.hw = l.newest)) = false := by
        cases hb : l.readonly
        · rfl
        · simp only [Bool.true_and, decide_eq_false_iff_not]
          exact fun hc => hro ⟨hb, hc⟩
      simp [this]

theorem drain_advances' (l : CLog) (s : Sub) (h : InvC l)
    (hhw : l.hw = -1 ∨ ∃ r ∈ l.abs, r.offset = l.hw)
    (hlive : s.ended = false) (hnext : 0 ≤ s.nextOff)
    (hw : (drain l s).2.1 = Ending.waiting) :
    (drain l s).2.2.ended = false ∧ (drain l s).2.2.stop = s.stop ∧ s.nextOff ≤ (drain l s).2.2.nextOff ∧
    (∀ r ∈ (drain l s).1, r.offset < (drain l s).2.2.nextOff) ∧
    (∀ r ∈ l.abs, (drain l s).2.2.nextOff ≤ r.offset → r.offset ≤ l.hw →
        (s.stop = waitForNew ∨ r.offset ≤ s.stop) → False) := by
  obtain ⟨st, hst, he⟩ := drain_spec l s h hhw hlive hnext
  rw [he] at hw ⊢
  simp only at hw ⊢
  have hst' : st = false := by
    cases st
    · rfl
    · simp at hw
  subst hst'
  have hro : (l.readonly && decide (l.hw = l.newest)) = false := by
    cases hb : (l.readonly && decide (l.hw = l.newest))
    · rfl
    · rw [hb] at hw; simp at hw
  have hge : s.nextOff ≤ nextAfter (fwdR l s.nextOff s.stop) s.nextOff :=
    nextAfter_ge (fun r hr => (mem_fwdR.mp hr).2.1)
  have hlt := lt_nextAfter (fwdR_sorted h s.nextOff s.stop) s.nextOff
  refine ⟨by simp [hro], trivial, hge, hlt, ?_⟩
  intro r hr h1 h2 h3
  have := hlt r (mem_fwdR.mpr ⟨hr, by omega, h2, h3⟩)
  omega

/-- Whatever a (live or ended) forward subscription delivers lies at or after its position. -/
theorem drain_ge (l : CLog) (s : Sub) (h : InvC l) (hhw : l.hw = -1 ∨ ∃ r ∈ l.abs, r.offset = l.hw)
    (hnext : 0 ≤ s.nextOff) : ∀ r ∈ (drain l s).1, s.nextOff ≤ r.offset := by
  intro r hr
  cases hlive : s.ended with
  | true =>
    unfold drain at hr
    simp [hlive] at hr
  | false =>
    rw [drain_delivers l s h hhw hlive hnext] at hr
    exact (mem_fwdR.mp hr).2.1

/-- A drain never moves the position backwards. -/
theorem drain_next_ge (l : CLog) (s : Sub) (h : InvC l)
    (hhw : l.hw = -1 ∨ ∃ r ∈ l.abs, r.offset = l.hw) (hnext : 0 ≤ s.nextOff) :
    s.nextOff ≤ (drain l s).2.2.nextOff := by
  cases hlive : s.ended with
  | true =>
    unfold drain
    simp [hlive]
  | false =>
    obtain ⟨st, hst, he⟩ := drain_spec l s h hhw hlive hnext
    rw [he]
    exact nextAfter_ge (fun r hr => (mem_fwdR.mp hr).2.1)

/-! ### Creation -/

theorem startOffset_nonneg {l : CLog} {p : StartPos} {start : Int}
    (hs : startOffset l p = .ok start) : 0 ≤ start := by
  cases p with
  | offset o =>
    simp only [startOffset, Res.ok.injEq] at hs
    subst hs; split <;> omega
  | earliest =>
    simp only [startOffset, Res.ok.injEq] at hs
    subst hs; split <;> omega
  | latest =>
    simp only [startOffset, Res.ok.injEq] at hs
    subst hs; split <;> omega
  | newOnly =>
    simp only [startOffset, Res.ok.injEq] at hs
    subst hs; split <;> omega
  | timestamp t =>
    simp only [startOffset] at hs
    cases he : earliestAfterTs l t with
    | ok o =>
      rw [he] at hs
      simp only [Res.bind_ok, Res.ok.injEq] at hs
      subst hs; split <;> omega
    | err e => rw [he] at hs; simp at hs
    | panic => rw [he] at hs; simp at hs

/-- The subscription a forward `create` starts from. -/
def fwdSub (l : CLog) (start stop : Int) : Sub :=
  { nextOff := if start ≤ l.hw ∧ l.oldest ≠ -1 then start else l.hw + 1,
    stop := stop, reverse := false, ended := false }

theorem create_fwd_eq (l : CLog) (req : Req) (start stop : Int) (hfwd : req.reverse = false)
    (hs : startOffset l req.start = .ok start)
    (hp : stopOffset l false req.stop = .ok (some stop))
    (hvalid : stop = waitForNew ∨ start ≤ stop) :
    create l req = .live (drain l (fwdSub l start stop)).1 (drain l (fwdSub l start stop)).2.1
      (drain l (fwdSub l start stop)).2.2 := by
  have hnext : (if (Gen.Log.readerBeyondHWCmp.evalInt start l.hw || decide (l.oldest = -1)) = true
      then l.hw + 1 else start) = (if start ≤ l.hw ∧ l.oldest ≠ -1 then start else l.hw + 1) := by
    by_cases c1 : start ≤ l.hw <;> by_cases c2 : l.oldest = -1 <;>
      simp [Gen.Log.readerBeyondHWCmp, Cmp.evalInt, c1, c2] <;> omega
  have hbad : ¬ (stop ≠ waitForNew ∧ stop < start) := by
    rintro ⟨h1, h2⟩
    rcases hvalid with hv | hv
    · exact h1 hv
    · omega
  unfold create
  simp only [hs, hfwd, hp, Bool.false_and, Bool.false_eq_true, if_false, hbad, hnext]
  rfl

/-- A forward `create` that went live resolved a stop position and started from `fwdSub`. -/
theorem create_fwd_inv {l : CLog} {req : Req} {start : Int} {d : List Rec} {e : Ending} {sub : Sub}
    (hfwd : req.reverse = false) (hs : startOffset l req.start = .ok start)
    (hc : create l req = .live d e sub) :
    ∃ stop, d = (drain l (fwdSub l start stop)).1 ∧ e = (drain l (fwdSub l start stop)).2.1 ∧
      sub = (drain l (fwdSub l start stop)).2.2 := by
  cases hp : stopOffset l false req.stop with
  | err x => unfold create at hc; simp [hs, hfwd, hp] at hc
  | panic => unfold create at hc; simp [hs, hfwd, hp] at hc
  | ok o =>
    cases o with
    | none => unfold create at hc; simp [hs, hfwd, hp] at hc
    | some stop =>
      by_cases hbad : stop ≠ waitForNew ∧ stop < start
      · unfold create at hc; simp [hs, hfwd, hp, hbad] at hc
      · have hvalid : stop = waitForNew ∨ start ≤ stop := by
          by_cases h1 : stop = waitForNew
          · exact Or.inl h1
          · right
            apply Int.le_of_not_gt
            intro hgt
            exact hbad ⟨h1, hgt⟩
        rw [create_fwd_eq l req start stop hfwd hs hp hvalid] at hc
        simp only [Created.live.injEq] at hc
        exact ⟨stop, hc.1.symm, hc.2.1.symm, hc.2.2.symm⟩

theorem hw_ge {l : CLog} (h : InvC l) (hhw : l.hw = -1 ∨ ∃ r ∈ l.abs, r.offset = l.hw) :
    -1 ≤ l.hw := by
  rcases hhw with hhw | ⟨r, hr, hrw⟩
  · omega
  · have := abs_nonneg h r hr; omega

theorem fwdSub_nonneg {l : CLog} (h : InvC l) (hhw : l.hw = -1 ∨ ∃ r ∈ l.abs, r.offset = l.hw)
    {start : Int} (hstart : 0 ≤ start) (stop : Int) : 0 ≤ (fwdSub l start stop).nextOff := by
  have := hw_ge h hhw
  unfold fwdSub
  simp only
  split <;> omega

theorem create_forward' (l : CLog) (req : Req) (start stop : Int) (h : InvC l)
    (hhw : l.hw = -1 ∨ ∃ r ∈ l.abs, r.offset = l.hw)
    (hfwd : req.reverse = false) (hs : startOffset l req.start = .ok start)
    (hp : stopOffset l false req.stop = .ok (some stop))
    (hvalid : stop = waitForNew ∨ start ≤ stop) :
    ∃ d e sub, create l req = .live d e sub ∧
      d = fwdR l (if start ≤ l.hw ∧ l.oldest ≠ -1 then start else l.hw + 1) stop := by
  refine ⟨_, _, _, create_fwd_eq l req start stop hfwd hs hp hvalid, ?_⟩
  exact drain_delivers l (fwdSub l start stop) h hhw rfl
    (fwdSub_nonneg h hhw (startOffset_nonneg hs) stop)

theorem create_refuses_inverted' (l : CLog) (req : Req) (start stop : Int)
    (hs : startOffset l req.start = .ok start)
    (hp : stopOffset l req.reverse req.stop = .ok (some stop)) (hne : stop ≠ waitForNew)
    (hinv : if req.reverse then start < stop else stop < start) :
    create l req = .refused "InvalidArgument:stop-start" := by
  unfold create
  simp only [hs, hp]
  cases hr : req.reverse with
  | true =>
    rw [hr] at hinv
    simp only [if_true] at hinv
    simp [Gen.Subscribe.reverseStopRule, hne, hinv]
  | false =>
    rw [hr] at hinv
    simp only [Bool.false_eq_true, if_false] at hinv
    simp [hne, hinv]

theorem never_below_start' (l l' : CLog) (req : Req) (start : Int) (d : List Rec) (e : Ending)
    (sub : Sub) (h : InvC l) (h' : InvC l')
    (hhw : l.hw = -1 ∨ ∃ r ∈ l.abs, r.offset = l.hw)
    (hhw' : l'.hw = -1 ∨ ∃ r ∈ l'.abs, r.offset = l'.hw) (hfwd : req.reverse = false)
    (hs : startOffset l req.start = .ok start) (hc : create l req = .live d e sub)
    (hcase : start ≤ l.hw ∧ l.oldest ≠ -1) :
    ∀ r ∈ (drain l' sub).1, start ≤ r.offset := by
  obtain ⟨stop, _, _, hsub⟩ := create_fwd_inv hfwd hs hc
  have hstart := startOffset_nonneg hs
  have h0 : (fwdSub l start stop).nextOff = start := by
    unfold fwdSub
    simp [hcase]
  have hge := drain_next_ge l (fwdSub l start stop) h hhw (by rw [h0]; exact hstart)
  rw [← hsub, h0] at hge
  intro r hr
  have := drain_ge l' sub h' hhw' (by omega) r hr
  omega

/-! ### Reverse subscriptions -/

theorem reverseRecs_eq (l : CLog) (start : Int) (h : InvC l) (hne : l.hw ≠ -1) (hle : l.hw ≤ l.newest)
    (hstart : 0 ≤ start) :
    reverseRecs l start = .ok ((l.abs.filter
      (fun r => decide (r.offset ≤ (if start > l.hw then l.hw else start)))).reverse) := by
  have heff : (if (decide (start > l.hw) || decide (start = -1)) = true then l.hw else start) =
      (if start > l.hw then l.hw else start) := by
    have : start ≠ -1 := by omega
    by_cases c : start > l.hw <;> simp [c, this]
  unfold reverseRecs
  simp only [hne, if_false, heff]
  have heffle : (if start > l.hw then l.hw else start) ≤ l.hw := by
    split <;> omega
  generalize (if start > l.hw then l.hw else start) = eff at *
  rcases first_seg_split l.segs eff with hall | ⟨pre, x, post, hsegs, hx, hpre⟩
  · exfalso
    have hlast : l.active ∈ l.segs := active_mem h.nonempty
    have := hall _ hlast
    have hn : l.newest = l.active.nextOffset - 1 := rfl
    omega
  · rw [findSegmentIdx_of_split h.wfc hsegs hx hpre]
    have hget : l.segs[pre.length]? = some x := getElem?_split hsegs
    simp only [hget]
    have htake : l.segs.take pre.length = pre := by rw [hsegs]; simp
    rw [htake]
    have habs : l.abs = pre.flatMap Seg.recs ++ (x.recs ++ post.flatMap Seg.recs) := by
      simp [abs, hsegs]
    have h1 : (pre.flatMap Seg.recs).filter (fun r => decide (r.offset ≤ eff)) = pre.flatMap Seg.recs := by
      apply List.filter_eq_self.mpr
      intro a ha
      obtain ⟨sg, hsg, hasg⟩ := List.mem_flatMap.mp ha
      have ok : SegOK sg := h.wfc.segOK (by simp [hsegs, hsg])
      have := ok.lt_next a hasg
      have := hpre sg hsg
      simp only [decide_eq_true_eq]
      omega
    have h2 : (post.flatMap Seg.recs).filter (fun r => decide (r.offset ≤ eff)) = [] := by
      apply List.filter_eq_nil_iff.mpr
      intro a ha
      have := h.wfc.post_ge hsegs a ha
      simp only [decide_eq_true_eq]
      omega
    rw [habs, List.filter_append, List.filter_append, h1, h2]
    simp

theorem create_reverse' (l : CLog) (req : Req) (start stop : Int) (h : InvC l)
    (hne : l.hw ≠ -1) (hle : l.hw ≤ l.newest)
    (hrev : req.reverse = true) (hs : startOffset l req.start = .ok start)
    (hp : stopOffset l true req.stop = .ok (some stop))
    (hvalid : stop = waitForNew ∨ stop ≤ start) :
    ∃ e sub, create l req =
      .live ((l.abs.filter (fun r => r.offset ≤ (if start > l.hw then l.hw else start) ∧
                                      (stop = waitForNew ∨ stop ≤ r.offset))).reverse) (.status e) sub ∧
      (e = "ResourceExhausted:stop" ∨ e = "ResourceExhausted:begin") := by
  have hbad : ¬ (stop ≠ waitForNew ∧ stop > start) := by
    rintro ⟨h1, h2⟩
    rcases hvalid with hv | hv
    · exact h1 hv
    · omega
  have hrr := reverseRecs_eq l start h hne hle (startOffset_nonneg hs)
  generalize hrs : (l.abs.filter
      (fun r => decide (r.offset ≤ (if start > l.hw then l.hw else start)))).reverse = rs at hrr
  have hsub : rs.reverse.Sublist l.abs := by
    rw [← hrs, List.reverse_reverse]; exact List.filter_sublist
  have hdesc : SortedDesc rs := by
    have : Sorted rs.reverse := h.sorted.sublist hsub
    exact List.pairwise_reverse.mp this
  have hnn : ∀ r ∈ rs, 0 ≤ r.offset := fun r hr =>
    abs_nonneg h r (hsub.subset (List.mem_reverse.mpr hr))
  have hd := deliverRev_spec stop rs hdesc hnn
  have hfilter : rs.filter (fun r => decide (stop = waitForNew ∨ stop ≤ r.offset)) =
      (l.abs.filter (fun r => r.offset ≤ (if start > l.hw then l.hw else start) ∧
        (stop = waitForNew ∨ stop ≤ r.offset))).reverse := by
    rw [← hrs, List.filter_reverse, List.filter_filter]
    congr 1
    apply List.filter_congr
    intro x _
    by_cases c1 : x.offset ≤ (if start > l.hw then l.hw else start) <;>
      by_cases c2 : (stop = waitForNew ∨ stop ≤ x.offset) <;> simp [c1, c2]
  rcases hdel : deliverRev stop rs with ⟨d, st⟩
  rw [hdel] at hd
  simp only at hd
  rw [hfilter] at hd
  subst hd
  unfold create
  simp only [hs, hrev, hp, Gen.Subscribe.reverseStopRule, Bool.and_self, if_true, hbad, if_false,
    hrr, hdel]
  cases st with
  | true => exact ⟨_, _, rfl, Or.inl rfl⟩
  | false => exact ⟨_, _, rfl, Or.inr rfl⟩

/-! ### Witnesses: the pre-fix timestamp lookup, and a start above the HW -/

/-- The lookup of `EarliestOffsetAfterTimestamp` before the fix: exclusive segment search. -/
def earliestAfterTsExclusive (l : CLog) (ts : Int) : Res Int :=
  let (idx, err) := findSegIdxByTs l.segs ts false
  if err then .ok (lastNextOffset l.segs) else
  let seg := if idx = 0 then l.segs[0]? else l.segs[idx - 1]?
  match seg with
  | none => .panic
  | some seg =>
    match findEntryByTs seg ts with
    | some r => .ok r.offset
    | none =>
      if Gen.Subscribe.tsNextSegCmp.evalInt idx (l.segs.length - Gen.Subscribe.tsNextSegOff) then
        match l.segs[idx]? with
        | none => .panic
        | some s2 => match findEntryByTs s2 ts with
          | some r => .ok r.offset
          | none =>
            if Gen.Subscribe.tsNextSegOff = 0 then .ok (lastNextOffset l.segs) else .err "timestamp"
      else .ok (lastNextOffset l.segs)

namespace Witness

def rec (o t : Int) : Rec := { offset := o, ts := t, epoch := 0, body := ⟨none, none, []⟩ }

/-- Two segments whose first records carry the same timestamp 5. -/
def tieLog : CLog :=
  { segs := [⟨0, [rec 0 5]⟩, ⟨1, [rec 1 5]⟩], maxSegBytes := 100, hw := 1, epochs := [],
    readonly := false, occ := false }

theorem tieLog_inv : InvC tieLog := by
  refine ⟨by decide, by decide, by decide, by decide, by decide⟩

theorem tieLog_ts : TsOrd tieLog.abs := by decide

theorem tieLog_eval : earliestAfterTsExclusive tieLog 5 = .ok 1 := by
  simp [earliestAfterTsExclusive, findSegIdxByTs, goSearchErr, goSearchErrAux, tieLog, rec,
    findEntryByTs, goSearch, goSearchAux, Gen.Subscribe.tsEmptySegNoError, Gen.Log.findSegmentTsCmp,
    Cmp.evalInt, Gen.Log.findEntryTsCmp]

/-- The pre-fix start-timestamp lookup skips a message with the requested timestamp when the next
segment starts with the same timestamp. -/
theorem old_lookup_witness : ∃ (l : CLog) (t : Int), InvC l ∧ TsOrd l.abs ∧
    ∃ s, earliestAfterTsExclusive l t = .ok s ∧ ∃ r ∈ l.abs, t ≤ r.ts ∧ r.offset < s :=
  ⟨tieLog, 5, tieLog_inv, tieLog_ts, 1, tieLog_eval, rec 0 5, by decide, by decide, by decide⟩

/-- Three messages, only the first committed. -/
def lowLog (hw : Int) : CLog :=
  { segs := [⟨0, [rec 0 0, rec 1 1, rec 2 2]⟩], maxSegBytes := 100, hw := hw, epochs := [],
    readonly := false, occ := false }

theorem lowLog_inv (hw : Int) : InvC (lowLog hw) := by
  have h0 : InvC (lowLog 0) := ⟨by decide, by decide, by decide, by decide, by decide⟩
  exact ⟨h0.nonempty, h0.sorted, h0.base_le, h0.chain, h0.inner_nonempty⟩

def lowReq : Req := { start := .latest, stop := .onCancel, reverse := false }

def lowSub : Sub := { nextOff := 1, stop := waitForNew, reverse := false, ended := false }

theorem lowLog_create : create (lowLog 0) lowReq = .live [] .waiting lowSub := by
  rw [create_fwd_eq (lowLog 0) lowReq 2 waitForNew rfl (by decide) (by decide) (Or.inl rfl)]
  have hs : fwdSub (lowLog 0) 2 waitForNew = lowSub := by decide
  rw [hs]
  have hd : drain (lowLog 0) lowSub = ([], .waiting, lowSub) := by
    simp [drain, lowSub, readCommitted, lowLog, Gen.Log.readerBeyondHWCmp, Cmp.evalInt, deliverFwd,
      CLog.newest, CLog.nextOffset, CLog.active, Seg.nextOffset, Seg.lastOffset, rec]
  rw [hd]

/-- A start above the HW resumes at the old HW + 1 and so delivers below the requested start. -/
theorem never_below_witness : ∃ (l l' : CLog) (req : Req) (start : Int) (d : List Rec) (e : Ending)
    (sub : Sub), InvC l ∧ InvC l' ∧ req.reverse = false ∧ startOffset l req.start = .ok start ∧
      create l req = .live d e sub ∧ ∃ r ∈ (drain l' sub).1, ¬ start ≤ r.offset := by
  refine ⟨lowLog 0, lowLog 2, lowReq, 2, [], .waiting, lowSub, lowLog_inv 0, lowLog_inv 2, rfl,
    by decide, lowLog_create, rec 1 1, ?_, by decide⟩
  rw [drain_delivers (lowLog 2) lowSub (lowLog_inv 2) (Or.inr ⟨rec 2 2, by decide, by decide⟩) rfl
    (by decide)]
  decide

end Witness

end Liftbridge.Proofs.Subscribe
