/- List / search / single-segment lemmas for the commit-log model (no invariant needed). -/
import Liftbridge.Model.Log
import Liftbridge.Proofs.Search
namespace Liftbridge.Proofs.Log
open Liftbridge Liftbridge.Log Liftbridge.Log.CLog

/-! ### `sort.Search` over a list, as used by every lookup of the model -/

/-- The common shape of `findSegmentIdx`, `findSegmentByBaseIdx`, `Seg.findEntryIdx`. -/
def searchOpt {α} (xs : List α) (q : α → Bool) : Option Nat :=
  let n := xs.length
  let i := goSearch n (fun i => match xs[i]? with
    | some x => q x
    | none => true)
  if i = n then none else some i

theorem findSegmentIdx_eq (segs : List Seg) (o : Int) :
    findSegmentIdx segs o = searchOpt segs (fun s => Gen.Log.findSegmentCmp.evalInt s.nextOffset o) := by
  unfold findSegmentIdx searchOpt
  dsimp only
  congr 2 <;> (try congr 1) <;> funext i <;> (cases (_ : List _)[i]? <;> rfl)

theorem findSegmentByBaseIdx_eq (segs : List Seg) (o : Int) :
    findSegmentByBaseIdx segs o = searchOpt segs (fun s => Gen.Log.findSegmentByBaseCmp.evalInt s.base o) := by
  unfold findSegmentByBaseIdx searchOpt
  dsimp only
  congr 2 <;> (try congr 1) <;> funext i <;> (cases (_ : List _)[i]? <;> rfl)

theorem findEntryIdx_eq (s : Seg) (o : Int) :
    s.findEntryIdx o = searchOpt s.recs (fun r => Gen.Log.findEntryCmp.evalInt r.offset o) := by
  unfold Seg.findEntryIdx searchOpt
  dsimp only
  congr 2 <;> (try congr 1) <;> funext i <;> (cases (_ : List _)[i]? <;> rfl)

/-- Monotone predicate along a list. -/
def Mono {α} (xs : List α) (q : α → Bool) : Prop := xs.Pairwise (fun a b => q a = true → q b = true)

private theorem mono_idx {α} {xs : List α} {q : α → Bool} (mono : Mono xs q) :
    ∀ i j, i ≤ j → j < xs.length →
      (match xs[i]? with | some x => q x | none => true) = true →
      (match xs[j]? with | some x => q x | none => true) = true := by
  intro i j hij hj hi
  have hi' : i < xs.length := by omega
  simp only [List.getElem?_eq_getElem hi', List.getElem?_eq_getElem hj] at hi ⊢
  rcases Nat.lt_or_ge i j with h | h
  · exact (List.pairwise_iff_getElem.mp mono) i j hi' hj h hi
  · have : i = j := by omega
    subst this; exact hi

/-- The search finds the first element satisfying a monotone predicate. -/
theorem searchOpt_of_split {α} {xs : List α} {q : α → Bool} (mono : Mono xs q)
    {pre post : List α} {x : α} (hx : xs = pre ++ x :: post) (hq : q x = true)
    (hpre : ∀ a ∈ pre, q a = false) : searchOpt xs q = some pre.length := by
  have spec := goSearch_spec xs.length _ (mono_idx mono)
  obtain ⟨hle, hlo, hhi⟩ := spec
  unfold searchOpt
  simp only
  generalize goSearch xs.length (fun i => match xs[i]? with | some x => q x | none => true) = r at *
  have hlen : xs.length = pre.length + 1 + post.length := by simp [hx]; omega
  -- r ≤ pre.length
  have h1 : r ≤ pre.length := by
    apply Nat.le_of_not_lt
    intro hlt
    have := hlo pre.length hlt
    simp [hx, hq] at this
  -- pre.length ≤ r
  have h2 : pre.length ≤ r := by
    apply Nat.le_of_not_lt
    intro hlt
    have := hhi (by omega)
    have hr : xs[r]? = some pre[r] := by
      rw [hx, List.getElem?_append_left hlt, List.getElem?_eq_getElem hlt]
    rw [hr] at this
    simp only at this
    have := hpre pre[r] (List.getElem_mem hlt)
    simp_all
  have : r = pre.length := by omega
  subst this
  have : pre.length ≠ xs.length := by omega
  simp [this]

theorem searchOpt_none {α} {xs : List α} {q : α → Bool} (h : ∀ a ∈ xs, q a = false) :
    searchOpt xs q = none := by
  have mono : Mono xs q := by
    unfold Mono
    exact List.Pairwise.imp_of_mem (R := fun _ _ => True) (fun ha _ _ hqa => by simp [h _ ha] at hqa)
      (List.pairwise_of_forall (by intros; trivial))
  obtain ⟨hle, hlo, hhi⟩ := goSearch_spec xs.length _ (mono_idx mono)
  unfold searchOpt
  simp only
  generalize goSearch xs.length (fun i => match xs[i]? with | some x => q x | none => true) = r at *
  by_cases hr : r = xs.length
  · simp [hr]
  · have hlt : r < xs.length := by omega
    have := hhi hlt
    simp only [List.getElem?_eq_getElem hlt] at this
    have := h xs[r] (List.getElem_mem hlt)
    simp_all

/-- Any list splits at the first element satisfying `q`, if there is one. -/
theorem exists_first_split {α} (xs : List α) (q : α → Bool) (h : ∃ a ∈ xs, q a = true) :
    ∃ pre x post, xs = pre ++ x :: post ∧ q x = true ∧ ∀ a ∈ pre, q a = false := by
  induction xs with
  | nil => simp at h
  | cons y ys ih =>
    cases hy : q y with
    | true => exact ⟨[], y, ys, rfl, hy, by simp⟩
    | false =>
      have : ∃ a ∈ ys, q a = true := by
        obtain ⟨a, ha, hqa⟩ := h
        rcases List.mem_cons.mp ha with rfl | ha
        · simp [hy] at hqa
        · exact ⟨a, ha, hqa⟩
      obtain ⟨pre, x, post, hx, hq, hpre⟩ := ih this
      refine ⟨y :: pre, x, post, by simp [hx], hq, ?_⟩
      intro a ha
      rcases List.mem_cons.mp ha with rfl | ha
      · exact hy
      · exact hpre a ha

/-! ### Filters of offset-sorted lists -/

abbrev Sorted (rs : List Rec) : Prop := rs.Pairwise (fun a b => a.offset < b.offset)

theorem filter_lt_eq_takeWhile (rs : List Rec) (o : Int) (hs : Sorted rs) :
    rs.filter (fun r => decide (r.offset < o)) = rs.takeWhile (fun r => decide (r.offset < o)) := by
  induction rs with
  | nil => rfl
  | cons r rs ih =>
    have hs' := List.pairwise_cons.mp hs
    by_cases h : r.offset < o
    · simp [h, ih hs'.2]
    · simp only [List.filter_cons, List.takeWhile_cons, h, decide_false]
      simp only [Bool.false_eq_true, if_false]
      apply List.filter_eq_nil_iff.mpr
      intro a ha
      have := hs'.1 a ha
      simp; omega

/-! ### Single segments -/

/-- Local well-formedness of one segment: what `Inv.base_le` and `Inv.sorted` say about it. -/
structure SegOK (s : Seg) : Prop where
  base_nonneg : 0 ≤ s.base
  base_le : ∀ r ∈ s.recs, s.base ≤ r.offset
  sorted : Sorted s.recs

theorem nextOffset_nil {s : Seg} (h : s.recs = []) : s.nextOffset = s.base := by
  simp [Seg.nextOffset, Seg.lastOffset, h]

theorem nextOffset_concat {s : Seg} {init : List Rec} {r : Rec} (h : s.recs = init ++ [r])
    (hr : 0 ≤ r.offset) : s.nextOffset = r.offset + 1 := by
  have : r.offset ≠ -1 := by omega
  simp [Seg.nextOffset, Seg.lastOffset, h, this]

theorem SegOK.lt_next {s : Seg} (ok : SegOK s) : ∀ r ∈ s.recs, r.offset < s.nextOffset := by
  intro r hr
  rcases List.eq_nil_or_concat s.recs with h | ⟨init, z, h⟩
  · simp [h] at hr
  · rw [List.concat_eq_append] at h
    have hz : 0 ≤ z.offset := by
      have := ok.base_le z (by simp [h]); have := ok.base_nonneg; omega
    rw [nextOffset_concat h hz]
    rw [h] at hr
    rcases List.mem_append.mp hr with hr | hr
    · have := ok.sorted
      rw [h] at this
      have := (List.pairwise_append.mp this).2.2 r hr z (by simp)
      omega
    · simp at hr; subst hr; omega

theorem SegOK.base_le_next {s : Seg} (ok : SegOK s) : s.base ≤ s.nextOffset := by
  rcases List.eq_nil_or_concat s.recs with h | ⟨init, z, h⟩
  · rw [nextOffset_nil h]; exact Int.le_refl _
  · rw [List.concat_eq_append] at h
    have := ok.base_le z (by simp [h]); have := ok.base_nonneg
    rw [nextOffset_concat h (by omega)]; omega

theorem SegOK.next_nonneg {s : Seg} (ok : SegOK s) : 0 ≤ s.nextOffset := by
  have := ok.base_le_next; have := ok.base_nonneg; omega

/-- A segment whose next offset exceeds its base holds a record. -/
theorem SegOK.recs_ne_nil {s : Seg} (h : s.base < s.nextOffset) : s.recs ≠ [] := by
  intro hn
  rw [nextOffset_nil hn] at h
  omega

theorem SegOK.next_eq_last {s : Seg} (ok : SegOK s) {r : Rec} (h : s.recs.getLast? = some r) :
    s.nextOffset = r.offset + 1 := by
  rcases List.eq_nil_or_concat s.recs with hn | ⟨init, z, hz⟩
  · simp [hn] at h
  · rw [List.concat_eq_append] at hz
    rw [hz, List.getLast?_concat] at h
    cases h
    have := ok.base_le r (by simp [hz]); have := ok.base_nonneg
    exact nextOffset_concat hz (by omega)

theorem SegOK.mono_entry {s : Seg} (ok : SegOK s) (o : Int) :
    Mono s.recs (fun r => Gen.Log.findEntryCmp.evalInt r.offset o) := by
  unfold Mono
  refine List.Pairwise.imp ?_ ok.sorted
  intro a b hab
  simp only [Gen.Log.findEntryCmp, Cmp.evalInt, decide_eq_true_eq]
  omega

/-! ### Segment lists -/

/-- Consecutive segments: the later one starts exactly at the next offset of the earlier one. -/
def Link (segs : List Seg) : Prop :=
  ∀ i a b, segs[i]? = some a → segs[i + 1]? = some b → b.base = a.nextOffset

theorem Link.of_append {pre post : List Seg} (h : Link (pre ++ post)) : Link pre := by
  intro i a b ha hb
  have hi1 : i + 1 < pre.length := by
    rcases Nat.lt_or_ge (i + 1) pre.length with h | h
    · exact h
    · simp [List.getElem?_eq_none h] at hb
  apply h i a b
  · rw [List.getElem?_append_left (by omega)]; exact ha
  · rw [List.getElem?_append_left hi1]; exact hb

theorem Link.last_pre {pre post : List Seg} {s a : Seg} (h : Link (pre ++ s :: post))
    (ha : pre.getLast? = some a) : s.base = a.nextOffset := by
  rcases List.eq_nil_or_concat pre with hn | ⟨init, z, hz⟩
  · simp [hn] at ha
  · rw [List.concat_eq_append] at hz
    subst hz
    rw [List.getLast?_concat] at ha
    cases ha
    apply h init.length a s
    · simp
    · rw [List.getElem?_append_right (by simp)]
      simp

theorem Link.snoc {pre : List Seg} {b : Seg} (h : Link pre)
    (hb : ∀ a, pre.getLast? = some a → b.base = a.nextOffset) : Link (pre ++ [b]) := by
  intro i x y hx hy
  rcases Nat.lt_or_ge (i + 1) pre.length with hlt | hge
  · rw [List.getElem?_append_left (by omega)] at hx
    rw [List.getElem?_append_left hlt] at hy
    exact h i x y hx hy
  · have hi : i + 1 = pre.length := by
      rcases Nat.lt_or_ge pre.length (i + 1) with h2 | h2
      · rw [List.getElem?_eq_none (by simp; omega)] at hy
        cases hy
      · omega
    rw [List.getElem?_append_right (by omega)] at hy
    have : i + 1 - pre.length = 0 := by omega
    rw [this] at hy
    simp at hy
    subst hy
    rw [List.getElem?_append_left (by omega)] at hx
    apply hb
    rw [List.getLast?_eq_getElem?]
    have : pre.length - 1 = i := by omega
    rw [this]; exact hx

/-- Well-formedness of a segment list that may have offset gaps between segments (the part of
the invariant shared by plain and compacted / trimmed logs): all lookups and readers only need
this. -/
structure WFC (segs : List Seg) : Prop where
  sorted : Sorted (segs.flatMap Seg.recs)
  base_le : ∀ s ∈ segs, 0 ≤ s.base ∧ ∀ r ∈ s.recs, s.base ≤ r.offset
  chain : segs.Pairwise (fun a b => a.nextOffset ≤ b.base ∧ a.base < b.base)

/-- Well-formedness of a segment list (the list part of the invariant `Inv`): `WFC` plus exact
links between consecutive segments. -/
structure WF (segs : List Seg) : Prop extends WFC segs where
  link : Link segs

theorem WFC.segOK {segs : List Seg} (wf : WFC segs) {s : Seg} (hs : s ∈ segs) : SegOK s := by
  refine ⟨(wf.base_le s hs).1, (wf.base_le s hs).2, ?_⟩
  obtain ⟨p, q, rfl⟩ := List.append_of_mem hs
  have := wf.sorted
  simp only [List.flatMap_append, List.flatMap_cons] at this
  exact (List.pairwise_append.mp (List.pairwise_append.mp this).2.1).1

theorem WFC.split {segs pre post : List Seg} {s : Seg} (wf : WFC segs) (h : segs = pre ++ s :: post) :
    (∀ a ∈ pre, a.nextOffset ≤ s.base ∧ a.base < s.base) ∧
    (∀ b ∈ post, s.nextOffset ≤ b.base ∧ s.base < b.base) := by
  have := wf.chain
  rw [h, List.pairwise_append] at this
  refine ⟨fun a ha => this.2.2 a ha s (by simp), fun b hb => ?_⟩
  exact (List.pairwise_cons.mp this.2.1).1 b hb

theorem WFC.pre_lt {segs pre post : List Seg} {s : Seg} (wf : WFC segs) (h : segs = pre ++ s :: post) :
    ∀ r ∈ pre.flatMap Seg.recs, r.offset < s.base := by
  intro r hr
  obtain ⟨a, ha, hra⟩ := List.mem_flatMap.mp hr
  have ok := wf.segOK (s := a) (by simp [h, ha])
  have := ok.lt_next r hra
  have := ((wf.split h).1 a ha).1
  omega

theorem WFC.post_ge {segs pre post : List Seg} {s : Seg} (wf : WFC segs) (h : segs = pre ++ s :: post) :
    ∀ r ∈ post.flatMap Seg.recs, s.nextOffset ≤ r.offset := by
  intro r hr
  obtain ⟨b, hb, hrb⟩ := List.mem_flatMap.mp hr
  have ok := wf.segOK (s := b) (by simp [h, hb])
  have := ok.base_le r hrb
  have := ((wf.split h).2 b hb).1
  omega

theorem WFC.mono_next {segs : List Seg} (wf : WFC segs) (o : Int) :
    Mono segs (fun s => Gen.Log.findSegmentCmp.evalInt s.nextOffset o) := by
  unfold Mono
  refine List.Pairwise.imp_of_mem ?_ wf.chain
  intro a b ha hb hab
  simp only [Gen.Log.findSegmentCmp, Cmp.evalInt, decide_eq_true_eq]
  have := (wf.segOK hb).base_le_next
  omega

theorem WFC.mono_base {segs : List Seg} (wf : WFC segs) (o : Int) :
    Mono segs (fun s => Gen.Log.findSegmentByBaseCmp.evalInt s.base o) := by
  unfold Mono
  refine List.Pairwise.imp ?_ wf.chain
  intro a b hab
  simp only [Gen.Log.findSegmentByBaseCmp, Cmp.evalInt, decide_eq_true_eq]
  omega

theorem WFC.of_append {pre post : List Seg} (wf : WFC (pre ++ post)) : WFC pre := by
  refine ⟨?_, fun s hs => wf.base_le s (by simp [hs]), (List.pairwise_append.mp wf.chain).1⟩
  have := wf.sorted
  rw [List.flatMap_append] at this
  exact (List.pairwise_append.mp this).1

theorem WFC.of_append_right {pre post : List Seg} (wf : WFC (pre ++ post)) : WFC post := by
  refine ⟨?_, fun s hs => wf.base_le s (by simp [hs]), (List.pairwise_append.mp wf.chain).2.1⟩
  have := wf.sorted
  rw [List.flatMap_append] at this
  exact (List.pairwise_append.mp this).2.1

theorem WF.of_append {pre post : List Seg} (wf : WF (pre ++ post)) : WF pre :=
  ⟨wf.toWFC.of_append, wf.link.of_append⟩

/-- Appending a well-formed segment that starts at or after the end of the list. -/
theorem WFC.snoc {pre : List Seg} {b : Seg} (wf : WFC pre) (ok : SegOK b)
    (hc : ∀ a ∈ pre, a.nextOffset ≤ b.base ∧ a.base < b.base) : WFC (pre ++ [b]) := by
  refine ⟨?_, ?_, ?_⟩
  · simp only [List.flatMap_append, List.flatMap_cons, List.flatMap_nil, List.append_nil]
    refine List.pairwise_append.mpr ⟨wf.sorted, ok.sorted, ?_⟩
    intro r hr r' hr'
    obtain ⟨a, ha, hra⟩ := List.mem_flatMap.mp hr
    have := (wf.segOK ha).lt_next r hra
    have := (hc a ha).1
    have := ok.base_le r' hr'
    omega
  · intro s hs
    rcases List.mem_append.mp hs with hs | hs
    · exact wf.base_le s hs
    · simp at hs; subst hs; exact ⟨ok.base_nonneg, ok.base_le⟩
  · refine List.pairwise_append.mpr ⟨wf.chain, by simp, ?_⟩
    intro a ha b' hb'
    simp at hb'; subst hb'
    exact hc a ha

/-- Appending a well-formed segment that starts where the list ends. -/
theorem WF.snoc {pre : List Seg} {b : Seg} (wf : WF pre) (ok : SegOK b)
    (hc : ∀ a ∈ pre, a.nextOffset ≤ b.base ∧ a.base < b.base)
    (hl : ∀ a, pre.getLast? = some a → b.base = a.nextOffset) : WF (pre ++ [b]) :=
  ⟨wf.toWFC.snoc ok hc, wf.link.snoc hl⟩

/-! ### The three lookups under well-formedness -/

theorem findSegmentIdx_of_split {segs pre post : List Seg} {x : Seg} (wf : WFC segs) {o : Int}
    (h : segs = pre ++ x :: post) (hx : o < x.nextOffset) (hpre : ∀ a ∈ pre, a.nextOffset ≤ o) :
    findSegmentIdx segs o = some pre.length := by
  rw [findSegmentIdx_eq]
  apply searchOpt_of_split (wf.mono_next o) h
  · simpa [Gen.Log.findSegmentCmp, Cmp.evalInt] using hx
  · intro a ha
    have := hpre a ha
    simp only [Gen.Log.findSegmentCmp, Cmp.evalInt, decide_eq_false_iff_not]
    omega

theorem findSegmentIdx_none {segs : List Seg} {o : Int} (h : ∀ a ∈ segs, a.nextOffset ≤ o) :
    findSegmentIdx segs o = none := by
  rw [findSegmentIdx_eq]
  apply searchOpt_none
  intro a ha
  have := h a ha
  simp only [Gen.Log.findSegmentCmp, Cmp.evalInt, decide_eq_false_iff_not]
  omega

/-- Either every segment ends at or below `o`, or the list splits at the first one that does not. -/
theorem first_seg_split (segs : List Seg) (o : Int) :
    (∀ a ∈ segs, a.nextOffset ≤ o) ∨
    ∃ pre x post, segs = pre ++ x :: post ∧ o < x.nextOffset ∧ ∀ a ∈ pre, a.nextOffset ≤ o := by
  by_cases h : ∃ a ∈ segs, (decide (o < a.nextOffset)) = true
  · right
    obtain ⟨pre, x, post, hx, hq, hpre⟩ := exists_first_split segs _ h
    refine ⟨pre, x, post, hx, by simpa using hq, ?_⟩
    intro a ha
    have := hpre a ha
    simp only [decide_eq_false_iff_not] at this
    omega
  · left
    intro a ha
    have : ¬ (decide (o < a.nextOffset) = true) := fun hc => h ⟨a, ha, hc⟩
    simp only [decide_eq_true_eq] at this
    omega

theorem findSegmentByBaseIdx_of_split {segs pre post : List Seg} {x : Seg} (wf : WFC segs) {o : Int}
    (h : segs = pre ++ x :: post) (hx : o ≤ x.base) (hpre : ∀ a ∈ pre, a.base < o) :
    findSegmentByBaseIdx segs o = some pre.length := by
  rw [findSegmentByBaseIdx_eq]
  apply searchOpt_of_split (wf.mono_base o) h
  · simpa [Gen.Log.findSegmentByBaseCmp, Cmp.evalInt] using hx
  · intro a ha
    have := hpre a ha
    simp only [Gen.Log.findSegmentByBaseCmp, Cmp.evalInt, decide_eq_false_iff_not]
    omega

theorem findSegmentByBaseIdx_none {segs : List Seg} {o : Int} (h : ∀ a ∈ segs, a.base < o) :
    findSegmentByBaseIdx segs o = none := by
  rw [findSegmentByBaseIdx_eq]
  apply searchOpt_none
  intro a ha
  have := h a ha
  simp only [Gen.Log.findSegmentByBaseCmp, Cmp.evalInt, decide_eq_false_iff_not]
  omega

theorem findEntryIdx_of_split {s : Seg} (ok : SegOK s) {rp rq : List Rec} {r : Rec} {o : Int}
    (h : s.recs = rp ++ r :: rq) (hr : o ≤ r.offset) (hpre : ∀ a ∈ rp, a.offset < o) :
    s.findEntryIdx o = some rp.length := by
  rw [findEntryIdx_eq]
  apply searchOpt_of_split (ok.mono_entry o) h
  · simpa [Gen.Log.findEntryCmp, Cmp.evalInt] using hr
  · intro a ha
    have := hpre a ha
    simp only [Gen.Log.findEntryCmp, Cmp.evalInt, decide_eq_false_iff_not]
    omega

/-- A segment whose next offset is above `o ≥ base` splits at its first record `≥ o`. -/
theorem SegOK.first_rec_split {s : Seg} (ok : SegOK s) {o : Int} (hn : o < s.nextOffset)
    (hb : s.base ≤ o) :
    ∃ rp r rq, s.recs = rp ++ r :: rq ∧ o ≤ r.offset ∧ ∀ a ∈ rp, a.offset < o := by
  have hex : ∃ a ∈ s.recs, decide (o ≤ a.offset) = true := by
    rcases List.eq_nil_or_concat s.recs with h | ⟨init, z, h⟩
    · rw [nextOffset_nil h] at hn; omega
    · rw [List.concat_eq_append] at h
      have hz : 0 ≤ z.offset := by
        have := ok.base_le z (by simp [h]); have := ok.base_nonneg; omega
      rw [nextOffset_concat h hz] at hn
      exact ⟨z, by simp [h], by simp; omega⟩
  obtain ⟨rp, r, rq, hx, hq, hpre⟩ := exists_first_split s.recs _ hex
  refine ⟨rp, r, rq, hx, by simpa using hq, ?_⟩
  intro a ha
  have := hpre a ha
  simp only [decide_eq_false_iff_not] at this
  omega

end Liftbridge.Proofs.Log
