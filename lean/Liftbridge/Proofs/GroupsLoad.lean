/-
C12, the load counter: `consumer.assignedCount` (model: `Cons.count`), the key of the least-loaded
heaps, equals the number of partitions the consumer holds over all streams after EVERY history
(`CInv`, part A), and — resting on it — two members that are subscribed to nothing but one and the
same stream hold numbers of its partitions that differ by at most one, whatever the history that
led there (`PAt`, part B: the balance clause of C12 for "a group consuming a single stream",
including groups that got there by stream deletions).
-/
import Liftbridge.Model.Groups
import Liftbridge.Proofs.Groups

namespace Liftbridge.Proofs.Groups
open Liftbridge Liftbridge.Groups

/-! ## A. the counter is exact -/

theorem asgTotal_append (a : Asg) (s : String) (p : Nat) :
    asgTotal (asgAppend a s p) = asgTotal a + 1 := by
  induction a with
  | nil => simp [asgAppend, asgTotal]
  | cons kv r ih =>
    obtain ⟨k, v⟩ := kv
    by_cases hk : k = s
    · simp [asgAppend, asgTotal, hk]; omega
    · simp [asgAppend, asgTotal, hk, ih]; omega

theorem mem_keys_append (a : Asg) (s : String) (p : Nat) (k : String) :
    k ∈ (asgAppend a s p).map (·.1) ↔ k ∈ a.map (·.1) ∨ k = s := by
  induction a with
  | nil => simp [asgAppend]
  | cons kv r ih =>
    obtain ⟨k', v⟩ := kv
    by_cases hk : k' = s
    · subst hk
      simp only [asgAppend, if_true, List.map_cons, List.mem_cons]
      constructor
      · intro h; exact Or.inl h
      · rintro (h | h)
        · exact h
        · exact Or.inl h
    · simp only [asgAppend, hk, if_false, List.map_cons, List.mem_cons, ih]
      constructor
      · rintro (h | h | h)
        · exact Or.inl (Or.inl h)
        · exact Or.inl (Or.inr h)
        · exact Or.inr h
      · rintro ((h | h) | h)
        · exact Or.inl h
        · exact Or.inr (Or.inl h)
        · exact Or.inr (Or.inr h)

theorem nodup_keys_append (a : Asg) (s : String) (p : Nat) (h : (a.map (·.1)).Nodup) :
    ((asgAppend a s p).map (·.1)).Nodup := by
  induction a with
  | nil => simp [asgAppend]
  | cons kv r ih =>
    obtain ⟨k, v⟩ := kv
    simp only [List.map_cons, List.nodup_cons] at h
    by_cases hk : k = s
    · simp only [asgAppend, hk, if_true, List.map_cons, List.nodup_cons]
      exact ⟨hk ▸ h.1, h.2⟩
    · simp only [asgAppend, hk, if_false, List.map_cons, List.nodup_cons]
      refine ⟨?_, ih h.2⟩
      intro hm
      rcases (mem_keys_append r s p k).1 hm with hm | hm
      · exact h.1 hm
      · exact hk hm

theorem asgErase_not_key (a : Asg) (s : String) (h : s ∉ a.map (·.1)) : asgErase a s = a := by
  induction a with
  | nil => rfl
  | cons kv r ih =>
    obtain ⟨k, v⟩ := kv
    simp only [List.map_cons, List.mem_cons, not_or] at h
    have hk : k ≠ s := fun e => h.1 e.symm
    have := ih h.2
    unfold asgErase at this ⊢
    rw [List.filter_cons_of_pos (by simp [hk]), this]

theorem asgOf_not_key (a : Asg) (s : String) (h : s ∉ a.map (·.1)) : asgOf a s = [] := by
  induction a with
  | nil => rfl
  | cons kv r ih =>
    obtain ⟨k, v⟩ := kv
    simp only [List.map_cons, List.mem_cons, not_or] at h
    have hk : k ≠ s := fun e => h.1 e.symm
    simp [asgOf, hk, ih h.2]

theorem asgTotal_erase (a : Asg) (s : String) (h : (a.map (·.1)).Nodup) :
    asgTotal (asgErase a s) + (asgOf a s).length = asgTotal a := by
  induction a with
  | nil => rfl
  | cons kv r ih =>
    obtain ⟨k, v⟩ := kv
    simp only [List.map_cons, List.nodup_cons] at h
    by_cases hk : k = s
    · subst hk
      have hr : asgErase r k = r := asgErase_not_key r k h.1
      have : asgErase ((k, v) :: r) k = r := by
        unfold asgErase at hr ⊢
        rw [List.filter_cons_of_neg (by simp), hr]
      rw [this]
      simp [asgOf, asgTotal]; omega
    · have : asgErase ((k, v) :: r) s = (k, v) :: asgErase r s := by
        unfold asgErase
        rw [List.filter_cons_of_pos (by simp [hk])]
      rw [this]
      have := ih h.2
      simp [asgOf, asgTotal, hk]; omega

theorem nodup_keys_erase (a : Asg) (s : String) (h : (a.map (·.1)).Nodup) :
    ((asgErase a s).map (·.1)).Nodup :=
  List.Nodup.sublist (List.Sublist.map _ List.filter_sublist) h

/-- The load counter of one consumer is exact: it equals the number of partitions held over all
streams (and the assignment map has each stream once, as a Go map does). -/
structure COK (c : Cons) : Prop where
  keys : (c.asg.map (·.1)).Nodup
  count : c.count = (asgTotal c.asg : Int)

theorem cok_assign {c : Cons} (h : COK c) (s : String) (p : Nat) : COK (c.assignPartition s p) := by
  refine ⟨nodup_keys_append c.asg s p h.keys, ?_⟩
  simp only [Cons.assignPartition, asgTotal_append]
  have := h.count
  omega

theorem cok_remove {c : Cons} (h : COK c) (s : String) : COK (c.removeStreamAssignments s) := by
  refine ⟨nodup_keys_erase c.asg s h.keys, ?_⟩
  simp only [Cons.removeStreamAssignments]
  have h1 := h.count
  have h2 := asgTotal_erase c.asg s h.keys
  omega

/-- `StreamDeleted` keeps the counter exact — BECAUSE it drops the assignments through
`removeStreamAssignments` (`Gen.Groups.deletedLowersCount = true`). -/
theorem cok_drop {c : Cons} (h : COK c) (s : String) : COK (c.dropStream s) := by
  have := cok_remove h s
  simp only [Cons.dropStream, Gen.Groups.deletedLowersCount, if_true]
  exact ⟨this.keys, this.count⟩

/-- Every member's load counter is exact. -/
def CInv (ms : List Cons) : Prop := ∀ m ∈ ms, COK m

theorem cinv_map {ms : List Cons} (F : Cons → Cons) (hF : ∀ c, COK c → COK (F c)) (h : CInv ms) :
    CInv (ms.map F) := by
  intro m' hm'
  obtain ⟨m, hm, rfl⟩ := List.mem_map.1 hm'
  exact hF m (h m hm)

theorem cinv_resetFor (s : String) (idl : List String) {ms : List Cons} (h : CInv ms) :
    CInv (resetFor s idl ms) := by
  apply cinv_map _ _ h
  intro c hc
  split
  · exact cok_remove hc s
  · exact hc

theorem cinv_assignTo (s : String) (p : Nat) (id : String) {ms : List Cons} (h : CInv ms) :
    CInv (assignTo s p id ms) := by
  apply cinv_map _ _ h
  intro c hc
  split
  · exact cok_assign hc s p
  · exact hc

theorem cinv_assignLoop (s : String) (n : Nat) (idl : List String) :
    ∀ fuel p ms, CInv ms → CInv (assignLoop s n idl fuel p ms) := by
  intro fuel
  induction fuel with
  | zero => intro p ms h; exact h
  | succ fuel ih =>
    intro p ms h
    unfold assignLoop
    split
    · cases peek ms idl with
      | none => exact h
      | some m => exact ih _ _ (cinv_assignTo s p m.id h)
    · exact h

theorem cinv_balance (parts : String → Nat) (t : String) {g : Group} (h : CInv g.members) :
    CInv (balance parts t g).members := by
  unfold balance
  split
  · exact h
  · split
    · exact h
    · exact cinv_assignLoop _ _ _ _ _ _ (cinv_resetFor _ _ h)

theorem cinv_foldl_balance (parts : String → Nat) (ts : List String) {g : Group} (h : CInv g.members) :
    CInv (ts.foldl (fun g t => balance parts t g) g).members := by
  induction ts generalizing g with
  | nil => exact h
  | cons t r ih => exact ih (cinv_balance parts t h)

theorem cinv_addConsumer (parts : String → Nat) (X : String) (ts : List String) {g : Group}
    (h : CInv g.members) : CInv (addConsumer parts X ts g).members := by
  induction ts generalizing g with
  | nil => exact h
  | cons t r ih =>
    simp only [addConsumer, List.foldl_cons]
    exact ih (cinv_balance parts t (g := pushSub t X g) h)

theorem cinv_removeStep (parts : String → Nat) (cons : Cons) (t : String) {g : Group}
    (h : CInv g.members) : CInv (removeStep parts cons g t).members := by
  unfold removeStep
  split
  · exact h
  · split
    · exact cinv_balance parts t (g := { g with subs := _ }) h
    · exact h

theorem cinv_removeConsumer (parts : String → Nat) (cons : Cons) (ts : List String) {g : Group}
    (h : CInv g.members) : CInv (ts.foldl (removeStep parts cons) g).members := by
  induction ts generalizing g with
  | nil => exact h
  | cons t r ih => exact ih (cinv_removeStep parts cons t h)

theorem cinv_join (parts : String → Nat) (g g' : Group) (X : String) (streams : List String) (e : Nat)
    (h : CInv g.members) (hs : join parts g X streams e = .ok g') : CInv g'.members := by
  unfold join at hs
  split at hs
  · simp at hs
  · split at hs
    · simp at hs
    · simp only [Res.ok.injEq] at hs
      subst hs
      show CInv (addMember parts X streams g).members
      unfold addMember
      apply cinv_addConsumer
      intro m hm
      rcases List.mem_append.1 hm with hm | hm
      · exact h m hm
      · simp only [List.mem_singleton] at hm
        subst hm
        exact ⟨by simp, by simp [asgTotal]⟩

theorem cinv_leave (parts : String → Nat) (g g' : Group) (X : String) (e : Nat)
    (h : CInv g.members) (hs : leave parts g X e = .ok g') : CInv g'.members := by
  unfold leave at hs
  split at hs
  · simp at hs
  · cases hf : g.members.find? (·.id = X) with
    | none => simp [hf] at hs
    | some cons =>
      simp only [hf, Res.ok.injEq] at hs
      subst hs
      intro m hm
      exact cinv_removeConsumer parts cons cons.streams h m (List.mem_filter.1 hm).1

theorem cinv_streamDeleted (parts : String → Nat) (g g' : Group) (s : String) (e : Nat)
    (h : CInv g.members) (hs : streamDeleted parts g s e = .ok g') : CInv g'.members := by
  unfold streamDeleted at hs
  split at hs
  · simp at hs
  · cases hg : sget g.subs s with
    | none => simp [hg] at hs; subst hs; exact h
    | some idl =>
      simp only [hg] at hs
      split at hs
      · simp only [Res.ok.injEq] at hs; subst hs; exact h
      · simp only [Res.ok.injEq] at hs
        subst hs
        apply cinv_foldl_balance parts _ (g := { g with members := _, subs := _ })
        apply cinv_map _ _ h
        intro c hc
        split
        · exact cok_drop hc s
        · exact hc

theorem cinv_applyOp (parts : String → Nat) (g : Group) (op : Op) (h : CInv g.members) :
    CInv (applyOp parts g op).members := by
  unfold applyOp
  cases hs : step parts g op with
  | ok g' =>
    simp only []
    cases op with
    | join id streams e => exact cinv_join parts g g' id streams e h hs
    | leave id e => exact cinv_leave parts g g' id e h hs
    | deleted s e => exact cinv_streamDeleted parts g g' s e h hs
  | err e => exact h
  | panic => exact h

theorem cinv_run (parts : String → Nat) (g : Group) (ops : List Op) (h : CInv g.members) :
    CInv (run parts g ops).members := by
  induction ops generalizing g with
  | nil => exact h
  | cons op r ih => exact ih _ (cinv_applyOp parts g op h)

theorem cinv_new (e : Nat) : CInv (Group.new e).members := by
  intro m hm; simp [Group.new] at hm

/-! ## B. members subscribed to one and the same single stream are balanced -/

/-- The consumer is subscribed to `s` and to nothing else. -/
def Pure (s : String) (c : Cons) : Prop := s ∈ c.streams ∧ ∀ t ∈ c.streams, t = s

/-- Any two members subscribed to `s` only hold numbers of partitions of `s` that differ by at
most one. -/
def PAt (s : String) (ms : List Cons) : Prop :=
  ∀ a ∈ ms, ∀ b ∈ ms, Pure s a → Pure s b → (asgOf a.asg s).length ≤ (asgOf b.asg s).length + 1

theorem pure_of_streams {t : String} {c c' : Cons} (h : c'.streams = c.streams) :
    Pure t c' ↔ Pure t c := by
  unfold Pure; rw [h]

/-- If only stream `t` has assignments, the total is what is held of `t`. -/
theorem asgTotal_single (a : Asg) (t : String) (hk : (a.map (·.1)).Nodup)
    (h : ∀ u, u ≠ t → asgOf a u = []) : asgTotal a = (asgOf a t).length := by
  induction a with
  | nil => rfl
  | cons kv r ih =>
    obtain ⟨k, v⟩ := kv
    simp only [List.map_cons, List.nodup_cons] at hk
    by_cases hkt : k = t
    · subst hkt
      have hr : ∀ u, u ≠ k → asgOf r u = [] := by
        intro u hu
        have := h u hu
        simpa [asgOf, Ne.symm hu] using this
      have h0 : asgTotal r = (asgOf r k).length := ih hk.2 hr
      rw [asgOf_not_key r k hk.1] at h0
      simp [asgOf, asgTotal, h0]
    · have hv : v = [] := by
        have := h k hkt
        simpa [asgOf] using this
      have hr : ∀ u, u ≠ t → asgOf r u = [] := by
        intro u hu
        by_cases hku : k = u
        · subst hku; exact asgOf_not_key r k hk.1
        · have := h u hu
          simpa [asgOf, hku] using this
      have := ih hk.2 hr
      simp [asgOf, asgTotal, hkt, hv, this]

/-- For a consumer subscribed to `t` only, the (exact) counter is what it holds of `t`. -/
theorem pure_count {c : Cons} {t : String} (hc : COK c) (hp : Pure t c)
    (hos : ∀ s, s ∉ c.streams → asgOf c.asg s = []) :
    c.count = ((asgOf c.asg t).length : Int) := by
  rw [hc.count, asgTotal_single c.asg t hc.keys]
  intro u hu
  apply hos
  intro hm
  exact hu (hp.2 u hm)

/-- The assignment loop of `balanceAssignmentsForStream(t)`, seen from the consumers subscribed to
`t` only: their counters start at 0 after the reset, `Peek` always picks a least-loaded consumer,
so their shares of `t` stay within one of each other. -/
theorem balance_members_pure (t : String) (n : Nat) (idl : List String) (ms : List Cons)
    (hnd : (ids ms).Nodup) (hex : ∃ c ∈ ms, c.id ∈ idl)
    (hc0 : ∀ m ∈ ms, m.id ∈ idl → Pure t m → m.count = ((asgOf m.asg t).length : Int)) :
    ∀ a ∈ assignLoop t n idl (n + 1) 0 (resetFor t idl ms),
    ∀ b ∈ assignLoop t n idl (n + 1) 0 (resetFor t idl ms),
      a.id ∈ idl → b.id ∈ idl → Pure t a → Pure t b →
      (asgOf a.asg t).length ≤ (asgOf b.asg t).length + 1 := by
  let P : Nat → List Cons → Prop := fun _ ms' =>
    shape ms' = shape ms ∧
    (∀ m ∈ ms', m.id ∈ idl → Pure t m → m.count = ((asgOf m.asg t).length : Int)) ∧
    (∀ a ∈ ms', ∀ b ∈ ms', a.id ∈ idl → b.id ∈ idl → Pure t a → Pure t b → a.count ≤ b.count + 1)
  have hreset : ∀ m' ∈ resetFor t idl ms, m'.id ∈ idl → Pure t m' →
      m'.count = 0 ∧ asgOf m'.asg t = [] := by
    intro m' hm' hi hp
    obtain ⟨m, hm, rfl⟩ := List.mem_map.1 hm'
    by_cases hmi : m.id ∈ idl
    · simp only [hmi, if_true] at hp ⊢
      have hp' : Pure t m := hp
      have := hc0 m hm hmi hp'
      refine ⟨?_, remove_asg_self m t⟩
      simp only [Cons.removeStreamAssignments]
      omega
    · simp only [hmi, if_false] at hi
  have h0 : P 0 (resetFor t idl ms) := by
    refine ⟨shape_resetFor t idl ms, ?_, ?_⟩
    · intro m' hm' hi hp
      obtain ⟨h1, h2⟩ := hreset m' hm' hi hp
      rw [h1, h2]; rfl
    · intro a ha b hb hai hbi hpa hpb
      rw [(hreset a ha hai hpa).1, (hreset b hb hbi hpb).1]; omega
  have hstep : ∀ q ms' m, P q ms' → q < n → peek ms' idl = some m →
      P (q + 1) (assignTo t q m.id ms') := by
    intro q ms' m ⟨hsh, hco, hw⟩ _ hm
    obtain ⟨hmm, hmi⟩ := peek_mem hm
    have hnd' : (ids ms').Nodup := by rw [ids_of_shape hsh]; exact hnd
    have hstr : ∀ c : Cons, (if c.id = m.id then c.assignPartition t q else c).streams = c.streams := by
      intro c; split <;> rfl
    have hid : ∀ c : Cons, (if c.id = m.id then c.assignPartition t q else c).id = c.id := by
      intro c; split <;> rfl
    refine ⟨by rw [shape_assignTo, hsh], ?_, ?_⟩
    · intro c' hc' hi hp
      obtain ⟨c, hcm, rfl⟩ := List.mem_map.1 hc'
      rw [hid c] at hi
      have hp' : Pure t c := (pure_of_streams (hstr c)).1 hp
      have := hco c hcm hi hp'
      by_cases hci : c.id = m.id
      · simp only [hci, if_true]
        rw [assign_asg_self]
        simp only [Cons.assignPartition, List.length_append, List.length_singleton]
        omega
      · simp only [hci, if_false]; exact this
    · intro a' ha' b' hb' hai hbi hpa hpb
      obtain ⟨a, ha, rfl⟩ := List.mem_map.1 ha'
      obtain ⟨b, hb, rfl⟩ := List.mem_map.1 hb'
      rw [hid a] at hai
      rw [hid b] at hbi
      have hpa' : Pure t a := (pure_of_streams (hstr a)).1 hpa
      have hpb' : Pure t b := (pure_of_streams (hstr b)).1 hpb
      by_cases hae : a.id = m.id <;> by_cases hbe : b.id = m.id
      · have h1 : a = m := eq_of_id_eq hnd' ha hmm hae
        have h2 : b = m := eq_of_id_eq hnd' hb hmm hbe
        subst h1; subst h2; omega
      · have h1 : a = m := eq_of_id_eq hnd' ha hmm hae
        subst h1
        simp only [hbe, if_false, if_true, Cons.assignPartition]
        have := peek_count_le hm b hb hbi
        omega
      · have h2 : b = m := eq_of_id_eq hnd' hb hmm hbe
        subst h2
        simp only [hae, if_false, if_true, Cons.assignPartition]
        have := hw a ha b hb hai hmi hpa' hpb'
        omega
      · simp only [hae, hbe, if_false]
        exact hw a ha b hb hai hbi hpa' hpb'
  have hsome : ∀ q ms', P q ms' → q < n → (peek ms' idl).isSome := by
    intro q ms' ⟨hsh, _, _⟩ _
    obtain ⟨c, hc', hi⟩ := hex
    apply peek_isSome
    have : (c.id, c.streams) ∈ shape ms' := by
      rw [hsh]; exact mem_shape.2 ⟨c, hc', rfl, rfl⟩
    obtain ⟨c', hc'm, hc'id, _⟩ := mem_shape.1 this
    exact ⟨c', hc'm, by rw [hc'id]; exact hi⟩
  have hfin := assignLoop_rule t n idl P hstep hsome (n + 1) 0 _ (by omega) (by omega) h0
  intro a ha b hb hai hbi hpa hpb
  have h1 := hfin.2.1 a ha hai hpa
  have h2 := hfin.2.1 b hb hbi hpb
  have h3 := hfin.2.2 a ha b hb hai hbi hpa hpb
  omega

/-- `balanceAssignmentsForStream(t)` makes the consumers subscribed to `t` only balanced among
themselves, and does not touch the consumers subscribed to another stream only. -/
theorem pat_balance (parts : String → Nat) (t : String) (g : Group)
    (hnd : (ids g.members).Nodup)
    (hb1 : ∀ id ∈ subsOf' g.subs t, ∃ x ∈ shape g.members, x.1 = id ∧ t ∈ x.2)
    (hb2 : ∀ x ∈ shape g.members, t ∈ x.2 → x.1 ∈ subsOf' g.subs t)
    (hos : OnlySub g.members) (hc : CInv g.members) :
    PAt t (balance parts t g).members ∧
    ∀ s, s ≠ t → PAt s g.members → PAt s (balance parts t g).members := by
  constructor
  · -- established for t
    have hin : ∀ m ∈ (balance parts t g).members, Pure t m → m.id ∈ subsOf' g.subs t := by
      intro m hm hp
      have : (m.id, m.streams) ∈ shape g.members := by
        rw [← balance_shape parts t g]; exact mem_shape.2 ⟨m, hm, rfl, rfl⟩
      exact hb2 _ this hp.1
    unfold balance at hin ⊢
    cases hs : sget g.subs t with
    | none =>
      intro a ha _ _ hpa _
      have := hin a (by simpa [hs] using ha) hpa
      simp [subsOf', hs] at this
    | some idl =>
      have hsub : subsOf' g.subs t = idl := by simp [subsOf', hs]
      simp only [hs] at hin ⊢
      by_cases he : idl.isEmpty = true
      · simp only [he, if_true] at hin ⊢
        intro a ha _ _ hpa _
        have := hin a ha hpa
        have hnil : idl = [] := List.isEmpty_iff.1 he
        rw [hsub, hnil] at this
        simp at this
      · have he' : idl.isEmpty = false := by simpa using he
        simp only [he', Bool.false_eq_true, if_false] at hin ⊢
        have hne : idl ≠ [] := fun e => he (by simp [e])
        obtain ⟨i0, hi0⟩ := List.exists_mem_of_ne_nil idl hne
        obtain ⟨x, hx, hx1, _⟩ := hb1 i0 (hsub ▸ hi0)
        obtain ⟨m0, hm0, hm0id, _⟩ := mem_shape.1 hx
        have hc0 : ∀ m ∈ g.members, m.id ∈ idl → Pure t m →
            m.count = ((asgOf m.asg t).length : Int) := by
          intro m hm _ hp
          exact pure_count (hc m hm) hp (hos m hm)
        have hbal := balance_members_pure t (parts t) idl g.members hnd
          ⟨m0, hm0, by rw [hm0id, hx1]; exact hi0⟩ hc0
        intro a ha b hb hpa hpb
        exact hbal a ha b hb (hsub ▸ hin a ha hpa) (hsub ▸ hin b hb hpb) hpa hpb
  · -- untouched for s ≠ t
    intro s hst hp
    obtain ⟨F, hF, hT, _⟩ := balance_spec parts t g hnd hb1 hb2 hos
    rw [hF]
    have hfix : ∀ a ∈ g.members, Pure s a → F a = a := by
      intro a ha hpa
      apply (hT a).out
      intro hai
      obtain ⟨x, hx, hx1, hx2⟩ := hb1 a.id hai
      obtain ⟨m2, hm2, h21, h22⟩ := mem_shape.1 hx
      have : m2 = a := eq_of_id_eq hnd hm2 ha (h21.trans hx1)
      subst this
      exact hst (hpa.2 t (h22 ▸ hx2)).symm
    intro a' ha' b' hb' hpa hpb
    obtain ⟨a, ha, rfl⟩ := List.mem_map.1 ha'
    obtain ⟨b, hb, rfl⟩ := List.mem_map.1 hb'
    have hpa' : Pure s a := (pure_of_streams (hT a).streams).1 hpa
    have hpb' : Pure s b := (pure_of_streams (hT b).streams).1 hpb
    rw [hfix a ha hpa', hfix b hb hpb']
    exact hp a ha b hb hpa' hpb'

/-! ### through the operations -/

theorem pat_foldl_balance (parts : String → Nat) (ts : List String) (g : Group)
    (h : Inv parts g) (hc : CInv g.members) :
    ∀ s, (s ∈ ts ∨ PAt s g.members) →
      PAt s (ts.foldl (fun g t => balance parts t g) g).members := by
  induction ts generalizing g with
  | nil =>
    intro s hs
    rcases hs with hs | hs
    · simp at hs
    · exact hs
  | cons t r ih =>
    intro s hs
    simp only [List.foldl_cons]
    have hb := pat_balance parts t g h.nodup (b1_local h.b1 t) (b2_local h.b2 t) h.only hc
    apply ih _ (inv_balance parts t g h) (cinv_balance parts t hc)
    by_cases hst : s = t
    · subst hst; exact Or.inr hb.1
    · rcases hs with hs | hs
      · rcases List.mem_cons.1 hs with hs | hs
        · exact absurd hs hst
        · exact Or.inl hs
      · exact Or.inr (hb.2 s hst hs)

/-- `StreamDeleted`: a consumer left with a single stream by the deletion has that stream
rebalanced; everybody else's shares are untouched. -/
theorem pat_streamDeleted (parts : String → Nat) (g g' : Group) (s : String) (e : Nat)
    (h : Inv parts g) (hc : CInv g.members) (hp : ∀ u, PAt u g.members)
    (hs : streamDeleted parts g s e = .ok g') : ∀ u, PAt u g'.members := by
  unfold streamDeleted at hs
  split at hs
  · simp at hs
  · cases hg : sget g.subs s with
    | none => simp [hg] at hs; subst hs; exact hp
    | some idl =>
      simp only [hg] at hs
      have hsub : subsOf' g.subs s = idl := by simp [subsOf', hg]
      split at hs
      · simp only [Res.ok.injEq] at hs; subst hs; exact hp
      · simp only [Res.ok.injEq] at hs
        subst hs
        intro u
        let f : Cons → Cons := fun c => if c.id ∈ idl then c.dropStream s else c
        let g1 : Group := { g with members := g.members.map f, subs := sdel g.subs s }
        show PAt u (List.foldl (fun g t => balance parts t g) g1
          (sortDedup (((g.members.map f).filter (fun c => c.id ∈ idl)).flatMap (·.streams)))).members
        have hinv1 : Inv parts g1 := inv_streamDeleted_mid parts g s idl h hsub
        have hc1 : CInv g1.members := by
          apply cinv_map f _ hc
          intro c hcc
          simp only [f]
          split
          · exact cok_drop hcc s
          · exact hcc
        apply pat_foldl_balance parts _ g1 hinv1 hc1
        by_cases hu : u ∈ sortDedup (((g.members.map f).filter (fun c => c.id ∈ idl)).flatMap (·.streams))
        · exact Or.inl hu
        · right
          have hfid : ∀ c, (f c).id = c.id := by
            intro c; simp only [f]; split
            · exact dropStream_id c s
            · rfl
          have hun : ∀ a ∈ g.members, Pure u (f a) → f a = a := by
            intro a ha hpa
            by_cases hai : a.id ∈ idl
            · exfalso
              apply hu
              rw [mem_sortDedup, List.mem_flatMap]
              refine ⟨f a, ?_, hpa.1⟩
              rw [List.mem_filter]
              refine ⟨List.mem_map.2 ⟨a, ha, rfl⟩, ?_⟩
              rw [hfid a]
              simpa using hai
            · simp only [f, hai, if_false]
          intro a' ha' b' hb' hpa hpb
          obtain ⟨a, ha, rfl⟩ := List.mem_map.1 ha'
          obtain ⟨b, hb, rfl⟩ := List.mem_map.1 hb'
          have ea := hun a ha hpa
          have eb := hun b hb hpb
          rw [ea] at hpa ⊢
          rw [eb] at hpb ⊢
          exact hp u a ha b hb hpa hpb

theorem pat_addConsumer (parts : String → Nat) (X : String) (ts : List String) (g : Group)
    (h : JInv parts X ts g) (hc : CInv g.members) :
    ∀ s, (s ∈ ts ∨ PAt s g.members) → PAt s (addConsumer parts X ts g).members := by
  induction ts generalizing g with
  | nil =>
    intro s hs
    rcases hs with hs | hs
    · simp at hs
    · exact hs
  | cons t r ih =>
    intro s hs
    simp only [addConsumer, List.foldl_cons]
    obtain ⟨hb1, hb2⟩ := jinv_local parts X t r g h
    have hb := pat_balance parts t (pushSub t X g) h.nodup hb1 hb2 h.only hc
    apply ih _ (jinv_step parts X t r g h) (cinv_balance parts t (g := pushSub t X g) hc)
    by_cases hst : s = t
    · subst hst; exact Or.inr hb.1
    · rcases hs with hs | hs
      · rcases List.mem_cons.1 hs with hs | hs
        · exact absurd hs hst
        · exact Or.inl hs
      · exact Or.inr (hb.2 s hst hs)

/-- `AddMember`: the streams of the new consumer are rebalanced one by one; if it subscribes to a
single stream, that stream is among them. -/
theorem pat_join (parts : String → Nat) (g g' : Group) (X : String) (streams : List String) (e : Nat)
    (h : Inv parts g) (hc : CInv g.members) (hp : ∀ u, PAt u g.members)
    (hs : join parts g X streams e = .ok g') : ∀ u, PAt u g'.members := by
  unfold join at hs
  split at hs
  · simp at hs
  · split at hs
    · simp at hs
    · rename_i _ hnm
      simp only [Res.ok.injEq] at hs
      subst hs
      have hX : X ∉ ids g.members := by
        intro hcx
        obtain ⟨m, hm, hmid⟩ := List.mem_map.1 hcx
        apply hnm
        simp only [List.any_eq_true, decide_eq_true_eq]
        exact ⟨m, hm, hmid⟩
      intro u
      show PAt u (addMember parts X streams g).members
      unfold addMember
      let c0 : Cons := { id := X, streams := sortDedup streams, asg := [], count := 0 }
      have hc0 : CInv (g.members ++ [c0]) := by
        intro m hm
        rcases List.mem_append.1 hm with hm | hm
        · exact hc m hm
        · simp only [List.mem_singleton] at hm
          subst hm
          exact ⟨by simp [c0], by simp [c0, asgTotal]⟩
      apply pat_addConsumer parts X (sortDedup streams) _ (jinv_init parts g X streams h hX) hc0
      by_cases hu : u ∈ sortDedup streams
      · exact Or.inl hu
      · right
        have hin : ∀ a ∈ g.members ++ [c0], Pure u a → a ∈ g.members := by
          intro a ha hpa
          rcases List.mem_append.1 ha with ha | ha
          · exact ha
          · simp only [List.mem_singleton] at ha
            subst ha
            exact absurd hpa.1 hu
        intro a ha b hb hpa hpb
        exact hp u a (hin a ha hpa) b (hin b hb hpb) hpa hpb

/-- The heap of `t` right after the leaving consumer has been removed from it. -/
theorem linv_local (parts : String → Nat) (cons : Cons) (t : String) (ts : List String) (g : Group)
    (h : LInv parts cons.id cons.asg (t :: ts) g) (idl : List String) (hs : sget g.subs t = some idl) :
    (∀ id ∈ subsOf' (sset g.subs t (idl.filter (· ≠ cons.id))) t,
        ∃ x ∈ shape g.members, x.1 = id ∧ t ∈ x.2) ∧
    (∀ x ∈ shape g.members, t ∈ x.2 → x.1 ∈ subsOf' (sset g.subs t (idl.filter (· ≠ cons.id))) t) := by
  have hidl : subsOf' g.subs t = idl := by simp [subsOf', hs]
  constructor
  · intro id hid
    rw [subsOf'_sset] at hid
    simp only [if_true, List.mem_filter, decide_eq_true_eq] at hid
    rcases h.b1 t id (hidl ▸ hid.1) with h' | ⟨h1, _⟩
    · exact h'
    · exact absurd h1 hid.2
  · intro x hx ht
    rw [subsOf'_sset]
    simp only [if_true, List.mem_filter, decide_eq_true_eq]
    refine ⟨hidl ▸ b2_local h.b2 t x hx ht, ?_⟩
    intro hxid
    obtain ⟨m, hm, hm1, _⟩ := mem_shape.1 hx
    exact h.notin (List.mem_map.2 ⟨m, hm, hm1.trans hxid⟩)

theorem pat_removeLoop (parts : String → Nat) (cons : Cons) (ts : List String) (g : Group)
    (h : LInv parts cons.id cons.asg ts g) (hc : CInv g.members) (hp : ∀ u, PAt u g.members) :
    ∀ u, PAt u (ts.foldl (removeStep parts cons) g).members := by
  induction ts generalizing g with
  | nil => exact hp
  | cons t r ih =>
    simp only [List.foldl_cons]
    apply ih _ (linv_step parts cons t r g h) (cinv_removeStep parts cons t hc)
    unfold removeStep
    cases hs : sget g.subs t with
    | none => exact hp
    | some idl =>
      simp only []
      split
      · obtain ⟨hb1, hb2⟩ := linv_local parts cons t r g h idl hs
        have hb := pat_balance parts t { g with subs := sset g.subs t (idl.filter (· ≠ cons.id)) }
          h.nodup hb1 hb2 h.only hc
        intro u
        by_cases hut : u = t
        · subst hut; exact hb.1
        · exact hb.2 u hut (hp u)
      · exact hp

/-- `RemoveMember`. -/
theorem pat_leave (parts : String → Nat) (g g' : Group) (X : String) (e : Nat)
    (h : Inv parts g) (hc : CInv g.members) (hp : ∀ u, PAt u g.members)
    (hs : leave parts g X e = .ok g') : ∀ u, PAt u g'.members := by
  unfold leave at hs
  split at hs
  · simp at hs
  · cases hf : g.members.find? (·.id = X) with
    | none => simp [hf] at hs
    | some cons =>
      simp only [hf, Res.ok.injEq] at hs
      subst hs
      have hcm : cons ∈ g.members := List.mem_of_find?_eq_some hf
      have hcid : cons.id = X := by
        have := List.find?_some hf
        simpa using this
      subst hcid
      intro u
      show PAt u (dropX cons.id (removeConsumer parts cons g)).members
      unfold removeConsumer
      rw [← removeConsumer_dropX]
      have hsubl : ∀ m, m ∈ (dropX cons.id g).members → m ∈ g.members := by
        intro m hm; exact (List.mem_filter.1 hm).1
      apply pat_removeLoop parts cons cons.streams _ (linv_init parts g cons h hcm)
      · intro m hm; exact hc m (hsubl m hm)
      · intro v a ha b hb hpa hpb
        exact hp v a (hsubl a ha) b (hsubl b hb) hpa hpb

/-- Everything the histories preserve. -/
structure BInv (parts : String → Nat) (g : Group) : Prop where
  inv : Inv parts g
  cnt : CInv g.members
  bal : ∀ s, PAt s g.members

theorem binv_new (parts : String → Nat) (e : Nat) : BInv parts (Group.new e) :=
  ⟨inv_new parts e, cinv_new e, fun _ a ha => by simp [Group.new] at ha⟩

theorem binv_applyOp (parts : String → Nat) (g : Group) (op : Op) (h : BInv parts g) :
    BInv parts (applyOp parts g op) := by
  refine ⟨inv_applyOp parts g op h.inv, cinv_applyOp parts g op h.cnt, ?_⟩
  unfold applyOp
  cases hs : step parts g op with
  | ok g' =>
    simp only []
    cases op with
    | join id streams e => exact pat_join parts g g' id streams e h.inv h.cnt h.bal hs
    | leave id e => exact pat_leave parts g g' id e h.inv h.cnt h.bal hs
    | deleted s e => exact pat_streamDeleted parts g g' s e h.inv h.cnt h.bal hs
  | err e => exact h.bal
  | panic => exact h.bal

theorem binv_run (parts : String → Nat) (g : Group) (ops : List Op) (h : BInv parts g) :
    BInv parts (run parts g ops) := by
  induction ops generalizing g with
  | nil => exact h
  | cons op r ih => exact ih _ (binv_applyOp parts g op h)

end Liftbridge.Proofs.Groups
