/-
Helpers for theorems about translated Go code (GoMini): arithmetic facts in simp normal form
and the encodings of model values as GoMini values.
-/
import Liftbridge.GoMiniLemmas
import Liftbridge.Model.Log

namespace Liftbridge.GoCode
open Liftbridge Liftbridge.GoMini Liftbridge.Log

@[simp] theorem cast_succ_ne_zero (n : Nat) : ((n : Int) + 1 = 0) = False := by
  apply eq_false; omega
@[simp] theorem cast_succ_sub_one_not_neg (n : Nat) : ((n : Int) + 1 - 1 < 0) = False := by
  apply eq_false; omega
@[simp] theorem cast_not_neg (n : Nat) : ((n : Int) < 0) = False := by
  apply eq_false; omega
@[simp] theorem cast_succ_sub_one_toNat (n : Nat) : ((n : Int) + 1 - 1).toNat = n := by omega

/-- `*epochOffset` -/
def encEpoch (e : Nat × Int) : Val := .struct [("leaderEpoch", .int e.1), ("startOffset", .int e.2)]
/-- `*leaderEpochCache` (the fields the translated functions touch) -/
def encCache (c : Epochs) : Val := .struct [("epochOffsets", .list (c.map encEpoch))]

end Liftbridge.GoCode
