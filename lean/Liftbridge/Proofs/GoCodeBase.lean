/-
Helpers for theorems about translated Go code (GoMini): arithmetic facts in simp normal form
and the encodings of model values as GoMini values.
-/
import Liftbridge.GoMiniLemmas
import Liftbridge.Model.Log

namespace Liftbridge.GoCode
open Liftbridge Liftbridge.GoMini Liftbridge.Log

@[simp] theorem cast_succ_ne_zero (n : Nat) : ((n : Int) + 1 = 0) = False := by
  apply eq_false; omega
@[simp] theorem cast_succ_sub_one_not_neg (n : Nat) : ((n : Int) + 1 - 1 < 0) = False := by
  apply eq_false; omega
@[simp] theorem cast_not_neg (n : Nat) : ((n : Int) < 0) = False := by
  apply eq_false; omega
@[simp] theorem cast_succ_sub_one_toNat (n : Nat) : ((n : Int) + 1 - 1).toNat = n := by omega

/-! ### Go's `sort.Search` in the embedding = the literal mirror `goSearch` of the models -/

theorem searchAux_eq (f : Nat → R Bool) (g : Nat → Bool) : ∀ (s i j : Nat), j - i + 1 ≤ s →
    (∀ k, i ≤ k → k < j → f k = .ok (g k)) → searchAux f s i j = .ok (goSearchAux g i j) := by
  intro s
  induction s with
  | zero => intro i j h; omega
  | succ s ih =>
    intro i j hs hf
    rw [searchAux, goSearchAux]
    by_cases hij : i < j
    · have hm : i ≤ (i + j) / 2 ∧ (i + j) / 2 < j := by omega
      simp only [hij, ↓reduceIte, ↓reduceDIte, hf _ hm.1 hm.2]
      cases hg : g ((i + j) / 2)
      · simp only [Bool.false_eq_true, ↓reduceIte]
        exact ih _ _ (by omega) (fun k h1 h2 => hf k (by omega) h2)
      · simp only [↓reduceIte]
        exact ih _ _ (by omega) (fun k h1 h2 => hf k h1 (by omega))
    · simp [hij]

theorem search_eq (n : Nat) (f : Nat → R Bool) (g : Nat → Bool) (h : ∀ k, k < n → f k = .ok (g k)) :
    search n f = .ok (goSearch n g) :=
  searchAux_eq f g (n + 1) 0 n (by omega) (fun k _ hk => h k hk)

/-- the result of `sort.Search` lies in `[i, j]` for ANY predicate (no monotonicity needed) -/
theorem goSearchAux_bounds (f : Nat → Bool) (i j : Nat) (h : i ≤ j) :
    i ≤ goSearchAux f i j ∧ goSearchAux f i j ≤ j := by
  fun_induction goSearchAux f i j with
  | case1 i j hij m hm ih => have := ih (by simp only [m]; omega); constructor <;> (simp only [m] at *; omega)
  | case2 i j hij m hm ih => have := ih (by simp only [m]; omega); constructor <;> (simp only [m] at *; omega)
  | case3 i j hij => omega

theorem goSearch_le (n : Nat) (f : Nat → Bool) : goSearch n f ≤ n := (goSearchAux_bounds f 0 n (Nat.zero_le _)).2

/-- `*epochOffset` -/
def encEpoch (e : Nat × Int) : Val := .struct [("leaderEpoch", .int e.1), ("startOffset", .int e.2)]
/-- `*leaderEpochCache` (the fields the translated functions touch) -/
def encCache (c : Epochs) : Val := .struct [("epochOffsets", .list (c.map encEpoch))]

/-- `*segment`: the fields and accessor methods the translated functions read (an accessor method such
as `seg.NextOffset()` is answered by the field of that name, see GoMini) -/
def encSeg (s : Seg) : Val :=
  .struct [("BaseOffset", .int s.base), ("NextOffset", .int s.nextOffset), ("MessageCount", .int s.count),
           ("Position", .int s.position), ("lastWriteTime", .int s.lastTs)]

theorem encSeg_ne_nil (s : Seg) : isNil (encSeg s) = false := rfl

end Liftbridge.GoCode
