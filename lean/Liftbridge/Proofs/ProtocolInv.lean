/-
The leader's view of the replica offsets is sound WITHIN a leadership term: `TermInv` (every
recorded offset `isrOff r = v` is at most the newest offset of replica `r`'s real log, every
replication request in flight reports at most its sender's newest offset, every response carries
offset-sorted records, every log satisfies the commit-log invariant) is preserved by every step
that does not change roles or truncate a log (`InTerm`). It is NOT established by `becomeLeader`
on a partition object that led before (Props/C04 `isrOff_unsound_across_terms`).
-/
import Liftbridge.Model.Protocol
import Liftbridge.Proofs.Log
import Liftbridge.Proofs.LogRead
import Liftbridge.Proofs.Protocol

namespace Liftbridge.Proofs.Protocol
open Liftbridge Liftbridge.Log Liftbridge.Log.CLog Liftbridge.Protocol Liftbridge.Proofs.Log

/-! ### commit-log facts used by the glue -/

theorem inv_setHW {l : CLog} (h : Inv l) (hw : Int) : Inv (l.setHW hw) := by
  unfold setHW; split
  · exact ⟨h.nonempty, h.maxPos, h.sorted, h.base_le, h.chain, h.link⟩
  · exact h

theorem nextOffset_setHW (l : CLog) (hw : Int) : (l.setHW hw).nextOffset = l.nextOffset := by
  unfold setHW; split <;> rfl

theorem newest_setHW (l : CLog) (hw : Int) : (l.setHW hw).newest = l.newest := by
  unfold newest; rw [nextOffset_setHW]

/-- Well-formed log whose empty state starts at offset 0 (true for every log of the protocol
model: nothing ever removes the head of a log). -/
def LogOK (l : CLog) : Prop := Inv l ∧ (l.abs = [] → l.nextOffset = 0)

theorem LogOK.setHW {l : CLog} (h : LogOK l) (hw : Int) : LogOK (l.setHW hw) :=
  ⟨inv_setHW h.1 hw, by rw [abs_setHW, nextOffset_setHW]; exact h.2⟩

theorem LogOK.newest_ge {l : CLog} (h : LogOK l) : -1 ≤ l.newest := by
  have := h.1.next_nonneg; unfold newest; omega

/-- A non-empty sorted batch appended at or after the next offset: invariant kept, the log only
grows, the new newest offset is the last appended one. -/
theorem appendSet_grow {l l' : CLog} {rs : List Rec} {offs : List Int} (h : LogOK l) (hne : rs ≠ [])
    (hs : Sorted rs) (hge : ∀ r ∈ rs, l.nextOffset ≤ r.offset) (ha : l.appendSet rs = .ok (l', offs)) :
    LogOK l' ∧ l.newest ≤ l'.newest := by
  have hinv := inv_appendSet h.1 hs hge ha
  have habs := (appendSet_full h.1 ha).1
  obtain ⟨r, hr⟩ : ∃ r, rs.getLast? = some r := by
    cases hl : rs.getLast? with
    | none => exact absurd (List.getLast?_eq_none_iff.mp hl) hne
    | some r => exact ⟨r, rfl⟩
  have hlast : l'.abs.getLast? = some r := by
    rw [habs, getLast?_append_ne hne, hr]
  have hn := nextOffset_last hinv hlast
  have hrm : r ∈ rs := List.mem_of_getLast? hr
  refine ⟨⟨hinv, ?_⟩, ?_⟩
  · intro he; rw [habs] at he; simp at he; exact absurd he.2 hne
  · have := hge r hrm; unfold newest; omega

theorem append_grow {l l' : CLog} {ms : List CLog.Msg} {offs : List Int} (h : LogOK l)
    (ha : l.append ms = .ok (l', offs)) :
    LogOK l' ∧ l.newest ≤ l'.newest ∧ offs.getLast?.getD (-1) = l'.newest := by
  obtain ⟨hinv, hoffs, rs, habs, hro, _⟩ := append_full h.1 ha
  have hne : ms ≠ [] := by
    intro hm; subst hm
    unfold append at ha
    split at ha
    · cases ha
    · simp only at ha
      split at ha
      · cases ha
      · simp [stamp, write] at ha
  have hlen : rs.length = ms.length := by
    have := congrArg List.length hro; simp only [List.length_map] at this; rw [this, hoffs]; simp
  have hrne : rs ≠ [] := by
    intro hr; rw [hr] at hlen; simp at hlen; exact hne (List.eq_nil_of_length_eq_zero hlen.symm)
  obtain ⟨r, hr⟩ : ∃ r, rs.getLast? = some r := by
    cases hl : rs.getLast? with
    | none => exact absurd (List.getLast?_eq_none_iff.mp hl) hrne
    | some r => exact ⟨r, rfl⟩
  have hlast : l'.abs.getLast? = some r := by rw [habs, getLast?_append_ne hrne, hr]
  have hn := nextOffset_last hinv hlast
  -- the last offset reported is r.offset
  have hol : offs.getLast? = some r.offset := by
    rw [← hro, List.getLast?_map, hr]; rfl
  -- and it is nextOffset + (len - 1)
  have hro' : r.offset = l.nextOffset + ((ms.length - 1 : Nat) : Int) := by
    have h1 : offs.getLast? = some (l.nextOffset + ((ms.length - 1 : Nat) : Int)) := by
      rw [hoffs, List.getLast?_map]
      have : (List.range ms.length).getLast? = some (ms.length - 1) := by
        cases hm : ms.length with
        | zero => exact absurd (List.eq_nil_of_length_eq_zero hm) hne
        | succ k => simp [List.range_succ]
      rw [this]; rfl
    rw [hol] at h1; exact Option.some.inj h1
  refine ⟨⟨hinv, ?_⟩, ?_, ?_⟩
  · intro he; rw [habs] at he; simp at he; exact absurd he.2 hrne
  · unfold newest; omega
  · rw [hol]; simp only [Option.getD_some, newest]; omega

theorem LogOK.checkSplitIfWritable {l : CLog} (h : LogOK l) : LogOK l.checkSplitIfWritable ∧
    l.checkSplitIfWritable.newest = l.newest :=
  ⟨⟨inv_checkSplitIfWritable h.1, by rw [abs_checkSplitIfWritable, Occ.nextOffset_checkSplitIfWritable]; exact h.2⟩,
   by unfold newest; rw [Occ.nextOffset_checkSplitIfWritable]⟩

/-- What a replication response can carry is offset-sorted. -/
theorem read_for_serve_sorted {l : CLog} (h : LogOK l) {off : Int} (h1 : -1 ≤ off) (h2 : off < l.newest) :
    ∀ rs, l.readUncommitted (off + 1) = .ok rs → Sorted rs := by
  intro rs hr
  have hne : l.abs ≠ [] := by
    intro he
    have := h.2 he
    unfold newest at h2; omega
  obtain ⟨r, hl⟩ : ∃ r, l.abs.getLast? = some r := by
    cases hl : l.abs.getLast? with
    | none => exact absurd (List.getLast?_eq_none_iff.mp hl) hne
    | some r => exact ⟨r, rfl⟩
  have hn := nextOffset_last h.1 hl
  have hex : ∃ r ∈ l.abs, off + 1 ≤ r.offset := ⟨r, List.mem_of_getLast? hl, by unfold newest at h2; omega⟩
  rw [readUncommitted_eq h.1 _ hex] at hr
  injection hr with hr
  rw [← hr]
  exact h.1.sorted.filter _

/-! ### state access -/

theorem get_lt {st : State} {i : Sid} {sv : Srv} (h : st.get i = some sv) : i < st.srv.length := by
  unfold State.get at h; exact (List.getElem?_eq_some_iff.mp h).1

theorem get_set_self {st : State} {i : Sid} (sv' : Srv) (hi : i < st.srv.length) :
    (st.set i sv').get i = some sv' := by
  simp [State.get, State.set, hi]

theorem get_set_ne {st : State} {i j : Sid} (sv' : Srv) (h : j ≠ i) : (st.set i sv').get j = st.get j := by
  simp only [State.get, State.set]
  rw [List.getElem?_set_ne (Ne.symm h)]

/-! ### the invariant -/

structure TermInv (st : State) : Prop where
  logs : ∀ s sv, st.get s = some sv → LogOK sv.log
  offs : ∀ l sv, st.get l = some sv → ∀ r v, lookup sv.isrOff r = some v →
    ∃ sr, st.get r = some sr ∧ v ≤ sr.log.newest
  reqs : ∀ src off ep rid, Net.replReq src off ep rid ∈ st.net →
    -1 ≤ off ∧ ∃ sr, st.get src = some sr ∧ off ≤ sr.log.newest
  resps : ∀ dst rid ep hw recs, Net.replResp dst rid ep hw recs ∈ st.net → Sorted recs
  /-- the offset at which a replica was last seen caught up is an offset it really stores -/
  cu : ∀ l sv, st.get l = some sv → ∀ r v, lookup sv.caughtUp r = some v →
    ∃ sr, st.get r = some sr ∧ v ≤ sr.log.newest

/-- Steps that neither change a role nor truncate a log. -/
def InTerm : Step → Prop
  | .publish .. | .fetch _ | .serve .. | .applyResp .. | .drop _ | .commit _ | .shrinkDecision ..
  | .expandDecision .. | .clearCaughtUp .. | .clearSeen .. | .electDecision _ | .raftCommit _ | .offServe .. => True
  | _ => False

/-- Replacing server `i` by one whose log is well-formed and has only grown, whose recorded
offsets are old ones, its own new newest offset, or an offset reported by a request in flight. -/
theorem TermInv.set {st : State} (J : TermInv st) {i : Sid} {sv sv' : Srv} (hi : st.get i = some sv)
    (hlog : LogOK sv'.log) (hgrow : sv.log.newest ≤ sv'.log.newest)
    (hoffs : ∀ r v, lookup sv'.isrOff r = some v →
      lookup sv.isrOff r = some v ∨ (r = i ∧ v ≤ sv'.log.newest) ∨
      ∃ ep rid, Net.replReq r v ep rid ∈ st.net)
    (hcu : ∀ r v, lookup sv'.caughtUp r = some v →
      lookup sv.caughtUp r = some v ∨ ∃ ep rid, Net.replReq r v ep rid ∈ st.net) :
    TermInv (st.set i sv') := by
  have hlt := get_lt hi
  -- every server's newest offset only grows
  have hget : ∀ r sr, st.get r = some sr → ∃ sr', (st.set i sv').get r = some sr' ∧ sr.log.newest ≤ sr'.log.newest := by
    intro r sr hr
    by_cases hri : r = i
    · subst hri
      rw [hi] at hr; cases hr
      exact ⟨sv', get_set_self sv' hlt, hgrow⟩
    · exact ⟨sr, by rw [get_set_ne sv' hri]; exact hr, Int.le_refl _⟩
  refine ⟨?_, ?_, ?_, ?_, ?_⟩
  · intro s x hs
    by_cases hsi : s = i
    · subst hsi; rw [get_set_self sv' hlt] at hs; cases hs; exact hlog
    · rw [get_set_ne sv' hsi] at hs; exact J.logs s x hs
  · intro l x hl r v hv
    have old : ∀ y, st.get l = some y → lookup y.isrOff r = some v →
        ∃ sr, (st.set i sv').get r = some sr ∧ v ≤ sr.log.newest := by
      intro y hy hyv
      obtain ⟨sr, hsr, hle⟩ := J.offs l y hy r v hyv
      obtain ⟨sr', hsr', hle'⟩ := hget r sr hsr
      exact ⟨sr', hsr', Int.le_trans hle hle'⟩
    by_cases hli : l = i
    · subst hli
      rw [get_set_self sv' hlt] at hl; cases hl
      rcases hoffs r v hv with h1 | ⟨h1, h2⟩ | ⟨ep, rid, h1⟩
      · exact old sv hi h1
      · subst h1; exact ⟨sv', get_set_self sv' hlt, h2⟩
      · obtain ⟨_, sr, hsr, hle⟩ := J.reqs r v ep rid h1
        obtain ⟨sr', hsr', hle'⟩ := hget r sr hsr
        exact ⟨sr', hsr', Int.le_trans hle hle'⟩
    · rw [get_set_ne sv' hli] at hl
      exact old x hl hv
  · intro src off ep rid hm
    obtain ⟨h1, sr, hsr, hle⟩ := J.reqs src off ep rid hm
    obtain ⟨sr', hsr', hle'⟩ := hget src sr hsr
    exact ⟨h1, sr', hsr', Int.le_trans hle hle'⟩
  · exact J.resps
  · intro l x hl r v hv
    have old : ∀ y, st.get l = some y → lookup y.caughtUp r = some v →
        ∃ sr, (st.set i sv').get r = some sr ∧ v ≤ sr.log.newest := by
      intro y hy hyv
      obtain ⟨sr, hsr, hle⟩ := J.cu l y hy r v hyv
      obtain ⟨sr', hsr', hle'⟩ := hget r sr hsr
      exact ⟨sr', hsr', Int.le_trans hle hle'⟩
    by_cases hli : l = i
    · subst hli
      rw [get_set_self sv' hlt] at hl; cases hl
      rcases hcu r v hv with h1 | ⟨ep, rid, h1⟩
      · exact old sv hi h1
      · obtain ⟨_, sr, hsr, hle⟩ := J.reqs r v ep rid h1
        obtain ⟨sr', hsr', hle'⟩ := hget r sr hsr
        exact ⟨sr', hsr', Int.le_trans hle hle'⟩
    · rw [get_set_ne sv' hli] at hl
      exact old x hl hv

/-- Changing only the in-flight messages. -/
theorem TermInv.net {st : State} (J : TermInv st) (net' : List Net)
    (hreq : ∀ src off ep rid, Net.replReq src off ep rid ∈ net' →
      Net.replReq src off ep rid ∈ st.net ∨ (-1 ≤ off ∧ ∃ sr, st.get src = some sr ∧ off ≤ sr.log.newest))
    (hresp : ∀ dst rid ep hw recs, Net.replResp dst rid ep hw recs ∈ net' →
      Net.replResp dst rid ep hw recs ∈ st.net ∨ Sorted recs) :
    TermInv { st with net := net' } := by
  refine ⟨J.logs, J.offs, ?_, ?_, J.cu⟩
  · intro src off ep rid hm
    rcases hreq src off ep rid hm with h | h
    · exact J.reqs src off ep rid h
    · exact h
  · intro dst rid ep hw recs hm
    rcases hresp dst rid ep hw recs hm with h | h
    · exact J.resps dst rid ep hw recs h
    · exact h

theorem TermInv.acks {st : State} (J : TermInv st) (a : List Ack) : TermInv { st with acks := a } :=
  ⟨J.logs, J.offs, J.reqs, J.resps, J.cu⟩

theorem TermInv.proposed {st : State} (J : TermInv st) (p : List MetaOp) : TermInv { st with proposed := p } :=
  ⟨J.logs, J.offs, J.reqs, J.resps, J.cu⟩

theorem TermInv.committed {st : State} (J : TermInv st) (p q : List MetaOp) :
    TermInv { st with proposed := p, committed := q } :=
  ⟨J.logs, J.offs, J.reqs, J.resps, J.cu⟩

theorem mem_removeFirst {α} [DecidableEq α] {l : List α} {a x : α} (h : x ∈ removeFirst l a) : x ∈ l := by
  induction l with
  | nil => simp [removeFirst] at h
  | cons y ys ih =>
    simp only [removeFirst] at h
    split at h
    · exact List.mem_cons_of_mem _ h
    · rcases List.mem_cons.mp h with rfl | h
      · exact List.mem_cons_self
      · exact List.mem_cons_of_mem _ (ih h)

/-! ### lookups in updated maps -/

theorem lookup_cons (k' : Sid) (v' : Int) (ps : List (Sid × Int)) (r : Sid) :
    lookup ((k', v') :: ps) r = if k' = r then some v' else lookup ps r := by
  unfold lookup
  simp only [List.find?_cons]
  by_cases h : k' = r
  · simp [h]
  · simp [h]

theorem lookup_mSet (m : List (Sid × Int)) (k : Sid) (v : Int) (r : Sid) (w : Int)
    (h : lookup (mSet m k v) r = some w) : (r = k ∧ w = v) ∨ lookup m r = some w := by
  induction m with
  | nil =>
    simp only [mSet, lookup_cons] at h
    split at h
    · rename_i hk; exact Or.inl ⟨hk.symm, (Option.some.inj h).symm⟩
    · simp [lookup] at h
  | cons p ps ih =>
    obtain ⟨k', v'⟩ := p
    simp only [mSet] at h
    split at h
    · rw [lookup_cons] at h
      split at h
      · rename_i hk; exact Or.inl ⟨hk.symm, (Option.some.inj h).symm⟩
      · exact Or.inr h
    · split at h
      · rename_i hkk
        rw [lookup_cons] at h
        split at h
        · rename_i hk; exact Or.inl ⟨hk.symm, (Option.some.inj h).symm⟩
        · rename_i hk
          rw [lookup_cons]
          have : ¬ k' = r := by rw [← hkk]; exact hk
          rw [if_neg this]
          exact Or.inr h
      · rw [lookup_cons] at h ⊢
        split at h
        · rename_i hk; rw [if_pos hk]; exact Or.inr h
        · rename_i hk; rw [if_neg hk]; exact ih h

theorem lookup_updateOffset (m : List (Sid × Int)) (k : Sid) (v : Int) (r : Sid) (w : Int)
    (h : lookup (updateOffset m k v).1 r = some w) : (r = k ∧ w = v) ∨ lookup m r = some w := by
  unfold updateOffset at h
  split at h
  · exact Or.inr h
  · split at h
    · exact lookup_mSet m k v r w h
    · exact Or.inr h

/-! ### per-server effects of the in-term steps -/

theorem serveStep_spec (c : Cfg) (sv : Srv) (src : Sid) (off : Int) (ep rid : Nat) :
    (serveStep c sv src off ep rid).1.log = sv.log ∧
    (∀ x w, lookup (serveStep c sv src off ep rid).1.isrOff x = some w →
      lookup sv.isrOff x = some w ∨ (x = src ∧ w = off)) ∧
    (∀ x w, lookup (serveStep c sv src off ep rid).1.caughtUp x = some w →
      lookup sv.caughtUp x = some w ∨ (x = src ∧ w = off)) ∧
    (∀ m ∈ (serveStep c sv src off ep rid).2, ∃ e hw recs, m = Net.replResp src rid e hw recs ∧
      (recs = [] ∨ (off < sv.log.newest ∧ sv.log.readUncommitted (off + 1) = .ok recs))) := by
  unfold serveStep
  split
  · exact ⟨rfl, fun x w h => Or.inl h, fun x w h => Or.inl h, by simp⟩
  · split
    · exact ⟨rfl, fun x w h => Or.inl h, fun x w h => Or.inl h, by simp⟩
    · simp only
      have hup : ∀ x w, lookup (updateOffset sv.isrOff src off).1 x = some w →
          lookup sv.isrOff x = some w ∨ (x = src ∧ w = off) := by
        intro x w h
        rcases lookup_updateOffset _ _ _ _ _ h with h | h
        · exact Or.inr h
        · exact Or.inl h
      have hset : ∀ x w, lookup (mSet sv.caughtUp src off) x = some w →
          lookup sv.caughtUp x = some w ∨ (x = src ∧ w = off) := by
        intro x w h
        rcases lookup_mSet _ _ _ _ _ h with h | h
        · exact Or.inr h
        · exact Or.inl h
      split
      · refine ⟨rfl, hup, hset, ?_⟩
        intro m hm
        simp only [List.mem_singleton] at hm
        exact ⟨_, _, [], hm, Or.inl rfl⟩
      · rename_i hcu
        simp only [Gen.Protocol.caughtUpCmp, Cmp.evalInt, decide_eq_true_eq, ge_iff_le, Int.not_le] at hcu
        refine ⟨rfl, hup, ?_, ?_⟩
        · intro x w h
          simp only at h
          split at h
          · exact Or.inl h
          · exact hset x w h
        intro m hm
        simp only [List.mem_singleton] at hm
        cases hr : sv.log.readUncommitted (off + Gen.Protocol.serveReadAddend) with
        | ok rs =>
          rw [hr] at hm
          exact ⟨_, _, rs, hm, Or.inr ⟨hcu, by simpa [Gen.Protocol.serveReadAddend] using hr⟩⟩
        | err e => rw [hr] at hm; exact ⟨_, _, [], hm, Or.inl rfl⟩
        | panic => rw [hr] at hm; exact ⟨_, _, [], hm, Or.inl rfl⟩

/-- `applyRespStep` with the HW the follower adopts abstracted to an arbitrary function of its
log (`cap`), applied before the append and — when `again` — once more on the appended log.
`applyRespStep` is the instance given by the regenerated fact `Gen.Protocol.followerHwCapped`
(`applyRespStep_eq_core`), so the lemma below covers the code before and after fix ba85aea. -/
def applyRespCore (cap : CLog → Int) (again : Bool) (sv : Srv) (epoch : Nat) (recs : List Rec) : Srv :=
  if sv.role ≠ .follower then sv
  else if Gen.Protocol.replRespEpochCmp.evalNat sv.leaderEpoch epoch then sv
  else
    let log := sv.log.setHW (cap sv.log)
    match recs with
    | [] => { sv with log := log }
    | r :: _ =>
      if Gen.Protocol.replRespOffsetCmp.evalInt r.offset (log.newest + 1) then { sv with log := log }
      else match log.appendSet recs with
        | .ok (log', _) => { sv with log := if again then log'.setHW (cap log') else log' }
        | _ => { sv with log := log }

theorem applyRespStep_eq_core (sv : Srv) (ep : Nat) (hw : Int) (recs : List Rec) :
    applyRespStep sv ep hw recs =
      applyRespCore (fun l => if Gen.Protocol.followerHwCapped then (if hw < l.newest then hw else l.newest) else hw)
        Gen.Protocol.followerHwCapped sv ep recs := rfl

theorem applyRespCore_spec (cap : CLog → Int) (again : Bool) (sv : Srv) (ep : Nat) (recs : List Rec)
    (hlog : LogOK sv.log) (hs : Sorted recs) :
    LogOK (applyRespCore cap again sv ep recs).log ∧ sv.log.newest ≤ (applyRespCore cap again sv ep recs).log.newest ∧
    (applyRespCore cap again sv ep recs).isrOff = sv.isrOff ∧ (applyRespCore cap again sv ep recs).caughtUp = sv.caughtUp := by
  unfold applyRespCore
  split
  · exact ⟨hlog, Int.le_refl _, rfl, rfl⟩
  · split
    · exact ⟨hlog, Int.le_refl _, rfl, rfl⟩
    · simp only
      generalize cap sv.log = x
      have hl' := hlog.setHW x
      have hn' : (sv.log.setHW x).newest = sv.log.newest := newest_setHW _ _
      split
      · exact ⟨hl', by rw [hn']; exact Int.le_refl _, rfl, rfl⟩
      · rename_i r rest
        split
        · exact ⟨hl', by rw [hn']; exact Int.le_refl _, rfl, rfl⟩
        · rename_i hoff
          simp only [Gen.Protocol.replRespOffsetCmp, Cmp.evalInt, decide_eq_true_eq, Int.not_lt] at hoff
          split
          · rename_i log' offs ha
            have hge : ∀ y ∈ r :: rest, (sv.log.setHW x).nextOffset ≤ y.offset := by
              intro y hy
              have h0 : (sv.log.setHW x).nextOffset ≤ r.offset := by unfold newest at hoff; omega
              rcases List.mem_cons.mp hy with rfl | hy
              · exact h0
              · have := (List.pairwise_cons.mp hs).1 y hy; omega
            obtain ⟨h1, h2⟩ := appendSet_grow hl' (by simp) hs hge ha
            simp only
            cases again with
            | false => exact ⟨h1, by rw [← hn']; exact h2, trivial, trivial⟩
            | true =>
              simp only [if_true]
              exact ⟨h1.setHW _, by rw [newest_setHW, ← hn']; exact h2, trivial, trivial⟩
          · exact ⟨hl', by rw [hn']; exact Int.le_refl _, rfl, rfl⟩

theorem applyRespStep_spec (sv : Srv) (ep : Nat) (hw : Int) (recs : List Rec) (hlog : LogOK sv.log)
    (hs : Sorted recs) :
    LogOK (applyRespStep sv ep hw recs).log ∧ sv.log.newest ≤ (applyRespStep sv ep hw recs).log.newest ∧
    (applyRespStep sv ep hw recs).isrOff = sv.isrOff ∧ (applyRespStep sv ep hw recs).caughtUp = sv.caughtUp := by
  rw [applyRespStep_eq_core]
  exact applyRespCore_spec _ _ sv ep recs hlog hs

theorem commitStep_spec (c : Cfg) (sv : Srv) (hlog : LogOK sv.log) :
    LogOK (commitStep c sv).1.log ∧ (commitStep c sv).1.log.newest = sv.log.newest ∧
    (commitStep c sv).1.isrOff = sv.isrOff ∧ (commitStep c sv).1.caughtUp = sv.caughtUp := by
  unfold commitStep
  simp only
  split
  · exact ⟨hlog, rfl, rfl, rfl⟩
  · exact ⟨hlog.setHW _, newest_setHW _ _, rfl, rfl⟩

theorem publishStep_spec {c : Cfg} {me : Sid} {sv sv' : Srv} {b : List PubMsg} {acks : List Ack}
    (hlog : LogOK sv.log) (h : publishStep c me sv b = some (sv', acks)) :
    LogOK sv'.log ∧ sv.log.newest ≤ sv'.log.newest ∧
    ∀ r v, lookup sv'.isrOff r = some v → lookup sv.isrOff r = some v ∨ (r = me ∧ v ≤ sv'.log.newest) := by
  unfold publishStep at h
  simp only at h
  generalize screen me sv.leaderEpoch b = sc at h
  obtain ⟨okMsgs, nacks⟩ := sc
  simp only at h
  split at h
  · simp only [Option.some.injEq, Prod.mk.injEq] at h
    rw [← h.1]
    exact ⟨hlog, Int.le_refl _, fun r v hv => Or.inl hv⟩
  · split at h
    · cases h
    · have hcs := hlog.checkSplitIfWritable
      split at h
      · cases okMsgs with
        | nil =>
          simp only [Option.some.injEq, Prod.mk.injEq] at h
          rw [← h.1]
          exact ⟨hcs.1, by simp only; rw [hcs.2]; exact Int.le_refl _, fun r v hv => Or.inl hv⟩
        | cons m rest =>
          simp only [Option.some.injEq, Prod.mk.injEq] at h
          rw [← h.1]
          exact ⟨hcs.1, by simp only; rw [hcs.2]; exact Int.le_refl _, fun r v hv => Or.inl hv⟩
      · simp only [Option.some.injEq, Prod.mk.injEq] at h
        rw [← h.1]
        exact ⟨hcs.1, by simp only; rw [hcs.2]; exact Int.le_refl _, fun r v hv => Or.inl hv⟩
    · rename_i log offs he
      simp only [Option.some.injEq, Prod.mk.injEq] at h
      obtain ⟨h1, _⟩ := h
      obtain ⟨g1, g2, g3⟩ := append_grow hlog he
      subst h1
      simp only
      have hfin : ∀ (l2 : CLog), (l2 = log ∨ l2 = log.setHW (offs.getLast?.getD (-1))) →
          LogOK l2 ∧ l2.newest = log.newest := by
        intro l2 h2
        rcases h2 with rfl | rfl
        · exact ⟨g1, rfl⟩
        · exact ⟨g1.setHW _, newest_setHW _ _⟩
      have hl2 := hfin (if (Gen.Protocol.fastPathRFCmp.evalNat c.n 1 && okMsgs.all fun m => decide (m.policy ≠ Policy.all)) = true
          then log.setHW (offs.getLast?.getD (-1)) else log) (by split <;> simp)
      refine ⟨hl2.1, by rw [hl2.2]; exact g2, ?_⟩
      intro r v hv
      rcases lookup_updateOffset _ _ _ _ _ hv with ⟨h1, h2⟩ | h1
      · right; exact ⟨h1, by rw [h2, hl2.2, g3]; exact Int.le_refl _⟩
      · left; exact h1

theorem publishStep_caughtUp {c : Cfg} {me : Sid} {sv sv' : Srv} {b : List PubMsg} {acks : List Ack}
    (h : publishStep c me sv b = some (sv', acks)) : sv'.caughtUp = sv.caughtUp := by
  unfold publishStep at h
  simp only at h
  generalize screen me sv.leaderEpoch b = sc at h
  obtain ⟨okMsgs, nacks⟩ := sc
  simp only at h
  repeat' (split at h)
  all_goals first
    | (cases h; done)
    | (simp only [Option.some.injEq, Prod.mk.injEq] at h; rw [← h.1])

theorem lookup_mErase (m : List (Sid × Int)) (k r : Sid) (w : Int) (h : lookup (mErase m k) r = some w) :
    lookup m r = some w := by
  induction m with
  | nil => simp [mErase, lookup] at h
  | cons p ps ih =>
    obtain ⟨k', v'⟩ := p
    simp only [mErase, List.filter_cons] at h
    split at h
    · rw [lookup_cons] at h ⊢
      split at h
      · rename_i hk; rw [if_pos hk]; exact h
      · rename_i hk; rw [if_neg hk]; exact ih h
    · rename_i hk
      simp only [ne_eq, decide_not, Bool.not_eq_true', decide_eq_false_iff_not, Decidable.not_not] at hk
      have hr : lookup ps r = some w := ih h
      rw [lookup_cons]
      by_cases hkr : k' = r
      · -- r = k was erased from the tail as well: contradiction
        exfalso
        subst hkr; subst hk
        have hm := lookup_mem h
        simp only [List.mem_filter] at hm
        simpa using hm.2
      · rw [if_neg hkr]; exact hr

/-! ### preservation -/

theorem termInv_step (c : Cfg) (st st' : State) (s : Step) (J : TermInv st) (hs : InTerm s)
    (h : step c st s = some st') : TermInv st' := by
  cases s with
  | publish l b =>
    obtain ⟨sv, sv', as, hsv, _, hp, hst⟩ := step_publish h
    subst hst
    obtain ⟨h1, h2, h3⟩ := publishStep_spec (J.logs l sv hsv) hp
    exact (J.set hsv h1 h2 (fun r v hv => by
      rcases h3 r v hv with h | h
      · exact Or.inl h
      · exact Or.inr (Or.inl h)) (fun r v hv => by rw [publishStep_caughtUp hp] at hv; exact Or.inl hv)).acks _
  | commit l =>
    obtain ⟨sv, hsv, _, _, hst⟩ := step_commit h
    subst hst
    obtain ⟨h1, h2, h3, h4⟩ := commitStep_spec c sv (J.logs l sv hsv)
    exact (J.set hsv h1 (by rw [h2]; exact Int.le_refl _) (fun r v hv => by rw [h3] at hv; exact Or.inl hv)
      (fun r v hv => by rw [h4] at hv; exact Or.inl hv)).acks _
  | fetch f =>
    simp only [step, Option.bind_eq_bind, Option.bind_eq_some_iff, Option.pure_def] at h
    obtain ⟨sv, hsv, h⟩ := h
    split at h
    · cases h
    · simp only [Option.some.injEq] at h
      subst h
      have J1 := J.set (sv' := { sv with rid := sv.rid + 1, waiting := some (sv.rid + 1) }) hsv
        (J.logs f sv hsv) (Int.le_refl _) (fun r v hv => Or.inl hv) (fun r v hv => Or.inl hv)
      refine J1.net _ ?_ ?_
      · intro src off ep rid hm
        rcases List.mem_append.mp hm with hm | hm
        · exact Or.inl hm
        · -- the request reports the follower's newest offset (regenerated: Offset = p.log.NewestOffset())
          simp only [List.mem_singleton, Net.replReq.injEq, fetchFieldsOf, Gen.Protocol.fetchOffsetIsNewest, if_true] at hm
          obtain ⟨rfl, rfl, _, _⟩ := hm
          exact Or.inr ⟨(J.logs src sv hsv).newest_ge, _, get_set_self _ (get_lt hsv), Int.le_refl _⟩
      · intro dst rid ep hw recs hm
        rcases List.mem_append.mp hm with hm | hm
        · exact Or.inl hm
        · simp at hm
  | serve l m =>
    simp only [step, Option.bind_eq_bind, Option.bind_eq_some_iff, Option.pure_def] at h
    obtain ⟨sv, hsv, h⟩ := h
    split at h
    · cases h
    · rename_i hc
      simp only [Bool.or_eq_true, Bool.not_eq_true', not_or, Bool.not_eq_false] at hc
      split at h
      · rename_i src off ep rid
        simp only [Option.some.injEq] at h
        subst h
        have hmem : Net.replReq src off ep rid ∈ st.net := by simpa using hc.2
        obtain ⟨g1, g2, g2', g3⟩ := serveStep_spec c sv src off ep rid
        obtain ⟨hoff, _, _, _⟩ := J.reqs src off ep rid hmem
        have J1 := J.set (sv' := (serveStep c sv src off ep rid).1) hsv (by rw [g1]; exact J.logs l sv hsv)
          (by rw [g1]; exact Int.le_refl _)
          (fun r v hv => by
            rcases g2 r v hv with h | ⟨h1, h2⟩
            · exact Or.inl h
            · subst h1; subst h2; exact Or.inr (Or.inr ⟨ep, rid, hmem⟩))
          (fun r v hv => by
            rcases g2' r v hv with h | ⟨h1, h2⟩
            · exact Or.inl h
            · subst h1; subst h2; exact Or.inr ⟨ep, rid, hmem⟩)
        refine J1.net _ ?_ ?_
        · intro s2 o2 e2 r2 hm
          rcases List.mem_append.mp hm with hm | hm
          · exact Or.inl (mem_removeFirst hm)
          · obtain ⟨_, _, _, heq, _⟩ := g3 _ hm
            cases heq
        · intro dst rid2 ep2 hw recs hm
          rcases List.mem_append.mp hm with hm | hm
          · exact Or.inl (mem_removeFirst hm)
          · obtain ⟨e, hw', recs', heq, hrecs⟩ := g3 _ hm
            right
            cases heq
            rcases hrecs with rfl | ⟨hlt, hread⟩
            · exact List.Pairwise.nil
            · exact read_for_serve_sorted (J.logs l sv hsv) hoff hlt _ hread
      all_goals cases h
  | applyResp f m =>
    simp only [step, Option.bind_eq_bind, Option.bind_eq_some_iff, Option.pure_def] at h
    obtain ⟨sv, hsv, h⟩ := h
    split at h
    · cases h
    · rename_i hc
      simp only [Bool.or_eq_true, Bool.not_eq_true', not_or, Bool.not_eq_false] at hc
      split at h
      · rename_i dst rid ep hw recs
        split at h
        · cases h
        · simp only [Option.some.injEq] at h
          subst h
          have hmem : Net.replResp dst rid ep hw recs ∈ st.net := by simpa using hc.2
          obtain ⟨g1, g2, g3, g4⟩ := applyRespStep_spec sv ep hw recs (J.logs f sv hsv) (J.resps _ _ _ _ _ hmem)
          have J1 := J.set (sv' := { applyRespStep sv ep hw recs with waiting := none }) hsv g1 g2
            (fun r v hv => by simp only at hv; rw [g3] at hv; exact Or.inl hv)
            (fun r v hv => by simp only at hv; rw [g4] at hv; exact Or.inl hv)
          exact J1.net _ (fun _ _ _ _ hm => Or.inl (mem_removeFirst hm)) (fun _ _ _ _ _ hm => Or.inl (mem_removeFirst hm))
      all_goals cases h
  | drop m =>
    simp only [step] at h
    split at h
    · simp only [Option.some.injEq] at h
      subst h
      exact J.net _ (fun _ _ _ _ hm => Or.inl (mem_removeFirst hm)) (fun _ _ _ _ _ hm => Or.inl (mem_removeFirst hm))
    · cases h
  | shrinkDecision l r =>
    simp only [step, Option.bind_eq_bind, Option.bind_eq_some_iff, Option.pure_def] at h
    obtain ⟨sv, _, h⟩ := h
    repeat' (split at h)
    all_goals first
      | (cases h; done)
      | (simp only [Option.some.injEq] at h; subst h; exact J.proposed _)
  | expandDecision l r =>
    simp only [step, Option.bind_eq_bind, Option.bind_eq_some_iff, Option.pure_def] at h
    obtain ⟨sv, _, h⟩ := h
    repeat' (split at h)
    all_goals first
      | (cases h; done)
      | (simp only [Option.some.injEq] at h; subst h; exact J.proposed _)
  | clearCaughtUp l r =>
    simp only [step, Option.bind_eq_bind, Option.bind_eq_some_iff, Option.pure_def] at h
    obtain ⟨sv, hsv, h⟩ := h
    split at h
    · cases h
    · simp only [Option.some.injEq] at h
      subst h
      exact J.set (sv' := { sv with caughtUp := mErase sv.caughtUp r }) hsv (J.logs l sv hsv) (Int.le_refl _)
        (fun r v hv => Or.inl hv) (fun x v hv => Or.inl (lookup_mErase _ _ _ _ hv))
  | clearSeen l r =>
    simp only [step, Option.bind_eq_bind, Option.bind_eq_some_iff, Option.pure_def] at h
    obtain ⟨sv, hsv, h⟩ := h
    split at h
    · cases h
    · simp only [Option.some.injEq] at h
      subst h
      exact J.set (sv' := { sv with seen := sv.seen.filter (· ≠ r) }) hsv (J.logs l sv hsv) (Int.le_refl _)
        (fun r v hv => Or.inl hv) (fun r v hv => Or.inl hv)
  | electDecision cand =>
    simp only [step] at h
    repeat' (split at h)
    all_goals first
      | (cases h; done)
      | (simp only [Option.some.injEq] at h; subst h; exact J.proposed _)
  | raftCommit op =>
    simp only [step] at h
    repeat' (split at h)
    all_goals first
      | (cases h; done)
      | (simp only [Option.some.injEq] at h; subst h; exact ⟨J.logs, J.offs, J.reqs, J.resps, J.cu⟩)
  | offServe l m =>
    simp only [step, Option.bind_eq_bind, Option.bind_eq_some_iff, Option.pure_def] at h
    obtain ⟨sv, hsv, h⟩ := h
    split at h
    · cases h
    · split at h
      · split at h
        · cases h
        · simp only [Option.some.injEq] at h
          subst h
          refine J.net _ ?_ ?_
          · intro _ _ _ _ hm
            rcases List.mem_append.mp hm with hm | hm
            · exact Or.inl (mem_removeFirst hm)
            · simp at hm
          · intro _ _ _ _ _ hm
            rcases List.mem_append.mp hm with hm | hm
            · exact Or.inl (mem_removeFirst hm)
            · simp at hm
      all_goals cases h
  | applyNext _ => exact absurd hs (by simp [InTerm])
  | reconcile _ _ => exact absurd hs (by simp [InTerm])
  | reconcileFail _ => exact absurd hs (by simp [InTerm])
  | crash _ => exact absurd hs (by simp [InTerm])
  | restart _ _ => exact absurd hs (by simp [InTerm])

theorem termInv_run (c : Cfg) : ∀ (steps : List Step) (st st' : State), TermInv st → (∀ s ∈ steps, InTerm s) →
    run c st steps = some st' → TermInv st' := by
  intro steps
  induction steps with
  | nil => intro st st' J _ h; simp only [run, Option.some.injEq] at h; subst h; exact J
  | cons s ss ih =>
    intro st st' J hall h
    simp only [run, Option.bind_eq_some_iff] at h
    obtain ⟨st1, h1, h2⟩ := h
    exact ih st1 st' (termInv_step c st st1 s J (hall s (by simp)) h1) (fun x hx => hall x (by simp [hx])) h2

/-- The invariant holds before anything happened (fresh, empty logs; no partition object yet). -/
theorem termInv_init (c : Cfg) (hm : 0 < c.maxSeg) : TermInv (Protocol.init c) := by
  have hlog : LogOK (CLog.init c.maxSeg c.occ) := by
    refine ⟨⟨by simp [CLog.init], hm, by simp [CLog.init, CLog.abs], ?_, by simp [CLog.init], ?_⟩, fun _ => rfl⟩
    · intro s hs; simp [CLog.init] at hs; subst hs; simp
    · intro i a b ha hb
      simp only [CLog.init] at ha hb
      cases i <;> simp at hb
  have hget : ∀ s sv, (Protocol.init c).get s = some sv → sv = { log := CLog.init c.maxSeg c.occ } := by
    intro s sv h
    simp only [State.get, Protocol.init] at h
    have := List.mem_of_getElem? h
    exact (List.mem_replicate.mp this).2
  refine ⟨?_, ?_, ?_, ?_, ?_⟩
  · intro s sv h; rw [hget s sv h]; exact hlog
  · intro l sv h r v hv; rw [hget l sv h] at hv; simp [lookup] at hv
  · intro _ _ _ _ hm; simp [Protocol.init] at hm
  · intro _ _ _ _ _ hm; simp [Protocol.init] at hm
  · intro l sv h r v hv; rw [hget l sv h] at hv; simp [lookup] at hv

end Liftbridge.Proofs.Protocol
