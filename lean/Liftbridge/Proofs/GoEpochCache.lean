/-
Helper lemmas for Props/GoEpochCache.lean: function look-ups in the translated program, the
accessor bodies at any fuel, and the loop of `ClearLatest` as an explicit state transformer.
-/
import Liftbridge.Proofs.GoCodeBase
import Liftbridge.Gen.GoEpochCache

namespace Liftbridge.Props.GoEpochCache
open Liftbridge Liftbridge.GoMini Liftbridge.Log Liftbridge.GoCode
open Liftbridge.Gen.GoEpochCache

@[simp] theorem lk_earliestOffset : evalE.lookup' "earliestOffset" prog = some fn_leaderEpochCache_earliestOffset := by simp [prog, gomini]
@[simp] theorem lk_latestEpoch : evalE.lookup' "latestEpoch" prog = some fn_leaderEpochCache_latestEpoch := by simp [prog, gomini]
@[simp] theorem lk_latestOffset : evalE.lookup' "latestOffset" prog = some fn_leaderEpochCache_latestOffset := by simp [prog, gomini]
@[simp] theorem lk_findEpoch : evalE.lookup' "findEpoch" prog = some fn_leaderEpochCache_findEpoch := by simp [prog, gomini]
@[simp] theorem lk_assign : evalE.lookup' "assign" prog = some fn_leaderEpochCache_assign := by simp [prog, gomini]
@[simp] theorem lk_Assign : evalE.lookup' "Assign" prog = some fn_leaderEpochCache_Assign := by simp [prog, gomini]
@[simp] theorem lk_LastLeaderEpoch : evalE.lookup' "LastLeaderEpoch" prog = some fn_leaderEpochCache_LastLeaderEpoch := by simp [prog, gomini]
@[simp] theorem lk_ClearLatest : evalE.lookup' "ClearLatest" prog = some fn_leaderEpochCache_ClearLatest := by simp [prog, gomini]
@[simp] theorem lk_flush : evalE.lookup' "flush" prog = none := by simp [prog, gomini]
@[simp] theorem lk_warn : evalE.lookup' "warn" prog = none := by simp [prog, gomini]

/-! ### accessors, at the level of their bodies (any fuel ≥ 8, any effect trace): used wherever
another translated function calls them -/

theorem latestEpoch_body (n : Nat) (c : Epochs) (eff : List (String × List Val)) :
    runBlock (exec prog noExt (n+8)) fn_leaderEpochCache_latestEpoch.body { env := envOf [("l", encCache c)], eff := eff } =
      .ok (.ret [.int c.latestEpoch], { env := envOf [("l", encCache c)], eff := eff }) := by
  rcases List.eq_nil_or_concat c with rfl | ⟨c', e, rfl⟩
  · simp [fn_leaderEpochCache_latestEpoch, gomini, encCache, binInt, Epochs.latestEpoch]
  · rw [List.concat_eq_append]
    simp [fn_leaderEpochCache_latestEpoch, gomini, encCache, binInt, Epochs.latestEpoch, encEpoch]

theorem latestOffset_body (n : Nat) (c : Epochs) (eff : List (String × List Val)) :
    runBlock (exec prog noExt (n+8)) fn_leaderEpochCache_latestOffset.body { env := envOf [("l", encCache c)], eff := eff } =
      .ok (.ret [.int c.latestOffset], { env := envOf [("l", encCache c)], eff := eff }) := by
  rcases List.eq_nil_or_concat c with rfl | ⟨c', e, rfl⟩
  · simp [fn_leaderEpochCache_latestOffset, gomini, encCache, binInt, Epochs.latestOffset]
  · rw [List.concat_eq_append]
    simp [fn_leaderEpochCache_latestOffset, gomini, encCache, binInt, Epochs.latestOffset, encEpoch]

theorem earliestOffset_body (n : Nat) (c : Epochs) (eff : List (String × List Val)) :
    runBlock (exec prog noExt (n+8)) fn_leaderEpochCache_earliestOffset.body { env := envOf [("l", encCache c)], eff := eff } =
      .ok (.ret [.int c.earliestOffset], { env := envOf [("l", encCache c)], eff := eff }) := by
  cases c with
  | nil => simp [fn_leaderEpochCache_earliestOffset, gomini, encCache, binInt, Epochs.earliestOffset]
  | cons e c' => simp [fn_leaderEpochCache_earliestOffset, gomini, encCache, binInt, Epochs.earliestOffset, encEpoch]

@[simp] theorem recv_latestEpoch : fn_leaderEpochCache_latestEpoch.recv = some "l" ∧ fn_leaderEpochCache_latestEpoch.params = [] := ⟨rfl, rfl⟩
@[simp] theorem recv_latestOffset : fn_leaderEpochCache_latestOffset.recv = some "l" ∧ fn_leaderEpochCache_latestOffset.params = [] := ⟨rfl, rfl⟩
@[simp] theorem recv_earliestOffset : fn_leaderEpochCache_earliestOffset.recv = some "l" ∧ fn_leaderEpochCache_earliestOffset.params = [] := ⟨rfl, rfl⟩

/-- state after the filter loop of `ClearLatest` -/
def clSt (o : Int) : Epochs → List Val → St → St
  | [], _, st => st
  | e :: rest, acc, st =>
    if e.2 < o then clSt o rest (acc ++ [encEpoch e]) ((st.set "epoch" (encEpoch e)).set "filtered" (.list (acc ++ [encEpoch e])))
    else clSt o rest acc (st.set "epoch" (encEpoch e))

theorem clSt_filtered (o : Int) (xs : Epochs) : ∀ (acc : List Val) (st : St), st.env "filtered" = some (.list acc) →
    (clSt o xs acc st).env "filtered" = some (.list (acc ++ (xs.filter (fun e => e.2 < o)).map encEpoch)) := by
  induction xs with
  | nil => intro acc st h; simp [clSt, h]
  | cons e rest ih =>
    intro acc st h
    by_cases hlt : e.2 < o
    · simp [clSt, hlt]; rw [ih]; simp; simp [gomini]
    · simp [clSt, hlt]; rw [ih]; simp [gomini, h]

theorem clSt_frame (o : Int) (xs : Epochs) (y : String) (hy1 : y ≠ "filtered") (hy2 : y ≠ "epoch") :
    ∀ (acc : List Val) (st : St), (clSt o xs acc st).env y = st.env y := by
  induction xs with
  | nil => intro acc st; rfl
  | cons e rest ih =>
    intro acc st
    by_cases hlt : e.2 < o <;> simp [clSt, hlt, ih, gomini, hy1, hy2]

theorem clSt_eff (o : Int) (xs : Epochs) : ∀ (acc : List Val) (st : St), (clSt o xs acc st).eff = st.eff := by
  induction xs with
  | nil => intro acc st; rfl
  | cons e rest ih =>
    intro acc st
    by_cases hlt : e.2 < o <;> simp [clSt, hlt, ih, gomini]

theorem clearLatest_loop (n : Nat) (o : Int) (xs : Epochs) : ∀ (acc : List Val) (i : Nat) (st : St),
    st.env "filtered" = some (.list acc) → st.env "offset" = some (.int o) →
    runRange (runBlock (exec prog noExt (n+6))
        [(.ite [] (.bin "<" (.sel (.var "epoch") "startOffset") (.var "offset"))
          [(.assign [(.var "filtered")] [(.call "append" [(.var "filtered"), (.var "epoch")])])] [])])
      none (some "epoch") i (xs.map encEpoch) st = .ok (.next, clSt o xs acc st) := by
  induction xs with
  | nil => intro acc i st _ _; simp [gomini, clSt]
  | cons e rest ih =>
    intro acc i st h1 h2
    by_cases hlt : e.2 < o
    · have := ih (acc ++ [encEpoch e]) (i+1) ((st.set "epoch" (encEpoch e)).set "filtered" (.list (acc ++ [encEpoch e])))
        (by simp [gomini]) (by simp [gomini, h2])
      simpa [gomini, clSt, encEpoch, h1, h2, binInt, hlt, builtin] using this
    · have := ih acc (i+1) (st.set "epoch" (encEpoch e)) (by simp [gomini, h1]) (by simp [gomini, h2])
      simpa [gomini, clSt, encEpoch, h1, h2, binInt, hlt, builtin] using this

theorem clearLatest_facts : Gen.Log.clearLatestSkipCmp = .gt ∧ Gen.Log.clearLatestKeepCmp = .lt := by decide


theorem findEpoch_facts : Gen.Log.findEpochCmp = .ge := by decide

theorem getElem?_enc (c : Epochs) (k : Nat) : (c.map encEpoch)[k]? = (c[k]?).map encEpoch := by simp

/-- `findEpoch` at the level of its body (any fuel ≥ 12, any effect trace) -/
theorem findEpoch_body (n : Nat) (c : Epochs) (epoch : Nat) (eff : List (String × List Val)) :
    runBlock (exec prog noExt (n+12)) fn_leaderEpochCache_findEpoch.body
        { env := envOf [("l", encCache c), ("epoch", .int epoch)], eff := eff } =
      .ok (.ret [match c.findEpoch epoch with | some e => encEpoch e | none => .nil],
        ({ env := envOf [("l", encCache c), ("epoch", .int epoch)], eff := eff } : St).set "i"
          (.int (goSearch c.length (fun i => match c[i]? with | some e => Gen.Log.findEpochCmp.evalNat e.1 epoch | none => true)))) := by
  simp [fn_leaderEpochCache_findEpoch, gomini, encCache]
  rw [search_eq c.length _ (fun i => match c[i]? with | some e => Gen.Log.findEpochCmp.evalNat e.1 epoch | none => true)]
  · simp only [Epochs.findEpoch]
    generalize goSearch c.length (fun i => match c[i]? with | some e => Gen.Log.findEpochCmp.evalNat e.1 epoch | none => true) = j
    by_cases hlt : j < c.length
    · have hj : c[j]? = some c[j] := by simp [hlt]
      simp [hlt, hj, gomini, binInt]
    · have hj : c[j]? = none := by simp; omega
      simp [hlt, hj, gomini, binInt]
  · intro k hk
    have : c[k]? = some c[k] := by simp [hk]
    simp [gomini, this, encEpoch, binInt, findEpoch_facts, Cmp.evalNat]

@[simp] theorem recv_findEpoch : fn_leaderEpochCache_findEpoch.recv = some "l" ∧ fn_leaderEpochCache_findEpoch.params = ["epoch"] := ⟨rfl, rfl⟩
@[simp] theorem lk_LastOffsetForLeaderEpoch : evalE.lookup' "LastOffsetForLeaderEpoch" prog = some fn_leaderEpochCache_LastOffsetForLeaderEpoch := by simp [prog, gomini]


/-- state after the loop of `ClearEarliest` (collect the entries below `o`, count them) -/
def ceSt (o : Int) : Epochs → List Val → Int → St → St
  | [], _, _, st => st
  | e :: rest, acc, k, st =>
    if e.2 < o then
      ceSt o rest (acc ++ [encEpoch e]) (k + 1)
        (((st.set "epoch" (encEpoch e)).set "earliest" (.list (acc ++ [encEpoch e]))).set "removed" (.int (k + 1)))
    else ceSt o rest acc k (st.set "epoch" (encEpoch e))

theorem ceSt_earliest (o : Int) (xs : Epochs) : ∀ (acc : List Val) (k : Int) (st : St), st.env "earliest" = some (.list acc) →
    (ceSt o xs acc k st).env "earliest" = some (.list (acc ++ (xs.filter (fun e => e.2 < o)).map encEpoch)) := by
  induction xs with
  | nil => intro acc k st h; simp [ceSt, h]
  | cons e rest ih =>
    intro acc k st h
    by_cases hlt : e.2 < o
    · simp [ceSt, hlt]; rw [ih]; simp; simp [gomini]
    · simp [ceSt, hlt]; rw [ih]; simp [gomini, h]

theorem ceSt_removed (o : Int) (xs : Epochs) : ∀ (acc : List Val) (k : Int) (st : St), st.env "removed" = some (.int k) →
    (ceSt o xs acc k st).env "removed" = some (.int (k + (xs.filter (fun e => e.2 < o)).length)) := by
  induction xs with
  | nil => intro acc k st h; simp [ceSt, h]
  | cons e rest ih =>
    intro acc k st h
    by_cases hlt : e.2 < o
    · simp [ceSt, hlt]; rw [ih]; simp; omega; simp [gomini]
    · simp [ceSt, hlt]; rw [ih]; simp [gomini, h]

theorem ceSt_frame (o : Int) (xs : Epochs) (y : String) (hy1 : y ≠ "earliest") (hy2 : y ≠ "epoch") (hy3 : y ≠ "removed") :
    ∀ (acc : List Val) (k : Int) (st : St), (ceSt o xs acc k st).env y = st.env y := by
  induction xs with
  | nil => intro acc k st; rfl
  | cons e rest ih =>
    intro acc k st
    by_cases hlt : e.2 < o <;> simp [ceSt, hlt, ih, gomini, hy1, hy2, hy3]

theorem ceSt_eff (o : Int) (xs : Epochs) : ∀ (acc : List Val) (k : Int) (st : St), (ceSt o xs acc k st).eff = st.eff := by
  induction xs with
  | nil => intro acc k st; rfl
  | cons e rest ih =>
    intro acc k st
    by_cases hlt : e.2 < o <;> simp [ceSt, hlt, ih, gomini]

theorem clearEarliest_loop (n : Nat) (o : Int) (xs : Epochs) : ∀ (acc : List Val) (k : Int) (i : Nat) (st : St),
    st.env "earliest" = some (.list acc) → st.env "removed" = some (.int k) → st.env "offset" = some (.int o) →
    runRange (runBlock (exec prog noExt (n+6))
        [(.ite [] (.bin "<" (.sel (.var "epoch") "startOffset") (.var "offset"))
          [(.assign [(.var "earliest")] [(.call "append" [(.var "earliest"), (.var "epoch")])]),
           (.opAssign "+" (.var "removed") (.int 1))] [])])
      none (some "epoch") i (xs.map encEpoch) st = .ok (.next, ceSt o xs acc k st) := by
  induction xs with
  | nil => intro acc k i st _ _ _; simp [gomini, ceSt]
  | cons e rest ih =>
    intro acc k i st h1 h2 h3
    by_cases hlt : e.2 < o
    · have := ih (acc ++ [encEpoch e]) (k + 1) (i+1)
        (((st.set "epoch" (encEpoch e)).set "earliest" (.list (acc ++ [encEpoch e]))).set "removed" (.int (k + 1)))
        (by simp [gomini]) (by simp [gomini]) (by simp [gomini, h3])
      simpa [gomini, ceSt, encEpoch, h1, h2, h3, binInt, hlt, builtin] using this
    · have := ih acc k (i+1) (st.set "epoch" (encEpoch e)) (by simp [gomini, h1]) (by simp [gomini, h2]) (by simp [gomini, h3])
      simpa [gomini, ceSt, encEpoch, h1, h2, h3, binInt, hlt, builtin] using this

theorem clearEarliest_facts : Gen.Log.clearEarliestSkipCmp = .ge := by decide

theorem encCache_drop (c : Epochs) (k : Nat) : (List.map encEpoch c).drop k = List.map encEpoch (c.drop k) := by
  simp [List.map_drop]

theorem earliestOffset_body_drop (n : Nat) (c : Epochs) (k : Nat) (eff : List (String × List Val)) :
    runBlock (exec prog noExt (n+8)) fn_leaderEpochCache_earliestOffset.body
        { env := envOf [("l", .struct [("epochOffsets", .list (List.drop k (List.map encEpoch c)))])], eff := eff } =
      .ok (.ret [.int (Epochs.earliestOffset (c.drop k))],
        { env := envOf [("l", .struct [("epochOffsets", .list (List.drop k (List.map encEpoch c)))])], eff := eff }) := by
  have := earliestOffset_body n (c.drop k) eff
  simpa [encCache, List.map_drop] using this

theorem earliestOffset_body' (n : Nat) (c : Epochs) (eff : List (String × List Val)) :
    runBlock (exec prog noExt (n+8)) fn_leaderEpochCache_earliestOffset.body
        { env := envOf [("l", .struct [("epochOffsets", .list (List.map encEpoch c))])], eff := eff } =
      .ok (.ret [.int c.earliestOffset], { env := envOf [("l", .struct [("epochOffsets", .list (List.map encEpoch c))])], eff := eff }) := by
  simpa [encCache] using earliestOffset_body n c eff

@[simp] theorem lk_ClearEarliest : evalE.lookup' "ClearEarliest" prog = some fn_leaderEpochCache_ClearEarliest := by simp [prog, gomini]


end Liftbridge.Props.GoEpochCache
