/-
Helper lemmas for Props/GoEpochCache.lean: function look-ups in the translated program, the
accessor bodies at any fuel, and the loop of `ClearLatest` as an explicit state transformer.
-/
import Liftbridge.Proofs.GoCodeBase
import Liftbridge.Gen.GoEpochCache

namespace Liftbridge.Props.GoEpochCache
open Liftbridge Liftbridge.GoMini Liftbridge.Log Liftbridge.GoCode
open Liftbridge.Gen.GoEpochCache

@[simp] theorem lk_earliestOffset : evalE.lookup' "earliestOffset" prog = some fn_leaderEpochCache_earliestOffset := by simp [prog, gomini]
@[simp] theorem lk_latestEpoch : evalE.lookup' "latestEpoch" prog = some fn_leaderEpochCache_latestEpoch := by simp [prog, gomini]
@[simp] theorem lk_latestOffset : evalE.lookup' "latestOffset" prog = some fn_leaderEpochCache_latestOffset := by simp [prog, gomini]
@[simp] theorem lk_findEpoch : evalE.lookup' "findEpoch" prog = some fn_leaderEpochCache_findEpoch := by simp [prog, gomini]
@[simp] theorem lk_assign : evalE.lookup' "assign" prog = some fn_leaderEpochCache_assign := by simp [prog, gomini]
@[simp] theorem lk_Assign : evalE.lookup' "Assign" prog = some fn_leaderEpochCache_Assign := by simp [prog, gomini]
@[simp] theorem lk_LastLeaderEpoch : evalE.lookup' "LastLeaderEpoch" prog = some fn_leaderEpochCache_LastLeaderEpoch := by simp [prog, gomini]
@[simp] theorem lk_ClearLatest : evalE.lookup' "ClearLatest" prog = some fn_leaderEpochCache_ClearLatest := by simp [prog, gomini]
@[simp] theorem lk_flush : evalE.lookup' "flush" prog = none := by simp [prog, gomini]
@[simp] theorem lk_warn : evalE.lookup' "warn" prog = none := by simp [prog, gomini]

/-! ### accessors, at the level of their bodies (any fuel ≥ 8, any effect trace): used wherever
another translated function calls them -/

theorem latestEpoch_body (n : Nat) (c : Epochs) (eff : List (String × List Val)) :
    runBlock (exec prog noExt (n+8)) fn_leaderEpochCache_latestEpoch.body { env := envOf [("l", encCache c)], eff := eff } =
      .ok (.ret [.int c.latestEpoch], { env := envOf [("l", encCache c)], eff := eff }) := by
  rcases List.eq_nil_or_concat c with rfl | ⟨c', e, rfl⟩
  · simp [fn_leaderEpochCache_latestEpoch, gomini, encCache, binInt, Epochs.latestEpoch]
  · rw [List.concat_eq_append]
    simp [fn_leaderEpochCache_latestEpoch, gomini, encCache, binInt, Epochs.latestEpoch, encEpoch]

theorem latestOffset_body (n : Nat) (c : Epochs) (eff : List (String × List Val)) :
    runBlock (exec prog noExt (n+8)) fn_leaderEpochCache_latestOffset.body { env := envOf [("l", encCache c)], eff := eff } =
      .ok (.ret [.int c.latestOffset], { env := envOf [("l", encCache c)], eff := eff }) := by
  rcases List.eq_nil_or_concat c with rfl | ⟨c', e, rfl⟩
  · simp [fn_leaderEpochCache_latestOffset, gomini, encCache, binInt, Epochs.latestOffset]
  · rw [List.concat_eq_append]
    simp [fn_leaderEpochCache_latestOffset, gomini, encCache, binInt, Epochs.latestOffset, encEpoch]

theorem earliestOffset_body (n : Nat) (c : Epochs) (eff : List (String × List Val)) :
    runBlock (exec prog noExt (n+8)) fn_leaderEpochCache_earliestOffset.body { env := envOf [("l", encCache c)], eff := eff } =
      .ok (.ret [.int c.earliestOffset], { env := envOf [("l", encCache c)], eff := eff }) := by
  cases c with
  | nil => simp [fn_leaderEpochCache_earliestOffset, gomini, encCache, binInt, Epochs.earliestOffset]
  | cons e c' => simp [fn_leaderEpochCache_earliestOffset, gomini, encCache, binInt, Epochs.earliestOffset, encEpoch]

@[simp] theorem recv_latestEpoch : fn_leaderEpochCache_latestEpoch.recv = some "l" ∧ fn_leaderEpochCache_latestEpoch.params = [] := ⟨rfl, rfl⟩
@[simp] theorem recv_latestOffset : fn_leaderEpochCache_latestOffset.recv = some "l" ∧ fn_leaderEpochCache_latestOffset.params = [] := ⟨rfl, rfl⟩
@[simp] theorem recv_earliestOffset : fn_leaderEpochCache_earliestOffset.recv = some "l" ∧ fn_leaderEpochCache_earliestOffset.params = [] := ⟨rfl, rfl⟩

/-- state after the filter loop of `ClearLatest` -/
def clSt (o : Int) : Epochs → List Val → St → St
  | [], _, st => st
  | e :: rest, acc, st =>
    if e.2 < o then clSt o rest (acc ++ [encEpoch e]) ((st.set "epoch" (encEpoch e)).set "filtered" (.list (acc ++ [encEpoch e])))
    else clSt o rest acc (st.set "epoch" (encEpoch e))

theorem clSt_filtered (o : Int) (xs : Epochs) : ∀ (acc : List Val) (st : St), st.env "filtered" = some (.list acc) →
    (clSt o xs acc st).env "filtered" = some (.list (acc ++ (xs.filter (fun e => e.2 < o)).map encEpoch)) := by
  induction xs with
  | nil => intro acc st h; simp [clSt, h]
  | cons e rest ih =>
    intro acc st h
    by_cases hlt : e.2 < o
    · simp [clSt, hlt]; rw [ih]; simp; simp [gomini]
    · simp [clSt, hlt]; rw [ih]; simp [gomini, h]

theorem clSt_frame (o : Int) (xs : Epochs) (y : String) (hy1 : y ≠ "filtered") (hy2 : y ≠ "epoch") :
    ∀ (acc : List Val) (st : St), (clSt o xs acc st).env y = st.env y := by
  induction xs with
  | nil => intro acc st; rfl
  | cons e rest ih =>
    intro acc st
    by_cases hlt : e.2 < o <;> simp [clSt, hlt, ih, gomini, hy1, hy2]

theorem clSt_eff (o : Int) (xs : Epochs) : ∀ (acc : List Val) (st : St), (clSt o xs acc st).eff = st.eff := by
  induction xs with
  | nil => intro acc st; rfl
  | cons e rest ih =>
    intro acc st
    by_cases hlt : e.2 < o <;> simp [clSt, hlt, ih, gomini]

theorem clearLatest_loop (n : Nat) (o : Int) (xs : Epochs) : ∀ (acc : List Val) (i : Nat) (st : St),
    st.env "filtered" = some (.list acc) → st.env "offset" = some (.int o) →
    runRange (runBlock (exec prog noExt (n+6))
        [(.ite [] (.bin "<" (.sel (.var "epoch") "startOffset") (.var "offset"))
          [(.assign [(.var "filtered")] [(.call "append" [(.var "filtered"), (.var "epoch")])])] [])])
      none (some "epoch") i (xs.map encEpoch) st = .ok (.next, clSt o xs acc st) := by
  induction xs with
  | nil => intro acc i st _ _; simp [gomini, clSt]
  | cons e rest ih =>
    intro acc i st h1 h2
    by_cases hlt : e.2 < o
    · have := ih (acc ++ [encEpoch e]) (i+1) ((st.set "epoch" (encEpoch e)).set "filtered" (.list (acc ++ [encEpoch e])))
        (by simp [gomini]) (by simp [gomini, h2])
      simpa [gomini, clSt, encEpoch, h1, h2, binInt, hlt, builtin] using this
    · have := ih acc (i+1) (st.set "epoch" (encEpoch e)) (by simp [gomini, h1]) (by simp [gomini, h2])
      simpa [gomini, clSt, encEpoch, h1, h2, binInt, hlt, builtin] using this

theorem clearLatest_facts : Gen.Log.clearLatestSkipCmp = .gt ∧ Gen.Log.clearLatestKeepCmp = .lt := by decide


end Liftbridge.Props.GoEpochCache
