/- Specification of the `sort.Search` mirror. -/
import Liftbridge.Base
namespace Liftbridge.Proofs
open Liftbridge

/-- Loop invariant of `sort.Search` for a predicate monotone on `[0, n)`: with `p` false below
`i` and true on `[j, n)`, the result lies in `[i, j]`, `p` is false below it and true at it
(when it is `< n`). -/
theorem goSearchAux_spec (n : Nat) (p : Nat → Bool)
    (mono : ∀ i j, i ≤ j → j < n → p i = true → p j = true) (i j : Nat)
    (hij : i ≤ j) (hjn : j ≤ n)
    (hlo : ∀ k, k < i → p k = false)
    (hhi : ∀ k, j ≤ k → k < n → p k = true) :
    i ≤ goSearchAux p i j ∧ goSearchAux p i j ≤ j ∧
    (∀ k, k < goSearchAux p i j → p k = false) ∧
    (goSearchAux p i j < n → p (goSearchAux p i j) = true) := by
  fun_induction goSearchAux p i j with
  | case1 i j h m hm ih =>
    have hmj : m < j := by simp only [m]; omega
    have him : i ≤ m := by simp only [m]; omega
    have := ih him (by omega) hlo (fun k hk hkn => mono m k hk hkn hm)
    refine ⟨this.1, by omega, this.2.2.1, this.2.2.2⟩
  | case2 i j h m hm ih =>
    have hmj : m < j := by simp only [m]; omega
    have him : i ≤ m := by simp only [m]; omega
    have hm' : p m = false := by simpa using hm
    have := ih (by omega) hjn (fun k hk => by
      cases hpk : p k with
      | false => rfl
      | true =>
        have : p m = true := mono k m (by omega) (by omega) hpk
        simp [hm'] at this) hhi
    refine ⟨by omega, this.2.1, this.2.2.1, this.2.2.2⟩
  | case3 i j h =>
    have : i = j := by omega
    subst this
    exact ⟨Nat.le_refl _, Nat.le_refl _, hlo, fun hn => hhi i (Nat.le_refl _) hn⟩

/-- For a predicate that is monotone on `[0, n)` (false … false true … true), `goSearch n p` is
the first index at which it holds, or `n`. -/
theorem goSearch_spec (n : Nat) (p : Nat → Bool)
    (mono : ∀ i j, i ≤ j → j < n → p i = true → p j = true) :
    goSearch n p ≤ n ∧ (∀ i, i < goSearch n p → p i = false) ∧
    (goSearch n p < n → p (goSearch n p) = true) := by
  have := goSearchAux_spec n p mono 0 n (Nat.zero_le _) (Nat.le_refl _)
    (fun k hk => absurd hk (Nat.not_lt_zero _)) (fun k hk hkn => absurd hkn (by omega))
  exact ⟨this.2.1, this.2.2.1, this.2.2.2⟩

end Liftbridge.Proofs
