/- Invariant of possibly-compacted logs and helper lemmas for C08 / C10 / C11. -/
import Liftbridge.Model.Compact
import Liftbridge.Proofs.Log
import Liftbridge.Proofs.LogRead
import Liftbridge.Proofs.Retention
namespace Liftbridge.Proofs.Compact
open Liftbridge Liftbridge.Log Liftbridge.Log.CLog Liftbridge.Compact Liftbridge.Proofs.Log

/-- Invariant of every log state reachable with cleaning: like `Inv`, but consecutive segments
need not be linked exactly (compaction and retention leave offset gaps); instead every segment
but the last holds at least one record (segments emptied by compaction are removed). -/
structure InvC (l : CLog) : Prop where
  nonempty : l.segs ≠ []
  sorted : l.abs.Pairwise (fun a b => a.offset < b.offset)
  base_le : ∀ s ∈ l.segs, 0 ≤ s.base ∧ ∀ r ∈ s.recs, s.base ≤ r.offset
  chain : l.segs.Pairwise (fun a b => a.nextOffset ≤ b.base ∧ a.base < b.base)
  inner_nonempty : ∀ s ∈ l.segs.dropLast, s.recs ≠ []

theorem InvC.wfc {l : CLog} (h : InvC l) : WFC l.segs := ⟨h.sorted, h.base_le, h.chain⟩

/-! ### `Inv` implies `InvC` -/

theorem mem_dropLast_succ {α} {xs : List α} {a : α} (h : a ∈ xs.dropLast) :
    ∃ i b, xs[i]? = some a ∧ xs[i + 1]? = some b := by
  obtain ⟨i, hi, rfl⟩ := List.mem_iff_getElem.mp h
  have hlen : i < xs.length - 1 := by simpa using hi
  refine ⟨i, xs[i + 1]'(by omega), ?_, ?_⟩
  · rw [List.getElem_dropLast, List.getElem?_eq_getElem]
  · rw [List.getElem?_eq_getElem]

theorem invC_of_inv' {l : CLog} (h : Inv l) : InvC l := by
  refine ⟨h.nonempty, h.sorted, h.base_le, h.chain, ?_⟩
  intro s hs
  obtain ⟨i, b, hi, hb⟩ := mem_dropLast_succ hs
  have hl := h.link i s b hi hb
  have hi' : i < l.segs.length := by
    rcases Nat.lt_or_ge i l.segs.length with h1 | h1
    · exact h1
    · rw [List.getElem?_eq_none h1] at hi; cases hi
  have hsplit : l.segs = l.segs.take i ++ s :: l.segs.drop (i + 1) := by
    have e : l.segs[i] = s := by
      rw [List.getElem?_eq_getElem hi'] at hi; exact Option.some.inj hi
    rw [← e]; simp
  have hbm : b ∈ l.segs.drop (i + 1) := by
    have : (l.segs.drop (i + 1))[0]? = some b := by simpa using hb
    exact List.mem_of_getElem? this
  have := ((h.wfc.split hsplit).2 b hbm).2
  exact SegOK.recs_ne_nil (by omega)

/-! ### The shape of `compact` and `cleanLog` -/

/-- The rewritten inner segments: retained records only, emptied segments removed. -/
def cleaned (hw : Int) (segs init : List Seg) : List Seg :=
  (init.map fun s => { s with recs := s.recs.filter (retain hw segs) }).filter
    (fun s => !s.recs.isEmpty)

theorem compact_short {hw : Int} {segs : List Seg} (h : segs.length ≤ 1) :
    compact hw segs = (segs, none) := by
  simp [compact, Gen.Compact.skipCmp, Cmp.evalNat, h]

theorem compact_long {hw : Int} {segs init : List Seg} {last : Seg} (hs : segs = init ++ [last])
    (hi : init ≠ []) :
    compact hw segs = (cleaned hw segs init ++ [last],
      some (rebuildEpochs ((cleaned hw segs init ++ [last]).flatMap Seg.recs) [])) := by
  have hlen : ¬ segs.length ≤ 1 := by
    cases init with
    | nil => exact absurd rfl hi
    | cons a t => simp [hs]
  have hlast : segs.getLast? = some last := by simp [hs]
  have hdrop : segs.dropLast = init := by simp [hs]
  unfold compact
  simp only [Gen.Compact.skipCmp, Cmp.evalNat, hlen, decide_false, Bool.false_eq_true, if_false,
    hlast, hdrop]
  rfl

theorem compact_fst_snoc {hw : Int} {segs init : List Seg} {last : Seg} (hs : segs = init ++ [last]) :
    (compact hw segs).1 = cleaned hw segs init ++ [last] := by
  by_cases hi : init = []
  · subst hi
    rw [compact_short (by simp [hs])]
    simp [hs, cleaned]
  · rw [compact_long hs hi]

theorem compact_fst_nil (hw : Int) : (compact hw []).1 = [] := by
  rw [compact_short (by simp)]

theorem compact_getLast? (hw : Int) (segs : List Seg) :
    (compact hw segs).1.getLast? = segs.getLast? := by
  rcases List.eq_nil_or_concat segs with h | ⟨init, last, h⟩
  · subst h; rw [compact_fst_nil]
  · rw [List.concat_eq_append] at h
    rw [compact_fst_snoc h, h]; simp

theorem flatMap_cleaned (hw : Int) (segs init : List Seg) :
    (cleaned hw segs init).flatMap Seg.recs = (init.flatMap Seg.recs).filter (retain hw segs) := by
  induction init with
  | nil => rfl
  | cons a t ih =>
    have ht : cleaned hw segs (a :: t) =
        (if (a.recs.filter (retain hw segs)).isEmpty = true then [] else
          [{ a with recs := a.recs.filter (retain hw segs) }]) ++ cleaned hw segs t := by
      unfold cleaned
      simp only [List.map_cons, List.filter_cons]
      cases he : (a.recs.filter (retain hw segs)).isEmpty <;> simp
    rw [ht, List.flatMap_append, ih, List.flatMap_cons, List.filter_append]
    congr 1
    cases he : (a.recs.filter (retain hw segs)).isEmpty
    · simp
    · have : a.recs.filter (retain hw segs) = [] := List.isEmpty_iff.mp he
      simp [this]

theorem clean_none (segs : List Seg) : Retention.clean ⟨0, 0, 0⟩ 0 segs = segs := by
  simp [Retention.clean]

theorem cleanLog_hw (lim : Retention.Limits) (ttl : Int) (c : Bool) (l : CLog) :
    (cleanLog lim ttl c l).hw = l.hw := by
  unfold cleanLog
  dsimp only
  split
  · split
    · rfl
    · split <;> rfl
  · split <;> rfl

theorem cleanLog_segs (lim : Retention.Limits) (ttl : Int) (c : Bool) (l : CLog)
    (hne : Retention.clean lim ttl l.segs ≠ []) :
    (cleanLog lim ttl c l).segs =
      if c then (compact l.hw (Retention.clean lim ttl l.segs)).1 else Retention.clean lim ttl l.segs := by
  obtain ⟨init, last, hs⟩ : ∃ init last, Retention.clean lim ttl l.segs = init ++ [last] := by
    rcases List.eq_nil_or_concat (Retention.clean lim ttl l.segs) with h | ⟨init, last, h⟩
    · exact absurd h hne
    · exact ⟨init, last, by rw [h, List.concat_eq_append]⟩
  have hhead : ∃ s0, (Retention.clean lim ttl l.segs).head? = some s0 := by
    cases h : Retention.clean lim ttl l.segs with
    | nil => exact absurd h hne
    | cons a t => exact ⟨a, rfl⟩
  obtain ⟨s0, hs0⟩ := hhead
  unfold cleanLog
  cases c with
  | false => simp [hs0]
  | true =>
    by_cases hi : init = []
    · have : (Retention.clean lim ttl l.segs).length ≤ 1 := by simp [hs, hi]
      simp [compact_short this, hs0]
    · simp [compact_long hs hi]

theorem compactLog_segs (l : CLog) :
    (cleanLog ⟨0, 0, 0⟩ 0 true l).segs = (compact l.hw l.segs).1 := by
  by_cases hne : l.segs = []
  · unfold cleanLog
    simp [clean_none, hne, compact_short]
  · have := cleanLog_segs ⟨0, 0, 0⟩ 0 true l (by rw [clean_none]; exact hne)
    simpa [clean_none] using this

theorem compactLog_abs_nil {l : CLog} (h : l.segs = []) : (cleanLog ⟨0, 0, 0⟩ 0 true l).abs = [] := by
  simp [abs, compactLog_segs, h, compact_fst_nil]

theorem compactLog_abs_snoc {l : CLog} {init : List Seg} {last : Seg} (h : l.segs = init ++ [last]) :
    (cleanLog ⟨0, 0, 0⟩ 0 true l).abs =
      (init.flatMap Seg.recs).filter (retain l.hw l.segs) ++ last.recs := by
  simp [abs, compactLog_segs, compact_fst_snoc h, flatMap_cleaned]

theorem abs_snoc {l : CLog} {init : List Seg} {last : Seg} (h : l.segs = init ++ [last]) :
    l.abs = init.flatMap Seg.recs ++ last.recs := by
  simp [abs, h]

theorem segs_snoc_or_nil (l : CLog) : l.segs = [] ∨ ∃ init last, l.segs = init ++ [last] := by
  rcases List.eq_nil_or_concat l.segs with h | ⟨init, last, h⟩
  · exact Or.inl h
  · exact Or.inr ⟨init, last, by rw [h, List.concat_eq_append]⟩

/-! ### Properties that need no invariant -/

theorem survivors_sublist (l : CLog) : (cleanLog ⟨0, 0, 0⟩ 0 true l).abs.Sublist l.abs := by
  rcases segs_snoc_or_nil l with h | ⟨init, last, h⟩
  · rw [compactLog_abs_nil h]; exact List.nil_sublist _
  · rw [compactLog_abs_snoc h, abs_snoc h]
    exact List.Sublist.append List.filter_sublist (List.Sublist.refl _)

/-- A record that passes the retain test (or sits in the last segment) survives. -/
theorem kept_of_retain (l : CLog) (r : Rec) (hr : r ∈ l.abs) (hret : retain l.hw l.segs r = true) :
    r ∈ (cleanLog ⟨0, 0, 0⟩ 0 true l).abs := by
  rcases segs_snoc_or_nil l with h | ⟨init, last, h⟩
  · simp [abs, h] at hr
  · rw [compactLog_abs_snoc h]
    rw [abs_snoc h] at hr
    rcases List.mem_append.mp hr with hr | hr
    · exact List.mem_append_left _ (List.mem_filter.mpr ⟨hr, hret⟩)
    · exact List.mem_append_right _ hr

/-- A record that disappears is in an inner segment and fails the retain test. -/
theorem retain_false_of_gone (l : CLog) (r : Rec) (hr : r ∈ l.abs)
    (hgone : r ∉ (cleanLog ⟨0, 0, 0⟩ 0 true l).abs) : retain l.hw l.segs r = false := by
  cases hret : retain l.hw l.segs r with
  | false => rfl
  | true => exact absurd (kept_of_retain l r hr hret) hgone

theorem retain_keyless (hw : Int) (segs : List Seg) (r : Rec) (hk : r.body.key = none) :
    retain hw segs r = true := by
  simp [retain, hk]

theorem retain_above_hw (hw : Int) (segs : List Seg) (r : Rec) (h : hw ≤ r.offset) :
    retain hw segs r = true := by
  unfold retain
  split
  · rfl
  · simp [Gen.Compact.retainHWCmp, Cmp.evalInt, h]

theorem newest_kept (l : CLog) (r : Rec) (hr : r ∈ (l.segs.getLast?.map Seg.recs).getD []) :
    r ∈ (cleanLog ⟨0, 0, 0⟩ 0 true l).abs := by
  rcases segs_snoc_or_nil l with h | ⟨init, last, h⟩
  · simp [h] at hr
  · rw [compactLog_abs_snoc h]
    simp [h] at hr
    exact List.mem_append_right _ hr

theorem compactLog_nextOffset (l : CLog) : (cleanLog ⟨0, 0, 0⟩ 0 true l).nextOffset = l.nextOffset := by
  unfold CLog.nextOffset active
  rw [compactLog_segs, compact_getLast?]

/-! ### `scanned` and `latestFor` -/

theorem takeWhile_eq_filter_of_pairwise {α} (p : α → Bool) (xs : List α)
    (h : xs.Pairwise (fun a b => p b = true → p a = true)) : xs.takeWhile p = xs.filter p := by
  induction xs with
  | nil => rfl
  | cons a t ih =>
    have h' := List.pairwise_cons.mp h
    cases hp : p a with
    | true => simp [hp, ih h'.2]
    | false =>
      simp only [List.takeWhile_cons, List.filter_cons, hp]
      symm
      apply List.filter_eq_nil_iff.mpr
      intro b hb hpb
      have := h'.1 b hb hpb
      simp [hp] at this

theorem flatMap_congr' {α β} {f g : α → List β} : ∀ {xs : List α}, (∀ a ∈ xs, f a = g a) →
    xs.flatMap f = xs.flatMap g
  | [], _ => rfl
  | a :: t, h => by
    rw [List.flatMap_cons, List.flatMap_cons, h a (by simp),
      flatMap_congr' (xs := t) (fun b hb => h b (by simp [hb]))]

/-- On a list of sorted segments the key scan sees exactly the records at or below the HW. -/
theorem scanned_eq_filter (hw : Int) (segs : List Seg) (hsort : ∀ s ∈ segs, Sorted s.recs) :
    scanned hw segs = (segs.flatMap Seg.recs).filter (fun r => decide (r.offset ≤ hw)) := by
  unfold scanned
  rw [List.filter_flatMap]
  apply flatMap_congr'
  intro s hs
  have hp : (fun (r : Rec) => !(Gen.Compact.scanStopCmp.evalInt r.offset hw)) =
      (fun r => decide (r.offset ≤ hw)) := by
    funext r
    by_cases h : r.offset ≤ hw
    · have : ¬ r.offset > hw := by omega
      simp [Gen.Compact.scanStopCmp, Cmp.evalInt, h, this]
    · have : r.offset > hw := by omega
      simp [Gen.Compact.scanStopCmp, Cmp.evalInt, h, this]
  rw [hp]
  apply takeWhile_eq_filter_of_pairwise
  refine List.Pairwise.imp ?_ (hsort s hs)
  intro a b hab
  simp only [decide_eq_true_eq]
  omega

theorem mem_scanned {hw : Int} {segs : List Seg} (hsort : ∀ s ∈ segs, Sorted s.recs) {r : Rec} :
    r ∈ scanned hw segs ↔ r ∈ segs.flatMap Seg.recs ∧ r.offset ≤ hw := by
  rw [scanned_eq_filter hw segs hsort, List.mem_filter]
  simp

/-- One step of the `LoadOrStore` / `set` maximum. -/
def latestStep (acc : Option Int) (r : Rec) : Option Int :=
  match acc with
  | none => some r.offset
  | some o => if r.offset > o then some r.offset else some o

theorem latestStep_spec (acc : Option Int) (x : Rec) :
    ∃ o', latestStep acc x = some o' ∧ x.offset ≤ o' ∧ (∀ o, acc = some o → o ≤ o') ∧
      (acc = some o' ∨ x.offset = o') := by
  cases acc with
  | none => exact ⟨x.offset, rfl, Int.le_refl _, by simp, Or.inr rfl⟩
  | some o =>
    by_cases h : x.offset > o
    · refine ⟨x.offset, by simp [latestStep, h], Int.le_refl _, ?_, Or.inr rfl⟩
      intro o2 ho2; cases ho2; omega
    · refine ⟨o, by simp [latestStep, h], by omega, ?_, Or.inl rfl⟩
      intro o2 ho2; cases ho2; exact Int.le_refl _

theorem foldl_latest_spec (L : List Rec) : ∀ acc : Option Int,
    (∀ o, acc = some o → ∃ m, L.foldl latestStep acc = some m ∧ o ≤ m) ∧
    (∀ r ∈ L, ∃ m, L.foldl latestStep acc = some m ∧ r.offset ≤ m) ∧
    (∀ m, L.foldl latestStep acc = some m → acc = some m ∨ ∃ r ∈ L, r.offset = m) := by
  induction L with
  | nil =>
    intro acc
    refine ⟨fun o ho => ⟨o, by simpa using ho, Int.le_refl _⟩, by simp, fun m hm => Or.inl (by simpa using hm)⟩
  | cons x xs ih =>
    intro acc
    obtain ⟨o', hstep, hx, hacc, hor⟩ := latestStep_spec acc x
    obtain ⟨i1, i2, i3⟩ := ih (latestStep acc x)
    simp only [List.foldl_cons]
    refine ⟨?_, ?_, ?_⟩
    · intro o ho
      obtain ⟨m, hm, hle⟩ := i1 o' hstep
      exact ⟨m, hm, by have := hacc o ho; omega⟩
    · intro r hr
      rcases List.mem_cons.mp hr with rfl | hr
      · obtain ⟨m, hm, hle⟩ := i1 o' hstep
        exact ⟨m, hm, by omega⟩
      · exact i2 r hr
    · intro m hm
      rcases i3 m hm with h | ⟨r, hr, hrm⟩
      · rw [hstep] at h
        cases h
        rcases hor with h | h
        · exact Or.inl h
        · exact Or.inr ⟨x, by simp, h⟩
      · exact Or.inr ⟨r, by simp [hr], hrm⟩

theorem latestFor_eq (hw : Int) (segs : List Seg) (k : Bytes) :
    latestFor hw segs k =
      ((scanned hw segs).filter (fun r => r.body.key = some k)).foldl latestStep none := rfl

/-- `latestFor` is the largest scanned offset of the key (and `none` only if the key was not seen). -/
theorem latestFor_spec (hw : Int) (segs : List Seg) (k : Bytes) :
    (∀ r ∈ scanned hw segs, r.body.key = some k →
        ∃ m, latestFor hw segs k = some m ∧ r.offset ≤ m) ∧
    (∀ m, latestFor hw segs k = some m →
        ∃ r ∈ scanned hw segs, r.body.key = some k ∧ r.offset = m) := by
  obtain ⟨-, h2, h3⟩ := foldl_latest_spec ((scanned hw segs).filter (fun r => r.body.key = some k)) none
  rw [latestFor_eq]
  refine ⟨?_, ?_⟩
  · intro r hr hk
    exact h2 r (List.mem_filter.mpr ⟨hr, by simpa using hk⟩)
  · intro m hm
    rcases h3 m hm with h | ⟨r, hr, hrm⟩
    · cases h
    · obtain ⟨hr1, hr2⟩ := List.mem_filter.mp hr
      exact ⟨r, hr1, by simpa using hr2, hrm⟩

/-! ### The retain test, abstractly -/

/-- What `retain` decides on a log with sorted segments: no key, at or above the HW, or no
committed record of the same key has a larger offset. -/
def Keep (A : List Rec) (hw : Int) (r : Rec) : Prop :=
  r.body.key = none ∨ hw ≤ r.offset ∨
    ∀ r' ∈ A, r'.body.key = r.body.key → r'.offset ≤ hw → r'.offset ≤ r.offset

theorem Keep.mono {A B : List Rec} {hw : Int} {r : Rec} (hsub : ∀ x ∈ B, x ∈ A) (h : Keep A hw r) :
    Keep B hw r := by
  rcases h with h | h | h
  · exact Or.inl h
  · exact Or.inr (Or.inl h)
  · exact Or.inr (Or.inr fun r' hr' => h r' (hsub r' hr'))

theorem retain_iff {hw : Int} {segs : List Seg} (hsort : ∀ s ∈ segs, Sorted s.recs) {r : Rec}
    (hr : r ∈ segs.flatMap Seg.recs) :
    retain hw segs r = true ↔ Keep (segs.flatMap Seg.recs) hw r := by
  unfold Keep
  cases hk : r.body.key with
  | none => simp [retain, hk]
  | some k =>
    obtain ⟨s1, s2⟩ := latestFor_spec hw segs k
    have hret : retain hw segs r = true ↔
        (r.offset = (latestFor hw segs k).getD 0 ∨ hw ≤ r.offset) := by
      simp [retain, hk, Gen.Compact.retainLatestCmp, Gen.Compact.retainHWCmp, Cmp.evalInt]
    rw [hret]
    simp only [reduceCtorEq, false_or]
    by_cases hge : hw ≤ r.offset
    · simp [hge]
    · have hsc : r ∈ scanned hw segs := (mem_scanned hsort).mpr ⟨hr, by omega⟩
      obtain ⟨m, hm, hrm⟩ := s1 r hsc hk
      obtain ⟨r0, hr0, hk0, hr0m⟩ := s2 m hm
      have hr0' := (mem_scanned hsort).mp hr0
      rw [hm]
      simp only [Option.getD_some, hge, or_false, false_or]
      constructor
      · intro he r' hr' hk' hle
        obtain ⟨m', hm', hle'⟩ := s1 r' ((mem_scanned hsort).mpr ⟨hr', hle⟩) hk'
        rw [hm] at hm'; cases hm'
        omega
      · intro hall
        have := hall r0 hr0'.1 hk0 hr0'.2
        omega

/-! ### Preservation of the invariant -/

theorem nextOffset_filter_le {s : Seg} (ok : SegOK s) (p : Rec → Bool) :
    ({ s with recs := s.recs.filter p } : Seg).nextOffset ≤ s.nextOffset := by
  have ok' : SegOK { s with recs := s.recs.filter p } :=
    ⟨ok.base_nonneg, fun r hr => ok.base_le r (List.mem_filter.mp hr).1,
      List.Pairwise.sublist List.filter_sublist ok.sorted⟩
  cases hl : (s.recs.filter p).getLast? with
  | none =>
    have : s.recs.filter p = [] := List.getLast?_eq_none_iff.mp hl
    rw [nextOffset_nil (s := { s with recs := s.recs.filter p }) this]
    exact ok.base_le_next
  | some r =>
    rw [ok'.next_eq_last hl]
    have hr : r ∈ s.recs.filter p := List.mem_of_getLast? hl
    have := ok.lt_next r (List.mem_filter.mp hr).1
    omega

theorem mem_cleaned {hw : Int} {segs init : List Seg} {s' : Seg} (h : s' ∈ cleaned hw segs init) :
    (∃ s ∈ init, s' = { s with recs := s.recs.filter (retain hw segs) }) ∧ s'.recs ≠ [] := by
  unfold cleaned at h
  obtain ⟨h1, h2⟩ := List.mem_filter.mp h
  obtain ⟨s, hs, rfl⟩ := List.mem_map.mp h1
  refine ⟨⟨s, hs, rfl⟩, ?_⟩
  intro he
  have h2' : (!(s.recs.filter (retain hw segs)).isEmpty) = true := h2
  have he' : s.recs.filter (retain hw segs) = [] := he
  rw [he'] at h2'
  exact absurd h2' (by decide)

theorem wfc_compact {hw : Int} {segs : List Seg} (wf : WFC segs) : WFC (compact hw segs).1 := by
  rcases List.eq_nil_or_concat segs with h | ⟨init, last, h⟩
  · subst h; rw [compact_fst_nil]; exact wf
  · rw [List.concat_eq_append] at h
    rw [compact_fst_snoc h]
    have hchain := wf.chain
    rw [h] at hchain
    have hch := List.pairwise_append.mp hchain
    refine ⟨?_, ?_, ?_⟩
    · rw [List.flatMap_append, flatMap_cleaned]
      have := wf.sorted
      rw [h, List.flatMap_append] at this
      exact List.Pairwise.sublist (List.Sublist.append List.filter_sublist (List.Sublist.refl _)) this
    · intro s' hs'
      rcases List.mem_append.mp hs' with hs' | hs'
      · obtain ⟨⟨s, hs, rfl⟩, -⟩ := mem_cleaned hs'
        have := wf.base_le s (by simp [h, hs])
        exact ⟨this.1, fun r hr => this.2 r (List.mem_filter.mp hr).1⟩
      · exact wf.base_le s' (by simp [h]; right; simpa using hs')
    · have hmap : ((init.map fun s => ({ s with recs := s.recs.filter (retain hw segs) } : Seg)) ++ [last]).Pairwise
          (fun a b => a.nextOffset ≤ b.base ∧ a.base < b.base) := by
        refine List.pairwise_append.mpr ⟨?_, by simp, ?_⟩
        · rw [List.pairwise_map]
          refine List.Pairwise.imp_of_mem ?_ hch.1
          intro a b ha hb hab
          have := nextOffset_filter_le (wf.segOK (s := a) (by simp [h, ha])) (retain hw segs)
          exact ⟨by show _ ≤ b.base; omega, hab.2⟩
        · intro a' ha' b hb
          obtain ⟨a, ha, rfl⟩ := List.mem_map.mp ha'
          have hab := hch.2.2 a ha b hb
          have := nextOffset_filter_le (wf.segOK (s := a) (by simp [h, ha])) (retain hw segs)
          exact ⟨by omega, hab.2⟩
      exact List.Pairwise.sublist (List.Sublist.append List.filter_sublist (List.Sublist.refl _)) hmap

theorem inner_compact {hw : Int} {segs : List Seg} (hin : ∀ s ∈ segs.dropLast, s.recs ≠ []) :
    ∀ s ∈ (compact hw segs).1.dropLast, s.recs ≠ [] := by
  rcases List.eq_nil_or_concat segs with h | ⟨init, last, h⟩
  · subst h; rw [compact_fst_nil]; simp
  · rw [List.concat_eq_append] at h
    rw [compact_fst_snoc h]
    intro s hs
    rw [List.dropLast_concat] at hs
    exact (mem_cleaned hs).2

theorem compact_ne_nil {hw : Int} {segs : List Seg} (hne : segs ≠ []) : (compact hw segs).1 ≠ [] := by
  intro he
  have := compact_getLast? hw segs
  rw [he] at this
  exact hne (List.getLast?_eq_none_iff.mp this.symm)

theorem dropLast_drop_subset {α} (xs : List α) (k : Nat) :
    ∀ a ∈ (xs.drop k).dropLast, a ∈ xs.dropLast := by
  intro a ha
  rw [List.dropLast_eq_take, List.length_drop] at ha
  rw [List.dropLast_eq_take]
  obtain ⟨i, hi, rfl⟩ := List.mem_iff_getElem.mp ha
  simp only [List.length_take, List.length_drop] at hi
  rw [List.getElem_take, List.getElem_drop]
  apply List.mem_take_iff_getElem.mpr
  exact ⟨k + i, by omega, rfl⟩

theorem invC_cleanLog' (l : CLog) (lim : Retention.Limits) (ttl : Int) (c : Bool) (h : InvC l) :
    InvC (cleanLog lim ttl c l) := by
  obtain ⟨k, hk⟩ := Retention.clean_suffix' lim ttl l.segs
  have hne : Retention.clean lim ttl l.segs ≠ [] := by
    intro he
    have := Retention.clean_keeps_last' lim ttl l.segs h.nonempty
    rw [he] at this
    exact h.nonempty (List.getLast?_eq_none_iff.mp this.symm)
  have wfk : WFC (Retention.clean lim ttl l.segs) := by
    rw [hk]
    have := h.wfc
    rw [← List.take_append_drop k l.segs] at this
    exact this.of_append_right
  have hink : ∀ s ∈ (Retention.clean lim ttl l.segs).dropLast, s.recs ≠ [] := by
    rw [hk]
    intro s hs
    exact h.inner_nonempty s (dropLast_drop_subset _ _ s hs)
  have hsegs := cleanLog_segs lim ttl c l hne
  cases c with
  | false =>
    simp only [Bool.false_eq_true, if_false] at hsegs
    exact ⟨by rw [hsegs]; exact hne, by unfold abs; rw [hsegs]; exact wfk.sorted,
      by rw [hsegs]; exact wfk.base_le, by rw [hsegs]; exact wfk.chain, by rw [hsegs]; exact hink⟩
  | true =>
    simp only [if_true] at hsegs
    have wfc := wfc_compact (hw := l.hw) wfk
    exact ⟨by rw [hsegs]; exact compact_ne_nil hne, by unfold abs; rw [hsegs]; exact wfc.sorted,
      by rw [hsegs]; exact wfc.base_le, by rw [hsegs]; exact wfc.chain,
      by rw [hsegs]; exact inner_compact hink⟩

/-! ### What survives, under the invariant -/

theorem InvC.seg_sorted {l : CLog} (h : InvC l) : ∀ s ∈ l.segs, Sorted s.recs :=
  fun _ hs => (h.wfc.segOK hs).sorted

theorem latest_kept' (l : CLog) (h : InvC l) (r : Rec) (hr : r ∈ l.abs)
    (hl : ∃ k, r.body.key = some k ∧ r.offset ≤ l.hw ∧
      ∀ r' ∈ l.abs, r'.body.key = some k → r'.offset ≤ l.hw → r'.offset ≤ r.offset) :
    r ∈ (cleanLog ⟨0, 0, 0⟩ 0 true l).abs := by
  apply kept_of_retain l r hr
  apply (retain_iff h.seg_sorted hr).mpr
  obtain ⟨k, hk, -, hall⟩ := hl
  exact Or.inr (Or.inr fun r' hr' hk' hle => hall r' hr' (by rw [hk', hk]) hle)

theorem removed_only_superseded' (l : CLog) (h : InvC l) (r : Rec) (hr : r ∈ l.abs)
    (hgone : r ∉ (cleanLog ⟨0, 0, 0⟩ 0 true l).abs) :
    ∃ k r', r.body.key = some k ∧ r' ∈ l.abs ∧ r'.body.key = some k ∧ r.offset < r'.offset ∧
      r'.offset ≤ l.hw := by
  have hfalse := retain_false_of_gone l r hr hgone
  cases hk : r.body.key with
  | none => rw [retain_keyless _ _ _ hk] at hfalse; cases hfalse
  | some k =>
    apply Classical.byContradiction
    intro hno
    have : retain l.hw l.segs r = true := by
      apply (retain_iff h.seg_sorted hr).mpr
      refine Or.inr (Or.inr fun r' hr' hk' hle => ?_)
      apply Classical.byContradiction
      intro hlt
      exact hno ⟨k, r', rfl, hr', by rw [hk', hk], by omega, hle⟩
    rw [this] at hfalse; cases hfalse

theorem compact_idempotent' (l : CLog) (h : InvC l) :
    (cleanLog ⟨0, 0, 0⟩ 0 true (cleanLog ⟨0, 0, 0⟩ 0 true l)).abs =
      (cleanLog ⟨0, 0, 0⟩ 0 true l).abs := by
  have h' := invC_cleanLog' l ⟨0, 0, 0⟩ 0 true h
  rcases segs_snoc_or_nil l with hn | ⟨init, last, hs⟩
  · exact absurd hn h.nonempty
  · have hs' : (cleanLog ⟨0, 0, 0⟩ 0 true l).segs = cleaned l.hw l.segs init ++ [last] := by
      rw [compactLog_segs, compact_fst_snoc hs]
    rw [compactLog_abs_snoc hs', abs_snoc hs']
    congr 1
    apply List.filter_eq_self.mpr
    intro r hr
    have hr' : r ∈ (cleanLog ⟨0, 0, 0⟩ 0 true l).abs := by
      rw [abs_snoc hs']; exact List.mem_append_left _ hr
    rw [flatMap_cleaned] at hr
    obtain ⟨hr1, hr2⟩ := List.mem_filter.mp hr
    have hrl : r ∈ l.abs := by rw [abs_snoc hs]; exact List.mem_append_left _ hr1
    have hkeep := (retain_iff h.seg_sorted hrl).mp hr2
    rw [cleanLog_hw]
    apply (retain_iff h'.seg_sorted hr').mpr
    exact hkeep.mono (fun x hx => (survivors_sublist l).subset hx)

/-! ### Readers on sparse logs -/

theorem InvC.oldest_ne {l : CLog} (h : InvC l) (hne : l.abs ≠ []) : l.oldest ≠ -1 := by
  cases hsegs : l.segs with
  | nil => exact absurd hsegs h.nonempty
  | cons s0 rest =>
    have ok0 : SegOK s0 := h.wfc.segOK (by simp [hsegs])
    cases hrecs : s0.recs with
    | cons r rs =>
      have := ok0.base_le r (by simp [hrecs])
      have := ok0.base_nonneg
      simp [oldest, hsegs, Seg.firstOffset, hrecs]; omega
    | nil =>
      cases rest with
      | nil => simp [abs, hsegs, hrecs] at hne
      | cons b rest' =>
        exact absurd hrecs (h.inner_nonempty s0 (by simp [hsegs]))

theorem readUncommitted_sparse' (l : CLog) (s : Int) (h : InvC l) (hs : ∃ r ∈ l.abs, s ≤ r.offset) :
    l.readUncommitted s = .ok (l.abs.filter (fun r => decide (s ≤ r.offset))) :=
  readUncommitted_eq_wfc h.wfc s hs

theorem readCommitted_sparse' (l : CLog) (s : Int) (h : InvC l)
    (hhw : ∃ r ∈ l.abs, r.offset = l.hw) (hs : s ≤ l.hw) :
    l.readCommitted s = .ok (l.abs.filter (fun r => decide (s ≤ r.offset ∧ r.offset ≤ l.hw))) := by
  obtain ⟨r, hr, hrhw⟩ := hhw
  exact readCommitted_eq_wfc h.wfc (h.oldest_ne (by intro he; rw [he] at hr; cases hr)) s
    ⟨r, hr, hrhw⟩ hs

end Liftbridge.Proofs.Compact
