/-
Helper lemmas for Props/GoPartition.lean: look-ups in the translated program, and the loop that
rebuilds the persisted in-sync list (`for x := range p.isr { p.Isr = append(p.Isr, x) }`) as an
explicit state transformer.
-/
import Liftbridge.Proofs.GoCodeBase
import Liftbridge.Model.GoPartitionEnv

namespace Liftbridge.Props.GoPartition
open Liftbridge Liftbridge.GoMini Liftbridge.GoCode
open Liftbridge.Gen.GoPartition Liftbridge.GoPartitionEnv

attribute [local gomini] runFor_succ

@[simp] theorem lk_truncateToHW : evalE.lookup' "truncateToHW" prog = some fn_partition_truncateToHW := by simp [prog, gomini]
@[simp] theorem lk_truncateUncommitted : evalE.lookup' "truncateUncommitted" prog = some fn_partition_truncateUncommitted := by simp [prog, gomini]
@[simp] theorem lk_sendLeaderOffsetRequest : evalE.lookup' "sendLeaderOffsetRequest" prog = none := by simp [prog, gomini]
@[simp] theorem lk_LastLeaderEpoch : evalE.lookup' "LastLeaderEpoch" prog = none := by simp [prog, gomini]
@[simp] theorem lk_NewestOffset : evalE.lookup' "NewestOffset" prog = none := by simp [prog, gomini]
@[simp] theorem lk_HighWatermark : evalE.lookup' "HighWatermark" prog = none := by simp [prog, gomini]
@[simp] theorem lk_Sleep : evalE.lookup' "time.Sleep" prog = none := by simp [prog, gomini]
@[simp] theorem lk_Truncate : evalE.lookup' "Truncate" prog = none := by simp [prog, gomini]

theorem update_update (k : String) (v1 v2 : Val) : ∀ fs : List (String × Val), update k v2 (update k v1 fs) = update k v2 fs := by
  intro fs
  induction fs with
  | nil => simp [update]
  | cons a rest ih =>
    obtain ⟨a1, a2⟩ := a
    by_cases h : k = a1 <;> simp [update, h, ih]

theorem lookup_update_same (k : String) (v : Val) : ∀ fs : List (String × Val), lookup k (update k v fs) = some v := by
  intro fs
  induction fs with
  | nil => simp [update, lookup]
  | cons a rest ih =>
    obtain ⟨a1, a2⟩ := a
    by_cases h : k = a1 <;> simp [update, lookup, h, ih]

/-- state after the loop `for <x> := range p.isr { p.Isr = append(p.Isr, <x>) }` -/
def isrSt (x : String) (pf : List (String × Val)) : List (String × Val) → List Val → St → St
  | [], _, st => st
  | (k, _) :: rest, acc, st =>
    isrSt x pf rest (acc ++ [.str k]) ((st.set x (.str k)).set "p" (.struct (update "Isr" (.list (acc ++ [.str k])) pf)))

theorem isr_loop (n : Nat) (x : String) (hx : x ≠ "p") (pf : List (String × Val)) (kv : List (String × Val)) :
    ∀ (acc : List Val) (st : St), st.env "p" = some (.struct (update "Isr" (.list acc) pf)) →
    runRangeMap (runBlock (exec prog noExt (n+6))
        [(.assign [(.sel (.var "p") "Isr")] [(.call "append" [(.sel (.var "p") "Isr"), (.var x)])])])
      (some x) none kv st = .ok (.next, isrSt x pf kv acc st) := by
  induction kv with
  | nil => intro acc st _; simp [gomini, isrSt]
  | cons e rest ih =>
    intro acc st hp
    obtain ⟨k, v⟩ := e
    have := ih (acc ++ [.str k]) ((st.set x (.str k)).set "p" (.struct (update "Isr" (.list (acc ++ [.str k])) pf)))
      (by simp [gomini])
    simp [gomini, isrSt, hp, hx, builtin, lookup_update_same, update_update, Ne.symm hx]
    exact this

theorem isrSt_p (x : String) (pf : List (String × Val)) (kv : List (String × Val)) :
    ∀ (acc : List Val) (st : St), st.env "p" = some (.struct (update "Isr" (.list acc) pf)) →
    (isrSt x pf kv acc st).env "p" = some (.struct (update "Isr" (.list (acc ++ kv.map (fun e => .str e.1))) pf)) := by
  induction kv with
  | nil => intro acc st h; simpa [isrSt] using h
  | cons e rest ih =>
    intro acc st _
    obtain ⟨k, v⟩ := e
    simp only [isrSt]
    rw [ih _ _ (by simp [gomini])]
    simp

theorem isrSt_frame (x : String) (pf : List (String × Val)) (y : String) (hy1 : y ≠ "p") (hy2 : y ≠ x) (kv : List (String × Val)) :
    ∀ (acc : List Val) (st : St), (isrSt x pf kv acc st).env y = st.env y := by
  induction kv with
  | nil => intro acc st; rfl
  | cons e rest ih =>
    intro acc st
    obtain ⟨k, v⟩ := e
    simp [isrSt, ih, gomini, hy1, hy2]

theorem isrSt_eff (x : String) (pf : List (String × Val)) (kv : List (String × Val)) :
    ∀ (acc : List Val) (st : St), (isrSt x pf kv acc st).eff = st.eff := by
  induction kv with
  | nil => intro acc st; rfl
  | cons e rest ih =>
    intro acc st
    obtain ⟨k, v⟩ := e
    simp [isrSt, ih, gomini]

/-- `*partition`: the fields the in-sync-set mutators touch -/
def encPart (rs m : List (String × Val)) (persisted : List Val) (below : Bool) (minISR : Int) (leading : Bool) : Val :=
  .struct [("replicas", .struct rs), ("isr", .struct m), ("Isr", .list persisted), ("belowMinISR", .bool below),
           ("minISR", .int minISR), ("isLeading", .bool leading)]

def fieldOf (f : String) : Option Val → Option Val
  | some (.struct fs) => lookup f fs
  | _ => none

def isrView : R Out → Option (Option Val × Option Val × List Val)
  | .ok o => some (fieldOf "isr" o.recv, fieldOf "Isr" o.recv, o.rets)
  | _ => none

@[simp] theorem lk_inReplicas : evalE.lookup' "inReplicas" prog = some fn_partition_inReplicas := by simp [prog, gomini]
@[simp] theorem lk_RemoveFromISR : evalE.lookup' "RemoveFromISR" prog = some fn_partition_RemoveFromISR := by simp [prog, gomini]
@[simp] theorem lk_AddToISR : evalE.lookup' "AddToISR" prog = some fn_partition_AddToISR := by simp [prog, gomini]
@[simp] theorem lk_trySend : evalE.lookup' "chan.trySend" prog = none := by simp [prog, gomini]


end Liftbridge.Props.GoPartition
