/-
Helper lemmas for Props/C18.lean: the inductive invariant of the activity-stream model
(Model/Activity.lean) and its preservation by every step.
-/
import Liftbridge.Model.Activity

namespace Liftbridge.Activity

/-! ### regenerated constants the proofs depend on (a change in the source breaks these `rfl`s) -/

@[simp] theorem eventId_eq (i : Nat) : eventId i = i := rfl
@[simp] theorem startOffset_eq : Gen.Activity.startOffset = 1 := rfl
@[simp] theorem caughtUp_eval (i n : Nat) : Gen.Activity.caughtUpCmp.evalNat i n = decide (i > n) := rfl
@[simp] theorem getLogPanics_eq : Gen.Activity.getLogErrorPanics = true := rfl
@[simp] theorem recordArg_eq : Gen.Activity.recordArgIsEventId = true := rfl
@[simp] theorem applyStores_eq : Gen.Activity.applyStoresArg = true := rfl

@[simp] theorem setDisp_zero (s : State) (d : Disp) : setDisp s 0 d = { s with dispatcher := some d } := rfl
@[simp] theorem setDisp_succ (s : State) (k : Nat) (d : Disp) :
    setDisp s (k + 1) d = { s with zombies := s.zombies.set k d } := rfl
@[simp] theorem getDisp_zero (s : State) : getDisp s 0 = s.dispatcher := rfl
@[simp] theorem startDisp_next (lp : Nat) : (startDisp lp).next = lp + 1 := rfl
@[simp] theorem startDisp_holding (lp : Nat) : (startDisp lp).holding = false := rfl

/-! ### the log -/

theorem entryAt_some_bounds {raft : List Entry} {i : Nat} {e : Entry} (h : entryAt raft i = some e) :
    1 ≤ i ∧ i ≤ raft.length := by
  unfold entryAt at h
  split at h
  · cases h
  · rename_i hi
    have := (List.getElem?_eq_some_iff.mp h).1
    omega

theorem entryAt_append_le {raft l : List Entry} {i : Nat} (h : i ≤ raft.length) :
    entryAt (raft ++ l) i = entryAt raft i := by
  unfold entryAt
  split
  · rfl
  · rw [List.getElem?_append_left (by omega)]

theorem entryAt_zero (raft : List Entry) : entryAt raft 0 = none := by simp [entryAt]

theorem evAt_zero (raft : List Entry) : evAt raft 0 = false := by simp [evAt, entryAt_zero]

theorem evAt_append_le {raft l : List Entry} {j : Nat} (h : j ≤ raft.length) :
    evAt (raft ++ l) j = evAt raft j := by
  simp [evAt, entryAt_append_le h]

theorem evAt_true_iff {raft : List Entry} {j : Nat} :
    evAt raft j = true ↔ ∃ e act, entryAt raft j = some e ∧ eventOf e = some act := by
  unfold evAt
  cases h : entryAt raft j with
  | none => simp
  | some e => simp [Option.isSome_iff_exists]

theorem evAt_le {raft : List Entry} {j : Nat} (h : evAt raft j = true) : 1 ≤ j ∧ j ≤ raft.length := by
  obtain ⟨e, _, he, _⟩ := evAt_true_iff.mp h
  exact entryAt_some_bounds he

theorem evAt_append {raft l : List Entry} {j : Nat} (h : evAt raft j = true) : evAt (raft ++ l) j = true := by
  rw [evAt_append_le (evAt_le h).2]; exact h

/-! ### replay -/

theorem replay_cons (start : Nat) (e : Entry) (l : List Entry) :
    replay start (e :: l) = replay (if isPA e then e.arg else start) l := by
  simp [replay, List.foldl_cons]

theorem replay_cases (l : List Entry) : ∀ start,
    replay start l = start ∨ ∃ e ∈ l, isPA e = true ∧ replay start l = e.arg := by
  induction l with
  | nil => intro start; left; rfl
  | cons e l ih =>
    intro start
    rw [replay_cons]
    rcases ih (if isPA e then e.arg else start) with h | ⟨e', he', hp, hr⟩
    · by_cases hpa : isPA e = true
      · right; exact ⟨e, List.mem_cons_self, hpa, by rw [h]; simp [hpa]⟩
      · left; rw [h]; simp [hpa]
    · right; exact ⟨e', List.mem_cons_of_mem _ he', hp, hr⟩

theorem restoredC_cases (carries : Bool) (snap : Nat) (raft : List Entry) :
    restoredC carries snap raft = 0 ∨ ∃ e ∈ raft, isPA e = true ∧ restoredC carries snap raft = e.arg := by
  unfold restoredC
  rcases replay_cases (raft.drop snap) (if carries then replay 0 (raft.take snap) else 0) with h | ⟨e, he, hp, hr⟩
  · rw [h]
    cases carries with
    | false => left; rfl
    | true =>
      simp only [if_true]
      rcases replay_cases (raft.take snap) 0 with h0 | ⟨e, he, hp, hr⟩
      · left; exact h0
      · right; exact ⟨e, List.mem_of_mem_take he, hp, hr⟩
  · right; exact ⟨e, List.mem_of_mem_drop he, hp, hr⟩

theorem replay_append_nonPA (start : Nat) (l : List Entry) (e : Entry) (h : isPA e = false) :
    replay start (l ++ [e]) = replay start l := by
  simp [replay, List.foldl_append, h]

/-! ### first occurrences -/

theorem firsts_append (l : List Nat) (x : Nat) :
    firsts (l ++ [x]) = if x ∈ firsts l then firsts l else firsts l ++ [x] := by
  unfold firsts
  rw [List.foldl_append]
  rfl

theorem mem_foldl_firsts (l : List Nat) (x : Nat) : ∀ acc : List Nat,
    x ∈ l.foldl (fun acc x => if x ∈ acc then acc else acc ++ [x]) acc ↔ x ∈ acc ∨ x ∈ l := by
  induction l with
  | nil => intro acc; simp
  | cons y l ih =>
    intro acc
    rw [List.foldl_cons, ih]
    by_cases hy : y ∈ acc
    · simp only [hy, if_true, List.mem_cons]
      constructor
      · rintro (h | h)
        · exact Or.inl h
        · exact Or.inr (Or.inr h)
      · rintro (h | h | h)
        · exact Or.inl h
        · subst h; exact Or.inl hy
        · exact Or.inr h
    · simp [hy, or_assoc]

theorem mem_firsts (l : List Nat) (x : Nat) : x ∈ firsts l ↔ x ∈ l := by
  unfold firsts
  rw [mem_foldl_firsts]
  simp

/-! ### the invariant -/

/-- What every live dispatch goroutine satisfies: everything event-bearing below its index has
been published. -/
structure DispOK (raft : List Entry) (idl : List Nat) (d : Disp) : Prop where
  pos : 1 ≤ d.next
  le : d.next ≤ raft.length + 1
  below : ∀ j, j < d.next → evAt raft j = true → j ∈ idl

theorem DispOK.mono {raft : List Entry} {idl idl' : List Nat} {d : Disp} (l : List Entry)
    (h : DispOK raft idl d) (hsub : ∀ x, x ∈ idl → x ∈ idl') : DispOK (raft ++ l) idl' d where
  pos := h.pos
  le := by have := h.le; simp only [List.length_append]; omega
  below := by
    intro j hj hev
    have hle : j ≤ raft.length := by have := h.le; omega
    rw [evAt_append_le hle] at hev
    exact hsub _ (h.below j hj hev)

theorem DispOK.holding {raft : List Entry} {idl : List Nat} {d : Disp} (b : Bool)
    (h : DispOK raft idl d) : DispOK raft idl { next := d.next, holding := b } :=
  ⟨h.pos, h.le, h.below⟩

structure Inv (s : State) : Prop where
  ack : s.ackNone = false
  floorPos : 1 ≤ s.floor
  evs : ∀ ev ∈ s.stream, ∃ e, entryAt s.raft ev.id = some e ∧ eventOf e = some ev.op
  closed : ∀ y ∈ ids s, ∀ j, j < y → evAt s.raft j = true → j ∈ ids s
  disp : ∀ d, s.dispatcher = some d → DispOK s.raft (ids s) d
  zomb : ∀ d ∈ s.zombies, DispOK s.raft (ids s) d
  pas : ∀ e ∈ s.raft, isPA e = true → e.arg ∈ ids s
  lp : s.lastPublished = 0 ∨ s.lastPublished ∈ ids s
  sorted : (firsts (ids s)).Pairwise (· < ·)

theorem inv_init : Inv (init false) where
  ack := rfl
  floorPos := by simp [init]
  evs := by simp [init]
  closed := by simp [init, ids]
  disp := by simp [init]
  zomb := by simp [init]
  pas := by simp [init]
  lp := by simp [init]
  sorted := by simp [init, ids, firsts]

theorem ids_le {s : State} (h : Inv s) {y : Nat} (hy : y ∈ ids s) : 1 ≤ y ∧ y ≤ s.raft.length := by
  simp only [ids, List.mem_map] at hy
  obtain ⟨ev, hev, rfl⟩ := hy
  obtain ⟨e, he, _⟩ := h.evs ev hev
  exact entryAt_some_bounds he

theorem ids_ev {s : State} (h : Inv s) {y : Nat} (hy : y ∈ ids s) : evAt s.raft y = true := by
  simp only [ids, List.mem_map] at hy
  obtain ⟨ev, hev, rfl⟩ := hy
  obtain ⟨e, he, ha⟩ := h.evs ev hev
  exact evAt_true_iff.mpr ⟨e, ev.op, he, ha⟩

/-- Extending the log (by entries that are not PUBLISH_ACTIVITY, or whose argument is published). -/
theorem inv_extend {s : State} (h : Inv s) (e : Entry) (hpa : isPA e = true → e.arg ∈ ids s) :
    Inv { s with raft := s.raft ++ [e] } where
  ack := h.ack
  floorPos := h.floorPos
  evs := by
    intro ev hev
    obtain ⟨x, hx, ha⟩ := h.evs ev hev
    refine ⟨x, ?_, ha⟩
    rw [entryAt_append_le (entryAt_some_bounds hx).2]; exact hx
  closed := by
    intro y hy j hj hev
    have hyl := (ids_le h hy).2
    rw [evAt_append_le (by omega)] at hev
    exact h.closed y hy j hj hev
  disp := fun d hd => (h.disp d hd).mono [e] (fun _ hx => hx)
  zomb := fun d hd => (h.zomb d hd).mono [e] (fun _ hx => hx)
  pas := by
    intro x hx hp
    simp only [List.mem_append, List.mem_singleton] at hx
    rcases hx with hx | rfl
    · exact h.pas x hx hp
    · exact hpa hp
  lp := h.lp
  sorted := h.sorted

/-- Appending the event of entry `i` when everything event-bearing below `i` is published. -/
theorem inv_append {s : State} (h : Inv s) {i act : Nat} {e : Entry}
    (he : entryAt s.raft i = some e) (ha : eventOf e = some act)
    (hb : ∀ j, j < i → evAt s.raft j = true → j ∈ ids s) :
    Inv (append s { id := i, op := act }) := by
  have hids : ids (append s { id := i, op := act }) = ids s ++ [i] := by simp [ids, append]
  have hsub : ∀ x, x ∈ ids s → x ∈ ids (append s { id := i, op := act }) := by
    intro x hx; rw [hids]; exact List.mem_append_left _ hx
  have hevi : evAt s.raft i = true := evAt_true_iff.mpr ⟨e, act, he, ha⟩
  refine ⟨h.ack, h.floorPos, ?_, ?_, ?_, ?_, ?_, ?_, ?_⟩
  · intro ev hev
    simp only [append, List.mem_append, List.mem_singleton] at hev
    rcases hev with hev | rfl
    · exact h.evs ev hev
    · exact ⟨e, he, ha⟩
  · intro y hy j hj hev
    rw [hids] at hy
    simp only [List.mem_append, List.mem_singleton] at hy
    rcases hy with hy | rfl
    · exact hsub _ (h.closed y hy j hj hev)
    · exact hsub _ (hb j hj hev)
  · intro d hd
    have := (h.disp d hd).mono [] hsub
    simpa [append] using this
  · intro d hd
    have := (h.zomb d hd).mono [] hsub
    simpa [append] using this
  · intro x hx hp; exact hsub _ (h.pas x hx hp)
  · rcases h.lp with h0 | h1
    · left; exact h0
    · right; exact hsub _ h1
  · rw [hids, firsts_append]
    by_cases hi : i ∈ firsts (ids s)
    · simp only [hi, if_true]; exact h.sorted
    · simp only [hi, if_false]
      rw [List.pairwise_append]
      refine ⟨h.sorted, List.pairwise_singleton _ _, ?_⟩
      intro a ha' b hb'
      simp only [List.mem_singleton] at hb'
      subst hb'
      have ha2 : a ∈ ids s := (mem_firsts _ _).mp ha'
      have hne : a ≠ b := fun hab => hi (hab ▸ ha')
      have hnlt : ¬ b < a := by
        intro hlt
        exact hi ((mem_firsts _ _).mpr (h.closed a ha2 b hlt hevi))
      omega

/-- Committing `PUBLISH_ACTIVITY{RaftIndex: i}` for a published `i`. -/
theorem inv_record {s : State} (h : Inv s) {i : Nat} (hi : i ∈ ids s) : Inv (record s i) := by
  have h1 := inv_extend h (paEntry i) (fun _ => by simpa [paEntry] using hi)
  have : record s i = { ({ s with raft := s.raft ++ [paEntry i] } : State) with lastPublished := i } := by
    simp [record]
  rw [this]
  exact { h1 with lp := Or.inr (by simpa [ids] using hi) }

theorem inv_setDisp {s : State} (h : Inv s) (who : Nat) {d : Disp}
    (hd : DispOK s.raft (ids s) d) : Inv (setDisp s who d) := by
  cases who with
  | zero =>
    exact { h with disp := by intro d' hd'; simp [setDisp] at hd'; subst hd'; simpa [setDisp, ids] using hd }
  | succ k =>
    refine { h with zomb := ?_ }
    intro d' hd'
    simp only [setDisp] at hd'
    rcases List.mem_or_eq_of_mem_set hd' with h1 | h1
    · exact h.zomb d' h1
    · subst h1; exact hd

theorem getDisp_ok {s : State} (h : Inv s) {who : Nat} {d : Disp} (hd : getDisp s who = some d) :
    DispOK s.raft (ids s) d := by
  cases who with
  | zero => exact h.disp d hd
  | succ k =>
    simp only [getDisp] at hd
    exact h.zomb d (List.mem_of_getElem? hd)

/-- A fresh dispatcher starting after an index that is `0` or published. -/
theorem dispOK_start {s : State} (h : Inv s) {lp : Nat} (hlp : lp = 0 ∨ lp ∈ ids s) :
    DispOK s.raft (ids s) (startDisp lp) := by
  unfold startDisp
  refine ⟨by simp, ?_, ?_⟩
  · rcases hlp with h0 | h1
    · subst h0; simp
    · have := (ids_le h h1).2; simp; omega
  · intro j hj hev
    simp only [startOffset_eq] at hj
    rcases hlp with h0 | h1
    · subst h0
      have : j = 0 := by omega
      subst this
      rw [evAt_zero] at hev; cases hev
    · by_cases hjl : j = lp
      · subst hjl; exact h1
      · exact h.closed lp h1 j (by omega) hev

theorem restored_ok {s : State} (h : Inv s) (v : Nat) :
    restored v s.raft = 0 ∨ restored v s.raft ∈ ids s := by
  rcases restoredC_cases Gen.Activity.snapshotCarriesLastPublished v s.raft with h0 | ⟨e, he, hp, hr⟩
  · left; exact h0
  · right; unfold restored; rw [hr]; exact h.pas e he hp

theorem inv_publishE {s s' : State} (h : Inv s) {who : Nat} {d : Disp} {e : Entry} {act : Nat} {o : Outcome}
    (hok : DispOK s.raft (ids s) d) (hle : d.next ≤ s.raft.length)
    (he : entryAt s.raft d.next = some e) (ha : eventOf e = some act)
    (hs : publishE s who d.next act o = .ok s') : Inv s' := by
  have happ := inv_append h he ha hok.below
  have hin : d.next ∈ ids (append s { id := d.next, op := act }) := by simp [ids, append]
  have hsub : ∀ x, x ∈ ids s → x ∈ ids (append s { id := d.next, op := act }) := by
    intro x hx; simp only [ids, append, List.map_append, List.mem_append]; exact Or.inl hx
  have hrec := inv_record happ hin
  have hidr : ids (record (append s { id := d.next, op := act }) d.next)
      = ids (append s { id := d.next, op := act }) := by simp [ids, record]
  have hraft : (record (append s { id := d.next, op := act }) d.next).raft
      = s.raft ++ [paEntry d.next] := by simp [record, append]
  cases o with
  | pubFail =>
    simp only [publishE, Res.ok.injEq] at hs; subst hs
    exact inv_setDisp h who (hok.holding true)
  | appended =>
    simp only [publishE, eventId_eq, Res.ok.injEq] at hs; subst hs
    refine inv_setDisp happ who ?_
    have := (hok.mono [] hsub).holding true
    simpa [append] using this
  | recorded =>
    simp only [publishE, eventId_eq, Res.ok.injEq] at hs; subst hs
    refine inv_setDisp hrec who ?_
    rw [hidr, hraft]
    exact (hok.mono [paEntry d.next] hsub).holding true
  | ok =>
    simp only [publishE, eventId_eq, Res.ok.injEq] at hs; subst hs
    refine inv_setDisp hrec who ?_
    rw [hidr, hraft]
    refine ⟨by simp, by simp; omega, ?_⟩
    intro j hj hev
    by_cases hjd : j = d.next
    · subst hjd; exact hin
    · have hjl : j ≤ s.raft.length := by simp at hj; omega
      rw [evAt_append_le hjl] at hev
      exact hsub _ (hok.below j (by simp at hj; omega) hev)
  | lost =>
    simp [publishE, h.ack] at hs

theorem inv_dispatchE {s s' : State} (h : Inv s) {who : Nat} {o : Outcome}
    (hs : dispatchE s who o = .ok s') : Inv s' := by
  unfold dispatchE at hs
  split at hs
  · cases hs
  · split at hs
    · cases hs
    · rename_i d hd
      have hok := getDisp_ok h hd
      split at hs
      · cases hs
      · rename_i hw
        have hle : d.next ≤ s.raft.length := by simpa using hw
        split at hs
        · split at hs
          · simp only [Res.ok.injEq] at hs; subst hs
            exact { h with disp := by simp, zomb := by simp }
          · cases hs
        · split at hs
          · cases hs
          · rename_i e he
            split at hs
            · rename_i ha
              simp only [Res.ok.injEq] at hs; subst hs
              refine inv_setDisp h who ⟨by simp, by simp; omega, ?_⟩
              intro j hj hev
              by_cases hjd : j = d.next
              · subst hjd
                obtain ⟨e', act, he', ha'⟩ := evAt_true_iff.mp hev
                rw [he] at he'; cases he'
                rw [ha] at ha'; cases ha'
              · exact hok.below j (by simp at hj; omega) hev
            · rename_i act ha
              exact inv_publishE h hok hle he ha hs

theorem inv_stepE {s s' : State} (h : Inv s) {st : Step} (hs : stepE s st = .ok s') : Inv s' := by
  cases st with
  | commit e =>
    simp only [stepE] at hs
    split at hs
    · cases hs
    · rename_i hp
      simp only [Res.ok.injEq] at hs; subst hs
      exact inv_extend h e (fun hh => absurd hh hp)
  | dispatch who o => exact inv_dispatchE h hs
  | leaderChange view linger =>
    simp only [stepE, Res.ok.injEq] at hs; subst hs
    have hlp : viewOf s view = 0 ∨ viewOf s view ∈ ids s := by
      cases view with
      | none => exact h.lp
      | some v => exact restored_ok h v
    refine ⟨h.ack, h.floorPos, h.evs, h.closed, ?_, ?_, h.pas, hlp, h.sorted⟩
    · intro d hd
      simp only [Option.some.injEq] at hd
      subst hd
      exact dispOK_start h hlp
    · intro d hd
      cases hdisp : s.dispatcher with
      | none => simp only [hdisp] at hd; exact h.zomb d hd
      | some d0 =>
        cases linger with
        | false => simp only [hdisp] at hd; exact h.zomb d hd
        | true =>
          simp only [hdisp, List.mem_append, List.mem_singleton] at hd
          rcases hd with hd | rfl
          · exact h.zomb d hd
          · exact h.disp d hdisp
  | restart =>
    simp only [stepE, Res.ok.injEq] at hs; subst hs
    have hlp := restored_ok h s.snap
    refine ⟨h.ack, h.floorPos, h.evs, h.closed, ?_, ?_, h.pas, hlp, h.sorted⟩
    · intro d hd
      simp only [Option.some.injEq] at hd
      subst hd
      exact dispOK_start h hlp
    · intro d hd; simp at hd
  | snapshot idx f =>
    simp only [stepE] at hs
    split at hs
    · cases hs
    · split at hs
      · rename_i hen
        simp only [Res.ok.injEq] at hs; subst hs
        exact { h with floorPos := by show 1 ≤ f; have := h.floorPos; omega }
      · cases hs

theorem inv_step {s : State} (h : Inv s) (st : Step) : Inv (step s st) := by
  unfold step
  cases hs : stepE s st with
  | ok s' => exact inv_stepE h hs
  | err e => exact h
  | panic => exact h

theorem inv_run {s : State} (h : Inv s) (steps : List Step) : Inv (run s steps) := by
  induction steps generalizing s with
  | nil => exact h
  | cons st rest ih => exact ih (inv_step h st)

/-! ### progress of the controller's dispatcher -/

theorem entryAt_of_bounds {raft : List Entry} {i : Nat} (h1 : 1 ≤ i) (h2 : i ≤ raft.length) :
    ∃ e, entryAt raft i = some e := by
  unfold entryAt
  have : ¬ i = 0 := by omega
  simp only [this, if_false]
  exact ⟨raft[i - 1]'(by omega), List.getElem?_eq_getElem (by omega)⟩

/-- A successful iteration of a dispatcher that is not behind the compaction floor. -/
theorem dispatchE_ok_eq {s : State} {d : Disp} {e : Entry} (hd : s.dispatcher = some d)
    (hc : s.crashed = false) (hf : s.floor ≤ d.next) (hp : 1 ≤ d.next) (hle : d.next ≤ s.raft.length)
    (he : entryAt s.raft d.next = some e) :
    dispatchE s 0 .ok = .ok (match eventOf e with
      | none => setDisp s 0 { next := d.next + 1, holding := false }
      | some act => setDisp (record (append s { id := d.next, op := act }) d.next) 0
                      { next := d.next + 1, holding := false }) := by
  unfold dispatchE
  have h1 : ¬ (d.next > s.raft.length) := by omega
  have h2 : (!d.holding && (decide (d.next < s.floor) || decide (d.next = 0))) = false := by
    have a : ¬ d.next < s.floor := by omega
    have b : ¬ d.next = 0 := by omega
    simp [a, b]
  simp only [hc, getDisp, hd, caughtUp_eval, h1, decide_false, h2, he, Bool.false_eq_true, if_false]
  cases eventOf e <;> simp [publishE]

theorem drive_publishes (n : Nat) : ∀ (s : State) (d : Disp) (j : Nat), s.dispatcher = some d →
    s.crashed = false → s.floor ≤ d.next → 1 ≤ d.next → d.next + n = j → j ≤ s.raft.length →
    evAt s.raft j = true → j ∈ ids (drive (n + 1) s) := by
  induction n with
  | zero =>
    intro s d j hd hc hf hp hj hjl hev
    have hj' : d.next = j := by omega
    subst hj'
    obtain ⟨e, act, he, ha⟩ := evAt_true_iff.mp hev
    have := dispatchE_ok_eq hd hc hf hp hjl he
    simp only [drive, step, stepE, this, ha]
    simp [ids, setDisp, record, append]
  | succ n ih =>
    intro s d j hd hc hf hp hj hjl hev
    have hle : d.next ≤ s.raft.length := by omega
    obtain ⟨e, he⟩ := entryAt_of_bounds hp hle
    have hE := dispatchE_ok_eq hd hc hf hp hle he
    have hdr : drive (n + 1 + 1) s = drive (n + 1) (step s (.dispatch 0 .ok)) := rfl
    rw [hdr]
    cases ha : eventOf e with
    | none =>
      rw [ha] at hE
      have hs : step s (.dispatch 0 .ok) = setDisp s 0 { next := d.next + 1, holding := false } := by
        simp only [step, stepE, hE]
      rw [hs]
      exact ih _ { next := d.next + 1, holding := false } j (by simp [setDisp]) (by simpa [setDisp] using hc)
        (by simp [setDisp]; omega) (by simp) (by simp; omega) (by simpa [setDisp] using hjl)
        (by simpa [setDisp] using hev)
    | some act =>
      rw [ha] at hE
      have hs : step s (.dispatch 0 .ok) = setDisp (record (append s { id := d.next, op := act }) d.next) 0
          { next := d.next + 1, holding := false } := by
        simp only [step, stepE, hE]
      rw [hs]
      refine ih _ { next := d.next + 1, holding := false } j (by simp [setDisp]) ?_ ?_ (by simp) (by simp; omega) ?_ ?_
      · simpa [setDisp, record, append] using hc
      · simp [setDisp, record, append]; omega
      · simp [setDisp, record, append]; omega
      · have : (setDisp (record (append s { id := d.next, op := act }) d.next) 0
            { next := d.next + 1, holding := false }).raft = s.raft ++ [paEntry d.next] := by
          simp [setDisp, record, append]
        rw [this]; exact evAt_append hev

/-! ### never reading below the compaction floor: which steps can break it -/

/-- Steps that cannot move a dispatcher below the compaction floor. The excluded ones are exactly:
a compaction that overtakes the recorded index or the running dispatcher; a restart / fail-over to
an FSM whose view of the recorded index (restored from a snapshot that does not carry it) lies
below the floor; a stale goroutine recording an old index. -/
def Gentle (s : State) : Step → Prop
  | .commit _ => True
  | .dispatch who o => who = 0 ∨ o = .pubFail ∨ o = .appended
  | .leaderChange view _ => s.floor ≤ viewOf s view + 1
  | .restart => s.floor ≤ restored s.snap s.raft + 1
  | .snapshot _ f => f ≤ s.lastPublished + 1 ∧ s.dispatcher.all (fun d => decide (f ≤ d.next)) = true

instance (s : State) (st : Step) : Decidable (Gentle s st) := by
  cases st <;> simp only [Gentle] <;> infer_instance

def GentleRun : State → List Step → Prop
  | _, [] => True
  | s, st :: rest => Gentle s st ∧ GentleRun (step s st) rest

instance decGentleRun : (s : State) → (l : List Step) → Decidable (GentleRun s l)
  | _, [] => isTrue trivial
  | s, st :: rest => by
    unfold GentleRun
    exact @instDecidableAnd _ _ _ (decGentleRun (step s st) rest)

structure NR (s : State) : Prop where
  lp : s.floor ≤ s.lastPublished + 1
  disp : ∀ d, s.dispatcher = some d → s.floor ≤ d.next

theorem nr_init (a : Bool) : NR (init a) := ⟨by simp [init], by simp [init]⟩

theorem nr_setDisp_zombie {s : State} (h : NR s) (k : Nat) (d : Disp) : NR (setDisp s (k + 1) d) :=
  ⟨by simpa [setDisp] using h.lp, by simpa [setDisp] using h.disp⟩

theorem nr_dispatchE {s s' : State} (h : NR s) {who : Nat} {o : Outcome}
    (hg : who = 0 ∨ o = .pubFail ∨ o = .appended) (hs : dispatchE s who o = .ok s') : NR s' := by
  unfold dispatchE at hs
  split at hs
  · cases hs
  · split at hs
    · cases hs
    · rename_i d hd
      split at hs
      · cases hs
      · split at hs
        · split at hs
          · simp only [Res.ok.injEq] at hs; subst hs
            exact ⟨h.lp, by simp⟩
          · cases hs
        · split at hs
          · cases hs
          · split at hs
            · simp only [Res.ok.injEq] at hs; subst hs
              cases who with
              | zero =>
                have := h.disp d hd
                exact ⟨by simpa [setDisp] using h.lp, by intro d' hd'; simp [setDisp] at hd'; subst hd'; simp; omega⟩
              | succ k => exact nr_setDisp_zombie h k _
            · rename_i act ha
              cases who with
              | zero =>
                have hfl := h.disp d hd
                have hlp := h.lp
                cases o <;> simp only [publishE, eventId_eq, Res.ok.injEq] at hs
                · subst hs; exact ⟨by simpa [setDisp] using hlp, by intro d' hd'; simp [setDisp] at hd'; subst hd'; simpa using hfl⟩
                · subst hs; exact ⟨by simpa [setDisp, append] using hlp, by intro d' hd'; simp [setDisp] at hd'; subst hd'; simpa [append] using hfl⟩
                · subst hs; exact ⟨by simp [setDisp, record, append]; omega, by intro d' hd'; simp [setDisp] at hd'; subst hd'; simpa [record, append] using hfl⟩
                · subst hs; exact ⟨by simp [setDisp, record, append]; omega, by intro d' hd'; simp [setDisp] at hd'; subst hd'; simp [record, append]; omega⟩
                · split at hs
                  · simp only [Res.ok.injEq] at hs; subst hs
                    exact ⟨by simp [setDisp, record]; omega, by intro d' hd'; simp [setDisp] at hd'; subst hd'; simp [record]; omega⟩
                  · cases hs
              | succ k =>
                rcases hg with hg | hg | hg
                · cases hg
                · subst hg; simp only [publishE, Res.ok.injEq] at hs; subst hs; exact nr_setDisp_zombie h k _
                · subst hg; simp only [publishE, Res.ok.injEq] at hs; subst hs
                  exact nr_setDisp_zombie (s := append s _) ⟨by simpa [append] using h.lp, by simpa [append] using h.disp⟩ k _

theorem nr_step {s : State} (h : NR s) {st : Step} (hg : Gentle s st) : NR (step s st) := by
  unfold step
  cases hs : stepE s st with
  | err e => exact h
  | panic => exact h
  | ok s' =>
    cases st with
    | commit e =>
      simp only [stepE] at hs
      split at hs
      · cases hs
      · simp only [Res.ok.injEq] at hs; subst hs; exact ⟨h.lp, h.disp⟩
    | dispatch who o => exact nr_dispatchE h hg hs
    | leaderChange view linger =>
      simp only [stepE, Res.ok.injEq] at hs; subst hs
      simp only [Gentle] at hg
      exact ⟨hg, by intro d hd; simp at hd; subst hd; simp [startDisp]; omega⟩
    | restart =>
      simp only [stepE, Res.ok.injEq] at hs; subst hs
      simp only [Gentle] at hg
      exact ⟨hg, by intro d hd; simp at hd; subst hd; simp [startDisp]; omega⟩
    | snapshot idx f =>
      simp only [stepE] at hs
      split at hs
      · cases hs
      · split at hs
        · simp only [Res.ok.injEq] at hs; subst hs
          refine ⟨hg.1, ?_⟩
          intro d hd
          have := hg.2
          rw [show s.dispatcher = some d from hd] at this
          simpa using this
        · cases hs

theorem nr_run {s : State} (h : NR s) (steps : List Step) (hg : GentleRun s steps) : NR (run s steps) := by
  induction steps generalizing s with
  | nil => exact h
  | cons st rest ih => exact ih (nr_step h hg.1) hg.2

/-! ### once wedged below the floor, retries and restarts never help -/

theorem replay_append_noPA (start : Nat) (l l' : List Entry) (h : ∀ e ∈ l', isPA e = false) :
    replay start (l ++ l') = replay start l := by
  induction l' using List.rec generalizing l with
  | nil => simp
  | cons e l' ih =>
    have : l ++ e :: l' = (l ++ [e]) ++ l' := by simp
    rw [this, ih (l ++ [e]) (fun x hx => h x (List.mem_cons_of_mem _ hx)),
      replay_append_nonPA _ _ _ (h e List.mem_cons_self)]

theorem restoredC_false_commit (snap : Nat) (raft : List Entry) (e : Entry) (h : isPA e = false) :
    restoredC false snap (raft ++ [e]) = restoredC false snap raft := by
  simp only [restoredC, Bool.false_eq_true, if_false, List.drop_append]
  apply replay_append_noPA
  intro x hx
  have := List.mem_of_mem_drop hx
  simp only [List.mem_singleton] at this
  subst this; exact h

/-- The controller is (or will after its next restart be) below the compaction floor. -/
structure Wedged (s : State) : Prop where
  nz : s.zombies = []
  lt : restoredC false s.snap s.raft + 1 < s.floor
  disp : ∀ d, s.dispatcher = some d → d = startDisp (restoredC false s.snap s.raft)

/-- Further operations, iterations of the controller's dispatcher (any outcome), restarts. -/
inductive Retry : Step → Prop where
  | commit (e : Entry) : Retry (.commit e)
  | dispatch (o : Outcome) : Retry (.dispatch 0 o)
  | restart : Retry .restart

theorem wedged_dispatch_cases {s : State} (h : Wedged s) (o : Outcome) :
    step s (.dispatch 0 o) = s ∨
    step s (.dispatch 0 o) = { s with crashed := true, dispatcher := none, zombies := [] } := by
  simp only [step, stepE]
  unfold dispatchE
  by_cases hcr : s.crashed = true
  · simp [hcr]
  simp only [hcr]
  cases hd : s.dispatcher with
  | none => simp [hd]
  | some d =>
    have hdd := h.disp d hd
    have hlt := h.lt
    simp only [getDisp_zero, hd, caughtUp_eval]
    by_cases hw : d.next > s.raft.length
    · simp [hw]
    · have hb : (!d.holding && (decide (d.next < s.floor) || decide (d.next = 0))) = true := by
        have hn : d.next = restoredC false s.snap s.raft + 1 := by rw [hdd]; rfl
        have hh : d.holding = false := by rw [hdd]; rfl
        have : d.next < s.floor := by omega
        simp [hh, this]
      right
      simp [hw, hb]

theorem wedged_step (hc : Gen.Activity.snapshotCarriesLastPublished = false) {s : State} (h : Wedged s)
    {st : Step} (hr : Retry st) : Wedged (step s st) ∧ (step s st).stream = s.stream := by
  cases hr with
  | commit e =>
    by_cases hp : isPA e = true
    · have : step s (.commit e) = s := by simp [step, stepE, hp]
      rw [this]; exact ⟨h, rfl⟩
    · have hp' : isPA e = false := by simpa using hp
      have : step s (.commit e) = { s with raft := s.raft ++ [e] } := by simp [step, stepE, hp']
      rw [this]
      refine ⟨⟨h.nz, ?_, ?_⟩, rfl⟩
      · show restoredC false s.snap (s.raft ++ [e]) + 1 < s.floor
        rw [restoredC_false_commit _ _ _ hp']; exact h.lt
      · intro d hd
        show d = startDisp (restoredC false s.snap (s.raft ++ [e]))
        rw [restoredC_false_commit _ _ _ hp']; exact h.disp d hd
  | dispatch o =>
    rcases wedged_dispatch_cases h o with hk | hk <;> rw [hk]
    · exact ⟨h, rfl⟩
    · exact ⟨⟨rfl, h.lt, by simp⟩, rfl⟩
  | restart =>
    have : step s .restart = (⟨s.raft, s.floor, s.snap, restored s.snap s.raft, s.stream,
        some (startDisp (restored s.snap s.raft)), [], false, s.ackNone⟩ : State) := rfl
    rw [this]
    refine ⟨⟨rfl, h.lt, ?_⟩, rfl⟩
    intro d hd
    simp only [Option.some.injEq] at hd
    subst hd
    simp [restored, hc]

theorem wedged_run (hc : Gen.Activity.snapshotCarriesLastPublished = false) {s : State} (h : Wedged s)
    (steps : List Step) (hr : ∀ st ∈ steps, Retry st) :
    Wedged (run s steps) ∧ (run s steps).stream = s.stream := by
  induction steps generalizing s with
  | nil => exact ⟨h, rfl⟩
  | cons st rest ih =>
    have h1 := wedged_step hc h (hr st List.mem_cons_self)
    have h2 := ih h1.1 (fun x hx => hr x (List.mem_cons_of_mem _ hx))
    exact ⟨h2.1, by rw [show run s (st :: rest) = run (step s st) rest from rfl, h2.2, h1.2]⟩

end Liftbridge.Activity
