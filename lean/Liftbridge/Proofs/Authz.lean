/-
Helper lemmas for C15: the syntactic decision procedure of Model/Authz.lean
(`Handler.checkedFirst`, `Handler.violates`) is sound with respect to `run` for EVERY
policy. Nothing here depends on the regenerated table.
-/
import Liftbridge.Model.Authz

namespace Liftbridge.Authz

/-- `paths` consults the policy only at the keys of the skeleton. -/
theorem paths_congr (allow allow' : Res → Act → Bool) :
    ∀ s : Stmt, (∀ k ∈ keys s, allow k.1 k.2 = allow' k.1 k.2) → paths allow s = paths allow' s := by
  intro s
  induction s with
  | skip => intro _; rfl
  | check r a d ih =>
    intro h
    have h0 : allow r a = allow' r a := h (r, a) (by simp [keys])
    have hd : paths allow d = paths allow' d := ih (fun k hk => h k (by simp [keys, hk]))
    simp [paths, h0, hd]
  | effect k => intro _; rfl
  | report => intro _; rfl
  | ret r => intro _; rfl
  | cont => intro _; rfl
  | seq a b iha ihb =>
    intro h
    have ha := iha (fun k hk => h k (by simp [keys, hk]))
    have hb := ihb (fun k hk => h k (by simp [keys, hk]))
    simp [paths, ha, hb]
  | ite t e iht ihe =>
    intro h
    have ht := iht (fun k hk => h k (by simp [keys, hk]))
    have he := ihe (fun k hk => h k (by simp [keys, hk]))
    simp [paths, ht, he]
  | loop f b ih =>
    intro h
    have hb := ih (fun k hk => h k (by simp [keys, hk]))
    simp [paths, hb]
  | call b ih =>
    intro h
    have hb := ih (fun k hk => h k (by simp [keys, hk]))
    simp [paths, hb]

/-- "no effect on any path and refused on every path", in terms of `run`. -/
theorem run_clean_iff (pol : Policy) (cl : Client) (s : Stmt) :
    ((run pol cl s).effects = [] ∧ (run pol cl s).denied = true) ↔ safeUnder (pol cl) s = true := by
  simp only [run, safeUnder, List.flatMap_eq_nil_iff, List.all_eq_true, Bool.and_eq_true,
    List.isEmpty_iff]
  constructor
  · intro ⟨h1, h2⟩ p hp; exact ⟨h1 p hp, h2 p hp⟩
  · intro h; exact ⟨fun p hp => (h p hp).1, fun p hp => (h p hp).2⟩

/-- If every check of the body is the handler's own and the policy denies it, the body runs
exactly as under the deny-all policy. -/
theorem paths_denied_eq (h : Handler) (allow : Res → Act → Bool)
    (hk : h.onlyOwnKey = true) (hden : allow h.res h.act = false) :
    paths allow h.body = paths denyAll h.body := by
  apply paths_congr
  intro k hkm
  simp only [Handler.onlyOwnKey, List.all_eq_true, Bool.and_eq_true, beq_iff_eq] at hk
  obtain ⟨h1, h2⟩ := hk k hkm
  simp [denyAll, h1, h2, hden]

/-- Soundness of `checkedFirst`, for every policy and client. -/
theorem checkedFirst_sound (h : Handler) (hc : h.checkedFirst = true)
    (pol : Policy) (cl : Client) (hden : ¬ pol cl h.res h.act = true) :
    (run pol cl h.body).effects = [] ∧ (run pol cl h.body).denied = true := by
  simp only [Handler.checkedFirst, Bool.and_eq_true] at hc
  have hd : pol cl h.res h.act = false := by simpa using hden
  have e := paths_denied_eq h (pol cl) hc.1 hd
  rw [run_clean_iff]
  simp only [safeUnder] at hc ⊢
  rw [e]; exact hc.2

/-- A handler that `violates` fails the property under the deny-all policy. -/
theorem violates_witness (h : Handler) (hv : h.violates = true) (cl : Client) :
    ¬ ((run (fun _ _ _ => false) cl h.body).effects = [] ∧
        (run (fun _ _ _ => false) cl h.body).denied = true) := by
  intro hcl
  rw [run_clean_iff] at hcl
  simp only [Handler.violates, Bool.not_eq_true'] at hv
  have : safeUnder denyAll h.body = true := hcl
  rw [this] at hv
  cases hv

end Liftbridge.Authz
