/-
Helper lemmas for C15: the syntactic decision procedure of Model/Authz.lean
(`Handler.checkedFirst`, `Handler.violates`) is sound with respect to `run` for EVERY
policy. Nothing here depends on the regenerated table.
-/
import Liftbridge.Model.Authz

namespace Liftbridge.Authz

/-- `paths` consults the policy only at the keys of the skeleton. -/
theorem paths_congr (allow allow' : Res → Act → Bool) :
    ∀ s : Stmt, (∀ k ∈ keys s, allow k.1 k.2 = allow' k.1 k.2) → paths allow s = paths allow' s := by
  intro s
  induction s with
  | skip => intro _; rfl
  | check r a d ih =>
    intro h
    have h0 : allow r a = allow' r a := h (r, a) (by simp [keys])
    have hd : paths allow d = paths allow' d := ih (fun k hk => h k (by simp [keys, hk]))
    simp [paths, h0, hd]
  | effect k => intro _; rfl
  | report => intro _; rfl
  | ret r => intro _; rfl
  | cont => intro _; rfl
  | seq a b iha ihb =>
    intro h
    have ha := iha (fun k hk => h k (by simp [keys, hk]))
    have hb := ihb (fun k hk => h k (by simp [keys, hk]))
    simp [paths, ha, hb]
  | ite t e iht ihe =>
    intro h
    have ht := iht (fun k hk => h k (by simp [keys, hk]))
    have he := ihe (fun k hk => h k (by simp [keys, hk]))
    simp [paths, ht, he]
  | loop f b ih =>
    intro h
    have hb := ih (fun k hk => h k (by simp [keys, hk]))
    simp [paths, hb]
  | call b ih =>
    intro h
    have hb := ih (fun k hk => h k (by simp [keys, hk]))
    simp [paths, hb]

/-- "no effect on any path and refused on every path", in terms of `runWith`. -/
theorem runWith_clean_iff (allow : Res → Act → Bool) (s : Stmt) :
    ((runWith allow s).effects = [] ∧ (runWith allow s).denied = true) ↔ safeUnder allow s = true := by
  simp only [runWith, safeUnder, List.flatMap_eq_nil_iff, List.all_eq_true, Bool.and_eq_true,
    List.isEmpty_iff]
  constructor
  · intro ⟨h1, h2⟩ p hp; exact ⟨h1 p hp, h2 p hp⟩
  · intro h; exact ⟨fun p hp => (h p hp).1, fun p hp => (h p hp).2⟩

/-- "no effect on any path and refused on every path", in terms of `run`. -/
theorem run_clean_iff (pol : Policy) (cl : Client) (s : Stmt) :
    ((run pol cl s).effects = [] ∧ (run pol cl s).denied = true) ↔ safeUnder (pol cl) s = true :=
  runWith_clean_iff (pol cl) s

/-- If every check of the body is the handler's own and the policy denies it, the body runs
exactly as under the deny-all policy. -/
theorem paths_denied_eq (h : Handler) (allow : Res → Act → Bool)
    (hk : h.onlyOwnKey = true) (hden : allow h.res h.act = false) :
    paths allow h.body = paths denyAll h.body := by
  apply paths_congr
  intro k hkm
  simp only [Handler.onlyOwnKey, List.all_eq_true, Bool.and_eq_true, beq_iff_eq] at hk
  obtain ⟨h1, h2⟩ := hk k hkm
  simp [denyAll, h1, h2, hden]

/-- Soundness of `checkedFirst` for ANY source of answers (`allow` may be the policy alone or
the whole of `ensureAuthorizationPermission`): if the handler's own question is answered
"no", nothing happens and every path refuses. -/
theorem checkedFirst_sound_with (h : Handler) (hc : h.checkedFirst = true)
    (allow : Res → Act → Bool) (hden : allow h.res h.act = false) :
    (runWith allow h.body).effects = [] ∧ (runWith allow h.body).denied = true := by
  simp only [Handler.checkedFirst, Bool.and_eq_true] at hc
  have e := paths_denied_eq h allow hc.1 hden
  rw [runWith_clean_iff]
  simp only [safeUnder] at hc ⊢
  rw [e]; exact hc.2

/-- Soundness of `checkedFirst`, for every policy and client. -/
theorem checkedFirst_sound (h : Handler) (hc : h.checkedFirst = true)
    (pol : Policy) (cl : Client) (hden : ¬ pol cl h.res h.act = true) :
    (run pol cl h.body).effects = [] ∧ (run pol cl h.body).denied = true := by
  simp only [Handler.checkedFirst, Bool.and_eq_true] at hc
  have hd : pol cl h.res h.act = false := by simpa using hden
  have e := paths_denied_eq h (pol cl) hc.1 hd
  rw [run_clean_iff]
  simp only [safeUnder] at hc ⊢
  rw [e]; exact hc.2

/-- A handler that `violates` fails the property under the deny-all policy. -/
theorem violates_witness (h : Handler) (hv : h.violates = true) (cl : Client) :
    ¬ ((run (fun _ _ _ => false) cl h.body).effects = [] ∧
        (run (fun _ _ _ => false) cl h.body).denied = true) := by
  intro hcl
  rw [run_clean_iff] at hcl
  simp only [Handler.violates, Bool.not_eq_true'] at hv
  have : safeUnder denyAll h.body = true := hcl
  rw [this] at hv
  cases hv

-- ---------------------------------------------------------------- the decision tree

theorem Cmp.evalNat_zero_class (c : Cmp) (n : Nat) :
    c.evalNat n 0 = c.evalNat (if n = 0 then 0 else 1) 0 := by
  cases n with
  | zero => simp
  | succ k => cases c <;> simp [Cmp.evalNat]

/-- The tree depends on the identity only through "present" and "non-empty". -/
theorem DCond.eval_bits (i : DIn) (c : DCond) :
    c.eval i = c.evalB i.enabled i.ident.isSome (decide ((i.ident.getD "").length ≠ 0)) i.enfErr i.enfOk := by
  cases c with
  | idVsEmpty c =>
    simp only [DCond.eval, DCond.evalB]
    rw [Cmp.evalNat_zero_class]
    cases hi : i.ident with
    | none => simp
    | some s =>
      by_cases h0 : s.length = 0 <;> simp [h0]
  | _ => rfl

theorem DTree.eval_bits (i : DIn) (t : DTree) :
    t.eval i = t.evalB i.enabled i.ident.isSome (decide ((i.ident.getD "").length ≠ 0)) i.enfErr i.enfOk := by
  induction t with
  | ret o => rfl
  | lost => rfl
  | ite c t e iht ihe => simp only [DTree.eval, DTree.evalB, DCond.eval_bits, iht, ihe]

-- ---------------------------------------------------------------- sessions

/-- Induction over the messages of a session (any length): whatever the loop did for a
message that was not granted — an effect, or no refusal — cannot happen when the loop body
asks its own permission first and stops on a denial. Every `Did` of every execution
therefore belongs to a message whose (client, stream, action) entry was in the policy in
force when that message was processed. -/
theorem sessions_sound (h : Handler) (hc : h.checkedFirst = true) (cl : Client) :
    ∀ (msgs : List Msg) (i0 : Nat), ∀ tr ∈ sessions h.res cl h.body i0 msgs, ∀ d ∈ tr,
      (d.effects ≠ [] ∨ d.refused = false) →
      ∃ k m, d.idx = i0 + k ∧ msgs[k]? = some m ∧ m.pol cl m.stream h.act = true := by
  simp only [Handler.checkedFirst, Bool.and_eq_true] at hc
  intro msgs
  induction msgs with
  | nil =>
    intro i0 tr htr d hd
    simp [sessions] at htr
    subst htr
    cases hd
  | cons m ms ih =>
    intro i0 tr htr d hd hbad
    simp only [sessions, List.mem_flatMap] at htr
    obtain ⟨p, hp, htr⟩ := htr
    -- the head message
    have head : d = ⟨i0, p.effects, p.refusal⟩ →
        ∃ k m', d.idx = i0 + k ∧ (m :: ms)[k]? = some m' ∧ m'.pol cl m'.stream h.act = true := by
      intro hd0
      by_cases hg : m.pol cl m.stream h.act = true
      · exact ⟨0, m, by simp [hd0], by simp, hg⟩
      · exfalso
        have hden : m.allow h.res cl h.res h.act = false := by
          simp [Msg.allow]; simpa using hg
        have e := paths_denied_eq h (m.allow h.res cl) hc.1 hden
        rw [e] at hp
        have hs := hc.2
        simp only [safeUnder, List.all_eq_true, Bool.and_eq_true, List.isEmpty_iff] at hs
        obtain ⟨he, hr⟩ := hs p hp
        subst hd0
        rcases hbad with hb | hb
        · exact hb he
        · simp [hr] at hb
    -- the rest of the session
    have tail : ∀ tr', tr' ∈ sessions h.res cl h.body (i0 + 1) ms → d ∈ tr' →
        ∃ k m', d.idx = i0 + k ∧ (m :: ms)[k]? = some m' ∧ m'.pol cl m'.stream h.act = true := by
      intro tr' htr' hd'
      obtain ⟨k, m', hk, hm, hg⟩ := ih (i0 + 1) tr' htr' d hd' hbad
      exact ⟨k + 1, m', by omega, by simpa using hm, hg⟩
    split at htr
    · simp at htr
      subst htr
      simp at hd
      exact head hd
    · simp only [List.mem_map] at htr
      obtain ⟨tr', htr', rfl⟩ := htr
      rcases List.mem_cons.mp hd with hd0 | hd'
      · exact head hd0
      · exact tail tr' htr' hd'

end Liftbridge.Authz
