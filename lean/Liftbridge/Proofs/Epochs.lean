/-
Leader-epoch cache (server/commitlog/leader_epoch_cache.go, `Epochs` of Model/Log.lean):
order invariant kept by `assign` / `clearLatest` / `clearEarliest`, and the specification of the
binary-search lookups `findEpoch` / `lastOffsetFor` (through `goSearch_spec`).
-/
import Liftbridge.Model.Log
import Liftbridge.Proofs.LogBasic

namespace Liftbridge.Proofs.Epochs
open Liftbridge Liftbridge.Log Liftbridge.Proofs.Log

/-- The cache is strictly increasing in epoch and non-decreasing in start offset. -/
def EpochsOK (c : Epochs) : Prop := c.Pairwise (fun a b => a.1 < b.1 ∧ a.2 ≤ b.2)

theorem epochsOK_nil : EpochsOK [] := List.Pairwise.nil

theorem latest_of_concat (c : Epochs) (p : Nat × Int) :
    Epochs.latestEpoch (c ++ [p]) = p.1 ∧ Epochs.latestOffset (c ++ [p]) = p.2 := by
  simp [Epochs.latestEpoch, Epochs.latestOffset]

/-- Every entry is bounded by the latest one. -/
theorem le_latest {c : Epochs} (h : EpochsOK c) {a : Nat × Int} (ha : a ∈ c) :
    a.1 ≤ c.latestEpoch ∧ a.2 ≤ c.latestOffset := by
  rcases List.eq_nil_or_concat c with rfl | ⟨init, last, rfl⟩
  · simp at ha
  · rw [List.concat_eq_append] at h ha ⊢
    rw [(latest_of_concat init last).1, (latest_of_concat init last).2]
    rcases List.mem_append.mp ha with hi | hl
    · have := (List.pairwise_append.mp h).2.2 a hi last (by simp)
      exact ⟨Nat.le_of_lt this.1, this.2⟩
    · simp at hl; subst hl; exact ⟨Nat.le_refl _, Int.le_refl _⟩

/-- `assign` keeps the cache ordered (it silently refuses anything else). -/
theorem assign_ok {c : Epochs} (h : EpochsOK c) (e : Nat) (o : Int) : EpochsOK (c.assign e o) := by
  unfold Epochs.assign
  split
  · rename_i hc
    simp only [Gen.Log.assignEpochCmp, Gen.Log.assignOffsetCmp, Cmp.evalNat, Cmp.evalInt, Bool.and_eq_true,
      decide_eq_true_eq] at hc
    refine List.pairwise_append.mpr ⟨h, List.pairwise_singleton _ _, ?_⟩
    intro a ha b hb
    simp only [List.mem_singleton] at hb
    subst hb
    have := le_latest h ha
    exact ⟨by simp only; omega, by simp only; omega⟩
  · exact h

/-- What `assign` does: appends exactly when the epoch is newer and the offset not smaller. -/
theorem assign_eq (c : Epochs) (e : Nat) (o : Int) :
    c.assign e o = if c.latestEpoch < e ∧ c.latestOffset ≤ o then c ++ [(e, o)] else c := by
  unfold Epochs.assign
  simp only [Gen.Log.assignEpochCmp, Gen.Log.assignOffsetCmp, Cmp.evalNat, Cmp.evalInt, Bool.and_eq_true,
    decide_eq_true_eq, gt_iff_lt, ge_iff_le]

theorem clearLatest_ok {c : Epochs} (h : EpochsOK c) (o : Int) : EpochsOK (c.clearLatest o) := by
  unfold Epochs.clearLatest
  split
  · exact h
  · exact h.filter _

/-- On an ordered cache the entries below an offset form a prefix. -/
theorem filter_lt_split {c : Epochs} (h : EpochsOK c) (o : Int) :
    c.filter (fun e => decide (e.2 < o)) = c.take (c.filter (fun e => decide (e.2 < o))).length ∧
    ∀ b ∈ c.drop (c.filter (fun e => decide (e.2 < o))).length, o ≤ b.2 := by
  induction c with
  | nil => simp
  | cons x xs ih =>
    have hx := List.pairwise_cons.mp h
    by_cases hlt : x.2 < o
    · have := ih hx.2
      simp only [List.filter_cons, hlt, decide_true, if_true, List.length_cons, List.take_succ_cons,
        List.drop_succ_cons]
      exact ⟨by rw [← this.1], this.2⟩
    · have hnil : xs.filter (fun e => decide (e.2 < o)) = [] := by
        apply List.filter_eq_nil_iff.mpr
        intro a ha
        have := (hx.1 a ha).2
        simp only [decide_eq_true_eq]; omega
      simp only [List.filter_cons, hlt, decide_false, hnil]
      refine ⟨by simp, ?_⟩
      intro b hb
      rcases List.mem_cons.mp hb with rfl | hb
      · omega
      · have := (hx.1 b hb).2; omega

theorem clearEarliest_ok {c : Epochs} (h : EpochsOK c) (o : Int) : EpochsOK (c.clearEarliest o) := by
  unfold Epochs.clearEarliest
  split
  · exact h
  · simp only
    have hsp := filter_lt_split h o
    generalize hk : (c.filter (fun e => decide (e.2 < o))).length = k at hsp
    have hrest : EpochsOK (c.drop k) := h.sublist (List.drop_sublist _ _)
    split
    · exact h
    · rename_i lastE hl
      split
      · refine List.pairwise_cons.mpr ⟨?_, hrest⟩
        intro b hb
        have hmem : lastE ∈ c.take k := by
          rw [← hsp.1]; exact List.mem_of_getLast? hl
        have hc : c = c.take k ++ c.drop k := (List.take_append_drop k c).symm
        have hp := h
        rw [hc] at hp
        have := (List.pairwise_append.mp hp).2.2 lastE hmem b hb
        exact ⟨this.1, hsp.2 b hb⟩
      · exact hrest

/-! ### lookups -/

theorem findEpoch_searchOpt (c : Epochs) (e : Nat) :
    c.findEpoch e = (searchOpt c (fun x => Gen.Log.findEpochCmp.evalNat x.1 e)).bind (fun i => c[i]?) := by
  unfold Epochs.findEpoch searchOpt
  simp only
  generalize hA : goSearch c.length _ = a
  generalize hB : goSearch c.length _ = b
  have hab : a = b := by
    rw [← hA, ← hB]
    congr 1
    funext i
    cases c[i]? <;> rfl
  subst hab
  by_cases hr : a = c.length
  · simp [hr]
  · simp [hr]

/-- `findEpoch e` = the first entry whose epoch is at least `e` (on an ordered cache the literal
`sort.Search` finds it). -/
theorem findEpoch_spec {c : Epochs} (h : EpochsOK c) (e : Nat) :
    c.findEpoch e = c.find? (fun x => decide (e ≤ x.1)) := by
  rw [findEpoch_searchOpt]
  have hq : (fun x : Nat × Int => Gen.Log.findEpochCmp.evalNat x.1 e) = (fun x => decide (e ≤ x.1)) := by
    funext x; simp [Gen.Log.findEpochCmp, Cmp.evalNat]
  rw [hq]
  have mono : Mono c (fun x => decide (e ≤ x.1)) := by
    unfold Mono
    refine List.Pairwise.imp ?_ h
    intro a b hab ha
    simp only [decide_eq_true_eq] at ha ⊢
    omega
  by_cases hex : ∃ a ∈ c, (fun x : Nat × Int => decide (e ≤ x.1)) a = true
  · obtain ⟨pre, x, post, hx, hqx, hpre⟩ := exists_first_split c _ hex
    rw [searchOpt_of_split mono hx hqx hpre]
    subst hx
    simp only [Option.bind_some, List.getElem?_append_right (Nat.le_refl _), Nat.sub_self, List.getElem?_cons_zero]
    rw [List.find?_append]
    have : pre.find? (fun x => decide (e ≤ x.1)) = none := by
      apply List.find?_eq_none.mpr
      intro a ha
      have := hpre a ha
      simpa using this
    rw [this]
    simp only [Option.none_or, List.find?_cons]
    rw [hqx]
  · have hall : ∀ a ∈ c, (fun x : Nat × Int => decide (e ≤ x.1)) a = false := by
      intro a ha
      cases hq : (fun x : Nat × Int => decide (e ≤ x.1)) a with
      | false => rfl
      | true => exact absurd ⟨a, ha, hq⟩ hex
    rw [searchOpt_none hall]
    simp only [Option.bind_none]
    symm
    apply List.find?_eq_none.mpr
    intro a ha
    have := hall a ha
    simpa using this

/-- `LastOffsetForLeaderEpoch` of the cache: the start offset recorded for the first epoch greater
than `e`, or the sentinel -1 when there is none. -/
theorem lastOffsetFor_spec {c : Epochs} (h : EpochsOK c) (e : Nat) :
    c.lastOffsetFor e = match c.find? (fun x => decide (e < x.1)) with
      | some x => x.2
      | none => -1 := by
  unfold Epochs.lastOffsetFor
  rw [findEpoch_spec h]
  have : (fun x : Nat × Int => decide (e + 1 ≤ x.1)) = (fun x => decide (e < x.1)) := by
    funext x; simp [Nat.succ_le_iff]
  rw [this]
  rfl

end Liftbridge.Proofs.Epochs
