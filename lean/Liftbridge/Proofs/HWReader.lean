/- Invariants of the small-step committed-reader model (C03). -/
import Liftbridge.Model.HWReader
import Liftbridge.Proofs.Log
import Liftbridge.Proofs.LogRead
namespace Liftbridge.Proofs.HWReader
open Liftbridge Liftbridge.Log Liftbridge.Log.CLog Liftbridge.HWReader Liftbridge.Proofs.Log

/-! ### Lookups: what a successful search means -/

theorem searchOpt_some {α} {xs : List α} {q : α → Bool} (mono : Mono xs q) {k : Nat}
    (h : searchOpt xs q = some k) :
    ∃ pre x post, xs = pre ++ x :: post ∧ pre.length = k ∧ q x = true ∧ ∀ a ∈ pre, q a = false := by
  by_cases hex : ∃ a ∈ xs, q a = true
  · obtain ⟨pre, x, post, hx, hq, hpre⟩ := exists_first_split xs q hex
    have := searchOpt_of_split mono hx hq hpre
    rw [h] at this
    injection this with this
    exact ⟨pre, x, post, hx, this.symm, hq, hpre⟩
  · have : searchOpt xs q = none := by
      apply searchOpt_none
      intro a ha
      cases hq : q a with
      | false => rfl
      | true => exact absurd ⟨a, ha, hq⟩ hex
    rw [this] at h
    cases h

theorem seg_split {α} {xs : List α} {i : Nat} {x : α} (h : xs[i]? = some x) :
    xs = xs.take i ++ x :: xs.drop (i + 1) := by
  obtain ⟨hi, hx⟩ := List.getElem?_eq_some_iff.mp h
  have := List.drop_eq_getElem_cons hi
  rw [hx] at this
  rw [← this, List.take_append_drop]

theorem length_take_of_get {α} {xs : List α} {i : Nat} {x : α} (h : xs[i]? = some x) :
    (xs.take i).length = i := by
  obtain ⟨hi, _⟩ := List.getElem?_eq_some_iff.mp h
  simp; omega

theorem mem_take_get {α} {xs : List α} {i : Nat} {a : α} (h : a ∈ xs.take i) :
    ∃ j, j < i ∧ xs[j]? = some a := by
  obtain ⟨j, hj, rfl⟩ := List.mem_iff_getElem.mp h
  have hj' : j < i ∧ j < xs.length := by
    have := hj
    simp only [List.length_take] at this
    omega
  exact ⟨j, hj'.1, by simp [List.getElem_take, List.getElem?_eq_getElem hj'.2]⟩

theorem get_mem_take {α} {xs : List α} {i j : Nat} {a : α} (hj : j < i) (h : xs[j]? = some a) :
    a ∈ xs.take i := by
  obtain ⟨hl, rfl⟩ := List.getElem?_eq_some_iff.mp h
  apply List.mem_iff_getElem.mpr
  exact ⟨j, by simp; omega, by simp [List.getElem_take]⟩

/-- `findSegment` found segment `i`: it ends above `o`, every earlier one ends at or below. -/
theorem findSegmentIdx_some {segs : List Seg} (wf : WFC segs) {o : Int} {i : Nat}
    (h : findSegmentIdx segs o = some i) :
    ∃ x, segs[i]? = some x ∧ o < x.nextOffset ∧ ∀ a ∈ segs.take i, a.nextOffset ≤ o := by
  rw [findSegmentIdx_eq] at h
  obtain ⟨pre, x, post, hx, hlen, hq, hpre⟩ := searchOpt_some (wf.mono_next o) h
  subst hlen
  refine ⟨x, getElem?_split hx, by simpa [Gen.Log.findSegmentCmp, Cmp.evalInt] using hq, ?_⟩
  intro a ha
  rw [hx, List.take_left' rfl] at ha
  have := hpre a ha
  simp only [Gen.Log.findSegmentCmp, Cmp.evalInt, decide_eq_false_iff_not] at this
  omega

/-- `findEntry` found slot `k`: the first record at or above `o`. -/
theorem findEntryIdx_some {s : Seg} (ok : SegOK s) {o : Int} {k : Nat}
    (h : s.findEntryIdx o = some k) :
    k < s.recs.length ∧ (∀ a ∈ s.recs.take k, a.offset < o) ∧ (∀ a ∈ s.recs.drop k, o ≤ a.offset) := by
  rw [findEntryIdx_eq] at h
  obtain ⟨rp, r, rq, hx, hlen, hq, hpre⟩ := searchOpt_some (ok.mono_entry o) h
  subst hlen
  have hsr := sorted_split (by have := ok.sorted; rwa [hx] at this)
  have hr : o ≤ r.offset := by simpa [Gen.Log.findEntryCmp, Cmp.evalInt] using hq
  refine ⟨by simp [hx], ?_, ?_⟩
  · rw [hx, List.take_left' rfl]
    intro a ha
    have := hpre a ha
    simp only [Gen.Log.findEntryCmp, Cmp.evalInt, decide_eq_false_iff_not] at this
    omega
  · rw [hx, List.drop_left' rfl]
    intro a ha
    rcases List.mem_cons.mp ha with rfl | ha
    · exact hr
    · have := hsr.2 a ha; omega

/-- A non-empty segment ending above `o` has a first record at or above `o`. -/
theorem findEntryIdx_exists {s : Seg} (ok : SegOK s) {o : Int} (hn : o < s.nextOffset)
    (hne : s.recs ≠ []) : ∃ k, s.findEntryIdx o = some k := by
  have hex : ∃ a ∈ s.recs, decide (o ≤ a.offset) = true := by
    rcases List.eq_nil_or_concat s.recs with h | ⟨init, z, h⟩
    · exact absurd h hne
    · rw [List.concat_eq_append] at h
      have hz : 0 ≤ z.offset := by
        have := ok.base_le z (by simp [h]); have := ok.base_nonneg; omega
      rw [nextOffset_concat h hz] at hn
      exact ⟨z, by simp [h], by simp; omega⟩
  obtain ⟨rp, r, rq, hx, hq, hpre⟩ := exists_first_split s.recs _ hex
  refine ⟨rp.length, findEntryIdx_of_split ok hx (by simpa using hq) ?_⟩
  intro a ha
  have := hpre a ha
  simp only [decide_eq_false_iff_not] at this
  omega

/-- `getHWPos` succeeded with (segment `i`, slot `k`): everything before that position is at or
below the HW, everything from it on is above (whether or not the HW message is retained). -/
theorem hwPos_ok {segs : List Seg} (wf : WFC segs) {hw : Int} {i k : Nat}
    (h : hwPos segs hw = .ok (i, k)) :
    ∃ sh, segs[i]? = some sh ∧ k ≤ sh.recs.length ∧
      (∀ a ∈ segs.take i, a.nextOffset ≤ hw) ∧
      (∀ x ∈ sh.recs.take k, x.offset ≤ hw) ∧ (∀ x ∈ sh.recs.drop k, hw < x.offset) ∧
      hw < sh.nextOffset := by
  unfold hwPos at h
  cases hf : findSegmentIdx segs hw with
  | none => simp [hf] at h
  | some i' =>
    obtain ⟨x, hx, hn, hpre⟩ := findSegmentIdx_some wf hf
    simp only [hf, hx] at h
    cases he : x.findEntryIdx hw with
    | none => simp [he] at h
    | some k' =>
      have okx := wf.segOK (List.mem_of_getElem? hx)
      obtain ⟨hk, htake, hdrop⟩ := findEntryIdx_some okx he
      have hget : x.recs[k']? = some x.recs[k'] := List.getElem?_eq_getElem hk
      have hsp := seg_split hget
      have hsr := sorted_split (by have := okx.sorted; rwa [hsp] at this)
      have hd := List.drop_eq_getElem_cons hk
      have hge : hw ≤ x.recs[k'].offset := hdrop x.recs[k'] (by rw [hd]; exact List.mem_cons.mpr (Or.inl rfl))
      simp only [he, hget, Gen.Log.hwGoneCheck, Bool.true_and] at h
      by_cases hgt : x.recs[k'].offset > hw
      · simp only [hgt, decide_true, if_true] at h
        injection h with h
        injection h with h1 h2
        subst h1 h2
        refine ⟨x, hx, by omega, hpre, ?_, ?_, hn⟩
        · intro a ha; have := htake a ha; omega
        · intro a ha
          rw [List.drop_eq_getElem_cons hk] at ha
          rcases List.mem_cons.mp ha with rfl | ha
          · omega
          · have := hsr.2 a ha; omega
      · simp only [hgt, decide_false, if_false] at h
        injection h with h
        injection h with h1 h2
        subst h1 h2
        refine ⟨x, hx, by omega, hpre, ?_, ?_, hn⟩
        · intro a ha
          rw [List.take_add_one, hget] at ha
          rcases List.mem_append.mp ha with ha | ha
          · have := htake a ha; omega
          · simp at ha; subst ha; omega
        · intro a ha
          have := hsr.2 a ha; omega

/-- `getHWPos` only fails with these two errors. -/
theorem hwPos_err {segs : List Seg} {hw : Int} {e : String} (h : hwPos segs hw = .err e) :
    e = "segment-not-found" ∨ e = "entry-not-found" := by
  unfold hwPos at h
  repeat' split at h
  all_goals first | (injection h with h; simp [← h]) | cases h

theorem hwPos_no_panic {segs : List Seg} {hw : Int} : hwPos segs hw ≠ .panic := by
  unfold hwPos
  intro h
  repeat' split at h
  all_goals cases h

/-- The segment hop of `readLoop` on ANY snapshot that reaches beyond segment `i` lands on
segment `i + 1`. -/
theorem hop_next {segs : List Seg} (wf : WFC segs) {i n : Nat} {sg : Seg}
    (hs : segs[i]? = some sg) (hi : i + 1 < n) (hn : n ≤ segs.length) :
    findSegmentByBaseIdx (segs.take n) (sg.base + 1) = some (i + 1) := by
  have wft : WFC (segs.take n) := by
    have := wf; rw [← List.take_append_drop n segs] at this; exact this.of_append
  have ht : (segs.take n)[i]? = some sg := by rw [List.getElem?_take]; simp [hs]; omega
  have hlen : (segs.take n).length = n := by simp; omega
  obtain ⟨b, hb⟩ : ∃ b, (segs.take n)[i + 1]? = some b :=
    ⟨(segs.take n)[i + 1]'(by omega), List.getElem?_eq_getElem (by omega)⟩
  have hsp := seg_split ht
  have hd : (segs.take n).drop (i + 1) = b :: (segs.take n).drop (i + 1 + 1) := by
    obtain ⟨hl, hbx⟩ := List.getElem?_eq_some_iff.mp hb
    rw [List.drop_eq_getElem_cons hl, hbx]
  have hsp' : segs.take n = ((segs.take n).take i ++ [sg]) ++ b :: (segs.take n).drop (i + 1 + 1) := by
    conv => lhs; rw [hsp, hd]
    simp
  have hsplit := wft.split hsp
  have := findSegmentByBaseIdx_of_split wft hsp' (o := sg.base + 1)
    (by have := (hsplit.2 b (by rw [hd]; simp)).2; omega)
    (by
      intro a ha
      rcases List.mem_append.mp ha with ha | ha
      · have := (hsplit.1 a ha).2; omega
      · simp at ha; subst ha; omega)
  rw [this]
  simp [length_take_of_get ht]

/-! ### Positions in the log -/

/-- The records before slot `k` of segment `i`, in log order. -/
def before (segs : List Seg) (i k : Nat) : List Rec :=
  (segs.take i).flatMap Seg.recs ++ (match segs[i]? with | some s => s.recs.take k | none => [])

theorem abs_split {l : CLog} {i : Nat} {sg : Seg} (hs : l.segs[i]? = some sg) (k : Nat) :
    l.abs = before l.segs i k ++ (sg.recs.drop k ++ (l.segs.drop (i + 1)).flatMap Seg.recs) := by
  unfold abs before
  conv => lhs; rw [seg_split hs]
  simp only [hs, List.flatMap_append, List.flatMap_cons, List.append_assoc]
  rw [← List.append_assoc (sg.recs.take k), List.take_append_drop]

theorem mem_before {segs : List Seg} {i k : Nat} {x : Rec} (h : x ∈ before segs i k) :
    (∃ j s, j < i ∧ segs[j]? = some s ∧ x ∈ s.recs) ∨ (∃ s, segs[i]? = some s ∧ x ∈ s.recs.take k) := by
  unfold before at h
  rcases List.mem_append.mp h with h | h
  · left
    obtain ⟨s, hs, hx⟩ := List.mem_flatMap.mp h
    obtain ⟨j, hj, hjs⟩ := mem_take_get hs
    exact ⟨j, s, hj, hjs, hx⟩
  · right
    cases hs : segs[i]? with
    | none => simp [hs] at h
    | some s => simp only [hs] at h; exact ⟨s, rfl, h⟩

theorem before_succ {segs : List Seg} {i k : Nat} {sg : Seg} {x : Rec} (hs : segs[i]? = some sg)
    (hx : sg.recs[k]? = some x) : before segs i (k + 1) = before segs i k ++ [x] := by
  unfold before
  simp [hs, List.take_add_one, hx]

theorem before_hop {segs : List Seg} {i k : Nat} {sg : Seg} (hs : segs[i]? = some sg)
    (hk : sg.recs.length ≤ k) : before segs (i + 1) 0 = before segs i k := by
  unfold before
  rw [List.take_add_one, hs]
  cases segs[i + 1]? <;> simp [List.take_of_length_le hk]

/-! ### Growth of the log -/

/-- `l'` is `l` after appends and rolls: no segment disappears, sealed segments are unchanged,
the active one may have grown. -/
structure Ext (l l' : CLog) : Prop where
  len : l.segs.length ≤ l'.segs.length
  seg : ∀ j s, l.segs[j]? = some s → ∃ s', l'.segs[j]? = some s' ∧ s'.base = s.base ∧
    ∃ t, s'.recs = s.recs ++ t ∧ (j + 1 < l.segs.length → t = [])

theorem Ext.refl (l : CLog) : Ext l l :=
  ⟨Nat.le_refl _, fun _ s hs => ⟨s, hs, rfl, [], by simp, fun _ => rfl⟩⟩

theorem Ext.of_segs {l l' : CLog} (h : l'.segs = l.segs) : Ext l l' := by
  refine ⟨by rw [h]; exact Nat.le_refl _, fun _ s hs => ⟨s, by rw [h]; exact hs, rfl, [], by simp, fun _ => rfl⟩⟩

theorem Ext.trans {a b c : CLog} (h1 : Ext a b) (h2 : Ext b c) : Ext a c := by
  refine ⟨Nat.le_trans h1.len h2.len, ?_⟩
  intro j s hs
  obtain ⟨s1, hs1, hb1, t1, ht1, hn1⟩ := h1.seg j s hs
  obtain ⟨s2, hs2, hb2, t2, ht2, hn2⟩ := h2.seg j s1 hs1
  refine ⟨s2, hs2, by rw [hb2, hb1], t1 ++ t2, by rw [ht2, ht1, List.append_assoc], ?_⟩
  intro hj
  have := h1.len
  rw [hn1 hj, hn2 (by omega)]
  rfl

theorem ext_roll (l : CLog) : Ext l l.roll := by
  refine ⟨by simp [roll], ?_⟩
  intro j s hs
  have hj := (List.getElem?_eq_some_iff.mp hs).1
  exact ⟨s, by simp [roll, List.getElem?_append_left hj, hs], rfl, [], by simp, fun _ => rfl⟩

theorem ext_write {l l' : CLog} {rs : List Rec} {offs : List Int} (hne : l.segs ≠ [])
    (hw : l.write rs = .ok (l', offs)) : Ext l l' := by
  rw [write_eq l (write_ok_ne hw)] at hw
  injection hw with hw
  injection hw with h1 _
  subst h1
  have hlast := getLast?_segs hne
  rw [List.getLast?_eq_getElem?] at hlast
  have hdl : l.segs.dropLast.length = l.segs.length - 1 := List.length_dropLast
  have hpos : 0 < l.segs.length := List.length_pos_iff.mpr hne
  refine ⟨by simp; omega, ?_⟩
  intro j s hjs
  have hj := (List.getElem?_eq_some_iff.mp hjs).1
  rcases Nat.lt_or_ge j (l.segs.length - 1) with hlt | hge
  · refine ⟨s, ?_, rfl, [], by simp, fun _ => rfl⟩
    show (l.segs.dropLast ++ _)[j]? = some s
    rw [List.getElem?_append_left (by omega), List.dropLast_eq_take, List.getElem?_take]
    simp [hlt, hjs]
  · have hje : j = l.segs.length - 1 := by omega
    subst hje
    have hsa : s = l.active := by rw [hlast] at hjs; injection hjs with h; exact h.symm
    subst hsa
    refine ⟨{ l.active with recs := l.active.recs ++ rs }, ?_, rfl, rs, rfl, fun h => by omega⟩
    show (l.segs.dropLast ++ _)[l.segs.length - 1]? = _
    rw [List.getElem?_append_right (by omega)]
    simp [hdl]

theorem ext_checkSplit (l : CLog) : Ext l l.checkSplit := by
  unfold checkSplit; split
  · exact ext_roll l
  · exact Ext.refl l

theorem ext_appendSet {l l' : CLog} {rs : List Rec} {offs : List Int} (h : Inv l)
    (ha : l.appendSet rs = .ok (l', offs)) : Ext l l' := by
  unfold appendSet at ha
  exact (ext_checkSplit l).trans (ext_write (inv_checkSplit h).nonempty ha)

theorem Seg.eq_of {s s' : Seg} (hb : s'.base = s.base) (hr : s'.recs = s.recs) : s' = s := by
  cases s; cases s'; simp_all

theorem Ext.take {l l' : CLog} (h : Ext l l') {i : Nat} (hi : i < l.segs.length) :
    l'.segs.take i = l.segs.take i := by
  apply List.ext_getElem?
  intro j
  simp only [List.getElem?_take]
  split
  · rename_i hj
    have hjl : j < l.segs.length := by omega
    obtain ⟨s', hs', hb, t, ht, hn⟩ := h.seg j _ (List.getElem?_eq_getElem hjl)
    rw [hs', List.getElem?_eq_getElem hjl]
    have : t = [] := hn (by omega)
    subst this
    rw [Seg.eq_of hb (by simpa using ht)]
  · rfl

theorem Ext.before_eq {l l' : CLog} (h : Ext l l') {i k : Nat} {sg : Seg} (hs : l.segs[i]? = some sg)
    (hk : k ≤ sg.recs.length) : before l'.segs i k = before l.segs i k := by
  obtain ⟨s', hs', _, t, ht, _⟩ := h.seg i sg hs
  unfold before
  rw [h.take (List.getElem?_eq_some_iff.mp hs).1, hs, hs']
  simp only [ht]
  rw [List.take_append_of_le_length hk]

theorem mem_abs_iff {l : CLog} {x : Rec} : x ∈ l.abs ↔ ∃ j : Nat, ∃ s : Seg, l.segs[j]? = some s ∧ x ∈ s.recs := by
  unfold abs
  constructor
  · intro h
    obtain ⟨s, hs, hx⟩ := List.mem_flatMap.mp h
    obtain ⟨j, hj, hjs⟩ := List.mem_iff_getElem.mp hs
    exact ⟨j, s, by rw [List.getElem?_eq_getElem hj, hjs], hx⟩
  · rintro ⟨j, s, hs, hx⟩
    exact List.mem_flatMap.mpr ⟨s, List.mem_of_getElem? hs, hx⟩

theorem Ext.abs_sub {l l' : CLog} (h : Ext l l') {x : Rec} (hx : x ∈ l.abs) : x ∈ l'.abs := by
  obtain ⟨j, s, hs, hxs⟩ := mem_abs_iff.mp hx
  obtain ⟨s', hs', _, t, ht, _⟩ := h.seg j s hs
  exact mem_abs_iff.mpr ⟨j, s', hs', by rw [ht]; exact List.mem_append_left _ hxs⟩

/-- What is appended to a segment lies at or above its former next offset. -/
theorem segext_ge {s s' : Seg} {t : List Rec} (ok' : SegOK s') (hb : s'.base = s.base)
    (ht : s'.recs = s.recs ++ t) :
    (∀ x ∈ t, s.nextOffset ≤ x.offset) ∧ s.nextOffset ≤ s'.nextOffset := by
  have h1 : ∀ x ∈ t, s.nextOffset ≤ x.offset := by
    intro x hx
    rcases List.eq_nil_or_concat s.recs with hn | ⟨init, z, hz⟩
    · rw [nextOffset_nil hn, ← hb]
      exact ok'.base_le x (by rw [ht]; exact List.mem_append_right _ hx)
    · rw [List.concat_eq_append] at hz
      have hzm : z ∈ s'.recs := by rw [ht, hz]; simp
      have hz0 : 0 ≤ z.offset := by
        have := ok'.base_le z hzm; have := ok'.base_nonneg; omega
      rw [nextOffset_concat hz hz0]
      have hsorted := ok'.sorted
      rw [ht, hz] at hsorted
      have := (List.pairwise_append.mp hsorted).2.2 z (by simp) x hx
      omega
  refine ⟨h1, ?_⟩
  rcases List.eq_nil_or_concat t with hn | ⟨init, z, hz⟩
  · subst hn
    have : s' = s := Seg.eq_of hb (by simpa using ht)
    rw [this]; exact Int.le_refl _
  · rw [List.concat_eq_append] at hz
    have hzm : z ∈ s'.recs := by rw [ht, hz]; simp
    have hz0 : 0 ≤ z.offset := by
      have := ok'.base_le z hzm; have := ok'.base_nonneg; omega
    have hc : s'.recs = (s.recs ++ init) ++ [z] := by rw [ht, hz]; simp
    rw [nextOffset_concat hc hz0]
    have := h1 z (by rw [hz]; simp)
    omega

/-! ### The invariant -/

/-- Phases in which a positioned reader stands exactly at its limit (the HW position). -/
def atLim : Phase → Bool
  | .atLimit | .mustWait | .waiting | .resync _ => true
  | .failed e => e = "readonly" || e = "eof"
  | _ => false

/-- A positioned reader: segment `i` (`sg`), HW segment `h` (`sh`). -/
structure Pos (l : CLog) (r : Reader) (i h : Nat) (sg sh : Seg) : Prop where
  hwSeg : r.hwSeg = some h
  sgAt : l.segs[i]? = some sg
  shAt : l.segs[h]? = some sh
  i_le : i ≤ h
  h_lt : h < r.snap
  snap_le : r.snap ≤ l.segs.length
  slot_le : r.slot ≤ sg.recs.length
  hwSlot_le : r.hwSlot ≤ sh.recs.length
  same : i = h → r.slot ≤ r.hwSlot
  /-- segments before the HW segment are entirely committed -/
  lower : ∀ j s, j < h → l.segs[j]? = some s → s.nextOffset ≤ r.hwSeen
  /-- the HW segment is committed up to the limit -/
  lowerH : ∀ x ∈ sh.recs.take r.hwSlot, x.offset ≤ r.hwSeen
  /-- and the limit is exact -/
  upperH : ∀ x ∈ sh.recs.drop r.hwSlot, r.hwSeen < x.offset
  nextH : r.hwSeen < sh.nextOffset
  /-- delivered = everything before the position that is at or above the effective start -/
  deliv : r.delivered = (before l.segs i r.slot).filter (fun x => decide (r.eff ≤ x.offset))
  rest : ∀ x ∈ sg.recs.drop r.slot, r.eff ≤ x.offset
  nextG : r.eff ≤ sg.nextOffset

theorem Pos.of_eq {l : CLog} {r r' : Reader} {i h : Nat} {sg sh : Seg} (p : Pos l r i h sg sh)
    (h1 : r'.hwSeg = r.hwSeg) (h2 : r'.slot = r.slot) (h3 : r'.hwSlot = r.hwSlot)
    (h4 : r'.snap = r.snap) (h5 : r'.hwSeen = r.hwSeen) (h6 : r'.eff = r.eff)
    (h7 : r'.delivered = r.delivered) : Pos l r' i h sg sh := by
  obtain ⟨a1, a2, a3, a4, a5, a6, a7, a8, a9, a10, a11, a12, a13, a14, a15, a16⟩ := p
  exact ⟨by rw [h1]; exact a1, a2, a3, a4, by rw [h4]; exact a5, by rw [h4]; exact a6,
    by rw [h2]; exact a7, by rw [h3]; exact a8, by rw [h2, h3]; exact a9,
    by rw [h5]; exact a10, by rw [h3, h5]; exact a11, by rw [h3, h5]; exact a12,
    by rw [h5]; exact a13, by rw [h7, h2, h6]; exact a14, by rw [h2, h6]; exact a15,
    by rw [h6]; exact a16⟩

/-- Per-reader invariant. -/
structure RInv (l : CLog) (r : Reader) : Prop where
  start_nonneg : 0 ≤ r.start
  hw_ge : -1 ≤ r.hwSeen
  /-- the reader never believes in a HW the log does not have -/
  hw_le : r.hwSeen ≤ l.hw
  resync_hw : ∀ h, r.phase = .resync h → r.hwSeen < h ∧ h ≤ l.hw
  /-- NO LOST WAKE-UP: a parked reader has seen the current HW -/
  waiting_hw : r.phase = .waiting → r.hwSeen = l.hw
  unpos : r.seg = none → r.delivered = [] ∧ r.phase ≠ .reading ∧
    (atLim r.phase = true → r.eff = r.hwSeen + 1)
  pos : ∀ i, r.seg = some i → r.phase ≠ .creating ∧
    ∃ h sg sh, Pos l r i h sg sh ∧ (atLim r.phase = true → i = h ∧ r.slot = r.hwSlot)

theorem Pos.ext {l l' : CLog} {r : Reader} {i h : Nat} {sg sh : Seg} (p : Pos l r i h sg sh)
    (inv' : Inv l') (e : Ext l l') :
    ∃ sg' sh', Pos l' r i h sg' sh' := by
  obtain ⟨sg', hsg', hbg, tg, htg, _⟩ := e.seg i sg p.sgAt
  obtain ⟨sh', hsh', hbh, th, hth, _⟩ := e.seg h sh p.shAt
  have okg := inv'.wfc.segOK (List.mem_of_getElem? hsg')
  have okh := inv'.wfc.segOK (List.mem_of_getElem? hsh')
  obtain ⟨hg1, hg2⟩ := segext_ge okg hbg htg
  obtain ⟨hh1, hh2⟩ := segext_ge okh hbh hth
  have hlen := (List.getElem?_eq_some_iff.mp p.shAt).1
  refine ⟨sg', sh', ⟨p.hwSeg, hsg', hsh', p.i_le, p.h_lt, Nat.le_trans p.snap_le e.len, ?_, ?_,
    p.same, ?_, ?_, ?_, ?_, ?_, ?_, ?_⟩⟩
  · rw [htg, List.length_append]; have := p.slot_le; omega
  · rw [hth, List.length_append]; have := p.hwSlot_le; omega
  · intro j s' hj hs'
    have hjl : j < l.segs.length := by omega
    obtain ⟨s'', hs'', hb, t, ht, hn⟩ := e.seg j _ (List.getElem?_eq_getElem hjl)
    rw [hs'] at hs''
    injection hs'' with hs''
    subst hs''
    have : t = [] := hn (by omega)
    subst this
    rw [Seg.eq_of hb (by simpa using ht)]
    exact p.lower j _ hj (List.getElem?_eq_getElem hjl)
  · rw [hth, List.take_append_of_le_length p.hwSlot_le]; exact p.lowerH
  · rw [hth, List.drop_append_of_le_length p.hwSlot_le]
    intro x hx
    rcases List.mem_append.mp hx with hx | hx
    · exact p.upperH x hx
    · have := hh1 x hx; have := p.nextH; omega
  · have := p.nextH; omega
  · rw [e.before_eq p.sgAt p.slot_le]; exact p.deliv
  · rw [htg, List.drop_append_of_le_length p.slot_le]
    intro x hx
    rcases List.mem_append.mp hx with hx | hx
    · exact p.rest x hx
    · have := hg1 x hx; have := p.nextG; omega
  · have := p.nextG; omega

/-- Appends and rolls keep every reader's invariant. -/
theorem RInv.ext {l l' : CLog} {r : Reader} (ri : RInv l r) (inv' : Inv l') (e : Ext l l')
    (hhw : l'.hw = l.hw) : RInv l' r := by
  refine ⟨ri.start_nonneg, ri.hw_ge, by rw [hhw]; exact ri.hw_le, by rw [hhw]; exact ri.resync_hw,
    by rw [hhw]; exact ri.waiting_hw, ri.unpos, ?_⟩
  intro i hi
  obtain ⟨hc, h, sg, sh, p, hl⟩ := ri.pos i hi
  obtain ⟨sg', sh', p'⟩ := p.ext inv' e
  exact ⟨hc, h, sg', sh', p', hl⟩

/-- Moving the HW (or the read-only flag) keeps the invariant of every reader that is not parked. -/
theorem RInv.hw_up {l l' : CLog} {r : Reader} (ri : RInv l r) (hs : l'.segs = l.segs)
    (hhw : l.hw ≤ l'.hw) (hnw : r.phase = .waiting → l'.hw = l.hw) : RInv l' r := by
  refine ⟨ri.start_nonneg, ri.hw_ge, by have := ri.hw_le; omega, ?_, ?_, ri.unpos, ?_⟩
  · intro h hh; have := ri.resync_hw h hh; omega
  · intro hw; rw [hnw hw]; exact ri.waiting_hw hw
  · intro i hi
    obtain ⟨hc, h, sg, sh, p, hl⟩ := ri.pos i hi
    refine ⟨hc, h, sg, sh, ?_, hl⟩
    obtain ⟨a1, a2, a3, a4, a5, a6, a7, a8, a9, a10, a11, a12, a13, a14, a15, a16⟩ := p
    exact ⟨a1, by rw [hs]; exact a2, by rw [hs]; exact a3, a4, a5, by rw [hs]; exact a6, a7, a8, a9,
      by rw [hs]; exact a10, a11, a12, a13, by rw [hs]; exact a14, a15, a16⟩

/-- Changing only the phase of a reader, between two phases that are treated alike. -/
theorem RInv.phase {l : CLog} {r : Reader} (ri : RInv l r) (ph : Phase)
    (h1 : ∀ h, ph = .resync h → r.hwSeen < h ∧ h ≤ l.hw)
    (h2 : ph = .waiting → r.hwSeen = l.hw)
    (h3 : r.seg = none → ph ≠ .reading ∧ (atLim ph = true → r.eff = r.hwSeen + 1))
    (h4 : ph ≠ .creating)
    (h5 : atLim ph = true → ∀ i h, r.seg = some i → r.hwSeg = some h → i = h ∧ r.slot = r.hwSlot) :
    RInv l { r with phase := ph } := by
  refine ⟨ri.start_nonneg, ri.hw_ge, ri.hw_le, h1, h2, ?_, ?_⟩
  · intro hn; exact ⟨(ri.unpos hn).1, (h3 hn).1, (h3 hn).2⟩
  · intro i hi
    obtain ⟨_, h, sg, sh, p, _⟩ := ri.pos i hi
    exact ⟨h4, h, sg, sh, p.of_eq rfl rfl rfl rfl rfl rfl rfl, fun ha => h5 ha i h hi p.hwSeg⟩

/-! ### Reader steps keep the reader's invariant -/

theorem slot_le_of {recs : List Rec} {k hk : Nat} {hw : Int} (hk1 : k ≤ recs.length)
    (htake : ∀ a ∈ recs.take k, a.offset ≤ hw) (hup : ∀ a ∈ recs.drop hk, hw < a.offset) :
    k ≤ hk := by
  apply Nat.le_of_not_lt
  intro hlt
  have hl : hk < recs.length := by omega
  have h1 := htake recs[hk] (get_mem_take hlt (List.getElem?_eq_getElem hl))
  have h2 := hup recs[hk] (by rw [List.drop_eq_getElem_cons hl]; exact List.mem_cons.mpr (Or.inl rfl))
  omega

/-- Positioning a reader at offset `o ≤ hw` together with the limit computed for `hw`. -/
theorem position_pos {l : CLog} (inv : Inv l) {o hw : Int} {hi hk j k : Nat} {x : Seg}
    (hp : hwPos l.segs hw = .ok (hi, hk)) (ho : o ≤ hw)
    (hx : l.segs[j]? = some x) (hon : o < x.nextOffset) (hpre : ∀ a ∈ l.segs.take j, a.nextOffset ≤ o)
    (hk1 : k ≤ x.recs.length) (htake : ∀ a ∈ x.recs.take k, a.offset < o)
    (hdrop : ∀ a ∈ x.recs.drop k, o ≤ a.offset)
    {r' : Reader} (e1 : r'.hwSeg = some hi) (e2 : r'.hwSlot = hk) (e3 : r'.hwSeen = hw)
    (e4 : r'.snap = l.segs.length) (e5 : r'.slot = k) (e6 : r'.eff = o) (e7 : r'.delivered = []) :
    ∃ sh, Pos l r' j hi x sh := by
  obtain ⟨sh, hsh, hkl, hlow, hlowH, hupH, hnext⟩ := hwPos_ok inv.wfc hp
  have hjle : j ≤ hi := by
    apply Nat.le_of_not_lt
    intro hlt
    have := hpre sh (get_mem_take hlt hsh)
    omega
  refine ⟨sh, ⟨e1, hx, hsh, hjle, ?_, ?_, ?_, ?_, ?_, ?_, ?_, ?_, ?_, ?_, ?_, ?_⟩⟩
  · rw [e4]; exact (List.getElem?_eq_some_iff.mp hsh).1
  · rw [e4]; exact Nat.le_refl _
  · rw [e5]; exact hk1
  · rw [e2]; exact hkl
  · intro hji
    subst hji
    rw [hx] at hsh; injection hsh with hsh; subst hsh
    rw [e5, e2]
    exact slot_le_of hk1 (fun a ha => by have := htake a ha; omega) hupH
  · intro j' s hj' hs
    rw [e3]; exact hlow s (get_mem_take hj' hs)
  · rw [e2, e3]; exact hlowH
  · rw [e2, e3]; exact hupH
  · rw [e3]; exact hnext
  · rw [e7, e5, e6]
    symm
    apply List.filter_eq_nil_iff.mpr
    intro a ha
    rcases mem_before ha with ⟨j', s, hj', hs, has⟩ | ⟨s, hs, has⟩
    · have := hpre s (get_mem_take hj' hs)
      have := (inv.wfc.segOK (List.mem_of_getElem? hs)).lt_next a has
      simp; omega
    · rw [hx] at hs; injection hs with hs; subst hs
      have := htake a has
      simp; omega
  · rw [e5, e6]; exact hdrop
  · rw [e6]; omega

theorem rinv_fail {l : CLog} {r : Reader} (ri : RInv l r) (e : String)
    (h6 : r.seg = none → atLim (.failed e) = true → r.eff = r.hwSeen + 1)
    (h5 : atLim (.failed e) = true → ∀ i h, r.seg = some i → r.hwSeg = some h → i = h ∧ r.slot = r.hwSlot) :
    RInv l (fail r e) := by
  unfold fail
  exact ri.phase (.failed e) (by intro h hh; cases hh) (by intro hh; cases hh)
    (fun hn => ⟨(by intro hh; cases hh), h6 hn⟩) (by intro hh; cases hh) h5

/-- Invariant of a freshly positioned reader. -/
theorem rinv_positioned {l : CLog} {r r' : Reader} (ri : RInv l r) {j hi : Nat} {x sh : Seg}
    (hs : r'.start = r.start) (hge : -1 ≤ r'.hwSeen) (hle : r'.hwSeen ≤ l.hw)
    (hph : r'.phase = .idle ∨ r'.phase = .reading) (hseg : r'.seg = some j)
    (p : Pos l r' j hi x sh) : RInv l r' := by
  refine ⟨by rw [hs]; exact ri.start_nonneg, hge, hle, ?_, ?_, ?_, ?_⟩
  · intro h hh; rcases hph with hp | hp <;> rw [hp] at hh <;> cases hh
  · intro hh; rcases hph with hp | hp <;> rw [hp] at hh <;> cases hh
  · intro hn; rw [hseg] at hn; cases hn
  · intro i hi'
    rw [hseg] at hi'; injection hi' with hi'; subst hi'
    refine ⟨by rcases hph with hp | hp <;> rw [hp] <;> (intro hh; cases hh), hi, x, sh, p, ?_⟩
    intro ha
    rcases hph with hp | hp <;> rw [hp] at ha <;> simp [atLim] at ha

theorem rinv_new {l : CLog} (hhw : -1 ≤ l.hw) {start : Int} (hs : 0 ≤ start) :
    RInv l { phase := .creating, start := start, eff := start, seg := none, slot := 0,
             hwSeg := none, hwSlot := 0, hwSeen := l.hw, snap := 0, delivered := [] } := by
  refine ⟨hs, hhw, Int.le_refl _, (by intro h hh; cases hh), (by intro hh; cases hh), ?_, (by intro i hi; cases hi)⟩
  intro _
  exact ⟨rfl, (by intro hh; cases hh), fun ha => by simp [atLim] at ha⟩

theorem rinv_init {l : CLog} {r : Reader} (inv : Inv l) (ri : RInv l r) (hc : r.phase = .creating) :
    RInv l (initReader l r) := by
  have hseg : r.seg = none := by
    cases hs : r.seg with
    | none => rfl
    | some i => exact absurd hc (ri.pos i hs).1
  have hdel := (ri.unpos hseg).1
  have hvac : ∀ (ph : Phase), atLim ph = true → ∀ i h, r.seg = some i → r.hwSeg = some h → i = h ∧ r.slot = r.hwSlot :=
    fun _ _ i _ hi _ => by rw [hseg] at hi; cases hi
  have hpark : ∀ (hs : Option Nat) (hk : Nat),
      RInv l { r with phase := .idle, seg := none, eff := r.hwSeen + 1, hwSeg := hs, hwSlot := hk, snap := l.segs.length } := by
    intro hs hk
    refine ⟨ri.start_nonneg, ri.hw_ge, ri.hw_le, (by intro h hh; cases hh), (by intro hh; cases hh), ?_, ?_⟩
    · intro _; exact ⟨hdel, (by intro hh; cases hh), fun ha => by simp [atLim] at ha⟩
    · intro i hi; cases hi
  unfold initReader
  simp only
  split
  · exact hpark r.hwSeg r.hwSlot
  · rename_i hcond
    have hle : r.start ≤ r.hwSeen := by
      simp only [Gen.Log.readerBeyondHWCmp, Cmp.evalInt, Bool.or_eq_true, decide_eq_true_eq, not_or] at hcond
      omega
    have hne : r.hwSeen ≠ -1 := by have := ri.start_nonneg; omega
    simp only [hne, ne_eq, not_false_eq_true, if_true]
    cases hp : hwPos l.segs r.hwSeen with
    | err e =>
      exact rinv_fail ri e (fun _ ha => by rcases hwPos_err hp with rfl | rfl <;> simp [atLim] at ha) (hvac _)
    | panic => exact rinv_fail ri "panic" (fun _ ha => by simp [atLim] at ha) (hvac _)
    | ok ik =>
      obtain ⟨hi, hk⟩ := ik
      simp only
      cases hf : findSegmentIdx l.segs r.start with
      | none => exact hpark (some hi) hk
      | some j =>
        obtain ⟨x, hx, hon, hpre⟩ := findSegmentIdx_some inv.wfc hf
        have okx := inv.wfc.segOK (List.mem_of_getElem? hx)
        simp only [hx]
        split
        · cases he : x.findEntryIdx r.start with
          | none => exact rinv_fail ri "entry-not-found" (fun _ ha => by simp [atLim] at ha) (hvac _)
          | some k =>
            obtain ⟨hk1, htake, hdrop⟩ := findEntryIdx_some okx he
            simp only
            obtain ⟨sh, p⟩ := position_pos inv hp hle hx hon hpre (Nat.le_of_lt hk1) htake hdrop
              (r' := { r with phase := .idle, seg := some j, slot := k, eff := r.start, hwSeg := some hi,
                              hwSlot := hk, snap := l.segs.length }) rfl rfl rfl rfl rfl rfl hdel
            exact rinv_positioned ri rfl ri.hw_ge ri.hw_le (Or.inl rfl) rfl p
        · rename_i hnc
          have hb : r.start < x.base := by
            simp only [Gen.Log.containsCmp, Cmp.evalInt, decide_eq_true_eq] at hnc
            omega
          obtain ⟨sh, p⟩ := position_pos inv hp hle hx hon hpre (Nat.zero_le _) (by simp)
              (by intro a ha; have := okx.base_le a (by simpa using ha); omega)
              (r' := { r with phase := .idle, seg := some j, slot := 0, eff := r.start, hwSeg := some hi,
                              hwSlot := hk, snap := l.segs.length }) rfl rfl rfl rfl rfl rfl hdel
          exact rinv_positioned ri rfl ri.hw_ge ri.hw_le (Or.inl rfl) rfl p

theorem lim_of {l : CLog} {r : Reader} (ri : RInv l r) (ha : atLim r.phase = true) :
    ∀ i h, r.seg = some i → r.hwSeg = some h → i = h ∧ r.slot = r.hwSlot := by
  intro i h hi hh
  obtain ⟨_, h', sg, sh, p, hl⟩ := ri.pos i hi
  have := p.hwSeg
  rw [hh] at this
  injection this with this
  subst this
  exact hl ha

theorem chain_get {l : CLog} (inv : Inv l) {a b : Nat} {x y : Seg} (hx : l.segs[a]? = some x)
    (hy : l.segs[b]? = some y) (hab : a < b) : x.nextOffset ≤ y.base := by
  obtain ⟨ha, rfl⟩ := List.getElem?_eq_some_iff.mp hx
  obtain ⟨hb, rfl⟩ := List.getElem?_eq_some_iff.mp hy
  exact ((List.pairwise_iff_getElem.mp inv.chain) a b ha hb hab).1

/-! Unfolding equations (so that the case analysis does not rewrite inside the records). -/

theorem beginRead_none {l : CLog} {r : Reader} (hs : r.seg = none) :
    beginRead l r = { r with phase := .atLimit, snap := l.segs.length, eff := r.hwSeen + 1 } := by
  unfold beginRead; simp only [hs]

theorem beginRead_some {l : CLog} {r : Reader} {i : Nat} (hs : r.seg = some i) :
    beginRead l r = { r with phase := .reading, snap := l.segs.length } := by
  unfold beginRead; simp only [hs]

theorem readStep_eq {l : CLog} {r : Reader} {i h : Nat} {sg : Seg} (hs : r.seg = some i)
    (hsg : l.segs[i]? = some sg) (hh : r.hwSeg = some h) :
    readStep l r =
      if (decide (i = h) && decide ((r.hwSlot : Int) - (r.slot : Int) < 0)) = true then fail r "panic"
      else if (decide (i = h) && decide ((r.hwSlot : Int) - (r.slot : Int) = 0)) = true then { r with phase := .atLimit }
      else match sg.recs[r.slot]? with
        | some x => { r with phase := .idle, slot := r.slot + 1, delivered := r.delivered ++ [x] }
        | none =>
          match findSegmentByBaseIdx (l.segs.take r.snap) (sg.base + 1) with
          | none => fail r "no-segment-to-consume"
          | some j => { r with seg := some j, slot := 0 } := by
  unfold readStep fail
  simp only [hs, hsg, hh, Gen.HWReader.hwSegLimit, Bool.true_and, Option.some.injEq]
  rfl

theorem resync_err {l : CLog} {r : Reader} {hw : Int} {e : String} (hpos : hwPos l.segs hw = .err e) :
    ∃ e', resync l r hw = fail r e' := by
  unfold resync; simp only [hpos]
  split
  · exact ⟨_, rfl⟩
  · exact ⟨_, rfl⟩

theorem resync_some {l : CLog} {r : Reader} {hw : Int} {hi hk i : Nat}
    (hpos : hwPos l.segs hw = .ok (hi, hk)) (hs : r.seg = some i) :
    resync l r hw = { r with hwSeen := hw, hwSeg := some hi, hwSlot := hk, snap := l.segs.length, phase := .reading } := by
  unfold resync; simp only [hpos, hs]

theorem resync_none {l : CLog} {r : Reader} {hw : Int} {hi hk : Nat}
    (hpos : hwPos l.segs hw = .ok (hi, hk)) (hs : r.seg = none) :
    resync l r hw =
      match findSegmentIdx l.segs r.eff with
      | none => fail r "segment-not-found"
      | some j =>
        match l.segs[j]? with
        | none => fail r "panic"
        | some sg =>
          match sg.findEntryIdx r.eff with
          | none => fail r "entry-not-found"
          | some k => { r with hwSeen := hw, hwSeg := some hi, hwSlot := hk, snap := l.segs.length,
                               phase := .reading, seg := some j, slot := k } := by
  unfold resync fail; simp only [hpos, hs]
  rfl

theorem rinv_begin {l : CLog} {r : Reader} (ri : RInv l r) (hp : r.phase = .idle) :
    RInv l (beginRead l r) := by
  cases hs : r.seg with
  | none =>
    rw [beginRead_none hs]
    have hu := ri.unpos hs
    refine ⟨ri.start_nonneg, ri.hw_ge, ri.hw_le, (by intro h hh; cases hh), (by intro hh; cases hh), ?_, ?_⟩
    · intro _; exact ⟨hu.1, (by intro hh; cases hh), fun _ => rfl⟩
    · intro i hi; exact absurd (hs ▸ hi : none = some i) (by simp)
  | some i =>
    rw [beginRead_some hs]
    obtain ⟨_, h, sg, sh, p, _⟩ := ri.pos i hs
    have p' : Pos l { r with phase := .reading, snap := l.segs.length } i h sg sh := by
      obtain ⟨a1, a2, a3, a4, a5, a6, a7, a8, a9, a10, a11, a12, a13, a14, a15, a16⟩ := p
      exact ⟨a1, a2, a3, a4, (List.getElem?_eq_some_iff.mp a3).1, Nat.le_refl _, a7, a8, a9, a10, a11,
        a12, a13, a14, a15, a16⟩
    exact rinv_positioned ri rfl ri.hw_ge ri.hw_le (Or.inr rfl) hs p'

/-- One `readLoop` iteration of a reader satisfying the invariant: keeps the invariant, never
fails, and is never a no-op. -/
theorem readStep_ok {l : CLog} {r : Reader} (inv : Inv l) (ri : RInv l r) (hp : r.phase = .reading) :
    RInv l (readStep l r) ∧ (∀ e, (readStep l r).phase ≠ .failed e) ∧ readStep l r ≠ r := by
  cases hs : r.seg with
  | none => exact absurd hp (ri.unpos hs).2.1
  | some i =>
    obtain ⟨_, h, sg, sh, p, _⟩ := ri.pos i hs
    have hdeliver : ∀ x, sg.recs[r.slot]? = some x → (i = h → r.slot < r.hwSlot) →
        RInv l { r with phase := .idle, slot := r.slot + 1, delivered := r.delivered ++ [x] } := by
      intro x hx hsl
      obtain ⟨hlen, hxe⟩ := List.getElem?_eq_some_iff.mp hx
      have hd := List.drop_eq_getElem_cons hlen
      rw [hxe] at hd
      have p' : Pos l { r with phase := .idle, slot := r.slot + 1, delivered := r.delivered ++ [x] } i h sg sh := by
        obtain ⟨a1, a2, a3, a4, a5, a6, a7, a8, a9, a10, a11, a12, a13, a14, a15, a16⟩ := p
        refine ⟨a1, a2, a3, a4, a5, a6, hlen, a8, fun hih => hsl hih, a10, a11, a12, a13, ?_, ?_, a16⟩
        · show r.delivered ++ [x] = _
          rw [before_succ a2 hx, List.filter_append, ← a14]
          have : r.eff ≤ x.offset := a15 x (by rw [hd]; exact List.mem_cons.mpr (Or.inl rfl))
          simp [this]
        · intro y hy
          exact a15 y (by rw [hd]; exact List.mem_cons_of_mem _ hy)
      exact rinv_positioned ri rfl ri.hw_ge ri.hw_le (Or.inl rfl) hs p'
    rw [readStep_eq hs p.sgAt p.hwSeg]
    split
    · rename_i hc
      exfalso
      simp only [Bool.and_eq_true, decide_eq_true_eq] at hc
      have := p.same hc.1
      omega
    · split
      · rename_i _ hc
        simp only [Bool.and_eq_true, decide_eq_true_eq] at hc
        refine ⟨ri.phase .atLimit (by intro h hh; cases hh) (by intro hh; cases hh)
          (fun hn => by rw [hs] at hn; cases hn) (by intro hh; cases hh) ?_, (by intro e h; cases h),
          fun h => by have := congrArg Reader.phase h; rw [hp] at this; cases this⟩
        intro _ i' h' hi' hh'
        rw [hs] at hi'; injection hi' with hi'
        rw [p.hwSeg] at hh'; injection hh' with hh'
        subst hi' hh'
        exact ⟨hc.1, by omega⟩
      · rename_i hc1 hc2
        simp only [Bool.and_eq_true, decide_eq_true_eq, not_and] at hc1 hc2
        cases hx : sg.recs[r.slot]? with
        | some x =>
          simp only
          refine ⟨hdeliver x hx ?_, (by intro e h; cases h),
            fun h => by have := congrArg Reader.phase h; rw [hp] at this; cases this⟩
          intro hih
          have := p.same hih
          have := hc1 hih
          have := hc2 hih
          omega
        | none =>
          simp only
          have hlen : sg.recs.length ≤ r.slot := List.getElem?_eq_none_iff.mp hx
          have hne : i ≠ h := by
            intro hih
            subst hih
            have : sg = sh := by
              have := p.sgAt; rw [p.shAt] at this; injection this with this; exact this.symm
            subst this
            have := p.same rfl
            have := hc1 rfl
            have := hc2 rfl
            have := p.hwSlot_le
            omega
          have hilt : i < h := by have := p.i_le; omega
          have hhop := hop_next inv.wfc p.sgAt (by have := p.h_lt; omega) p.snap_le
          simp only [hhop]
          have hlh := (List.getElem?_eq_some_iff.mp p.shAt).1
          obtain ⟨sg2, hsg2⟩ : ∃ sg2, l.segs[i + 1]? = some sg2 :=
            ⟨l.segs[i + 1]'(by omega), List.getElem?_eq_getElem (by omega)⟩
          have ok2 := inv.wfc.segOK (List.mem_of_getElem? hsg2)
          have hch := chain_get inv p.sgAt hsg2 (by omega)
          have p' : Pos l { r with seg := some (i + 1), slot := 0 } (i + 1) h sg2 sh := by
            obtain ⟨a1, a2, a3, a4, a5, a6, a7, a8, a9, a10, a11, a12, a13, a14, a15, a16⟩ := p
            refine ⟨a1, hsg2, a3, by omega, a5, a6, Nat.zero_le _, a8, fun _ => Nat.zero_le _, a10, a11,
              a12, a13, ?_, ?_, ?_⟩
            · show r.delivered = _
              rw [before_hop a2 hlen]; exact a14
            · intro y hy
              have := ok2.base_le y (by simpa using hy)
              show r.eff ≤ y.offset
              omega
            · have := ok2.base_le_next
              show r.eff ≤ sg2.nextOffset
              omega
          refine ⟨rinv_positioned ri rfl ri.hw_ge ri.hw_le (Or.inr hp) rfl p', ?_, ?_⟩
          · intro e h
            have : r.phase = .failed e := h
            rw [hp] at this; cases this
          · intro h
            have := congrArg Reader.seg h
            rw [hs] at this
            injection this with this
            omega

theorem rinv_readStep {l : CLog} {r : Reader} (inv : Inv l) (ri : RInv l r) (hp : r.phase = .reading) :
    RInv l (readStep l r) := (readStep_ok inv ri hp).1

theorem eff_of {l : CLog} {r : Reader} (ri : RInv l r) (hs : r.seg = none) (ha : atLim r.phase = true) :
    r.eff = r.hwSeen + 1 := (ri.unpos hs).2.2 ha

theorem rinv_checkHW {l : CLog} {r : Reader} (ri : RInv l r) (hp : r.phase = .atLimit) :
    RInv l (checkHW l r) := by
  have hlim := lim_of ri (by rw [hp]; rfl)
  have heff : r.seg = none → r.eff = r.hwSeen + 1 := fun hs =>
    eff_of ri hs (by rw [hp]; rfl)
  unfold checkHW
  split
  · exact ri.phase .mustWait (by intro h hh; cases hh) (by intro hh; cases hh)
      (fun hn => ⟨(by intro hh; cases hh), fun _ => heff hn⟩) (by intro hh; cases hh) (fun _ => hlim)
  · rename_i hc
    simp only [Gen.HWReader.readerHWSameCmp, Cmp.evalInt, decide_eq_true_eq] at hc
    refine ri.phase (.resync l.hw) ?_ (by intro hh; cases hh)
      (fun hn => ⟨(by intro hh; cases hh), fun _ => heff hn⟩) (by intro hh; cases hh) (fun _ => hlim)
    intro h hh
    injection hh with hh
    subst hh
    have := ri.hw_le
    exact ⟨by omega, Int.le_refl _⟩

theorem rinv_resync {l : CLog} {r : Reader} {hw : Int} (inv : Inv l) (ri : RInv l r)
    (hp : r.phase = .resync hw) : RInv l (resync l r hw) := by
  obtain ⟨hlt, hle⟩ := ri.resync_hw hw hp
  have hlim := lim_of ri (by rw [hp]; rfl)
  have hge := ri.hw_ge
  have hnc : r.phase ≠ .creating := by rw [hp]; intro h; cases h
  cases hpos : hwPos l.segs hw with
  | err e =>
    obtain ⟨e', he'⟩ := resync_err (r := r) hpos
    rw [he']
    exact rinv_fail ri e' (fun hn _ => eff_of ri hn (by rw [hp]; rfl)) (fun _ => hlim)
  | panic => exact absurd hpos hwPos_no_panic
  | ok ik =>
    obtain ⟨hi, hk⟩ := ik
    obtain ⟨sh', hsh', hkl, hlow, hlowH, hupH, hnext⟩ := hwPos_ok inv.wfc hpos
    cases hs : r.seg with
    | some i =>
      rw [resync_some hpos hs]
      obtain ⟨_, h, sg, sh, p, _⟩ := ri.pos i hs
      obtain ⟨hih, hsl⟩ := hlim i h hs p.hwSeg
      subst hih
      have hsg : sg = sh := by
        have := p.sgAt; rw [p.shAt] at this; injection this with this; exact this.symm
      subst hsg
      have hile : i ≤ hi := by
        apply Nat.le_of_not_lt
        intro hlt'
        have := p.lower hi sh' hlt' hsh'
        omega
      have p' : Pos l { r with hwSeen := hw, hwSeg := some hi, hwSlot := hk, snap := l.segs.length, phase := .reading }
          i hi sg sh' := by
        refine ⟨rfl, p.sgAt, hsh', hile, (List.getElem?_eq_some_iff.mp hsh').1, Nat.le_refl _, p.slot_le, hkl,
          ?_, ?_, hlowH, hupH, hnext, p.deliv, p.rest, p.nextG⟩
        · intro hihi
          subst hihi
          have : sg = sh' := by
            have := p.sgAt; rw [hsh'] at this; injection this with this; exact this.symm
          subst this
          refine slot_le_of p.slot_le ?_ hupH
          intro a ha
          have := p.lowerH a (by rw [← hsl]; exact ha)
          show a.offset ≤ hw
          omega
        · intro j s hj hjs
          exact hlow s (get_mem_take hj hjs)
      exact rinv_positioned ri rfl (by show -1 ≤ hw; omega) hle (Or.inr rfl) hs p'
    | none =>
      rw [resync_none hpos hs]
      have heff := eff_of ri hs (by rw [hp]; rfl)
      have hvac : ∀ e, atLim (.failed e) = true → ∀ i h, r.seg = some i → r.hwSeg = some h → i = h ∧ r.slot = r.hwSlot :=
        fun _ _ => hlim
      cases hf : findSegmentIdx l.segs r.eff with
      | none => exact rinv_fail ri "segment-not-found" (fun _ _ => heff) (hvac _)
      | some j =>
        obtain ⟨x, hx, hon, hpre⟩ := findSegmentIdx_some inv.wfc hf
        have okx := inv.wfc.segOK (List.mem_of_getElem? hx)
        simp only [hx]
        cases he : x.findEntryIdx r.eff with
        | none => exact rinv_fail ri "entry-not-found" (fun _ _ => heff) (hvac _)
        | some k =>
          obtain ⟨hk1, htake, hdrop⟩ := findEntryIdx_some okx he
          simp only
          obtain ⟨sh, p⟩ := position_pos inv hpos (by omega) hx hon hpre (Nat.le_of_lt hk1) htake hdrop
            (r' := { r with hwSeen := hw, hwSeg := some hi, hwSlot := hk, snap := l.segs.length,
                            phase := .reading, seg := some j, slot := k }) rfl rfl rfl rfl rfl rfl (ri.unpos hs).1
          exact rinv_positioned ri rfl (by show -1 ≤ hw; omega) hle (Or.inr rfl) rfl p

/-! ### The global invariant and its preservation by every step -/

structure GInv (s : State) : Prop where
  inv : Inv s.log
  hw_ge : -1 ≤ s.log.hw
  rinv : ∀ id r, s.readers id = some r → RInv s.log r
  /-- a parked reader is registered ... -/
  wait_mem : ∀ id r, s.readers id = some r → r.phase = .waiting → id ∈ s.waiters
  /-- ... and only parked readers are -/
  mem_wait : ∀ id, id ∈ s.waiters → ∃ r, s.readers id = some r ∧ r.phase = .waiting

theorem ginv_setReader {s : State} {id : Nat} {r' : Reader} (g : GInv s)
    (hnw : ∀ r, s.readers id = some r → r.phase ≠ .waiting)
    (ri' : RInv s.log r') (hnw' : r'.phase ≠ .waiting) : GInv (setReader s id r') := by
  have hnm : id ∉ s.waiters := fun hm => by
    obtain ⟨r0, h0, hw0⟩ := g.mem_wait id hm
    exact hnw r0 h0 hw0
  refine ⟨g.inv, g.hw_ge, ?_, ?_, ?_⟩
  · intro j rj hj
    simp only [setReader] at hj
    split at hj
    · injection hj with hj; subst hj; exact ri'
    · exact g.rinv j rj hj
  · intro j rj hj hw
    simp only [setReader] at hj
    split at hj
    · injection hj with hj; subst hj; exact absurd hw hnw'
    · exact g.wait_mem j rj hj hw
  · intro j hj
    obtain ⟨rj, hrj, hwj⟩ := g.mem_wait j hj
    have : j ≠ id := fun h => hnm (h ▸ hj)
    exact ⟨rj, by simp [setReader, this, hrj], hwj⟩

theorem inv_of_segs {l l' : CLog} (h : Inv l) (hs : l'.segs = l.segs) (hm : l'.maxSegBytes = l.maxSegBytes) :
    Inv l' := by
  obtain ⟨a1, a2, a3, a4, a5, a6⟩ := h
  refine ⟨by rw [hs]; exact a1, by rw [hm]; exact a2, ?_, by rw [hs]; exact a4, by rw [hs]; exact a5,
    by rw [hs]; exact a6⟩
  unfold abs at a3 ⊢
  rw [hs]; exact a3

/-- The log grew (append / roll): every reader keeps its invariant. -/
theorem ginv_log {s : State} (g : GInv s) {l' : CLog} (inv' : Inv l') (e : Ext s.log l')
    (hhw : l'.hw = s.log.hw) : GInv { s with log := l' } :=
  ⟨inv', by show -1 ≤ l'.hw; rw [hhw]; exact g.hw_ge,
    fun id r hr => (g.rinv id r hr).ext inv' e hhw, g.wait_mem, g.mem_wait⟩

/-- Only the read-only flag changed. -/
theorem ginv_logmeta {s : State} (g : GInv s) {l' : CLog} (hs : l'.segs = s.log.segs)
    (hm : l'.maxSegBytes = s.log.maxSegBytes) (hhw : l'.hw = s.log.hw) : GInv { s with log := l' } :=
  ⟨inv_of_segs g.inv hs hm, by show -1 ≤ l'.hw; rw [hhw]; exact g.hw_ge,
    fun id r hr => (g.rinv id r hr).hw_up hs (by rw [hhw]; exact Int.le_refl _) (fun _ => hhw),
    g.wait_mem, g.mem_wait⟩

/-- HW advance / read-only notification: all registered waiters are woken, the map is cleared. -/
theorem ginv_wake {s : State} (g : GInv s) (l' : CLog) (hs : l'.segs = s.log.segs)
    (hm : l'.maxSegBytes = s.log.maxSegBytes) (hhw : s.log.hw ≤ l'.hw) (ro : Bool) :
    GInv (wakeAll { s with log := l' } ro) := by
  have key : ∀ j r, s.readers j = some r → j ∈ s.waiters →
      RInv l' { r with phase := if ro then .failed "readonly" else .atLimit } := by
    intro j r hr hj
    obtain ⟨r0, h0, hw0⟩ := g.mem_wait j hj
    rw [hr] at h0; injection h0 with h0; subst h0
    have ri := g.rinv j r hr
    have hlim := lim_of ri (by rw [hw0]; rfl)
    have heff : r.seg = none → r.eff = r.hwSeen + 1 := fun hn =>
      eff_of ri hn (by rw [hw0]; rfl)
    have : RInv s.log { r with phase := if ro then .failed "readonly" else .atLimit } := by
      cases ro with
      | true => exact rinv_fail ri "readonly" (fun hn _ => heff hn) (fun _ => hlim)
      | false =>
        exact ri.phase .atLimit (by intro h hh; cases hh) (by intro hh; cases hh)
          (fun hn => ⟨(by intro hh; cases hh), fun _ => heff hn⟩) (by intro hh; cases hh) (fun _ => hlim)
    refine this.hw_up hs hhw ?_
    intro hh
    cases ro <;> cases hh
  refine ⟨inv_of_segs g.inv hs hm, by show -1 ≤ l'.hw; have := g.hw_ge; omega, ?_, ?_, ?_⟩
  · intro j rj hj
    simp only [wakeAll] at hj
    cases hr : s.readers j with
    | none => simp [hr] at hj
    | some r =>
      simp only [hr] at hj
      split at hj
      · rename_i hmem
        injection hj with hj; subst hj
        exact key j r hr hmem
      · rename_i hmem
        injection hj with hj; subst hj
        have hnw : r.phase ≠ .waiting := fun hw => hmem (g.wait_mem j r hr hw)
        exact (g.rinv j r hr).hw_up hs hhw (fun hw => absurd hw hnw)
  · intro j rj hj hw
    exfalso
    simp only [wakeAll] at hj
    cases hr : s.readers j with
    | none => simp [hr] at hj
    | some r =>
      simp only [hr] at hj
      split at hj
      · injection hj with hj; subst hj
        cases ro <;> cases hw
      · rename_i hmem
        injection hj with hj; subst hj
        exact hmem (g.wait_mem j r hr hw)
  · intro j hj
    simp [wakeAll, Gen.HWReader.notifyClearsWaiters] at hj

theorem appendSet_hw {l l' : CLog} {rs : List Rec} {offs : List Int}
    (ha : l.appendSet rs = .ok (l', offs)) : l'.hw = l.hw := by
  unfold appendSet at ha
  rw [write_eq _ (write_ok_ne ha)] at ha
  injection ha with ha
  injection ha with h1 _
  subst h1
  show l.checkSplit.hw = l.hw
  unfold checkSplit; split <;> rfl

/-- Rolling a non-empty active segment (the age-based split) keeps the log invariant. -/
theorem inv_roll' {l : CLog} (h : Inv l) (hne : l.active.recs ≠ []) : Inv l.roll := by
  have hs := segs_eq_dropLast_active h.nonempty
  have hlt := h.activeOK.base_lt_next hne
  have hb : l.newest + 1 = l.nextOffset := by simp only [newest]; omega
  apply Inv.of_wf
  · simp [roll]
  · exact h.maxPos
  · show WF (l.segs ++ [{ base := l.newest + 1, recs := [] }])
    apply h.wf.snoc
    · refine ⟨?_, by simp, by simp [Sorted]⟩
      show 0 ≤ l.newest + 1
      rw [hb]; exact h.next_nonneg
    · intro a ha
      show a.nextOffset ≤ l.newest + 1 ∧ a.base < l.newest + 1
      rw [hb]
      refine ⟨h.seg_next_le a ha, ?_⟩
      rw [hs] at ha
      rcases List.mem_append.mp ha with ha | ha
      · have := ((h.wf.split hs).1 a ha).2
        unfold CLog.nextOffset; omega
      · simp at ha; subst ha; exact hlt
    · intro a ha
      rw [getLast?_segs h.nonempty] at ha
      cases ha
      show l.newest + 1 = _
      rw [hb]; rfl

theorem ginv_setHW {s : State} (g : GInv s) (h : Int) : GInv (HWReader.setHW s h) := by
  unfold HWReader.setHW
  split
  · rename_i hc
    simp only [Gen.Log.setHWCmp, Cmp.evalInt, decide_eq_true_eq] at hc
    simp only [Gen.HWReader.setHWNotifies, if_true]
    exact ginv_wake g { s.log with hw := h } rfl rfl (by show s.log.hw ≤ h; omega) false
  · exact g

theorem readStep_not_waiting {l : CLog} {r : Reader} (hp : r.phase = .reading) :
    (readStep l r).phase ≠ .waiting := by
  unfold readStep fail
  dsimp only
  intro hw
  repeat' split at hw
  all_goals first | cases hw | (rw [hp] at hw; cases hw)

theorem initReader_not_waiting {l : CLog} {r : Reader} : (initReader l r).phase ≠ .waiting := by
  unfold initReader fail
  dsimp only
  intro hw
  repeat' split at hw
  all_goals cases hw

theorem resync_not_waiting {l : CLog} {r : Reader} {h : Int} : (resync l r h).phase ≠ .waiting := by
  unfold resync fail
  dsimp only
  intro hw
  repeat' split at hw
  all_goals cases hw

theorem ginv_step {s : State} (g : GInv s) (op : Op) : GInv (step s op) := by
  cases op with
  | append rs =>
    simp only [step]
    split
    · rename_i hadm
      split
      · rename_i l' offs ha
        simp only [admissible, Bool.and_eq_true, Bool.not_eq_true', decide_eq_true_eq, List.all_eq_true] at hadm
        have hinv := inv_appendSet g.inv hadm.1.2 hadm.2 ha
        exact ginv_log g hinv (ext_appendSet g.inv ha) (appendSet_hw ha)
      · exact g
    · exact g
  | roll =>
    simp only [step]
    split
    · exact g
    · rename_i hne
      have hne' : s.log.active.recs ≠ [] := by
        intro h; apply hne; simp [h]
      exact ginv_log g (inv_roll' g.inv hne') (ext_roll s.log) rfl
  | setHW h => exact ginv_setHW g h
  | followerHW h => exact ginv_setHW g _
  | setReadonly b =>
    simp only [step, setReadonly]
    split
    · exact ginv_wake g { s.log with readonly := b } rfl rfl (Int.le_refl _) true
    · exact ginv_logmeta g rfl rfl rfl
  | newReader id start =>
    simp only [step]
    cases hr : s.readers id with
    | some r => exact g
    | none =>
      simp only
      split
      · rename_i hs
        exact ginv_setReader g (fun r h => by rw [hr] at h; cases h) (rinv_new g.hw_ge hs)
          (by intro h; cases h)
      · exact g
  | initReader id =>
    simp only [step]
    cases hr : s.readers id with
    | none => exact g
    | some r =>
      simp only
      split
      · rename_i hp
        have ri := rinv_init g.inv (g.rinv id r hr) hp
        refine ginv_setReader g (fun r0 h => by rw [hr] at h; injection h with h; subst h; rw [hp]; intro h; cases h) ri ?_
        exact initReader_not_waiting
      · exact g
  | beginRead id =>
    simp only [step]
    cases hr : s.readers id with
    | none => exact g
    | some r =>
      simp only
      split
      · rename_i hp
        have ri := rinv_begin (l := s.log) (g.rinv id r hr) hp
        refine ginv_setReader g (fun r0 h => by rw [hr] at h; injection h with h; subst h; rw [hp]; intro h; cases h) ri ?_
        unfold beginRead
        intro hw
        split at hw <;> cases hw
      · exact g
  | readStep id =>
    simp only [step]
    cases hr : s.readers id with
    | none => exact g
    | some r =>
      simp only
      split
      · rename_i hp
        have ri := rinv_readStep g.inv (g.rinv id r hr) hp
        refine ginv_setReader g (fun r0 h => by rw [hr] at h; injection h with h; subst h; rw [hp]; intro h; cases h) ri ?_
        exact readStep_not_waiting hp
      · exact g
  | checkHW id =>
    simp only [step]
    cases hr : s.readers id with
    | none => exact g
    | some r =>
      simp only
      split
      · rename_i hp
        have ri := rinv_checkHW (l := s.log) (g.rinv id r hr) hp
        refine ginv_setReader g (fun r0 h => by rw [hr] at h; injection h with h; subst h; rw [hp]; intro h; cases h) ri ?_
        unfold checkHW
        intro hw
        split at hw <;> cases hw
      · exact g
  | registerWait id =>
    simp only [step, registerWait]
    cases hr : s.readers id with
    | none => exact g
    | some r =>
      simp only
      split
      · rename_i hp
        have ri := g.rinv id r hr
        have hlim := lim_of ri (by rw [hp]; rfl)
        have heff : r.seg = none → r.eff = r.hwSeen + 1 := fun hn =>
          eff_of ri hn (by rw [hp]; rfl)
        have hnw : ∀ r0, s.readers id = some r0 → r0.phase ≠ .waiting :=
          fun r0 h => by rw [hr] at h; injection h with h; subst h; rw [hp]; intro h; cases h
        split
        · exact ginv_setReader g hnw
            (ri.phase .atLimit (by intro h hh; cases hh) (by intro hh; cases hh)
              (fun hn => ⟨(by intro hh; cases hh), fun _ => heff hn⟩) (by intro hh; cases hh) (fun _ => hlim))
            (by intro h; cases h)
        · rename_i hc
          simp only [Gen.HWReader.waitRechecks, Bool.true_and, Gen.HWReader.waitRecheckCmp, Cmp.evalInt, decide_eq_true_eq, ne_eq, Decidable.not_not] at hc
          split
          · exact ginv_setReader g hnw
              (rinv_fail ri "readonly" (fun hn _ => heff hn) (fun _ => hlim))
              (by intro h; cases h)
          · -- parks: registered under the log lock with hwSeen = hw
            have ri' : RInv s.log { r with phase := .waiting } :=
              ri.phase .waiting (by intro h hh; cases hh) (fun _ => hc.symm)
                (fun hn => ⟨(by intro hh; cases hh), fun _ => heff hn⟩) (by intro hh; cases hh) (fun _ => hlim)
            refine ⟨g.inv, g.hw_ge, ?_, ?_, ?_⟩
            · intro j rj hj
              simp only [setReader] at hj
              split at hj
              · injection hj with hj; subst hj; exact ri'
              · exact g.rinv j rj hj
            · intro j rj hj hw
              simp only [setReader] at hj
              split at hj
              · rename_i hji; subst hji; exact List.mem_cons.mpr (Or.inl rfl)
              · exact List.mem_cons_of_mem _ (g.wait_mem j rj hj hw)
            · intro j hj
              rcases List.mem_cons.mp hj with hji | hj
              · subst hji
                exact ⟨{ r with phase := .waiting }, by simp [setReader], rfl⟩
              · obtain ⟨rj, hrj, hwj⟩ := g.mem_wait j hj
                have : j ≠ id := fun h => by
                  subst h; rw [hr] at hrj; injection hrj with hrj; subst hrj; rw [hp] at hwj; cases hwj
                exact ⟨rj, by simp [setReader, this, hrj], hwj⟩
      · exact g
  | resync id =>
    simp only [step]
    cases hr : s.readers id with
    | none => exact g
    | some r =>
      simp only
      cases hp : r.phase with
      | resync hw =>
        simp only
        have ri := rinv_resync g.inv (g.rinv id r hr) hp
        refine ginv_setReader g (fun r0 h => by rw [hr] at h; injection h with h; subst h; rw [hp]; intro h; cases h) ri ?_
        exact resync_not_waiting
      | _ => exact g
  | cancel id =>
    simp only [step]
    cases hr : s.readers id with
    | none => exact g
    | some r =>
      simp only
      split
      · rename_i hp
        have ri := g.rinv id r hr
        have hlim := lim_of ri (by rw [hp]; rfl)
        have ri' := rinv_fail ri "eof" (fun hn _ => eff_of ri hn (by rw [hp]; rfl)) (fun _ => hlim)
        refine ⟨g.inv, g.hw_ge, ?_, ?_, ?_⟩
        · intro j rj hj
          simp only [setReader] at hj
          split at hj
          · injection hj with hj; subst hj; exact ri'
          · exact g.rinv j rj hj
        · intro j rj hj hw
          simp only [setReader] at hj
          split at hj
          · injection hj with hj; subst hj; cases hw
          · rename_i hji
            exact List.mem_filter.mpr ⟨g.wait_mem j rj hj hw, by simpa using hji⟩
        · intro j hj
          obtain ⟨hj1, hj2⟩ := List.mem_filter.mp hj
          have hji : j ≠ id := by simpa using hj2
          obtain ⟨rj, hrj, hwj⟩ := g.mem_wait j hj1
          exact ⟨rj, by simp [setReader, hji, hrj], hwj⟩
      · exact g

theorem ginv_run {s : State} (g : GInv s) (ops : List Op) : GInv (run s ops) := by
  induction ops generalizing s with
  | nil => exact g
  | cons op ops ih => exact ih (ginv_step g op)

theorem ginv_init {l : CLog} (h : Inv l) (hhw : -1 ≤ l.hw) : GInv (State.init l) :=
  ⟨h, hhw, fun _ _ hr => (by cases hr), fun _ _ hr => (by cases hr), fun _ hm => (by cases hm)⟩

/-! ### What the invariant says about the observation -/

theorem mem_take_of_le {α} {xs : List α} {a b : Nat} {x : α} (hab : a ≤ b) (h : x ∈ xs.take a) :
    x ∈ xs.take b := by
  have : xs.take a = (xs.take b).take a := by
    rw [List.take_take]; congr 1; omega
  rw [this] at h
  exact List.mem_of_mem_take h

theorem pos_before_le {l : CLog} {r : Reader} {i h : Nat} {sg sh : Seg} (inv : Inv l)
    (p : Pos l r i h sg sh) : ∀ x ∈ before l.segs i r.slot, x.offset ≤ r.hwSeen := by
  intro x hx
  rcases mem_before hx with ⟨j, s, hj, hs, hxs⟩ | ⟨s, hs, hxs⟩
  · have := p.lower j s (by have := p.i_le; omega) hs
    have := (inv.wfc.segOK (List.mem_of_getElem? hs)).lt_next x hxs
    omega
  · rw [p.sgAt] at hs; injection hs with hs; subst hs
    rcases Nat.lt_or_ge i h with hlt | hge
    · have := p.lower i sg hlt p.sgAt
      have := (inv.wfc.segOK (List.mem_of_getElem? p.sgAt)).lt_next x (List.mem_of_mem_take hxs)
      omega
    · have hih : i = h := by have := p.i_le; omega
      subst hih
      have : sg = sh := by have := p.sgAt; rw [p.shAt] at this; injection this with this; exact this.symm
      subst this
      exact p.lowerH x (mem_take_of_le (p.same rfl) hxs)

/-- Nothing delivered lies above the HW value the reader has seen. -/
theorem delivered_le {l : CLog} {r : Reader} (inv : Inv l) (ri : RInv l r) :
    ∀ x ∈ r.delivered, x.offset ≤ r.hwSeen := by
  intro x hx
  cases hs : r.seg with
  | none => rw [(ri.unpos hs).1] at hx; cases hx
  | some i =>
    obtain ⟨_, h, sg, sh, p, _⟩ := ri.pos i hs
    rw [p.deliv] at hx
    exact pos_before_le inv p x (List.mem_filter.mp hx).1

/-- The deliveries are an initial part of the retained records at or above the effective start. -/
theorem delivered_prefix {l : CLog} {r : Reader} (ri : RInv l r) :
    r.delivered <+: l.abs.filter (fun x => decide (r.eff ≤ x.offset)) := by
  cases hs : r.seg with
  | none => rw [(ri.unpos hs).1]; exact List.nil_prefix
  | some i =>
    obtain ⟨_, h, sg, sh, p, _⟩ := ri.pos i hs
    rw [abs_split p.sgAt r.slot, List.filter_append, ← p.deliv]
    exact List.prefix_append _ _

/-- A reader standing at its limit has delivered every retained record in `[eff, hwSeen]`. -/
theorem delivered_complete {l : CLog} {r : Reader} (inv : Inv l) (ri : RInv l r)
    (ha : atLim r.phase = true) :
    r.delivered = l.abs.filter (fun x => decide (r.eff ≤ x.offset ∧ x.offset ≤ r.hwSeen)) := by
  cases hs : r.seg with
  | none =>
    rw [(ri.unpos hs).1]
    symm
    apply List.filter_eq_nil_iff.mpr
    intro x _
    have := eff_of ri hs ha
    simp; omega
  | some i =>
    obtain ⟨_, h, sg, sh, p, hl⟩ := ri.pos i hs
    obtain ⟨hih, hsl⟩ := hl ha
    subst hih
    have hsg : sg = sh := by have := p.sgAt; rw [p.shAt] at this; injection this with this; exact this.symm
    subst hsg
    rw [abs_split p.sgAt r.slot, List.filter_append, List.filter_append]
    have h1 : (before l.segs i r.slot).filter (fun x => decide (r.eff ≤ x.offset ∧ x.offset ≤ r.hwSeen)) =
        r.delivered := by
      rw [p.deliv]
      apply List.filter_congr
      intro x hx
      have := pos_before_le inv p x hx
      simp; omega
    have h2 : (sg.recs.drop r.slot).filter (fun x => decide (r.eff ≤ x.offset ∧ x.offset ≤ r.hwSeen)) = [] := by
      apply List.filter_eq_nil_iff.mpr
      intro x hx
      have := p.upperH x (by rw [← hsl]; exact hx)
      simp; omega
    have h3 : ((l.segs.drop (i + 1)).flatMap Seg.recs).filter
        (fun x => decide (r.eff ≤ x.offset ∧ x.offset ≤ r.hwSeen)) = [] := by
      apply List.filter_eq_nil_iff.mpr
      intro x hx
      have := inv.wfc.post_ge (seg_split p.sgAt) x hx
      have := p.nextH
      simp; omega
    rw [h1, h2, h3]
    simp

/-- Deliveries are in strictly increasing offset order (hence no duplicates). -/
theorem delivered_sorted {l : CLog} {r : Reader} (inv : Inv l) (ri : RInv l r) : Sorted r.delivered :=
  List.Pairwise.sublist ((delivered_prefix ri).sublist.trans List.filter_sublist) inv.sorted

/-! ### HW monotonicity, frame properties, enabledness -/

theorem wakeAll_log (s : State) (ro : Bool) : (wakeAll s ro).log = s.log := rfl

theorem setHW_hw_le (s : State) (h : Int) : s.log.hw ≤ (HWReader.setHW s h).log.hw := by
  unfold HWReader.setHW
  split
  · rename_i hc
    simp only [Gen.Log.setHWCmp, Cmp.evalInt, decide_eq_true_eq] at hc
    split
    · show s.log.hw ≤ h; omega
    · show s.log.hw ≤ h; omega
  · exact Int.le_refl _

theorem step_hw_le (s : State) (op : Op) : s.log.hw ≤ (step s op).log.hw := by
  cases op with
  | append rs =>
    simp only [step]
    split
    · split
      · rename_i l' offs ha
        show s.log.hw ≤ l'.hw
        rw [appendSet_hw ha]; exact Int.le_refl _
      · exact Int.le_refl _
    · exact Int.le_refl _
  | roll => simp only [step]; split <;> exact Int.le_refl _
  | setHW h => exact setHW_hw_le s h
  | followerHW h => exact setHW_hw_le s _
  | setReadonly b => simp only [step, setReadonly]; split <;> exact Int.le_refl _
  | newReader id start =>
    simp only [step]
    cases s.readers id <;> simp only <;> (try split) <;> exact Int.le_refl _
  | initReader id =>
    simp only [step]
    cases s.readers id <;> simp only <;> (try split) <;> exact Int.le_refl _
  | beginRead id =>
    simp only [step]
    cases s.readers id <;> simp only <;> (try split) <;> exact Int.le_refl _
  | readStep id =>
    simp only [step]
    cases s.readers id <;> simp only <;> (try split) <;> exact Int.le_refl _
  | checkHW id =>
    simp only [step]
    cases s.readers id <;> simp only <;> (try split) <;> exact Int.le_refl _
  | registerWait id =>
    simp only [step, registerWait]
    cases s.readers id <;> simp only <;> (repeat' split) <;> exact Int.le_refl _
  | resync id =>
    simp only [step]
    cases s.readers id <;> simp only <;> (try split) <;> exact Int.le_refl _
  | cancel id =>
    simp only [step]
    cases s.readers id <;> simp only <;> (try split) <;> exact Int.le_refl _

theorem run_hw_le (s : State) (ops : List Op) : s.log.hw ≤ (run s ops).log.hw := by
  induction ops generalizing s with
  | nil => exact Int.le_refl _
  | cons op ops ih => exact Int.le_trans (step_hw_le s op) (ih (step s op))

/-- A reader's own operation touches neither the log nor any other reader. -/
theorem step_frame (s : State) (op : Op) {id : Nat} (hop : op.reader = some id) :
    (step s op).log = s.log ∧ ∀ j, j ≠ id → (step s op).readers j = s.readers j := by
  cases op with
  | append _ | roll | setHW _ | followerHW _ | setReadonly _ => cases hop
  | newReader id' start =>
    injection hop with hop; subst hop
    simp only [step]
    cases s.readers id' <;> simp only <;> (try split) <;>
      (constructor <;> first | trivial | rfl | (intro j hj; simp [setReader, hj]))
  | initReader id' =>
    injection hop with hop; subst hop
    simp only [step]
    cases s.readers id' <;> simp only <;> (try split) <;>
      (constructor <;> first | trivial | rfl | (intro j hj; simp [setReader, hj]))
  | beginRead id' =>
    injection hop with hop; subst hop
    simp only [step]
    cases s.readers id' <;> simp only <;> (try split) <;>
      (constructor <;> first | trivial | rfl | (intro j hj; simp [setReader, hj]))
  | readStep id' =>
    injection hop with hop; subst hop
    simp only [step]
    cases s.readers id' <;> simp only <;> (try split) <;>
      (constructor <;> first | trivial | rfl | (intro j hj; simp [setReader, hj]))
  | checkHW id' =>
    injection hop with hop; subst hop
    simp only [step]
    cases s.readers id' <;> simp only <;> (try split) <;>
      (constructor <;> first | trivial | rfl | (intro j hj; simp [setReader, hj]))
  | registerWait id' =>
    injection hop with hop; subst hop
    simp only [step, registerWait]
    cases s.readers id' <;> simp only <;> (repeat' split) <;>
      (constructor <;> first | trivial | rfl | (intro j hj; simp [setReader, hj]))
  | resync id' =>
    injection hop with hop; subst hop
    simp only [step]
    cases s.readers id' <;> simp only <;> (try split) <;>
      (constructor <;> first | trivial | rfl | (intro j hj; simp [setReader, hj]))
  | cancel id' =>
    injection hop with hop; subst hop
    simp only [step]
    cases s.readers id' <;> simp only <;> (try split) <;>
      (constructor <;> first | trivial | rfl | (intro j hj; simp [setReader, hj]))

theorem setReader_self (s : State) (id : Nat) (x : Reader) : (setReader s id x).readers id = some x := by
  simp [setReader]

theorem initReader_not_creating {l : CLog} {r : Reader} : (initReader l r).phase ≠ .creating := by
  unfold initReader fail
  dsimp only
  intro hw
  repeat' split at hw
  all_goals cases hw

theorem resync_not_resync {l : CLog} {r : Reader} {h h' : Int} : (resync l r h).phase ≠ .resync h' := by
  unfold resync fail
  dsimp only
  intro hw
  repeat' split at hw
  all_goals cases hw

/-- ENABLEDNESS: a reader that is neither parked nor dead has an operation, and that operation
changes the reader (it is never a stutter). -/
theorem step_changes {s : State} {id : Nat} {r : Reader} {op : Op} (g : GInv s)
    (hr : s.readers id = some r) (hop : nextOp id r.phase = some op) :
    (step s op).readers id ≠ some r := by
  have ri := g.rinv id r hr
  cases hp : r.phase with
  | creating =>
    rw [hp] at hop; injection hop with hop; subst hop
    simp only [step, hr, hp, if_true]
    rw [setReader_self]
    intro h; injection h with h
    have := initReader_not_creating (l := s.log) (r := r)
    rw [h, hp] at this; exact this rfl
  | idle =>
    rw [hp] at hop; injection hop with hop; subst hop
    simp only [step, hr, hp, if_true]
    rw [setReader_self]
    intro h; injection h with h
    have := congrArg Reader.phase h
    unfold beginRead at this
    split at this <;> (rw [hp] at this; cases this)
  | reading =>
    rw [hp] at hop; injection hop with hop; subst hop
    simp only [step, hr, hp, if_true]
    rw [setReader_self]
    intro h; injection h with h
    exact (readStep_ok g.inv ri hp).2.2 h
  | atLimit =>
    rw [hp] at hop; injection hop with hop; subst hop
    simp only [step, hr, hp, if_true]
    rw [setReader_self]
    intro h; injection h with h
    have := congrArg Reader.phase h
    unfold checkHW at this
    split at this <;> (rw [hp] at this; cases this)
  | mustWait =>
    rw [hp] at hop; injection hop with hop; subst hop
    simp only [step, registerWait, hr, hp, if_true]
    split
    · rw [setReader_self]
      intro h; injection h with h
      have := congrArg Reader.phase h
      rw [hp] at this; cases this
    · split
      · rw [setReader_self]
        intro h; injection h with h
        have := congrArg Reader.phase h
        rw [hp] at this; cases this
      · show (setReader s id { r with phase := .waiting }).readers id ≠ some r
        rw [setReader_self]
        intro h; injection h with h
        have := congrArg Reader.phase h
        rw [hp] at this; cases this
  | resync hw =>
    rw [hp] at hop; injection hop with hop; subst hop
    simp only [step, hr, hp]
    rw [setReader_self]
    intro h; injection h with h
    have := resync_not_resync (l := s.log) (r := r) (h := hw) (h' := hw)
    rw [h, hp] at this; exact this rfl
  | waiting => rw [hp] at hop; cases hop
  | failed e => rw [hp] at hop; cases hop

/-! ### Leader discipline: the HW only ever names messages the log has -/

/-- `h` is `-1` (nothing committed) or at most the offset of some retained record. -/
def Covered (l : CLog) (h : Int) : Prop := h ≤ -1 ∨ ∃ x ∈ l.abs, h ≤ x.offset

theorem Covered.mono {l l' : CLog} {h : Int} (c : Covered l h) (hs : ∀ x ∈ l.abs, x ∈ l'.abs) : Covered l' h := by
  rcases c with c | ⟨x, hx, hh⟩
  · exact Or.inl c
  · exact Or.inr ⟨x, hs x hx, hh⟩

theorem findSegmentIdx_exists {l : CLog} (inv : Inv l) {o : Int} (hx : ∃ x ∈ l.abs, o ≤ x.offset) :
    ∃ j, findSegmentIdx l.segs o = some j := by
  rcases first_seg_split l.segs o with hall | ⟨pre, x, post, hsp, hxn, hpre⟩
  · exfalso
    obtain ⟨x, hxa, hox⟩ := hx
    obtain ⟨j, sg, hsg, hxs⟩ := mem_abs_iff.mp hxa
    have := hall sg (List.mem_of_getElem? hsg)
    have := (inv.wfc.segOK (List.mem_of_getElem? hsg)).lt_next x hxs
    omega
  · exact ⟨pre.length, findSegmentIdx_of_split inv.wfc hsp hxn hpre⟩

/-- The segment `findSegment` returns for an offset some retained record reaches is not empty. -/
theorem found_nonempty {l : CLog} (inv : Inv l) {o : Int} {j : Nat} {sg : Seg}
    (hf : findSegmentIdx l.segs o = some j) (hsg : l.segs[j]? = some sg)
    (hx : ∃ x ∈ l.abs, o ≤ x.offset) : sg.recs ≠ [] := by
  intro hemp
  obtain ⟨sg', hsg', hon, hpre⟩ := findSegmentIdx_some inv.wfc hf
  rw [hsg] at hsg'; injection hsg' with hsg'; subst hsg'
  obtain ⟨x, hxa, hox⟩ := hx
  obtain ⟨m, sm, hsm, hxs⟩ := mem_abs_iff.mp hxa
  rcases Nat.lt_trichotomy m j with hlt | heq | hgt
  · have := hpre sm (get_mem_take hlt hsm)
    have := (inv.wfc.segOK (List.mem_of_getElem? hsm)).lt_next x hxs
    omega
  · subst heq
    rw [hsg] at hsm; injection hsm with hsm; subst hsm
    rw [hemp] at hxs; cases hxs
  · have hml := (List.getElem?_eq_some_iff.mp hsm).1
    obtain ⟨b, hb⟩ : ∃ b, l.segs[j + 1]? = some b :=
      ⟨l.segs[j + 1]'(by omega), List.getElem?_eq_getElem (by omega)⟩
    have hlink := inv.link j sg b hsg hb
    have hlt : sg.base < b.base := by
      obtain ⟨hj, rfl⟩ := List.getElem?_eq_some_iff.mp hsg
      obtain ⟨hj1, rfl⟩ := List.getElem?_eq_some_iff.mp hb
      exact ((List.pairwise_iff_getElem.mp inv.chain) j (j + 1) hj hj1 (by omega)).2
    rw [nextOffset_nil hemp] at hlink
    omega

theorem hwPos_succeeds {l : CLog} (inv : Inv l) {h : Int} (hx : ∃ x ∈ l.abs, h ≤ x.offset) :
    ∃ i k, hwPos l.segs h = .ok (i, k) := by
  obtain ⟨j, hf⟩ := findSegmentIdx_exists inv hx
  obtain ⟨sg, hsg, hon, _⟩ := findSegmentIdx_some inv.wfc hf
  have hne := found_nonempty inv hf hsg hx
  obtain ⟨k, hk⟩ := findEntryIdx_exists (inv.wfc.segOK (List.mem_of_getElem? hsg)) hon hne
  unfold hwPos
  simp only [hf, hsg, hk]
  cases sg.recs[k]? with
  | none => exact ⟨j, k + 1, rfl⟩
  | some r => simp only; split <;> exact ⟨_, _, rfl⟩

theorem initReader_nofail {l : CLog} {r : Reader} (inv : Inv l) (ri : RInv l r) (hc : Covered l r.hwSeen) :
    ∀ e, (initReader l r).phase ≠ .failed e := by
  intro e
  unfold initReader
  simp only
  split
  · intro h; cases h
  · rename_i hcond
    have hle : r.start ≤ r.hwSeen := by
      simp only [Gen.Log.readerBeyondHWCmp, Cmp.evalInt, Bool.or_eq_true, decide_eq_true_eq, not_or] at hcond
      omega
    have hne : r.hwSeen ≠ -1 := by have := ri.start_nonneg; omega
    have hx : ∃ x ∈ l.abs, r.hwSeen ≤ x.offset := by
      rcases hc with h | h
      · have := ri.start_nonneg; omega
      · exact h
    obtain ⟨hi, hk, hp⟩ := hwPos_succeeds inv hx
    have hx' : ∃ x ∈ l.abs, r.start ≤ x.offset := by
      obtain ⟨x, hxa, hxo⟩ := hx; exact ⟨x, hxa, by omega⟩
    obtain ⟨j, hf⟩ := findSegmentIdx_exists inv hx'
    obtain ⟨sg, hsg, hon, _⟩ := findSegmentIdx_some inv.wfc hf
    simp only [hne, ne_eq, not_false_eq_true, if_true, hp, hf, hsg]
    split
    · obtain ⟨k, hk'⟩ := findEntryIdx_exists (inv.wfc.segOK (List.mem_of_getElem? hsg)) hon
        (found_nonempty inv hf hsg hx')
      simp only [hk']
      intro h; cases h
    · intro h; cases h

theorem resync_nofail {l : CLog} {r : Reader} {hw : Int} (inv : Inv l) (ri : RInv l r)
    (hp : r.phase = .resync hw) (hc : Covered l hw) : ∀ e, (resync l r hw).phase ≠ .failed e := by
  obtain ⟨hlt, _⟩ := ri.resync_hw hw hp
  have hge := ri.hw_ge
  have hx : ∃ x ∈ l.abs, hw ≤ x.offset := by
    rcases hc with h | h
    · omega
    · exact h
  obtain ⟨hi, hk, hpos⟩ := hwPos_succeeds inv hx
  intro e
  cases hs : r.seg with
  | some i => rw [resync_some hpos hs]; intro h; cases h
  | none =>
    rw [resync_none hpos hs]
    have heff := eff_of ri hs (by rw [hp]; rfl)
    have hx' : ∃ x ∈ l.abs, r.eff ≤ x.offset := by
      obtain ⟨x, hxa, hxo⟩ := hx; exact ⟨x, hxa, by omega⟩
    obtain ⟨j, hf⟩ := findSegmentIdx_exists inv hx'
    obtain ⟨sg, hsg, hon, _⟩ := findSegmentIdx_some inv.wfc hf
    obtain ⟨k, hk'⟩ := findEntryIdx_exists (inv.wfc.segOK (List.mem_of_getElem? hsg)) hon
      (found_nonempty inv hf hsg hx')
    simp only [hf, hsg, hk']
    intro h; cases h

/-- Invariant of runs in which the HW writers are disciplined (`Disciplined`). -/
structure LInv (s : State) : Prop where
  hw : Covered s.log s.log.hw
  /-- an empty log has nothing left to commit -/
  empty : s.log.abs = [] → s.log.newest ≤ s.log.hw
  seen : ∀ id r, s.readers id = some r → Covered s.log r.hwSeen
  rs : ∀ id r h, s.readers id = some r → r.phase = .resync h → Covered s.log h
  /-- the only ways a committed reader ends: end of a read-only log, or cancellation -/
  nofail : ∀ id r e, s.readers id = some r → r.phase = .failed e → e = "readonly" ∨ e = "eof"

/-- The side condition on HW writers: a leader commits only messages it has
(`SetHighWatermark(offsets[len-1])`, `SetHighWatermark(minLatest)`); a follower is disciplined
iff the regenerated shape of its call caps the leader's HW at its own log end. -/
def Disciplined (s : State) : Op → Prop
  | .setHW h => Covered s.log h
  | .followerHW _ => Gen.HWReader.followerHWCapped = true
  | _ => True

theorem linv_setReader {s : State} {id : Nat} {r' : Reader} (li : LInv s)
    (h1 : Covered s.log r'.hwSeen) (h2 : ∀ h, r'.phase = .resync h → Covered s.log h)
    (h3 : ∀ e, r'.phase = .failed e → e = "readonly" ∨ e = "eof") : LInv (setReader s id r') := by
  refine ⟨li.hw, li.empty, ?_, ?_, ?_⟩
  · intro j rj hj
    simp only [setReader] at hj
    split at hj
    · injection hj with hj; subst hj; exact h1
    · exact li.seen j rj hj
  · intro j rj h hj hp
    simp only [setReader] at hj
    split at hj
    · injection hj with hj; subst hj; exact h2 h hp
    · exact li.rs j rj h hj hp
  · intro j rj e hj hp
    simp only [setReader] at hj
    split at hj
    · injection hj with hj; subst hj; exact h3 e hp
    · exact li.nofail j rj e hj hp

theorem wakeAll_reader {s : State} {ro : Bool} {j : Nat} {r' : Reader} (h : (wakeAll s ro).readers j = some r') :
    ∃ r, s.readers j = some r ∧ r'.hwSeen = r.hwSeen ∧
      (r' = r ∨ r'.phase = (if ro then .failed "readonly" else .atLimit)) := by
  simp only [wakeAll] at h
  cases hr : s.readers j with
  | none => simp [hr] at h
  | some r =>
    simp only [hr] at h
    split at h
    · injection h with h; subst h
      exact ⟨r, rfl, rfl, Or.inr rfl⟩
    · injection h with h; subst h
      exact ⟨r, rfl, rfl, Or.inl rfl⟩

/-- LInv when only HW / flag change and waiters are woken. -/
theorem linv_wake {s : State} (li : LInv s) (l' : CLog) (hs : l'.segs = s.log.segs)
    (hhw : Covered l' l'.hw) (hemp : l'.abs = [] → l'.newest ≤ l'.hw) (ro : Bool) :
    LInv (wakeAll { s with log := l' } ro) := by
  have habs : ∀ x ∈ s.log.abs, x ∈ l'.abs := by
    intro x hx; unfold abs at hx ⊢; rw [hs]; exact hx
  refine ⟨hhw, hemp, ?_, ?_, ?_⟩
  · intro j r' hj
    obtain ⟨r, hr, hse, _⟩ := wakeAll_reader hj
    rw [hse]; exact (li.seen j r hr).mono habs
  · intro j r' h hj hp
    obtain ⟨r, hr, _, hor⟩ := wakeAll_reader hj
    rcases hor with rfl | hph
    · exact (li.rs j r' h hr hp).mono habs
    · rw [hph] at hp; cases ro <;> cases hp
  · intro j r' e hj hp
    obtain ⟨r, hr, _, hor⟩ := wakeAll_reader hj
    rcases hor with rfl | hph
    · exact li.nofail j r' e hr hp
    · rw [hph] at hp
      cases ro with
      | true => injection hp with hp; exact Or.inl hp.symm
      | false => cases hp

theorem linv_setHW {s : State} (g : GInv s) (li : LInv s) (h : Int)
    (hc : h > s.log.hw → Covered s.log h) : LInv (HWReader.setHW s h) := by
  unfold HWReader.setHW
  split
  · rename_i hcond
    simp only [Gen.Log.setHWCmp, Cmp.evalInt, decide_eq_true_eq] at hcond
    simp only [Gen.HWReader.setHWNotifies, if_true]
    have hcov := hc hcond
    refine linv_wake li { s.log with hw := h } rfl hcov ?_ false
    intro hemp
    have hemp' : s.log.abs = [] := hemp
    rcases hcov with hle | ⟨x, hx, _⟩
    · have := g.hw_ge; omega
    · rw [hemp'] at hx; cases hx
  · exact li

theorem newest_eq_last {l : CLog} (inv : Inv l) (hne : l.abs ≠ []) : ∃ z ∈ l.abs, l.newest = z.offset := by
  obtain ⟨z, hz⟩ : ∃ z, l.abs.getLast? = some z := by
    cases h : l.abs.getLast? with
    | none => exact absurd (List.getLast?_eq_none_iff.mp h) hne
    | some z => exact ⟨z, rfl⟩
  have := nextOffset_last inv hz
  exact ⟨z, List.mem_of_getLast? hz, by unfold newest; omega⟩

theorem linv_step {s : State} (g : GInv s) (li : LInv s) {op : Op} (d : Disciplined s op) :
    LInv (step s op) := by
  cases op with
  | append rs =>
    simp only [step]
    split
    · rename_i hadm
      split
      · rename_i l' offs ha
        simp only [admissible, Bool.and_eq_true, Bool.not_eq_true', decide_eq_true_eq, List.all_eq_true] at hadm
        have e := ext_appendSet g.inv ha
        have habs := (appendSet_full g.inv ha).1
        have hhw := appendSet_hw ha
        have hsub : ∀ x ∈ s.log.abs, x ∈ l'.abs := fun x hx => e.abs_sub hx
        refine ⟨by show Covered l' l'.hw; rw [hhw]; exact li.hw.mono hsub, ?_,
          fun j r hr => (li.seen j r hr).mono hsub, fun j r h hr hp => (li.rs j r h hr hp).mono hsub, li.nofail⟩
        intro hemp
        exfalso
        have : l'.abs = s.log.abs ++ rs := habs
        rw [this] at hemp
        have hrs : rs = [] := (List.append_eq_nil_iff.mp hemp).2
        have := hadm.1.1
        simp [hrs] at this
      · exact li
    · exact li
  | roll =>
    simp only [step]
    split
    · exact li
    · have habs := abs_roll s.log
      have hnew : s.log.roll.newest = s.log.newest := by unfold newest; rw [nextOffset_roll]
      have hsub : ∀ x ∈ s.log.abs, x ∈ s.log.roll.abs := fun x hx => by rw [habs]; exact hx
      refine ⟨li.hw.mono hsub, ?_, fun j r hr => (li.seen j r hr).mono hsub,
        fun j r h hr hp => (li.rs j r h hr hp).mono hsub, li.nofail⟩
      intro hemp
      show s.log.roll.newest ≤ s.log.hw
      rw [hnew]; exact li.empty (by rw [← habs]; exact hemp)
  | setHW h => exact linv_setHW g li h (fun _ => d)
  | followerHW x =>
    refine linv_setHW g li _ ?_
    intro hgt
    have hcap : Gen.HWReader.followerHWCapped = true := d
    have harg : followerArg s.log x ≤ s.log.newest := by
      unfold followerArg; rw [hcap]; simp only [if_true]; split <;> omega
    by_cases hemp : s.log.abs = []
    · have := li.empty hemp; omega
    · obtain ⟨z, hz, hzn⟩ := newest_eq_last g.inv hemp
      exact Or.inr ⟨z, hz, by omega⟩
  | setReadonly b =>
    simp only [step, setReadonly]
    split
    · exact linv_wake li { s.log with readonly := b } rfl li.hw li.empty true
    · exact ⟨li.hw, li.empty, li.seen, li.rs, li.nofail⟩
  | newReader id start =>
    simp only [step]
    cases hr : s.readers id with
    | some r => exact li
    | none =>
      simp only
      split
      · exact linv_setReader li li.hw (by intro h hh; cases hh) (by intro e hh; cases hh)
      · exact li
  | initReader id =>
    simp only [step]
    cases hr : s.readers id with
    | none => exact li
    | some r =>
      simp only
      split
      · rename_i hp
        have ri := g.rinv id r hr
        have hsame : (initReader s.log r).hwSeen = r.hwSeen := by
          unfold initReader fail; dsimp only; repeat' split
          all_goals rfl
        refine linv_setReader li (by rw [hsame]; exact li.seen id r hr) ?_ ?_
        · intro h hh
          exfalso
          revert hh
          unfold initReader fail; dsimp only
          intro hh
          repeat' split at hh
          all_goals cases hh
        · intro e hh
          exact absurd hh (initReader_nofail g.inv ri (li.seen id r hr) e)
      · exact li
  | beginRead id =>
    simp only [step]
    cases hr : s.readers id with
    | none => exact li
    | some r =>
      simp only
      split
      · refine linv_setReader li ?_ ?_ ?_
        · have : (beginRead s.log r).hwSeen = r.hwSeen := by unfold beginRead; split <;> rfl
          rw [this]; exact li.seen id r hr
        · intro h hh; unfold beginRead at hh; split at hh <;> cases hh
        · intro e hh; unfold beginRead at hh; split at hh <;> cases hh
      · exact li
  | readStep id =>
    simp only [step]
    cases hr : s.readers id with
    | none => exact li
    | some r =>
      simp only
      split
      · rename_i hp
        have ri := g.rinv id r hr
        have hsame : (readStep s.log r).hwSeen = r.hwSeen := by
          unfold readStep fail; dsimp only; repeat' split
          all_goals rfl
        refine linv_setReader li (by rw [hsame]; exact li.seen id r hr) ?_ ?_
        · intro h hh
          exfalso
          revert hh
          unfold readStep fail; dsimp only
          intro hh
          repeat' split at hh
          all_goals first | cases hh | (rw [hp] at hh; cases hh)
        · intro e hh
          exact absurd hh ((readStep_ok g.inv ri hp).2.1 e)
      · exact li
  | checkHW id =>
    simp only [step]
    cases hr : s.readers id with
    | none => exact li
    | some r =>
      simp only
      split
      · refine linv_setReader li ?_ ?_ ?_
        · have : (checkHW s.log r).hwSeen = r.hwSeen := by unfold checkHW; split <;> rfl
          rw [this]; exact li.seen id r hr
        · intro h hh
          unfold checkHW at hh
          split at hh
          · cases hh
          · injection hh with hh; subst hh; exact li.hw
        · intro e hh; unfold checkHW at hh; split at hh <;> cases hh
      · exact li
  | registerWait id =>
    simp only [step, registerWait]
    cases hr : s.readers id with
    | none => exact li
    | some r =>
      simp only
      split
      · split
        · exact linv_setReader li (li.seen id r hr) (by intro h hh; cases hh) (by intro e hh; cases hh)
        · split
          · refine linv_setReader li (li.seen id r hr) (by intro h hh; cases hh) ?_
            intro e hh
            injection hh with hh
            exact Or.inl hh.symm
          · have li' : LInv (setReader s id { r with phase := .waiting }) :=
              linv_setReader li (li.seen id r hr) (by intro h hh; cases hh) (by intro e hh; cases hh)
            exact ⟨li'.hw, li'.empty, li'.seen, li'.rs, li'.nofail⟩
      · exact li
  | resync id =>
    simp only [step]
    cases hr : s.readers id with
    | none => exact li
    | some r =>
      simp only
      cases hp : r.phase with
      | resync hw =>
        simp only
        have ri := g.rinv id r hr
        have hc := li.rs id r hw hr hp
        refine linv_setReader li ?_ ?_ ?_
        · have : (resync s.log r hw).hwSeen = hw ∨ (resync s.log r hw).hwSeen = r.hwSeen := by
            unfold resync fail; dsimp only
            repeat' split
            all_goals first | exact Or.inl rfl | exact Or.inr rfl
          rcases this with h | h <;> rw [h]
          · exact hc
          · exact li.seen id r hr
        · intro h hh; exact absurd hh resync_not_resync
        · intro e hh; exact absurd hh (resync_nofail g.inv ri hp hc e)
      | _ => exact li
  | cancel id =>
    simp only [step]
    cases hr : s.readers id with
    | none => exact li
    | some r =>
      simp only
      split
      · have li' : LInv (setReader s id (fail r "eof")) := by
          refine linv_setReader li (li.seen id r hr) (by intro h hh; cases hh) ?_
          intro e hh
          injection hh with hh
          exact Or.inr hh.symm
        exact ⟨li'.hw, li'.empty, li'.seen, li'.rs, li'.nofail⟩
      · exact li

theorem linv_init {l : CLog} (h1 : Covered l l.hw) (h2 : l.abs = [] → l.newest ≤ l.hw) : LInv (State.init l) :=
  ⟨h1, h2, fun _ _ hr => (by cases hr), fun _ _ _ hr => (by cases hr), fun _ _ _ hr => (by cases hr)⟩

/-- Runs whose every operation is disciplined in the state it is applied to. -/
def DisciplinedRun : State → List Op → Prop
  | _, [] => True
  | s, op :: ops => Disciplined s op ∧ DisciplinedRun (step s op) ops

theorem linv_run {s : State} (g : GInv s) (li : LInv s) {ops : List Op} (d : DisciplinedRun s ops) :
    LInv (run s ops) := by
  induction ops generalizing s with
  | nil => exact li
  | cons op ops ih => exact ih (ginv_step g op) (linv_step g li d.1) d.2

/-! ### What the re-check of `waitForHW` is for: the variant without it -/

theorem stepWith_gen (s : State) (op : Op) : stepWith Gen.HWReader.waitRechecks s op = step s op := by
  cases op <;> rfl

theorem runWith_gen (s : State) (ops : List Op) : runWith Gen.HWReader.waitRechecks s ops = run s ops := by
  induction ops generalizing s with
  | nil => rfl
  | cons op ops ih => simp only [runWith, run, List.foldl_cons, stepWith_gen] at *; exact ih _

/-- Operations after which nobody notifies the registered waiters: everything except an effective
HW advance, a change of the read-only flag, and the cancellation of reader `id`'s own context. -/
def Quiet (id : Nat) (s : State) : Op → Prop
  | .setHW h => h ≤ s.log.hw
  | .followerHW h => followerArg s.log h ≤ s.log.hw
  | .setReadonly _ => False
  | .cancel j => j ≠ id
  | _ => True

def QuietRun (b : Bool) (id : Nat) : State → List Op → Prop
  | _, [] => True
  | s, op :: ops => Quiet id s op ∧ QuietRun b id (stepWith b s op) ops

theorem setHW_noop {s : State} {h : Int} (hle : h ≤ s.log.hw) : HWReader.setHW s h = s := by
  unfold HWReader.setHW
  have : Gen.Log.setHWCmp.evalInt h s.log.hw = false := by
    simp only [Gen.Log.setHWCmp, Cmp.evalInt, decide_eq_false_iff_not]; omega
  rw [this]; rfl

/-- A PARKED reader stays exactly as it is — and the HW stays where it is — under every quiet
operation, whether or not `waitForHW` re-checks (the re-check concerns only the moment of parking):
appends, rolls, other readers and its own scheduling do not wake it. -/
theorem parked_stays (b : Bool) {s : State} {id : Nat} {r : Reader} (op : Op)
    (hr : s.readers id = some r) (hw : r.phase = .waiting) (q : Quiet id s op) :
    (stepWith b s op).readers id = some r ∧ (stepWith b s op).log.hw = s.log.hw := by
  cases op with
  | append rs =>
    show (step s (.append rs)).readers id = some r ∧ (step s (.append rs)).log.hw = s.log.hw
    simp only [step]
    split
    · split
      · rename_i l' offs ha
        exact ⟨hr, appendSet_hw ha⟩
      · exact ⟨hr, rfl⟩
    · exact ⟨hr, rfl⟩
  | roll =>
    show (step s .roll).readers id = some r ∧ (step s .roll).log.hw = s.log.hw
    simp only [step]; split <;> exact ⟨hr, rfl⟩
  | setHW h =>
    show (step s (.setHW h)).readers id = some r ∧ (step s (.setHW h)).log.hw = s.log.hw
    simp only [step, setHW_noop (show h ≤ s.log.hw from q)]; exact ⟨hr, trivial⟩
  | followerHW h =>
    show (step s (.followerHW h)).readers id = some r ∧ (step s (.followerHW h)).log.hw = s.log.hw
    simp only [step, setHW_noop (show followerArg s.log h ≤ s.log.hw from q)]; exact ⟨hr, trivial⟩
  | setReadonly _ => exact False.elim q
  | newReader j start =>
    show (step s (.newReader j start)).readers id = some r ∧ (step s (.newReader j start)).log.hw = s.log.hw
    by_cases hj : j = id
    · subst hj; simp [step, hr]
    · have f := step_frame s (.newReader j start) (id := j) rfl
      exact ⟨by rw [f.2 id (Ne.symm hj)]; exact hr, by rw [f.1]⟩
  | initReader j =>
    show (step s (.initReader j)).readers id = some r ∧ (step s (.initReader j)).log.hw = s.log.hw
    by_cases hj : j = id
    · subst hj; simp [step, hr, hw]
    · have f := step_frame s (.initReader j) (id := j) rfl
      exact ⟨by rw [f.2 id (Ne.symm hj)]; exact hr, by rw [f.1]⟩
  | beginRead j =>
    show (step s (.beginRead j)).readers id = some r ∧ (step s (.beginRead j)).log.hw = s.log.hw
    by_cases hj : j = id
    · subst hj; simp [step, hr, hw]
    · have f := step_frame s (.beginRead j) (id := j) rfl
      exact ⟨by rw [f.2 id (Ne.symm hj)]; exact hr, by rw [f.1]⟩
  | readStep j =>
    show (step s (.readStep j)).readers id = some r ∧ (step s (.readStep j)).log.hw = s.log.hw
    by_cases hj : j = id
    · subst hj; simp [step, hr, hw]
    · have f := step_frame s (.readStep j) (id := j) rfl
      exact ⟨by rw [f.2 id (Ne.symm hj)]; exact hr, by rw [f.1]⟩
  | checkHW j =>
    show (step s (.checkHW j)).readers id = some r ∧ (step s (.checkHW j)).log.hw = s.log.hw
    by_cases hj : j = id
    · subst hj; simp [step, hr, hw]
    · have f := step_frame s (.checkHW j) (id := j) rfl
      exact ⟨by rw [f.2 id (Ne.symm hj)]; exact hr, by rw [f.1]⟩
  | resync j =>
    show (step s (.resync j)).readers id = some r ∧ (step s (.resync j)).log.hw = s.log.hw
    by_cases hj : j = id
    · subst hj; simp [step, hr, hw]
    · have f := step_frame s (.resync j) (id := j) rfl
      exact ⟨by rw [f.2 id (Ne.symm hj)]; exact hr, by rw [f.1]⟩
  | cancel j =>
    show (step s (.cancel j)).readers id = some r ∧ (step s (.cancel j)).log.hw = s.log.hw
    have hj : j ≠ id := q
    have f := step_frame s (.cancel j) (id := j) rfl
    exact ⟨by rw [f.2 id (Ne.symm hj)]; exact hr, by rw [f.1]⟩
  | registerWait j =>
    by_cases hj : j = id
    · subst hj; simp [stepWith, hr, hw]
    · simp only [stepWith]
      cases hrj : s.readers j with
      | none => exact ⟨hr, rfl⟩
      | some rj =>
        simp only
        split
        · unfold registerWait
          repeat' split
          all_goals (constructor <;> first | rfl | (simp [setReader, Ne.symm hj, hr]))
        · exact ⟨hr, rfl⟩

theorem parked_stays_run (b : Bool) {id : Nat} {r : Reader} (ops : List Op) {s : State}
    (hr : s.readers id = some r) (hw : r.phase = .waiting) (q : QuietRun b id s ops) :
    (runWith b s ops).readers id = some r ∧ (runWith b s ops).log.hw = s.log.hw := by
  induction ops generalizing s with
  | nil => exact ⟨hr, rfl⟩
  | cons op ops ih =>
    obtain ⟨h1, h2⟩ := parked_stays b op hr hw q.1
    have := ih h1 q.2
    simp only [runWith, List.foldl_cons] at this ⊢
    exact ⟨this.1, by rw [this.2, h2]⟩

end Liftbridge.Proofs.HWReader
