/-
Helper lemmas for Props/C07.lean: the invariant of the leadership/failover model
(`Liftbridge.Failover`, Model/Failover.lean) and its preservation by every step.
-/
import Liftbridge.Model.Failover

namespace Liftbridge.Proofs.Failover
open Liftbridge Liftbridge.Failover

/-! ### small facts -/

@[simp] theorem upd_same {α : Type} (f : PKey → Option α) (k : PKey) (v : Option α) : upd f k v k = v := by
  simp [upd]

theorem upd_other {α : Type} (f : PKey → Option α) (k : PKey) (v : Option α) (x : PKey) (h : x ≠ k) :
    upd f k v x = f x := by
  simp [upd, h]

theorem upd_some {α : Type} {f : PKey → Option α} {k : PKey} {v : Option α} {x : PKey} {a : α}
    (h : upd f k v x = some a) : (x = k ∧ v = some a) ∨ (x ≠ k ∧ f x = some a) := by
  unfold upd at h
  by_cases hx : x = k
  · simp [hx] at h; exact Or.inl ⟨hx, h⟩
  · simp [hx] at h; exact Or.inr ⟨hx, h⟩

/-- The regenerated staleness tests are `l ≠ leader ∨ e ≠ leaderEpoch`. -/
theorem stale_report_iff (pt : Part) (l : Id) (e : Nat) :
    stale Gen.Failover.staleLeaderReport Gen.Failover.staleEpochReport pt l e = true ↔
      (l ≠ pt.leader ∨ e ≠ pt.leaderEpoch) := by
  simp [stale, Gen.Failover.staleLeaderReport, Gen.Failover.staleEpochReport, cmpId, Cmp.evalNat]

theorem stale_shrink_iff (pt : Part) (l : Id) (e : Nat) :
    stale Gen.Failover.staleLeaderShrink Gen.Failover.staleEpochShrink pt l e = true ↔
      (l ≠ pt.leader ∨ e ≠ pt.leaderEpoch) := by
  simp [stale, Gen.Failover.staleLeaderShrink, Gen.Failover.staleEpochShrink, cmpId, Cmp.evalNat]

theorem stale_expand_iff (pt : Part) (l : Id) (e : Nat) :
    stale Gen.Failover.staleLeaderExpand Gen.Failover.staleEpochExpand pt l e = true ↔
      (l ≠ pt.leader ∨ e ≠ pt.leaderEpoch) := by
  simp [stale, Gen.Failover.staleLeaderExpand, Gen.Failover.staleEpochExpand, cmpId, Cmp.evalNat]

theorem staleAtCommit_iff (pt : Part) (l : Id) (e : Nat) :
    staleAtCommit pt l e = true ↔ (l ≠ pt.leader ∨ e ≠ pt.leaderEpoch) := by
  simp [staleAtCommit]

theorem cur_of_not {l pl : Id} {e pe : Nat} (h : ¬ (l ≠ pl ∨ e ≠ pe)) : l = pl ∧ e = pe :=
  ⟨Decidable.byContradiction fun hne => h (Or.inl hne), Decidable.byContradiction fun hne => h (Or.inr hne)⟩

theorem mem_candidates (pt : Part) (c : Id) : c ∈ candidates pt ↔ c ∈ pt.isr ∧ c ≠ pt.leader := by
  simp [candidates, Gen.Failover.electSkipCmp, cmpId]

theorem elect_triggered {pt : Part} {choice c : Id} (h : elect pt choice = .triggered c) :
    c = choice ∧ c ∈ pt.isr ∧ c ≠ pt.leader := by
  unfold elect at h
  split at h
  · cases h
  · split at h
    · cases h
    · split at h
      · rename_i hm
        injection h with h
        subst h
        exact ⟨rfl, (mem_candidates pt _).1 hm⟩
      · cases h

theorem mem_sins {l : List Id} {x y : Id} : y ∈ sins l x ↔ y ∈ l ∨ y = x := by
  unfold sins
  by_cases h : x ∈ l
  · simp [h]
    intro hy; subst hy; exact h
  · simp [h]

theorem nodup_sins {l : List Id} (x : Id) (h : l.Nodup) : (sins l x).Nodup := by
  unfold sins
  by_cases hx : x ∈ l
  · simp [hx, h]
  · simp only [hx, if_false]
    rw [List.nodup_append]
    refine ⟨h, by simp, ?_⟩
    intro a ha b hb
    simp at hb
    subst hb
    intro hab
    subst hab
    exact hx ha

theorem mem_sdel {l : List Id} {x y : Id} : y ∈ sdel l x ↔ y ∈ l ∧ y ≠ x := by
  simp [sdel]

theorem nodup_sdel {l : List Id} (x : Id) (h : l.Nodup) : (sdel l x).Nodup :=
  List.Nodup.sublist List.filter_sublist h

/-- A duplicate-free list whose members all occur in another list is not longer than it. -/
theorem nodup_subset_length_le : ∀ (l₁ l₂ : List Id), l₁.Nodup → (∀ x ∈ l₁, x ∈ l₂) → l₁.length ≤ l₂.length
  | [], _, _, _ => by simp
  | a :: t, l₂, hnd, hsub => by
    have ha : a ∈ l₂ := hsub a (by simp)
    have hnd' := List.nodup_cons.1 hnd
    have ht : ∀ x ∈ t, x ∈ l₂.erase a := by
      intro x hx
      have hne : x ≠ a := by
        intro h; subst h; exact hnd'.1 hx
      exact (List.mem_erase_of_ne hne).2 (hsub x (by simp [hx]))
    have ih := nodup_subset_length_le t (l₂.erase a) hnd'.2 ht
    have hl := List.length_erase_of_mem ha
    have hpos : 0 < l₂.length := List.length_pos_of_mem ha
    simp only [List.length_cons]
    omega

/-- The followers of a duplicate-free in-sync set that contains the leader are one fewer. -/
theorem length_followers {isr : List Id} {leader : Id} (hnd : isr.Nodup) (hl : leader ∈ isr) :
    (isr.filter (fun x => decide (x ≠ leader))).length + 1 = isr.length := by
  induction isr with
  | nil => simp at hl
  | cons a t ih =>
    have hnd' := List.nodup_cons.1 hnd
    rw [List.filter_cons]
    by_cases ha : a = leader
    · subst ha
      have hfil : t.filter (fun x => decide (x ≠ a)) = t := by
        apply List.filter_eq_self.2
        intro x hx
        have : x ≠ a := by intro h; subst h; exact hnd'.1 hx
        exact decide_eq_true this
      have hd : decide (a ≠ a) = false := decide_eq_false (by simp)
      rw [hd, hfil]
      simp
    · have hl' : leader ∈ t := by
        rcases List.mem_cons.1 hl with h | h
        · exact absurd h.symm ha
        · exact h
      have ih' := ih hnd'.2 hl'
      have hd : decide (a ≠ leader) = true := decide_eq_true ha
      rw [hd]
      simp only [if_true, List.length_cons]
      omega

/-! ### the invariant -/

/-- Well-formedness of one partition at Raft index `index`. -/
structure PartOk (pt : Part) (index : Nat) : Prop where
  leader_isr : pt.leader ∈ pt.isr
  isr_rep : ∀ x ∈ pt.isr, x ∈ pt.replicas
  isr_nodup : pt.isr.Nodup
  le_e : pt.leaderEpoch ≤ pt.epoch
  e_idx : pt.epoch ≤ index

/-- What an in-flight request still guarantees IF the pair it was checked against is current. -/
def OpOk (s : Ctl) : Op → Prop
  | .shrink p r l e => e ≤ s.index ∧ ∀ pt, s.parts p = some pt → pt.leader = l → pt.leaderEpoch = e → r ∈ pt.replicas ∧ r ≠ pt.leader
  | .expand p r l e => e ≤ s.index ∧ ∀ pt, s.parts p = some pt → pt.leader = l → pt.leaderEpoch = e → r ∈ pt.replicas
  | .change _ c ol oe => oe ≤ s.index ∧ c ≠ ol

structure Inv (s : Ctl) : Prop where
  parts : ∀ p pt, s.parts p = some pt → PartOk pt s.index
  fo_part : ∀ p fo, s.fos p = some fo → ∃ pt, s.parts p = some pt
  fo_nodup : ∀ p fo, s.fos p = some fo → fo.witnesses.Nodup
  fo_armed : ∀ p fo, s.fos p = some fo → fo.armed = true
  ops : ∀ op ∈ s.inflight, OpOk s op
  alive : s.crashed = false

theorem inv_init : Inv Ctl.init := by
  constructor <;> intros <;> simp_all [Ctl.init]

theorem PartOk.mono {pt : Part} {i j : Nat} (h : PartOk pt i) (hij : i ≤ j) : PartOk pt j :=
  { h with e_idx := Nat.le_trans h.e_idx hij }

/-- `OpOk` survives a step that leaves the pairs `(leader, leaderEpoch)` and the replicas of every
partition alone (or replaces a pair by one with a larger epoch than any in-flight one) and does
not decrease the index. -/
theorem OpOk.of_parts {s s' : Ctl} {op : Op} (h : OpOk s op) (hidx : s.index ≤ s'.index)
    (hp : ∀ p pt', s'.parts p = some pt' →
      (∃ pt, s.parts p = some pt ∧ pt.leader = pt'.leader ∧ pt.leaderEpoch = pt'.leaderEpoch ∧ pt.replicas = pt'.replicas)
      ∨ s.index < pt'.leaderEpoch) : OpOk s' op := by
  cases op with
  | shrink p r l e =>
    obtain ⟨he, hh⟩ := h
    refine ⟨Nat.le_trans he hidx, ?_⟩
    intro pt' hpt' hl hle
    rcases hp p pt' hpt' with ⟨pt, hpt, h1, h2, h3⟩ | hgt
    · have := hh pt hpt (h1.trans hl) (h2.trans hle)
      rw [← h3, ← h1]; exact this
    · omega
  | expand p r l e =>
    obtain ⟨he, hh⟩ := h
    refine ⟨Nat.le_trans he hidx, ?_⟩
    intro pt' hpt' hl hle
    rcases hp p pt' hpt' with ⟨pt, hpt, h1, h2, h3⟩ | hgt
    · have := hh pt hpt (h1.trans hl) (h2.trans hle)
      rw [← h3]; exact this
    · omega
  | change p c ol oe =>
    exact ⟨Nat.le_trans h.1 hidx, h.2⟩


theorem OpOk.congr {s s' : Ctl} {op : Op} (hp : s'.parts = s.parts) (hi : s'.index = s.index) (h : OpOk s op) :
    OpOk s' op := by
  cases op <;> simp only [OpOk, hp, hi] at * <;> exact h

/-! ### building blocks: how the invariant survives the elementary state changes -/

theorem inv_fos_erase {s : Ctl} (h : Inv s) (p : PKey) : Inv { s with fos := upd s.fos p none } := by
  refine ⟨h.parts, ?_, ?_, ?_, ?_, h.alive⟩
  · intro q fo hq
    rcases upd_some hq with ⟨_, hv⟩ | ⟨_, hq'⟩
    · cases hv
    · exact h.fo_part q fo hq'
  · intro q fo hq
    rcases upd_some hq with ⟨_, hv⟩ | ⟨_, hq'⟩
    · cases hv
    · exact h.fo_nodup q fo hq'
  · intro q fo hq
    rcases upd_some hq with ⟨_, hv⟩ | ⟨_, hq'⟩
    · cases hv
    · exact h.fo_armed q fo hq'
  · intro op hop
    exact OpOk.congr rfl rfl (h.ops op hop)

theorem inv_fos_set {s : Ctl} (h : Inv s) (p : PKey) (pt : Part) (ws : List Id)
    (hp : s.parts p = some pt) (hnd : ws.Nodup) : Inv { s with fos := upd s.fos p (some ⟨ws, true⟩) } := by
  refine ⟨h.parts, ?_, ?_, ?_, ?_, h.alive⟩
  · intro q fo hq
    rcases upd_some hq with ⟨hqp, _⟩ | ⟨_, hq'⟩
    · subst hqp; exact ⟨pt, hp⟩
    · exact h.fo_part q fo hq'
  · intro q fo hq
    rcases upd_some hq with ⟨_, hv⟩ | ⟨_, hq'⟩
    · cases hv; exact hnd
    · exact h.fo_nodup q fo hq'
  · intro q fo hq
    rcases upd_some hq with ⟨_, hv⟩ | ⟨_, hq'⟩
    · cases hv; rfl
    · exact h.fo_armed q fo hq'
  · intro op hop
    exact OpOk.congr rfl rfl (h.ops op hop)

theorem inv_fos_clear {s : Ctl} (h : Inv s) : Inv { s with fos := fun _ => none } := by
  refine ⟨h.parts, ?_, ?_, ?_, ?_, h.alive⟩
  · intro q fo hq; cases hq
  · intro q fo hq; cases hq
  · intro q fo hq; cases hq
  · intro op hop
    exact OpOk.congr rfl rfl (h.ops op hop)

theorem inv_push {s : Ctl} (h : Inv s) (op : Op) (hop : OpOk s op) :
    Inv { s with inflight := s.inflight ++ [op] } := by
  refine ⟨h.parts, h.fo_part, h.fo_nodup, h.fo_armed, ?_, h.alive⟩
  intro o ho
  rcases List.mem_append.1 ho with ho | ho
  · exact OpOk.congr rfl rfl (h.ops o ho)
  · simp at ho; subst ho; exact OpOk.congr rfl rfl hop

theorem inv_eraseIdx {s : Ctl} (h : Inv s) (k : Nat) :
    Inv { s with inflight := s.inflight.eraseIdx k } := by
  refine ⟨h.parts, h.fo_part, h.fo_nodup, h.fo_armed, ?_, h.alive⟩
  intro o ho
  exact OpOk.congr rfl rfl (h.ops o ((List.eraseIdx_sublist _ _).subset ho))

/-- Replace partition `p` (present) by `pt'` at a larger index. -/
theorem inv_set_part {s : Ctl} (h : Inv s) (p : PKey) (pt pt' : Part) (idx : Nat)
    (hp : s.parts p = some pt) (hidx : s.index < idx) (hok : PartOk pt' idx)
    (hkeep : (pt.leader = pt'.leader ∧ pt.leaderEpoch = pt'.leaderEpoch ∧ pt.replicas = pt'.replicas)
      ∨ s.index < pt'.leaderEpoch) :
    Inv { s with parts := upd s.parts p (some pt'), index := idx } := by
  refine ⟨?_, ?_, h.fo_nodup, h.fo_armed, ?_, h.alive⟩
  · intro q qt hq
    rcases upd_some hq with ⟨_, hv⟩ | ⟨_, hq'⟩
    · cases hv; exact hok
    · exact (h.parts q qt hq').mono (Nat.le_of_lt hidx)
  · intro q fo hq
    by_cases hqp : q = p
    · subst hqp; exact ⟨pt', by simp⟩
    · obtain ⟨qt, hqt⟩ := h.fo_part q fo hq
      exact ⟨qt, by simp [upd_other _ _ _ _ hqp, hqt]⟩
  · intro op hop
    refine OpOk.of_parts (h.ops op hop) (Nat.le_of_lt hidx) ?_
    intro q qt hq
    rcases upd_some hq with ⟨hqp, hv⟩ | ⟨_, hq'⟩
    · cases hv; subst hqp
      rcases hkeep with hk | hk
      · exact Or.inl ⟨pt, hp, hk⟩
      · exact Or.inr hk
    · exact Or.inl ⟨qt, hq', rfl, rfl, rfl⟩


/-! ### every step preserves the invariant (repaired code) -/

theorem inv_create {s : Ctl} (h : Inv s) (p : PKey) (rs : List Id) (l : Id) (g : Nat) :
    Inv (create s p rs l g).1 := by
  unfold create
  cases hp : s.parts p with
  | some pt => exact h
  | none =>
    simp only
    split
    · rename_i hc
      refine ⟨?_, ?_, h.fo_nodup, h.fo_armed, ?_, h.alive⟩
      · intro q qt hq
        rcases upd_some hq with ⟨_, hv⟩ | ⟨_, hq'⟩
        · cases hv
          exact ⟨hc.1, fun _ hx => hx, hc.2, Nat.le_refl _, Nat.le_refl _⟩
        · exact (h.parts q qt hq').mono (by simp only; omega)
      · intro q fo hq
        obtain ⟨qt, hqt⟩ := h.fo_part q fo hq
        have hqp : q ≠ p := by
          intro hqp; subst hqp; rw [hp] at hqt; cases hqt
        exact ⟨qt, by simp [upd_other _ _ _ _ hqp, hqt]⟩
      · intro op hop
        refine OpOk.of_parts (h.ops op hop) (by simp only; omega) ?_
        intro q qt hq
        rcases upd_some hq with ⟨_, hv⟩ | ⟨_, hq'⟩
        · cases hv; exact Or.inr (by simp only; omega)
        · exact Or.inl ⟨qt, hq', rfl, rfl, rfl⟩
    · exact h

theorem inv_remove {s : Ctl} (h : Inv s) (p : PKey) (g : Nat) : Inv (remove s p g).1 := by
  unfold remove
  cases hp : s.parts p with
  | none => exact h
  | some pt =>
    simp only
    refine ⟨?_, ?_, ?_, ?_, ?_, h.alive⟩
    · intro q qt hq
      rcases upd_some hq with ⟨_, hv⟩ | ⟨_, hq'⟩
      · cases hv
      · exact (h.parts q qt hq').mono (by simp only; omega)
    · intro q fo hq
      rcases upd_some hq with ⟨_, hv⟩ | ⟨hqp, hq'⟩
      · cases hv
      · obtain ⟨qt, hqt⟩ := h.fo_part q fo hq'
        exact ⟨qt, by simp [upd_other _ _ _ _ hqp, hqt]⟩
    · intro q fo hq
      rcases upd_some hq with ⟨_, hv⟩ | ⟨_, hq'⟩
      · cases hv
      · exact h.fo_nodup q fo hq'
    · intro q fo hq
      rcases upd_some hq with ⟨_, hv⟩ | ⟨_, hq'⟩
      · cases hv
      · exact h.fo_armed q fo hq'
    · intro op hop
      refine OpOk.of_parts (h.ops op hop) (by simp only; omega) ?_
      intro q qt hq
      rcases upd_some hq with ⟨_, hv⟩ | ⟨_, hq'⟩
      · cases hv
      · exact Or.inl ⟨qt, hq', rfl, rfl, rfl⟩

theorem inv_expire {s : Ctl} (h : Inv s) (p : PKey) : Inv (expire s p).1 := by
  unfold expire
  cases s.fos p with
  | none => exact h
  | some fo =>
    simp only
    split
    · exact inv_fos_erase h p
    · exact h

theorem inv_lost {s : Ctl} (h : Inv s) : Inv (lostLeadership s).1 := inv_fos_clear h

theorem witnesses_nodup {s : Ctl} (h : Inv s) (p : PKey) :
    ((s.fos p).getD ⟨[], false⟩).witnesses.Nodup := by
  cases hf : s.fos p with
  | none => simp
  | some fo => simpa using h.fo_nodup p fo hf

theorem inv_report {s : Ctl} (h : Inv s) (p : PKey) (r l : Id) (e : Nat) (c : Id) :
    Inv (report Cfg.fixed s p r l e c).1 := by
  unfold report
  cases hp : s.parts p with
  | none => exact h
  | some pt =>
    simp only
    split
    · exact h
    · rename_i hst
      have hcur := cur_of_not fun hx => hst ((stale_report_iff pt l e).2 hx)
      split
      · -- quorum reached
        simp only [Cfg.fixed, if_true]
        cases hel : elect pt c with
        | triggered c' =>
          simp only
          have hc := elect_triggered hel
          have hpo := h.parts p pt hp
          have h1 := inv_fos_erase h p
          exact inv_push h1 (.change p c' pt.leader pt.leaderEpoch)
            ⟨Nat.le_trans hpo.le_e hpo.e_idx, hc.2.2⟩
        | noCandidates => exact inv_fos_erase h p
        | _ => exact h
      · exact inv_fos_set h p pt _ hp (nodup_sins r (witnesses_nodup h p))


theorem inv_reqShrink {s : Ctl} (h : Inv s) (p : PKey) (r l : Id) (e : Nat) :
    Inv (reqShrink Cfg.fixed s p r l e).1 := by
  unfold reqShrink
  cases hp : s.parts p with
  | none => exact h
  | some pt =>
    simp only
    split
    · exact h
    · rename_i hst
      have hcur := cur_of_not fun hx => hst ((stale_shrink_iff pt l e).2 hx)
      split
      · exact h
      · rename_i hrep
        split
        · exact h
        · rename_i hlead
          simp only [Cfg.fixed, Bool.true_and, Bool.not_eq_true', decide_eq_false_iff_not, Decidable.not_not,
            decide_eq_true_eq] at hrep hlead
          have hpo := h.parts p pt hp
          refine inv_push h _ ⟨?_, ?_⟩
          · rw [hcur.2]; exact Nat.le_trans hpo.le_e hpo.e_idx
          · intro pt2 hpt2 _ _
            rw [hp] at hpt2; cases hpt2
            exact ⟨hrep, hlead⟩

theorem inv_reqExpand {s : Ctl} (h : Inv s) (p : PKey) (r l : Id) (e : Nat) :
    Inv (reqExpand Cfg.fixed s p r l e).1 := by
  unfold reqExpand
  cases hp : s.parts p with
  | none => exact h
  | some pt =>
    simp only
    split
    · exact h
    · rename_i hst
      have hcur := cur_of_not fun hx => hst ((stale_expand_iff pt l e).2 hx)
      split
      · exact h
      · rename_i hrep
        simp only [Cfg.fixed, Bool.true_and, Bool.not_eq_true', decide_eq_false_iff_not, Decidable.not_not] at hrep
        have hpo := h.parts p pt hp
        refine inv_push h _ ⟨?_, ?_⟩
        · rw [hcur.2]; exact Nat.le_trans hpo.le_e hpo.e_idx
        · intro pt2 hpt2 _ _
          rw [hp] at hpt2; cases hpt2
          exact hrep


theorem applyShrink_cases (pt : Part) (r : Id) (idx : Nat) (hr : r ∈ pt.replicas) :
    applyShrink pt r idx = .same ∨ applyShrink pt r idx = .changed { pt with isr := sdel pt.isr r, epoch := idx } := by
  unfold applyShrink
  split
  · exact Or.inl rfl
  · first | exact Or.inr rfl | (rw [if_pos hr]; exact Or.inr rfl)

theorem applyExpand_cases (pt : Part) (r : Id) (idx : Nat) (hr : r ∈ pt.replicas) :
    applyExpand pt r idx = .same ∨ applyExpand pt r idx = .changed { pt with isr := sins pt.isr r, epoch := idx } := by
  unfold applyExpand
  split
  · exact Or.inl rfl
  · first | exact Or.inr rfl | (rw [if_pos hr]; exact Or.inr rfl)

theorem applyChange_cases (pt : Part) (c : Id) (idx : Nat) (h : pt.leaderEpoch ≤ idx) :
    applyChange pt c idx = .same ∨
      applyChange pt c idx = .changed { pt with leader := c, leaderEpoch := idx, epoch := idx } := by
  unfold applyChange
  split
  · exact Or.inl rfl
  · have : Gen.Failover.setLeaderCmp.evalNat idx pt.leaderEpoch = false := by
      simp [Gen.Failover.setLeaderCmp, Cmp.evalNat]; omega
    rw [this]; exact Or.inr rfl

theorem inv_commitOp {s : Ctl} (h : Inv s) (op : Op) (hop : OpOk s op) (idx : Nat) (hidx : s.index < idx) :
    Inv (commitOp Cfg.fixed s idx op).1 := by
  cases op with
  | shrink p r l e =>
    simp only [commitOp]
    cases hp : s.parts p with
    | none => exact h
    | some pt =>
      simp only
      split
      · exact h
      · rename_i hst
        simp only [Cfg.fixed, Bool.true_and] at hst
        have hcur := cur_of_not fun hx => hst ((staleAtCommit_iff pt l e).2 hx)
        have hpo := h.parts p pt hp
        have hr := hop.2 pt hp hcur.1.symm hcur.2.symm
        rcases applyShrink_cases pt r idx hr.1 with ha | ha <;> rw [ha] <;> simp only
        · exact h
        · refine inv_set_part h p pt _ idx hp hidx ?_ (Or.inl ⟨rfl, rfl, rfl⟩)
          refine ⟨?_, ?_, ?_, ?_, Nat.le_refl _⟩
          · exact mem_sdel.2 ⟨hpo.leader_isr, fun hx => hr.2 hx.symm⟩
          · intro x hx; exact hpo.isr_rep x (mem_sdel.1 hx).1
          · exact nodup_sdel r hpo.isr_nodup
          · simp only; have := hpo.le_e; have := hpo.e_idx; omega
  | expand p r l e =>
    simp only [commitOp]
    cases hp : s.parts p with
    | none => exact h
    | some pt =>
      simp only
      split
      · exact h
      · rename_i hst
        simp only [Cfg.fixed, Bool.true_and] at hst
        have hcur := cur_of_not fun hx => hst ((staleAtCommit_iff pt l e).2 hx)
        have hpo := h.parts p pt hp
        have hr := hop.2 pt hp hcur.1.symm hcur.2.symm
        rcases applyExpand_cases pt r idx hr with ha | ha <;> rw [ha] <;> simp only
        · exact h
        · refine inv_set_part h p pt _ idx hp hidx ?_ (Or.inl ⟨rfl, rfl, rfl⟩)
          refine ⟨?_, ?_, ?_, ?_, Nat.le_refl _⟩
          · exact mem_sins.2 (Or.inl hpo.leader_isr)
          · intro x hx
            rcases mem_sins.1 hx with hx | hx
            · exact hpo.isr_rep x hx
            · subst hx; exact hr
          · exact nodup_sins r hpo.isr_nodup
          · simp only; have := hpo.le_e; have := hpo.e_idx; omega
  | change p c ol oe =>
    simp only [commitOp]
    cases hp : s.parts p with
    | none => exact h
    | some pt =>
      simp only
      split
      · exact h
      · split
        · exact h
        · rename_i hst hcand
          simp only [Cfg.fixed, Bool.true_and, Bool.not_eq_true', decide_eq_false_iff_not, Decidable.not_not] at hst hcand
          have hpo := h.parts p pt hp
          have hle : pt.leaderEpoch ≤ idx := by have := hpo.le_e; have := hpo.e_idx; omega
          rcases applyChange_cases pt c idx hle with ha | ha <;> rw [ha] <;> simp only
          · exact h
          · simp only [Cfg.fixed, if_true]
            have h1 := inv_set_part h p pt { pt with leader := c, leaderEpoch := idx, epoch := idx } idx hp hidx
              ⟨hcand, hpo.isr_rep, hpo.isr_nodup, Nat.le_refl _, Nat.le_refl _⟩ (Or.inr hidx)
            exact inv_fos_erase h1 p

theorem inv_commit {s : Ctl} (h : Inv s) (k g : Nat) : Inv (commit Cfg.fixed s k g).1 := by
  unfold commit
  cases hk : s.inflight[k]? with
  | none => exact h
  | some op =>
    simp only
    have hmem : op ∈ s.inflight := List.mem_of_getElem? hk
    exact inv_commitOp (inv_eraseIdx h k) op (OpOk.congr rfl rfl (h.ops op hmem)) _ (by simp only; omega)

theorem inv_step {s : Ctl} (h : Inv s) (st : Step) : Inv (step Cfg.fixed s st).1 := by
  unfold step
  rw [h.alive]
  simp only [Bool.false_eq_true, if_false]
  cases st with
  | create p rs l g => exact inv_create h p rs l g
  | remove p g => exact inv_remove h p g
  | report p r l e c => exact inv_report h p r l e c
  | reqShrink p r l e => exact inv_reqShrink h p r l e
  | reqExpand p r l e => exact inv_reqExpand h p r l e
  | commit k g => exact inv_commit h k g
  | expire p => exact inv_expire h p
  | lostLeadership => exact inv_lost h

theorem inv_runH {s : Ctl} (h : Inv s) (hist : List (Step × Out)) (steps : List Step) :
    Inv (runH Cfg.fixed s hist steps).1 := by
  induction steps generalizing s hist with
  | nil => exact h
  | cons st rest ih => exact ih (inv_step h st) _

theorem inv_run (steps : List Step) : Inv (run Cfg.fixed Ctl.init steps) := inv_runH inv_init [] steps


/-! ### how a step can change a partition (any configuration of the code) -/

/-- `b` (a partition after the step) compared with what was there before, `idx` = index before:
unchanged; or an ISR change of the same leadership term with a larger partition epoch; or a new
term / new incarnation whose leader epoch exceeds every index seen so far. -/
def PartRel (idx : Nat) (a? : Option Part) (b : Part) : Prop :=
  a? = some b ∨
  (∃ a, a? = some a ∧ a.leader = b.leader ∧ a.leaderEpoch = b.leaderEpoch ∧ a.replicas = b.replicas ∧ a.epoch < b.epoch) ∨
  (idx < b.leaderEpoch ∧ b.leaderEpoch ≤ b.epoch)

theorem report_frame (cfg : Cfg) (s : Ctl) (p : PKey) (r l : Id) (e : Nat) (c : Id) :
    (report cfg s p r l e c).1.parts = s.parts ∧ (report cfg s p r l e c).1.index = s.index ∧
    (report cfg s p r l e c).1.crashed = s.crashed := by
  unfold report
  cases s.parts p with
  | none => exact ⟨rfl, rfl, rfl⟩
  | some pt =>
    simp only
    split
    · exact ⟨rfl, rfl, rfl⟩
    · split
      · split <;> exact ⟨rfl, rfl, rfl⟩
      · exact ⟨rfl, rfl, rfl⟩

theorem reqShrink_frame (cfg : Cfg) (s : Ctl) (p : PKey) (r l : Id) (e : Nat) :
    (reqShrink cfg s p r l e).1.parts = s.parts ∧ (reqShrink cfg s p r l e).1.index = s.index ∧
    (reqShrink cfg s p r l e).1.fos = s.fos ∧ (reqShrink cfg s p r l e).1.crashed = s.crashed := by
  unfold reqShrink
  cases s.parts p with
  | none => exact ⟨rfl, rfl, rfl, rfl⟩
  | some pt =>
    simp only
    repeat' split
    all_goals exact ⟨rfl, rfl, rfl, rfl⟩

theorem reqExpand_frame (cfg : Cfg) (s : Ctl) (p : PKey) (r l : Id) (e : Nat) :
    (reqExpand cfg s p r l e).1.parts = s.parts ∧ (reqExpand cfg s p r l e).1.index = s.index ∧
    (reqExpand cfg s p r l e).1.fos = s.fos ∧ (reqExpand cfg s p r l e).1.crashed = s.crashed := by
  unfold reqExpand
  cases s.parts p with
  | none => exact ⟨rfl, rfl, rfl, rfl⟩
  | some pt =>
    simp only
    repeat' split
    all_goals exact ⟨rfl, rfl, rfl, rfl⟩

theorem partRel_upd {s : Ctl} {p : PKey} {pt' : Part} (hrel : PartRel s.index (s.parts p) pt') :
    ∀ q b, upd s.parts p (some pt') q = some b → PartRel s.index (s.parts q) b := by
  intro q b hq
  rcases upd_some hq with ⟨hqp, hv⟩ | ⟨_, hq'⟩
  · cases hv; subst hqp; exact hrel
  · exact Or.inl hq'

theorem commitOp_parts (cfg : Cfg) (s : Ctl) (idx : Nat) (hidx : s.index < idx) (op : Op) :
    s.index ≤ (commitOp cfg s idx op).1.index ∧
    ∀ q b, (commitOp cfg s idx op).1.parts q = some b → PartRel s.index (s.parts q) b := by
  have keep : s.index ≤ s.index ∧ ∀ q b, s.parts q = some b → PartRel s.index (s.parts q) b :=
    ⟨Nat.le_refl _, fun q b h => Or.inl h⟩
  cases op with
  | shrink p r l e =>
    simp only [commitOp]
    cases hp : s.parts p with
    | none => exact keep
    | some pt =>
      simp only
      split
      · exact keep
      · cases ha : applyShrink pt r idx with
        | same => exact keep
        | fail => exact keep
        | changed pt' =>
          simp only
          refine ⟨Nat.le_of_lt hidx, partRel_upd ?_⟩
          rw [hp]
          unfold applyShrink at ha
          split at ha
          · cases ha
          · rename_i hid
            split at ha
            · cases ha
              simp only [Gen.Failover.idemShrinkCmp, Cmp.evalNat, decide_eq_true_eq] at hid
              exact Or.inr (Or.inl ⟨pt, rfl, rfl, rfl, rfl, by simp only; omega⟩)
            · cases ha
  | expand p r l e =>
    simp only [commitOp]
    cases hp : s.parts p with
    | none => exact keep
    | some pt =>
      simp only
      split
      · exact keep
      · cases ha : applyExpand pt r idx with
        | same => exact keep
        | fail => exact keep
        | changed pt' =>
          simp only
          refine ⟨Nat.le_of_lt hidx, partRel_upd ?_⟩
          rw [hp]
          unfold applyExpand at ha
          split at ha
          · cases ha
          · rename_i hid
            split at ha
            · cases ha
              simp only [Gen.Failover.idemExpandCmp, Cmp.evalNat, decide_eq_true_eq] at hid
              exact Or.inr (Or.inl ⟨pt, rfl, rfl, rfl, rfl, by simp only; omega⟩)
            · cases ha
  | change p c ol oe =>
    simp only [commitOp]
    cases hp : s.parts p with
    | none => exact keep
    | some pt =>
      simp only
      split
      · exact keep
      · split
        · exact keep
        · cases ha : applyChange pt c idx with
          | same => exact keep
          | fail => exact keep
          | changed pt' =>
            simp only
            refine ⟨Nat.le_of_lt hidx, partRel_upd ?_⟩
            unfold applyChange at ha
            split at ha
            · cases ha
            · split at ha
              · cases ha
              · cases ha
                exact Or.inr (Or.inr ⟨hidx, Nat.le_refl _⟩)

theorem step_parts (cfg : Cfg) (s : Ctl) (st : Step) :
    s.index ≤ (step cfg s st).1.index ∧
    ∀ q b, (step cfg s st).1.parts q = some b → PartRel s.index (s.parts q) b := by
  have keep : s.index ≤ s.index ∧ ∀ q b, s.parts q = some b → PartRel s.index (s.parts q) b :=
    ⟨Nat.le_refl _, fun q b h => Or.inl h⟩
  unfold step
  split
  · exact keep
  · cases st with
    | create p rs l g =>
      simp only
      unfold create
      cases hp : s.parts p with
      | some pt => exact keep
      | none =>
        simp only
        split
        · refine ⟨by simp only; omega, ?_⟩
          intro q b hq
          rcases upd_some hq with ⟨_, hv⟩ | ⟨_, hq'⟩
          · cases hv
            exact Or.inr (Or.inr ⟨by simp only; omega, Nat.le_refl _⟩)
          · exact Or.inl hq'
        · exact keep
    | remove p g =>
      simp only
      unfold remove
      cases hp : s.parts p with
      | none => exact keep
      | some pt =>
        simp only
        refine ⟨by omega, ?_⟩
        intro q b hq
        rcases upd_some hq with ⟨_, hv⟩ | ⟨_, hq'⟩
        · cases hv
        · exact Or.inl hq'
    | report p r l e c =>
      simp only
      obtain ⟨h1, h2, _⟩ := report_frame cfg s p r l e c
      rw [h1, h2]; exact keep
    | reqShrink p r l e =>
      simp only
      obtain ⟨h1, h2, _⟩ := reqShrink_frame cfg s p r l e
      rw [h1, h2]; exact keep
    | reqExpand p r l e =>
      simp only
      obtain ⟨h1, h2, _⟩ := reqExpand_frame cfg s p r l e
      rw [h1, h2]; exact keep
    | commit k g =>
      simp only
      unfold commit
      cases s.inflight[k]? with
      | none => exact keep
      | some op =>
        simp only
        exact commitOp_parts cfg { s with inflight := s.inflight.eraseIdx k } (s.index + 1 + g) (by simp only; omega) op
    | expire p =>
      simp only
      unfold expire
      cases s.fos p with
      | none => exact keep
      | some fo =>
        simp only
        split <;> exact keep
    | lostLeadership => exact keep


/-! ### runs -/

theorem runH_fst (cfg : Cfg) (steps : List Step) : ∀ (s : Ctl) (h : List (Step × Out)),
    (runH cfg s h steps).1 = (runH cfg s [] steps).1 := by
  induction steps with
  | nil => intro s h; rfl
  | cons st rest ih =>
    intro s h
    simp only [runH]
    rw [ih _ ((st, (step cfg s st).2) :: h), ih _ [(st, (step cfg s st).2)]]

theorem run_nil (cfg : Cfg) (s : Ctl) : run cfg s [] = s := rfl

theorem run_cons (cfg : Cfg) (s : Ctl) (st : Step) (rest : List Step) :
    run cfg s (st :: rest) = run cfg (step cfg s st).1 rest := by
  simp only [run, runH]
  exact runH_fst cfg rest _ _

theorem run_append (cfg : Cfg) (xs ys : List Step) : ∀ s : Ctl, run cfg s (xs ++ ys) = run cfg (run cfg s xs) ys := by
  induction xs with
  | nil => intro s; rfl
  | cons x xs ih => intro s; simp only [List.cons_append, run_cons]; exact ih _

/-- Partition `b` compared with state `s` of some earlier moment: still the same leadership term
(same leader, same leader epoch, partition epoch not smaller), or a term that began after `s`. -/
def Since (s : Ctl) (p : PKey) (b : Part) : Prop :=
  (∃ a, s.parts p = some a ∧ a.leader = b.leader ∧ a.leaderEpoch = b.leaderEpoch ∧ a.epoch ≤ b.epoch) ∨
  s.index < b.leaderEpoch

theorem since_step (cfg : Cfg) (s : Ctl) (st : Step) (q : PKey) (b : Part)
    (h : (step cfg s st).1.parts q = some b) : Since s q b := by
  rcases (step_parts cfg s st).2 q b h with h | ⟨a, ha, h1, h2, _, h4⟩ | ⟨h1, _⟩
  · exact Or.inl ⟨b, h, rfl, rfl, Nat.le_refl _⟩
  · exact Or.inl ⟨a, ha, h1, h2, Nat.le_of_lt h4⟩
  · exact Or.inr h1

theorem since_run (cfg : Cfg) (ys : List Step) : ∀ (s : Ctl),
    s.index ≤ (run cfg s ys).index ∧ ∀ q b, (run cfg s ys).parts q = some b → Since s q b := by
  induction ys with
  | nil =>
    intro s
    exact ⟨Nat.le_refl _, fun q b h => Or.inl ⟨b, h, rfl, rfl, Nat.le_refl _⟩⟩
  | cons st rest ih =>
    intro s
    rw [run_cons]
    have h1 := (step_parts cfg s st).1
    obtain ⟨h2, h3⟩ := ih (step cfg s st).1
    refine ⟨Nat.le_trans h1 h2, ?_⟩
    intro q b hb
    rcases h3 q b hb with ⟨c, hc, e1, e2, e3⟩ | hnew
    · rcases since_step cfg s st q c hc with ⟨a, ha, f1, f2, f3⟩ | hnew
      · exact Or.inl ⟨a, ha, f1.trans e1, f2.trans e2, Nat.le_trans f3 e3⟩
      · exact Or.inr (by omega)
    · exact Or.inr (by omega)


/-! ### the witnesses of a failover entry all reported the current leader within the window -/

/-- Every witness stored for a partition is one of the `reporters` of the partition's current
(leader, leader epoch) in the history. -/
def WitOk (s : Ctl) (h : List (Step × Out)) : Prop :=
  ∀ p fo pt, s.fos p = some fo → s.parts p = some pt →
    ∀ w ∈ fo.witnesses, w ∈ reporters p pt.leader pt.leaderEpoch h

theorem reporters_other {p : PKey} {l : Id} {e : Nat} {x : Step × Out} (h : List (Step × Out))
    (hc : classify p l e x = .other) : reporters p l e (x :: h) = reporters p l e h := by
  simp [reporters, hc]

theorem reporters_rep {p : PKey} {l : Id} {e : Nat} {x : Step × Out} {r : Id} (h : List (Step × Out))
    (hc : classify p l e x = .rep r) : reporters p l e (x :: h) = r :: reporters p l e h := by
  simp [reporters, hc]

/-- A step that only deletes failover entries, keeps the (leader, epoch) of every partition that
still has an entry, and is neither a report nor a window end for those partitions. -/
theorem witOk_frame {s s' : Ctl} {h : List (Step × Out)} {x : Step × Out} (hw : WitOk s h)
    (hfos : ∀ q fo, s'.fos q = some fo → s.fos q = some fo)
    (hparts : ∀ q fo pt', s'.fos q = some fo → s'.parts q = some pt' →
      ∃ pt, s.parts q = some pt ∧ pt.leader = pt'.leader ∧ pt.leaderEpoch = pt'.leaderEpoch)
    (hcl : ∀ q fo l e, s'.fos q = some fo → classify q l e x = .other) : WitOk s' (x :: h) := by
  intro q fo pt' hfo hpt' w hw'
  obtain ⟨pt, hpt, h1, h2⟩ := hparts q fo pt' hfo hpt'
  rw [reporters_other h (hcl q fo _ _ hfo), ← h1, ← h2]
  exact hw q fo pt (hfos q fo hfo) hpt w hw'

theorem commitOp_wit (s : Ctl) (idx : Nat) (op : Op) :
    ∀ q fo, (commitOp Cfg.fixed s idx op).1.fos q = some fo → s.fos q = some fo ∧
      ∀ pt', (commitOp Cfg.fixed s idx op).1.parts q = some pt' →
        ∃ pt, s.parts q = some pt ∧ pt.leader = pt'.leader ∧ pt.leaderEpoch = pt'.leaderEpoch := by
  have keep : ∀ q fo, s.fos q = some fo → s.fos q = some fo ∧
      ∀ pt', s.parts q = some pt' → ∃ pt, s.parts q = some pt ∧ pt.leader = pt'.leader ∧ pt.leaderEpoch = pt'.leaderEpoch :=
    fun q fo h => ⟨h, fun pt' h' => ⟨pt', h', rfl, rfl⟩⟩
  cases op with
  | shrink p r l e =>
    simp only [commitOp]
    cases hp : s.parts p with
    | none => exact keep
    | some pt =>
      simp only
      split
      · exact keep
      · cases ha : applyShrink pt r idx with
        | same => exact keep
        | fail => exact keep
        | changed pt1 =>
          simp only
          intro q fo hq
          refine ⟨hq, ?_⟩
          intro pt' hq'
          rcases upd_some hq' with ⟨hqp, hv⟩ | ⟨_, hq''⟩
          · cases hv; subst hqp
            unfold applyShrink at ha
            split at ha
            · cases ha
            · split at ha
              · cases ha; exact ⟨pt, hp, rfl, rfl⟩
              · cases ha
          · exact ⟨pt', hq'', rfl, rfl⟩
  | expand p r l e =>
    simp only [commitOp]
    cases hp : s.parts p with
    | none => exact keep
    | some pt =>
      simp only
      split
      · exact keep
      · cases ha : applyExpand pt r idx with
        | same => exact keep
        | fail => exact keep
        | changed pt1 =>
          simp only
          intro q fo hq
          refine ⟨hq, ?_⟩
          intro pt' hq'
          rcases upd_some hq' with ⟨hqp, hv⟩ | ⟨_, hq''⟩
          · cases hv; subst hqp
            unfold applyExpand at ha
            split at ha
            · cases ha
            · split at ha
              · cases ha; exact ⟨pt, hp, rfl, rfl⟩
              · cases ha
          · exact ⟨pt', hq'', rfl, rfl⟩
  | change p c ol oe =>
    simp only [commitOp]
    cases hp : s.parts p with
    | none => exact keep
    | some pt =>
      simp only
      split
      · exact keep
      · split
        · exact keep
        · cases ha : applyChange pt c idx with
          | same => exact keep
          | fail => exact keep
          | changed pt1 =>
            simp only [Cfg.fixed]
            intro q fo hq
            rcases upd_some hq with ⟨_, hv⟩ | ⟨hqp, hq0⟩
            · cases hv
            · refine ⟨hq0, ?_⟩
              intro pt' hq'
              rw [upd_other _ _ _ _ hqp] at hq'
              exact ⟨pt', hq', rfl, rfl⟩


theorem classify_create (q : PKey) (l : Id) (e : Nat) (p : PKey) (rs : List Id) (ld : Id) (g : Nat) (o : Out) :
    classify q l e (.create p rs ld g, o) = .other := by cases o <;> rfl
theorem classify_reqShrink (q : PKey) (l : Id) (e : Nat) (p : PKey) (r ld : Id) (le : Nat) (o : Out) :
    classify q l e (.reqShrink p r ld le, o) = .other := by cases o <;> rfl
theorem classify_reqExpand (q : PKey) (l : Id) (e : Nat) (p : PKey) (r ld : Id) (le : Nat) (o : Out) :
    classify q l e (.reqExpand p r ld le, o) = .other := by cases o <;> rfl
theorem classify_commit (q : PKey) (l : Id) (e : Nat) (k g : Nat) (o : Out) :
    classify q l e (.commit k g, o) = .other := by cases o <;> rfl
theorem classify_remove_ne (q : PKey) (l : Id) (e : Nat) (p : PKey) (g : Nat) (o : Out) (h : p ≠ q) :
    classify q l e (.remove p g, o) = .other := by cases o <;> simp [classify, h]
theorem classify_expire_ne (q : PKey) (l : Id) (e : Nat) (p : PKey) (o : Out) (h : p ≠ q) :
    classify q l e (.expire p, o) = .other := by cases o <;> simp [classify, h]
theorem classify_expire_notArmed (q : PKey) (l : Id) (e : Nat) (p : PKey) :
    classify q l e (.expire p, .notArmed) = .other := rfl
theorem classify_remove_refused (q : PKey) (l : Id) (e : Nat) (p : PKey) (g : Nat) (w : Why) :
    classify q l e (.remove p g, .refused w) = .other := rfl
theorem classify_report_ne (q : PKey) (l : Id) (e : Nat) (p : PKey) (r ld : Id) (le : Nat) (c : Id) (o : Out)
    (h : p ≠ q) : classify q l e (.report p r ld le c, o) = .other := by simp [classify, h]
theorem classify_report_not (q : PKey) (l : Id) (e : Nat) (p : PKey) (r ld : Id) (le : Nat) (c : Id) (o : Out)
    (h : accepted o = false) : classify q l e (.report p r ld le c, o) = .other := by simp [classify, h]
theorem classify_report_acc (p : PKey) (r l : Id) (e : Nat) (c : Id) (o : Out) (h : accepted o = true) :
    classify p l e (.report p r l e c, o) = .rep r := by simp [classify, h]


theorem witOk_same {s : Ctl} {h : List (Step × Out)} {x : Step × Out} (hw : WitOk s h)
    (hcl : ∀ q l e, classify q l e x = .other) : WitOk s (x :: h) :=
  witOk_frame hw (fun _ _ h => h) (fun _ _ pt' _ h' => ⟨pt', h', rfl, rfl⟩) (fun q _ l e _ => hcl q l e)

theorem witOk_create {s : Ctl} {h : List (Step × Out)} (hi : Inv s) (hw : WitOk s h)
    (p : PKey) (rs : List Id) (l : Id) (g : Nat) :
    WitOk (create s p rs l g).1 ((.create p rs l g, (create s p rs l g).2) :: h) := by
  unfold create
  cases hp : s.parts p with
  | some pt => exact witOk_same hw (fun q l' e => classify_create q l' e p rs l g _)
  | none =>
    simp only
    split
    · refine witOk_frame hw (fun _ _ h => h) ?_ (fun q _ l' e _ => classify_create q l' e p rs l g _)
      intro q fo pt' hfo hpt'
      obtain ⟨pt0, hpt0⟩ := hi.fo_part q fo hfo
      have hqp : q ≠ p := by
        intro hh; subst hh; rw [hp] at hpt0; cases hpt0
      have hpt'' : upd s.parts p (some ⟨rs, rs, l, s.index + 1 + g, s.index + 1 + g⟩) q = some pt' := hpt'
      rw [upd_other _ _ _ _ hqp] at hpt''
      exact ⟨pt', hpt'', rfl, rfl⟩
    · exact witOk_same hw (fun q l' e => classify_create q l' e p rs l g _)

theorem witOk_remove {s : Ctl} {h : List (Step × Out)} (hw : WitOk s h) (p : PKey) (g : Nat) :
    WitOk (remove s p g).1 ((.remove p g, (remove s p g).2) :: h) := by
  unfold remove
  cases hp : s.parts p with
  | none => exact witOk_same hw (fun q l e => classify_remove_refused q l e p g _)
  | some pt =>
    simp only
    refine witOk_frame hw ?_ ?_ ?_
    · intro q fo hq
      rcases upd_some hq with ⟨_, hv⟩ | ⟨_, hq'⟩
      · cases hv
      · exact hq'
    · intro q fo pt' hq hpt'
      rcases upd_some hq with ⟨_, hv⟩ | ⟨hqp, _⟩
      · cases hv
      · have hpt'' : upd s.parts p none q = some pt' := hpt'
        rw [upd_other _ _ _ _ hqp] at hpt''
        exact ⟨pt', hpt'', rfl, rfl⟩
    · intro q fo l e hq
      rcases upd_some hq with ⟨_, hv⟩ | ⟨hqp, _⟩
      · cases hv
      · exact classify_remove_ne q l e p g _ (fun hh => hqp hh.symm)

theorem witOk_expire {s : Ctl} {h : List (Step × Out)} (hw : WitOk s h) (p : PKey) :
    WitOk (expire s p).1 ((.expire p, (expire s p).2) :: h) := by
  unfold expire
  cases hf : s.fos p with
  | none => exact witOk_same hw (fun q l e => classify_expire_notArmed q l e p)
  | some fo =>
    simp only
    split
    · refine witOk_frame hw ?_ ?_ ?_
      · intro q fo' hq
        rcases upd_some hq with ⟨_, hv⟩ | ⟨_, hq'⟩
        · cases hv
        · exact hq'
      · intro q fo' pt' _ hpt'
        exact ⟨pt', hpt', rfl, rfl⟩
      · intro q fo' l e hq
        rcases upd_some hq with ⟨_, hv⟩ | ⟨hqp, _⟩
        · cases hv
        · exact classify_expire_ne q l e p _ (fun hh => hqp hh.symm)
    · exact witOk_same hw (fun q l e => classify_expire_notArmed q l e p)

theorem witOk_lost {s : Ctl} {h : List (Step × Out)} :
    WitOk (lostLeadership s).1 ((.lostLeadership, (lostLeadership s).2) :: h) := by
  intro q fo pt hfo
  cases hfo

theorem witOk_reqShrink {s : Ctl} {h : List (Step × Out)} (hw : WitOk s h) (cfg : Cfg) (p : PKey) (r l : Id) (e : Nat) :
    WitOk (reqShrink cfg s p r l e).1 ((.reqShrink p r l e, (reqShrink cfg s p r l e).2) :: h) := by
  obtain ⟨h1, _, h3, _⟩ := reqShrink_frame cfg s p r l e
  refine witOk_frame hw ?_ ?_ (fun q _ l' e' _ => classify_reqShrink q l' e' p r l e _)
  · intro q fo hq; rw [h3] at hq; exact hq
  · intro q fo pt' _ hpt'; rw [h1] at hpt'; exact ⟨pt', hpt', rfl, rfl⟩

theorem witOk_reqExpand {s : Ctl} {h : List (Step × Out)} (hw : WitOk s h) (cfg : Cfg) (p : PKey) (r l : Id) (e : Nat) :
    WitOk (reqExpand cfg s p r l e).1 ((.reqExpand p r l e, (reqExpand cfg s p r l e).2) :: h) := by
  obtain ⟨h1, _, h3, _⟩ := reqExpand_frame cfg s p r l e
  refine witOk_frame hw ?_ ?_ (fun q _ l' e' _ => classify_reqExpand q l' e' p r l e _)
  · intro q fo hq; rw [h3] at hq; exact hq
  · intro q fo pt' _ hpt'; rw [h1] at hpt'; exact ⟨pt', hpt', rfl, rfl⟩

theorem witOk_commit {s : Ctl} {h : List (Step × Out)} (hw : WitOk s h) (k g : Nat) :
    WitOk (commit Cfg.fixed s k g).1 ((.commit k g, (commit Cfg.fixed s k g).2) :: h) := by
  unfold commit
  cases s.inflight[k]? with
  | none => exact witOk_same hw (fun q l e => classify_commit q l e k g _)
  | some op =>
    simp only
    have hc := commitOp_wit { s with inflight := s.inflight.eraseIdx k } (s.index + 1 + g) op
    refine witOk_frame hw ?_ ?_ (fun q _ l e _ => classify_commit q l e k g _)
    · intro q fo hq; exact (hc q fo hq).1
    · intro q fo pt' hq hpt'; exact (hc q fo hq).2 pt' hpt'


theorem witOk_report {s : Ctl} {h : List (Step × Out)} (hw : WitOk s h) (p : PKey) (r l : Id) (e : Nat) (c : Id) :
    WitOk (report Cfg.fixed s p r l e c).1 ((.report p r l e c, (report Cfg.fixed s p r l e c).2) :: h) := by
  have hnot : ∀ o, accepted o = false → WitOk s ((.report p r l e c, o) :: h) :=
    fun o ho => witOk_same hw (fun q l' e' => classify_report_not q l' e' p r l e c o ho)
  -- the entry of `p` is dropped, everything else stays
  have hdrop : ∀ (o : Out) (fl : List Op), WitOk { s with fos := upd s.fos p none, inflight := fl } ((.report p r l e c, o) :: h) := by
    intro o fl
    refine witOk_frame hw ?_ ?_ ?_
    · intro q fo hq
      rcases upd_some hq with ⟨_, hv⟩ | ⟨_, hq'⟩
      · cases hv
      · exact hq'
    · intro q fo pt' _ hpt'
      exact ⟨pt', hpt', rfl, rfl⟩
    · intro q fo l' e' hq
      rcases upd_some hq with ⟨_, hv⟩ | ⟨hqp, _⟩
      · cases hv
      · exact classify_report_ne q l' e' p r l e c o (fun hh => hqp hh.symm)
  unfold report
  cases hp : s.parts p with
  | none => exact hnot _ rfl
  | some pt =>
    simp only
    split
    · exact hnot _ rfl
    · rename_i hst
      have hcur := cur_of_not fun hx => hst ((stale_report_iff pt l e).2 hx)
      split
      · simp only [Cfg.fixed, if_true]
        cases hel : elect pt c with
        | triggered c' => exact hdrop _ _
        | noCandidates => exact hdrop _ _
        | recorded => exact hnot _ rfl
        | accepted => exact hnot _ rfl
        | refused w => exact hnot _ rfl
        | applied => exact hnot _ rfl
        | idempotent => exact hnot _ rfl
        | done => exact hnot _ rfl
        | notArmed => exact hnot _ rfl
        | panic => exact hnot _ rfl
        | dead => exact hnot _ rfl
        | illegal => exact hnot _ rfl
      · -- recorded
        intro q fo pt' hfo hpt' w hw'
        have hpt'' : s.parts q = some pt' := hpt'
        rcases upd_some hfo with ⟨hqp, hv⟩ | ⟨hqp, hq'⟩
        · cases hv
          subst hqp
          rw [hp] at hpt''; cases hpt''
          rw [← hcur.1, ← hcur.2, reporters_rep h (classify_report_acc q r l e c .recorded rfl)]
          rcases mem_sins.1 hw' with hw1 | hw1
          · cases hf : s.fos q with
            | none => rw [hf] at hw1; simp at hw1
            | some fo0 =>
              rw [hf] at hw1
              have := hw q fo0 pt hf hp w (by simpa using hw1)
              rw [hcur.1, hcur.2]
              exact List.mem_cons_of_mem _ this
          · subst hw1; exact List.mem_cons_self
        · rw [reporters_other h (classify_report_ne q _ _ p r l e c .recorded (fun hh => hqp hh.symm))]
          exact hw q fo pt' hq' hpt'' w hw'

theorem witOk_step {s : Ctl} {h : List (Step × Out)} (hi : Inv s) (hw : WitOk s h) (st : Step) :
    WitOk (step Cfg.fixed s st).1 ((st, (step Cfg.fixed s st).2) :: h) := by
  unfold step
  rw [hi.alive]
  simp only [Bool.false_eq_true, if_false]
  cases st with
  | create p rs l g => exact witOk_create hi hw p rs l g
  | remove p g => exact witOk_remove hw p g
  | report p r l e c => exact witOk_report hw p r l e c
  | reqShrink p r l e => exact witOk_reqShrink hw _ p r l e
  | reqExpand p r l e => exact witOk_reqExpand hw _ p r l e
  | commit k g => exact witOk_commit hw k g
  | expire p => exact witOk_expire hw p
  | lostLeadership => exact witOk_lost

theorem witOk_runH (steps : List Step) : ∀ {s : Ctl} {h : List (Step × Out)}, Inv s → WitOk s h →
    WitOk (runH Cfg.fixed s h steps).1 (runH Cfg.fixed s h steps).2 := by
  induction steps with
  | nil => intro s h _ hw; exact hw
  | cons st rest ih =>
    intro s h hi hw
    simp only [runH]
    exact ih (inv_step hi st) (witOk_step hi hw st)

theorem witOk_init : WitOk Ctl.init [] := by
  intro p fo pt hfo; cases hfo


/-! ### what a triggering report tells -/

theorem report_triggered {cfg : Cfg} {s : Ctl} {p : PKey} {r l : Id} {e : Nat} {choice c : Id}
    (h : (report cfg s p r l e choice).2 = .triggered c) :
    ∃ pt, s.parts p = some pt ∧ l = pt.leader ∧ e = pt.leaderEpoch ∧
      reports cfg pt (sins ((s.fos p).getD ⟨[], false⟩).witnesses r) > quorum pt ∧
      c ∈ pt.isr ∧ c ≠ pt.leader := by
  unfold report at h
  cases hp : s.parts p with
  | none => rw [hp] at h; cases h
  | some pt =>
    rw [hp] at h
    simp only at h
    split at h
    · cases h
    · rename_i hst
      have hcur := cur_of_not fun hx => hst ((stale_report_iff pt l e).2 hx)
      split at h
      · rename_i hq
        simp only [Gen.Failover.quorumCmp, Cmp.evalNat, decide_eq_true_eq] at hq
        cases hel : elect pt choice with
        | triggered c' =>
          rw [hel] at h
          simp only at h
          injection h with h
          subst h
          have := elect_triggered hel
          exact ⟨pt, rfl, hcur.1, hcur.2, hq, this.2.1, this.2.2⟩
        | noCandidates => rw [hel] at h; cases h
        | recorded => rw [hel] at h; cases h
        | accepted => rw [hel] at h; cases h
        | refused w => rw [hel] at h; cases h
        | applied => rw [hel] at h; cases h
        | idempotent => rw [hel] at h; cases h
        | done => rw [hel] at h; cases h
        | notArmed => rw [hel] at h; cases h
        | panic => rw [hel] at h; cases h
        | dead => rw [hel] at h; cases h
        | illegal => rw [hel] at h; cases h
      · cases h

/-- The counting step of `quorum_ok`: `ws` duplicate-free, all of them reporters `R`; the number
of in-sync followers among `ws` exceeds `(|isr| - 1) / 2` ⇒ more than half of the followers are
in `R`. -/
theorem quorum_count {pt : Part} {ws R : List Id} (hl : pt.leader ∈ pt.isr) (hnd : pt.isr.Nodup)
    (hws : ws.Nodup) (hR : ∀ w ∈ ws, w ∈ R)
    (hq : (ws.filter (isWitness pt)).length > quorum pt) :
    2 * ((followers pt).filter (fun f => decide (f ∈ R))).length > (followers pt).length := by
  have hA : (ws.filter (isWitness pt)).length ≤ ((followers pt).filter (fun f => decide (f ∈ R))).length := by
    apply nodup_subset_length_le
    · exact List.Nodup.sublist List.filter_sublist hws
    · intro w hw
      obtain ⟨hw1, hw2⟩ := List.mem_filter.1 hw
      simp only [isWitness, Bool.and_eq_true, decide_eq_true_eq] at hw2
      apply List.mem_filter.2
      refine ⟨?_, by simpa using hR w hw1⟩
      unfold followers
      apply List.mem_filter.2
      exact ⟨hw2.2, by simpa using hw2.1⟩
  have hF : (followers pt).length + 1 = pt.isr.length := length_followers hnd hl
  unfold quorum at hq
  simp only [Gen.Failover.quorumSub, Gen.Failover.quorumDiv] at hq
  omega


/-! ### commits -/

/-- A leader change that is applied under the repaired code met the state it was decided on. -/
theorem commit_change_applied {s : Ctl} {k g : Nat} {p : PKey} {c ol : Id} {oe : Nat}
    (hk : s.inflight[k]? = some (.change p c ol oe))
    (h : (commit Cfg.fixed s k g).2 = .applied) :
    ∃ pt, s.parts p = some pt ∧ c ∈ pt.isr ∧ pt.leader = ol ∧ pt.leaderEpoch = oe ∧
      (commit Cfg.fixed s k g).1.parts p =
        some { pt with leader := c, leaderEpoch := s.index + 1 + g, epoch := s.index + 1 + g } := by
  unfold commit at h ⊢
  rw [hk] at h ⊢
  simp only [commitOp] at h ⊢
  cases hp : s.parts p with
  | none => rw [hp] at h; cases h
  | some pt =>
    rw [hp] at h
    simp only at h ⊢
    split at h
    · cases h
    · rename_i hst
      split at h
      · cases h
      · rename_i hcand
        simp only [Cfg.fixed, Bool.true_and, Bool.not_eq_true', decide_eq_false_iff_not, Decidable.not_not] at hst hcand
        have hcur := cur_of_not fun hx => hst ((staleAtCommit_iff pt ol oe).2 hx)
        have hst' : ¬ (Cfg.fixed.underLock && staleAtCommit pt ol oe) = true := by
          simpa [Cfg.fixed] using hst
        have hcand' : ¬ (Cfg.fixed.underLock && !decide (c ∈ pt.isr)) = true := by
          simpa [Cfg.fixed] using hcand
        rw [if_neg hst', if_neg hcand']
        cases ha : applyChange pt c (s.index + 1 + g) with
        | same => rw [ha] at h; cases h
        | fail => rw [ha] at h; cases h
        | changed pt' =>
          simp only
          refine ⟨pt, rfl, hcand, hcur.1.symm, hcur.2.symm, ?_⟩
          unfold applyChange at ha
          split at ha
          · cases ha
          · split at ha
            · cases ha
            · cases ha; simp

/-- With the re-validation in the precondition, a proposal whose (leader, epoch) is no longer
current is refused and changes nothing (any state). -/
theorem commitOp_stale {cfg : Cfg} (hlock : cfg.underLock = true) (s : Ctl) (idx : Nat) (op : Op) (pt : Part)
    (hp : s.parts op.part = some pt) (hst : op.leader ≠ pt.leader ∨ op.epoch ≠ pt.leaderEpoch) :
    commitOp cfg s idx op = (s, .refused .stale) := by
  cases op with
  | shrink p r l e =>
    simp only [Op.part, Op.leader, Op.epoch] at hp hst
    have hs : (cfg.underLock && staleAtCommit pt l e) = true := by
      rw [hlock, (staleAtCommit_iff pt l e).2 hst]; rfl
    simp only [commitOp, hp, hs, if_true]
  | expand p r l e =>
    simp only [Op.part, Op.leader, Op.epoch] at hp hst
    have hs : (cfg.underLock && staleAtCommit pt l e) = true := by
      rw [hlock, (staleAtCommit_iff pt l e).2 hst]; rfl
    simp only [commitOp, hp, hs, if_true]
  | change p c l e =>
    simp only [Op.part, Op.leader, Op.epoch] at hp hst
    have hs : (cfg.underLock && staleAtCommit pt l e) = true := by
      rw [hlock, (staleAtCommit_iff pt l e).2 hst]; rfl
    simp only [commitOp, hp, hs, if_true]

end Liftbridge.Proofs.Failover
