/- Helper lemmas about `Liftbridge.Retention` (C09). -/
import Liftbridge.Model.Retention
namespace Liftbridge.Proofs.Retention
open Liftbridge Liftbridge.Log Liftbridge.Retention

/-! ### Generic list facts -/

theorem sum_map_append (size : Seg → Int) (a b : List Seg) :
    ((a ++ b).map size).sum = (a.map size).sum + (b.map size).sum := by
  induction a with
  | nil => simp
  | cons x xs ih => simp only [List.cons_append, List.map_cons, List.sum_cons, ih]; omega

theorem sum_map_reverse (size : Seg → Int) (a : List Seg) :
    (a.reverse.map size).sum = (a.map size).sum := by
  induction a with
  | nil => simp
  | cons x xs ih =>
    simp only [List.reverse_cons, sum_map_append, ih, List.map_cons, List.sum_cons, List.map_nil,
      List.sum_nil]; omega

theorem sum_map_nonneg (size : Seg → Int) (a : List Seg) (h : ∀ s ∈ a, 0 ≤ size s) :
    0 ≤ (a.map size).sum := by
  induction a with
  | nil => simp
  | cons x xs ih =>
    have h1 := h x (by simp)
    have h2 := ih (fun s hs => h s (by simp [hs]))
    simp only [List.map_cons, List.sum_cons]; omega

theorem msgSize_nonneg (s : Seg) : 0 ≤ msgSize s := by simp [msgSize]
theorem byteSize_nonneg (s : Seg) : 0 ≤ byteSize s := by simp [byteSize]

/-- `segs = pre ++ res`, `res = segs.drop (k+1)` and `segs[k]? = some s`: `s` is the last of `pre`. -/
theorem getLast?_of_split {segs pre res : List Seg} {k : Nat} {s : Seg}
    (h : segs = pre ++ res) (hk : res = segs.drop (k + 1)) (hs : segs[k]? = some s) :
    pre.getLast? = some s := by
  have hlt : k < segs.length := by
    rcases Nat.lt_or_ge k segs.length with h' | h'
    · exact h'
    · rw [List.getElem?_eq_none h'] at hs; cases hs
  have hlen : res.length = segs.length - (k + 1) := by rw [hk, List.length_drop]
  have hlen2 : segs.length = pre.length + res.length := by rw [h, List.length_append]
  have hpre : pre.length = k + 1 := by omega
  rw [h, List.getElem?_append_left (by omega)] at hs
  rw [List.getLast?_eq_getElem?, hpre]
  simpa using hs

theorem eq_drop_of_split {segs pre res : List Seg} (h : segs = pre ++ res) :
    res = segs.drop pre.length := by
  rw [h, List.drop_left]

/-! ### Age stage -/

theorem applyAge_split (ttl : Int) (segs : List Seg) :
    ∃ pre, segs = pre ++ applyAge ttl segs ∧ ∀ s ∈ pre, s.lastTs < ttl := by
  fun_induction applyAge ttl segs with
  | case1 => exact ⟨[], rfl, by simp⟩
  | case2 s => exact ⟨[], rfl, by simp⟩
  | case3 s s' rest h ih =>
    obtain ⟨pre, h1, h2⟩ := ih
    refine ⟨s :: pre, ?_, ?_⟩
    · rw [List.cons_append, ← h1]
    · intro x hx
      rcases List.mem_cons.mp hx with rfl | hx
      · simpa [Gen.Retention.ageCmp, Cmp.evalInt] using h
      · exact h2 x hx
  | case4 s s' rest h => exact ⟨[], rfl, by simp⟩

theorem applyAge_ne_nil (ttl : Int) (segs : List Seg) (hne : segs ≠ []) :
    applyAge ttl segs ≠ [] := by
  fun_induction applyAge ttl segs with
  | case1 => exact absurd rfl hne
  | case2 s => simp
  | case3 s s' rest h ih => exact ih (by simp)
  | case4 s s' rest h => simp

theorem applyAge_head (ttl : Int) (segs : List Seg) (s : Seg)
    (hl : 1 < (applyAge ttl segs).length) (hs : (applyAge ttl segs).head? = some s) :
    ttl ≤ s.lastTs := by
  fun_induction applyAge ttl segs with
  | case1 => simp at hl
  | case2 s0 => simp at hl
  | case3 s0 s' rest h ih => exact ih hl hs
  | case4 s0 s' rest h =>
    simp only [List.head?_cons, Option.some.injEq] at hs
    subst hs
    simpa [Gen.Retention.ageCmp, Cmp.evalInt] using h

theorem applyAge_id (ttl : Int) (segs : List Seg)
    (h : 1 < segs.length → ∀ s, segs.head? = some s → ttl ≤ s.lastTs) :
    applyAge ttl segs = segs := by
  match segs, h with
  | [], _ => rfl
  | [s], _ => rfl
  | s :: s' :: rest, h =>
    have := h (by simp) s rfl
    have hn : ¬ s.lastTs < ttl := by omega
    rw [applyAge]
    simp [Gen.Retention.ageCmp, Cmp.evalInt, hn]

/-! ### Count / byte stages (`keepBack`, `applyLimit` with `>`), for an arbitrary `size` -/

theorem keepBack_spec (limit : Int) (size : Seg → Int) (l : List Seg) (t : Int) :
    ∃ rest, l = keepBack .gt limit size l t ++ rest ∧
      (keepBack .gt limit size l t ≠ [] →
        t + ((keepBack .gt limit size l t).map size).sum ≤ limit) ∧
      (∀ s, rest.head? = some s →
        limit < t + ((keepBack .gt limit size l t).map size).sum + size s) := by
  induction l generalizing t with
  | nil => exact ⟨[], by simp [keepBack]⟩
  | cons x xs ih =>
    by_cases hx : limit < t + size x
    · refine ⟨x :: xs, ?_, ?_, ?_⟩ <;> simp [keepBack, Cmp.evalInt, hx]
    · obtain ⟨rest, h1, h2, h3⟩ := ih (t + size x)
      have hk : keepBack .gt limit size (x :: xs) t
          = x :: keepBack .gt limit size xs (t + size x) := by
        simp [keepBack, Cmp.evalInt, hx]
      refine ⟨rest, ?_, ?_, ?_⟩
      · rw [hk, List.cons_append, ← h1]
      · intro _
        rw [hk, List.map_cons, List.sum_cons]
        by_cases hnil : keepBack .gt limit size xs (t + size x) = []
        · rw [hnil]; simp only [List.map_nil, List.sum_nil]; omega
        · have := h2 hnil; omega
      · intro s hs
        rw [hk, List.map_cons, List.sum_cons]
        have := h3 s hs; omega

theorem keepBack_id (limit : Int) (size : Seg → Int) (l : List Seg) (t : Int)
    (hnn : ∀ s ∈ l, 0 ≤ size s) (h : t + (l.map size).sum ≤ limit) :
    keepBack .gt limit size l t = l := by
  induction l generalizing t with
  | nil => rfl
  | cons x xs ih =>
    have hxs : ∀ s ∈ xs, 0 ≤ size s := fun s hs => hnn s (by simp [hs])
    have h0 := sum_map_nonneg size xs hxs
    simp only [List.map_cons, List.sum_cons] at h
    have hx : ¬ limit < t + size x := by omega
    simp only [keepBack, Cmp.evalInt, gt_iff_lt, hx, decide_false, Bool.false_eq_true, ↓reduceIte]
    rw [ih (t + size x) hxs (by omega)]

theorem applyLimit_rev (cmp : Cmp) (limit : Int) (size : Seg → Int) (last : Seg)
    (revInit : List Seg) :
    applyLimit cmp limit size (last :: revInit).reverse
      = (keepBack cmp limit size revInit (size last)).reverse ++ [last] := by
  simp [applyLimit]

/-- Full description of one count/byte stage: the result is a non-empty suffix, within the limit
unless it is a single segment, and the segment just before it (if any) would break the limit. -/
theorem applyLimit_spec (limit : Int) (size : Seg → Int) (segs : List Seg) :
    ∃ pre, segs = pre ++ applyLimit .gt limit size segs ∧
      (segs ≠ [] → applyLimit .gt limit size segs ≠ []) ∧
      (1 < (applyLimit .gt limit size segs).length →
        ((applyLimit .gt limit size segs).map size).sum ≤ limit) ∧
      (∀ s, pre.getLast? = some s →
        limit < size s + ((applyLimit .gt limit size segs).map size).sum) := by
  obtain ⟨r, rfl⟩ : ∃ r, segs = r.reverse := ⟨segs.reverse, by simp⟩
  cases r with
  | nil => exact ⟨[], by simp [applyLimit]⟩
  | cons last revInit =>
    rw [applyLimit_rev]
    obtain ⟨rest, h1, h2, h3⟩ := keepBack_spec limit size revInit (size last)
    generalize keepBack .gt limit size revInit (size last) = kept at h1 h2 h3 ⊢
    subst h1
    refine ⟨rest.reverse, ?_, ?_, ?_, ?_⟩
    · simp
    · simp
    · intro hl
      have hne : kept ≠ [] := by
        intro h; subst h; simp at hl
      have := h2 hne
      simp only [sum_map_append, sum_map_reverse, List.map_cons, List.sum_cons, List.map_nil,
        List.sum_nil]
      omega
    · intro s hs
      have hs' : rest.head? = some s := by simpa [List.getLast?_reverse] using hs
      have := h3 s hs'
      simp only [sum_map_append, sum_map_reverse, List.map_cons, List.sum_cons, List.map_nil,
        List.sum_nil]
      omega

theorem applyLimit_id (limit : Int) (size : Seg → Int) (segs : List Seg)
    (hnn : ∀ s ∈ segs, 0 ≤ size s) (h : 1 < segs.length → (segs.map size).sum ≤ limit) :
    applyLimit .gt limit size segs = segs := by
  obtain ⟨r, rfl⟩ : ∃ r, segs = r.reverse := ⟨segs.reverse, by simp⟩
  cases r with
  | nil => simp [applyLimit]
  | cons last revInit =>
    rw [applyLimit_rev]
    cases revInit with
    | nil => simp [keepBack]
    | cons x xs =>
      have h' := h (by simp)
      rw [sum_map_reverse] at h'
      simp only [List.map_cons, List.sum_cons] at h'
      have hnn' : ∀ s ∈ x :: xs, 0 ≤ size s := by
        intro s hs
        apply hnn s
        simp only [List.mem_reverse, List.mem_cons] at hs ⊢
        exact Or.inr hs
      rw [keepBack_id limit size (x :: xs) (size last) hnn'
        (by simp only [List.map_cons, List.sum_cons]; omega)]
      simp

/-! ### The stages of `clean` (age, messages, bytes, age again) -/

def stageA (lim : Limits) (ttl : Int) (segs : List Seg) : List Seg :=
  if 0 < lim.age then applyAge ttl segs else segs
def stageM (lim : Limits) (segs : List Seg) : List Seg :=
  if 0 < lim.msgs then applyLimit .gt lim.msgs msgSize segs else segs
def stageB (lim : Limits) (segs : List Seg) : List Seg :=
  if 0 < lim.bytes then applyLimit .gt lim.bytes byteSize segs else segs

theorem clean_eq (lim : Limits) (ttl : Int) (segs : List Seg) :
    clean lim ttl segs = stageA lim ttl (stageB lim (stageM lim (stageA lim ttl segs))) := by
  unfold clean stageA stageM stageB
  simp only [Gen.Retention.ageOnCmp, Gen.Retention.msgsOnCmp, Gen.Retention.bytesOnCmp,
    Gen.Retention.msgsCmp, Gen.Retention.bytesCmp, Gen.Retention.ageSecondPass, Cmp.evalInt,
    gt_iff_lt, decide_eq_true_eq, Bool.true_and]
  split
  · rename_i h
    obtain ⟨hb, hm, ha⟩ := h
    simp [hb, hm, ha]
  · rfl

/-- The pre-fix pipeline of `deleteCleaner.Clean`: age, messages, bytes — without the second age
pass (same extracted comparators). Kept to document why the fourth stage is needed. -/
def cleanOld (lim : Limits) (ttl : Int) (segs : List Seg) : List Seg :=
  if lim.bytes = 0 ∧ lim.msgs = 0 ∧ lim.age = 0 then segs else
  let s1 := if Gen.Retention.ageOnCmp.evalInt lim.age 0 then applyAge ttl segs else segs
  let s2 := if Gen.Retention.msgsOnCmp.evalInt lim.msgs 0 then applyLimit Gen.Retention.msgsCmp lim.msgs msgSize s1 else s1
  if Gen.Retention.bytesOnCmp.evalInt lim.bytes 0 then applyLimit Gen.Retention.bytesCmp lim.bytes byteSize s2 else s2

theorem stageA_spec (lim : Limits) (ttl : Int) (segs : List Seg) :
    ∃ pre, segs = pre ++ stageA lim ttl segs ∧
      (segs ≠ [] → stageA lim ttl segs ≠ []) ∧
      (∀ s ∈ pre, 0 < lim.age ∧ s.lastTs < ttl) ∧
      (0 < lim.age → 1 < (stageA lim ttl segs).length →
        ∀ s, (stageA lim ttl segs).head? = some s → ttl ≤ s.lastTs) := by
  unfold stageA
  split
  · rename_i h
    obtain ⟨pre, h1, h2⟩ := applyAge_split ttl segs
    exact ⟨pre, h1, applyAge_ne_nil ttl segs, fun s hs => ⟨h, h2 s hs⟩,
      fun _ hl s hs => applyAge_head ttl segs s hl hs⟩
  · rename_i h
    exact ⟨[], rfl, id, by simp, fun h' => absurd h' h⟩

theorem stageL_spec (limit : Int) (size : Seg → Int) (segs : List Seg) :
    ∃ pre, segs = pre ++ (if 0 < limit then applyLimit .gt limit size segs else segs) ∧
      (segs ≠ [] → (if 0 < limit then applyLimit .gt limit size segs else segs) ≠ []) ∧
      (0 < limit → 1 < (if 0 < limit then applyLimit .gt limit size segs else segs).length →
        ((if 0 < limit then applyLimit .gt limit size segs else segs).map size).sum ≤ limit) ∧
      (∀ s, pre.getLast? = some s → 0 < limit ∧
        limit < size s +
          ((if 0 < limit then applyLimit .gt limit size segs else segs).map size).sum) := by
  split
  · rename_i h
    obtain ⟨pre, h1, h2, h3, h4⟩ := applyLimit_spec limit size segs
    exact ⟨pre, h1, h2, fun _ => h3, fun s hs => ⟨h, h4 s hs⟩⟩
  · rename_i h
    exact ⟨[], rfl, id, fun h' => absurd h' h, by simp⟩

theorem stageM_spec (lim : Limits) (segs : List Seg) :
    ∃ pre, segs = pre ++ stageM lim segs ∧
      (segs ≠ [] → stageM lim segs ≠ []) ∧
      (0 < lim.msgs → 1 < (stageM lim segs).length →
        ((stageM lim segs).map msgSize).sum ≤ lim.msgs) ∧
      (∀ s, pre.getLast? = some s → 0 < lim.msgs ∧
        lim.msgs < msgSize s + ((stageM lim segs).map msgSize).sum) :=
  stageL_spec lim.msgs msgSize segs

theorem stageB_spec (lim : Limits) (segs : List Seg) :
    ∃ pre, segs = pre ++ stageB lim segs ∧
      (segs ≠ [] → stageB lim segs ≠ []) ∧
      (0 < lim.bytes → 1 < (stageB lim segs).length →
        ((stageB lim segs).map byteSize).sum ≤ lim.bytes) ∧
      (∀ s, pre.getLast? = some s → 0 < lim.bytes ∧
        lim.bytes < byteSize s + ((stageB lim segs).map byteSize).sum) :=
  stageL_spec lim.bytes byteSize segs

/-- Everything the four stages guarantee, in one place. `pA`, `pM`, `pB`, `pA2` are the segments
removed by the age, message-count, byte and second age stage. -/
theorem clean_spec (lim : Limits) (ttl : Int) (segs : List Seg) :
    ∃ pA pM pB pA2, segs = pA ++ (pM ++ (pB ++ (pA2 ++ clean lim ttl segs))) ∧
      (segs ≠ [] → clean lim ttl segs ≠ []) ∧
      (∀ s ∈ pA, 0 < lim.age ∧ s.lastTs < ttl) ∧
      (0 < lim.msgs → 1 < (pB ++ (pA2 ++ clean lim ttl segs)).length →
        ((pB ++ (pA2 ++ clean lim ttl segs)).map msgSize).sum ≤ lim.msgs) ∧
      (∀ s, pM.getLast? = some s → 0 < lim.msgs ∧
        lim.msgs < msgSize s + ((pB ++ (pA2 ++ clean lim ttl segs)).map msgSize).sum) ∧
      (0 < lim.bytes → 1 < (pA2 ++ clean lim ttl segs).length →
        ((pA2 ++ clean lim ttl segs).map byteSize).sum ≤ lim.bytes) ∧
      (∀ s, pB.getLast? = some s → 0 < lim.bytes ∧
        lim.bytes < byteSize s + ((pA2 ++ clean lim ttl segs).map byteSize).sum) ∧
      (∀ s ∈ pA2, 0 < lim.age ∧ s.lastTs < ttl) ∧
      (0 < lim.age → 1 < (clean lim ttl segs).length →
        ∀ s, (clean lim ttl segs).head? = some s → ttl ≤ s.lastTs) := by
  rw [clean_eq]
  obtain ⟨pA, a1, a2, a3, -⟩ := stageA_spec lim ttl segs
  obtain ⟨pM, m1, m2, m3, m4⟩ := stageM_spec lim (stageA lim ttl segs)
  obtain ⟨pB, b1, b2, b3, b4⟩ := stageB_spec lim (stageM lim (stageA lim ttl segs))
  obtain ⟨pA2, c1, c2, c3, c4⟩ :=
    stageA_spec lim ttl (stageB lim (stageM lim (stageA lim ttl segs)))
  refine ⟨pA, pM, pB, pA2, ?_, ?_, a3, ?_, ?_, ?_, ?_, c3, c4⟩
  · rw [← c1, ← b1, ← m1, ← a1]
  · exact fun h => c2 (b2 (m2 (a2 h)))
  · rw [← c1, ← b1]; exact m3
  · rw [← c1, ← b1]; exact m4
  · rw [← c1]; exact b3
  · rw [← c1]; exact b4

/-! ### Consequences for `clean` -/

theorem clean_suffix' (lim : Limits) (ttl : Int) (segs : List Seg) :
    ∃ k, clean lim ttl segs = segs.drop k := by
  obtain ⟨pA, pM, pB, pA2, h, -⟩ := clean_spec lim ttl segs
  refine ⟨(pA ++ (pM ++ (pB ++ pA2))).length, eq_drop_of_split ?_⟩
  simpa [List.append_assoc] using h

theorem clean_keeps_last' (lim : Limits) (ttl : Int) (segs : List Seg) (h : segs ≠ []) :
    (clean lim ttl segs).getLast? = segs.getLast? := by
  obtain ⟨pA, pM, pB, pA2, h1, h2, -⟩ := clean_spec lim ttl segs
  have hne := h2 h
  generalize clean lim ttl segs = r at h1 hne
  subst h1
  rw [← List.append_assoc, ← List.append_assoc, ← List.append_assoc, List.getLast?_append]
  cases hr : r.getLast? with
  | none => exact absurd (List.getLast?_eq_none_iff.mp hr) hne
  | some x => simp

theorem msgs_limit_holds' (lim : Limits) (ttl : Int) (segs : List Seg) (hm : 0 < lim.msgs)
    (hl : 1 < (clean lim ttl segs).length) :
    ((clean lim ttl segs).map msgSize).sum ≤ lim.msgs := by
  obtain ⟨pA, pM, pB, pA2, -, -, -, h, -⟩ := clean_spec lim ttl segs
  have h' := h hm (by simp only [List.length_append]; omega)
  rw [sum_map_append, sum_map_append] at h'
  have := sum_map_nonneg msgSize pB (fun s _ => msgSize_nonneg s)
  have := sum_map_nonneg msgSize pA2 (fun s _ => msgSize_nonneg s)
  omega

theorem bytes_limit_holds' (lim : Limits) (ttl : Int) (segs : List Seg) (hb : 0 < lim.bytes)
    (hl : 1 < (clean lim ttl segs).length) :
    ((clean lim ttl segs).map byteSize).sum ≤ lim.bytes := by
  obtain ⟨pA, pM, pB, pA2, -, -, -, -, -, h, -⟩ := clean_spec lim ttl segs
  have h' := h hb (by simp only [List.length_append]; omega)
  rw [sum_map_append] at h'
  have := sum_map_nonneg byteSize pA2 (fun s _ => byteSize_nonneg s)
  omega

theorem age_limit_holds' (lim : Limits) (ttl : Int) (segs : List Seg) (ha : 0 < lim.age)
    (hl : 1 < (clean lim ttl segs).length) :
    ∀ s, (clean lim ttl segs).head? = some s → ttl ≤ s.lastTs := by
  obtain ⟨pA, pM, pB, pA2, -, -, -, -, -, -, -, -, h⟩ := clean_spec lim ttl segs
  exact h ha hl

/-- With non-decreasing last-write times every survivor (of a result with more than one segment)
is young enough. -/
theorem age_limit_sorted (lim : Limits) (ttl : Int) (segs : List Seg) (ha : 0 < lim.age)
    (hl : 1 < (clean lim ttl segs).length)
    (hp : segs.Pairwise (fun a b => a.lastTs ≤ b.lastTs)) :
    ∀ s ∈ clean lim ttl segs, ttl ≤ s.lastTs := by
  have hhead := age_limit_holds' lim ttl segs ha hl
  obtain ⟨k, hk⟩ := clean_suffix' lim ttl segs
  have hp' : (clean lim ttl segs).Pairwise (fun a b => a.lastTs ≤ b.lastTs) := by
    rw [hk]; exact hp.sublist (List.drop_sublist k segs)
  generalize clean lim ttl segs = r at hhead hp'
  cases r with
  | nil => simp
  | cons x xs =>
    have hx := hhead x rfl
    intro s hs
    rcases List.mem_cons.mp hs with rfl | hs
    · exact hx
    · exact Int.le_trans hx ((List.pairwise_cons.mp hp').1 s hs)

theorem clean_minimal' (lim : Limits) (ttl : Int) (segs : List Seg) (k : Nat) (s : Seg)
    (hk : clean lim ttl segs = segs.drop (k + 1)) (hs : segs[k]? = some s) :
    (0 < lim.age ∧ s.lastTs < ttl) ∨
    (0 < lim.msgs ∧ lim.msgs < ((s :: segs.drop (k + 1)).map msgSize).sum) ∨
    (0 < lim.bytes ∧ lim.bytes < ((s :: segs.drop (k + 1)).map byteSize).sum) := by
  obtain ⟨pA, pM, pB, pA2, h1, -, hA, -, hM, -, hB, hA2, -⟩ := clean_spec lim ttl segs
  rw [← hk]
  have hlast : (pA ++ (pM ++ (pB ++ pA2))).getLast? = some s :=
    getLast?_of_split (res := clean lim ttl segs) (by simpa [List.append_assoc] using h1) hk hs
  simp only [List.map_cons, List.sum_cons]
  cases ha2 : pA2.getLast? with
  | some x =>
    have : x = s := by simpa [List.getLast?_append, ha2] using hlast
    subst this
    exact Or.inl (hA2 x (List.mem_of_getLast? ha2))
  | none =>
    have han : pA2 = [] := List.getLast?_eq_none_iff.mp ha2
    subst han
    cases hb : pB.getLast? with
    | some x =>
      have : x = s := by simpa [List.getLast?_append, hb] using hlast
      subst this
      exact Or.inr (Or.inr (by simpa using hB x hb))
    | none =>
      have hbn : pB = [] := List.getLast?_eq_none_iff.mp hb
      subst hbn
      cases hm : pM.getLast? with
      | some x =>
        have : x = s := by simpa [List.getLast?_append, hm] using hlast
        subst this
        exact Or.inr (Or.inl (by simpa using hM x hm))
      | none =>
        have hmn : pM = [] := List.getLast?_eq_none_iff.mp hm
        subst hmn
        have : s ∈ pA := List.mem_of_getLast? (by simpa using hlast)
        exact Or.inl (hA s this)

theorem clean_idempotent' (lim : Limits) (ttl : Int) (segs : List Seg) :
    clean lim ttl (clean lim ttl segs) = clean lim ttl segs := by
  have hA := age_limit_holds' lim ttl segs
  have hM := msgs_limit_holds' lim ttl segs
  have hB := bytes_limit_holds' lim ttl segs
  generalize clean lim ttl segs = r at hA hM hB
  have eA : stageA lim ttl r = r := by
    unfold stageA
    split
    · rename_i h; exact applyAge_id ttl r (hA h)
    · rfl
  have eM : stageM lim r = r := by
    unfold stageM
    split
    · rename_i h; exact applyLimit_id _ _ r (fun s _ => msgSize_nonneg s) (hM h)
    · rfl
  have eB : stageB lim r = r := by
    unfold stageB
    split
    · rename_i h; exact applyLimit_id _ _ r (fun s _ => byteSize_nonneg s) (hB h)
    · rfl
  rw [clean_eq, eA, eM, eB, eA]

/-! ### Counterexample data for the pre-fix pipeline `cleanOld` -/

/-- A segment holding one message written at time `ts`. -/
def cexSeg (ts : Int) : Seg := ⟨0, [⟨0, ts, 0, ⟨none, none, []⟩⟩]⟩
/-- Oldest segment is young (last write 10), the two newer ones are old (last write 0). -/
def cexSegs : List Seg := [cexSeg 10, cexSeg 0, cexSeg 0]
/-- Age limit on, at most 2 messages, no byte limit. -/
def cexLim : Limits := ⟨0, 2, 1⟩
/-- `computeTTL` result used with `cexSegs`. -/
def cexTtl : Int := 5

end Liftbridge.Proofs.Retention
