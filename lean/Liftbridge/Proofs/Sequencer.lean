/- Helper lemmas for Props/C16Seq.lean: the sequencer on a log with concurrency control is the
per-message publish of Proofs/Occ.lean, whatever the batching settings. -/
import Liftbridge.Model.Sequencer
import Liftbridge.Proofs.Occ
namespace Liftbridge.Proofs.Seq
open Liftbridge Liftbridge.Log Liftbridge.Log.CLog Liftbridge.Proofs.Log Liftbridge.Proofs
open Liftbridge.Sequencer

/-- What the publisher hears for the outcome of a single-message `Append`. -/
def answerOf : Res Int → Answer
  | .ok o => .ack o
  | .err e => if e = "incorrect-offset" then .nack e else .silent
  | .panic => .silent

def isAck : Answer → Bool
  | .ack _ => true
  | _ => false

/-- The forced batch size (regenerated fact `occBatchOne`). -/
theorem batchLimit_occ (bm : Nat) : batchLimit true bm = 1 := by
  simp [batchLimit, Gen.Partition.occBatchOne]

theorem legal_occ_single {bm : Nat} {b : List Msg} (h : legalBatch true bm b = true) :
    ∃ m, b = [m] := by
  simp only [legalBatch, batchLimit_occ, Bool.and_eq_true, decide_eq_true_eq] at h
  match b, h with
  | [m], _ => exact ⟨m, rfl⟩
  | [], h => simp at h
  | _ :: _ :: _, h => simp at h

theorem step_single (l : CLog) (m : Msg) :
    stepBatch l [m] = ((Occ.pub l m).1, [(m, answerOf (Occ.pub l m).2)]) := by
  rcases Occ.pub_cases l m with ⟨e, he, hpe, _⟩ | ⟨l', he, hpe, _⟩
  · rw [hpe]; simp [stepBatch, he, failAnswers, answerOf]
  · rw [hpe]; simp [stepBatch, he, answerOf]

/-- On a log with concurrency control every legal cut of the arrival sequence into batches is
processed exactly like the publishes one by one. -/
theorem run_eq (bm : Nat) (bs : List (List Msg)) :
    ∀ (l : CLog), Inv l → l.occ = true → Legal true bm bs →
      run l bs = (Occ.runP l bs.flatten).map (fun pr => (pr.1, answerOf pr.2)) ∧
      final l bs = Occ.finalP l bs.flatten := by
  induction bs with
  | nil => intro l _ _ _; simp [run, final, Occ.runP, Occ.finalP]
  | cons b bs ih =>
    intro l h hocc hleg
    obtain ⟨m, rfl⟩ := legal_occ_single (hleg b (List.mem_cons_self ..))
    obtain ⟨hinv, hocc', _⟩ := Occ.pub_inv l m h
    have hleg' : Legal true bm bs := fun b hb => hleg b (List.mem_cons_of_mem _ hb)
    obtain ⟨ih1, ih2⟩ := ih (Occ.pub l m).1 hinv (hocc'.trans hocc) hleg'
    have hfl : ([m] :: bs).flatten = m :: bs.flatten := by simp
    constructor
    · show (stepBatch l [m]).2 ++ run (stepBatch l [m]).1 bs = _
      rw [step_single, hfl, Occ.runP_cons, ih1]
      simp
    · show final (stepBatch l [m]).1 bs = _
      rw [step_single, hfl, ih2]
      rfl

/-! ### Histories of publishes, list level -/

/-- Every publish of a history is stored or refused with the incorrect-offset error. -/
theorem runP_answered (ms : List Msg) :
    ∀ (l : CLog), Inv l → l.occ = true → l.readonly = false →
      (∀ m ∈ ms, m.body.encodable = true) →
      ∀ pr ∈ Occ.runP l ms, (∃ o, pr.2 = .ok o) ∨ pr.2 = .err "incorrect-offset" := by
  induction ms with
  | nil => intro l _ _ _ _ pr hpr; simp [Occ.runP] at hpr
  | cons m ms ih =>
    intro l h hocc hro henc pr hpr
    obtain ⟨hinv, hocc', hro'⟩ := Occ.pub_inv l m h
    rw [Occ.runP_cons, List.mem_cons] at hpr
    rcases hpr with rfl | hpr
    · have hm := henc m (List.mem_cons_self ..)
      by_cases hs : m.expected = -1 ∨ m.expected = l.nextOffset
      · exact Or.inl ((Occ.pub_stored_iff l m hocc hro hm).2 hs)
      · have h1 : m.expected ≠ -1 := fun hc => hs (Or.inl hc)
        have h2 : m.expected ≠ l.nextOffset := fun hc => hs (Or.inr hc)
        exact Or.inr (Occ.pub_rejected l m hocc hro hm h1 h2)
    · exact ih _ hinv (hocc'.trans hocc) (hro'.trans hro)
        (fun m' hm' => henc m' (List.mem_cons_of_mem _ hm')) pr hpr

/-- Every publish of a history that waives the check is stored. -/
theorem runP_waived (ms : List Msg) :
    ∀ (l : CLog), Inv l → l.readonly = false → (∀ m ∈ ms, m.body.encodable = true) →
      ∀ pr ∈ Occ.runP l ms, pr.1.expected = -1 → ∃ o, pr.2 = .ok o := by
  induction ms with
  | nil => intro l _ _ _ pr hpr; simp [Occ.runP] at hpr
  | cons m ms ih =>
    intro l h hro henc pr hpr hw
    obtain ⟨hinv, _, hro'⟩ := Occ.pub_inv l m h
    rw [Occ.runP_cons, List.mem_cons] at hpr
    rcases hpr with rfl | hpr
    · exact Occ.pub_waived l m hro (henc m (List.mem_cons_self ..)) hw
    · exact ih _ hinv (hro'.trans hro) (fun m' hm' => henc m' (List.mem_cons_of_mem _ hm')) pr hpr hw

/-- Every stored conditional publish of a history got exactly its expected offset. -/
theorem runP_at_expected (ms : List Msg) :
    ∀ (l : CLog), Inv l → l.occ = true →
      ∀ pr ∈ Occ.runP l ms, ∀ o, pr.2 = .ok o → pr.1.expected ≠ -1 → o = pr.1.expected := by
  induction ms with
  | nil => intro l _ _ pr hpr; simp [Occ.runP] at hpr
  | cons m ms ih =>
    intro l h hocc pr hpr o ho hne
    obtain ⟨hinv, hocc', _⟩ := Occ.pub_inv l m h
    rw [Occ.runP_cons, List.mem_cons] at hpr
    rcases hpr with rfl | hpr
    · exact (Occ.pub_stored_at_expected l m o h hocc ho).2.1 hne
    · exact ih _ hinv (hocc'.trans hocc) pr hpr o ho hne

theorem isAck_answerOf (r : Res Int) : isAck (answerOf r) = r.isOk := by
  cases r with
  | ok o => rfl
  | err e => simp only [answerOf]; split <;> rfl
  | panic => rfl

end Liftbridge.Proofs.Seq
