/- Invariant of the commit-log model and helper lemmas for C01/C03/C08/C09/C10/C16. -/
import Liftbridge.Model.Log
import Liftbridge.Proofs.Search
import Liftbridge.Proofs.LogBasic
namespace Liftbridge.Proofs.Log
open Liftbridge Liftbridge.Log Liftbridge.Log.CLog

/-- Invariant of every reachable log state. -/
structure Inv (l : CLog) : Prop where
  /-- there is always an active segment -/
  nonempty : l.segs ≠ []
  /-- a positive segment size limit (a segment that holds nothing is never rolled) -/
  maxPos : 0 < l.maxSegBytes
  /-- offsets strictly increase along the whole log -/
  sorted : l.abs.Pairwise (fun a b => a.offset < b.offset)
  /-- segment bases are non-negative and bound their records from below -/
  base_le : ∀ s ∈ l.segs, 0 ≤ s.base ∧ ∀ r ∈ s.recs, s.base ≤ r.offset
  /-- a later segment starts at or after the next offset of every earlier one, strictly after its base -/
  chain : l.segs.Pairwise (fun a b => a.nextOffset ≤ b.base ∧ a.base < b.base)
  /-- ADDED (the given fields are not enough for `nextOffset_spec` / `readCommitted_spec`): a segment
  is only ever rolled at the next offset of its predecessor, and truncation keeps that — so
  consecutive segments are linked exactly (hence every segment but the last holds a record). -/
  link : ∀ i a b, l.segs[i]? = some a → l.segs[i + 1]? = some b → b.base = a.nextOffset

theorem Inv.wf {l : CLog} (h : Inv l) : WF l.segs := ⟨⟨h.sorted, h.base_le, h.chain⟩, h.link⟩

theorem Inv.wfc {l : CLog} (h : Inv l) : WFC l.segs := h.wf.toWFC

theorem Inv.of_wf {l : CLog} (hne : l.segs ≠ []) (hm : 0 < l.maxSegBytes) (wf : WF l.segs) : Inv l :=
  ⟨hne, hm, wf.sorted, wf.base_le, wf.chain, wf.link⟩

/-! ### Active segment, roll, split -/

theorem segs_eq_dropLast_active {l : CLog} (hne : l.segs ≠ []) :
    l.segs = l.segs.dropLast ++ [l.active] := by
  rcases List.eq_nil_or_concat l.segs with h | ⟨init, z, h⟩
  · exact absurd h hne
  · rw [List.concat_eq_append] at h
    simp [active, h]

theorem active_mem {l : CLog} (hne : l.segs ≠ []) : l.active ∈ l.segs := by
  rw [segs_eq_dropLast_active hne]; simp

theorem getLast?_segs {l : CLog} (hne : l.segs ≠ []) : l.segs.getLast? = some l.active := by
  rw [segs_eq_dropLast_active hne]; simp

theorem abs_eq_dropLast_active {l : CLog} (hne : l.segs ≠ []) :
    l.abs = l.segs.dropLast.flatMap Seg.recs ++ l.active.recs := by
  unfold abs
  conv => lhs; rw [segs_eq_dropLast_active hne]
  simp

theorem Inv.activeOK {l : CLog} (h : Inv l) : SegOK l.active := h.wf.segOK (active_mem h.nonempty)

theorem Inv.next_nonneg {l : CLog} (h : Inv l) : 0 ≤ l.nextOffset := h.activeOK.next_nonneg

theorem SegOK.base_lt_next {s : Seg} (ok : SegOK s) (hne : s.recs ≠ []) : s.base < s.nextOffset := by
  obtain ⟨r, hr⟩ := List.exists_mem_of_ne_nil _ hne
  have := ok.lt_next r hr
  have := ok.base_le r hr
  omega

/-- Everything retained lies below the next offset. -/
theorem Inv.lt_next {l : CLog} (h : Inv l) : ∀ r ∈ l.abs, r.offset < l.nextOffset := by
  intro r hr
  rw [abs_eq_dropLast_active h.nonempty] at hr
  have hs := segs_eq_dropLast_active h.nonempty
  rcases List.mem_append.mp hr with hr | hr
  · have := h.wf.pre_lt hs r hr
    have := h.activeOK.base_le_next
    unfold CLog.nextOffset; omega
  · exact h.activeOK.lt_next r hr

/-- Every segment ends at or below the next offset of the log. -/
theorem Inv.seg_next_le {l : CLog} (h : Inv l) : ∀ a ∈ l.segs, a.nextOffset ≤ l.nextOffset := by
  intro a ha
  have hs := segs_eq_dropLast_active h.nonempty
  rw [hs] at ha
  rcases List.mem_append.mp ha with ha | ha
  · have := ((h.wf.split hs).1 a ha).1
    have := h.activeOK.base_le_next
    unfold CLog.nextOffset; omega
  · simp at ha; subst ha; exact Int.le_refl _

theorem abs_roll (l : CLog) : l.roll.abs = l.abs := by simp [abs, roll]

theorem active_roll (l : CLog) : l.roll.active = { base := l.newest + 1, recs := [] } := by
  simp [active, roll]

theorem nextOffset_roll (l : CLog) : l.roll.nextOffset = l.nextOffset := by
  unfold CLog.nextOffset
  rw [active_roll, nextOffset_nil rfl]
  simp only [newest, CLog.nextOffset]
  omega

theorem abs_checkSplit (l : CLog) : l.checkSplit.abs = l.abs := by
  unfold checkSplit; split
  · exact abs_roll l
  · rfl

theorem nextOffset_checkSplit (l : CLog) : l.checkSplit.nextOffset = l.nextOffset := by
  unfold checkSplit; split
  · exact nextOffset_roll l
  · rfl

theorem needSplit_recs_ne {l : CLog} (h : Inv l) (hn : l.needSplit = true) : l.active.recs ≠ [] := by
  intro he
  have := h.maxPos
  simp [needSplit, Gen.Log.splitCmp, Cmp.evalInt, Seg.position, he] at hn
  omega

theorem inv_roll {l : CLog} (h : Inv l) (hn : l.needSplit = true) : Inv l.roll := by
  have hs := segs_eq_dropLast_active h.nonempty
  have hlt := h.activeOK.base_lt_next (needSplit_recs_ne h hn)
  have hb : l.newest + 1 = l.nextOffset := by simp only [newest]; omega
  apply Inv.of_wf
  · simp [roll]
  · exact h.maxPos
  · show WF (l.segs ++ [{ base := l.newest + 1, recs := [] }])
    apply h.wf.snoc
    · refine ⟨?_, by simp, by simp [Sorted]⟩
      show 0 ≤ l.newest + 1
      rw [hb]; exact h.next_nonneg
    · intro a ha
      show a.nextOffset ≤ l.newest + 1 ∧ a.base < l.newest + 1
      rw [hb]
      refine ⟨h.seg_next_le a ha, ?_⟩
      rw [hs] at ha
      rcases List.mem_append.mp ha with ha | ha
      · have := ((h.wf.split hs).1 a ha).2
        unfold CLog.nextOffset; omega
      · simp at ha; subst ha; exact hlt
    · intro a ha
      rw [getLast?_segs h.nonempty] at ha
      cases ha
      show l.newest + 1 = _
      rw [hb]; rfl

theorem inv_checkSplit {l : CLog} (h : Inv l) : Inv l.checkSplit := by
  unfold checkSplit; split
  · rename_i hn; exact inv_roll h hn
  · exact h

theorem inv_checkSplitIfWritable {l : CLog} (h : Inv l) : Inv l.checkSplitIfWritable := by
  unfold checkSplitIfWritable; split
  · exact h
  · exact inv_checkSplit h

theorem abs_checkSplitIfWritable (l : CLog) : l.checkSplitIfWritable.abs = l.abs := by
  unfold checkSplitIfWritable; split
  · rfl
  · exact abs_checkSplit l

/-! ### Writing -/

theorem write_eq (l : CLog) {rs : List Rec} (hne : rs ≠ []) :
    l.write rs = .ok ({ l with segs := l.segs.dropLast ++ [{ l.active with recs := l.active.recs ++ rs }],
                               epochs := assignEpochs l.epochs l.epochs.latestEpoch rs },
                      rs.map Rec.offset) := by
  unfold write
  have : rs.isEmpty = false := by cases rs <;> simp_all
  simp [this, setActive]

theorem write_ok_ne {l l' : CLog} {rs : List Rec} {offs : List Int}
    (h : l.write rs = .ok (l', offs)) : rs ≠ [] := by
  intro he
  subst he
  simp [write] at h

theorem write_spec {l l' : CLog} {rs : List Rec} {offs : List Int} (hne : l.segs ≠ [])
    (h : l.write rs = .ok (l', offs)) : l'.abs = l.abs ++ rs ∧ offs = rs.map Rec.offset := by
  rw [write_eq l (write_ok_ne h)] at h
  injection h with h
  injection h with h1 h2
  subst h1 h2
  refine ⟨?_, rfl⟩
  rw [abs_eq_dropLast_active hne]
  simp [abs]

theorem sorted_append {xs ys : List Rec} (hx : Sorted xs) (hy : Sorted ys)
    (h : ∀ a ∈ xs, ∀ b ∈ ys, a.offset < b.offset) : Sorted (xs ++ ys) :=
  List.pairwise_append.mpr ⟨hx, hy, h⟩

theorem inv_write {l l' : CLog} {rs : List Rec} {offs : List Int} (h : Inv l)
    (hsorted : Sorted rs) (hge : ∀ r ∈ rs, l.nextOffset ≤ r.offset)
    (hw : l.write rs = .ok (l', offs)) : Inv l' := by
  rw [write_eq l (write_ok_ne hw)] at hw
  injection hw with hw
  injection hw with h1 h2
  subst h1
  have hs := segs_eq_dropLast_active h.nonempty
  have ok := h.activeOK
  apply Inv.of_wf
  · simp
  · exact h.maxPos
  · show WF (l.segs.dropLast ++ [{ l.active with recs := l.active.recs ++ rs }])
    have wfpre : WF l.segs.dropLast := by
      have := h.wf; rw [hs] at this; exact this.of_append
    apply wfpre.snoc
    · refine ⟨ok.base_nonneg, ?_, ?_⟩
      · intro r hr
        rcases List.mem_append.mp hr with hr | hr
        · exact ok.base_le r hr
        · have := hge r hr
          have := ok.base_le_next
          show l.active.base ≤ r.offset
          unfold CLog.nextOffset at *; omega
      · apply sorted_append ok.sorted hsorted
        intro a ha b hb
        have := ok.lt_next a ha
        have := hge b hb
        unfold CLog.nextOffset at *; omega
    · intro a ha
      exact (h.wf.split hs).1 a ha
    · intro a ha
      have hl : Link (l.segs.dropLast ++ l.active :: []) := by rw [← hs]; exact h.link
      exact Link.last_pre (s := l.active) hl ha

/-! ### `stamp` -/

theorem stamp_spec (occ : Bool) (base : Int) (ms : List Msg) :
    ∀ (i : Nat) (rs : List Rec), stamp occ base i ms = .ok rs →
    rs.map Rec.offset = (List.range ms.length).map (fun (k : Nat) => base + ((i + k : Nat) : Int)) ∧
    rs.map (fun r => (r.ts, r.epoch, r.body)) = ms.map (fun m => (m.ts, m.epoch, m.body)) ∧
    Sorted rs ∧ ∀ r ∈ rs, base + (i : Int) ≤ r.offset := by
  induction ms with
  | nil =>
    intro i rs h
    simp [stamp] at h
    subst h
    simp [Sorted]
  | cons m ms ih =>
    intro i rs h
    unfold stamp at h
    simp only at h
    split at h
    · split at h <;> cases h
    split at h
    · cases h
    · cases hrest : stamp occ base (i + 1) ms with
      | err e => rw [hrest] at h; cases h
      | panic => rw [hrest] at h; cases h
      | ok rest =>
        rw [hrest] at h
        simp only [Res.bind_ok] at h
        injection h with h
        subst h
        obtain ⟨h1, h2, h3, h4⟩ := ih (i + 1) rest hrest
        refine ⟨?_, ?_, ?_, ?_⟩
        · simp only [List.map_cons, List.length_cons, List.range_succ_eq_map, List.map_map]
          rw [h1]
          simp only [Nat.add_zero, List.cons.injEq, true_and]
          apply List.map_congr_left
          intro k _
          simp only [Function.comp]
          omega
        · simp [h2]
        · apply List.pairwise_cons.mpr
          refine ⟨?_, h3⟩
          intro r hr
          have := h4 r hr
          show base + (i : Int) < r.offset
          omega
        · intro r hr
          rcases List.mem_cons.mp hr with rfl | hr
          · exact Int.le_refl _
          · have := h4 r hr; omega

/-! ### `Append` / `AppendMessageSet` -/

/-- Decomposition of a successful `Append`. -/
theorem append_ok {l l' : CLog} {ms : List Msg} {offs : List Int}
    (ha : l.append ms = .ok (l', offs)) :
    ∃ rs, stamp l.checkSplit.occ l.checkSplit.nextOffset 0 ms = .ok rs ∧
      l.checkSplit.write rs = .ok (l', offs) := by
  unfold append at ha
  split at ha
  · cases ha
  · simp only at ha
    split at ha
    · cases ha
    · cases hst : stamp l.checkSplit.occ l.checkSplit.nextOffset 0 ms with
      | err e => rw [hst] at ha; cases ha
      | panic => rw [hst] at ha; cases ha
      | ok rs =>
        rw [hst] at ha
        exact ⟨rs, rfl, ha⟩

theorem append_full {l l' : CLog} {ms : List Msg} {offs : List Int} (h : Inv l)
    (ha : l.append ms = .ok (l', offs)) :
    Inv l' ∧ offs = (List.range ms.length).map (fun (i : Nat) => l.nextOffset + (i : Int)) ∧
    ∃ rs, l'.abs = l.abs ++ rs ∧ rs.map Rec.offset = offs ∧
      rs.map (fun r => (r.ts, r.epoch, r.body)) = ms.map (fun m => (m.ts, m.epoch, m.body)) := by
  obtain ⟨rs, hst, hw⟩ := append_ok ha
  have hi := inv_checkSplit h
  obtain ⟨h1, h2, h3, h4⟩ := stamp_spec _ _ _ _ _ hst
  obtain ⟨w1, w2⟩ := write_spec hi.nonempty hw
  rw [abs_checkSplit] at w1
  rw [nextOffset_checkSplit] at h1 h4
  simp only [Nat.zero_add] at h1
  refine ⟨inv_write hi h3 (by simpa [nextOffset_checkSplit] using h4) hw, ?_, rs, w1, ?_, h2⟩
  · rw [w2, h1]
  · rw [w2]

theorem appendSet_full {l l' : CLog} {rs : List Rec} {offs : List Int} (h : Inv l)
    (ha : l.appendSet rs = .ok (l', offs)) : l'.abs = l.abs ++ rs ∧ offs = rs.map Rec.offset := by
  unfold appendSet at ha
  have := write_spec (inv_checkSplit h).nonempty ha
  rwa [abs_checkSplit] at this

theorem inv_appendSet {l l' : CLog} {rs : List Rec} {offs : List Int} (h : Inv l)
    (hsorted : Sorted rs) (hge : ∀ r ∈ rs, l.nextOffset ≤ r.offset)
    (ha : l.appendSet rs = .ok (l', offs)) : Inv l' := by
  unfold appendSet at ha
  exact inv_write (inv_checkSplit h) hsorted (by simpa [nextOffset_checkSplit] using hge) ha

/-! ### Truncation -/

theorem truncate_cases {l : CLog} (h : Inv l) (o : Int) :
    ((∀ a ∈ l.segs, a.nextOffset ≤ o) ∧ l.truncate o = l) ∨
    ∃ pre x post, l.segs = pre ++ x :: post ∧ o < x.nextOffset ∧ (∀ a ∈ pre, a.nextOffset ≤ o) ∧
      ((x.base = o ∧ pre ≠ [] ∧
          l.truncate o = { l with segs := pre, epochs := l.epochs.clearLatest o }) ∨
       (¬(x.base = o ∧ pre ≠ []) ∧
          l.truncate o = { l with
            segs := pre ++ [{ x with recs := x.recs.takeWhile (fun r => decide (r.offset < o)) }],
            epochs := l.epochs.clearLatest o })) := by
  rcases first_seg_split l.segs o with hall | ⟨pre, x, post, hs, hx, hpre⟩
  · left; refine ⟨hall, ?_⟩
    unfold truncate; rw [findSegmentIdx_none hall]
  · right; refine ⟨pre, x, post, hs, hx, hpre, ?_⟩
    have hget : l.segs[pre.length]? = some x := by simp [hs]
    have htake : l.segs.take pre.length = pre := by rw [hs]; exact List.take_left' rfl
    have hlen : pre.length ≠ 0 ↔ pre ≠ [] := by
      cases pre <;> simp
    unfold truncate
    rw [findSegmentIdx_of_split h.wfc hs hx hpre]
    simp only [hget, htake, Gen.Log.truncateBaseCmp, Gen.Log.truncateKeepCmp, Cmp.evalInt,
      decide_eq_true_eq, hlen]
    by_cases hc : x.base = o ∧ pre ≠ []
    · left; exact ⟨hc.1, hc.2, by rw [if_pos hc]⟩
    · right; exact ⟨hc, by rw [if_neg hc]⟩

theorem truncate_abs {l : CLog} (h : Inv l) (o : Int) :
    (l.truncate o).abs = l.abs.filter (fun r => decide (r.offset < o)) := by
  rcases truncate_cases h o with ⟨hall, ht⟩ | ⟨pre, x, post, hs, hx, hpre, hc⟩
  · rw [ht]
    symm
    apply List.filter_eq_self.mpr
    intro r hr
    obtain ⟨a, ha, hra⟩ := List.mem_flatMap.mp hr
    have := (h.wf.segOK ha).lt_next r hra
    have := hall a ha
    simp; omega
  · have okx : SegOK x := h.wf.segOK (by simp [hs])
    have habs : l.abs = pre.flatMap Seg.recs ++ (x.recs ++ post.flatMap Seg.recs) := by
      simp [abs, hs]
    have hf1 : (pre.flatMap Seg.recs).filter (fun r => decide (r.offset < o)) = pre.flatMap Seg.recs := by
      apply List.filter_eq_self.mpr
      intro r hr
      obtain ⟨a, ha, hra⟩ := List.mem_flatMap.mp hr
      have := (h.wf.segOK (s := a) (by simp [hs, ha])).lt_next r hra
      have := hpre a ha
      simp; omega
    have hf3 : (post.flatMap Seg.recs).filter (fun r => decide (r.offset < o)) = [] := by
      apply List.filter_eq_nil_iff.mpr
      intro r hr
      have := h.wf.post_ge hs r hr
      simp; omega
    rw [habs, List.filter_append, List.filter_append, hf1, hf3, List.append_nil,
      filter_lt_eq_takeWhile _ _ okx.sorted]
    rcases hc with ⟨hb, _, ht⟩ | ⟨_, ht⟩
    · rw [ht]
      have : x.recs.takeWhile (fun r => decide (r.offset < o)) = [] := by
        rw [← filter_lt_eq_takeWhile _ _ okx.sorted]
        apply List.filter_eq_nil_iff.mpr
        intro r hr
        have := okx.base_le r hr
        simp; omega
      simp [abs, this]
    · rw [ht]
      simp [abs]

theorem inv_truncate {l : CLog} (h : Inv l) (o : Int) : Inv (l.truncate o) := by
  rcases truncate_cases h o with ⟨hall, ht⟩ | ⟨pre, x, post, hs, hx, hpre, hc⟩
  · rw [ht]; exact h
  · have wfpre : WF pre := by
      have := h.wf; rw [hs] at this; exact this.of_append
    rcases hc with ⟨hb, hne, ht⟩ | ⟨_, ht⟩
    · rw [ht]
      exact Inv.of_wf hne h.maxPos wfpre
    · rw [ht]
      have okx : SegOK x := h.wf.segOK (by simp [hs])
      apply Inv.of_wf
      · simp
      · exact h.maxPos
      · show WF (pre ++ [{ x with recs := x.recs.takeWhile (fun r => decide (r.offset < o)) }])
        apply wfpre.snoc
        · refine ⟨okx.base_nonneg, ?_, ?_⟩
          · intro r hr
            exact okx.base_le r ((List.takeWhile_sublist _).subset hr)
          · exact List.Pairwise.sublist (List.takeWhile_sublist _) okx.sorted
        · intro a ha
          exact (h.wf.split hs).1 a ha
        · intro a ha
          have hl : Link (pre ++ x :: post) := by rw [← hs]; exact h.link
          exact Link.last_pre (s := x) hl ha

/-! ### Next / oldest offset -/

theorem getLast?_append_ne {α} {xs ys : List α} (h : ys ≠ []) :
    (xs ++ ys).getLast? = ys.getLast? := by
  rcases List.eq_nil_or_concat ys with hn | ⟨init, z, hz⟩
  · exact absurd hn h
  · rw [List.concat_eq_append] at hz
    subst hz
    rw [← List.append_assoc, List.getLast?_concat, List.getLast?_concat]

theorem nextOffset_last {l : CLog} (h : Inv l) {r : Rec} (hr : l.abs.getLast? = some r) :
    l.nextOffset = r.offset + 1 := by
  have hs := segs_eq_dropLast_active h.nonempty
  rw [abs_eq_dropLast_active h.nonempty] at hr
  by_cases hne : l.active.recs = []
  · rw [hne, List.append_nil] at hr
    rcases List.eq_nil_or_concat l.segs.dropLast with hn | ⟨init, a, ha⟩
    · simp [hn] at hr
    · rw [List.concat_eq_append] at ha
      have hs' : l.segs = init ++ a :: [l.active] := by
        rw [hs]; conv => lhs; rw [ha]
        simp
      have hlink : l.active.base = a.nextOffset := by
        apply h.link init.length a l.active
        · simp [hs']
        · rw [hs', List.getElem?_append_right (by simp)]; simp
      have hlt : a.base < l.active.base := ((h.wf.split hs').2 l.active (by simp)).2
      have oka : SegOK a := h.wf.segOK (by simp [hs'])
      have hane : a.recs ≠ [] := SegOK.recs_ne_nil (by omega)
      rw [ha, List.flatMap_append] at hr
      simp only [List.flatMap_cons, List.flatMap_nil, List.append_nil] at hr
      rw [getLast?_append_ne hane] at hr
      have := oka.next_eq_last hr
      unfold CLog.nextOffset
      rw [nextOffset_nil hne]; omega
  · rw [getLast?_append_ne hne] at hr
    exact h.activeOK.next_eq_last hr

theorem oldest_ne {l : CLog} (h : Inv l) (hne : l.abs ≠ []) : l.oldest ≠ -1 := by
  cases hsegs : l.segs with
  | nil => exact absurd hsegs h.nonempty
  | cons s0 rest =>
    have ok0 : SegOK s0 := h.wf.segOK (by simp [hsegs])
    cases hrecs : s0.recs with
    | cons r rs =>
      have := ok0.base_le r (by simp [hrecs])
      have := ok0.base_nonneg
      simp [oldest, hsegs, Seg.firstOffset, hrecs]; omega
    | nil =>
      cases rest with
      | nil => simp [abs, hsegs, hrecs] at hne
      | cons b rest' =>
        have hl : b.base = s0.nextOffset := h.link 0 s0 b (by simp [hsegs]) (by simp [hsegs])
        have hc := ((h.wf.split (pre := []) (s := s0) (post := b :: rest') (by simp [hsegs])).2 b (by simp)).2
        rw [nextOffset_nil hrecs] at hl
        omega

/-! ### Density -/

theorem dense_append {xs rs : List Rec} {n : Int}
    (hd : ∀ i (h : i + 1 < xs.length), xs[i + 1].offset = xs[i].offset + 1)
    (hlast : ∀ r, xs.getLast? = some r → n = r.offset + 1)
    (hrs : rs.map Rec.offset = (List.range rs.length).map (fun (i : Nat) => n + (i : Int))) :
    ∀ i (h : i + 1 < (xs ++ rs).length), (xs ++ rs)[i + 1].offset = (xs ++ rs)[i].offset + 1 := by
  have hk : ∀ k (hk : k < rs.length), rs[k].offset = n + (k : Int) := by
    intro k hk
    have := congrArg (fun l => l[k]?) hrs
    simpa [hk] using this
  intro i hi
  rw [List.length_append] at hi
  rcases Nat.lt_or_ge (i + 1) xs.length with h1 | h1
  · rw [List.getElem_append_left h1, List.getElem_append_left (by omega)]
    exact hd i h1
  · rcases Nat.lt_or_ge i xs.length with h2 | h2
    · have hi1 : i + 1 = xs.length := by omega
      rw [List.getElem_append_right h1, List.getElem_append_left h2]
      have hl : xs.getLast? = some xs[i] := by
        rw [List.getLast?_eq_getElem?]
        have : xs.length - 1 = i := by omega
        rw [this, List.getElem?_eq_getElem h2]
      have := hlast _ hl
      rw [hk]
      simp only [hi1, Nat.sub_self]
      omega
    · rw [List.getElem_append_right h1, List.getElem_append_right h2, hk, hk]
      have : i + 1 - xs.length = (i - xs.length) + 1 := by omega
      rw [this]
      omega

/-- `newMessageSetFromProto` never panics on an encodable-or-not message list (an unencodable
message is an error since fix c854ab7). -/
theorem stamp_no_panic (occ : Bool) (base : Int) (ms : List Msg) (i : Nat) :
    stamp occ base i ms ≠ .panic := by
  induction ms generalizing i with
  | nil => simp [stamp]
  | cons m ms ih =>
    unfold stamp
    simp only [Gen.Log.encodeErrPanics]
    split
    · simp
    · split
      · simp
      · have := ih (i + 1)
        cases h : stamp occ base (i + 1) ms with
        | ok rs => simp
        | err e => simp
        | panic => exact absurd h this


end Liftbridge.Proofs.Log
