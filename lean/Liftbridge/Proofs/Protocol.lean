/-
Single-step lemmas about the replication-protocol model (Model/Protocol.lean): what the
publish and commit steps put on the ack stream (C04), and small facts about the glue's maps.
-/
import Liftbridge.Model.Protocol
import Liftbridge.Proofs.Log
import Liftbridge.Proofs.Occ

namespace Liftbridge.Proofs.Protocol
open Liftbridge Liftbridge.Log Liftbridge.Log.CLog Liftbridge.Protocol Liftbridge.Proofs.Log

/-! ### `goMin`, maps -/

theorem foldl_min_le (xs : List Int) (m : Int) :
    xs.foldl (fun m y => if y < m then y else m) m ≤ m ∧
    ∀ x ∈ xs, xs.foldl (fun m y => if y < m then y else m) m ≤ x := by
  induction xs generalizing m with
  | nil => simp
  | cons y ys ih =>
    simp only [List.foldl_cons]
    have := ih (if y < m then y else m)
    refine ⟨?_, ?_⟩
    · have h1 := this.1
      split at h1 <;> omega
    · intro x hx
      rcases List.mem_cons.mp hx with rfl | hx
      · have h1 := this.1
        split at h1 <;> omega
      · exact this.2 x hx

/-- Go's `min` is below every element. -/
theorem goMin_le {xs : List Int} {x : Int} (hx : x ∈ xs) : goMin xs ≤ x := by
  cases xs with
  | nil => simp at hx
  | cons y ys =>
    simp only [goMin]
    have := foldl_min_le ys y
    rcases List.mem_cons.mp hx with rfl | hx
    · exact this.1
    · exact this.2 x hx

theorem lookup_mem {m : List (Sid × Int)} {k : Sid} {v : Int} (h : lookup m k = some v) : (k, v) ∈ m := by
  unfold lookup at h
  cases hf : m.find? (fun p => decide (p.1 = k)) with
  | none => simp [hf] at h
  | some p =>
    simp only [hf, Option.map_some, Option.some.injEq] at h
    have hm := List.mem_of_find?_eq_some hf
    have hk : p.1 = k := by simpa using List.find?_some hf
    have : p = (k, v) := by cases p; simp_all
    rw [← this]; exact hm

theorem mem_takeWhile_imp {α} {p : α → Bool} {l : List α} {a : α} (h : a ∈ l.takeWhile p) : p a = true := by
  induction l with
  | nil => simp at h
  | cons x xs ih =>
    simp only [List.takeWhile_cons] at h
    split at h
    · rcases List.mem_cons.mp h with rfl | h
      · assumption
      · exact ih h
    · simp at h

/-! ### the commit step (ALL-policy acks) -/

theorem published_sub {as : List Ack} {a : Ack} (h : a ∈ published as) : a ∈ as :=
  (List.mem_filter.mp h).1

/-- Every ack the commit loop sends is an ALL-policy entry of the commit queue whose offset is at
most the minimum of the leader's view of the ISR offsets, and the ISR is not below the minimum
size. -/
theorem commitStep_acks (c : Cfg) (sv : Srv) {a : Ack} (ha : a ∈ (commitStep c sv).2) :
    a.policy = .all ∧ a ∈ sv.queue ∧ a.offset ≤ goMin (sv.isrOff.map (·.2)) ∧ c.minISR ≤ sv.isrOff.length := by
  unfold commitStep at ha
  simp only at ha
  split at ha
  · simp at ha
  · rename_i hmin
    simp only [commitGate, Gen.Pipeline.commitGateCurrentIsr, Bool.true_and, Gen.Protocol.commitMinISRCmp, Cmp.evalNat, decide_eq_true_eq, Nat.not_lt] at hmin
    have h1 := published_sub ha
    have h2 := List.mem_filter.mp h1
    have h3 := mem_takeWhile_imp h2.1
    simp only [Gen.Protocol.commitTakeCmp, Cmp.evalInt, decide_eq_true_eq] at h3
    refine ⟨by simpa using h2.2, (List.takeWhile_sublist _).subset h2.1, h3, hmin⟩

/-- … hence at most the offset the leader has recorded for EVERY member of its ISR view. -/
theorem commitStep_ack_le_all (c : Cfg) (sv : Srv) {a : Ack} (ha : a ∈ (commitStep c sv).2)
    {r : Sid} {v : Int} (hr : lookup sv.isrOff r = some v) : a.offset ≤ v := by
  have := (commitStep_acks c sv ha).2.2.1
  have hm : v ∈ sv.isrOff.map (·.2) := List.mem_map.mpr ⟨(r, v), lookup_mem hr, rfl⟩
  exact Int.le_trans this (goMin_le hm)

/-- The commit step never moves the HW beyond that minimum either. -/
theorem commitStep_hw (c : Cfg) (sv : Srv) :
    (commitStep c sv).1.log.hw = sv.log.hw ∨ (commitStep c sv).1.log.hw = goMin (sv.isrOff.map (·.2)) := by
  unfold commitStep
  simp only
  split
  · left; rfl
  · simp only [setHW]
    split
    · right; rfl
    · left; rfl

/-! ### the publish step -/

/-- What `screen` lets through: exactly the messages that are neither too large nor fail to seal;
every other message gets a negative ack. -/
theorem screen_ok (me : Sid) (epoch : Nat) (b : List PubMsg) :
    (screen me epoch b).1 = b.filter (fun m => !m.sealFails && !m.tooLarge) := by
  induction b with
  | nil => rfl
  | cons m ms ih =>
    simp only [screen, List.filter_cons]
    cases hs : m.sealFails <;> cases ht : m.tooLarge <;> simp [ih]

theorem screen_nacks (me : Sid) (epoch : Nat) (b : List PubMsg) {a : Ack} (ha : a ∈ (screen me epoch b).2) :
    a.err ≠ .ok ∧ ∃ m ∈ b, (m.sealFails ∨ m.tooLarge) ∧ a.mid = m.mid ∧ a.cid = m.cid := by
  induction b with
  | nil => simp [screen] at ha
  | cons m ms ih =>
    simp only [screen] at ha
    split at ha
    · rename_i hs
      rcases List.mem_cons.mp ha with rfl | ha
      · exact ⟨by simp, m, by simp, Or.inl hs, rfl, rfl⟩
      · obtain ⟨h1, m', hm', h2⟩ := ih ha
        exact ⟨h1, m', List.mem_cons_of_mem _ hm', h2⟩
    · split at ha
      · rename_i ht
        rcases List.mem_cons.mp ha with rfl | ha
        · exact ⟨by simp, m, by simp, Or.inr ht, rfl, rfl⟩
        · obtain ⟨h1, m', hm', h2⟩ := ih ha
          exact ⟨h1, m', List.mem_cons_of_mem _ hm', h2⟩
      · obtain ⟨h1, m', hm', h2⟩ := ih ha
        exact ⟨h1, m', List.mem_cons_of_mem _ hm', h2⟩

/-- Every ack `processPendingMessage` builds — sent at once or queued — is positive and carries
the correlation id, policy and message of one stored message together with the offset that
message was assigned; the ones sent at once are exactly LEADER-policy ones. -/
theorem pending_spec (c : Cfg) (me : Sid) (epoch : Nat) (ms : List PubMsg) (os : List Int) :
    (∀ a ∈ (pending c me epoch ms os).1, a.policy = .leader) ∧
    (∀ a ∈ (pending c me epoch ms os).1 ++ (pending c me epoch ms os).2,
      a.err = .ok ∧ ∃ m o, (m, o) ∈ ms.zip os ∧ a.cid = m.cid ∧ a.mid = m.mid ∧ a.policy = m.policy ∧ a.offset = o ∧
        a.by_ = me ∧ a.epoch = epoch) := by
  induction ms generalizing os with
  | nil => simp [pending]
  | cons m ms ih =>
    cases os with
    | nil => simp [pending]
    | cons o os =>
      have ih' := ih os
      simp only [pending]
      refine ⟨?_, ?_⟩
      · intro a ha
        split at ha
        all_goals
          first
          | (by_cases hp : m.policy = .leader
             · simp only [hp, if_true] at ha
               rcases List.mem_cons.mp ha with rfl | ha
               · rfl
               · exact ih'.1 a ha
             · simp only [hp, if_false] at ha
               exact ih'.1 a ha)
      · intro a ha
        have key : a = { cid := m.cid, policy := m.policy, offset := o, err := .ok, mid := m.mid, by_ := me, epoch := epoch, inbox := m.ackInbox } ∨
            a ∈ (pending c me epoch ms os).1 ++ (pending c me epoch ms os).2 := by
          split at ha
          all_goals
            (by_cases hp : m.policy = .leader
             · simp only [hp, if_true] at ha
               simp only [List.mem_append, List.mem_cons] at ha ⊢
               rcases ha with (rfl | ha) | ha
               · left; simp [hp]
               · right; left; exact ha
               · first
                 | (rcases ha with rfl | ha
                    · left; simp [hp]
                    · right; right; exact ha)
                 | (right; right; exact ha)
             · simp only [hp, if_false] at ha
               simp only [List.mem_append, List.mem_cons] at ha ⊢
               rcases ha with ha | ha
               · right; left; exact ha
               · first
                 | (rcases ha with rfl | ha
                    · left; rfl
                    · right; right; exact ha)
                 | (right; right; exact ha))
        rcases key with rfl | hin
        · exact ⟨rfl, m, o, by simp, rfl, rfl, rfl, rfl, rfl, rfl⟩
        · obtain ⟨h1, m', o', hz, h2⟩ := ih'.2 a hin
          exact ⟨h1, m', o', by simp [hz], h2⟩

/-! ### `publishStep` as a whole -/

theorem abs_setHW (l : CLog) (hw : Int) : (l.setHW hw).abs = l.abs := by
  unfold setHW; split <;> rfl

/-- The three outcomes of one iteration of the message-processing loop. -/
theorem publishStep_cases {c : Cfg} {me : Sid} {sv sv' : Srv} {batch : List PubMsg} {acks : List Ack}
    (h : publishStep c me sv batch = some (sv', acks)) :
    ((screen me sv.leaderEpoch batch).1 = [] ∧ sv' = sv ∧ acks = published (screen me sv.leaderEpoch batch).2) ∨
    (∃ e, sv.log.append ((screen me sv.leaderEpoch batch).1.map (toMsg sv.leaderEpoch)) = .err e ∧
      sv'.log = sv.log.checkSplitIfWritable ∧
      ∀ a ∈ acks, a ∈ (screen me sv.leaderEpoch batch).2 ∨
        (a.err = .incorrectOffset ∧ ∃ m, (screen me sv.leaderEpoch batch).1.head? = some m ∧ a.mid = m.mid ∧ a.cid = m.cid)) ∨
    (∃ log offs, sv.log.append ((screen me sv.leaderEpoch batch).1.map (toMsg sv.leaderEpoch)) = .ok (log, offs) ∧
      sv'.log.abs = log.abs ∧
      acks = published ((screen me sv.leaderEpoch batch).2 ++ (pending c me sv.leaderEpoch (screen me sv.leaderEpoch batch).1 offs).1) ∧
      sv'.queue = sv.queue ++ (pending c me sv.leaderEpoch (screen me sv.leaderEpoch batch).1 offs).2) := by
  unfold publishStep at h
  simp only at h
  generalize screen me sv.leaderEpoch batch = sc at h ⊢
  obtain ⟨okMsgs, nacks⟩ := sc
  simp only at h ⊢
  split at h
  · rename_i hemp
    left
    simp only [Option.some.injEq, Prod.mk.injEq] at h
    exact ⟨by simpa using hemp, h.1.symm, h.2.symm⟩
  · right
    split at h
    · cases h
    · rename_i e he
      left
      refine ⟨e, he, ?_⟩
      split at h
      · cases okMsgs with
        | nil =>
          simp only [Option.some.injEq, Prod.mk.injEq] at h
          refine ⟨by rw [← h.1], ?_⟩
          intro a ha
          rw [← h.2] at ha
          left; exact published_sub ha
        | cons m rest =>
          simp only [Option.some.injEq, Prod.mk.injEq] at h
          refine ⟨by rw [← h.1], ?_⟩
          intro a ha
          rw [← h.2] at ha
          rcases List.mem_append.mp (published_sub ha) with h1 | h1
          · left; exact h1
          · right
            simp only [List.mem_singleton] at h1
            subst h1
            exact ⟨rfl, m, rfl, rfl, rfl⟩
      · simp only [Option.some.injEq, Prod.mk.injEq] at h
        refine ⟨by rw [← h.1], ?_⟩
        intro a ha
        rw [← h.2] at ha
        left; exact published_sub ha
    · rename_i log offs he
      right
      refine ⟨log, offs, he, ?_⟩
      simp only [Option.some.injEq, Prod.mk.injEq] at h
      obtain ⟨h1, h2⟩ := h
      subst h1
      refine ⟨?_, h2.symm, rfl⟩
      simp only
      split
      · exact abs_setHW _ _
      · rfl

/-- A negative acknowledgement is only ever sent for a message that was not appended: the refused
messages of a batch never reach `Append`, and when `Append` itself refuses (wrong expected
offset) the log keeps exactly its records (C16 `rejected_unchanged`). -/
theorem publishStep_nack {c : Cfg} {me : Sid} {sv sv' : Srv} {batch : List PubMsg} {acks : List Ack}
    (h : publishStep c me sv batch = some (sv', acks)) {a : Ack} (ha : a ∈ acks) (herr : a.err ≠ .ok) :
    (∃ m ∈ batch, (m.sealFails ∨ m.tooLarge) ∧ a.mid = m.mid ∧ a.cid = m.cid) ∨
    (a.err = .incorrectOffset ∧ sv'.log.abs = sv.log.abs) := by
  rcases publishStep_cases h with ⟨_, _, hacks⟩ | ⟨e, _, hlog, hacks⟩ | ⟨log, offs, _, _, hacks, _⟩
  · left
    rw [hacks] at ha
    exact (screen_nacks me sv.leaderEpoch batch (published_sub ha)).2
  · rcases hacks a ha with h1 | ⟨h1, _⟩
    · left; exact (screen_nacks me sv.leaderEpoch batch h1).2
    · right; exact ⟨h1, by rw [hlog]; exact abs_checkSplitIfWritable _⟩
  · rw [hacks] at ha
    rcases List.mem_append.mp (published_sub ha) with h1 | h1
    · left; exact (screen_nacks me sv.leaderEpoch batch h1).2
    · have := ((pending_spec c me sv.leaderEpoch _ offs).2 a (List.mem_append_left _ h1)).1
      exact absurd this herr

/-- What a publish step appends: exactly the accepted messages of the batch (never a refused
one), at the offsets it reports. -/
theorem publishStep_appends {c : Cfg} {me : Sid} {sv sv' : Srv} {batch : List PubMsg} {acks : List Ack}
    (hinv : Inv sv.log) (h : publishStep c me sv batch = some (sv', acks)) :
    sv'.log.abs = sv.log.abs ∨
    ∃ rs, sv'.log.abs = sv.log.abs ++ rs ∧
      rs.map (·.body) = ((screen me sv.leaderEpoch batch).1).map (fun m => bodyOf m.mid) := by
  rcases publishStep_cases h with ⟨_, hsv, _⟩ | ⟨e, _, hlog, _⟩ | ⟨log, offs, he, hlog, _, _⟩
  · left; rw [hsv]
  · left; rw [hlog]; exact abs_checkSplitIfWritable _
  · right
    obtain ⟨_, _, rs, habs, _, hrs⟩ := append_full hinv he
    refine ⟨rs, by rw [hlog, habs], ?_⟩
    have := congrArg (List.map (fun t : Int × Nat × Payload => t.2.2)) hrs
    simp only [List.map_map, Function.comp_def, toMsg] at this
    exact this

theorem zip_index {α β} {xs : List α} {ys : List β} {x : α} {y : β} (h : (x, y) ∈ xs.zip ys) :
    ∃ i : Nat, xs[i]? = some x ∧ ys[i]? = some y := by
  obtain ⟨i, hi, heq⟩ := List.mem_iff_getElem.mp h
  refine ⟨i, ?_, ?_⟩
  · have := congrArg Prod.fst heq
    simp only [List.getElem_zip] at this
    rw [List.getElem?_eq_getElem (by simp at hi; omega)]
    exact congrArg some this
  · have := congrArg Prod.snd heq
    simp only [List.getElem_zip] at this
    rw [List.getElem?_eq_getElem (by simp at hi; omega)]
    exact congrArg some this

/-- A positive ack sent by the publish step is a LEADER-policy ack, and the leader's log holds
that very message at the acknowledged offset when the ack is sent. -/
theorem publishStep_ack_leader {c : Cfg} {me : Sid} {sv sv' : Srv} {batch : List PubMsg} {acks : List Ack}
    (hinv : Inv sv.log) (h : publishStep c me sv batch = some (sv', acks)) {a : Ack} (ha : a ∈ acks)
    (hok : a.err = .ok) :
    a.policy = .leader ∧ a.by_ = me ∧
    (∃ m ∈ batch, a.cid = m.cid ∧ a.mid = m.mid ∧ m.policy = .leader) ∧
    ∃ r ∈ sv'.log.abs, r.offset = a.offset ∧ r.body = bodyOf a.mid := by
  rcases publishStep_cases h with ⟨_, _, hacks⟩ | ⟨e, _, _, hacks⟩ | ⟨log, offs, he, hlog, hacks, _⟩
  · rw [hacks] at ha
    exact absurd hok (screen_nacks me sv.leaderEpoch batch (published_sub ha)).1
  · rcases hacks a ha with h1 | ⟨h1, _⟩
    · exact absurd hok (screen_nacks me sv.leaderEpoch batch h1).1
    · rw [hok] at h1; cases h1
  · rw [hacks] at ha
    rcases List.mem_append.mp (published_sub ha) with h1 | h1
    · exact absurd hok (screen_nacks me sv.leaderEpoch batch h1).1
    · have hsp := pending_spec c me sv.leaderEpoch (screen me sv.leaderEpoch batch).1 offs
      have hpol := hsp.1 a h1
      obtain ⟨_, m, o, hz, hcid, hmid, hmp, hoff, hby, _⟩ := hsp.2 a (List.mem_append_left _ h1)
      obtain ⟨_, _, rs, habs, hoffs, hrs⟩ := append_full hinv he
      obtain ⟨i, hmi, hoi⟩ := zip_index hz
      have hmb : m ∈ batch := by
        have : m ∈ (screen me sv.leaderEpoch batch).1 := List.mem_of_getElem? hmi
        rw [screen_ok] at this
        exact (List.mem_filter.mp this).1
      refine ⟨hpol, hby, ⟨m, hmb, hcid, hmid, by rw [← hmp]; exact hpol⟩, ?_⟩
      -- the i-th appended record
      have hlen : i < rs.length := by
        have h1 : (rs.map Rec.offset)[i]? = some o := by rw [hoffs]; exact hoi
        simp only [List.getElem?_map] at h1
        cases hri : rs[i]? with
        | none => simp [hri] at h1
        | some r => exact (List.getElem?_eq_some_iff.mp hri).1
      refine ⟨rs[i], ?_, ?_, ?_⟩
      · rw [hlog, habs]; exact List.mem_append_right _ (List.getElem_mem hlen)
      · have h1 : (rs.map Rec.offset)[i]? = some o := by rw [hoffs]; exact hoi
        simp only [List.getElem?_map, List.getElem?_eq_getElem hlen, Option.map_some, Option.some.injEq] at h1
        rw [h1, hoff]
      · have h2 := congrArg (fun l => l[i]?) hrs
        simp only [List.getElem?_map, List.getElem?_eq_getElem hlen, Option.map_some, hmi] at h2
        simp only [Option.some.injEq, Prod.mk.injEq, toMsg] at h2
        rw [h2.2.2, hmid]

/-! ### which steps publish acks -/

theorem set_acks (st : State) (s : Sid) (sv : Srv) : (st.set s sv).acks = st.acks := rfl

syntax "finish_acks " ident : tactic
macro_rules
  | `(tactic| finish_acks $h:ident) => `(tactic|
      (repeat' (split at $h:ident)
       all_goals first
         | (cases $h:ident; done)
         | (cases $h:ident; rfl)
         | (simp only [Option.bind_eq_some_iff] at $h:ident; obtain ⟨_, _, h'⟩ := $h:ident; cases h'; rfl)
         | skip))

theorem step_acks_other {c : Cfg} {st st' : State} {s : Step} (h : step c st s = some st')
    (hp : ∀ l b, s ≠ .publish l b) (hc : ∀ l, s ≠ .commit l) : st'.acks = st.acks := by
  cases s with
  | publish l b => exact absurd rfl (hp l b)
  | commit l => exact absurd rfl (hc l)
  | _ =>
    simp only [step, Option.bind_eq_bind, Option.bind_eq_some_iff, Option.pure_def] at h
    first
      | (obtain ⟨sv, hsv, h⟩ := h
         first
          | (obtain ⟨op, hop, h⟩ := h; finish_acks h)
          | finish_acks h)
      | finish_acks h

/-- The acks a step publishes. -/
theorem step_publish {c : Cfg} {st st' : State} {l : Sid} {b : List PubMsg} (h : step c st (.publish l b) = some st') :
    ∃ sv sv' as, st.get l = some sv ∧ isLeaderUp sv = true ∧ publishStep c l sv b = some (sv', as) ∧
      st' = { (st.set l sv') with acks := st.acks ++ as } := by
  simp only [step, Option.bind_eq_bind, Option.bind_eq_some_iff, Option.pure_def] at h
  obtain ⟨sv, hsv, h⟩ := h
  split at h
  · cases h
  · rename_i hl
    simp only [Option.bind_eq_some_iff] at h
    obtain ⟨⟨sv', as⟩, hp, h⟩ := h
    simp only [Option.some.injEq] at h
    exact ⟨sv, sv', as, hsv, by simpa using hl, hp, h.symm⟩

theorem step_commit {c : Cfg} {st st' : State} {l : Sid} (h : step c st (.commit l) = some st') :
    ∃ sv, st.get l = some sv ∧ isLeaderUp sv = true ∧ 0 < sv.commitCheck ∧
      st' = { (st.set l (commitStep c sv).1) with acks := st.acks ++ (commitStep c sv).2 } := by
  simp only [step, Option.bind_eq_bind, Option.bind_eq_some_iff, Option.pure_def] at h
  obtain ⟨sv, hsv, h⟩ := h
  split at h
  · cases h
  · rename_i hl
    simp only [Option.some.injEq] at h
    simp only [Bool.or_eq_true, Bool.not_eq_true', decide_eq_true_eq, not_or] at hl
    exact ⟨sv, hsv, by simpa using hl.1, by omega, h.symm⟩

/-! ### reachability and witnesses -/

def Reachable (c : Cfg) (st : State) : Prop := ∃ steps, run c (init c) steps = some st

theorem irun_run (c : Cfg) : ∀ (is : List IStep) (st st' : State), irun c st is = some st' →
    ∃ steps, run c st steps = some st' := by
  intro is
  induction is with
  | nil => intro st st' h; exact ⟨[], h⟩
  | cons i is ih =>
    intro st st' h
    simp only [irun, Option.bind_eq_some_iff] at h
    obtain ⟨st1, h1, h2⟩ := h
    simp only [istep, Option.bind_eq_some_iff] at h1
    obtain ⟨s, _, hs⟩ := h1
    obtain ⟨steps, hsteps⟩ := ih st1 st' h2
    exact ⟨s :: steps, by simp [run, hs, hsteps]⟩

/-- Run with the ghost history of committed records (`observe` after every step). -/
def grun (c : Cfg) : State → Ghost → List Step → Option (State × Ghost)
  | st, g, [] => some (st, g)
  | st, g, s :: ss => (step c st s).bind fun st' => grun c st' (observe c st' g) ss

def igrun (c : Cfg) : State → Ghost → List IStep → Option (State × Ghost)
  | st, g, [] => some (st, g)
  | st, g, s :: ss => (istep c st s).bind fun st' => igrun c st' (observe c st' g) ss

theorem igrun_grun (c : Cfg) : ∀ (is : List IStep) (st : State) (g : Ghost) (r : State × Ghost),
    igrun c st g is = some r → ∃ steps, grun c st g steps = some r := by
  intro is
  induction is with
  | nil => intro st g r h; exact ⟨[], h⟩
  | cons i is ih =>
    intro st g r h
    simp only [igrun, Option.bind_eq_some_iff] at h
    obtain ⟨st1, h1, h2⟩ := h
    simp only [istep, Option.bind_eq_some_iff] at h1
    obtain ⟨s, _, hs⟩ := h1
    obtain ⟨steps, hsteps⟩ := ih st1 _ r h2
    exact ⟨s :: steps, by simp [grun, hs, hsteps]⟩

/-- (number of committed records lost by a later leader, number of divergences below both HWs)
at the end of a path. -/
def unsafeCount (c : Cfg) (is : List IStep) : Option (Nat × Nat) :=
  (igrun c (init c) [] is).map fun p => ((lostCommitted p.1 p.2).length, (divergedBelowHW p.1).length)

/-- Ack violations of the step `i` taken after the path `is` (none: not a path). -/
def ackViolationsAfter (c : Cfg) (is : List IStep) (i : IStep) : Option (List String) :=
  (irun c (init c) is).bind fun pre => (istep c pre i).map fun post => ackViolations c pre post

/-- A computed witness is a reachable state and an enabled step of the model. -/
theorem witness_reaches {c : Cfg} {is : List IStep} {i : IStep} {v : List String}
    (h : ackViolationsAfter c is i = some v) :
    ∃ pre post s, Reachable c pre ∧ step c pre s = some post ∧ ackViolations c pre post = v := by
  simp only [ackViolationsAfter, Option.bind_eq_some_iff, Option.map_eq_some_iff] at h
  obtain ⟨pre, hpre, post, hpost, hv⟩ := h
  simp only [istep, Option.bind_eq_some_iff] at hpost
  obtain ⟨s, _, hs⟩ := hpost
  exact ⟨pre, post, s, irun_run c is _ _ hpre, hs, hv⟩

end Liftbridge.Proofs.Protocol
