/-
Explicit-state breadth-first search of the executable protocol model (Model/Protocol.lean).
It only FINDS witnesses (states that violate C02a / C02b / C04); nothing here is a proof and
nothing here is used by a theorem except the printed witnesses, which Props/C02.lean and
Props/C04.lean replay through the model by kernel evaluation.

Reductions (they only prune, they never create a path): the first leader is server 0; message
ids are assigned in publish order; replies that no request waits for any more are discarded
(they can never be accepted); request ids are abstracted in the visited-set key; the visited
set stores 64-bit hashes.
-/
import Liftbridge.Model.Protocol
import Std.Data.HashSet

namespace Liftbridge.Search
open Liftbridge Liftbridge.Log Liftbridge.Protocol

structure Bounds where
  maxMsgs : Nat := 3
  maxLeaderChanges : Nat := 2
  maxNet : Nat := 1              -- outstanding replication requests/responses
  maxCrashes : Nat := 0
  maxIsrOps : Nat := 0           -- shrink + expand proposals
  policies : List Policy := [.all]
  nacks : Bool := false          -- also publish messages that must be refused
  lossyRPC : Bool := false       -- the leader-offset RPC may fail although a leader is up; requests may be dropped
  anyRestartPoint : Bool := false -- restart may replay fewer ops than are committed
  staleProposals : Bool := true  -- proposals may be committed in any order (else: immediately)
  atomicRPC : Bool := true       -- request, service and reply of an RPC are explored as one macro step
  eagerCommit : Bool := true     -- a signalled commit check runs before anything else happens
  electOnlyUp : Bool := false    -- the controller never picks a server that is down
  crashOnlyLeader : Bool := false -- only a server that currently leads may crash
  restartOnlyDeposed : Bool := false -- a crashed server restarts only after it is no longer the leader in the metadata
  maxDepth : Nat := 60
  maxStates : Nat := 3000000
  deriving Repr, Inhabited

/-- Search state: model state + ghost history + counters for the bounds. -/
structure MState where
  st : State
  ghost : Ghost := []
  msgs : Nat := 0
  crashes : Nat := 0
  deriving Inhabited

/-! ### candidates -/

def countLeaderChanges (st : State) : Nat :=
  ((st.committed ++ st.proposed).filter fun | .changeLeader _ => true | _ => false).length

def countIsrOps (st : State) : Nat :=
  ((st.committed ++ st.proposed).filter fun | .shrink _ => true | .expand _ => true | _ => false).length

def dedupNat (xs : List Nat) : List Nat := xs.foldl (fun acc x => if acc.contains x then acc else acc ++ [x]) []

def pubVariants (b : Bounds) (mid : Nat) : List PubMsg :=
  (b.policies.map fun p => ({ mid := mid, cid := 100 + mid, policy := p } : PubMsg)) ++
  (if b.nacks then
    [{ mid := mid, cid := 100 + mid, policy := .all, tooLarge := true },
     { mid := mid, cid := 100 + mid, policy := .leader, sealFails := true }]
   else [])

def candidates (c : Cfg) (b : Bounds) (m : MState) : List IStep :=
  let st := m.st
  let sids := List.range c.n
  if st.committed.isEmpty then [.raftCommit (.create 0)] else
  let anyLeaderUp := st.srv.any isLeaderUp
  let replInFlight := (st.net.filter fun | .replReq .. => true | .replResp .. => true | _ => false).length
  let perServer := sids.flatMap fun s =>
    match st.get s with
    | none => []
    | some sv =>
      if !sv.up then
        if b.restartOnlyDeposed && (metaView c.n st.committed).leader = s then [] else
        (dedupNat (if b.anyRestartPoint then [st.committed.length, sv.applied] else [st.committed.length])).map (.restart s ·)
      else
        (if sv.applied < st.committed.length && sv.role ≠ .reconciling then [IStep.applyNext s] else []) ++
        (if m.crashes < b.maxCrashes && (!b.crashOnlyLeader || sv.role = .leader) then [IStep.crash s] else []) ++
        (if sv.role = .follower && replInFlight < b.maxNet then [IStep.fetch s] else []) ++
        (if sv.role = .leader && sv.commitCheck > 0 then [IStep.commit s] else []) ++
        (if sv.role = .reconciling && (b.lossyRPC || !anyLeaderUp) then [IStep.reconcileFail s] else []) ++
        (if sv.role = .leader && m.msgs < b.maxMsgs then (pubVariants b m.msgs).map (fun pm => IStep.publish s [pm]) else []) ++
        (if sv.role = .leader && countIsrOps st < b.maxIsrOps then
          sids.flatMap fun r => [IStep.shrinkDecision s r, IStep.expandDecision s r]
         else []) ++
        (if sv.role = .leader then (keys sv.caughtUp).map (IStep.clearCaughtUp s ·) else []) ++
        -- the "seen" timer running out is explored only where it changes what `tick` decides (never, for
        -- the tick rule as it is: a replica that is not caught up is out of sync whether seen or not)
        (if sv.role = .leader then
          (sv.seen.filter fun r => (lookup sv.caughtUp r).isNone &&
            outOfSync { sv with seen := sv.seen.filter (· ≠ r) } r != outOfSync sv r).map (IStep.clearSeen s ·)
         else [])
  let perNet := (List.range st.net.length).flatMap fun i =>
    match st.net[i]? with
    | some (Net.replReq ..) => (sids.map (IStep.serve · i)) ++ (if b.lossyRPC then [IStep.drop i] else [])
    | some (Net.replResp dst ..) => [IStep.applyResp dst i]
    | some (Net.offReq ..) => sids.map (IStep.offServe · i)
    | some (Net.offResp dst ..) => [IStep.reconcile dst i]
    | none => []
  let elect := if countLeaderChanges st < b.maxLeaderChanges then
      (sids.filter fun s => !b.electOnlyUp || (match st.get s with | some sv => sv.up | none => false)).map IStep.electDecision
    else []
  let raft := (st.proposed.foldl (fun acc op => if acc.contains op then acc else acc ++ [op]) []).map IStep.raftCommit
  perServer ++ perNet ++ elect ++ raft

/-! ### monitored step -/

/-- Replies nobody waits for can never be accepted: discard them. -/
def gcNet (st : State) : State :=
  { st with net := st.net.filter fun
      | .replResp dst rid .. => (match st.get dst with | some sv => sv.up && sv.waiting = some rid | none => false)
      | .offResp dst rid _ => (match st.get dst with | some sv => sv.up && sv.waiting = some rid | none => false)
      | _ => true }

/-- One search step: model step, staleProposals handling, ghost update, violations. -/
def mstep (c : Cfg) (b : Bounds) (m : MState) (i : IStep) : Option (MState × List String) := do
  let post ← istep c m.st i
  let g := observe c post m.ghost
  let viol := violationsOf c m.st post g
  let msgs := match i with | .publish .. => m.msgs + 1 | _ => m.msgs
  let crashes := match i with | .crash _ => m.crashes + 1 | _ => m.crashes
  pure ({ st := gcNet post, ghost := g, msgs := msgs, crashes := crashes }, viol)

/-! ### hashing (request ids abstracted) -/

deriving instance Hashable for Payload
deriving instance Hashable for Rec
deriving instance Hashable for Seg

def hLog (l : CLog) : UInt64 :=
  mixHash (hash l.segs) (mixHash (hash l.hw) (hash l.epochs))

def hNet (st : State) : Net → UInt64
  | .replReq src off ep rid =>
    let live : Bool := match st.get src with | some sv => decide (sv.waiting = some rid) | none => false
    mixHash 11 (mixHash (hash src) (mixHash (hash off) (mixHash (hash ep) (hash live))))
  | .replResp dst _ ep hw recs => mixHash 12 (mixHash (hash dst) (mixHash (hash ep) (mixHash (hash hw) (hash recs))))
  | .offReq src ep rid _ _ _ =>
    let live : Bool := match st.get src with | some sv => decide (sv.waiting = some rid) | none => false
    mixHash 13 (mixHash (hash src) (mixHash (hash ep) (hash live)))
  | .offResp dst _ ans => mixHash 14 (mixHash (hash dst) (hash ans))

def hSrv (sv : Srv) : UInt64 :=
  mixHash (hash sv.up) <| mixHash (hLog sv.log) <| mixHash (hash sv.role) <| mixHash (hash sv.applied) <|
  mixHash (hash sv.leader) <| mixHash (hash sv.leaderEpoch) <| mixHash (hash sv.isrOff) <|
  mixHash (hash sv.recovered) <| mixHash (hash (sv.queue.map fun a => (a.offset, a.mid, a.policy))) <|
  mixHash (hash sv.commitCheck) <| mixHash (hash sv.caughtUp) <|
  -- the "seen" flags through what they decide (prunes states that differ in flags `tick` does not read)
  mixHash (hash ((List.range (sv.isrOff.length + sv.seen.length + 3)).map (outOfSync sv))) (hash sv.waiting.isSome)

def hState (m : MState) : UInt64 :=
  let st := m.st
  let hn := (st.net.map (hNet st)).foldl (fun acc h => acc + h * 0x9E3779B97F4A7C15) 7   -- multiset: order-insensitive
  mixHash (hash (st.srv.map hSrv)) <| mixHash (hash st.committed) <| mixHash (hash st.proposed) <| mixHash hn <|
  mixHash (hash (m.ghost.map fun p => (p.1.offset, Rec.mid p.1, p.1.epoch, p.2))) <|
  mixHash (hash ((st.acks.filter (·.err ≠ .ok)).map (·.mid))) <| mixHash (hash m.msgs) (hash m.crashes)

/-! ### macro steps -/

/-- A sequence of model steps executed back to back; violations are collected after each. -/
def runSeq (c : Cfg) (b : Bounds) (m : MState) (is : List IStep) : Option (MState × List String) :=
  is.foldlM (fun (acc : MState × List String) i => do
    let (m', v) ← mstep c b acc.1 i
    pure (m', acc.2 ++ v.filter (fun k => !acc.2.contains k))) (m, [])

/-- Run the commit checks that are signalled on leaders that are up (the commit loop wakes up at
once); returns the steps taken. -/
def drainCommits (c : Cfg) (b : Bounds) : Nat → MState → List IStep → List String → MState × List IStep × List String
  | 0, m, tr, v => (m, tr, v)
  | fuel + 1, m, tr, v =>
    match (List.range c.n).find? (fun s => match m.st.get s with | some sv => isLeaderUp sv && sv.commitCheck > 0 | none => false) with
    | none => (m, tr, v)
    | some s =>
      match mstep c b m (.commit s) with
      | none => (m, tr, v)
      | some (m', v') => drainCommits c b fuel m' (tr ++ [.commit s]) (v ++ v'.filter (fun k => !v.contains k))

def lastIdx (st : State) : Nat := st.net.length - 1

/-- Expansions of one search node: (steps taken, new state, violations seen on the way). -/
def expansions (c : Cfg) (b : Bounds) (m : MState) : List (List IStep × MState × List String) :=
  let sids := List.range c.n
  let base := candidates c b m
  let finish (r : List IStep × MState × List String) : List IStep × MState × List String :=
    if b.eagerCommit then
      let (m', tr, v) := drainCommits c b (2 * c.n + 2) r.2.1 r.1 r.2.2
      (tr, m', v)
    else r
  let one (i : IStep) : List (List IStep × MState × List String) :=
    match mstep c b m i with
    | none => []
    | some (m', v) => [([i], m', v)]
  let raw : List (List IStep × MState × List String) :=
    if !b.atomicRPC then base.flatMap one else
    base.flatMap fun i =>
      match i with
      | .fetch f =>
        -- fetch; a leader serves; the follower applies the reply
        match mstep c b m i with
        | none => []
        | some (m1, v1) =>
          sids.flatMap fun l =>
            match mstep c b m1 (.serve l (lastIdx m1.st)) with
            | none => []
            | some (m2, v2) =>
              match m2.st.net.getLast? with
              | some (Net.replResp dst ..) =>
                if dst ≠ f then [] else
                (match mstep c b m2 (.applyResp f (lastIdx m2.st)) with
                 | none => []
                 | some (m3, v3) => [([i, .serve l (lastIdx m1.st), .applyResp f (lastIdx m2.st)], m3, v1 ++ v2 ++ v3)])
              | _ => []
      | .applyNext _ | .restart _ _ =>
        match mstep c b m i with
        | none => []
        | some (m1, v1) =>
          let me := match i with | .applyNext s => s | .restart s _ => s | _ => 0
          match m1.st.get me with
          | some sv =>
            if sv.role ≠ .reconciling then [([i], m1, v1)] else
            let anyLeaderUp := m1.st.srv.any isLeaderUp
            (sids.flatMap fun l =>
              match mstep c b m1 (.offServe l (lastIdx m1.st)) with
              | none => []
              | some (m2, v2) =>
                match mstep c b m2 (.reconcile me (lastIdx m2.st)) with
                | none => []
                | some (m3, v3) => [([i, .offServe l (lastIdx m1.st), .reconcile me (lastIdx m2.st)], m3, v1 ++ v2 ++ v3)]) ++
            (if b.lossyRPC || !anyLeaderUp then
              match mstep c b m1 (.reconcileFail me) with
              | none => []
              | some (m2, v2) => [([i, .reconcileFail me], m2, v1 ++ v2)]
             else [])
          | none => []
      | .serve .. | .applyResp .. | .offServe .. | .reconcile .. | .reconcileFail .. | .drop .. => []
      | .commit _ => if b.eagerCommit then [] else one i
      | .electDecision _ | .shrinkDecision .. | .expandDecision .. =>
        if b.staleProposals then one i else
        -- without stale proposals a proposal is committed at once
        match mstep c b m i with
        | none => []
        | some (m1, v1) =>
          match m1.st.proposed.getLast? with
          | none => []
          | some op =>
            match mstep c b m1 (.raftCommit op) with
            | none => []
            | some (m2, v2) => [([i, .raftCommit op], m2, v1 ++ v2)]
      | .raftCommit (.create _) => one i
      | .raftCommit _ => if b.staleProposals then one i else []
      | _ => one i
  raw.map finish

/-! ### BFS -/

structure Node where
  m : MState
  trace : List IStep   -- reversed
  deriving Inhabited

structure Result where
  witnesses : List (String × List IStep) := []
  states : Nat := 0
  depth : Nat := 0
  exhausted : Bool := false     -- the whole bounded space was explored
  deriving Inhabited

def addWitness (ws : List (String × List IStep)) (kinds : List String) (trace : List IStep) : List (String × List IStep) :=
  kinds.foldl (fun ws k => if ws.any (·.1 = k) then ws else ws ++ [(k, trace.reverse)]) ws

/-- Breadth-first search; stops when every kind in `want` has a witness (or, with `want` empty,
when the bounded space or the state budget is exhausted). Violating states are not expanded
further when `stopAtViolation`. -/
def bfs (c : Cfg) (b : Bounds) (want : List String) (stopAtViolation : Bool := false) : Result := Id.run do
  let start : MState := { st := init c }
  let mut visited : Std.HashSet UInt64 := Std.HashSet.emptyWithCapacity 100000
  visited := visited.insert (hState start)
  let mut frontier : Array Node := #[{ m := start, trace := [] }]
  let mut res : Result := {}
  let mut depth := 0
  let mut done := false
  while !done && !frontier.isEmpty && depth < b.maxDepth do
    let mut next : Array Node := #[]
    for node in frontier do
      if done then break
      for (steps, m', viol) in expansions c b node.m do
        let h := hState m'
        if !visited.contains h then
          visited := visited.insert h
          let tr := steps.reverse ++ node.trace
          if !viol.isEmpty then
            res := { res with witnesses := addWitness res.witnesses viol tr }
            if !want.isEmpty && want.all (fun k => res.witnesses.any (·.1 = k)) then
              done := true
              break
          if viol.isEmpty || !stopAtViolation then
            next := next.push { m := m', trace := tr }
      if visited.size ≥ b.maxStates then
        done := true
    frontier := next
    depth := depth + 1
    res := { res with depth := depth, states := visited.size }
  if !done && frontier.isEmpty then res := { res with exhausted := true }
  return res

end Liftbridge.Search
