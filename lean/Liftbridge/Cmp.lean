/-
Comparison / arithmetic shapes extracted from the Go source by /verif/extract.
The hand-written models evaluate their decision points through these, so the
theorems are re-checked against the operator the code uses *now*.
-/
namespace Liftbridge

inductive Cmp where
  | lt | le | gt | ge | eq | ne
  deriving Repr, DecidableEq, Inhabited

namespace Cmp
def evalInt : Cmp → Int → Int → Bool
  | lt, a, b => decide (a < b)
  | le, a, b => decide (a ≤ b)
  | gt, a, b => decide (a > b)
  | ge, a, b => decide (a ≥ b)
  | eq, a, b => decide (a = b)
  | ne, a, b => decide (a ≠ b)
def evalNat : Cmp → Nat → Nat → Bool
  | lt, a, b => decide (a < b)
  | le, a, b => decide (a ≤ b)
  | gt, a, b => decide (a > b)
  | ge, a, b => decide (a ≥ b)
  | eq, a, b => decide (a = b)
  | ne, a, b => decide (a ≠ b)
end Cmp
end Liftbridge
