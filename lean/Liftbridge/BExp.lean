/-
Boolean decisions regenerated from the Go source by /verif/extract: a combination (`&&`, `||`,
`!`) of numbered comparisons. The hand-written models evaluate a decision through `BExp.eval`
with an environment that gives the two operands of every numbered comparison, so the
connectives AND the comparison operators of the code as it is NOW decide what the model does.
-/
import Liftbridge.Cmp
namespace Liftbridge

inductive BExp where
  | atom (i : Nat) (c : Cmp)
  | and (a b : BExp)
  | or (a b : BExp)
  | not (a : BExp)
  | const (b : Bool)
  deriving Repr, DecidableEq, Inhabited

namespace BExp
def eval (env : Nat → Int × Int) : BExp → Bool
  | atom i c => c.evalInt (env i).1 (env i).2
  | and a b => a.eval env && b.eval env
  | or a b => a.eval env || b.eval env
  | not a => !a.eval env
  | const b => b
end BExp
end Liftbridge
