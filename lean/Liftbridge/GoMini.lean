/-
GoMini: a deep embedding of a small sequential subset of Go, and its interpreter.

`/verif/extract` (gen_gomini.go) translates the BODIES of selected functions of /repo
syntactically (go/ast, no type information) into `Func` values (Gen/Go*.lean). The theorems
of Props/GoCode*.lean state, for ALL inputs, that running the translated body gives what the
hand-written model function gives — so the model functions the property theorems are about
are tied to the current source at the level of whole function bodies, not only at hand-picked
operators.

Semantics (documented choices; the trusted part of this tie):
* integers are unbounded `Int`; the conversions `int16(x)`, `uint64(x)`… wrap explicitly;
  division and remainder truncate towards zero and panic on a zero divisor;
* slices are immutable lists (no aliasing); a struct / pointer-to-struct is a record value, an
  assignment `x.f = e` rewrites the variable `x`; a method call on a variable `x.m()` or on a field of a
  variable `x.f.m()` writes the callee's final receiver back (pointer-receiver semantics without
  aliasing); on any other receiver expression the callee's changes to its receiver are lost;
* out-of-range indexing / slicing and field access through `nil` are `panic`;
* `fuel` bounds the NESTING DEPTH (statement nesting, expression nesting, call depth) and the
  number of iterations of a three-clause `for`; a block or a `range` loop hands the same fuel to
  each of its statements / iterations, so a fixed fuel covers inputs of every length;
* a call that is neither a builtin, nor a translated function, nor answered by the record
  (accessor methods such as `seg.MessageCount()` are fields named `MessageCount`) or by the
  `ext` table is an EFFECT: it is appended to the effect trace with its arguments and yields `nil`;
* statements the translator drops (logging, mutex operations, crash-point hooks) are kept as
  `Stmt.skip` with their source text.
Core Lean only.
-/
namespace Liftbridge.GoMini

inductive Val where
  | int (i : Int)
  | bool (b : Bool)
  | str (s : String)
  | nil
  | list (xs : List Val)
  | struct (fs : List (String × Val))
  | tup (xs : List Val)
  deriving Repr, Inhabited

mutual
/-- structural equality of values (used to tell whether a callee changed its receiver) -/
def Val.beq : Val → Val → Bool
  | .int a, .int b => a == b
  | .bool a, .bool b => a == b
  | .str a, .str b => a == b
  | .nil, .nil => true
  | .list xs, .list ys => Val.beqList xs ys
  | .struct fs, .struct gs => Val.beqFields fs gs
  | .tup xs, .tup ys => Val.beqList xs ys
  | _, _ => false
def Val.beqList : List Val → List Val → Bool
  | [], [] => true
  | x :: xs, y :: ys => Val.beq x y && Val.beqList xs ys
  | _, _ => false
def Val.beqFields : List (String × Val) → List (String × Val) → Bool
  | [], [] => true
  | (k, x) :: xs, (l, y) :: ys => k == l && Val.beq x y && Val.beqFields xs ys
  | _, _ => false
end

inductive Expr where
  | int (i : Int)
  | bool (b : Bool)
  | str (s : String)
  | nil
  | var (x : String)
  | sel (e : Expr) (f : String)
  | idx (e : Expr) (i : Expr)
  | len (e : Expr)
  | un (op : String) (e : Expr)
  | bin (op : String) (a : Expr) (b : Expr)
  | and (a : Expr) (b : Expr)
  | or (a : Expr) (b : Expr)
  | slice (e : Expr) (lo : Option Expr) (hi : Option Expr)
  | call (f : String) (args : List Expr)
  | mcall (recv : Expr) (m : String) (args : List Expr)
  | lit (fields : List (String × Expr))
  | listLit (elems : List Expr)
  | callSpread (f : String) (args : List Expr)
  | search (n : Expr) (i : String) (pred : Expr)
  deriving Repr, Inhabited

inductive Stmt where
  | assign (lhs : List Expr) (rhs : List Expr)
  | opAssign (op : String) (lhs : Expr) (rhs : Expr)
  | ite (init : List Stmt) (c : Expr) (t : List Stmt) (e : List Stmt)
  | forC (init : List Stmt) (c : Option Expr) (post : List Stmt) (body : List Stmt)
  | forRange (k : Option String) (v : Option String) (e : Expr) (body : List Stmt)
  | ret (es : List Expr)
  | brk
  | cont
  | expr (e : Expr)
  | skip (what : String)
  | unsupported (what : String)
  deriving Repr, Inhabited

structure Func where
  recv : Option String
  params : List String
  body : List Stmt
  deriving Repr, Inhabited

abbrev Prog := List (String × Func)

/-- Result of running Go code: value, run-time panic, or `stuck` (outside the subset, out of
fuel, ill-typed) — `stuck` is never a modelled Go outcome. -/
inductive R (α : Type) where
  | ok (a : α)
  | panic
  | stuck (why : String)
  deriving Repr, Inhabited

namespace R
@[inline] def bind {α β} (r : R α) (f : α → R β) : R β :=
  match r with
  | .ok a => f a
  | .panic => .panic
  | .stuck w => .stuck w
instance : Monad R where
  pure := .ok
  bind := R.bind
@[simp] theorem bind_ok {α β} (a : α) (f : α → R β) : (R.ok a >>= f) = f a := rfl
@[simp] theorem bind_panic {α β} (f : α → R β) : ((R.panic : R α) >>= f) = .panic := rfl
@[simp] theorem bind_stuck {α β} (w : String) (f : α → R β) : ((R.stuck w : R α) >>= f) = .stuck w := rfl
@[simp] theorem pure_eq {α} (a : α) : (pure a : R α) = .ok a := rfl
end R

/-- Un-modelled callees: name, arguments (receiver first for methods) and the effect trace so far
(so that successive calls can be answered differently, e.g. a request that times out twice). An
answered call is logged in the trace like any other effect. -/
abbrev Ext := String → List Val → List (String × List Val) → Option Val

/-- The variables are a function, so that an observation `st.env "x"` after any number of
assignments reduces by deciding string equalities and no ordering is involved. -/
structure St where
  env : String → Option Val
  eff : List (String × List Val)

instance : Inhabited St := ⟨{ env := fun _ => none, eff := [] }⟩

inductive Flow where
  | next
  | brk
  | cont
  | ret (vs : List Val)
  deriving Repr, Inhabited

/-! ### environment -/

def lookup (x : String) : List (String × Val) → Option Val
  | [] => none
  | (y, v) :: rest => if x = y then some v else lookup x rest

def update (x : String) (v : Val) : List (String × Val) → List (String × Val)
  | [] => [(x, v)]
  | (y, w) :: rest => if x = y then (y, v) :: rest else (y, w) :: update x v rest

def St.set (st : St) (x : String) (v : Val) : St := { st with env := fun y => if y = x then some v else st.env y }
def envOf (bs : List (String × Val)) (y : String) : Option Val := lookup y bs
def St.log (st : St) (f : String) (args : List Val) : St := { st with eff := st.eff ++ [(f, args)] }

/-! ### scalar operations -/

def wrapU (bits : Nat) (i : Int) : Int := i % (2 ^ bits : Int)
def wrapS (bits : Nat) (i : Int) : Int :=
  let m := i % (2 ^ bits : Int)
  if m ≥ (2 ^ (bits - 1) : Int) then m - (2 ^ bits : Int) else m

/-- Integer conversions by target type name. `int`/`int64`/`uint64` of values inside the range
are the identity; outside they wrap as Go does. -/
def convert (ty : String) (i : Int) : Option Int :=
  if ty = "int" ∨ ty = "int64" then some (wrapS 64 i)
  else if ty = "int32" then some (wrapS 32 i)
  else if ty = "int16" then some (wrapS 16 i)
  else if ty = "int8" then some (wrapS 8 i)
  else if ty = "uint" ∨ ty = "uint64" then some (wrapU 64 i)
  else if ty = "uint32" then some (wrapU 32 i)
  else if ty = "uint16" then some (wrapU 16 i)
  else if ty = "uint8" ∨ ty = "byte" then some (wrapU 8 i)
  else none

def binInt (op : String) (a b : Int) : R Val :=
  if op = "+" then .ok (.int (a + b))
  else if op = "-" then .ok (.int (a - b))
  else if op = "*" then .ok (.int (a * b))
  else if op = "/" then (if b = 0 then .panic else .ok (.int (Int.tdiv a b)))
  else if op = "%" then (if b = 0 then .panic else .ok (.int (Int.tmod a b)))
  else if op = "<" then .ok (.bool (decide (a < b)))
  else if op = "<=" then .ok (.bool (decide (a ≤ b)))
  else if op = ">" then .ok (.bool (decide (a > b)))
  else if op = ">=" then .ok (.bool (decide (a ≥ b)))
  else if op = "==" then .ok (.bool (decide (a = b)))
  else if op = "!=" then .ok (.bool (decide (a ≠ b)))
  else if op = "<<" then (if b < 0 then .panic else .ok (.int (a * (2 ^ b.toNat : Int))))
  else if op = ">>" then (if b < 0 then .panic else .ok (.int (a / (2 ^ b.toNat : Int))))
  else if op = "&" then (if a ≥ 0 ∧ b ≥ 0 then .ok (.int (Int.ofNat (a.toNat &&& b.toNat))) else .stuck "& on negative")
  else if op = "|" then (if a ≥ 0 ∧ b ≥ 0 then .ok (.int (Int.ofNat (a.toNat ||| b.toNat))) else .stuck "| on negative")
  else if op = "^" then (if a ≥ 0 ∧ b ≥ 0 then .ok (.int (Int.ofNat (a.toNat ^^^ b.toNat))) else .stuck "^ on negative")
  else .stuck ("int op " ++ op)

def isNil : Val → Bool
  | .nil => true
  | _ => false

/-- `==`/`!=` and ordering on scalars; a record (pointer) or a list compares only with `nil`. -/
def binVal (op : String) (a b : Val) : R Val :=
  match a, b with
  | .int x, .int y => binInt op x y
  | .bool x, .bool y =>
    if op = "==" then .ok (.bool (x == y)) else if op = "!=" then .ok (.bool (x != y)) else .stuck ("bool op " ++ op)
  | .str x, .str y =>
    if op = "==" then .ok (.bool (decide (x = y))) else if op = "!=" then .ok (.bool (decide (x ≠ y)))
    else if op = "+" then .ok (.str (x ++ y))
    else if op = "<" then .ok (.bool (decide (x < y)))          -- Go compares strings bytewise; `String.lt` is by code point: the same order
    else .stuck ("string op " ++ op)
  | x, y =>
    if isNil x ∨ isNil y then
      -- an empty (non-nil) list is not nil in Go; the embedding identifies nil and empty slices
      -- only through `len`; comparison with nil is on the constructor
      if op = "==" then .ok (.bool (isNil x && isNil y)) else if op = "!=" then .ok (.bool (!(isNil x && isNil y)))
      else .stuck ("nil op " ++ op)
    else .stuck ("op " ++ op ++ " on non-scalars")

def asList : Val → Option (List Val)
  | .list xs => some xs
  | .nil => some []
  | _ => none

def lenOf : Val → Option Int
  | .str s => some (Int.ofNat s.length)
  | .list xs => some (Int.ofNat xs.length)
  | .nil => some 0
  | .struct fs => some (Int.ofNat fs.length)     -- a map
  | _ => none

/-- remove every binding of key `k` (a Go map has at most one) -/
def eraseKey (k : String) : List (String × Val) → List (String × Val)
  | [] => []
  | (a, v) :: rest => if a = k then eraseKey k rest else (a, v) :: eraseKey k rest

def getField (f : String) : Val → R Val
  | .struct fs => match lookup f fs with
    | some v => .ok v
    | none => .stuck ("no field " ++ f)
  | .nil => .panic
  | _ => .stuck ("select " ++ f ++ " on non-record")

def setField (f : String) (v : Val) : Val → R Val
  | .struct fs => .ok (.struct (update f v fs))
  | .nil => .panic
  | _ => .stuck ("assign field " ++ f ++ " of non-record")

/-- assignment to a field path `r.f1.f2…fn := v` of a record value -/
def setPath : List String → Val → Val → R Val
  | [], v, _ => .ok v
  | f :: fs, v, r => do
    let inner ← getField f r
    let inner' ← setPath fs v inner
    setField f inner' r

/-- every record of the list gets the fields of `upd` (Go: `for _, p := range ps { p.f = v }` over a slice of POINTERS
with loop-invariant right-hand sides) -/
def setFieldsAll (upd : List (String × Val)) : List Val → R (List Val)
  | [] => .ok []
  | .struct fs :: rest => do
    let rest' ← setFieldsAll upd rest
    .ok (.struct (upd.foldl (fun acc kv => update kv.1 kv.2 acc) fs) :: rest')
  | .nil :: _ => .panic
  | _ :: _ => .stuck "field assignment on a non-record element"

def zeroOf (ty : String) : Val :=
  if ty = "bool" then .bool false
  else if ty = "string" then .str ""
  else match convert ty 0 with
    | some _ => .int 0
    | none => .nil

/-- Go's `sort.Search`, literally (see `Liftbridge.goSearch`), over a predicate that may fail. -/
def searchAux (f : Nat → R Bool) : (steps : Nat) → (i j : Nat) → R Nat
  | 0, i, _ => .ok i
  | s + 1, i, j =>
    if i < j then
      let h := (i + j) / 2
      match f h with
      | .ok true => searchAux f s i h
      | .ok false => searchAux f s (h + 1) j
      | .panic => .panic
      | .stuck w => .stuck w
    else .ok i

/-- `n + 1` halvings always suffice for `[0, n)`. -/
def search (n : Nat) (f : Nat → R Bool) : R Nat := searchAux f (n + 1) 0 n

/-! ### generic block / loop combinators (structural on the list, the statement semantics is a parameter) -/

def runBlock (ex : Stmt → St → R (Flow × St)) : List Stmt → St → R (Flow × St)
  | [], st => .ok (.next, st)
  | s :: rest, st =>
    match ex s st with
    | .ok (.next, st') => runBlock ex rest st'
    | other => other

/-- `for k, v := range xs { body }`. -/
def runRange (blk : St → R (Flow × St)) (k v : Option String) : Nat → List Val → St → R (Flow × St)
  | _, [], st => .ok (.next, st)
  | i, x :: xs, st =>
    let st1 := match k with | some kn => st.set kn (.int i) | none => st
    let st2 := match v with | some vn => st1.set vn x | none => st1
    match blk st2 with
    | .ok (.next, st') => runRange blk k v (i + 1) xs st'
    | .ok (.cont, st') => runRange blk k v (i + 1) xs st'
    | .ok (.brk, st') => .ok (.next, st')
    | other => other

/-- `for k, v := range m { body }` over a map (a record): the entries in stored order. Go leaves the
order unspecified: a result that depends on it is valid only up to that choice. -/
def runRangeMap (blk : St → R (Flow × St)) (k v : Option String) : List (String × Val) → St → R (Flow × St)
  | [], st => .ok (.next, st)
  | (key, x) :: xs, st =>
    let st1 := match k with | some kn => st.set kn (.str key) | none => st
    let st2 := match v with | some vn => st1.set vn x | none => st1
    match blk st2 with
    | .ok (.next, st') => runRangeMap blk k v xs st'
    | .ok (.cont, st') => runRangeMap blk k v xs st'
    | .ok (.brk, st') => .ok (.next, st')
    | other => other

/-! ### expressions -/

def evalArgs (ev : Expr → St → R (Val × St)) : List Expr → St → R (List Val × St)
  | [], st => .ok ([], st)
  | e :: rest, st => do
    let (v, st1) ← ev e st
    let (vs, st2) ← evalArgs ev rest st1
    pure (v :: vs, st2)

def evalFields (ev : Expr → St → R (Val × St)) : List (String × Expr) → St → R (List (String × Val) × St)
  | [], st => .ok ([], st)
  | (f, e) :: rest, st => do
    let (v, st1) ← ev e st
    let (vs, st2) ← evalFields ev rest st1
    pure ((f, v) :: vs, st2)

/-- `f(a, b...)`: the last argument is spliced. -/
def spliceLast : List Val → Option (List Val)
  | [] => none
  | [v] => asList v
  | v :: rest => (spliceLast rest).map fun r => v :: r

def builtin (f : String) (args : List Val) : Option (R Val) :=
  if f = "append" then
    match args with
    | base :: more => match asList base with
      | some xs => some (.ok (.list (xs ++ more)))
      | none => some (.stuck "append to non-list")
    | [] => some (.stuck "append()")
  else if f = "mapDelete" then
    -- `delete(m, k)` (the translator turns the statement into `m = mapDelete(m, k)`); a map is a record
    match args with
    | [.struct fs, .str k] => some (.ok (.struct (eraseKey k fs)))
    | [.nil, _] => some (.ok .nil)
    | _ => some (.stuck "delete")
  else if f = "mapLookup2" then
    -- `v, ok := m[k]`
    match args with
    | [.struct fs, .str k] => match lookup k fs with
      | some v => some (.ok (.tup [v, .bool true]))
      | none => some (.ok (.tup [.nil, .bool false]))
    | [.nil, _] => some (.ok (.tup [.nil, .bool false]))
    | _ => some (.stuck "map lookup")
  else if f = "panic" then some .panic
  else if f = "string" then
    -- string(b) of a byte slice / a string: the value itself (keys are compared as values)
    match args with
    | [v] => some (.ok v)
    | _ => some (.stuck "string()")
  else if f = "make" then
    match args with
    | [] => some (.ok (.list []))
    | .int n :: _ => if n < 0 then some .panic else some (.ok (.list (List.replicate n.toNat .nil)))   -- zero values of a slice of pointers
    | _ => some (.stuck "make with a non-integer length")
  else if f = "min" then
    match args with
    | [.int a, .int b] => some (.ok (.int (if a ≤ b then a else b)))
    | _ => some (.stuck "min")
  else if f = "max" then
    match args with
    | [.int a, .int b] => some (.ok (.int (if a ≥ b then a else b)))
    | _ => some (.stuck "max")
  else if f = "pkgErrors.Wrap" ∨ f = "errors.Wrap" ∨ f = "pkgErrors.Wrapf" ∨ f = "errors.Wrapf" then
    match args with
    | e :: _ => some (.ok e)          -- Wrap(nil, …) = nil; a wrapped error is still that error
    | [] => some (.stuck "Wrap()")
  else if f = "errors.New" ∨ f = "fmt.Errorf" then
    match args with
    | .str s :: _ => some (.ok (.str ("error: " ++ s)))
    | _ => some (.stuck "errors.New")
  else if f = "copyInto" then
    -- `copy(d[a:b], src)` as a value: the window [a, b) of d receives the first min(b-a, len src) elements of src
    match args with
    | [.list xs, .int a, .int b, .list ys] =>
      if 0 ≤ a ∧ a ≤ b ∧ b ≤ xs.length then
        some (.ok (.list (xs.take a.toNat ++ ys.take (min (b - a).toNat ys.length) ++ xs.drop (a.toNat + min (b - a).toNat ys.length))))
      else some .panic
    | _ => some (.stuck "copy")
  else if f = "setFieldsAll" then
    match args with
    | [.list xs, .struct upd] => some ((setFieldsAll upd xs).bind fun ys => .ok (.list ys))
    | [.nil, _] => some (.ok .nil)          -- ranging over a nil slice
    | _ => some (.stuck "setFieldsAll")
  else if f = "fmt.Sprintf" then
    -- the formatted text is not modelled: a string determined by the format (pure, no effect)
    match args with
    | .str s :: _ => some (.ok (.str s))
    | _ => some (.stuck "fmt.Sprintf")
  else if f = "assertString2" then
    -- `s, ok := v.(string)`: a string is itself, anything else (a nil interface, another type) gives ("", false)
    match args with
    | [.str s] => some (.ok (.tup [.str s, .bool true]))
    | [_] => some (.ok (.tup [.str "", .bool false]))
    | _ => some (.stuck "type assertion")
  else
    match args with
    | [.int i] => (convert f i).map fun j => .ok (.int j)
    | _ => none

/-- Calling convention of a translated function. The callee sees only its receiver and parameters. -/
def bindParams : List String → List Val → Option (List (String × Val))
  | [], [] => some []
  | p :: ps, v :: vs => (bindParams ps vs).map fun r => (p, v) :: r
  | _, _ => none

def flowResult : Flow → Val
  | .ret [v] => v
  | .ret vs => .tup vs
  | _ => .tup []

/-- One expression, `fuel` = nesting / call depth. `callBody` runs a function body (supplied by
`exec`, one level of fuel down). -/
def evalE (prog : Prog) (ext : Ext)
    (callBody : List Stmt → St → R (Flow × St)) : Nat → Expr → St → R (Val × St)
  | 0, _, _ => .stuck "fuel"
  | n + 1, e, st =>
    let ev := evalE prog ext callBody n
    match e with
    | .int i => .ok (.int i, st)
    | .bool b => .ok (.bool b, st)
    | .str s => .ok (.str s, st)
    | .nil => .ok (.nil, st)
    | .var x => match st.env x with
      | some v => .ok (v, st)
      | none => .stuck ("unbound " ++ x)
    | .sel e f => do
      let (v, st1) ← ev e st
      let r ← getField f v
      pure (r, st1)
    | .idx e i => do
      let (v, st1) ← ev e st
      let (iv, st2) ← ev i st1
      match v, iv with
      | .struct fs, .str k => .ok ((lookup k fs).getD .nil, st2)     -- map read: zero value when absent
      | _, _ =>
      match asList v, iv with
      | some xs, .int k =>
        if k < 0 then .panic else match xs[k.toNat]? with
          | some x => .ok (x, st2)
          | none => .panic
      | _, _ => .stuck "index"
    | .len e => do
      let (v, st1) ← ev e st
      match lenOf v with
      | some k => pure (.int k, st1)
      | none => .stuck "len"
    | .un op e => do
      let (v, st1) ← ev e st
      match op, v with
      | "!", .bool b => pure (.bool (!b), st1)
      | "-", .int i => pure (.int (-i), st1)
      | "&", r => pure (r, st1)
      | "*", r => pure (r, st1)
      | _, _ => .stuck ("unary " ++ op)
    | .and a b => do
      let (x, st1) ← ev a st
      match x with
      | .bool false => pure (.bool false, st1)
      | .bool true => do
        let (y, st2) ← ev b st1
        match y with
        | .bool c => pure (.bool c, st2)
        | _ => .stuck "&& on non-bool"
      | _ => .stuck "&& on non-bool"
    | .or a b => do
      let (x, st1) ← ev a st
      match x with
      | .bool true => pure (.bool true, st1)
      | .bool false => do
        let (y, st2) ← ev b st1
        match y with
        | .bool c => pure (.bool c, st2)
        | _ => .stuck "|| on non-bool"
      | _ => .stuck "|| on non-bool"
    | .bin op a b => do
      let (x, st1) ← ev a st
      let (y, st2) ← ev b st1
      let r ← binVal op x y
      pure (r, st2)
    | .slice e lo hi => do
      let (v, st1) ← ev e st
      match asList v with
      | none => .stuck "slice of non-list"
      | some xs => do
        let (l, st2) ← match lo with
          | none => (pure (0, st1) : R (Int × St))
          | some le => do
            let (lv, s) ← ev le st1
            match lv with
            | .int k => pure (k, s)
            | _ => .stuck "slice bound"
        let (h, st3) ← match hi with
          | none => (pure ((xs.length : Int), st2) : R (Int × St))
          | some he => do
            let (hv, s) ← ev he st2
            match hv with
            | .int k => pure (k, s)
            | _ => .stuck "slice bound"
        if 0 ≤ l ∧ l ≤ h ∧ h ≤ xs.length then pure (.list ((xs.take h.toNat).drop l.toNat), st3) else .panic
    | .lit fields => do
      let (fs, st1) ← evalFields ev fields st
      pure (.struct fs, st1)
    | .listLit elems => do
      let (vs, st1) ← evalArgs ev elems st
      pure (.list vs, st1)
    | .search ne i pred => do
      let (nv, st1) ← ev ne st
      match nv with
      | .int k =>
        if k < 0 then .stuck "sort.Search with negative n" else do
          -- the predicate is evaluated for its value only (an effect inside it would be lost: such closures are not translated)
          let r ← search k.toNat (fun h => match ev pred (st1.set i (.int h)) with
            | .ok (.bool b, _) => .ok b
            | .ok _ => .stuck "search predicate not bool"
            | .panic => .panic
            | .stuck w => .stuck w)
          pure (.int r, st1)
      | _ => .stuck "sort.Search n"
    | .call f args => do
      let (vs, st1) ← evalArgs ev args st
      callFn f vs st1
    | .callSpread f args => do
      let (vs0, st1) ← evalArgs ev args st
      match spliceLast vs0 with
      | some vs => callFn f vs st1
      | none => .stuck "spread of non-list"
    | .mcall recv m args => do
      let (rv, st0) ← ev recv st
      let (vs, st1) ← evalArgs ev args st0
      match lookup' m prog with
      | some fn =>
        match fn.recv, bindParams fn.params vs with
        | some rn, some env => do
          let (fl, st2) ← callBody fn.body { env := envOf ((rn, rv) :: env), eff := st1.eff }
          let st3 : St := { st1 with eff := st2.eff }
          -- pointer receiver: write the callee's final receiver back when the receiver is a variable
          let st4 := match recv, st2.env rn with
            | .var x, some rv' => st3.set x rv'
            | .sel (.var x) f, some rv' =>
              -- `x.f.m(…)` with `x.f` a pointer field: a callee that changed its receiver has it stored back into the field
              if Val.beq rv rv' then st3 else
              (match st3.env x with
               | some (.struct fs) => st3.set x (.struct (update f rv' fs))
               | _ => st3)
            | _, _ => st3
          pure (flowResult fl, st4)
        | _, _ => .stuck ("arity " ++ m)
      | none =>
        match rv, vs with
        | .struct fs, [] => match lookup m fs with
          | some v => pure (v, st1)
          | none => match ext m [rv] st1.eff with
            | some v => pure (v, st1.log m [])
            | none => pure (.nil, st1.log m [])
        | .nil, _ => .panic
        | _, _ => match ext m (rv :: vs) st1.eff with
          | some v => pure (v, st1.log m vs)
          | none => pure (.nil, st1.log m vs)
where
  lookup' (f : String) : Prog → Option Func
    | [] => none
    | (g, fn) :: rest => if f = g then some fn else lookup' f rest
  /-- builtin, else translated function, else `ext`, else an effect yielding `nil`. -/
  callFn (f : String) (vs : List Val) (st1 : St) : R (Val × St) :=
    match builtin f vs with
    | some r => do
      let v ← r
      pure (v, st1)
    | none =>
      match lookup' f prog with
      | some fn =>
        match fn.recv, bindParams fn.params vs with
        | none, some env => do
          let (fl, st2) ← callBody fn.body { env := envOf env, eff := st1.eff }
          pure (flowResult fl, { st1 with eff := st2.eff })
        | _, _ => .stuck ("arity " ++ f)
      | none => match ext f vs st1.eff with
        | some v => pure (v, st1.log f vs)
        | none => pure (.nil, st1.log f vs)

/-! ### statements -/

/-- Store into an l-value: a variable, `_`, or a field chain rooted at a variable. -/
def assignTo (ev : Expr → St → R (Val × St)) : Expr → Val → St → R St
  | .var x, v, st => if x = "_" then .ok st else .ok (st.set x v)
  | .sel (.var x) f, v, st =>
    match st.env x with
    | some r => do
      let r' ← setField f v r
      pure (st.set x r')
    | none => .stuck ("unbound " ++ x)
  | .sel (.sel (.var x) g) f, v, st =>
    match st.env x with
    | some r => do
      let inner ← getField g r
      let inner' ← setField f v inner
      let r' ← setField g inner' r
      pure (st.set x r')
    | none => .stuck ("unbound " ++ x)
  | .idx (.var x) i, v, st => do
    let (iv, st1) ← ev i st
    match st1.env x, iv with
    | some (.list xs), .int k =>
      if 0 ≤ k ∧ k.toNat < xs.length then pure (st1.set x (.list (xs.set k.toNat v))) else .panic
    | _, _ => .stuck "index assignment"
  | .idx (.sel (.var x) f) i, v, st => do
    let (iv, st1) ← ev i st
    match st1.env x with
    | some r => do
      let inner ← getField f r
      match inner, iv with
      | .struct fs, .str k => do
        let r' ← setField f (.struct (update k v fs)) r
        pure (st1.set x r')
      | .list xs, .int k =>
        if 0 ≤ k ∧ k.toNat < xs.length then do
          let r' ← setField f (.list (xs.set k.toNat v)) r
          pure (st1.set x r')
        else .panic
      | .nil, .str _ => .panic      -- assignment to an entry of a nil map
      | _, _ => .stuck "index assignment"
    | none => .stuck ("unbound " ++ x)
  | .idx (.sel (.sel (.var x) g) f) i, v, st => do
    -- `x.g.f[k] = v` with `x.g.f` a map (Go: `m.stats.brokerLeaderLoad[leader]++`)
    let (iv, st1) ← ev i st
    match st1.env x with
    | some r => do
      let mid ← getField g r
      let inner ← getField f mid
      match inner, iv with
      | .struct fs, .str k => do
        let r' ← setPath [g, f] (.struct (update k v fs)) r
        pure (st1.set x r')
      | .nil, .str _ => .panic      -- assignment to an entry of a nil map
      | _, _ => .stuck "index assignment"
    | none => .stuck ("unbound " ++ x)
  | .sel (.sel (.sel (.var x) g2) g) f, v, st =>
    match st.env x with
    | some r => do
      let r' ← setPath [g2, g, f] v r
      pure (st.set x r')
    | none => .stuck ("unbound " ++ x)
  | .sel (.sel (.sel (.sel (.var x) g3) g2) g) f, v, st =>
    match st.env x with
    | some r => do
      let r' ← setPath [g3, g2, g, f] v r
      pure (st.set x r')
    | none => .stuck ("unbound " ++ x)
  | _, _, _ => .stuck "unsupported l-value"

def assignAll (ev : Expr → St → R (Val × St)) : List Expr → List Val → St → R St
  | [], [], st => .ok st
  | l :: ls, v :: vs, st => do
    let st1 ← assignTo ev l v st
    assignAll ev ls vs st1
  | _, _, _ => .stuck "assignment arity"

def truthy : Val → R Bool
  | .bool b => .ok b
  | _ => .stuck "condition not bool"

/-- Three-clause `for`: at most `iters` iterations (the rest of the fuel). -/
def runFor (evc : St → R (Bool × St)) (blk post : St → R (Flow × St)) : (iters : Nat) → St → R (Flow × St)
  | 0, _ => .stuck "fuel (loop)"
  | k + 1, st =>
    match evc st with
    | .ok (false, st1) => .ok (.next, st1)
    | .ok (true, st1) =>
      match blk st1 with
      | .ok (.next, st2) | .ok (.cont, st2) =>
        (match post st2 with
        | .ok (_, st3) => runFor evc blk post k st3
        | other => other)
      | .ok (.brk, st2) => .ok (.next, st2)
      | other => other
    | .panic => .panic
    | .stuck w => .stuck w

def exec (prog : Prog) (ext : Ext) : Nat → Stmt → St → R (Flow × St)
  | 0, _, _ => .stuck "fuel"
  | n + 1, s, st =>
    let ex := exec prog ext n
    let blk := runBlock ex
    let ev := evalE prog ext blk n
    match s with
    | .skip _ => .ok (.next, st)
    | .unsupported w => .stuck ("unsupported statement: " ++ w)
    | .brk => .ok (.brk, st)
    | .cont => .ok (.cont, st)
    | .expr e => do
      let (_, st1) ← ev e st
      pure (.next, st1)
    | .ret es => do
      let (vs, st1) ← evalArgs ev es st
      pure (.ret vs, st1)
    | .assign lhs rhs => do
      let (vs, st1) ← evalArgs ev rhs st
      -- a single call returning several values
      let vs' := match lhs, vs with
        | _ :: _ :: _, [.tup ws] => ws
        | _, _ => vs
      let st2 ← assignAll ev lhs vs' st1
      pure (.next, st2)
    | .opAssign op lhs rhs => do
      let (a, st1) ← ev lhs st
      let (b, st2) ← ev rhs st1
      let r ← binVal op a b
      let st3 ← assignTo ev lhs r st2
      pure (.next, st3)
    | .ite init c t e => do
      let (fl, st0) ← blk init st
      match fl with
      | .next => do
        let (cv, st1) ← ev c st0
        let b ← truthy cv
        if b then blk t st1 else blk e st1
      | _ => .stuck "control flow in if-init"
    | .forRange k v e body => do
      let (xv, st1) ← ev e st
      match xv with
      | .struct fs => runRangeMap (blk body) k v fs st1
      | _ =>
      match asList xv with
      | some xs => runRange (blk body) k v 0 xs st1
      | none => .stuck "range over non-list"
    | .forC init c post body => do
      let (fl, st0) ← blk init st
      match fl with
      | .next =>
        runFor (fun s => match c with
            | none => .ok (true, s)
            | some ce => do
              let (cv, s1) ← ev ce s
              let b ← truthy cv
              pure (b, s1))
          (blk body) (blk post) n st0
      | _ => .stuck "control flow in for-init"

/-- Outcome of a whole function: returned values, final receiver (if any), effect trace. -/
structure Out where
  rets : List Val
  recv : Option Val
  eff : List (String × List Val)
  deriving Repr, Inhabited

def noExt : Ext := fun _ _ _ => none

/-- Run function `f` of `prog` on a receiver (for methods) and arguments; `globals` are the package-level
values the body reads (`nats.ErrTimeout`, …). -/
def runG (prog : Prog) (ext : Ext) (fuel : Nat) (f : String)
    (recv : Option Val) (args : List Val) (globals : List (String × Val)) : R Out :=
  match evalE.lookup' f prog with
  | none => .stuck ("no function " ++ f)
  | some fn =>
    match bindParams fn.params args with
    | none => .stuck "arity"
    | some env =>
      let env' := match fn.recv, recv with
        | some rn, some rv => (rn, rv) :: env
        | _, _ => env
      match runBlock (exec prog ext fuel) fn.body { env := envOf (env' ++ globals), eff := [] } with
      | .ok (fl, st) =>
        .ok { rets := match fl with | .ret vs => vs | _ => [],
              recv := match fn.recv with | some rn => st.env rn | none => none,
              eff := st.eff }
      | .panic => .panic
      | .stuck w => .stuck w

def run (prog : Prog) (ext : Ext) (fuel : Nat) (f : String) (recv : Option Val) (args : List Val) : R Out :=
  runG prog ext fuel f recv args []

end Liftbridge.GoMini
