/-
Shared vocabulary of every model: Go-like results (value / error / panic),
Go slicing with explicit panics, and a literal mirror of Go's `sort.Search`.
Core Lean only (no Mathlib) so that the driver links as a `lean_exe`.
-/
namespace Liftbridge

/-- Outcome of a Go function: a value, a returned `error` (small enum as a string), or a
run-time panic. Panics are modelled outcomes, never defaults. -/
inductive Res (α : Type) where
  | ok (a : α)
  | err (e : String)
  | panic
  deriving Repr, DecidableEq, Inhabited

namespace Res
def bind {α β} (r : Res α) (f : α → Res β) : Res β :=
  match r with
  | .ok a => f a
  | .err e => .err e
  | .panic => .panic
instance : Monad Res where
  pure := .ok
  bind := Res.bind
def isOk {α} : Res α → Bool | .ok _ => true | _ => false
def isPanic {α} : Res α → Bool | .panic => true | _ => false
@[simp] theorem bind_ok {α β} (a : α) (f : α → Res β) : (Res.ok a >>= f) = f a := rfl
@[simp] theorem bind_err {α β} (e : String) (f : α → Res β) : (Res.err e >>= f) = .err e := rfl
@[simp] theorem bind_panic {α β} (f : α → Res β) : ((Res.panic : Res α) >>= f) = .panic := rfl
@[simp] theorem pure_eq {α} (a : α) : (pure a : Res α) = .ok a := rfl
end Res

abbrev Bytes := List UInt8

/-- Go `d[a:]`: panics when `a > len(d)`. -/
def sliceFrom {α} (d : List α) (a : Nat) : Res (List α) :=
  if a ≤ d.length then .ok (d.drop a) else .panic

/-- Go `d[a:b]` (capacity = length): panics unless `a ≤ b ≤ len(d)`. -/
def slice {α} (d : List α) (a b : Nat) : Res (List α) :=
  if a ≤ b ∧ b ≤ d.length then .ok ((d.take b).drop a) else .panic

/-- Go `d[i]`. -/
def index {α} (d : List α) (i : Nat) : Res α :=
  match d[i]? with
  | some x => .ok x
  | none => .panic

/-- Literal mirror of Go's `sort.Search(n, f)`:
```go
i, j := 0, n
for i < j { h := int(uint(i+j) >> 1); if !f(h) { i = h + 1 } else { j = h } }
return i
```
so that non-monotone predicates behave exactly as in Go. -/
def goSearchAux (f : Nat → Bool) (i j : Nat) : Nat :=
  if h : i < j then
    let m := (i + j) / 2
    if f m then goSearchAux f i m else goSearchAux f (m + 1) j
  else i
termination_by j - i
decreasing_by all_goals omega

def goSearch (n : Nat) (f : Nat → Bool) : Nat := goSearchAux f 0 n

/-- Big-endian encoding of `v` on `k` bytes (`v` taken modulo `2^(8k)`). -/
def beBytes : (k : Nat) → Nat → Bytes
  | 0, _ => []
  | k+1, v => UInt8.ofNat (v / 256 ^ k % 256) :: beBytes k v

/-- Big-endian decoding. -/
def beNat (b : Bytes) : Nat := b.foldl (fun acc x => acc * 256 + x.toNat) 0

def hexDigit (n : Nat) : Char :=
  if n < 10 then Char.ofNat (48 + n) else Char.ofNat (87 + n)

def toHex (b : Bytes) : String :=
  if b.isEmpty then "\"\"" else
  String.ofList (b.flatMap fun x => [hexDigit (x.toNat / 16), hexDigit (x.toNat % 16)])

def hexVal (c : Char) : Option Nat :=
  if '0' ≤ c ∧ c ≤ '9' then some (c.toNat - 48)
  else if 'a' ≤ c ∧ c ≤ 'f' then some (c.toNat - 87)
  else none

def fromHexAux : List Char → Option Bytes
  | [] => some []
  | [_] => none
  | a :: b :: rest => do
    let x ← hexVal a
    let y ← hexVal b
    let r ← fromHexAux rest
    pure (UInt8.ofNat (x * 16 + y) :: r)

/-- Hex token → bytes; `""` is the empty string (a bare empty token cannot be transmitted). -/
def fromHex (s : String) : Option Bytes :=
  if s = "\"\"" then some [] else fromHexAux s.toList

/-- Optional bytes: `-` is Go `nil`. -/
def fromHexOpt (s : String) : Option (Option Bytes) :=
  if s = "-" then some none else (fromHex s).map some

def toHexOpt : Option Bytes → String
  | none => "-"
  | some b => toHex b

end Liftbridge
