/-
C19 — Telemetry can be switched off and never carries user data.

Property theorems only. Two kinds:
  * statements for EVERY shape of the code (`∀ F : Facts`) with the shape conditions they
    need as hypotheses, and
  * the same statements about the code as it is NOW (`genFacts`, regenerated from /repo on
    every run), where the shape conditions are discharged by `decide` — these are the
    obligations that stop checking when the code stops having the property.
Routes: config file, environment variable `LIFTBRIDGE_TELEMETRY_ENABLED` (documented in
/repo/CHANGELOG.md:79-94), programmatic assignment to `Config.Telemetry.Enabled`.
-/
import Liftbridge.Model.TelemetryCfg

namespace Liftbridge.Props.C19
open Liftbridge Liftbridge.TelemetryCfg

/-! ### Switching off -/

/-- For every shape of the code with the server-side gate: a configuration that is not
enabled never starts the reporting goroutine — no request, however many ticks pass. -/
theorem disabled_means_no_request (F : Facts) (hs : serverGates F) (c : Cfg) (ticks : Nat)
    (h : enabled F c = false) : requests F c ticks = 0 := by
  unfold requests sends collectorCreated collectorFlag
  rcases hs with hg | ⟨hc, hst⟩
  · simp [hg, h]
  · simp [hc, hst, h]

/-- Non-triviality of the model: an enabled configuration does report (one beacon plus one
request per tick), for every shape of the code. -/
theorem enabled_means_requests (F : Facts) (c : Cfg) (ticks : Nat) (h : enabled F c = true) :
    requests F c ticks = 1 + ticks := by
  unfold requests sends collectorCreated collectorFlag
  simp [h]

/-- When the code honours the environment route on both paths of `NewConfig`, the switch is
exactly "programmatic, else environment, else config file, else default". -/
theorem enabled_spec (F : Facts) (he : envHonoured F) (c : Cfg) :
    enabled F c =
      ((c.prog.orElse fun _ => c.env.orElse fun _ => if c.hasConfigFile then c.file else none).getD
        F.defaultEnabled) := by
  obtain ⟨hb, hfp, hfe, hnp, hne⟩ := he
  unfold enabled afterNewConfig viperLookup
  cases hp : c.prog <;> cases hv : c.env <;> cases hf : c.hasConfigFile <;>
    simp [hb, hfp, hfe, hnp, hne, Option.orElse]

/-- FULL STRENGTH, any shape: with the server-side gate and the environment route honoured,
switching telemetry off by ANY route (the highest-precedence route that speaks says "off")
means no request is ever made. -/
theorem off_means_silent_of_shape (F : Facts) (hs : serverGates F) (he : envHonoured F)
    (c : Cfg) (ticks : Nat) (h : effectiveOff c) : requests F c ticks = 0 := by
  apply disabled_means_no_request F hs
  rw [enabled_spec F he]
  rcases h with h | ⟨h1, h2⟩ | ⟨h1, h2, h3, h4⟩
  · simp [h, Option.orElse]
  · simp [h1, h2, Option.orElse]
  · simp [h1, h2, h3, h4, Option.orElse]

/-- FULL STRENGTH, the code as it is now: every documented way of switching telemetry off —
config file, `LIFTBRIDGE_TELEMETRY_ENABLED`, programmatic — with or without a config file,
yields no request at all. (Does not check on a tree where the environment variable is
ignored: see `env_route_prefix_defect`.) -/
theorem off_means_silent (c : Cfg) (ticks : Nat) (h : effectiveOff c) :
    requests genFacts c ticks = 0 :=
  off_means_silent_of_shape genFacts (by decide) (by decide) c ticks h

/-- The strongest variant that holds for EVERY shape with the server-side gate, i.e. also
on the tree before the repair: the excluded case is "the environment variable says
anything" (`c.env = none` is the excluding hypothesis). -/
theorem off_means_silent_partial (F : Facts) (hs : serverGates F) (hfp : F.fileParses = true)
    (c : Cfg) (ticks : Nat) (henv : c.env = none) (h : effectiveOff c) :
    requests F c ticks = 0 := by
  apply disabled_means_no_request F hs
  unfold enabled afterNewConfig viperLookup
  rcases h with h | ⟨_, h2⟩ | ⟨h1, _, h3, h4⟩
  · simp [h]
  · simp [henv] at h2
  · simp [h1, h3, h4, henv, hfp]

/-- The old behaviour's witness (tree before `fixes/C19-telemetry-env-ignored.diff`):
`LIFTBRIDGE_TELEMETRY_ENABLED=false` and nothing else said — telemetry still reports, with
and without a config file. Replayed on the implementation by the harness
(corpus/C19/env-false-ignored.ops). -/
theorem env_route_prefix_defect (hasFile : Bool) (ticks : Nat) :
    requests unfixedFacts ⟨none, some false, none, hasFile⟩ ticks = 1 + ticks := by
  cases hasFile <;>
    exact enabled_means_requests unfixedFacts _ ticks (by decide)

/-- The formula of DESIGN.md §4 read literally — "ANY route says off ⇒ silent" — is kept
visible. It is stronger than the property: it ignores that routes can contradict each
other. -/
def off_means_silent_anyRoute_asStated : Prop :=
  ∀ (c : Cfg) (ticks : Nat), (c.file = some false ∨ c.env = some false ∨ c.prog = some false) →
    requests genFacts c ticks = 0

/-- … and it is false on any tree: either the environment variable is ignored (first
witness: only `env = false`), or it overrides the file as documented
(documentation/configuration.md:106-110; second witness: file says off, environment says
on). The second is not a defect: telemetry is then not "disabled". -/
theorem off_means_silent_anyRoute_asStated_false : ¬ off_means_silent_anyRoute_asStated := by
  intro h
  have h1 := h ⟨none, some false, none, true⟩ 0 (by decide)
  have h2 := h ⟨some false, some true, none, true⟩ 0 (by decide)
  revert h1 h2
  decide

/-- Telemetry is opt-out: when no route says anything the switch has its default value,
whatever the shape of the code; and on the current tree that default is "on". -/
theorem enabled_default (F : Facts) (hasFile : Bool) :
    enabled F ⟨none, none, none, hasFile⟩ = F.defaultEnabled := by
  unfold enabled afterNewConfig viperLookup
  cases hasFile <;> simp

/-- The programmatic assignment is final, for every shape of the code. -/
theorem prog_is_final (F : Facts) (c : Cfg) (b : Bool) (h : c.prog = some b) : enabled F c = b := by
  unfold enabled; simp [h]

/-- Every non-empty value of the environment variable that `strconv.ParseBool` does not
read as true switches telemetry OFF (`0`, `false`, `no`, `off`, garbage …): an unreadable
value never enables reporting. -/
theorem env_value_not_true_is_off (s : List Char) (hne : s ≠ [])
    (ht : s ∉ ["1", "t", "T", "TRUE", "true", "True"].map String.toList) : castBool s = some false := by
  unfold castBool
  cases s with
  | nil => exact absurd rfl hne
  | cons a t => simp only [List.isEmpty_cons, Bool.false_eq_true, if_false, ht]

/-- The documented variable name is the one viper looks up for `telemetry.enabled` on the
current tree. -/
theorem documented_env_var_binds : envVarFor genFacts = documentedEnvVar := by decide

/-! ### What the report may contain (finite regenerated tables: `decide`) -/

/-- Every JSON key the payload can contain (recursively) is on the whitelist. Fails to check
as soon as a field is added to `TelemetryPayload` or a nested struct. -/
theorem keys_whitelisted : ∀ k ∈ Gen.Telemetry.payloadKeys, k ∈ whitelist := by decide

/-- Strict reading — only keys NAMED in the documented list — kept visible … -/
def keys_documented_asStated : Prop := ∀ k ∈ Gen.Telemetry.payloadKeys, k ∈ documented

/-- … and false: `timestamp` (also `os.platform`, `cpu.frequency_mhz`) is sent but not listed. -/
theorem keys_documented_asStated_false : ¬ keys_documented_asStated := by
  intro h
  exact absurd (h "timestamp" (by decide)) (by decide)

/-- Every key other than the three derived/constant ones is named in the documentation. -/
theorem keys_documented_partial :
    ∀ k ∈ Gen.Telemetry.payloadKeys, k ∉ derivedOrConstant → k ∈ documented := by decide

/-- `collectPayload` (and the same-file helpers it calls) reads nothing but the instance id,
the version, the Go runtime's machine description and the clock: no server state, no
configuration, no stream or NATS object is syntactically reachable from it. -/
theorem sources_allowed : ∀ s ∈ Gen.Telemetry.sources, s ∈ allowedSources := by decide

/-- The request around the payload (URL, headers) is built from the fixed endpoint
constant, the version and the collector's own client/context only. -/
theorem request_sources_allowed : ∀ s ∈ Gen.Telemetry.requestSources, s ∈ allowedRequestSources := by
  decide

/-- The instance id is the content of the id file or comes from `crypto/rand`. -/
theorem id_sources_allowed : ∀ s ∈ Gen.Telemetry.idSources, s ∈ allowedIdSources := by decide

/-- Origin of the two collector fields the payload reads: the instance id is
`loadOrCreateInstanceID(cfg.DataDir)`, the version is `New`'s second parameter, and the
server passes its build `Version` there. -/
theorem field_origins :
    Gen.Telemetry.instanceIdExpr = "loadOrCreateInstanceID(cfg.DataDir)" ∧
    Gen.Telemetry.versionExpr = "param:1" ∧ Gen.Telemetry.versionArg = "Version" := by decide

/-- The only exported entry point of package `telemetry` from which an HTTP request is
reachable is `Collector.Start`, and the module creates, assigns and starts a collector in
exactly one place (the guarded block of `Server.Start`). -/
theorem single_entry_point :
    Gen.Telemetry.httpEntryPoints = ["Collector.Start"] ∧
    Gen.Telemetry.collectorCreationSites = 1 ∧ Gen.Telemetry.collectorAssignSites = 1 ∧
    Gen.Telemetry.collectorStartSites = 1 ∧ Gen.Telemetry.startNilGuard = true := by decide

/-! ### Non-vacuity -/

-- every disjunct of `effectiveOff` is inhabited
example : effectiveOff ⟨none, none, some false, false⟩ := by decide
example : effectiveOff ⟨none, some false, none, false⟩ := by decide
example : effectiveOff ⟨some false, none, none, true⟩ := by decide
-- the shape hypotheses hold for the current tree and fail for the tree before the repair
example : serverGates genFacts ∧ envHonoured genFacts := by decide
example : serverGates unfixedFacts ∧ ¬ envHonoured unfixedFacts := by decide
-- the model is not constantly silent
example : requests genFacts ⟨none, none, none, false⟩ 3 = 4 := by decide
example : requests genFacts ⟨some false, some true, none, true⟩ 0 = 1 := by decide
example : castBool "0".toList = some false ∧ castBool "1".toList = some true ∧ castBool [] = none ∧
    castBool "off".toList = some false := by decide

end Liftbridge.Props.C19
