/-
C19 — Telemetry can be switched off and never carries user data.

Property theorems only. Two kinds:
  * statements for EVERY shape of the code (`∀ F : Facts`) with the shape conditions they
    need as hypotheses, and
  * the same statements about the code as it is NOW (`genFacts`, regenerated from /repo on
    every run), where the shape conditions are discharged by `decide` — these are the
    obligations that stop checking when the code stops having the property.
Routes: config file, environment variable `LIFTBRIDGE_TELEMETRY_ENABLED` (documented in
/repo/CHANGELOG.md:79-94), programmatic assignment to `Config.Telemetry.Enabled`.
-/
import Liftbridge.Model.TelemetryCfg
import Liftbridge.Proofs.Telemetry

namespace Liftbridge.Props.C19
open Liftbridge Liftbridge.TelemetryTypes Liftbridge.TelemetryCfg

/-! ### Switching off

`requests F c iv dir fs ticks`: configuration `c` (the three routes), `iv` =
`Telemetry.IntervalSeconds` as `Server.Start` sees it (ANY integer: zero and negative
included), `dir` = the data directory, `fs` = what the file system holds under each
directory (id file readable / writable / …), `ticks` = expiries of the interval timer. -/

/-- `telemetry.New` never turns a disabled non-nil config into an enabled one, for every
shape of `New` all of whose blocks pass `rewriteKeepsOff` — whatever they do to the
interval and the data directory. -/
theorem new_keeps_off (F : Facts) (h : newKeepsOff F = true) (a : TCfg) (ha : a.enabled = false) :
    ∃ c, newCfg F (some a) = some c ∧ c.enabled = false :=
  Proofs.Telemetry.foldl_keepsOff F F.newSteps h a ha

/-- Collector level (direct users of package telemetry, "programmatic config"): a collector
built from a config with `Enabled: false` never makes a request — for every interval, data
directory and file-system state — provided `New` keeps the switch and `Start` checks it. -/
theorem collector_off_means_silent_of_shape (F : Facts) (hg : collectorGates F) (a : TCfg)
    (fs : String → IdEnv) (ticks : Nat) (ha : a.enabled = false) :
    collectorRequests F (some a) fs ticks = 0 := by
  obtain ⟨hn, hst⟩ := hg
  obtain ⟨c, hc, hoff⟩ := new_keeps_off F hn a ha
  unfold collectorRequests newCollector
  rw [hc]
  simp only
  split
  · rfl
  · rename_i k hk
    split at hk
    · cases hk
    · cases hk
      simp [collectorRuns, hst, hoff]

/-- … and the code as it is now has that shape. -/
theorem collector_off_means_silent (a : TCfg) (fs : String → IdEnv) (ticks : Nat)
    (ha : a.enabled = false) : collectorRequests genFacts (some a) fs ticks = 0 :=
  collector_off_means_silent_of_shape genFacts (by decide) a fs ticks ha

/-- For every shape of the code with the server-side gate: a configuration that is not
enabled never starts the reporting goroutine — no request, however many ticks pass, for
EVERY interval (zero and negative included), data directory and file-system state. -/
theorem disabled_means_no_request (F : Facts) (hs : serverGates F) (c : Cfg) (iv : Int)
    (dir : String) (fs : String → IdEnv) (ticks : Nat)
    (h : enabled F c = false) : requests F c iv dir fs ticks = 0 := by
  unfold requests serverRequests serverCollector startArg
  rcases hs with hg | ⟨ha, hcg⟩
  · simp [hg, h]
  · by_cases hg : F.createGuarded = true
    · simp [hg, h]
    · have hoff : srcEval F.argEnabled false F.dfltEnabled true = false := by
        unfold argKeepsOff at ha
        cases he : F.argEnabled <;> rw [he] at ha <;> simp_all [srcEval]
      have hcol := collector_off_means_silent_of_shape F hcg
        ⟨srcEval F.argEnabled false F.dfltEnabled true, iv * 1000000000, dir⟩ fs ticks hoff
      unfold collectorRequests at hcol
      simp only [h, Bool.not_false, Bool.and_true, hg]
      exact hcol

/-- Non-triviality of the model: when `New` leaves a non-nil config alone and `Server.Start`
hands an enabled switch on, an enabled configuration with a positive interval whose
instance id can be loaded or created does report (one beacon plus one request per tick). -/
theorem enabled_means_requests (F : Facts) (hid : Proofs.Telemetry.onlyNilSteps F = true)
    (harg : srcEval F.argEnabled true F.dfltEnabled true = true)
    (c : Cfg) (iv : Int) (dir : String) (fs : String → IdEnv) (ticks : Nat)
    (h : enabled F c = true) (hiv : 0 < iv) (hfs : idIsErr (loadOrCreate F (fs dir)) = false) :
    requests F c iv dir fs ticks = 1 + ticks := by
  have hpos : (0 : Int) < iv * 1000000000 := Int.mul_pos hiv (by decide)
  unfold requests serverRequests serverCollector startArg newCollector
  simp only [h, Bool.not_true, Bool.and_false, Bool.false_eq_true, if_false,
    Proofs.Telemetry.newCfg_id F hid, harg, hfs]
  simp [collectorRuns, runRequests, hpos]

/-- When the code honours the environment route on both paths of `NewConfig`, the switch is
exactly "programmatic, else environment, else config file, else default". -/
theorem enabled_spec (F : Facts) (he : envHonoured F) (c : Cfg) :
    enabled F c =
      ((c.prog.orElse fun _ => c.env.orElse fun _ => if c.hasConfigFile then c.file else none).getD
        F.defaultEnabled) := by
  obtain ⟨hb, hfp, hfe, hnp, hne⟩ := he
  unfold enabled afterNewConfig viperLookup
  cases hp : c.prog <;> cases hv : c.env <;> cases hf : c.hasConfigFile <;>
    simp [hb, hfp, hfe, hnp, hne, Option.orElse]

/-- FULL STRENGTH, any shape: with the server-side gate and the environment route honoured,
switching telemetry off by ANY route (the highest-precedence route that speaks says "off")
means no request is ever made — for every interval, data directory and file-system state. -/
theorem off_means_silent_of_shape (F : Facts) (hs : serverGates F) (he : envHonoured F)
    (c : Cfg) (iv : Int) (dir : String) (fs : String → IdEnv) (ticks : Nat) (h : effectiveOff c) :
    requests F c iv dir fs ticks = 0 := by
  apply disabled_means_no_request F hs
  rw [enabled_spec F he]
  rcases h with h | ⟨h1, h2⟩ | ⟨h1, h2, h3, h4⟩
  · simp [h, Option.orElse]
  · simp [h1, h2, Option.orElse]
  · simp [h1, h2, h3, h4, Option.orElse]

/-- FULL STRENGTH, the code as it is now: every documented way of switching telemetry off —
config file, `LIFTBRIDGE_TELEMETRY_ENABLED`, programmatic — with or without a config file,
yields no request at all, for EVERY value of `telemetry.interval.seconds` (however it was
set: file, environment, program; positive, zero or negative), every data directory and
every state of the instance-id file. (Does not check on a tree where the environment
variable is ignored — see `env_route_prefix_defect` — nor on one where `Server.Start` /
`telemetry.New` / `Collector.Start` together lose the switch.) -/
-- (On the current tree both disjuncts of `serverGates` hold — the collector is not created
-- for a disabled server, and a collector handed `Enabled: false` would not report either;
-- only the disjunction is an obligation, so that dropping ONE of the two gates is not flagged.)
theorem off_means_silent (c : Cfg) (iv : Int) (dir : String) (fs : String → IdEnv) (ticks : Nat)
    (h : effectiveOff c) : requests genFacts c iv dir fs ticks = 0 :=
  off_means_silent_of_shape genFacts (by decide) (by decide) c iv dir fs ticks h

/-- The strongest variant that holds for EVERY shape with the server-side gate, i.e. also
on the tree before the repair: the excluded case is "the environment variable says
anything" (`c.env = none` is the excluding hypothesis). -/
theorem off_means_silent_partial (F : Facts) (hs : serverGates F) (hfp : F.fileParses = true)
    (c : Cfg) (iv : Int) (dir : String) (fs : String → IdEnv) (ticks : Nat) (henv : c.env = none)
    (h : effectiveOff c) : requests F c iv dir fs ticks = 0 := by
  apply disabled_means_no_request F hs
  unfold enabled afterNewConfig viperLookup
  rcases h with h | ⟨_, h2⟩ | ⟨h1, _, h3, h4⟩
  · simp [h]
  · simp [henv] at h2
  · simp [h1, h3, h4, henv, hfp]

/-- The old behaviour's witness (tree before `fixes/C19-telemetry-env-ignored.diff`):
`LIFTBRIDGE_TELEMETRY_ENABLED=false` and nothing else said — telemetry still reports, with
and without a config file. Replayed on the implementation by the harness
(corpus/C19/env-false-ignored.ops). -/
theorem env_route_prefix_defect (hasFile : Bool) (iv : Int) (hiv : 0 < iv) (dir : String) (ticks : Nat) :
    requests unfixedFacts ⟨none, some false, none, hasFile⟩ iv dir fsOk ticks = 1 + ticks := by
  cases hasFile <;>
    exact enabled_means_requests unfixedFacts (by decide) (by decide) _ iv dir fsOk ticks (by decide) hiv
      (by show idIsErr (loadOrCreate unfixedFacts ⟨true, none, true, true, false⟩) = false; decide)

/-- The formula of DESIGN.md §4 read literally — "ANY route says off ⇒ silent" — is kept
visible. It is stronger than the property: it ignores that routes can contradict each
other. -/
def off_means_silent_anyRoute_asStated : Prop :=
  ∀ (c : Cfg) (ticks : Nat), (c.file = some false ∨ c.env = some false ∨ c.prog = some false) →
    requests genFacts c 1 "" fsOk ticks = 0

/-- … and it is false on any tree: either the environment variable is ignored (first
witness: only `env = false`), or it overrides the file as documented
(documentation/configuration.md:106-110; second witness: file says off, environment says
on). The second is not a defect: telemetry is then not "disabled". -/
theorem off_means_silent_anyRoute_asStated_false : ¬ off_means_silent_anyRoute_asStated := by
  intro h
  have h1 := h ⟨none, some false, none, true⟩ 0 (by decide)
  have h2 := h ⟨some false, some true, none, true⟩ 0 (by decide)
  revert h1 h2
  decide

/-! ### Origin of the instance id -/

/-- For every shape of `loadOrCreateInstanceID` all of whose paths are `pathClean`, and
every state of the data directory: the function returns an error, or the content of the
id file (which was readable and non-empty), or the freshly generated random UUID
(`crypto/rand` succeeded). It never returns anything else (host name, address, …). -/
theorem instance_id_origin_of_shape (F : Facts) (h : idPathsClean F = true) (e : IdEnv) :
    match loadOrCreate F e with
    | .err => True
    | .file => fileUsable F e = true
    | .fresh => e.randOk = true
    | .other _ => False := by
  unfold loadOrCreate
  cases hp : idPathTaken F e with
  | none => trivial
  | some p =>
    obtain ⟨hmem, hall⟩ := Proofs.Telemetry.idPathTaken_spec F e p hp
    have hclean : pathClean p = true := (List.all_eq_true.mp h) p hmem
    unfold pathClean at hclean
    simp only
    cases ho : p.out with
    | err => trivial
    | file =>
      rw [ho] at hclean
      exact Proofs.Telemetry.any_isFileUsable F e p.conds hall hclean
    | fresh =>
      rw [ho] at hclean
      exact Proofs.Telemetry.any_isOpOk F e .rand p.conds hall hclean
    | other t =>
      rw [ho] at hclean
      exact absurd hclean (by simp)

/-- … and the code as it is now has that shape. -/
theorem instance_id_origin (e : IdEnv) :
    match loadOrCreate genFacts e with
    | .err => True
    | .file => fileUsable genFacts e = true
    | .fresh => e.randOk = true
    | .other _ => False :=
  instance_id_origin_of_shape genFacts (by decide) e

/-- Every collector that exists carries an instance id that is the content of the id file
of ITS data directory or a fresh random UUID — whatever `New` was given and whatever the
file system holds. -/
theorem collector_id_origin (arg : Option TCfg) (fs : String → IdEnv) (k : Collector)
    (hk : newCollector genFacts arg fs = some k) :
    (k.id = .file ∧ fileUsable genFacts (fs k.cfg.dataDir) = true) ∨
    (k.id = .fresh ∧ (fs k.cfg.dataDir).randOk = true) := by
  unfold newCollector at hk
  cases hc : newCfg genFacts arg with
  | none => rw [hc] at hk; cases hk
  | some c =>
    rw [hc] at hk
    simp only at hk
    have ho := instance_id_origin (fs c.dataDir)
    cases hid : loadOrCreate genFacts (fs c.dataDir) with
    | err => rw [hid] at hk; simp [idIsErr] at hk
    | file =>
      rw [hid] at hk ho
      simp only [idIsErr, Bool.false_eq_true, if_false, Option.some.injEq] at hk
      subst hk
      exact Or.inl ⟨rfl, ho⟩
    | fresh =>
      rw [hid] at hk ho
      simp only [idIsErr, Bool.false_eq_true, if_false, Option.some.injEq] at hk
      subst hk
      exact Or.inr ⟨rfl, ho⟩
    | other t => rw [hid] at ho; exact absurd ho id

/-- Stronger than C19 asks, true of the code as it is ("persistent per installation"): for
every shape all of whose paths are `pathPersists`, a fresh UUID is only returned after it
was written to the id file. -/
theorem fresh_id_is_persisted_of_shape (F : Facts) (h : idPathsPersist F = true) (e : IdEnv) :
    (match loadOrCreate F e with | .fresh => e.writeOk = true | _ => True) ∧ idPathsClean F = true := by
  have hcl : idPathsClean F = true := by
    unfold idPathsClean
    rw [List.all_eq_true]
    intro p hp
    have := (List.all_eq_true.mp h) p hp
    unfold pathPersists at this
    simp only [Bool.and_eq_true] at this
    exact this.1
  refine ⟨?_, hcl⟩
  unfold loadOrCreate
  cases hp : idPathTaken F e with
  | none => trivial
  | some p =>
    obtain ⟨hmem, hall⟩ := Proofs.Telemetry.idPathTaken_spec F e p hp
    have hper : pathPersists p = true := (List.all_eq_true.mp h) p hmem
    unfold pathPersists at hper
    simp only [Bool.and_eq_true] at hper
    simp only
    cases ho : p.out with
    | fresh =>
      have h2 := hper.2
      rw [ho] at h2
      exact Proofs.Telemetry.any_isOpOk F e .write p.conds hall h2
    | _ => trivial

/-- When the instance id can neither be read nor persisted (in any directory), no collector
exists and the server makes no request — enabled or not, for every interval: nothing is
ever reported under an id that is not the persisted one. -/
theorem unpersistable_means_silent_of_shape (F : Facts) (h : idPathsPersist F = true) (r : Run)
    (fs : String → IdEnv) (ticks : Nat)
    (hu : ∀ d, fileUsable F (fs d) = false ∧ (fs d).writeOk = false) :
    serverCollector F r fs = none ∧ serverRequests F r fs ticks = 0 := by
  have hnone : ∀ arg, newCollector F arg fs = none := by
    intro arg
    unfold newCollector
    cases hc : newCfg F arg with
    | none => rfl
    | some c =>
      obtain ⟨hw, hcl⟩ := fresh_id_is_persisted_of_shape F h (fs c.dataDir)
      have ho := instance_id_origin_of_shape F hcl (fs c.dataDir)
      obtain ⟨h1, h2⟩ := hu c.dataDir
      simp only
      cases hid : loadOrCreate F (fs c.dataDir) with
      | err => simp [idIsErr]
      | file => rw [hid] at ho; simp [h1] at ho
      | fresh => rw [hid] at hw; simp [h2] at hw
      | other t => rw [hid] at ho; exact absurd ho id
  have hsc : serverCollector F r fs = none := by
    unfold serverCollector
    cases startArg F r with
    | none => rfl
    | some a => exact hnone (some a)
  exact ⟨hsc, by unfold serverRequests; rw [hsc]⟩

theorem unpersistable_means_silent (r : Run) (fs : String → IdEnv) (ticks : Nat)
    (hu : ∀ d, fileUsable genFacts (fs d) = false ∧ (fs d).writeOk = false) :
    serverCollector genFacts r fs = none ∧ serverRequests genFacts r fs ticks = 0 :=
  unpersistable_means_silent_of_shape genFacts (by decide) r fs ticks hu

/-- The collector's config is the `*Config` `New` was given and nothing else ever writes
to it: `New` stores its parameter, no function of package telemetry assigns to / through a
`config` field, `telemetry.Config` has exactly the three modelled fields, and
`Server.Start` fills interval and data dir from the server configuration. -/
theorem collector_config_shape :
    Gen.Telemetry.newStoresParam = true ∧ Gen.Telemetry.configWriteSites = [] ∧
    Gen.Telemetry.configFields = ["Enabled", "Interval", "DataDir"] ∧
    Gen.Telemetry.startArgIntervalFromConfig = true ∧ Gen.Telemetry.startArgDataDirFromConfig = true := by
  decide

/-- Telemetry is opt-out: when no route says anything the switch has its default value,
whatever the shape of the code; and on the current tree that default is "on". -/
theorem enabled_default (F : Facts) (hasFile : Bool) :
    enabled F ⟨none, none, none, hasFile⟩ = F.defaultEnabled := by
  unfold enabled afterNewConfig viperLookup
  cases hasFile <;> simp

/-- The programmatic assignment is final, for every shape of the code. -/
theorem prog_is_final (F : Facts) (c : Cfg) (b : Bool) (h : c.prog = some b) : enabled F c = b := by
  unfold enabled; simp [h]

/-- Every non-empty value of the environment variable that `strconv.ParseBool` does not
read as true switches telemetry OFF (`0`, `false`, `no`, `off`, garbage …): an unreadable
value never enables reporting. -/
theorem env_value_not_true_is_off (s : List Char) (hne : s ≠ [])
    (ht : s ∉ ["1", "t", "T", "TRUE", "true", "True"].map String.toList) : castBool s = some false := by
  unfold castBool
  cases s with
  | nil => exact absurd rfl hne
  | cons a t => simp only [List.isEmpty_cons, Bool.false_eq_true, if_false, ht]

/-- The documented variable name is the one viper looks up for `telemetry.enabled` on the
current tree. -/
theorem documented_env_var_binds : envVarFor genFacts = documentedEnvVar := by decide

/-! ### What the report may contain (finite regenerated tables: `decide`) -/

/-- Every JSON key the payload can contain (recursively) is on the whitelist. Fails to check
as soon as a field is added to `TelemetryPayload` or a nested struct. -/
theorem keys_whitelisted : ∀ k ∈ Gen.Telemetry.payloadKeys, k ∈ whitelist := by decide

/-- Strict reading — only keys NAMED in the documented list — kept visible … -/
def keys_documented_asStated : Prop := ∀ k ∈ Gen.Telemetry.payloadKeys, k ∈ documented

/-- … and false: `timestamp` (also `os.platform`, `cpu.frequency_mhz`) is sent but not listed. -/
theorem keys_documented_asStated_false : ¬ keys_documented_asStated := by
  intro h
  exact absurd (h "timestamp" (by decide)) (by decide)

/-- Every key other than the three derived/constant ones is named in the documentation. -/
theorem keys_documented_partial :
    ∀ k ∈ Gen.Telemetry.payloadKeys, k ∉ derivedOrConstant → k ∈ documented := by decide

/-- `collectPayload` (and the same-file helpers it calls) reads nothing but the instance id,
the version, the Go runtime's machine description and the clock: no server state, no
configuration, no stream or NATS object is syntactically reachable from it. -/
theorem sources_allowed : ∀ s ∈ Gen.Telemetry.sources, s ∈ allowedSources := by decide

/-- The request around the payload (URL, headers) is built from the fixed endpoint
constant, the version and the collector's own client/context only. -/
theorem request_sources_allowed : ∀ s ∈ Gen.Telemetry.requestSources, s ∈ allowedRequestSources := by
  decide

/-- The instance id is the content of the id file or comes from `crypto/rand`. -/
theorem id_sources_allowed : ∀ s ∈ Gen.Telemetry.idSources, s ∈ allowedIdSources := by decide

/-- Origin of the two collector fields the payload reads: the instance id is
`loadOrCreateInstanceID(cfg.DataDir)`, the version is `New`'s second parameter, and the
server passes its build `Version` there. -/
theorem field_origins :
    Gen.Telemetry.instanceIdExpr = "loadOrCreateInstanceID(cfg.DataDir)" ∧
    Gen.Telemetry.versionExpr = "param:1" ∧ Gen.Telemetry.versionArg = "Version" := by decide

/-- The only exported entry point of package `telemetry` from which an HTTP request is
reachable is `Collector.Start`, and the module creates, assigns and starts a collector in
exactly one place (the guarded block of `Server.Start`). -/
theorem single_entry_point :
    Gen.Telemetry.httpEntryPoints = ["Collector.Start"] ∧
    Gen.Telemetry.collectorCreationSites = 1 ∧ Gen.Telemetry.collectorAssignSites = 1 ∧
    Gen.Telemetry.collectorStartSites = 1 ∧ Gen.Telemetry.startNilGuard = true := by decide

/-! ### Non-vacuity -/

/-- Hand-written copy of the shape the code has at the time of writing. -/
def shapeNow : Facts :=
  { unfixedFacts with envReplacer := [('.', '_')], noFileParses := true, noFileEnv := true }
-- harmless variations pass the gates: only the creation guard dropped (switch copied); an
-- interval normalisation in `New` that leaves `Enabled` alone
example : serverGates { shapeNow with createGuarded := false, argEnabled := .keep } := by decide
example :
    let F := { shapeNow with createGuarded := false, argEnabled := .keep,
                             newSteps := shapeNow.newSteps ++ [⟨.interval .le 0, .keep, .lit 86400000000000, .keep⟩] }
    serverGates F := by decide

-- every disjunct of `effectiveOff` is inhabited
example : effectiveOff ⟨none, none, some false, false⟩ := by decide
example : effectiveOff ⟨none, some false, none, false⟩ := by decide
example : effectiveOff ⟨some false, none, none, true⟩ := by decide
-- the shape hypotheses hold for the current tree and fail for the tree before the repair
example : serverGates genFacts ∧ envHonoured genFacts := by decide
example : serverGates unfixedFacts ∧ ¬ envHonoured unfixedFacts := by decide
-- the model is not constantly silent
example : requests genFacts ⟨none, none, none, false⟩ 1 "d" fsOk 3 = 4 := by decide
example : requests genFacts ⟨some false, some true, none, true⟩ 86400 "d" fsOk 0 = 1 := by decide
-- (the following examples are about the model's semantics, on a hand-written copy of the
-- current shape, so that a harmless change of the code does not touch them)
-- an enabled server with a non-positive interval sends the initial beacon (then the ticker panics)
example : requests shapeNow ⟨none, none, none, false⟩ 0 "d" fsOk 7 = 1 := by decide
-- a disabled one with the same interval sends nothing
example : requests genFacts ⟨none, some false, none, false⟩ 0 "d" fsOk 7 = 0 := by decide
-- a shape like "always create the collector; New replaces a config with a non-positive interval by
-- DefaultConfig()" fails the gate, and the model then reports for a disabled configuration
example :
    let F := { shapeNow with createGuarded := false, argEnabled := .keep,
                             newSteps := shapeNow.newSteps ++ [⟨.interval .le 0, .dflt, .dflt, .keep⟩] }
    ¬ serverGates F ∧ requests F ⟨none, some false, none, false⟩ 0 "d" fsOk 2 = 3 ∧
      requests F ⟨none, some false, none, false⟩ 5 "d" fsOk 2 = 0 := by decide
-- the id: fresh on an empty directory, the file when it has content, error when the id can
-- neither be read nor written, and the hypotheses of `unpersistable_means_silent` are satisfiable
example : idIsErr (loadOrCreate genFacts ⟨true, none, true, false, true⟩) = true := by decide
example : (match loadOrCreate genFacts ⟨true, none, true, true, false⟩ with | .fresh => true | _ => false) = true := by decide
example : (match loadOrCreate genFacts ⟨true, some ['a'], true, false, false⟩ with | .file => true | _ => false) = true := by decide
example : (match loadOrCreate genFacts ⟨true, some [], true, true, false⟩ with | .fresh => true | _ => false) = true := by decide
example : ∀ d : String, fileUsable genFacts ((fun _ => (⟨true, none, true, false, false⟩ : IdEnv)) d) = false ∧
    ((fun _ => (⟨true, none, true, false, false⟩ : IdEnv)) d).writeOk = false := by
  intro d
  show fileUsable genFacts ⟨true, none, true, false, false⟩ = false ∧ (⟨true, none, true, false, false⟩ : IdEnv).writeOk = false
  decide
-- a path that returns something else is not clean
example : pathClean ⟨[.op .write false, .other "herr == nil" true], .other "host"⟩ = false := by decide
example : castBool "0".toList = some false ∧ castBool "1".toList = some true ∧ castBool [] = none ∧
    castBool "off".toList = some false := by decide

end Liftbridge.Props.C19
