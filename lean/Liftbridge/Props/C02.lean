/-
C02 — Committed messages survive leader changes; replicas never diverge below the HW.

Model: `Liftbridge/Model/Protocol.lean` (the replication protocol of one partition AS THE CODE IS)
on top of the commit-log model `Liftbridge/Model/Log.lean`. Layering (IronFleet style, DESIGN §4):

 1. the leader-epoch cache keeps its order invariant under every mutator and its binary-search
    lookups meet their specification (`assign_keeps_order` … `lastOffsetFor_spec`);
 2. the commit log records an epoch boundary in TWO ways — `NewLeaderEpoch` the last offset of the
    old epoch (`elected_convention`), `append` the first offset of the new one
    (`replicated_convention`) — which are inconsistent (`conventions_inconsistent`);
 3. the follower's `Truncate(answer + 1)` leaves a prefix of the leader's log under the elected
    convention (`C02_partial`, the KIP-101 lemma, with every hypothesis it needs spelled out) and
    keeps a divergent record under the replicated one (`truncate_replicated_keeps_divergent`) or
    when the recorded start offset is the sentinel -1 (`truncate_sentinel_keeps_divergent`);
 4. a global induction over all reachable states of the protocol is NOT done. The full statement
    is `C02_asStated`; it is FALSE for the code as it is (`C02_asStated_false`): the explicit-state
    search `Search/Protocol.lean` finds violating runs for eight distinct root causes, each
    replayed here by kernel evaluation (`*_violates`), each disappearing under the single repair
    of its root cause (`*_repaired`), and each replayed on real commit logs by the harness.
-/
import Liftbridge.Model.Protocol
import Liftbridge.Proofs.Epochs
import Liftbridge.Proofs.Reconcile
import Liftbridge.Proofs.Protocol
import Liftbridge.Proofs.ProtocolInv

namespace Liftbridge.Props.C02
open Liftbridge Liftbridge.Log Liftbridge.Log.CLog Liftbridge.Protocol
open Liftbridge.Proofs.Log Liftbridge.Proofs.Epochs Liftbridge.Proofs.Reconcile Liftbridge.Proofs.Protocol

/-! ### 1. the leader-epoch cache -/

/-- `assign` keeps the cache strictly increasing in epoch and non-decreasing in start offset. -/
theorem assign_keeps_order (c : Epochs) (e : Nat) (o : Int) (h : EpochsOK c) : EpochsOK (c.assign e o) :=
  assign_ok h e o

/-- `ClearLatest` (truncation) keeps it. -/
theorem clearLatest_keeps_order (c : Epochs) (o : Int) (h : EpochsOK c) : EpochsOK (c.clearLatest o) :=
  clearLatest_ok h o

/-- `ClearEarliest` (log open, retention) keeps it. -/
theorem clearEarliest_keeps_order (c : Epochs) (o : Int) (h : EpochsOK c) : EpochsOK (c.clearEarliest o) :=
  clearEarliest_ok h o

/-- On an ordered cache the literal `sort.Search` of `findEpoch` finds the first entry with an
epoch `≥ e` … -/
theorem findEpoch_spec (c : Epochs) (e : Nat) (h : EpochsOK c) :
    c.findEpoch e = c.find? (fun x => decide (e ≤ x.1)) :=
  Proofs.Epochs.findEpoch_spec h e

/-- … so `LastOffsetForLeaderEpoch(e)` of the cache is the start offset recorded for the first
epoch greater than `e`, or the sentinel -1. -/
theorem lastOffsetFor_spec (c : Epochs) (e : Nat) (h : EpochsOK c) :
    c.lastOffsetFor e = match c.find? (fun x => decide (e < x.1)) with
      | some x => x.2
      | none => -1 :=
  Proofs.Epochs.lastOffsetFor_spec h e

/-! ### 2. two conventions for one boundary -/

/-- `NewLeaderEpoch(e)` (election) on a log holding only older epochs records `(e, newest)`: the LAST
offset of the epochs before `e`. -/
theorem elected_convention (l : CLog) (e : Nat) (h : Inv l)
    (hold : ∀ r ∈ l.abs, r.epoch < e) (he : l.epochs.latestEpoch < e) (ho : l.epochs.latestOffset ≤ l.newest)
    (hempty : l.abs = [] → l.newest = -1) :
    (l.newLeaderEpoch e).epochs = l.epochs ++ [(e, l.newest)] ∧ l.newest = lastOffLT l.abs e :=
  newLeaderEpoch_elected h hold he ho hempty

/-- Appending the first record of a newer epoch `e` (replication, or a recovered leader's first
append) records `(e, that record's offset)`: the FIRST offset of epoch `e`. -/
theorem replicated_convention (l l' : CLog) (r : Rec) (offs : List Int) (h : Inv l)
    (hold : ∀ x ∈ l.abs, x.epoch < r.epoch) (he : l.epochs.latestEpoch < r.epoch)
    (ho : l.epochs.latestOffset ≤ r.offset) (ha : l.appendSet [r] = .ok (l', offs)) :
    l'.epochs = l.epochs ++ [(r.epoch, r.offset)] ∧ firstOffGE l'.abs r.epoch = some r.offset :=
  appendSet_replicated h hold he ho ha

def recOf (o : Int) (e mid : Nat) : Rec := { offset := o, ts := (mid : Int) + 1, epoch := e, body := bodyOf mid }

def okLog : Res (CLog × List Int) → CLog
  | .ok (l, _) => l
  | _ => CLog.init 1024 false

/-- A leader that was elected for epoch 1 and then wrote message 0 … -/
def electedLog : CLog :=
  okLog (((CLog.init 1024 false).newLeaderEpoch 1).append [{ ts := 1, epoch := 1, body := bodyOf 0 }])

/-- … and a follower that replicated that very record. -/
def replicatedLog : CLog := okLog ((CLog.init 1024 false).appendSet [recOf 0 1 0])

/-- The two conventions are inconsistent: two logs with IDENTICAL records whose caches differ
(`1@-1` against `1@0`); each satisfies its own convention and violates the other. -/
theorem conventions_inconsistent :
    electedLog.abs = replicatedLog.abs ∧ electedLog.epochs = [(1, -1)] ∧ replicatedLog.epochs = [(1, 0)] ∧
    CacheInvElected electedLog ∧ ¬ CacheInvReplicated electedLog ∧
    CacheInvReplicated replicatedLog ∧ ¬ CacheInvElected replicatedLog := by
  decide +kernel

/-! ### 3. what `Truncate(answer + 1)` does -/

/-- KIP-101, one round, for the ELECTED convention (the strongest true variant of C02 that is
proved): follower log `F = P ++ SF`, leader log `L = P ++ SL` with common prefix `P`; `e` bounds
the epochs of `P` (the follower asks for its last epoch). If (a) whenever the follower has a
suffix of its own the leader's suffix consists of later epochs only, (b) the leader's cache is
ordered and follows the elected convention, (c) it has an entry `p` for the first epoch after `e`
with no records of epochs in between, and (d) the recorded start offset is not the sentinel -1,
then the reconciled follower log is a prefix of the leader's log. -/
theorem C02_partial (F L : CLog) (P SF SL : List Rec) (e : Nat) (p : Nat × Int) (hF : Inv F)
    (hFabs : F.abs = P ++ SF) (hLabs : L.abs = P ++ SL)
    (hPe : ∀ r ∈ P, r.epoch ≤ e) (hdiv : SF ≠ [] → ∀ r ∈ SL, e < r.epoch)
    (hok : EpochsOK L.epochs) (hinv : CacheInvElected L)
    (hp : L.epochs.find? (fun x => decide (e < x.1)) = some p)
    (hgap : ∀ r ∈ L.abs, r.epoch ≤ e ∨ p.1 ≤ r.epoch) (hsent : p.2 ≠ -1) :
    (F.truncate (L.lastOffsetForLeaderEpoch e + 1)).abs <+: L.abs :=
  reconcile_elected_prefix hF hFabs hLabs hPe hdiv hok hinv hp hgap hsent

/-- The follower of the witnesses: message 0 (epoch 1) replicated, message 1 (epoch 1) its own. -/
def followerLog : CLog := okLog ((CLog.init 1024 false).appendSet [recOf 0 1 0, recOf 1 1 1])

/-- A leader of epoch 3 that learned epoch 2 BY REPLICATION (message 2 at offset 1): cache
`1@0, 2@1, 3@1`. -/
def leaderByReplication : CLog :=
  (okLog ((okLog ((CLog.init 1024 false).appendSet [recOf 0 1 0])).appendSet [recOf 1 2 2])).newLeaderEpoch 3

/-- The same records with the boundary of epoch 2 recorded the elected way (`2@0`). -/
def leaderByElection : CLog :=
  { leaderByReplication with epochs := [(1, -1), (2, 0), (3, 1)] }

/-- Under the replicated convention the answer for epoch 1 is 1, the follower truncates to 2 and
KEEPS its own message at offset 1 where the leader holds another one; with the elected entry the
answer is 0 and the result is a prefix of the leader's log. -/
theorem truncate_replicated_keeps_divergent :
    leaderByReplication.lastOffsetForLeaderEpoch 1 = 1 ∧
    ¬ ((followerLog.truncate (leaderByReplication.lastOffsetForLeaderEpoch 1 + 1)).abs <+: leaderByReplication.abs) ∧
    leaderByElection.abs = leaderByReplication.abs ∧ leaderByElection.lastOffsetForLeaderEpoch 1 = 0 ∧
    (followerLog.truncate (leaderByElection.lastOffsetForLeaderEpoch 1 + 1)).abs <+: leaderByElection.abs := by
  decide +kernel

/-- A leader elected for epoch 2 with an EMPTY log (cache `2@-1`) that then wrote message 2. -/
def leaderFromEmpty : CLog :=
  okLog (((CLog.init 1024 false).newLeaderEpoch 2).append [{ ts := 3, epoch := 2, body := bodyOf 2 }])

/-- A follower holding one uncommitted message of epoch 1. -/
def followerOne : CLog := okLog ((CLog.init 1024 false).appendSet [recOf 0 1 0])

/-- The recorded start offset -1 is taken for 'no later epoch': the answer is the log end 0, the
follower keeps its epoch-1 message at offset 0 where the leader holds the epoch-2 message —
hypothesis (d) of `C02_partial` cannot be dropped. -/
theorem truncate_sentinel_keeps_divergent :
    leaderFromEmpty.epochs = [(2, -1)] ∧ CacheInvElected leaderFromEmpty ∧
    leaderFromEmpty.lastOffsetForLeaderEpoch 1 = 0 ∧
    ¬ ((followerOne.truncate (leaderFromEmpty.lastOffsetForLeaderEpoch 1 + 1)).abs <+: leaderFromEmpty.abs) := by
  decide +kernel

/-- The facts about partition.go / replicator.go / commitlog.go the model's glue relies on, as
regenerated from the source on every run: the only assignment to a replica offset is the max-only
update and replica objects are only created by newPartition, AddToISR (-1) and becomeLeader's
missing-self case (-1) — so the offsets survive across this server's terms — OR (after repair
fixes/C04-isr-offsets-reset.diff) there is one more setter, which becomeLeader applies to every
ISR member; `NewLeaderEpoch`
assigns `(epoch, NewestOffset()+0)`, `append` assigns `(entry.LeaderEpoch, entry.Offset)`; the
follower asks for `LastLeaderEpoch()`, the leader answers `LastOffsetForLeaderEpoch(req.LeaderEpoch)`,
the follower truncates to answer+1 and falls back to HW+1; the HW is adopted before the data is
appended; the commit loop sets the HW to the minimum; a recovered leader skips `NewLeaderEpoch`. -/
theorem glue_facts :
    ((Gen.Protocol.offsetAssignSites = ["replica.updateLatestOffset"] ∧ Gen.Protocol.becomeLeaderResetsOffsets = false) ∨
     (Gen.Protocol.offsetAssignSites = ["replica.resetLatestOffset", "replica.updateLatestOffset"] ∧
      Gen.Protocol.becomeLeaderResetsOffsets = true)) ∧
    Gen.Protocol.updateOffsetCmp = .gt ∧
    Gen.Protocol.replicaLiteralSites = ["Server.newPartition:offset", "partition.AddToISR:-1", "partition.becomeLeader:-1"] ∧
    Gen.Protocol.electedAssignEpochArg = "epoch" ∧ Gen.Protocol.electedAssignAddend = 0 ∧
    Gen.Protocol.replicatedAssignEpochArg = "entry.LeaderEpoch" ∧ Gen.Protocol.replicatedAssignOffsetArg = "entry.Offset" ∧
    Gen.Protocol.reconcileUsesLastLeaderEpoch = true ∧ Gen.Protocol.reconcileEpochArg = "leaderEpoch" ∧
    Gen.Protocol.offsetAnswerArg = "req.LeaderEpoch" ∧ Gen.Protocol.truncAddend = 1 ∧
    Gen.Protocol.hwFallback = true ∧ Gen.Protocol.truncHWAddend = 1 ∧ Gen.Protocol.hwBeforeAppend = true ∧
    Gen.Protocol.commitSetsHW = "minLatest" ∧ Gen.Protocol.serveUpdatesOffsetArg = "req.Offset" ∧
    Gen.Protocol.becomeLeaderOwnOffsetArg = "p.log.NewestOffset()" ∧ Gen.Protocol.recoveredSkipsNewEpoch = true := by
  decide

/-! ### 4. the full statement and its negation -/

/-- C02 as stated, over every run of the protocol model from the initial state (`g` = the ghost
history of records that were committed in the sense of the property: at or below the HW of a
leader while every member of the ISR stored them): (a) no committed record is missing or
different in the log of a server that leads in a later epoch; (b) no two replicas hold different
records at an offset at or below both of their HWs. -/
def C02_asStated (c : Cfg) : Prop :=
  ∀ steps st g, grun c (init c) [] steps = some (st, g) → lostCommitted st g = [] ∧ divergedBelowHW st = []

/-- Search witness `epoch-boundary-off-by-one` (corpus/C02): F-C02-a as in DESIGN §6: server 0 leads epoch 1 and crashes with an unreplicated message; server 1 leads epoch 2 (elected: records 2@-1), server 2 learns epoch 2 BY REPLICATION (records 2@0, the first offset), is elected for epoch 3 and answers server 0's reconciliation request one too high: server 0 keeps its epoch-1 message at offset 0 where the others hold the epoch-2 message. -/
def epochBoundaryWitness : List IStep :=
  [.raftCommit (.create 0), .applyNext 0, .publish 0 [{ mid := 0, cid := 100, policy := .all }], .commit 0, .applyNext 1, .offServe 0 0, .reconcile 1 0, .applyNext 2, .offServe 0 0, .reconcile 2 0, .crash 0, .electDecision 1, .raftCommit (.changeLeader 1), .applyNext 1, .publish 1 [{ mid := 1, cid := 101, policy := .all }], .commit 1, .applyNext 2, .offServe 1 0, .reconcile 2 0, .fetch 2, .serve 1 0, .applyResp 2 0, .electDecision 2, .raftCommit (.changeLeader 2), .applyNext 2, .restart 0 3, .offServe 2 0, .reconcile 0 0, .fetch 0, .serve 2 0, .applyResp 0 0, .commit 2, .applyNext 1, .offServe 2 0, .reconcile 1 0, .fetch 1, .serve 2 0, .applyResp 1 0, .commit 2, .fetch 0, .serve 2 0, .applyResp 0 0]

/-- Search witness `epoch-boundary-recovered-leader` (corpus/C02): same root cause, other route: a leader elected while down restarts with `recovered` set, skips `NewLeaderEpoch`, and its cache learns the epoch from its own first `append` (first offset). -/
def recoveredLeaderWitness : List IStep :=
  [.raftCommit (.create 0), .applyNext 0, .publish 0 [{ mid := 0, cid := 100, policy := .all }], .commit 0, .applyNext 1, .offServe 0 0, .reconcile 1 0, .fetch 1, .serve 0 0, .applyResp 1 0, .crash 2, .electDecision 2, .raftCommit (.changeLeader 2), .restart 2 2, .publish 2 [{ mid := 1, cid := 101, policy := .all }], .commit 2, .applyNext 0, .offServe 2 0, .reconcile 0 0, .fetch 0, .serve 2 0, .applyResp 0 0, .commit 2, .applyNext 1, .offServe 2 0, .reconcile 1 0, .fetch 1, .serve 2 0, .applyResp 1 0, .commit 2, .fetch 0, .serve 2 0, .applyResp 0 0]

/-- Search witness `epoch-start-minus-one-sentinel` (corpus/C02): a leader elected with an empty log records its epoch at offset -1; `LastOffsetForLeaderEpoch` reads that -1 as 'no later epoch' and answers the log end. -/
def sentinelWitness : List IStep :=
  [.raftCommit (.create 0), .applyNext 0, .publish 0 [{ mid := 0, cid := 100, policy := .all }], .commit 0, .applyNext 1, .offServe 0 0, .reconcile 1 0, .fetch 1, .serve 0 0, .applyResp 1 0, .applyNext 2, .offServe 0 0, .reconcile 2 0, .electDecision 2, .raftCommit (.changeLeader 2), .applyNext 2, .publish 2 [{ mid := 1, cid := 101, policy := .all }], .commit 2, .applyNext 0, .offServe 2 0, .reconcile 0 0, .fetch 0, .serve 2 0, .applyResp 0 0, .commit 2, .applyNext 1, .offServe 2 0, .reconcile 1 0, .fetch 1, .serve 2 0, .applyResp 1 0, .commit 2, .fetch 0, .serve 2 0, .applyResp 0 0]

/-- Search witness `isr-reentry-stale-caught-up` (corpus/C02): F-C02-c: a replica re-enters the ISR on a stale 'caught up' flag, is elected and lacks a committed message. -/
def isrReentryWitness : List IStep :=
  [.raftCommit (.create 0), .applyNext 0, .shrinkDecision 0 1, .raftCommit (.shrink 1), .applyNext 0, .commit 0, .applyNext 1, .offServe 0 0, .reconcile 1 0, .applyNext 1, .fetch 1, .serve 0 0, .applyResp 1 0, .publish 0 [{ mid := 0, cid := 100, policy := .all }], .commit 0, .applyNext 2, .offServe 0 0, .reconcile 2 0, .fetch 2, .serve 0 0, .applyResp 2 0, .fetch 2, .serve 0 0, .applyResp 2 0, .commit 0, .expandDecision 0 1, .raftCommit (.expand 1), .applyNext 1, .electDecision 1, .raftCommit (.changeLeader 1), .applyNext 1]

/-- Search witness `hw-fallback-truncation` (corpus/C02): F-C02-d: followers apply the leader change before the new leader does, the leader-offset RPC finds nobody, they truncate to their own (lagging) HW; one of them is elected next. -/
def hwFallbackWitness : List IStep :=
  [.raftCommit (.create 0), .applyNext 0, .publish 0 [{ mid := 0, cid := 100, policy := .all }], .commit 0, .applyNext 1, .offServe 0 0, .reconcile 1 0, .fetch 1, .serve 0 0, .applyResp 1 0, .fetch 1, .serve 0 0, .applyResp 1 0, .commit 0, .applyNext 2, .offServe 0 0, .reconcile 2 0, .fetch 2, .serve 0 0, .applyResp 2 0, .fetch 2, .serve 0 0, .applyResp 2 0, .commit 0, .electDecision 1, .raftCommit (.changeLeader 1), .applyNext 0, .reconcileFail 0, .applyNext 2, .reconcileFail 2, .electDecision 2, .raftCommit (.changeLeader 2), .applyNext 2]

/-- Search witness `reconcile-answered-by-stale-leader` (corpus/C02): the leader-offset request of a follower of the NEW leader is answered by the deposed leader, which still leads in its own view. -/
def staleLeaderWitness : List IStep :=
  [.raftCommit (.create 0), .applyNext 0, .publish 0 [{ mid := 0, cid := 100, policy := .all }], .commit 0, .applyNext 1, .offServe 0 0, .reconcile 1 0, .fetch 1, .serve 0 0, .applyResp 1 0, .applyNext 2, .offServe 0 0, .reconcile 2 0, .electDecision 2, .raftCommit (.changeLeader 2), .applyNext 1, .offServe 0 0, .reconcile 1 0, .applyNext 2, .applyNext 0, .offServe 2 0, .reconcile 0 0, .fetch 1, .serve 2 0, .applyResp 1 0, .commit 2, .publish 2 [{ mid := 1, cid := 101, policy := .all }], .commit 2, .fetch 0, .serve 2 0, .applyResp 0 0, .fetch 0, .serve 2 0, .applyResp 0 0, .commit 2, .fetch 1, .serve 2 0, .applyResp 1 0]

/-- Search witness `reconcile-epoch-unknown-to-leader` (corpus/C02): one-round reconciliation: the leader (elected while down, restarted) never saw the follower's last epoch and answers its log end. -/
def unknownEpochWitness : List IStep :=
  [.raftCommit (.create 0), .applyNext 0, .publish 0 [{ mid := 0, cid := 100, policy := .all }], .commit 0, .shrinkDecision 0 1, .raftCommit (.shrink 1), .applyNext 2, .offServe 0 0, .reconcile 2 0, .crash 0, .applyNext 2, .electDecision 2, .raftCommit (.changeLeader 2), .applyNext 2, .publish 2 [{ mid := 1, cid := 101, policy := .all }], .commit 2, .electDecision 0, .raftCommit (.changeLeader 0), .restart 0 4, .applyNext 2, .offServe 0 0, .reconcile 2 0, .fetch 2, .serve 0 0, .applyResp 2 0, .commit 0, .fetch 2, .serve 0 0, .applyResp 2 0]

/-- Search witness `check-then-propose-race` (corpus/C02): F-C07-c seen from C02: a ChangeLeader proposed before, committed after, a ShrinkISR of the same replica. -/
def proposeRaceWitness : List IStep :=
  [.raftCommit (.create 0), .applyNext 0, .publish 0 [{ mid := 0, cid := 100, policy := .all }], .commit 0, .shrinkDecision 0 1, .applyNext 1, .offServe 0 0, .reconcile 1 0, .applyNext 2, .offServe 0 0, .reconcile 2 0, .fetch 2, .serve 0 0, .applyResp 2 0, .fetch 2, .serve 0 0, .applyResp 2 0, .commit 0, .electDecision 1, .raftCommit (.shrink 1), .applyNext 0, .commit 0, .applyNext 1, .raftCommit (.changeLeader 1), .applyNext 1]

/-- The epoch-boundary witness ends in a state where two replicas differ below both HWs. -/
theorem epochBoundary_violates : unsafeCount {} epochBoundaryWitness = some (0, 1) := by decide +kernel
theorem recoveredLeader_violates : unsafeCount {} recoveredLeaderWitness = some (0, 1) := by decide +kernel
theorem sentinel_violates : unsafeCount {} sentinelWitness = some (0, 1) := by decide +kernel
/-- … a committed record is missing in the log of the later leader. -/
theorem isrReentry_violates : unsafeCount {} isrReentryWitness = some (1, 0) := by decide +kernel
theorem hwFallback_violates : unsafeCount {} hwFallbackWitness = some (1, 0) := by decide +kernel
theorem staleLeader_violates : unsafeCount {} staleLeaderWitness = some (0, 1) := by decide +kernel
theorem unknownEpoch_violates : unsafeCount {} unknownEpochWitness = some (0, 1) := by decide +kernel
theorem proposeRace_violates : unsafeCount {} proposeRaceWitness = some (1, 0) := by decide +kernel

/-- C02 as stated does not hold for the protocol as it is. -/
theorem C02_asStated_false : ¬ C02_asStated {} := by
  intro hall
  have h := epochBoundary_violates
  simp only [unsafeCount, Option.map_eq_some_iff] at h
  obtain ⟨⟨st, g⟩, hrun, hcount⟩ := h
  obtain ⟨steps, hsteps⟩ := igrun_grun {} _ _ _ _ hrun
  have := (hall steps st g hsteps).2
  simp only [Prod.mk.injEq] at hcount
  rw [this] at hcount
  simp at hcount

/-- Attribution: the same runs, replayed leniently (steps that a repair disables are skipped) in
the model variant with the SINGLE repair of the respective root cause, show no violation. -/
theorem witnesses_repaired :
    (let c : Cfg := { fixes := { epochBoundary := true } }; replayLenient c (init c) [] [] epochBoundaryWitness = []) ∧
    (let c : Cfg := { fixes := { epochBoundary := true } }; replayLenient c (init c) [] [] recoveredLeaderWitness = []) ∧
    (let c : Cfg := { fixes := { sentinel := true } }; replayLenient c (init c) [] [] sentinelWitness = []) ∧
    (let c : Cfg := { fixes := { expandNow := true } }; replayLenient c (init c) [] [] isrReentryWitness = []) ∧
    (let c : Cfg := { fixes := { noFallback := true } }; replayLenient c (init c) [] [] hwFallbackWitness = []) ∧
    (let c : Cfg := { fixes := { fenceOffset := true } }; replayLenient c (init c) [] [] staleLeaderWitness = []) ∧
    (let c : Cfg := { fixes := { kip101 := true } }; replayLenient c (init c) [] [] unknownEpochWitness = []) ∧
    (let c : Cfg := { fixes := { atomicPropose := true } }; replayLenient c (init c) [] [] proposeRaceWitness = []) := by
  decide +kernel

/-! ### the leader's view within one term -/

/-- Within a leadership term the leader's view is sound: if every recorded offset `isrOff r = v`
is at most the newest offset of replica `r`'s log (and the in-flight requests, responses and the
logs are well-formed: `TermInv`), this stays so after every step that neither changes a role nor
truncates a log (publish, fetch, serve, apply, commit, message loss, ISR decisions, proposals and
Raft commits). It holds initially (`termInv_init`); `becomeLeader` of a server that led before
does NOT re-establish it (C04 `isrOff_unsound_across_terms`), nor does a HW-fallback truncation. -/
theorem leader_view_sound_within_term (c : Cfg) (steps : List Step) (st st' : State) (J : TermInv st)
    (hin : ∀ s ∈ steps, InTerm s) (h : run c st steps = some st') :
    TermInv st' ∧ ∀ l sv, st'.get l = some sv → ∀ r v, lookup sv.isrOff r = some v →
      ∃ sr, st'.get r = some sr ∧ v ≤ sr.log.newest := by
  have J' := termInv_run c steps st st' J hin h
  exact ⟨J', J'.offs⟩

/-! ### non-vacuity -/

example : EpochsOK ([(1, -1), (2, 0), (3, 1)] : Epochs) := by
  unfold EpochsOK; decide

example : (Epochs.lastOffsetFor [(1, -1), (2, 0), (3, 1)] 1, Epochs.lastOffsetFor [(1, -1), (2, 0), (3, 1)] 3) = (0, -1) := by
  decide +kernel

/-- The hypotheses of `C02_partial` are satisfiable: the elected leader of the example above. -/
example : (followerLog.truncate (leaderByElection.lastOffsetForLeaderEpoch 1 + 1)).abs = [recOf 0 1 0] := by
  decide +kernel

/-- `TermInv` holds initially for every configuration with a positive segment size. -/
example : TermInv (init {}) := termInv_init {} (by decide)

end Liftbridge.Props.C02
