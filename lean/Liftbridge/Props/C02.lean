/-
C02 — Committed messages survive leader changes; replicas never diverge below the HW.

Model: `Liftbridge/Model/Protocol.lean` (the replication protocol of one partition AS THE CODE IS)
on top of the commit-log model `Liftbridge/Model/Log.lean`. Layering (IronFleet style, DESIGN §4):

 1. the leader-epoch cache keeps its order invariant under every mutator and its binary-search
    lookups meet their specification (`assign_keeps_order` … `lastOffsetFor_spec`);
 2. the commit log records an epoch boundary in TWO ways — `NewLeaderEpoch` the last offset of the
    old epoch (`elected_convention`), `append` the first offset of the new one
    (`replicated_convention`) — which are inconsistent (`conventions_inconsistent`);
 3. the follower's `Truncate(answer + 1)` leaves a prefix of the leader's log under the elected
    convention (`C02_partial`, the KIP-101 lemma, with every hypothesis it needs spelled out) and
    keeps a divergent record under the replicated one (`truncate_replicated_keeps_divergent`) or
    when the recorded start offset is the sentinel -1 (`truncate_sentinel_keeps_divergent`);
 4. a global induction over all reachable states of the protocol is NOT done. The full statement
    is `C02_asStated`; it is FALSE for the code as it is (`C02_asStated_false`): the explicit-state
    search `Search/Protocol.lean` finds violating runs for eight distinct root causes, each
    replayed here by kernel evaluation (`*_violates`), each disappearing under the single repair
    of its root cause (`*_repaired`), and each replayed on real commit logs by the harness.
 5. who may be elected, and which fetches count (sections 5 and 6 below): `replicator.tick` re-admits a
    replica to the ISR only if it was CAUGHT UP (its fetch offset reached the leader's log end) within
    max lag time — `expand_only_caught_up`, through the regenerated decision `Gen.Protocol.tickOutOfSync`
    (connective and both comparison operators), the regenerated (outOfSync, inISR) action table and the
    regenerated refresh rule of `lastCaughtUp`; within a term such a replica really stores the log up to
    that offset (`isr_reentry_sound_within_term`); the controller elects from its ISR only, which grows
    only by committed expand proposals, which only `tick` makes. A follower's fetch carries the term it
    follows (regenerated struct literal of `sendReplicationRequest`), that term is never 0, and a leader
    of another term ignores it entirely (`stale_term_fetch_never_counts`, through the regenerated
    rejection rule of `handleReplicationRequest`).
-/
import Liftbridge.Model.Protocol
import Liftbridge.Proofs.Epochs
import Liftbridge.Proofs.Reconcile
import Liftbridge.Proofs.Protocol
import Liftbridge.Proofs.ProtocolInv
import Liftbridge.Proofs.ProtocolIsr

namespace Liftbridge.Props.C02
open Liftbridge Liftbridge.Log Liftbridge.Log.CLog Liftbridge.Protocol
open Liftbridge.Proofs.Log Liftbridge.Proofs.Epochs Liftbridge.Proofs.Reconcile Liftbridge.Proofs.Protocol

/-! ### 1. the leader-epoch cache -/

/-- `assign` keeps the cache strictly increasing in epoch and non-decreasing in start offset. -/
theorem assign_keeps_order (c : Epochs) (e : Nat) (o : Int) (h : EpochsOK c) : EpochsOK (c.assign e o) :=
  assign_ok h e o

/-- `ClearLatest` (truncation) keeps it. -/
theorem clearLatest_keeps_order (c : Epochs) (o : Int) (h : EpochsOK c) : EpochsOK (c.clearLatest o) :=
  clearLatest_ok h o

/-- `ClearEarliest` (log open, retention) keeps it. -/
theorem clearEarliest_keeps_order (c : Epochs) (o : Int) (h : EpochsOK c) : EpochsOK (c.clearEarliest o) :=
  clearEarliest_ok h o

/-- On an ordered cache the literal `sort.Search` of `findEpoch` finds the first entry with an
epoch `≥ e` … -/
theorem findEpoch_spec (c : Epochs) (e : Nat) (h : EpochsOK c) :
    c.findEpoch e = c.find? (fun x => decide (e ≤ x.1)) :=
  Proofs.Epochs.findEpoch_spec h e

/-- … so `LastOffsetForLeaderEpoch(e)` of the cache is the start offset recorded for the first
epoch greater than `e`, or the sentinel -1. -/
theorem lastOffsetFor_spec (c : Epochs) (e : Nat) (h : EpochsOK c) :
    c.lastOffsetFor e = match c.find? (fun x => decide (e < x.1)) with
      | some x => x.2
      | none => -1 :=
  Proofs.Epochs.lastOffsetFor_spec h e

/-! ### 2. two conventions for one boundary -/

/-- `NewLeaderEpoch(e)` (election) on a log holding only older epochs records `(e, newest)`: the LAST
offset of the epochs before `e`. -/
theorem elected_convention (l : CLog) (e : Nat) (h : Inv l)
    (hold : ∀ r ∈ l.abs, r.epoch < e) (he : l.epochs.latestEpoch < e) (ho : l.epochs.latestOffset ≤ l.newest)
    (hempty : l.abs = [] → l.newest = -1) :
    (l.newLeaderEpoch e).epochs = l.epochs ++ [(e, l.newest)] ∧ l.newest = lastOffLT l.abs e :=
  newLeaderEpoch_elected h hold he ho hempty

/-- Appending the first record of a newer epoch `e` (replication, or a recovered leader's first
append) records `(e, that record's offset)`: the FIRST offset of epoch `e`. -/
theorem replicated_convention (l l' : CLog) (r : Rec) (offs : List Int) (h : Inv l)
    (hold : ∀ x ∈ l.abs, x.epoch < r.epoch) (he : l.epochs.latestEpoch < r.epoch)
    (ho : l.epochs.latestOffset ≤ r.offset) (ha : l.appendSet [r] = .ok (l', offs)) :
    l'.epochs = l.epochs ++ [(r.epoch, r.offset)] ∧ firstOffGE l'.abs r.epoch = some r.offset :=
  appendSet_replicated h hold he ho ha

def recOf (o : Int) (e mid : Nat) : Rec := { offset := o, ts := (mid : Int) + 1, epoch := e, body := bodyOf mid }

def okLog : Res (CLog × List Int) → CLog
  | .ok (l, _) => l
  | _ => CLog.init 1024 false

/-- A leader that was elected for epoch 1 and then wrote message 0 … -/
def electedLog : CLog :=
  okLog (((CLog.init 1024 false).newLeaderEpoch 1).append [{ ts := 1, epoch := 1, body := bodyOf 0 }])

/-- … and a follower that replicated that very record. -/
def replicatedLog : CLog := okLog ((CLog.init 1024 false).appendSet [recOf 0 1 0])

/-- The two conventions are inconsistent: two logs with IDENTICAL records whose caches differ
(`1@-1` against `1@0`); each satisfies its own convention and violates the other. -/
theorem conventions_inconsistent :
    electedLog.abs = replicatedLog.abs ∧ electedLog.epochs = [(1, -1)] ∧ replicatedLog.epochs = [(1, 0)] ∧
    CacheInvElected electedLog ∧ ¬ CacheInvReplicated electedLog ∧
    CacheInvReplicated replicatedLog ∧ ¬ CacheInvElected replicatedLog := by
  decide +kernel

/-! ### 3. what `Truncate(answer + 1)` does -/

/-- KIP-101, one round, for the ELECTED convention (the strongest true variant of C02 that is
proved): follower log `F = P ++ SF`, leader log `L = P ++ SL` with common prefix `P`; `e` bounds
the epochs of `P` (the follower asks for its last epoch). If (a) whenever the follower has a
suffix of its own the leader's suffix consists of later epochs only, (b) the leader's cache is
ordered and follows the elected convention, (c) it has an entry `p` for the first epoch after `e`
with no records of epochs in between, and (d) the recorded start offset is not the sentinel -1,
then the reconciled follower log is a prefix of the leader's log. -/
theorem C02_partial (F L : CLog) (P SF SL : List Rec) (e : Nat) (p : Nat × Int) (hF : Inv F)
    (hFabs : F.abs = P ++ SF) (hLabs : L.abs = P ++ SL)
    (hPe : ∀ r ∈ P, r.epoch ≤ e) (hdiv : SF ≠ [] → ∀ r ∈ SL, e < r.epoch)
    (hok : EpochsOK L.epochs) (hinv : CacheInvElected L)
    (hp : L.epochs.find? (fun x => decide (e < x.1)) = some p)
    (hgap : ∀ r ∈ L.abs, r.epoch ≤ e ∨ p.1 ≤ r.epoch) (hsent : p.2 ≠ -1) :
    (F.truncate (L.lastOffsetForLeaderEpoch e + 1)).abs <+: L.abs :=
  reconcile_elected_prefix hF hFabs hLabs hPe hdiv hok hinv hp hgap hsent

/-- The follower of the witnesses: message 0 (epoch 1) replicated, message 1 (epoch 1) its own. -/
def followerLog : CLog := okLog ((CLog.init 1024 false).appendSet [recOf 0 1 0, recOf 1 1 1])

/-- A leader of epoch 3 that learned epoch 2 BY REPLICATION (message 2 at offset 1): cache
`1@0, 2@1, 3@1`. -/
def leaderByReplication : CLog :=
  (okLog ((okLog ((CLog.init 1024 false).appendSet [recOf 0 1 0])).appendSet [recOf 1 2 2])).newLeaderEpoch 3

/-- The same records with the boundary of epoch 2 recorded the elected way (`2@0`). -/
def leaderByElection : CLog :=
  { leaderByReplication with epochs := [(1, -1), (2, 0), (3, 1)] }

/-- Under the replicated convention the answer for epoch 1 is 1, the follower truncates to 2 and
KEEPS its own message at offset 1 where the leader holds another one; with the elected entry the
answer is 0 and the result is a prefix of the leader's log. -/
theorem truncate_replicated_keeps_divergent :
    leaderByReplication.lastOffsetForLeaderEpoch 1 = 1 ∧
    ¬ ((followerLog.truncate (leaderByReplication.lastOffsetForLeaderEpoch 1 + 1)).abs <+: leaderByReplication.abs) ∧
    leaderByElection.abs = leaderByReplication.abs ∧ leaderByElection.lastOffsetForLeaderEpoch 1 = 0 ∧
    (followerLog.truncate (leaderByElection.lastOffsetForLeaderEpoch 1 + 1)).abs <+: leaderByElection.abs := by
  decide +kernel

/-- A leader elected for epoch 2 with an EMPTY log (cache `2@-1`) that then wrote message 2. -/
def leaderFromEmpty : CLog :=
  okLog (((CLog.init 1024 false).newLeaderEpoch 2).append [{ ts := 3, epoch := 2, body := bodyOf 2 }])

/-- A follower holding one uncommitted message of epoch 1. -/
def followerOne : CLog := okLog ((CLog.init 1024 false).appendSet [recOf 0 1 0])

/-- The recorded start offset -1 is taken for 'no later epoch': the answer is the log end 0, the
follower keeps its epoch-1 message at offset 0 where the leader holds the epoch-2 message —
hypothesis (d) of `C02_partial` cannot be dropped. -/
theorem truncate_sentinel_keeps_divergent :
    leaderFromEmpty.epochs = [(2, -1)] ∧ CacheInvElected leaderFromEmpty ∧
    leaderFromEmpty.lastOffsetForLeaderEpoch 1 = 0 ∧
    ¬ ((followerOne.truncate (leaderFromEmpty.lastOffsetForLeaderEpoch 1 + 1)).abs <+: leaderFromEmpty.abs) := by
  decide +kernel

/-- The facts about partition.go / replicator.go / commitlog.go the model's glue relies on, as
regenerated from the source on every run: the only assignment to a replica offset is the max-only
update and replica objects are only created by newPartition, AddToISR (-1) and becomeLeader's
missing-self case (-1) — so the offsets survive across this server's terms — OR (after repair
fixes/C04-isr-offsets-reset.diff) there is one more setter, which becomeLeader applies to every
ISR member; `NewLeaderEpoch`
assigns `(epoch, NewestOffset()+0)`, `append` assigns `(entry.LeaderEpoch, entry.Offset)`; the
follower asks for `LastLeaderEpoch()`, the leader answers `LastOffsetForLeaderEpoch(req.LeaderEpoch)`,
the follower truncates to answer+1 and falls back to HW+1; the HW is adopted before the data is
appended; the commit loop sets the HW to the minimum; a recovered leader skips `NewLeaderEpoch`. -/
theorem glue_facts :
    ((Gen.Protocol.offsetAssignSites = ["replica.updateLatestOffset"] ∧ Gen.Protocol.becomeLeaderResetsOffsets = false) ∨
     (Gen.Protocol.offsetAssignSites = ["replica.resetLatestOffset", "replica.updateLatestOffset"] ∧
      Gen.Protocol.becomeLeaderResetsOffsets = true)) ∧
    Gen.Protocol.updateOffsetCmp = .gt ∧
    Gen.Protocol.replicaLiteralSites = ["Server.newPartition:offset", "partition.AddToISR:-1", "partition.becomeLeader:-1"] ∧
    Gen.Protocol.electedAssignEpochArg = "epoch" ∧ Gen.Protocol.electedAssignAddend = 0 ∧
    Gen.Protocol.replicatedAssignEpochArg = "entry.LeaderEpoch" ∧ Gen.Protocol.replicatedAssignOffsetArg = "entry.Offset" ∧
    Gen.Protocol.reconcileUsesLastLeaderEpoch = true ∧ Gen.Protocol.reconcileEpochArg = "leaderEpoch" ∧
    Gen.Protocol.offsetAnswerArg = "req.LeaderEpoch" ∧ Gen.Protocol.truncAddend = 1 ∧
    Gen.Protocol.hwFallback = true ∧ Gen.Protocol.truncHWAddend = 1 ∧ Gen.Protocol.hwBeforeAppend = true ∧
    Gen.Protocol.commitSetsHW = "minLatest" ∧ Gen.Protocol.serveUpdatesOffsetArg = "req.Offset" ∧
    Gen.Protocol.becomeLeaderOwnOffsetArg = "p.log.NewestOffset()" ∧ Gen.Protocol.recoveredSkipsNewEpoch = true := by
  decide

/-! ### 4. the full statement and its negation -/

/-- C02 as stated, over every run of the protocol model from the initial state (`g` = the ghost
history of records that were committed in the sense of the property: at or below the HW of a
leader while every member of the ISR stored them): (a) no committed record is missing or
different in the log of a server that leads in a later epoch; (b) no two replicas hold different
records at an offset at or below both of their HWs. -/
def C02_asStated (c : Cfg) : Prop :=
  ∀ steps st g, grun c (init c) [] steps = some (st, g) → lostCommitted st g = [] ∧ divergedBelowHW st = []

/-- Search witness `epoch-boundary-off-by-one` (corpus/C02): F-C02-a as in DESIGN §6: server 0 leads epoch 1 and crashes with an unreplicated message; server 1 leads epoch 2 (elected: records 2@-1), server 2 learns epoch 2 BY REPLICATION (records 2@0, the first offset), is elected for epoch 3 and answers server 0's reconciliation request one too high: server 0 keeps its epoch-1 message at offset 0 where the others hold the epoch-2 message. -/
def epochBoundaryWitness : List IStep :=
  [.raftCommit (.create 0), .applyNext 0, .publish 0 [{ mid := 0, cid := 100, policy := .all }], .commit 0, .applyNext 1, .offServe 0 0, .reconcile 1 0, .applyNext 2, .offServe 0 0, .reconcile 2 0, .crash 0, .electDecision 1, .raftCommit (.changeLeader 1), .applyNext 1, .publish 1 [{ mid := 1, cid := 101, policy := .all }], .commit 1, .applyNext 2, .offServe 1 0, .reconcile 2 0, .fetch 2, .serve 1 0, .applyResp 2 0, .electDecision 2, .raftCommit (.changeLeader 2), .applyNext 2, .restart 0 3, .offServe 2 0, .reconcile 0 0, .fetch 0, .serve 2 0, .applyResp 0 0, .commit 2, .applyNext 1, .offServe 2 0, .reconcile 1 0, .fetch 1, .serve 2 0, .applyResp 1 0, .commit 2, .fetch 0, .serve 2 0, .applyResp 0 0]

/-- Search witness `epoch-boundary-recovered-leader` (corpus/C02): same root cause, other route: a leader elected while down restarts with `recovered` set, skips `NewLeaderEpoch`, and its cache learns the epoch from its own first `append` (first offset). -/
def recoveredLeaderWitness : List IStep :=
  [.raftCommit (.create 0), .applyNext 0, .publish 0 [{ mid := 0, cid := 100, policy := .all }], .commit 0, .applyNext 1, .offServe 0 0, .reconcile 1 0, .fetch 1, .serve 0 0, .applyResp 1 0, .crash 2, .electDecision 2, .raftCommit (.changeLeader 2), .restart 2 2, .publish 2 [{ mid := 1, cid := 101, policy := .all }], .commit 2, .applyNext 0, .offServe 2 0, .reconcile 0 0, .fetch 0, .serve 2 0, .applyResp 0 0, .commit 2, .applyNext 1, .offServe 2 0, .reconcile 1 0, .fetch 1, .serve 2 0, .applyResp 1 0, .commit 2, .fetch 0, .serve 2 0, .applyResp 0 0]

/-- Search witness `epoch-start-minus-one-sentinel` (corpus/C02): a leader elected with an empty log records its epoch at offset -1; `LastOffsetForLeaderEpoch` reads that -1 as 'no later epoch' and answers the log end. -/
def sentinelWitness : List IStep :=
  [.raftCommit (.create 0), .applyNext 0, .publish 0 [{ mid := 0, cid := 100, policy := .all }], .commit 0, .applyNext 1, .offServe 0 0, .reconcile 1 0, .fetch 1, .serve 0 0, .applyResp 1 0, .applyNext 2, .offServe 0 0, .reconcile 2 0, .electDecision 2, .raftCommit (.changeLeader 2), .applyNext 2, .publish 2 [{ mid := 1, cid := 101, policy := .all }], .commit 2, .applyNext 0, .offServe 2 0, .reconcile 0 0, .fetch 0, .serve 2 0, .applyResp 0 0, .commit 2, .applyNext 1, .offServe 2 0, .reconcile 1 0, .fetch 1, .serve 2 0, .applyResp 1 0, .commit 2, .fetch 0, .serve 2 0, .applyResp 0 0]

/-- Search witness `isr-reentry-stale-caught-up` (corpus/C02): F-C02-c: a replica re-enters the ISR on a stale 'caught up' flag, is elected and lacks a committed message. -/
def isrReentryWitness : List IStep :=
  [.raftCommit (.create 0), .applyNext 0, .shrinkDecision 0 1, .raftCommit (.shrink 1), .applyNext 0, .commit 0, .applyNext 1, .offServe 0 0, .reconcile 1 0, .applyNext 1, .fetch 1, .serve 0 0, .applyResp 1 0, .publish 0 [{ mid := 0, cid := 100, policy := .all }], .commit 0, .applyNext 2, .offServe 0 0, .reconcile 2 0, .fetch 2, .serve 0 0, .applyResp 2 0, .fetch 2, .serve 0 0, .applyResp 2 0, .commit 0, .expandDecision 0 1, .raftCommit (.expand 1), .applyNext 1, .electDecision 1, .raftCommit (.changeLeader 1), .applyNext 1]

/-- Search witness `hw-fallback-truncation` (corpus/C02): F-C02-d: followers apply the leader change before the new leader does, the leader-offset RPC finds nobody, they truncate to their own (lagging) HW; one of them is elected next. -/
def hwFallbackWitness : List IStep :=
  [.raftCommit (.create 0), .applyNext 0, .publish 0 [{ mid := 0, cid := 100, policy := .all }], .commit 0, .applyNext 1, .offServe 0 0, .reconcile 1 0, .fetch 1, .serve 0 0, .applyResp 1 0, .fetch 1, .serve 0 0, .applyResp 1 0, .commit 0, .applyNext 2, .offServe 0 0, .reconcile 2 0, .fetch 2, .serve 0 0, .applyResp 2 0, .fetch 2, .serve 0 0, .applyResp 2 0, .commit 0, .electDecision 1, .raftCommit (.changeLeader 1), .applyNext 0, .reconcileFail 0, .applyNext 2, .reconcileFail 2, .electDecision 2, .raftCommit (.changeLeader 2), .applyNext 2]

/-- Search witness `reconcile-answered-by-stale-leader` (corpus/C02): the leader-offset request of a follower of the NEW leader is answered by the deposed leader, which still leads in its own view. -/
def staleLeaderWitness : List IStep :=
  [.raftCommit (.create 0), .applyNext 0, .publish 0 [{ mid := 0, cid := 100, policy := .all }], .commit 0, .applyNext 1, .offServe 0 0, .reconcile 1 0, .fetch 1, .serve 0 0, .applyResp 1 0, .applyNext 2, .offServe 0 0, .reconcile 2 0, .electDecision 2, .raftCommit (.changeLeader 2), .applyNext 1, .offServe 0 0, .reconcile 1 0, .applyNext 2, .applyNext 0, .offServe 2 0, .reconcile 0 0, .fetch 1, .serve 2 0, .applyResp 1 0, .commit 2, .publish 2 [{ mid := 1, cid := 101, policy := .all }], .commit 2, .fetch 0, .serve 2 0, .applyResp 0 0, .fetch 0, .serve 2 0, .applyResp 0 0, .commit 2, .fetch 1, .serve 2 0, .applyResp 1 0]

/-- Search witness `reconcile-epoch-unknown-to-leader` (corpus/C02): one-round reconciliation: the leader (elected while down, restarted) never saw the follower's last epoch and answers its log end. -/
def unknownEpochWitness : List IStep :=
  [.raftCommit (.create 0), .applyNext 0, .publish 0 [{ mid := 0, cid := 100, policy := .all }], .commit 0, .shrinkDecision 0 1, .raftCommit (.shrink 1), .applyNext 2, .offServe 0 0, .reconcile 2 0, .crash 0, .applyNext 2, .electDecision 2, .raftCommit (.changeLeader 2), .applyNext 2, .publish 2 [{ mid := 1, cid := 101, policy := .all }], .commit 2, .electDecision 0, .raftCommit (.changeLeader 0), .restart 0 4, .applyNext 2, .offServe 0 0, .reconcile 2 0, .fetch 2, .serve 0 0, .applyResp 2 0, .commit 0, .fetch 2, .serve 0 0, .applyResp 2 0]

/-- Search witness `check-then-propose-race` (corpus/C02): F-C07-c seen from C02: a ChangeLeader proposed before, committed after, a ShrinkISR of the same replica. -/
def proposeRaceWitness : List IStep :=
  [.raftCommit (.create 0), .applyNext 0, .publish 0 [{ mid := 0, cid := 100, policy := .all }], .commit 0, .shrinkDecision 0 1, .applyNext 1, .offServe 0 0, .reconcile 1 0, .applyNext 2, .offServe 0 0, .reconcile 2 0, .fetch 2, .serve 0 0, .applyResp 2 0, .fetch 2, .serve 0 0, .applyResp 2 0, .commit 0, .electDecision 1, .raftCommit (.shrink 1), .applyNext 0, .commit 0, .applyNext 1, .raftCommit (.changeLeader 1), .applyNext 1]

/-- The epoch-boundary witness ends in a state where two replicas differ below both HWs. -/
theorem epochBoundary_violates : unsafeCount {} epochBoundaryWitness = some (0, 1) := by decide +kernel
theorem recoveredLeader_violates : unsafeCount {} recoveredLeaderWitness = some (0, 1) := by decide +kernel
theorem sentinel_violates : unsafeCount {} sentinelWitness = some (0, 1) := by decide +kernel
/-- … a committed record is missing in the log of the later leader. -/
theorem isrReentry_violates : unsafeCount {} isrReentryWitness = some (1, 0) := by decide +kernel
theorem hwFallback_violates : unsafeCount {} hwFallbackWitness = some (1, 0) := by decide +kernel
theorem staleLeader_violates : unsafeCount {} staleLeaderWitness = some (0, 1) := by decide +kernel
theorem unknownEpoch_violates : unsafeCount {} unknownEpochWitness = some (0, 1) := by decide +kernel
theorem proposeRace_violates : unsafeCount {} proposeRaceWitness = some (1, 0) := by decide +kernel

/-- C02 as stated does not hold for the protocol as it is. -/
theorem C02_asStated_false : ¬ C02_asStated {} := by
  intro hall
  have h := epochBoundary_violates
  simp only [unsafeCount, Option.map_eq_some_iff] at h
  obtain ⟨⟨st, g⟩, hrun, hcount⟩ := h
  obtain ⟨steps, hsteps⟩ := igrun_grun {} _ _ _ _ hrun
  have := (hall steps st g hsteps).2
  simp only [Prod.mk.injEq] at hcount
  rw [this] at hcount
  simp at hcount

/-- Attribution: the same runs, replayed leniently (steps that a repair disables are skipped) in
the model variant with the SINGLE repair of the respective root cause, show no violation. -/
theorem witnesses_repaired :
    (let c : Cfg := { fixes := { epochBoundary := true } }; replayLenient c (init c) [] [] epochBoundaryWitness = []) ∧
    (let c : Cfg := { fixes := { epochBoundary := true } }; replayLenient c (init c) [] [] recoveredLeaderWitness = []) ∧
    (let c : Cfg := { fixes := { sentinel := true } }; replayLenient c (init c) [] [] sentinelWitness = []) ∧
    (let c : Cfg := { fixes := { expandNow := true } }; replayLenient c (init c) [] [] isrReentryWitness = []) ∧
    (let c : Cfg := { fixes := { noFallback := true } }; replayLenient c (init c) [] [] hwFallbackWitness = []) ∧
    (let c : Cfg := { fixes := { fenceOffset := true } }; replayLenient c (init c) [] [] staleLeaderWitness = []) ∧
    (let c : Cfg := { fixes := { kip101 := true } }; replayLenient c (init c) [] [] unknownEpochWitness = []) ∧
    (let c : Cfg := { fixes := { atomicPropose := true } }; replayLenient c (init c) [] [] proposeRaceWitness = []) := by
  decide +kernel

/-! ### the leader's view within one term -/

/-- Within a leadership term the leader's view is sound: if every recorded offset `isrOff r = v`
is at most the newest offset of replica `r`'s log (and the in-flight requests, responses and the
logs are well-formed: `TermInv`), this stays so after every step that neither changes a role nor
truncates a log (publish, fetch, serve, apply, commit, message loss, ISR decisions, proposals and
Raft commits). It holds initially (`termInv_init`); `becomeLeader` of a server that led before
does NOT re-establish it (C04 `isrOff_unsound_across_terms`), nor does a HW-fallback truncation. -/
theorem leader_view_sound_within_term (c : Cfg) (steps : List Step) (st st' : State) (J : TermInv st)
    (hin : ∀ s ∈ steps, InTerm s) (h : run c st steps = some st') :
    TermInv st' ∧ ∀ l sv, st'.get l = some sv → ∀ r v, lookup sv.isrOff r = some v →
      ∃ sr, st'.get r = some sr ∧ v ≤ sr.log.newest := by
  have J' := termInv_run c steps st st' J hin h
  exact ⟨J', J'.offs⟩

/-! ### 5. ISR membership as `replicator.tick` decides it -/

/-- The facts about replicator.go / partition.go sections 5 and 6 rely on, as regenerated on every
run: `outOfSync := lastSeenElapsed > maxLagTime || lastCaughtUpElapsed > maxLagTime` (both elapsed
times measured from `r.lastSeen` / `r.lastCaughtUp`); `tick` calls `shrinkISR()` exactly for
(outOfSync, inISR) and `expandISR()` exactly for (¬outOfSync, ¬inISR); `r.lastSeen` is set by every
request (and at start), `r.lastCaughtUp` only by `r.caughtUp` (and at start), which `start` calls only
under `if req.Offset >= latest` with `latest = r.partition.log.NewestOffset()`; the follower's request
carries ReplicaID, Offset = `p.log.NewestOffset()` and LeaderEpoch = the epoch its replication loop was
started for; the leader drops a request iff `req.LeaderEpoch != 0 && req.LeaderEpoch != p.LeaderEpoch`. -/
theorem isr_glue_facts :
    Gen.Protocol.tickOutOfSync = .or (.atom 0 .gt) (.atom 1 .gt) ∧
    Gen.Protocol.tickElapsedSrc = ["lastCaughtUpElapsed=now.Sub(r.lastCaughtUp)", "lastSeenElapsed=now.Sub(r.lastSeen)", "now=time.Now()"] ∧
    Gen.Protocol.tickShrinkWhen = [(true, true)] ∧ Gen.Protocol.tickExpandWhen = [(false, false)] ∧
    Gen.Protocol.timerAssignSites = ["replicator.caughtUp:r.lastCaughtUp=req.received@", "replicator.start:r.lastCaughtUp=now@",
      "replicator.start:r.lastSeen=now@", "replicator.start:r.lastSeen=req.received@"] ∧
    Gen.Protocol.caughtUpGuarded = true ∧ Gen.Protocol.caughtUpCmp = .ge ∧
    Gen.Protocol.fetchFields = ["LeaderEpoch=leaderEpoch", "Offset=p.log.NewestOffset()", "ReplicaID=p.srv.config.Clustering.ServerID"] ∧
    Gen.Protocol.fetchCarriesEpoch = true ∧ Gen.Protocol.fetchOffsetIsNewest = true ∧
    Gen.Protocol.replReqReject = .and (.atom 0 .ne) (.atom 1 .ne) := by
  decide

/-- What `tick` computes: a replica is out of sync iff it was not SEEN or was not CAUGHT UP within
max lag time (the model evaluates the regenerated decision; this is its reading). -/
theorem tick_out_of_sync_rule (sv : Srv) (r : Sid) :
    outOfSync sv r = (!sv.seen.contains r || (lookup sv.caughtUp r).isNone) :=
  outOfSync_eq sv r

/-- The "caught up" flag of replica `src` is refreshed by a fetch only if the fetch offset reached
the leader's log end (`req.Offset >= latest`). -/
theorem caught_up_only_at_log_end (c : Cfg) (sv : Srv) (src : Sid) (off : Int) (ep rid : Nat) (x : Sid) (w : Int)
    (h : lookup (serveStep c sv src off ep rid).1.caughtUp x = some w) :
    lookup sv.caughtUp x = some w ∨ (x = src ∧ w = off ∧ sv.log.newest ≤ off) :=
  serveStep_caughtUp c sv src off ep rid x w h

/-- ISR re-entry: a leader's `tick` proposes `ExpandISR r` only for a replica outside its ISR that
is recorded as CAUGHT UP within max lag time — being seen (alive, fetching) is not enough —, at
some offset `v`; with the repair `expandNow` that offset covers the leader's HW. -/
theorem expand_only_caught_up (c : Cfg) (st st' : State) (l r : Sid)
    (h : step c st (.expandDecision l r) = some st') :
    ∃ sv v, st.get l = some sv ∧ isLeaderUp sv = true ∧ (keys sv.isrOff).contains r = false ∧
      lookup sv.caughtUp r = some v ∧ (c.fixes.expandNow = true → sv.log.hw ≤ v) := by
  obtain ⟨sv, v, h1, h2, _, _, h3, h4, h5, _⟩ := step_expand h
  exact ⟨sv, v, h1, h2, h3, h4, h5⟩

/-- … and within a leadership term (`TermInv`, steps that neither change roles nor truncate) that
replica REALLY stores its log up to the offset at which it was seen caught up; with the repair
`expandNow` (known finding isr-reentry-stale-caught-up) up to the leader's HW, i.e. every committed
offset. -/
theorem isr_reentry_sound_within_term (c : Cfg) (steps : List Step) (st st' st'' : State) (J : TermInv st)
    (hin : ∀ s ∈ steps, InTerm s) (h : run c st steps = some st') (l r : Sid)
    (hx : step c st' (.expandDecision l r) = some st'') :
    ∃ sv v sr, st'.get l = some sv ∧ lookup sv.caughtUp r = some v ∧ st'.get r = some sr ∧ v ≤ sr.log.newest ∧
      (c.fixes.expandNow = true → sv.log.hw ≤ sr.log.newest) := by
  have J' := termInv_run c steps st st' J hin h
  obtain ⟨sv, v, h1, _, _, _, _, h4, h5, _⟩ := step_expand hx
  obtain ⟨sr, hsr, hle⟩ := J'.cu l sv h1 r v h4
  exact ⟨sv, v, sr, h1, h4, hsr, hle, fun hf => Int.le_trans (h5 hf) hle⟩

/-- The controller elects a member of ITS ISR other than the current leader … -/
theorem elected_from_isr (c : Cfg) (st st' : State) (cand : Sid) (h : step c st (.electDecision cand) = some st') :
    cand ∈ (metaView c.n st.committed).isr ∧ cand ≠ (metaView c.n st.committed).leader :=
  ⟨(step_elect h).1, (step_elect h).2.1⟩

/-- … that ISR gains a member only by a committed `ExpandISR` of that member (or at creation) … -/
theorem isr_member_was_expanded (n : Nat) (ops : List MetaOp) (op : MetaOp) (r : Sid)
    (h : r ∈ (metaView n (ops ++ [op])).isr) :
    r ∈ (metaView n ops).isr ∨ op = .expand r ∨ ∃ l, op = .create l :=
  isr_grows_only_by_expand n ops op r h

/-- … and an `ExpandISR r` proposal is only ever made by a leader's `tick` (`expand_only_caught_up`). -/
theorem expand_proposed_only_by_tick (c : Cfg) (st st' : State) (s : Step) (r : Sid) (h : step c st s = some st')
    (hm : MetaOp.expand r ∈ st'.proposed) : MetaOp.expand r ∈ st.proposed ∨ ∃ l, s = .expandDecision l r :=
  step_proposed_expand h hm

/-- Guard scenario `isr-reentry-not-caught-up` (corpus/C02/guards): replica 1 is removed from the
ISR, the leader commits message 0 with the remaining ISR, replica 1 fetches from behind (offset -1)
and the response is lost — it is seen, not caught up. -/
def notCaughtUpScenario : List IStep :=
  [.raftCommit (.create 0), .applyNext 0, .applyNext 1, .offServe 0 0, .reconcile 1 0, .applyNext 2, .offServe 0 0, .reconcile 2 0, .shrinkDecision 0 1, .raftCommit (.shrink 1), .applyNext 0, .commit 0, .publish 0 [{ mid := 0, cid := 100, policy := .all }], .fetch 2, .serve 0 0, .applyResp 2 0, .fetch 2, .serve 0 0, .applyResp 2 0, .commit 0, .commit 0, .fetch 1, .serve 0 0, .drop 0]

/-- In that state the leader has SEEN replica 1 within max lag time, has committed offset 0, and
its `tick` does not propose the re-entry of replica 1 (kernel evaluation of the regenerated rule). -/
theorem notCaughtUp_not_readmitted :
    (irun {} (init {}) notCaughtUpScenario).map (fun st =>
      ((st.get 0).map fun sv => (sv.seen.contains 1, lookup sv.caughtUp 1, sv.log.hw), (istep {} st (.expandDecision 0 1)).isSome)) =
    some (some (true, none, 0), false) := by
  decide +kernel

/-! ### 6. fetches of another term never count -/

/-- A follower's fetch carries its newest offset and the leader epoch it follows. -/
theorem fetch_carries_term (c : Cfg) (st st' : State) (f : Sid) (h : step c st (.fetch f) = some st') :
    ∃ sv, st.get f = some sv ∧ sv.role = .follower ∧
      st'.net = st.net ++ [.replReq f sv.log.newest sv.leaderEpoch (sv.rid + 1)] := by
  obtain ⟨sv, h1, _, h2, h3, _⟩ := step_fetch h
  exact ⟨sv, h1, h2, h3⟩

/-- A fetch naming another non-zero leader epoch changes nothing on the leader — not the recorded
ISR offset, not the commit-check signal, not the "seen"/"caught up" flags — and is not answered. -/
theorem other_term_fetch_ignored (c : Cfg) (sv : Srv) (src : Sid) (off : Int) (ep rid : Nat)
    (h0 : ep ≠ 0) (hne : ep ≠ sv.leaderEpoch) : serveStep c sv src off ep rid = (sv, []) :=
  serveStep_other_term c sv src off ep rid h0 hne

/-- In every reachable state a server that follows (or leads, or reconciles) has a positive leader
epoch: the epoch is the index of a Raft entry. (Invariant over ALL steps, including crash, restart
with replay, elections and reconciliation.) So the zero-epoch escape of the term fence is never
taken by a fetch of the model's followers. -/
theorem follower_epoch_pos (c : Cfg) (st : State) (hr : Reachable c st) (s : Sid) (sv : Srv)
    (h : st.get s = some sv) (hrole : sv.role ≠ .idle) : 1 ≤ sv.leaderEpoch :=
  let g := epInv_reachable hr s sv h
  g.2 (g.1 hrole)

/-- A fetch sent in one term never contributes to a commit of a leader of ANOTHER term: whenever
the request `m` a reachable follower sends is served by a server whose leader epoch differs from
the one the follower follows — however much later, whatever happened in between — that server's
state (recorded ISR offsets, commit-check signal, flags, HW) is unchanged, nothing is acknowledged
and nothing is answered. -/
theorem stale_term_fetch_never_counts (c : Cfg) (st st1 : State) (f : Sid) (hr : Reachable c st)
    (hf : step c st (.fetch f) = some st1) :
    ∃ sv m, st.get f = some sv ∧ st1.net = st.net ++ [m] ∧
      ∀ (st2 st3 : State) (l : Sid) (lv : Srv), st2.get l = some lv → lv.leaderEpoch ≠ sv.leaderEpoch →
        step c st2 (.serve l m) = some st3 →
        st3.get l = some lv ∧ st3.acks = st2.acks ∧ st3.net = removeFirst st2.net m := by
  obtain ⟨sv, h1, _, h2, h3, _⟩ := step_fetch hf
  have hpos := follower_epoch_pos c st hr f sv h1 (by rw [h2]; decide)
  refine ⟨sv, _, h1, h3, ?_⟩
  intro st2 st3 l lv hl hne hs
  obtain ⟨lv', src, off, ep, rid, hl', _, hm, _, hst⟩ := step_serve hs
  rw [hl] at hl'
  cases hl'
  cases hm
  rw [serveStep_other_term c lv f sv.log.newest sv.leaderEpoch (sv.rid + 1) (by omega) (Ne.symm hne)] at hst
  subst hst
  exact ⟨get_set_self lv (get_lt hl), rfl, by simp⟩

/-- Guard scenario `stale-term-fetch-commits` (corpus/C02/guards): server 0 leads epoch 1, message 0
is committed everywhere, message 1 reaches replica 2 only; server 0 crashes, server 1 is elected
(epoch 2), drops server 0 from the ISR and receives message 2 (ALL) at offset 1; the last fetch of
replica 2's OLD replication loop (epoch 1, offset 1) is served by the new leader. -/
def staleFetchScenario : List IStep :=
  [.raftCommit (.create 0), .applyNext 0, .applyNext 1, .offServe 0 0, .reconcile 1 0, .applyNext 2, .offServe 0 0, .reconcile 2 0, .publish 0 [{ mid := 0, cid := 100, policy := .all }], .fetch 1, .serve 0 0, .applyResp 1 0, .fetch 2, .serve 0 0, .applyResp 2 0, .fetch 1, .serve 0 0, .applyResp 1 0, .fetch 2, .serve 0 0, .applyResp 2 0, .commit 0, .commit 0, .commit 0, .publish 0 [{ mid := 1, cid := 101, policy := .all }], .fetch 2, .serve 0 0, .applyResp 2 0, .crash 0, .electDecision 1, .raftCommit (.changeLeader 1), .applyNext 1, .shrinkDecision 1 0, .raftCommit (.shrink 0), .applyNext 1, .commit 1, .publish 1 [{ mid := 2, cid := 102, policy := .all }], .commit 1, .fetch 2, .serve 1 0]

/-- After it the new leader still records offset -1 for replica 2, no commit check is signalled,
its HW has not moved, message 2 is not acknowledged and no C02 / C04 monitor fires (kernel
evaluation through the regenerated fetch fields and rejection rule). -/
theorem staleFetch_not_counted :
    ((irun {} (init {}) staleFetchScenario).map fun st =>
      ((st.get 1).map fun sv => [(sv.leaderEpoch : Int), (lookup sv.isrOff 2).getD 99, sv.commitCheck, sv.log.hw],
       st.net.length, st.acks.map fun a => a.mid)) = some (some [2, -1, 0, -1], 0, [0]) ∧
    replayViol {} staleFetchScenario = some [] := by
  constructor <;> decide +kernel

/-! ### non-vacuity -/

/-- `expand_only_caught_up` is not vacuous: the expand proposal of the known-finding witness is enabled. -/
example : ((irun {} (init {}) (isrReentryWitness.take 25)).bind fun st => istep {} st (.expandDecision 0 1)).isSome = true := by
  decide +kernel

/-- `stale_term_fetch_never_counts` is not vacuous: the stale fetch of the guard scenario is sent by a
reachable follower of epoch 1 and served by the leader of epoch 2. -/
example : ((irun {} (init {}) (staleFetchScenario.take 38)).map fun st =>
    ((st.get 2).map fun sv => (sv.role, sv.leaderEpoch), (st.get 1).map fun sv => (sv.role, sv.leaderEpoch))) =
    some (some (.follower, 1), some (.leader, 2)) := by
  decide +kernel

example : EpochsOK ([(1, -1), (2, 0), (3, 1)] : Epochs) := by
  unfold EpochsOK; decide

example : (Epochs.lastOffsetFor [(1, -1), (2, 0), (3, 1)] 1, Epochs.lastOffsetFor [(1, -1), (2, 0), (3, 1)] 3) = (0, -1) := by
  decide +kernel

/-- The hypotheses of `C02_partial` are satisfiable: the elected leader of the example above. -/
example : (followerLog.truncate (leaderByElection.lastOffsetForLeaderEpoch 1 + 1)).abs = [recOf 0 1 0] := by
  decide +kernel

/-- `TermInv` holds initially for every configuration with a positive segment size. -/
example : TermInv (init {}) := termInv_init {} (by decide)

end Liftbridge.Props.C02
