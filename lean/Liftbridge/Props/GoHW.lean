/-
C03 at the level of the function body: `commitLog.waitForHW` (server/commitlog/commitlog.go), the one critical
section in which a committed reader that found nothing more to read decides between "the high watermark has
moved since I looked: go on", "the log is read-only and fully committed: end" and "register and wait" -
translated from the code. `Gen/GoHW.lean` is regenerated on every run. A channel send is an effect.

`go_waitForHW`: for every log state (high watermark, newest offset, read-only flag, waiters already registered)
and every sampled value, exactly one of three things happens, decided in THIS order:
  1. the log's HW differs from the sample  -> `false` is sent, nobody is registered;
  2. else HW = newest offset and read-only  -> `true` is sent, nobody is registered;
  3. else                                   -> the reader's channel is registered under the reader, nothing is sent.
That is the model's `HWReader.registerWait true` (`model_registerWait`: its three branches, stated through the
regenerated comparison operators). The order matters: a reader with a stale sample on a read-only, fully committed
log must be told to go on (there may be committed messages it has not seen), not that the log has ended.
-/
import Liftbridge.Proofs.GoCodeBase
import Liftbridge.Gen.GoHW
import Liftbridge.Model.HWReader

set_option linter.unusedSimpArgs false

namespace Liftbridge.Props.GoHW
open Liftbridge Liftbridge.GoMini Liftbridge.GoCode
open Liftbridge.Gen.GoHW

theorem translation_complete : unsupported = [] := rfl

theorem binVal_int (op : String) (a b : Int) : binVal op (Val.int a) (Val.int b) = binInt op a b := rfl

/-- the log: high watermark, newest offset, read-only flag, the registered waiters (a map keyed by reader) -/
def encLog (hw newest : Int) (readonly : Bool) (waiters : List (String × Val)) : Val :=
  .struct [("hw", .int hw), ("NewestOffset", .int newest), ("IsReadonly", .bool readonly), ("hwWaiters", .struct waiters)]

def chanV : Val := .struct [("chan", .str "chan bool")]

/-- (what was sent into the reader's channel, the waiters afterwards) -/
def view : R Out → Option (List (List Val) × Option Val)
  | .ok o => some ((o.eff.filter fun e => e.1 = "chan.send").map (·.2),
      match o.recv with | some (.struct fs) => lookup "hwWaiters" fs | _ => none)
  | _ => none

inductive Verdict | goOn | ended | registered
  deriving DecidableEq, Repr

/-- the decision, in the order of the code -/
def verdict (hw newest : Int) (readonly : Bool) (sample : Int) : Verdict :=
  if hw ≠ sample then .goOn else if hw = newest ∧ readonly then .ended else .registered

set_option maxRecDepth 8000 in
set_option maxHeartbeats 1000000 in
theorem go_waitForHW (hw newest : Int) (readonly : Bool) (waiters : List (String × Val)) (reader : String) (sample : Int) :
    view (runG prog noExt 30 "waitForHW" (some (encLog hw newest readonly waiters)) [.str reader, .int sample] []) =
      some (match verdict hw newest readonly sample with
        | .goOn => ([[chanV, .bool false]], some (.struct waiters))
        | .ended => ([[chanV, .bool true]], some (.struct waiters))
        | .registered => ([], some (.struct (update reader chanV waiters)))) := by
  by_cases h1 : hw = sample
  · subst h1
    by_cases h2 : hw = newest
    · subst h2
      cases readonly <;>
        simp [runG, fn_commitLog_waitForHW, prog, gomini, encLog, view, verdict, chanV, binVal_int, binInt, builtin, noExt, lookup, update, setField,
          getField]
    · simp [runG, fn_commitLog_waitForHW, prog, gomini, encLog, view, verdict, chanV, binVal_int, binInt, builtin, noExt, lookup, update, h2, setField,
        getField]
  · simp [runG, fn_commitLog_waitForHW, prog, gomini, encLog, view, verdict, chanV, binVal_int, binInt, builtin, noExt, lookup, update, h1, setField, getField]

/-- the model's critical section takes the same three branches in the same order (its comparison operators are regenerated) -/
theorem model_registerWait (s : HWReader.State) (id : Nat) (r : HWReader.Reader) :
    HWReader.registerWait true s id r =
      (match verdict s.log.hw s.log.newest s.log.readonly r.hwSeen with
       | .goOn => HWReader.setReader s id { r with phase := .atLimit }
       | .ended => HWReader.setReader s id (HWReader.fail r "readonly")
       | .registered => { HWReader.setReader s id { r with phase := .waiting } with waiters := id :: s.waiters }) := by
  unfold HWReader.registerWait verdict
  by_cases h1 : s.log.hw = r.hwSeen <;> by_cases h2 : s.log.hw = s.log.newest <;> cases hr : s.log.readonly <;>
    simp [Gen.HWReader.waitRecheckCmp, Gen.HWReader.waitReadonlyCmp, Cmp.evalInt, h1, h2, hr] <;> simp_all

end Liftbridge.Props.GoHW
