/-
C03 at the level of the function body: `commitLog.waitForHW` (server/commitlog/commitlog.go), the one critical
section in which a committed reader that found nothing more to read decides between "the high watermark has
moved since I looked: go on", "the log is read-only and fully committed: end" and "register and wait" -
translated from the code. `Gen/GoHW.lean` is regenerated on every run. A channel send is an effect.

The writers' side of the same hand-shake is translated too (second half of this file): `SetHighWatermark`,
`OverrideHighWatermark`, `notifyHWChange`, `notifyReadonly`, `SetReadonly`, `removeHWWaiter`. For EVERY map of
registered waiters (no bound on their number; loop lemma `wake_loop` by induction over the map):
  * `go_SetHighWatermark`: a value above the current HW is stored, EVERY registered waiter's channel receives
    `false` exactly once and the map is empty afterwards; any other value changes nothing and wakes nobody
    (the HW never moves backwards through this call);
  * `go_OverrideHighWatermark`: the value is stored whatever it is, and every waiter is woken;
  * `go_notifyReadonly` / `go_SetReadonly`: with HW < newest offset nobody is woken and the map is kept; otherwise
    every waiter receives `true` and the map is emptied; `SetReadonly(false)` only stores the flag;
  * `go_removeHWWaiter`: exactly the reader's own entry goes.
Together with `go_waitForHW` this is "no lost wake-up" at the level of the code: a reader is either told at
registration time that the HW has moved, or it is in the map, and every later HW change reaches everything in the map.
`model_setHW` / `model_setReadonly` / `model_wakeAll` tie the model's transitions to the same shape.

`go_waitForHW`: for every log state (high watermark, newest offset, read-only flag, waiters already registered)
and every sampled value, exactly one of three things happens, decided in THIS order:
  1. the log's HW differs from the sample  -> `false` is sent, nobody is registered;
  2. else HW = newest offset and read-only  -> `true` is sent, nobody is registered;
  3. else                                   -> the reader's channel is registered under the reader, nothing is sent.
That is the model's `HWReader.registerWait true` (`model_registerWait`: its three branches, stated through the
regenerated comparison operators). The order matters: a reader with a stale sample on a read-only, fully committed
log must be told to go on (there may be committed messages it has not seen), not that the log has ended.
-/
import Liftbridge.Proofs.GoHW
import Liftbridge.Model.HWReader

set_option linter.unusedSimpArgs false

namespace Liftbridge.Props.GoHW
open Liftbridge Liftbridge.GoMini Liftbridge.GoCode
open Liftbridge.Gen.GoHW

theorem translation_complete : unsupported = [] := rfl

theorem binVal_int (op : String) (a b : Int) : binVal op (Val.int a) (Val.int b) = binInt op a b := rfl

/-- the log: high watermark, newest offset, read-only flag, the registered waiters (a map keyed by reader) -/
def encLog (hw newest : Int) (readonly : Bool) (waiters : List (String × Val)) : Val :=
  .struct [("hw", .int hw), ("NewestOffset", .int newest), ("IsReadonly", .bool readonly), ("hwWaiters", .struct waiters)]

def chanV : Val := .struct [("chan", .str "chan bool")]

/-- (what was sent into the reader's channel, the waiters afterwards) -/
def view : R Out → Option (List (List Val) × Option Val)
  | .ok o => some ((o.eff.filter fun e => e.1 = "chan.send").map (·.2),
      match o.recv with | some (.struct fs) => lookup "hwWaiters" fs | _ => none)
  | _ => none

inductive Verdict | goOn | ended | registered
  deriving DecidableEq, Repr

/-- the decision, in the order of the code -/
def verdict (hw newest : Int) (readonly : Bool) (sample : Int) : Verdict :=
  if hw ≠ sample then .goOn else if hw = newest ∧ readonly then .ended else .registered

set_option maxRecDepth 8000 in
set_option maxHeartbeats 1000000 in
theorem go_waitForHW (hw newest : Int) (readonly : Bool) (waiters : List (String × Val)) (reader : String) (sample : Int) :
    view (runG prog noExt 30 "waitForHW" (some (encLog hw newest readonly waiters)) [.str reader, .int sample] []) =
      some (match verdict hw newest readonly sample with
        | .goOn => ([[chanV, .bool false]], some (.struct waiters))
        | .ended => ([[chanV, .bool true]], some (.struct waiters))
        | .registered => ([], some (.struct (update reader chanV waiters)))) := by
  by_cases h1 : hw = sample
  · subst h1
    by_cases h2 : hw = newest
    · subst h2
      cases readonly <;>
        simp [runG, fn_commitLog_waitForHW, prog, gomini, encLog, view, verdict, chanV, binVal_int, binInt, builtin, noExt, lookup, update, setField,
          getField]
    · simp [runG, fn_commitLog_waitForHW, prog, gomini, encLog, view, verdict, chanV, binVal_int, binInt, builtin, noExt, lookup, update, h2, setField,
        getField]
  · simp [runG, fn_commitLog_waitForHW, prog, gomini, encLog, view, verdict, chanV, binVal_int, binInt, builtin, noExt, lookup, update, h1, setField, getField]

/-- the model's critical section takes the same three branches in the same order (its comparison operators are regenerated) -/
theorem model_registerWait (s : HWReader.State) (id : Nat) (r : HWReader.Reader) :
    HWReader.registerWait true s id r =
      (match verdict s.log.hw s.log.newest s.log.readonly r.hwSeen with
       | .goOn => HWReader.setReader s id { r with phase := .atLimit }
       | .ended => HWReader.setReader s id (HWReader.fail r "readonly")
       | .registered => { HWReader.setReader s id { r with phase := .waiting } with waiters := id :: s.waiters }) := by
  unfold HWReader.registerWait verdict
  by_cases h1 : s.log.hw = r.hwSeen <;> by_cases h2 : s.log.hw = s.log.newest <;> cases hr : s.log.readonly <;>
    simp [Gen.HWReader.waitRecheckCmp, Gen.HWReader.waitReadonlyCmp, Cmp.evalInt, h1, h2, hr] <;> simp_all


/-! ### the writers' side -/

def fieldOf (f : String) : Option Val → Option Val
  | some (.struct fs) => lookup f fs
  | _ => none

/-- (complete effect trace, high watermark afterwards, waiters afterwards) -/
def hwView : R Out → Option (List (String × List Val) × Option Val × Option Val)
  | .ok o => some (o.eff, fieldOf "hw" o.recv, fieldOf "hwWaiters" o.recv)
  | _ => none

/-- the fields of the log record, as a list (the loop lemma is stated over it) -/
def logFields (hw newest : Int) (readonly : Bool) (waiters : List (String × Val)) : List (String × Val) :=
  [("hw", .int hw), ("NewestOffset", .int newest), ("IsReadonly", .bool readonly), ("hwWaiters", .struct waiters)]

set_option maxRecDepth 8000 in
set_option maxHeartbeats 1000000 in
theorem go_SetHighWatermark (hw newest : Int) (readonly : Bool) (waiters : List (String × Val)) (h : Int) :
    hwView (runG prog noExt 30 "SetHighWatermark" (some (encLog hw newest readonly waiters)) [.int h] []) =
      some (if h > hw then (sends false waiters, some (.int h), some (.struct []))
            else ([], some (.int hw), some (.struct waiters))) := by
  by_cases hc : h > hw
  · obtain ⟨st', h1, h2, h3⟩ := wake_loop 21 false (logFields h newest readonly waiters) waiters waiters
      { env := envOf [("l", .struct (logFields h newest readonly waiters))], eff := [] }
      (by simp [gomini, envOf, lookup, update, logFields])
    simp [wakeBody, logFields] at h1 h2
    simp [runG, fn_commitLog_SetHighWatermark, fn_commitLog_notifyHWChange, gomini, encLog, hwView, binVal_int, binInt, builtin, noExt, lookup, update, hc, setField,
          getField, h1, h2, h3, eraseAll_self, fieldOf]
  · simp [runG, fn_commitLog_SetHighWatermark, gomini, encLog, hwView, binVal_int, binInt, builtin, noExt, lookup, update, hc, setField,
          getField, fieldOf]

set_option maxRecDepth 8000 in
set_option maxHeartbeats 1000000 in
theorem go_OverrideHighWatermark (hw newest : Int) (readonly : Bool) (waiters : List (String × Val)) (h : Int) :
    hwView (runG prog noExt 30 "OverrideHighWatermark" (some (encLog hw newest readonly waiters)) [.int h] []) =
      some (sends false waiters, some (.int h), some (.struct [])) := by
  obtain ⟨st', h1, h2, h3⟩ := wake_loop 22 false (logFields h newest readonly waiters) waiters waiters
    { env := envOf [("l", .struct (logFields h newest readonly waiters))], eff := [] }
    (by simp [gomini, envOf, lookup, update, logFields])
  simp [wakeBody, logFields] at h1 h2
  simp [runG, fn_commitLog_OverrideHighWatermark, fn_commitLog_notifyHWChange, gomini, encLog, hwView, binVal_int, binInt, builtin, noExt, lookup, update, setField,
        getField, h1, h2, h3, eraseAll_self, fieldOf]

set_option maxRecDepth 8000 in
set_option maxHeartbeats 1000000 in
theorem go_notifyReadonly (hw newest : Int) (readonly : Bool) (waiters : List (String × Val)) :
    hwView (runG prog noExt 30 "notifyReadonly" (some (encLog hw newest readonly waiters)) [] []) =
      some (if hw < newest then ([], some (.int hw), some (.struct waiters))
            else (sends true waiters, some (.int hw), some (.struct []))) := by
  by_cases hc : hw < newest
  · simp [runG, fn_commitLog_notifyReadonly, gomini, encLog, hwView, binVal_int, binInt, builtin, noExt, lookup, update, hc, setField,
          getField, fieldOf]
  · obtain ⟨st', h1, h2, h3⟩ := wake_loop 23 true (logFields hw newest readonly waiters) waiters waiters
      { env := envOf [("l", .struct (logFields hw newest readonly waiters))], eff := [] }
      (by simp [gomini, envOf, lookup, update, logFields])
    simp [wakeBody, logFields] at h1 h2
    simp [runG, fn_commitLog_notifyReadonly, gomini, encLog, hwView, binVal_int, binInt, builtin, noExt, lookup, update, hc, setField,
          getField, h1, h2, h3, eraseAll_self, fieldOf]

/-- the log record with the raw flag `SetReadonly` stores into (the store itself is an effect: `atomic.StoreInt32`) -/
def encLogR (hw newest : Int) (flag : Int) (waiters : List (String × Val)) : Val :=
  .struct [("hw", .int hw), ("NewestOffset", .int newest), ("readonly", .int flag), ("hwWaiters", .struct waiters)]

set_option maxRecDepth 8000 in
set_option maxHeartbeats 1000000 in
theorem go_SetReadonly (hw newest flag : Int) (waiters : List (String × Val)) (b : Bool) :
    hwView (runG prog noExt 30 "SetReadonly" (some (encLogR hw newest flag waiters)) [.bool b] []) =
      some (if b then
              (if hw < newest then ([("atomic.StoreInt32", [.int flag, .int 1])], some (.int hw), some (.struct waiters))
               else (("atomic.StoreInt32", [.int flag, .int 1]) :: sends true waiters, some (.int hw), some (.struct [])))
            else ([("atomic.StoreInt32", [.int flag, .int 0])], some (.int hw), some (.struct waiters))) := by
  cases b
  · simp [runG, fn_commitLog_SetReadonly, gomini, encLogR, hwView, binVal_int, binInt, builtin, noExt, lookup, update, setField,
          getField, fieldOf, convert, wrapS]
  · by_cases hc : hw < newest
    · simp [runG, fn_commitLog_SetReadonly, fn_commitLog_notifyReadonly, gomini, encLogR, hwView, binVal_int, binInt, builtin, noExt, lookup, update, hc, setField,
            getField, fieldOf, convert, wrapS]
    · obtain ⟨st', h1, h2, h3⟩ := wake_loop 21 true
        [("hw", .int hw), ("NewestOffset", .int newest), ("readonly", .int flag), ("hwWaiters", .struct waiters)] waiters waiters
        { env := envOf [("l", .struct [("hw", .int hw), ("NewestOffset", .int newest), ("readonly", .int flag), ("hwWaiters", .struct waiters)])],
          eff := [("atomic.StoreInt32", [.int flag, .int 1])] }
        (by simp [gomini, envOf, lookup, update])
      simp [wakeBody] at h1 h2
      simp [runG, fn_commitLog_SetReadonly, fn_commitLog_notifyReadonly, gomini, encLogR, hwView, binVal_int, binInt, builtin, noExt, lookup, update, hc, setField,
            getField, h1, h2, h3, eraseAll_self, fieldOf, convert, wrapS]

theorem go_removeHWWaiter (hw newest : Int) (readonly : Bool) (waiters : List (String × Val)) (reader : String) :
    hwView (runG prog noExt 30 "removeHWWaiter" (some (encLog hw newest readonly waiters)) [.str reader] []) =
      some ([], some (.int hw), some (.struct (eraseKey reader waiters))) := by
  simp [runG, fn_commitLog_removeHWWaiter, gomini, encLog, hwView, builtin, noExt, lookup, update, setField, getField, fieldOf]

/-- every waiter is among the woken, whatever the map: the sends of a wake-up list one entry per registered reader -/
theorem sends_complete (b : Bool) (waiters : List (String × Val)) (k : String) (ch : Val) (h : (k, ch) ∈ waiters) :
    ("chan.send", [ch, .bool b]) ∈ sends b waiters := by
  simp only [sends, List.mem_map]
  exact ⟨(k, ch), h, rfl⟩

/-- the model's `SetHighWatermark` has the shape of the code: strictly greater, store, wake everybody -/
theorem model_setHW (s : HWReader.State) (h : Int) :
    HWReader.setHW s h = if h > s.log.hw then HWReader.wakeAll { s with log := { s.log with hw := h } } false else s := by
  unfold HWReader.setHW
  simp [Gen.Log.setHWCmp, Gen.HWReader.setHWNotifies, Cmp.evalInt]

/-- the model's wake-up empties the waiter set and leaves no waiting reader behind among the registered ones -/
theorem model_wakeAll (s : HWReader.State) (ro : Bool) : (HWReader.wakeAll s ro).waiters = [] := by
  simp [HWReader.wakeAll, Gen.HWReader.notifyClearsWaiters]

/-- the model's `SetReadonly`: the wake-up happens exactly when the code's `notifyReadonly` does not return early -/
theorem model_setReadonly (s : HWReader.State) (b : Bool) :
    HWReader.setReadonly s b =
      (if b = true ∧ ¬ s.log.hw < s.log.newest then HWReader.wakeAll { s with log := { s.log with readonly := b } } true
       else { s with log := { s.log with readonly := b } }) := by
  unfold HWReader.setReadonly
  cases b <;> by_cases h : s.log.hw < s.log.newest <;> simp [Gen.HWReader.notifyReadonlyCmp, Cmp.evalInt, h]

/-- non-vacuity: two registered readers, HW 3 → 5: both channels receive `false`, the map is empty -/
example : hwView (runG prog noExt 30 "SetHighWatermark" (some (encLog 3 9 false [("r1", chanV), ("r2", chanV)])) [.int 5] []) =
    some ([("chan.send", [chanV, .bool false]), ("chan.send", [chanV, .bool false])], some (.int 5), some (.struct [])) := by
  rw [go_SetHighWatermark]; simp [sends]

end Liftbridge.Props.GoHW
