/-
C17 — Encrypted streams never store plaintext and always return it.

What is proved here is the FRAMING of server/encryption/localkey_handler.go (`Seal`, `Read`,
`decryptData`) around cryptographic primitives that are parameters (`Seal.Crypto`). Every
hypothesis about the primitives is an explicit argument of the theorem that uses it
(structures `Sound` and `Authentic` below); there is no axiom.

NOT proved (and not provable in this setting), stated plainly:
  * Confidentiality — "the stored bytes never contain the published value in clear" — is a
    property of AES-GCM (and of the randomness of key and nonce), not of the framing. It is
    covered only EMPIRICALLY by the harness (stored form of every generated value of >= 8
    bytes does not contain the value; raw segment bytes of an encrypted stream).
  * Tamper evidence and key separation of the real AES-GCM / RFC 5649 key wrap are
    computational, probabilistic facts. `Authentic` is their idealisation ("everything that
    was not produced honestly is rejected"); the tamper theorems are RELATIVE to it. The
    harness checks the conclusion on the real primitives for every single-byte change, every
    truncation and a different master key.
  * There is no associated data: a stored value is not bound to its stream or offset, so
    replacing one stored value by ANOTHER honestly sealed one is accepted (this is visible in
    `tamper_err`: only inputs outside the produced set are rejected).

`read` is the model of the REPAIRED `Read` (fixes/C17-read-bounds.diff; its three length checks
are regenerated as `Gen.Seal.guard*` and reported lost by the extractor on a tree without them).
`readUnchecked` is `Read` before the repair; the `*_prefix_*` statements document its defect.
-/
import Liftbridge.Proofs.Seal

namespace Liftbridge.Props.C17
open Liftbridge Liftbridge.Seal

/-- Functional correctness of the primitives (recorded hypotheses, not axioms). -/
structure Sound (c : Crypto) : Prop where
  /-- KWP: unwrapping an honestly wrapped key returns the key. -/
  unwrap_wrap : ∀ k w, c.wrap k = some w → c.unwrap w = some k
  /-- AES-GCM: opening an honest sealing under the same key and nonce returns the plaintext. -/
  open_seal : ∀ k n p, c.keyOk k = true → n.length = c.nonceSize →
    c.aeadOpen k n (c.aeadSeal k n p) = some p
  /-- The wrapped key fits the one-byte length field. -/
  wrap_short : ∀ k w, c.wrap k = some w → w.length < 256

/-- Idealised authenticity, relative to what has been produced under the keys: `w` is the only
wrapped key ever produced under the master key (it wraps `dek`), `Produced n x` says that
ciphertext `x` was produced under `dek` with nonce `n`. Everything else is rejected. This is
the idealisation of INT-CTXT for AES-GCM and of the integrity check of RFC 5649; it is a
HYPOTHESIS of the tamper theorems. -/
structure Authentic (c : Crypto) (w dek : Bytes) (Produced : Bytes → Bytes → Prop) : Prop where
  kwp : ∀ w' k, c.unwrap w' = some k → w' = w ∧ k = dek
  aead : ∀ n x p, c.aeadOpen dek n x = some p → Produced n x

/-! ### Round trip -/

/-- When `Seal` succeeds, the stored form is exactly key-size byte, wrapped key, nonce,
AES-GCM output — for every value including the empty one. -/
theorem seal_shape (c : Crypto) (dek nonce p stored : Bytes)
    (h : sealData c dek nonce p = .ok stored) :
    ∃ w, c.wrap dek = some w ∧ stored = frame w (nonce ++ c.aeadSeal dek nonce p) :=
  (sealData_ok_inv c dek nonce p stored h).2

/-- `Seal` succeeds whenever the data key is a valid AES key and can be wrapped. -/
theorem seal_ok (c : Crypto) (dek nonce p w : Bytes) (hk : c.keyOk dek = true)
    (hw : c.wrap dek = some w) :
    sealData c dek nonce p = .ok (frame w (nonce ++ c.aeadSeal dek nonce p)) := by
  simp [sealData, encryptData, hk, hw]

/-- Every subscriber receives exactly the value that was published: whatever `Seal` stored,
`Read` returns the original value — for EVERY value `p` (empty, short, large, arbitrary
bytes), every data key and every nonce of the cipher's nonce size. -/
theorem read_seal (c : Crypto) (hs : Sound c) (dek nonce p stored : Bytes)
    (hn : nonce.length = c.nonceSize) (h : sealData c dek nonce p = .ok stored) :
    read c stored = .ok p := by
  obtain ⟨hk, w, hw, hst⟩ := sealData_ok_inv c dek nonce p stored h
  subst hst
  exact readWith_frame true c w dek nonce p (hs.wrap_short _ _ hw) (hs.unwrap_wrap _ _ hw) hk hn
    (hs.open_seal _ _ _ hk hn)

/-- The same round trip for `Read` before the repair: the defect never affected honest data. -/
theorem readUnchecked_seal (c : Crypto) (hs : Sound c) (dek nonce p stored : Bytes)
    (hn : nonce.length = c.nonceSize) (h : sealData c dek nonce p = .ok stored) :
    readUnchecked c stored = .ok p := by
  obtain ⟨hk, w, hw, hst⟩ := sealData_ok_inv c dek nonce p stored h
  subst hst
  exact readWith_frame false c w dek nonce p (hs.wrap_short _ _ hw) (hs.unwrap_wrap _ _ hw) hk hn
    (hs.open_seal _ _ _ hk hn)

/-! ### Totality -/

/-- The repaired `Read` never panics: for EVERY byte string and whatever the primitives do,
the outcome is a value or an error. -/
theorem read_total (c : Crypto) (b : Bytes) : read c b ≠ .panic := by
  unfold Seal.read readWith
  cases hs : splitKey true b with
  | panic => exact absurd hs (splitKey_checked_ne_panic b)
  | err e => simp
  | ok wr =>
    obtain ⟨w, rest⟩ := wr
    simp only [Res.bind_ok]
    cases hu : c.unwrap w with
    | none => simp
    | some dek =>
      simp only []
      unfold decryptDataWith
      cases hk : c.keyOk dek with
      | false => simp
      | true =>
        simp only [Bool.not_true, Bool.false_eq_true, if_false]
        cases hn : splitNonce true c.nonceSize rest with
        | panic => exact absurd hn (splitNonce_checked_ne_panic _ rest)
        | err e => simp
        | ok nx =>
          obtain ⟨nonce, x⟩ := nx
          simp only [Res.bind_ok]
          cases c.aeadOpen dek nonce x <;> simp

/-- Totality as stated, for `Read` BEFORE the repair. False: see `read_total_prefix_false`. -/
def read_total_prefix_asStated : Prop := ∀ (c : Crypto) (b : Bytes), readUnchecked c b ≠ .panic

/-- A `Crypto` whose unwrap accepts everything (used only to exhibit the third panic class,
which needs an unwrap that succeeds) with a 12-byte nonce as AES-GCM. -/
def permissive : Crypto where
  wrap := fun k => some k
  unwrap := fun w => some w
  keyOk := fun _ => true
  nonceSize := 12
  aeadSeal := fun _ _ p => p
  aeadOpen := fun _ _ x => some x

/-- Exactly when `Read` before the repair panics: the stored value is empty; or the key-size
byte points past the end; or the wrapped key unwraps to a valid AES key and fewer bytes than a
nonce follow it. -/
theorem readUnchecked_panic_iff (c : Crypto) (b : Bytes) :
    readUnchecked c b = .panic ↔
      b = [] ∨ ∃ k0 t, b = k0 :: t ∧
        (t.length < k0.toNat ∨
          ∃ dek, c.unwrap (t.take k0.toNat) = some dek ∧ c.keyOk dek = true ∧
            t.length - k0.toNat < c.nonceSize) := by
  cases b with
  | nil => simp [readUnchecked, readWith, splitKey, index]
  | cons k0 t =>
    by_cases hle : k0.toNat ≤ t.length
    · have hsplit : splitKey false (k0 :: t) = .ok (t.take k0.toNat, t.drop k0.toNat) := by
        simp [splitKey, Gen.Seal.keyEndOffset, Gen.Seal.wrappedLo, index, slice, sliceFrom, hle]
      have hnlt : ¬ t.length < k0.toNat := by omega
      simp only [readUnchecked, readWith, hsplit, Res.bind_ok, List.cons.injEq, reduceCtorEq,
        false_or]
      constructor
      · intro h
        refine ⟨k0, t, ⟨rfl, rfl⟩, Or.inr ?_⟩
        cases hu : c.unwrap (t.take k0.toNat) with
        | none => simp [hu] at h
        | some dek =>
          simp only [hu, decryptDataWith] at h
          cases hk : c.keyOk dek with
          | false => simp [hk] at h
          | true =>
            simp only [hk, Bool.not_true, Bool.false_eq_true, if_false] at h
            refine ⟨dek, rfl, hk, ?_⟩
            cases hn : splitNonce false c.nonceSize (t.drop k0.toNat) with
            | panic =>
              have := (splitNonce_unchecked_panic_iff _ _).1 hn
              simpa using this
            | err e => simp [hn] at h
            | ok nx =>
              obtain ⟨n, x⟩ := nx
              simp only [hn, Res.bind_ok] at h
              cases ho : c.aeadOpen dek n x <;> simp [ho] at h
      · rintro ⟨k0', t', ⟨rfl, rfl⟩, h⟩
        rcases h with h | ⟨dek, hu, hk, hlen⟩
        · exact absurd h hnlt
        · have hn : splitNonce false c.nonceSize (t.drop k0.toNat) = .panic :=
            (splitNonce_unchecked_panic_iff _ _).2 (by simpa using hlen)
          simp [hu, decryptDataWith, hk, hn]
    · have hlt : t.length < k0.toNat := by omega
      have hsplit : splitKey false (k0 :: t) = .panic :=
        (splitKey_unchecked_panic_iff _).2 (Or.inr ⟨k0, t, rfl, hlt⟩)
      simp only [readUnchecked, readWith, hsplit, Res.bind_panic, true_iff]
      exact Or.inr ⟨k0, t, rfl, Or.inl hlt⟩

/-- The full-strength totality statement is false for `Read` before the repair (three
witnesses, one per unchecked index/slice; each is replayed on the real code by the harness,
corpus/C17/read-panic.ops). -/
theorem read_total_prefix_false : ¬ read_total_prefix_asStated := by
  intro h
  exact h permissive [] (by decide)

/-- Pre-fix witness 1: the empty stored value (`encryptedData[0]`). -/
theorem read_prefix_defect_empty (c : Crypto) : readUnchecked c [] = .panic := by
  simp [readUnchecked, readWith, splitKey, index]

/-- Pre-fix witness 2: a key-size byte pointing past the end (`encryptedData[1:keyEndPos]`);
no primitive is even called. E.g. the plaintext "hi" read back as if it were sealed. -/
theorem read_prefix_defect_keysize (c : Crypto) : readUnchecked c [104, 105] = .panic := by
  rw [readUnchecked_panic_iff]
  exact Or.inr ⟨104, [105], rfl, Or.inl (by decide)⟩

/-- Pre-fix witness 3: a valid wrapped key followed by fewer bytes than the nonce
(`encryptedData[nonceSize:]` in `decryptData`) — e.g. an honest stored value cut short. -/
theorem read_prefix_defect_nonce : readUnchecked permissive [2, 7, 7, 1, 2, 3] = .panic := by decide

/-- What is true of `Read` before the repair: it does not panic on inputs that are at least as
long as their key-size byte announces and that leave a nonce after a key that unwraps. -/
theorem read_total_prefix_partial (c : Crypto) (k0 : UInt8) (t : Bytes)
    (hkey : k0.toNat ≤ t.length)
    (hnonce : ∀ dek, c.unwrap (t.take k0.toNat) = some dek → c.keyOk dek = true →
      c.nonceSize ≤ t.length - k0.toNat) :
    readUnchecked c (k0 :: t) ≠ .panic := by
  intro h
  rcases (readUnchecked_panic_iff c _).1 h with h | ⟨k0', t', heq, h⟩
  · simp at h
  · simp only [List.cons.injEq] at heq
    obtain ⟨rfl, rfl⟩ := heq
    rcases h with h | ⟨dek, hu, hk, hlen⟩
    · omega
    · have := hnonce dek hu hk
      omega

/-- The repair is conservative: wherever `Read` did not panic before, the repaired `Read`
returns exactly the same value or error. -/
theorem read_conservative (c : Crypto) (b : Bytes) (h : readUnchecked c b ≠ .panic) :
    read c b = readUnchecked c b := by
  unfold Seal.read readUnchecked readWith at *
  cases hs : splitKey false b with
  | panic => simp [hs] at h
  | err e => rw [splitKey_conservative b (by simp [hs]), hs]; simp
  | ok wr =>
    obtain ⟨w, rest⟩ := wr
    rw [splitKey_conservative b (by simp [hs]), hs]
    simp only [hs, Res.bind_ok] at h ⊢
    cases hu : c.unwrap w with
    | none => rfl
    | some dek =>
      simp only [hu] at h ⊢
      unfold decryptDataWith at *
      cases hk : c.keyOk dek with
      | false => simp
      | true =>
        simp only [hk, Bool.not_true, Bool.false_eq_true, if_false] at h ⊢
        have hn : splitNonce false c.nonceSize rest ≠ .panic := by
          intro hp
          simp [hp] at h
        rw [splitNonce_conservative _ _ hn]

/-! ### Tampering and wrong key (relative to `Authentic`) -/

/-- Whatever `Read` accepts is a well-formed stored value whose parts the primitives accept:
a wrapped key (< 256 bytes) that unwraps to a valid AES key, a nonce of the cipher's size and a
ciphertext that opens to exactly the returned value. -/
theorem read_ok_exact (c : Crypto) (b p : Bytes) (h : read c b = .ok p) :
    ∃ w dek nonce x, w.length < 256 ∧ c.unwrap w = some dek ∧ c.keyOk dek = true ∧
      nonce.length = c.nonceSize ∧ c.aeadOpen dek nonce x = some p ∧ b = frame w (nonce ++ x) :=
  readWith_ok_inv true c b p h

/-- Tamper evidence of the framing, relative to the authenticity of the primitives: if unwrap
and open reject everything that was not produced, then every byte string that is not
`frame w (nonce ++ x)` for a produced `(nonce, x)` yields an ERROR — not data, not a panic. -/
theorem tamper_err (c : Crypto) (w dek : Bytes) (Produced : Bytes → Bytes → Prop)
    (ha : Authentic c w dek Produced) (b : Bytes)
    (hb : ∀ n x, Produced n x → b ≠ frame w (n ++ x)) :
    ∃ e, read c b = .err e := by
  cases h : read c b with
  | err e => exact ⟨e, rfl⟩
  | panic => exact absurd h (read_total c b)
  | ok p =>
    obtain ⟨w', dek', n, x, _, hu, _, _, ho, hbf⟩ := read_ok_exact c b p h
    obtain ⟨rfl, rfl⟩ := ha.kwp _ _ hu
    exact absurd hbf (hb n x (ha.aead n x p ho))

/-- With one stored value produced under the keys, ANY other byte string yields an error. -/
theorem tamper_any_change (c : Crypto) (w dek nonce x : Bytes)
    (ha : Authentic c w dek (fun n' x' => n' = nonce ∧ x' = x)) (b : Bytes)
    (hb : b ≠ frame w (nonce ++ x)) : ∃ e, read c b = .err e := by
  refine tamper_err c w dek _ ha b ?_
  rintro n' x' ⟨rfl, rfl⟩
  exact hb

/-- Every single-byte corruption of the stored form yields an error: position `i` (any
position: key-size byte, wrapped key, nonce, ciphertext, tag) set to any different value. -/
theorem tamper_single_byte (c : Crypto) (w dek nonce x : Bytes)
    (ha : Authentic c w dek (fun n' x' => n' = nonce ∧ x' = x))
    (i : Nat) (v : UInt8) (hi : i < (frame w (nonce ++ x)).length)
    (hv : (frame w (nonce ++ x))[i] ≠ v) :
    ∃ e, read c ((frame w (nonce ++ x)).set i v) = .err e := by
  refine tamper_any_change c w dek nonce x ha _ ?_
  intro heq
  have : ((frame w (nonce ++ x)).set i v)[i]'(by simpa using hi) = v := by simp
  rw [List.getElem_of_eq heq] at this
  exact hv this

/-- Every proper truncation of the stored form yields an error (including the empty one). -/
theorem tamper_truncate (c : Crypto) (w dek nonce x : Bytes)
    (ha : Authentic c w dek (fun n' x' => n' = nonce ∧ x' = x))
    (n : Nat) (hn : n < (frame w (nonce ++ x)).length) :
    ∃ e, read c ((frame w (nonce ++ x)).take n) = .err e := by
  refine tamper_any_change c w dek nonce x ha _ ?_
  intro heq
  have := congrArg List.length heq
  simp only [List.length_take] at this
  omega

/-- A value sealed under one master key (`c₁`) and read under another (`c₂`, same AES-GCM,
different key wrap) yields an error, provided the second master key never produced the
wrapped key in question (authenticity of the key wrap under `c₂`). -/
theorem wrong_key_err (c₁ c₂ : Crypto) (hs : Sound c₁) (dek nonce p stored : Bytes)
    (h : sealData c₁ dek nonce p = .ok stored)
    (w₂ dek₂ : Bytes) (P₂ : Bytes → Bytes → Prop) (ha : Authentic c₂ w₂ dek₂ P₂)
    (hne : c₁.wrap dek ≠ some w₂) :
    ∃ e, read c₂ stored = .err e := by
  obtain ⟨_, w, hw, hst⟩ := sealData_ok_inv c₁ dek nonce p stored h
  subst hst
  refine ⟨"unwrap", ?_⟩
  unfold Seal.read readWith
  rw [splitKey_frame true w _ (hs.wrap_short _ _ hw)]
  simp only [Res.bind_ok]
  cases hu : c₂.unwrap w with
  | none => rfl
  | some k =>
    obtain ⟨rfl, _⟩ := ha.kwp _ _ hu
    exact absurd hw hne

/-! ### The one-byte length field -/

/-- `byte(keyLength)`: the key-size byte is the wrapped key's length modulo 256. -/
theorem frame_key_byte (w ct : Bytes) :
    (frame w ct).head? = some (UInt8.ofNat (w.length % 256)) := by
  simp only [frame, List.head?_cons, Option.some.injEq]
  apply UInt8.toNat_inj.1
  simp [UInt8.toNat_ofNat']

/-- The framing round-trips for every wrapped key shorter than 256 bytes … -/
theorem split_frame (w ct : Bytes) (h : w.length < 256) : splitKey true (frame w ct) = .ok (w, ct) :=
  splitKey_frame true w ct h

/-- … and fails at 256: the key-size byte wraps around to 0, `Read` takes an empty wrapped key
and hands the real one to the cipher as if it were nonce and ciphertext. -/
theorem split_frame_256 (w ct : Bytes) (h : w.length = 256) :
    splitKey true (frame w ct) = .ok ([], w ++ ct) := by
  unfold splitKey frame
  simp [Gen.Seal.guardEmpty, Gen.Seal.guardKeyBeyond, Gen.Seal.keyEndOffset, Gen.Seal.wrappedLo,
    Cmp.evalNat, index, slice, sliceFrom, h]

/-- Not reachable in the code: the data key has `AES256KeyLength` = 32 bytes (regenerated) and
its RFC 5649 wrapping has 40 (formula of tink's `wrappingSize`, compared with the real
`wrapDEK` by the harness on every run). -/
theorem wrapped_dek_fits : kwpWrappedLen Gen.Seal.dekLen = 40 ∧ kwpWrappedLen Gen.Seal.dekLen < 256 := by
  decide

/-! ### Non-vacuity: the hypotheses are satisfiable -/

/-- A toy instance: "wrap" prepends a marker, "seal" appends one. -/
def toy : Crypto where
  wrap := fun k => if k.length ≤ 32 then some (0xA6 :: k) else none
  unwrap := fun w => if w.head? = some 0xA6 ∧ w.length ≤ 33 then some w.tail else none
  keyOk := fun k => k.length == 2
  nonceSize := 2
  aeadSeal := fun _ _ p => p ++ [0x55]
  aeadOpen := fun _ _ x => if x.getLast? = some 0x55 then some x.dropLast else none

example : Sound toy where
  unwrap_wrap := by
    intro k w h
    simp only [toy] at h ⊢
    split at h
    · injection h with h
      subst h
      simp
      omega
    · simp at h
  open_seal := by
    intro k n p _ _
    simp [toy]
  wrap_short := by
    intro k w h
    simp only [toy] at h
    split at h
    · injection h with h
      subst h
      simp
      omega
    · simp at h

/-- Round trip on the toy instance, empty value included. -/
example : sealData toy [1, 2] [8, 9] [] = .ok [3, 0xA6, 1, 2, 8, 9, 0x55] := by decide
example : read toy [3, 0xA6, 1, 2, 8, 9, 0x55] = .ok [] := by decide
example : read toy [3, 0xA6, 1, 2, 8, 9, 42, 43, 0x55] = .ok [42, 43] := by decide

/-- A table-driven instance that accepts exactly one wrapped key and one ciphertext: the
world in which exactly one value has been sealed. -/
def single : Crypto where
  wrap := fun k => if k = [1, 2] then some [0xA6, 1, 2] else none
  unwrap := fun w => if w = [0xA6, 1, 2] then some [1, 2] else none
  keyOk := fun k => k.length == 2
  nonceSize := 2
  aeadSeal := fun _ _ _ => [42, 0x55]
  aeadOpen := fun k n x => if k = [1, 2] ∧ n = [8, 9] ∧ x = [42, 0x55] then some [42] else none

example : Authentic single [0xA6, 1, 2] [1, 2] (fun n x => n = [8, 9] ∧ x = [42, 0x55]) where
  kwp := by
    intro w' k h
    simp only [single] at h
    split at h
    · injection h with h
      exact ⟨by assumption, h.symm⟩
    · simp at h
  aead := by
    intro n x p h
    simp only [single] at h
    split at h
    · rename_i hc
      exact ⟨hc.2.1, hc.2.2⟩
    · simp at h

/-- The honest value is accepted by the table-driven instance … -/
example : read single (frame [0xA6, 1, 2] ([8, 9] ++ [42, 0x55])) = .ok [42] := by decide
/-- … and its corruptions are errors, as `tamper_single_byte` / `tamper_truncate` say. -/
example : read single [3, 0xA6, 1, 2, 8, 9, 43, 0x55] = .err "open" := by decide
example : read single [4, 0xA6, 1, 2, 8, 9, 42, 0x55] = .err "unwrap" := by decide
example : read single [200, 0xA6, 1, 2, 8, 9, 42, 0x55] = .err "keysize" := by decide
example : read single [3, 0xA6, 1, 2, 8] = .err "nonce" := by decide
example : read single [] = .err "empty" := by decide

/-- The former crash inputs: before the repair a panic, now an error. -/
example : readUnchecked single [] = .panic := by decide
example : readUnchecked single [200, 0xA6, 1, 2, 8, 9, 42, 0x55] = .panic := by decide
example : readUnchecked single [3, 0xA6, 1, 2, 8] = .panic := by decide

/-- The failure at 256 on a concrete instance: a wrap that produces 256 bytes makes `Seal`
succeed and `Read` of its output fail. -/
def wideKey : Bytes := List.replicate 256 7
def wide : Crypto :=
  { toy with wrap := fun _ => some wideKey, unwrap := fun w => some w }
example : ∃ stored, sealData wide [1, 2] [8, 9] [42] = .ok stored ∧ read wide stored ≠ .ok [42] := by
  have hl : wideKey.length = 256 := List.length_replicate ..
  refine ⟨frame wideKey ([8, 9] ++ [42, 0x55]), by simp [sealData, encryptData, wide, toy], ?_⟩
  unfold Seal.read readWith
  rw [split_frame_256 _ _ hl]
  simp [wide, toy, decryptDataWith]

end Liftbridge.Props.C17
