/-
C05 — "The partition log recovers from a crash at any instant."

Model: `Liftbridge/Model/Recover.lean` (file system as data, every commit-log operation as a
program of atomic file-system effects and crash marks, `recover` = `commitlog.New`). The code
shape that matters for crash behaviour (`Shape`: order of log/index write, order of the two
renames of a segment replacement, leader-epoch assignment before/after the write, what is done
with left-over `.cleaned`/`.truncated` files, whether opening a segment reconciles log and
index) is regenerated from the source on every run (`Shape.current`).

The property for ONE crash is the executable predicate `crashOK cfg ops k` (workload `ops` on a
fresh directory, process killed after `k` primitive steps, then `New`, the redo of an
interrupted truncate/clean and one more append): reopening succeeds, no completed message is
lost or changed, a sequential byte reader sees no duplicate offset / phantom / garbage, readers
start where asked, the HW is not above the one before the crash, the leader epochs match.

Status of the statement:
* `C05_asStated Shape.unfixed` (the code before fixes/C05-*.diff) is FALSE: five independent
  crash windows, each with a concrete witness evaluated by the kernel and replayed on the real
  code through the crash hooks (harness tags in the doc comments).
* The HW clause (c) is proved for EVERY workload, crash step and code shape (`C05_partial_hw`).
* `InitializePosition` is proved exact on every well-formed index file (`initializePosition_exact`),
  and the model's search is Go's `sort.Search` (`search_is_sort_search`).
* The three repairs are proved at the level of the segment, for ALL contents: opening a segment
  cuts off whatever follows the indexed records — unindexed message sets or torn bytes —
  (`open_reconciles_log_and_index`); hence `WriteMessageSet` is crash-atomic: killed at any step,
  the reopened segment holds the old records or the old ones plus the whole new set
  (`writeMessageSet_crash_atomic`); an index that does not belong to its log (crash between the two
  renames of `Replace`) is rebuilt (`open_rebuilds_stale_index`); `Cleaned()`/`Truncated()` start
  from empty files whatever a crashed clean/truncate left behind (`suffixed_segment_starts_empty`).
* NOT proved for all workloads: the composition of these segment-level facts over whole
  operation sequences (clauses (a), (b), (d) of `crashOK` for arbitrary `ops`), and that every
  rename-gap state is detected by the last-entry check. They are evaluated by the kernel on every
  crash step of the workloads in the `example`s below (bounded, not theorems) and by the
  correspondence harness on the real code.
* `shape_is_fixed` ties the theorems about `Shape.fixed` to the code: it only checks on a tree
  that contains the three repairs.
-/
import Liftbridge.Model.Recover
import Liftbridge.Proofs.Recover
import Liftbridge.Proofs.RecoverHW
import Liftbridge.Proofs.RecoverOpen

namespace Liftbridge.Props.C05
open Liftbridge Liftbridge.Log Liftbridge.Recover

def cfgOf (sh : Shape) (maxSegBytes : Int) : Cfg := { shape := sh, maxSegBytes := maxSegBytes }
def b1 (a : Nat) : Option Bytes := some [UInt8.ofNat a]

/-- C05 as stated, for the code shape `sh`: every crash step of every workload under every
configuration is fine. -/
def C05_asStated (sh : Shape) : Prop :=
  ∀ cfg : Cfg, cfg.shape = sh → ∀ (ops : List Op) (k : Nat), crashOK cfg ops k = true

/-! ## Witnesses on the unrepaired code -/

/-- One append of one message. -/
def wAppend : List Op := [.append 1 10 [⟨b1 0x61, b1 0x62⟩]]
/-- What the resumed process does in the witnesses: one append. -/
def onceMore : List Op := [.append 9 900 [postMsg]]
/-- Three messages in one segment, then `Truncate(2)`. -/
def wTruncate : List Op := [.append 1 10 [⟨b1 0x61, b1 1⟩, ⟨b1 0x62, b1 2⟩, ⟨b1 0x63, b1 3⟩], .truncate 2]

/-- F-C05-a, tag `crash-log-index-gap`: killed between the log write and the index write of the
first append (step 8 = hook `segment.write.log`). After reopen the position is the file size but
the next offset comes from the (empty) index: the next append reuses offset 0 and a sequential
reader gets offset 0 twice. -/
theorem crash_log_index_gap :
    viewOffsets (resumeView (cfgOf .unfixed 100) wAppend 8 0 onceMore) = some ([0, 0], false) ∧
    crashOK (cfgOf .unfixed 100) wAppend 8 = false := by
  decide +kernel

/-- Same window with a roll pending (`MaxSegmentBytes` reached by the unindexed bytes while the
index is empty): `checkAndPerformSplit` wants to create the segment that already exists and
retries for ever — tag `crash-split-livelock` (the model reports the livelock as an error). -/
theorem crash_split_livelock :
    (match resumeView (cfgOf .unfixed 1) wAppend 8 0 onceMore with
     | some (.err e) => e
     | _ => "") = "split-livelock" := by
  decide +kernel

/-- F-C05-b, tag `crash-stale-suffix-file`: killed while `Truncate(2)` copies the kept messages
into `…​.log.truncated` (step 29 = after the second copy). The left-over files are ignored by
`New`, then reopened `O_APPEND` by the next `Truncate(2)` and appended to: the segment that
replaces the original holds 0 1 0 1. -/
theorem crash_stale_suffix_file :
    viewOffsets (resumeView (cfgOf .unfixed 1000) wTruncate 29 0 (.truncate 2 :: onceMore)) = some ([0, 1, 0, 1, 2], false) ∧
    crashOK (cfgOf .unfixed 1000) wTruncate 29 = false := by
  decide +kernel

/-- Tag `crash-replace-rename-gap`: killed between the two renames of `Replace` (step 40 = hook
`segment.replace.log-renamed`): the truncated log is in place under the OLD index. Reopening
succeeds, the log ends at offset 1, but `NewestOffset()` is 2 and a reader created at offset 2
gets nothing. -/
theorem crash_replace_rename_gap :
    (match resumeView (cfgOf .unfixed 1000) wTruncate 40 0 [] with
     | some (.ok (rs, g, m)) => (rs.map (·.offset), g, m.newest)
     | _ => ([], true, 0)) = ([0, 1], false, 2) ∧
    crashOK (cfgOf .unfixed 1000) wTruncate 40 = false := by
  decide +kernel

/-- Tag `crash-epoch-mismatch`: killed after the message set is written and indexed but before
the leader-epoch cache is assigned and flushed (step 11): the message of epoch 1 is in the log,
the recovered epoch cache is empty (says epoch 0 for its offset). -/
theorem crash_epoch_mismatch :
    (match resumeView (cfgOf .unfixed 100) wAppend 11 0 [] with
     | some (.ok (rs, _, m)) => (rs.map (fun r => (r.offset, r.epoch)), m.epochs)
     | _ => ([], [(7, 7)])) = ([(0, 1)], []) ∧
    crashOK (cfgOf .unfixed 100) wAppend 11 = false := by
  decide +kernel

/-- Tag `crash-torn-write` (OUTSIDE the property's quantifier, which only has crash points between
two file-system effects): the kill additionally cuts the `write(2)` of the message set 3 bytes
short. The incomplete message stays in front of whatever is appended next: a sequential reader
runs into bytes that are not a message. -/
theorem crash_torn_write :
    viewOffsets (resumeView (cfgOf .unfixed 100) wAppend 8 3 onceMore) = some ([], true) := by
  decide +kernel

/-- The full-strength statement is false on the unrepaired code. -/
theorem C05_asStated_unfixed_false : ¬ C05_asStated Shape.unfixed := by
  intro h
  have := h (cfgOf .unfixed 100) rfl wAppend 8
  rw [crash_log_index_gap.2] at this
  exact absurd this (by decide)

/-! ## The repairs (fixes/C05-*.diff) close these windows -/

/-- The same crashes on the repaired code: every clause holds, and the reader sees what it should
(the interrupted append is gone or complete, never half there; the redone truncate yields 0 1). -/
theorem repairs_close_the_windows :
    crashOK (cfgOf .fixed 100) wAppend 8 = true ∧
    viewOffsets (resumeView (cfgOf .fixed 100) wAppend 8 0 onceMore) = some ([0], false) ∧
    viewOffsets (resumeView (cfgOf .fixed 100) wAppend 8 3 onceMore) = some ([0], false) ∧
    viewOffsets (resumeView (cfgOf .fixed 1) wAppend 8 0 onceMore) = some ([0], false) ∧
    crashOK (cfgOf .fixed 1000) wTruncate 29 = true ∧
    viewOffsets (resumeView (cfgOf .fixed 1000) wTruncate 29 0 (.truncate 2 :: onceMore)) = some ([0, 1, 2], false) ∧
    crashOK (cfgOf .fixed 1000) wTruncate 40 = true ∧
    crashOK (cfgOf .fixed 100) wAppend 11 = true := by
  decide +kernel

/-- THE TIE of the `Shape.fixed` statements to the code: the shape regenerated from the source
(log written before the index, log renamed before the index, leader epoch assigned BEFORE the
write, left-over suffix files removed, log and index reconciled on open) is the repaired one.
Does not check on a tree without fixes/C05-*.diff. -/
theorem shape_is_fixed : Shape.current = Shape.fixed := by decide

/-! ## What holds for every workload -/

/-- Clause (c), for EVERY workload (appends, HW updates and checkpoints, truncations, cleans with
retention and compaction, rolls, clean reopens), EVERY crash step `k` and EVERY code shape: the
high watermark recovered by `New` from the directory left by the crash is not above the
in-memory high watermark at the moment of the crash (`hwBefore`). -/
theorem C05_partial_hw (cfg : Cfg) (ops : List Op) (k : Nat) (fs : FS) (n : Nat) (hwBefore : Int)
    (hc : crashAt cfg ops k = some (fs, n, hwBefore))
    (m : Mem) (fs' : FS) (hr : recover cfg fs = .ok (m, fs')) : m.hw ≤ hwBefore := by
  have hl := Proofs.Recover.life_safe cfg ops k
  unfold crashAt at hc
  cases h : life cfg ops { fs := {}, budget := k } with
  | ok a s => rw [h] at hc; simp at hc
  | fail e s => rw [h] at hc; simp at hc
  | crashed s =>
    rw [h] at hc hl
    simp at hc
    obtain ⟨h1, _, h3⟩ := hc
    have := Proofs.Recover.recover_hw cfg fs m fs' hr
    unfold Proofs.Recover.HwSafe at hl
    rw [this, ← h1, ← h3]
    exact hl

/-- `New` never invents a high watermark: it is what the checkpoint file says (−1 without one). -/
theorem recovered_hw_is_checkpoint (cfg : Cfg) (fs : FS) (m : Mem) (fs' : FS)
    (hr : recover cfg fs = .ok (m, fs')) : m.hw = fs.hw.getD (-1) :=
  Proofs.Recover.recover_hw cfg fs m fs' hr

/-- `InitializePosition` on ANY well-formed index file — pre-allocated, shrunk to its contents by
a seal/close, or expanded; any number of written slots: the binary search for the first empty
slot returns exactly the number of written slots and the last written entry (or `corrupt` when
that entry lies below the base offset). So every crash state gets the index position right. -/
theorem initializePosition_exact (ix : IdxFile) (base : Int) (wf : Proofs.Recover.IdxWF ix) :
    initPosition ix base =
      match ix.slots.getLast? with
      | none => .ok 0 none
      | some e => if Gen.Recover.corruptCmp.evalInt e.offset base then .corrupt ix.slots.length
                  else .ok ix.slots.length (some e) :=
  Proofs.Recover.initPosition_spec ix base wf

/-- The kernel-evaluable binary search used by the recovery model is the literal mirror of Go's
`sort.Search` (for every predicate, monotone or not). -/
theorem search_is_sort_search (n : Nat) (f : Nat → Bool) : goSearchS n f = goSearch n f :=
  Proofs.Recover.goSearchS_eq n f

/-! ## The repairs, for all segment contents -/

/-- OPENING A SEGMENT ON THE REPAIRED CODE RECONCILES LOG AND INDEX (fixes/C05-reconcile-log-and-
index-on-open.diff). The log file holds the records `rs` followed by ANY tail `t` — whole message
sets whose index entries were never written (the process died between `write(log)` and
`writeEntries(index)`) and/or the incomplete bytes of a torn write; the index holds the entries of
`rs` (pre-allocated, shrunk or expanded: `rs.length ≤ ix.size`). After `setupIndex` the tail is
gone and log file, index file, position, index position and first/last offset agree on `rs`. -/
theorem open_reconciles_log_and_index (sh : Shape) (hv : sh.validateOnOpen = true) (base : Int) (sfx : Sfx)
    (rs : List Rec) (t : List Chunk) (ix : IdxFile) (s s' : St) (seg : MSeg)
    (hlog : s.fs.log? ⟨base, sfx⟩ = some (rs.map Chunk.msg ++ t))
    (hidx : s.fs.idx? ⟨base, sfx⟩ = some ix) (hslots : ix.slots = Seg.entriesFrom 0 rs) (hfit : rs.length ≤ ix.size)
    (hbase : ∀ r ∈ rs, base ≤ r.offset) (ht : ∀ c ∈ t, 0 < c.size)
    (hrun : setupIndexM sh { base := base, sfx := sfx, position := chunksSize (rs.map Chunk.msg ++ t) } s = .ok seg s') :
    Proofs.Recover.AlignedSeg s'.fs seg rs ∧ seg.fname = ⟨base, sfx⟩ :=
  Proofs.Recover.open_reconciles sh hv base sfx rs t ix s s' seg hlog hidx hslots hfit hbase ht hrun

/-- `WriteMessageSet` IS CRASH-ATOMIC ON THE REPAIRED CODE. A segment whose log, index and counters
agree on `rs` receives the message set `recs` (entries as `Append` computes them); the process is
killed at ANY step of `WriteMessageSet` (before the log write, between log and index write — the
window of finding `crash-log-index-gap` —, after both); a new process opens the segment. Then
everything agrees on `rs` (the append never happened) or on `rs ++ recs` (it happened entirely):
never a half-present message set, never a reused offset. -/
theorem writeMessageSet_crash_atomic (sh : Shape) (hw : sh.writeLogFirst = true) (hv : sh.validateOnOpen = true)
    (fs0 : FS) (seg : MSeg) (rs recs : List Rec) (hal : Proofs.Recover.AlignedSeg fs0 seg rs)
    (hbase : ∀ r ∈ rs ++ recs, seg.base ≤ r.offset)
    (s s' : St) (hs : s.fs = fs0)
    (hcrash : writeM sh seg recs (Seg.entriesFrom seg.position recs) s = .crashed s')
    (s2 s3 : St) (hsame : s2.fs = s'.fs) (seg' : MSeg)
    (hopen : setupIndexM sh { base := seg.base, sfx := seg.sfx, position := s2.fs.logSize seg.fname } s2 = .ok seg' s3) :
    Proofs.Recover.AlignedSeg s3.fs seg' rs ∨ Proofs.Recover.AlignedSeg s3.fs seg' (rs ++ recs) :=
  Proofs.Recover.write_crash_atomic sh hw hv fs0 seg rs recs hal hbase s s' hs hcrash s2 s3 hsame seg' hopen

/-- AN INDEX THAT DOES NOT BELONG TO ITS LOG IS REBUILT on the repaired code: when the last index
entry does not describe the record at its position in the log (the state a crash between the two
renames of `Replace` leaves: the new log under the old index — finding `crash-replace-rename-gap`),
`setupIndex` rebuilds the index from the log and everything agrees on the records of the log. -/
theorem open_rebuilds_stale_index (sh : Shape) (hv : sh.validateOnOpen = true) (base : Int) (sfx : Sfx)
    (rs : List Rec) (ix : IdxFile) (s s' : St) (seg : MSeg)
    (hlog : s.fs.log? ⟨base, sfx⟩ = some (rs.map Chunk.msg))
    (hidx : s.fs.idx? ⟨base, sfx⟩ = some ix) (hwf : Proofs.Recover.IdxWF ix)
    (hstale : lastMatches s.fs { base := base, sfx := sfx, position := chunksSize (rs.map Chunk.msg) } ix.slots.getLast? = false)
    (hbase : ∀ r ∈ rs, base ≤ r.offset)
    (hrun : setupIndexM sh { base := base, sfx := sfx, position := chunksSize (rs.map Chunk.msg) } s = .ok seg s') :
    Proofs.Recover.AlignedSeg s'.fs seg rs ∧ seg.fname = ⟨base, sfx⟩ :=
  Proofs.Recover.open_rebuilds_stale_index sh hv base sfx rs ix s s' seg hlog hidx hwf hstale hbase hrun

/-- `Cleaned()` / `Truncated()` START FROM SCRATCH on the repaired code (fixes/C05-stale-suffix-
files.diff): whatever `.cleaned` / `.truncated` files of that base a crashed clean or truncate
left in the directory (`s.fs` is arbitrary), the suffixed segment that is created is empty — log
file, index file and counters (finding `crash-stale-suffix-file`: the unrepaired code reopens the
left-over file in append mode). -/
theorem suffixed_segment_starts_empty (sh : Shape) (hr : sh.removeStaleSuffix = true) (hv : sh.validateOnOpen = true)
    (base : Int) (sfx : Sfx) (s s' : St) (seg : MSeg)
    (hrun : suffixedM sh base sfx s = .ok seg s') :
    Proofs.Recover.AlignedSeg s'.fs seg [] ∧ seg.fname = ⟨base, sfx⟩ :=
  Proofs.Recover.suffixed_starts_empty sh hr hv base sfx s s' seg hrun

/-! ## Non-vacuity and bounded evidence (examples, not theorems) -/

/-- Non-vacuity of `open_reconciles_log_and_index` / `writeMessageSet_crash_atomic`: a log file with
one indexed record followed by one unindexed record and 5 torn bytes; after `setupIndex` on the
repaired shape the file holds the indexed record only and the position is its size (46). -/
example :
    let r0 : Rec := { offset := 0, ts := 10, epoch := 1, body := ⟨b1 0x61, b1 0x62, []⟩ }
    let r1 : Rec := { offset := 1, ts := 11, epoch := 1, body := ⟨b1 0x61, b1 0x63, []⟩ }
    let fs : FS := { logs := [(⟨0, .plain⟩, [.msg r0, .msg r1, .junk 5])],
                     idxs := [(⟨0, .plain⟩, { slots := Seg.entriesFrom 0 [r0], size := 1 })] }
    (match setupIndexM Shape.fixed { base := 0, position := chunksSize [.msg r0, .msg r1, .junk 5] } { fs := fs, budget := 100 } with
     | .ok seg s' => (seg.position, seg.lastOffset, seg.idxPos, s'.fs.log? ⟨0, .plain⟩ == some [.msg r0])
     | _ => (0, 0, 0, false)) = (46, 0, 1, true) := by
  decide +kernel

/-- The same directory on the unrepaired shape: the position is the file size (97) while the last
offset comes from the index — the next append would reuse offset 1 behind the unindexed record. -/
example :
    let r0 : Rec := { offset := 0, ts := 10, epoch := 1, body := ⟨b1 0x61, b1 0x62, []⟩ }
    let r1 : Rec := { offset := 1, ts := 11, epoch := 1, body := ⟨b1 0x61, b1 0x63, []⟩ }
    let fs : FS := { logs := [(⟨0, .plain⟩, [.msg r0, .msg r1, .junk 5])],
                     idxs := [(⟨0, .plain⟩, { slots := Seg.entriesFrom 0 [r0], size := 1 })] }
    (match setupIndexM Shape.unfixed { base := 0, position := chunksSize [.msg r0, .msg r1, .junk 5] } { fs := fs, budget := 100 } with
     | .ok seg _ => (seg.position, seg.nextOffset)
     | _ => (0, 0)) = (97, 1) := by
  decide +kernel

/-- Non-vacuity of `open_rebuilds_stale_index`: a one-record log under a two-entry index of an
older, longer version of the segment; the index is rebuilt. -/
example :
    let r0 : Rec := { offset := 0, ts := 10, epoch := 1, body := ⟨b1 0x61, b1 0x62, []⟩ }
    let r1 : Rec := { offset := 1, ts := 11, epoch := 1, body := ⟨b1 0x61, b1 0x63, []⟩ }
    let fs : FS := { logs := [(⟨0, .plain⟩, [.msg r0])],
                     idxs := [(⟨0, .plain⟩, { slots := Seg.entriesFrom 0 [r0, r1], size := 2 })] }
    (match setupIndexM Shape.fixed { base := 0, position := chunksSize [.msg r0] } { fs := fs, budget := 100 } with
     | .ok seg s' => (seg.lastOffset, seg.idxPos, ((s'.fs.idx? ⟨0, .plain⟩).map (·.slots.length)))
     | _ => (9, 9, none)) = (0, 1, some 1) := by
  decide +kernel

/-- Non-vacuity of `C05_partial_hw`: a HW of 1 is set and checkpointed, raised to 2 in memory, and
the process is killed in the next append: the recovered HW is 1, the HW before the crash 2. -/
example :
    let ops : List Op := [.append 1 10 [⟨b1 0x61, b1 1⟩, ⟨b1 0x62, b1 2⟩, ⟨b1 0x63, b1 3⟩], .setHW 1, .checkpointHW, .setHW 2, .append 1 20 [⟨b1 0x61, b1 4⟩]]
    (match crashAt (cfgOf .fixed 1000) ops 22 with
     | some (fs, n, hwB) => (n, hwB, (match recover (cfgOf .fixed 1000) fs with | .ok (m, _) => m.hw | _ => (99 : Int)))
     | none => (0, (0 : Int), (0 : Int))) = (4, 2, 1) := by
  decide +kernel

/-- Non-vacuity of `initializePosition_exact`: a shrunk index with two entries. -/
example : initPosition { slots := [⟨5, 10, 0, 47⟩, ⟨6, 11, 47, 45⟩], size := 2 } 5 = .ok 2 (some ⟨6, 11, 47, 45⟩) := by
  decide +kernel

/-- BOUNDED: every crash step of an append / roll / HW-checkpoint / reopen workload on the repaired
shape (three segments of ~100 bytes). -/
example : ∀ k < 110, crashOK (cfgOf .fixed 100)
    [.append 1 10 [⟨b1 0x61, b1 1⟩, ⟨none, b1 2⟩], .append 1 20 [⟨b1 0x61, b1 3⟩], .setHW 1, .checkpointHW,
     .append 2 30 [⟨b1 0x62, b1 4⟩], .reopen, .append 3 40 [⟨b1 0x61, b1 5⟩]] k = true := by
  decide +kernel

/-- BOUNDED: every crash step of a truncate workload (inside a segment, with a later segment to
delete) on the repaired shape. -/
example : ∀ k < 140, crashOK (cfgOf .fixed 90)
    [.append 1 10 [⟨b1 0x61, b1 1⟩, ⟨b1 0x62, b1 2⟩], .append 1 20 [⟨b1 0x61, b1 3⟩],
     .append 2 30 [⟨b1 0x62, b1 4⟩, ⟨b1 0x63, b1 5⟩], .truncate 3, .append 3 50 [⟨b1 0x61, b1 6⟩]] k = true := by
  decide +kernel

/-- BOUNDED: every crash step of a compaction workload (keys overwritten across segments, HW in
the middle) on the repaired shape. -/
example : ∀ k < 150, crashOK { shape := .fixed, maxSegBytes := 60, compact := true }
    [.append 1 10 [⟨b1 0x61, b1 1⟩], .append 1 20 [⟨b1 0x61, b1 2⟩], .append 1 30 [⟨b1 0x62, b1 3⟩],
     .append 2 40 [⟨b1 0x61, b1 4⟩], .setHW 3, .clean 0] k = true := by
  decide +kernel

end Liftbridge.Props.C05
