/-
C15 at the level of the function bodies: the permission check of every client-facing handler of
`server/api.go`, translated from the code, comes before every effect of that handler.

`Gen/GoAuthz.lean` is regenerated on every run from the bodies of `apiServer.ensureAuthorizationPermission`
and of the unary handlers. The callees a handler does not own (the metadata API, the cursor manager, the
publish path, `ctx.Value`, the policy enforcer) are external calls: each one is RECORDED in the effect trace
of the run, and their answers are parameters of the theorems.

For every handler with a permission check, every request, and every caller that the check refuses (no client
id in the context, an empty one, a value of another type, a policy that says no, a policy evaluation that
fails): the handler returns a non-nil error and its complete trace of external calls is the check itself -
`ctx.Value`, then (with an id) `enforcePolicy` - plus, for the handlers that validate first, read-only
look-ups. No metadata operation, no cursor operation, no publish. With authorisation switched off, or a
granted caller, the operation is reached.

`JoinConsumerGroup` / `LeaveConsumerGroup` have no check in their bodies (known finding of C15): their trace
reaches the metadata API whatever the caller - stated here as theorems about the translated code, so that the
finding is tied to the code the same way.
-/
import Liftbridge.Proofs.GoCodeBase
import Liftbridge.Gen.GoAuthz

namespace Liftbridge.Props.GoAuthz
open Liftbridge Liftbridge.GoMini Liftbridge.GoCode
open Liftbridge.Gen.GoAuthz

/-- every construct of the translated functions is inside the subset -/
theorem translation_complete : unsupported = [] := rfl

/-- who calls, and what the policy engine answers for this (client, resource, action) -/
inductive Caller
  | noId                                   -- nothing under "clientID" in the context
  | wrongType (n : Int)                    -- something that is not a string
  | emptyId
  | denied (id : String)                   -- the policy says no
  | failed (id : String) (e : String)      -- the policy evaluation fails
  | granted (id : String)

def Caller.value : Caller → Val
  | .noId => .nil
  | .wrongType n => .int n
  | .emptyId => .str ""
  | .denied id | .failed id _ | .granted id => .str id

def Caller.verdict : Caller → Val
  | .failed _ e => .tup [.bool false, .str e]
  | .granted _ => .tup [.bool true, .nil]
  | _ => .tup [.bool false, .nil]

/-- the caller carries a usable id (what the TLS layer puts into the context of an identified client) -/
def Caller.hasId : Caller → Prop
  | .denied id | .failed id _ | .granted id => id ≠ ""
  | _ => True

def Caller.refused : Caller → Bool
  | .granted _ => false
  | _ => true

/-- the check's own external calls for this caller -/
def Caller.trace : Caller → List String
  | .noId | .wrongType _ | .emptyId => ["Value"]
  | _ => ["Value", "enforcePolicy"]

/-- `ctx.Value` and the policy engine answer for the caller; everything else is `rest` -/
def authzExt (c : Caller) (rest : Ext) : Ext := fun f args eff =>
  if f = "Value" then some c.value
  else if f = "enforcePolicy" then some c.verdict
  else if f = "status.Error" then some (.str "status")      -- constructs an error value
  else rest f args eff

/-- the api server: authorisation on/off and the objects it delegates to -/
def encApi (authz : Bool) : Val :=
  .struct [("config", .struct [("TLSClientAuthz", .bool authz)]), ("metadata", .struct [("kind", .str "metadata")]),
           ("cursors", .struct [("kind", .str "cursors")])]

def ctxV : Val := .str "ctx"

def globals : List (String × Val) :=
  [("codes.InvalidArgument", .int 3), ("codes.NotFound", .int 5), ("codes.AlreadyExists", .int 6)]

/-- (is the returned error nil?, the names of the external calls in order) -/
def view : R Out → Option (Bool × List String)
  | .ok o => some (match o.rets with | [_, e] => isNil e | [e] => isNil e | _ => false, o.eff.map (·.1))
  | _ => none

/-! ### the check itself -/

set_option maxRecDepth 8000 in
set_option maxHeartbeats 1600000 in
/-- authorisation off: nil, and nobody is asked -/
theorem go_ensure_off (c : Caller) (rest : Ext) (stream method : String) :
    view (runG prog (authzExt c rest) 40 "ensureAuthorizationPermission" (some (encApi false))
      [ctxV, .str stream, .str method] globals) = some (true, []) := by
  simp [runG, fn_apiServer_ensureAuthorizationPermission, prog, gomini, encApi, view, isNil, globals]

set_option maxRecDepth 8000 in
set_option maxHeartbeats 1600000 in
/-- authorisation on: an error exactly for the refused callers; the policy is asked only with an id -/
theorem go_ensure_on (c : Caller) (hc : c.hasId) (rest : Ext) (stream method : String) :
    view (runG prog (authzExt c rest) 40 "ensureAuthorizationPermission" (some (encApi true))
      [ctxV, .str stream, .str method] globals) = some (!c.refused, c.trace) := by
  cases c <;> simp only [Caller.hasId] at hc <;>
    simp [runG, fn_apiServer_ensureAuthorizationPermission, prog, gomini, encApi, view, isNil, authzExt, ctxV, builtin,
      Caller.value, Caller.verdict, Caller.refused, Caller.trace, binVal, globals, convert, binInt, hc]

/-! ### handlers whose first step is the check -/

def reqNamed (name : String) (parts : List Val) (flag : Bool) : Val :=
  .struct [("Name", .str name), ("Partitions", .list parts), ("ResumeAll", .bool flag), ("Readonly", .bool flag)]

set_option maxRecDepth 8000 in
set_option maxHeartbeats 1600000 in
/-- DeleteStream by a refused caller: an error, and nothing but the check happened -/
theorem go_DeleteStream_refused (c : Caller) (hc : c.hasId) (hr : c.refused = true) (rest : Ext) (name : String) (parts : List Val) (flag : Bool) :
    view (runG prog (authzExt c rest) 60 "DeleteStream" (some (encApi true)) [ctxV, reqNamed name parts flag] globals)
      = some (false, c.trace) := by
  cases c <;> simp only [Caller.hasId] at hc <;> simp [Caller.refused] at hr <;>
    simp [runG, fn_apiServer_DeleteStream, fn_apiServer_ensureAuthorizationPermission, prog, gomini, encApi, view, isNil, authzExt, ctxV, builtin,
      Caller.value, Caller.verdict, Caller.trace, binVal, globals, binInt, reqNamed, hc]

set_option maxRecDepth 8000 in
set_option maxHeartbeats 1600000 in
/-- PauseStream by a refused caller: an error, and nothing but the check happened (no stream looked up, nothing proposed) -/
theorem go_PauseStream_refused (c : Caller) (hc : c.hasId) (hr : c.refused = true) (rest : Ext) (name : String) (parts : List Val) (flag : Bool) :
    view (runG prog (authzExt c rest) 60 "PauseStream" (some (encApi true)) [ctxV, reqNamed name parts flag] globals)
      = some (false, c.trace) := by
  cases c <;> simp only [Caller.hasId] at hc <;> simp [Caller.refused] at hr <;>
    simp [runG, fn_apiServer_PauseStream, fn_apiServer_ensureAuthorizationPermission, prog, gomini, encApi, view, isNil, authzExt, ctxV, builtin,
      Caller.value, Caller.verdict, Caller.trace, binVal, globals, binInt, hc, reqNamed]

set_option maxRecDepth 8000 in
set_option maxHeartbeats 1600000 in
/-- SetStreamReadonly by a refused caller -/
theorem go_SetStreamReadonly_refused (c : Caller) (hc : c.hasId) (hr : c.refused = true) (rest : Ext) (name : String) (parts : List Val) (flag : Bool) :
    view (runG prog (authzExt c rest) 60 "SetStreamReadonly" (some (encApi true)) [ctxV, reqNamed name parts flag] globals)
      = some (false, c.trace) := by
  cases c <;> simp only [Caller.hasId] at hc <;> simp [Caller.refused] at hr <;>
    simp [runG, fn_apiServer_SetStreamReadonly, fn_apiServer_ensureAuthorizationPermission, prog, gomini, encApi, view, isNil, authzExt, ctxV, builtin,
      Caller.value, Caller.verdict, Caller.trace, binVal, globals, binInt, hc, reqNamed]

set_option maxRecDepth 8000 in
set_option maxHeartbeats 1600000 in
/-- FetchMetadata by a refused caller (resource `*`) -/
theorem go_FetchMetadata_refused (c : Caller) (hc : c.hasId) (hr : c.refused = true) (rest : Ext) (req : Val) :
    view (runG prog (authzExt c rest) 60 "FetchMetadata" (some (encApi true)) [ctxV, req] globals)
      = some (false, c.trace) := by
  cases c <;> simp only [Caller.hasId] at hc <;> simp [Caller.refused] at hr <;>
    simp [runG, fn_apiServer_FetchMetadata, fn_apiServer_ensureAuthorizationPermission, prog, gomini, encApi, view, isNil, authzExt, ctxV, builtin,
      Caller.value, Caller.verdict, Caller.trace, binVal, globals, binInt, hc]

def reqStream (stream cursor inbox : String) (part off : Int) : Val :=
  .struct [("Stream", .str stream), ("CursorId", .str cursor), ("Partition", .int part), ("Offset", .int off),
           ("Subject", .str stream), ("AckInbox", .str inbox)]

set_option maxRecDepth 8000 in
set_option maxHeartbeats 1600000 in
/-- FetchPartitionMetadata by a refused caller -/
theorem go_FetchPartitionMetadata_refused (c : Caller) (hc : c.hasId) (hr : c.refused = true) (rest : Ext) (stream cursor inbox : String) (part off : Int) :
    view (runG prog (authzExt c rest) 60 "FetchPartitionMetadata" (some (encApi true)) [ctxV, reqStream stream cursor inbox part off] globals)
      = some (false, c.trace) := by
  cases c <;> simp only [Caller.hasId] at hc <;> simp [Caller.refused] at hr <;>
    simp [runG, fn_apiServer_FetchPartitionMetadata, fn_apiServer_ensureAuthorizationPermission, prog, gomini, encApi, view, isNil, authzExt, ctxV, builtin,
      Caller.value, Caller.verdict, Caller.trace, binVal, globals, binInt, hc, reqStream]

set_option maxRecDepth 8000 in
set_option maxHeartbeats 1600000 in
/-- SetCursor (a well-formed request) by a refused caller: the cursor manager is never called -/
theorem go_SetCursor_refused (c : Caller) (hc : c.hasId) (hr : c.refused = true) (rest : Ext) (stream cursor inbox : String) (part off : Int) (hs : stream ≠ "") (hk : cursor ≠ "") :
    view (runG prog (authzExt c rest) 60 "SetCursor" (some (encApi true)) [ctxV, reqStream stream cursor inbox part off] globals)
      = some (false, c.trace) := by
  cases c <;> simp only [Caller.hasId] at hc <;> simp [Caller.refused] at hr <;>
    simp [runG, fn_apiServer_SetCursor, fn_apiServer_ensureAuthorizationPermission, prog, gomini, encApi, view, isNil, authzExt, ctxV, builtin,
      Caller.value, Caller.verdict, Caller.trace, binVal, globals, binInt, hc, reqStream, hs, hk]

set_option maxRecDepth 8000 in
set_option maxHeartbeats 1600000 in
/-- FetchCursor (a well-formed request) by a refused caller: the cursor manager is never asked -/
theorem go_FetchCursor_refused (c : Caller) (hc : c.hasId) (hr : c.refused = true) (rest : Ext) (stream cursor inbox : String) (part off : Int) (hs : stream ≠ "") (hk : cursor ≠ "") :
    view (runG prog (authzExt c rest) 60 "FetchCursor" (some (encApi true)) [ctxV, reqStream stream cursor inbox part off] globals)
      = some (false, c.trace) := by
  cases c <;> simp only [Caller.hasId] at hc <;> simp [Caller.refused] at hr <;>
    simp [runG, fn_apiServer_FetchCursor, fn_apiServer_ensureAuthorizationPermission, prog, gomini, encApi, view, isNil, authzExt, ctxV, builtin,
      Caller.value, Caller.verdict, Caller.trace, binVal, globals, binInt, hc, reqStream, hs, hk]

/-- `getPublishSubject` (a read-only look-up of the stream's subject) answers `gs` -/
def pubExt (gs : Val) (c : Caller) (rest : Ext) : Ext := fun f args eff =>
  if f = "getPublishSubject" then some gs
  else if f = "getAckInbox" then some (.str "_INBOX.1")      -- a fresh inbox NAME (nothing is subscribed or sent)
  else authzExt c rest f args eff

set_option maxRecDepth 8000 in
set_option maxHeartbeats 1600000 in
/-- Publish by a refused caller: after the read-only subject look-up only the check happened - `publishAuthorized` (validation, RESUME of a paused stream, the NATS publish) is never entered -/
theorem go_Publish_refused (c : Caller) (hc : c.hasId) (hr : c.refused = true) (rest : Ext) (stream cursor inbox : String) (part off : Int) (subj : String) :
    view (runG prog (pubExt (.tup [.str subj, .nil]) c rest) 60 "Publish" (some (encApi true)) [ctxV, reqStream stream cursor inbox part off] globals)
      = some (false, "getPublishSubject" :: c.trace) := by
  cases c <;> simp only [Caller.hasId] at hc <;> simp [Caller.refused] at hr <;>
    simp [runG, fn_apiServer_Publish, fn_apiServer_ensureAuthorizationPermission, prog, gomini, encApi, view, isNil, authzExt, ctxV, builtin,
      Caller.value, Caller.verdict, Caller.trace, binVal, globals, binInt, hc, reqStream, pubExt]

set_option maxRecDepth 8000 in
set_option maxHeartbeats 1600000 in
/-- PublishToSubject (with an ack inbox) by a refused caller: nothing is published -/
theorem go_PublishToSubject_refused (c : Caller) (hc : c.hasId) (hr : c.refused = true) (rest : Ext) (stream cursor inbox : String) (part off : Int) (hi : inbox ≠ "") :
    view (runG prog (pubExt .nil c rest) 60 "PublishToSubject" (some (encApi true)) [ctxV, reqStream stream cursor inbox part off] globals)
      = some (false, c.trace) := by
  cases c <;> simp only [Caller.hasId] at hc <;> simp [Caller.refused] at hr <;>
    simp [runG, fn_apiServer_PublishToSubject, fn_apiServer_ensureAuthorizationPermission, prog, gomini, encApi, view, isNil, authzExt, ctxV, builtin,
      Caller.value, Caller.verdict, Caller.trace, binVal, globals, binInt, hc, reqStream, pubExt, hi]

/-! ### CreateStream: validation, then the check, then the stream is built -/

def reqCreate (name subject : String) (parts rf : Int) : Val :=
  .struct [("Name", .str name), ("Subject", .str subject), ("Partitions", .int parts), ("ReplicationFactor", .int rf), ("Group", .str "")]

/-- the two syntactic predicates on the request answer `valid` / `reserved` -/
def createExt (valid reserved : Bool) (c : Caller) (rest : Ext) : Ext := fun f args eff =>
  if f = "isValidSubject" then some (.bool valid)
  else if f = "isReservedStream" then some (.bool reserved)
  else authzExt c rest f args eff

set_option maxRecDepth 8000 in
set_option maxHeartbeats 1600000 in
/-- CreateStream (well-formed, any partition count ≥ 0) by a refused caller: an error; besides the two read-only
predicates on the request only the check happened - no partition list is built, nothing is proposed -/
theorem go_CreateStream_refused (c : Caller) (hc : c.hasId) (hr : c.refused = true) (rest : Ext) (name subject : String) (parts rf : Int)
    (hn : name ≠ "") (hs : subject ≠ "") (hp : 0 ≤ parts) :
    view (runG prog (createExt true false c rest) 60 "CreateStream" (some (encApi true)) [ctxV, reqCreate name subject parts rf] globals)
      = some (false, "isValidSubject" :: "isReservedStream" :: c.trace) := by
  have hp' : ¬ parts < 0 := by omega
  by_cases h0 : parts = 0 <;> by_cases h1 : rf = 0 <;>
  cases c <;> simp only [Caller.hasId] at hc <;> simp [Caller.refused] at hr <;>
    simp [runG, fn_apiServer_CreateStream, fn_apiServer_ensureAuthorizationPermission, prog, gomini, encApi, view, isNil, authzExt, ctxV, builtin,
      Caller.value, Caller.verdict, Caller.trace, binVal, globals, binInt, reqCreate, createExt, hc, hn, hs, hp', h0, h1]

set_option maxRecDepth 8000 in
set_option maxHeartbeats 1600000 in
/-- a NEGATIVE partition count is refused as an invalid request, whoever sends it, before anything is allocated
(before the repair `make` panicked here - in the handler goroutine of the gRPC server, for authorised and
unauthorised callers alike) -/
theorem go_CreateStream_negative (c : Caller) (authz : Bool) (rest : Ext) (name subject : String) (parts rf : Int)
    (hn : name ≠ "") (hs : subject ≠ "") (hp : parts < 0) :
    view (runG prog (createExt true false c rest) 60 "CreateStream" (some (encApi authz)) [ctxV, reqCreate name subject parts rf] globals)
      = some (false, ["isValidSubject", "isReservedStream", "status.Error"]) := by
  have h0 : parts ≠ 0 := by omega
  by_cases h1 : rf = 0 <;>
    simp [runG, fn_apiServer_CreateStream, prog, gomini, encApi, view, isNil, authzExt, ctxV, builtin,
      binVal, globals, binInt, reqCreate, createExt, hn, hs, hp, h0, h1]

/-! ### the operation IS reached by a granted caller, and with authorisation off (the check is not vacuous) -/

/-- the delegates answer "fine": not a reserved stream, operations succeed -/
def okExt : Ext := fun f _ _ =>
  if f = "isReservedStream" then some (.bool false)
  else if f = "metadata.FetchMetadata" ∨ f = "metadata.FetchPartitionMetadata" ∨ f = "cursors.GetCursor" then some (.tup [.int 7, .nil])
  else if f = "publishAuthorized" then some (.tup [.str "resp", .nil])
  else if f = "metadata.JoinConsumerGroup" then some (.tup [.str "coordinator", .int 1, .nil])
  else some .nil

set_option maxRecDepth 8000 in
set_option maxHeartbeats 1600000 in
theorem go_DeleteStream_granted (id : String) (hid : id ≠ "") (name : String) (parts : List Val) (flag : Bool) :
    view (runG prog (authzExt (.granted id) okExt) 60 "DeleteStream" (some (encApi true)) [ctxV, reqNamed name parts flag] globals)
      = some (true, ["Value", "enforcePolicy", "isReservedStream", "metadata.DeleteStream"]) := by
  simp [runG, fn_apiServer_DeleteStream, fn_apiServer_ensureAuthorizationPermission, prog, gomini, encApi, view, isNil, authzExt, ctxV, builtin,
    Caller.value, Caller.verdict, binVal, globals, binInt, reqNamed, hid, okExt]

set_option maxRecDepth 8000 in
set_option maxHeartbeats 1600000 in
theorem go_DeleteStream_authz_off (c : Caller) (name : String) (parts : List Val) (flag : Bool) :
    view (runG prog (authzExt c okExt) 60 "DeleteStream" (some (encApi false)) [ctxV, reqNamed name parts flag] globals)
      = some (true, ["isReservedStream", "metadata.DeleteStream"]) := by
  simp [runG, fn_apiServer_DeleteStream, fn_apiServer_ensureAuthorizationPermission, prog, gomini, encApi, view, isNil, authzExt, ctxV, builtin,
    binVal, globals, binInt, reqNamed, okExt]

set_option maxRecDepth 8000 in
set_option maxHeartbeats 1600000 in
theorem go_SetCursor_granted (id : String) (hid : id ≠ "") (stream cursor inbox : String) (part off : Int) (hs : stream ≠ "") (hk : cursor ≠ "") :
    view (runG prog (authzExt (.granted id) okExt) 60 "SetCursor" (some (encApi true)) [ctxV, reqStream stream cursor inbox part off] globals)
      = some (true, ["Value", "enforcePolicy", "cursors.SetCursor"]) := by
  simp [runG, fn_apiServer_SetCursor, fn_apiServer_ensureAuthorizationPermission, prog, gomini, encApi, view, isNil, authzExt, ctxV, builtin,
    Caller.value, Caller.verdict, binVal, globals, binInt, reqStream, hid, okExt, hs, hk]

set_option maxRecDepth 8000 in
set_option maxHeartbeats 1600000 in
/-- a granted Publish enters `publishAuthorized` - after the check -/
theorem go_Publish_granted (id : String) (hid : id ≠ "") (stream cursor inbox : String) (part off : Int) (subj : String) :
    (view (runG prog (pubExt (.tup [.str subj, .nil]) (.granted id) okExt) 60 "Publish" (some (encApi true))
      [ctxV, reqStream stream cursor inbox part off] globals)).map (·.2)
      = some ["getPublishSubject", "Value", "enforcePolicy", "publishAuthorized"] := by
  simp [runG, fn_apiServer_Publish, fn_apiServer_ensureAuthorizationPermission, prog, gomini, encApi, view, isNil, authzExt, ctxV, builtin,
    Caller.value, Caller.verdict, binVal, globals, binInt, reqStream, hid, okExt, pubExt]

/-! ### the server's own publish path has no client check (it has no client), and is not an RPC -/

set_option maxRecDepth 8000 in
set_option maxHeartbeats 1600000 in
/-- `publishInternal` (activity events): never asks for a client id or a policy, whatever the context holds -/
theorem go_publishInternal_unchecked (c : Caller) (stream cursor inbox : String) (part off : Int) (subj : String) :
    (view (runG prog (pubExt (.tup [.str subj, .nil]) c okExt) 60 "publishInternal" (some (encApi true))
      [ctxV, reqStream stream cursor inbox part off] globals)).map (·.2)
      = some ["getPublishSubject", "publishAuthorized"] := by
  simp [runG, fn_apiServer_publishInternal, prog, gomini, encApi, view, isNil, authzExt, ctxV, builtin,
    binVal, globals, binInt, reqStream, okExt, pubExt]

/-! ### the known finding, on the translated code: the consumer-group handlers contain no check -/

def reqGroup (group consumer : String) (streams : List Val) : Val :=
  .struct [("GroupId", .str group), ("ConsumerId", .str consumer), ("Streams", .list streams)]

def encApiG (authz : Bool) : Val :=
  .struct [("config", .struct [("TLSClientAuthz", .bool authz), ("Groups", .struct [("ConsumerTimeout", .int 5), ("CoordinatorTimeout", .int 5)])]),
           ("metadata", .struct [("kind", .str "metadata")]), ("cursors", .struct [("kind", .str "cursors")])]

set_option maxRecDepth 8000 in
set_option maxHeartbeats 1600000 in
/-- JoinConsumerGroup with authorisation ON, by ANY caller (also one every checked handler refuses): the metadata API
is reached and neither the client id nor the policy is looked at (known finding `group-rpcs-unchecked`) -/
theorem go_JoinConsumerGroup_unchecked (c : Caller) (group consumer : String) (s0 : Val) (streams : List Val)
    (hg : group ≠ "") (hk : consumer ≠ "") :
    view (runG prog (authzExt c okExt) 60 "JoinConsumerGroup" (some (encApiG true)) [ctxV, reqGroup group consumer (s0 :: streams)] globals)
      = some (true, ["metadata.JoinConsumerGroup"]) := by
  simp [runG, fn_apiServer_JoinConsumerGroup, prog, gomini, encApiG, view, isNil, authzExt, ctxV, builtin,
    binVal, globals, binInt, reqGroup, okExt, hg, hk, convert]

set_option maxRecDepth 8000 in
set_option maxHeartbeats 1600000 in
theorem go_LeaveConsumerGroup_unchecked (c : Caller) (group consumer : String) (streams : List Val)
    (hg : group ≠ "") (hk : consumer ≠ "") :
    view (runG prog (authzExt c okExt) 60 "LeaveConsumerGroup" (some (encApiG true)) [ctxV, reqGroup group consumer streams] globals)
      = some (true, ["metadata.LeaveConsumerGroup"]) := by
  simp [runG, fn_apiServer_LeaveConsumerGroup, prog, gomini, encApiG, view, isNil, authzExt, ctxV, builtin,
    binVal, globals, binInt, reqGroup, okExt, hg, hk]

end Liftbridge.Props.GoAuthz
