/-
C10 at the level of the function bodies: `commitLog.EarliestOffsetAfterTimestamp` and `commitLog.LatestOffsetBeforeTimestamp`
(server/commitlog/commitlog.go) - where a subscription that starts or stops at a timestamp begins / ends - translated from
the code. `Gen/GoTimestamps.lean` is regenerated on every run. Eight of the repaired C10 defects sat in these two functions
and their callees.

The callees are parameters: `findSegmentIndexByTimestamp(segments, ts, inclusive)` answers `(idx, err)` (any function of the
flag - so the theorems also fix WHICH of the two searches each function uses), the per-segment searches
`findEntryByTimestamp` / `findLatestEntryByTimestamp` answer found / ErrEntryNotFound / io.EOF / another error, per segment.

`go_EarliestOffsetAfterTimestamp`, `go_LatestOffsetBeforeTimestamp`: for EVERY non-empty segment list, every index the
segment search may return (`idx <= len`, what `sort.Search` guarantees) and every combination of answers, the translated
body returns exactly the decision `earliestSpec` / `latestSpec`:
  earliest: EOF from the segment search -> next offset of the last segment; otherwise the segment BEFORE the one found
  (the first for idx = 0) is searched first; not found / EOF there -> the segment found, if there is one; not found there
  either -> next offset of the last segment; any other error is returned.
  latest: an error of the segment search is returned; idx = 0 with an empty first segment or a timestamp before its first
  write -> error; otherwise the answer of the latest-entry search of the segment before the one found.
`model_earliest`, `model_latest`: the model's `Subscribe.earliestAfterTs` / `latestBeforeTs` (which the C10 theorems are
about, and whose comparison operators are regenerated) are these decisions with the model's own searches as the answers.
Hypotheses: the log has at least one segment (`New` creates one, retention never deletes the last one) and the segment
index is within `[0, len]`.
-/
import Liftbridge.Proofs.GoCodeBase
import Liftbridge.Gen.GoTimestamps
import Liftbridge.Model.Subscribe

set_option linter.unusedSimpArgs false

namespace Liftbridge.Props.GoTimestamps
open Liftbridge Liftbridge.GoMini Liftbridge.GoCode
open Liftbridge.Gen.GoTimestamps

theorem translation_complete : unsupported = [] := rfl

theorem binVal_int (op : String) (a b : Int) : binVal op (Val.int a) (Val.int b) = binInt op a b := rfl
@[simp] theorem lk_latest : evalE.lookup' "LatestOffsetBeforeTimestamp" prog = some fn_commitLog_LatestOffsetBeforeTimestamp := by simp [prog, gomini]
@[simp] theorem lk_earliest : evalE.lookup' "EarliestOffsetAfterTimestamp" prog = some fn_commitLog_EarliestOffsetAfterTimestamp := by simp [prog, gomini]
@[simp] theorem lk_fsi : evalE.lookup' "findSegmentIndexByTimestamp" prog = none := by simp [prog, gomini]
@[simp] theorem lk_fe : evalE.lookup' "findEntryByTimestamp" prog = none := by simp [prog, gomini]
@[simp] theorem lk_fle : evalE.lookup' "findLatestEntryByTimestamp" prog = none := by simp [prog, gomini]
@[simp] theorem lk_wrap : evalE.lookup' "errors.Wrap" prog = none := by simp [prog, gomini]
@[simp] theorem lk_IsEmpty : evalE.lookup' "IsEmpty" prog = none := by simp [prog, gomini]
@[simp] theorem lk_FirstWriteTime : evalE.lookup' "FirstWriteTime" prog = none := by simp [prog, gomini]
@[simp] theorem lk_NextOffset : evalE.lookup' "NextOffset" prog = none := by simp [prog, gomini]
@[simp] theorem lk_new : evalE.lookup' "errors.New" prog = none := by simp [prog, gomini]

/-- what a per-segment entry search answers -/
inductive Ans where
  | found (offset : Int)
  | notFound          -- ErrEntryNotFound
  | eof               -- io.EOF
  | failed            -- any other error
  deriving DecidableEq, Repr

/-- a segment as the two functions see it: accessor values and the answers of its entry searches for the timestamp of the call -/
structure SegA where
  nextOffset : Int
  isEmpty : Bool
  firstWriteTime : Int
  ansE : Ans          -- findEntryByTimestamp(ts)
  ansL : Ans          -- findLatestEntryByTimestamp(ts)
  deriving Repr

def encAns : Ans → Val
  | .found o => .tup [.struct [("Offset", .int o)], .nil]
  | .notFound => .tup [.nil, .str "ErrEntryNotFound"]
  | .eof => .tup [.nil, .str "io.EOF"]
  | .failed => .tup [.nil, .str "some other error"]

def encSegA (s : SegA) : Val :=
  .struct [("NextOffset", .int s.nextOffset), ("IsEmpty", .bool s.isEmpty), ("FirstWriteTime", .int s.firstWriteTime),
           ("ansE", encAns s.ansE), ("ansL", encAns s.ansL)]

def encLog (segs : List SegA) : Val := .struct [("segments", .list (segs.map encSegA))]

/-- error returned next to the segment index -/
inductive ErrK where | none | eof | failed
  deriving DecidableEq, Repr

def encErrK : ErrK → Val
  | .none => .nil
  | .eof => .str "io.EOF"
  | .failed => .str "some other error"

def globals : List (String × Val) := [("io.EOF", .str "io.EOF"), ("ErrEntryNotFound", .str "ErrEntryNotFound")]

/-- the un-translated callees: the segment search answers `segIdx inclusive`, an entry search what the segment says -/
def tsExt (segIdx : Bool → Nat × ErrK) : Ext := fun f args _ =>
  if f = "findSegmentIndexByTimestamp" then
    match args with
    | [_, _, .bool incl] => some (.tup [.int (segIdx incl).1, encErrK (segIdx incl).2])
    | _ => none
  else if f = "findEntryByTimestamp" then
    match args with
    | [.struct fs, _] => lookup "ansE" fs
    | _ => none
  else if f = "findLatestEntryByTimestamp" then
    match args with
    | [.struct fs, _] => lookup "ansL" fs
    | _ => none
  else none

/-- outcome: an offset, or an error -/
inductive Outcome where
  | offset (o : Int)
  | error
  deriving DecidableEq, Repr

def view : R Out → Option Outcome
  | .ok o => match o.rets with
    | [.int v, .nil] => some (.offset v)
    | [.int 0, .str _] => some .error
    | _ => none
  | _ => none

/-- `LatestOffsetBeforeTimestamp`, as a decision over what the callees answer -/
def latestSpec (segs : List SegA) (ts : Int) (idx : Nat) (err : ErrK) : Option Outcome :=
  if err ≠ .none then some .error else
  match (if idx = 0 then segs[0]? else segs[idx - 1]?) with
  | none => none
  | some seg =>
    if idx = 0 ∧ (seg.isEmpty ∨ ts < seg.firstWriteTime) then some .error else
    match seg.ansL with
    | .found o => some (.offset o)
    | _ => some .error

set_option maxRecDepth 8000 in
set_option maxHeartbeats 2000000 in
theorem go_LatestOffsetBeforeTimestamp (segs : List SegA) (ts : Int) (segIdx : Bool → Nat × ErrK)
    (hne : segs ≠ []) (hidx : (segIdx false).1 ≤ segs.length) :
    view (runG prog (tsExt segIdx) 30 "LatestOffsetBeforeTimestamp" (some (encLog segs)) [.int ts] globals) =
      latestSpec segs ts (segIdx false).1 (segIdx false).2 := by
  generalize hs : segIdx false = r at *
  obtain ⟨idx, err⟩ := r
  cases err
  · cases idx with
    | zero =>
      obtain ⟨s0, rest, rfl⟩ : ∃ s0 rest, segs = s0 :: rest := by
        cases segs with | nil => exact absurd rfl hne | cons a b => exact ⟨a, b, rfl⟩
      cases hE : s0.isEmpty <;> by_cases hlt : ts < s0.firstWriteTime <;> cases hA : s0.ansL <;>
        simp [runG, fn_commitLog_LatestOffsetBeforeTimestamp, gomini, encLog, view, latestSpec, tsExt, hs, encErrK, globals, builtin, lookup, encSegA,
          binVal_int, binInt, asList, truthy, getField, assignAll, assignTo, hE, hlt, hA, encAns, binVal, isNil]
    | succ j =>
      obtain ⟨s, hsj⟩ : ∃ s, segs[j]? = some s := by
        simp at hidx
        exact ⟨segs[j], by simp [List.getElem?_eq_getElem (by omega : j < segs.length)]⟩
      cases hA : s.ansL <;>
        simp [runG, fn_commitLog_LatestOffsetBeforeTimestamp, gomini, encLog, view, latestSpec, tsExt, hs, encErrK, globals, builtin, lookup, encSegA,
          binVal_int, binInt, asList, truthy, getField, assignAll, assignTo, hA, encAns, binVal, isNil, hsj]
  · simp [runG, fn_commitLog_LatestOffsetBeforeTimestamp, gomini, encLog, view, latestSpec, tsExt, hs, encErrK, globals, builtin, lookup, binVal, isNil]
  · simp [runG, fn_commitLog_LatestOffsetBeforeTimestamp, gomini, encLog, view, latestSpec, tsExt, hs, encErrK, globals, builtin, lookup, binVal, isNil]

/-- the next offset of the last segment ("beyond the end of the log") -/
def lastNext (segs : List SegA) : Option Outcome := (segs[segs.length - 1]?).map fun s => .offset s.nextOffset

/-- `EarliestOffsetAfterTimestamp`, as a decision over what the callees answer -/
def earliestSpec (segs : List SegA) (idx : Nat) (err : ErrK) : Option Outcome :=
  match err with
  | .eof => lastNext segs
  | .failed => some .error
  | .none =>
    match (if idx = 0 then segs[0]? else segs[idx - 1]?) with
    | none => none
    | some seg =>
      match seg.ansE with
      | .found o => some (.offset o)
      | .failed => some .error
      | _ =>
        if idx < segs.length then
          match segs[idx]? with
          | none => none
          | some s2 =>
            match s2.ansE with
            | .found o => some (.offset o)
            | .failed => some .error
            | _ => lastNext segs
        else lastNext segs

theorem exists_last (segs : List SegA) (hne : segs ≠ []) : ∃ m last, segs.length = m + 1 ∧ segs[m]? = some last := by
  cases segs with
  | nil => exact absurd rfl hne
  | cons a b => exact ⟨b.length, (a :: b)[b.length], by simp, by simp⟩

set_option maxRecDepth 8000 in
set_option maxHeartbeats 4000000 in
theorem go_EarliestOffsetAfterTimestamp (segs : List SegA) (ts : Int) (segIdx : Bool → Nat × ErrK)
    (hne : segs ≠ []) (hidx : (segIdx true).1 ≤ segs.length) :
    view (runG prog (tsExt segIdx) 30 "EarliestOffsetAfterTimestamp" (some (encLog segs)) [.int ts] globals) =
      earliestSpec segs (segIdx true).1 (segIdx true).2 := by
  generalize hs : segIdx true = r at *
  obtain ⟨idx, err⟩ := r
  obtain ⟨m, last, hm, hlast⟩ := exists_last segs hne
  cases err
  · -- the segment search succeeded
    have hprev : ∃ s, (if idx = 0 then segs[0]? else segs[idx - 1]?) = some s := by
      simp at hidx
      by_cases h0 : idx = 0
      · subst h0; exact ⟨segs[0], by simp [List.getElem?_eq_getElem (by omega : 0 < segs.length)]⟩
      · exact ⟨segs[idx - 1], by simp [h0, List.getElem?_eq_getElem (by omega : idx - 1 < segs.length)]⟩
    obtain ⟨s, hsj⟩ := hprev
    by_cases hlt : idx < segs.length
    · obtain ⟨s2, hs2⟩ : ∃ s2, segs[idx]? = some s2 := ⟨segs[idx], by simp [List.getElem?_eq_getElem hlt]⟩
      cases idx with
      | zero =>
        simp at hsj
        have e : s2 = s := by rw [hsj] at hs2; exact (Option.some.inj hs2).symm
        subst e
        have hpos : (0 : Int) < (m : Int) + 1 := by omega
        cases hA : s2.ansE <;>
          simp [runG, fn_commitLog_EarliestOffsetAfterTimestamp, gomini, encLog, view, earliestSpec, lastNext, tsExt, hs, encErrK, globals, builtin, lookup, encSegA,
            binVal_int, binInt, asList, truthy, getField, assignAll, assignTo, hA, encAns, binVal, isNil, hsj, hm, hlast, hpos, -getElem?_pos]
      | succ j =>
        simp at hsj
        have hjm : j < m := by omega
        have hnn : ¬ ((j : Int) + 1 < 0) := by omega
        cases hA : s.ansE
        · simp [runG, fn_commitLog_EarliestOffsetAfterTimestamp, gomini, encLog, view, earliestSpec, lastNext, tsExt, hs, encErrK, globals, builtin, lookup, encSegA,
            binVal_int, binInt, asList, truthy, getField, assignAll, assignTo, hA, encAns, binVal, isNil, hsj, hm, hlast, hlt, hs2, hjm, hnn, -getElem?_pos]
        · cases hA2 : s2.ansE <;>
          simp [runG, fn_commitLog_EarliestOffsetAfterTimestamp, gomini, encLog, view, earliestSpec, lastNext, tsExt, hs, encErrK, globals, builtin, lookup, encSegA,
            binVal_int, binInt, asList, truthy, getField, assignAll, assignTo, hA, encAns, binVal, isNil, hsj, hm, hlast, hlt, hs2, hA2, hjm, hnn, -getElem?_pos]
        · cases hA2 : s2.ansE <;>
          simp [runG, fn_commitLog_EarliestOffsetAfterTimestamp, gomini, encLog, view, earliestSpec, lastNext, tsExt, hs, encErrK, globals, builtin, lookup, encSegA,
            binVal_int, binInt, asList, truthy, getField, assignAll, assignTo, hA, encAns, binVal, isNil, hsj, hm, hlast, hlt, hs2, hA2, hjm, hnn, -getElem?_pos]
        · simp [runG, fn_commitLog_EarliestOffsetAfterTimestamp, gomini, encLog, view, earliestSpec, lastNext, tsExt, hs, encErrK, globals, builtin, lookup, encSegA,
            binVal_int, binInt, asList, truthy, getField, assignAll, assignTo, hA, encAns, binVal, isNil, hsj, hm, hlast, hlt, hs2, hjm, hnn, -getElem?_pos]
    · have hidx' : idx = m + 1 := by simp at hidx; omega
      subst hidx'
      simp at hsj
      cases hA : s.ansE <;>
        simp [runG, fn_commitLog_EarliestOffsetAfterTimestamp, gomini, encLog, view, earliestSpec, lastNext, tsExt, hs, encErrK, globals, builtin, lookup, encSegA,
            binVal_int, binInt, asList, truthy, getField, assignAll, assignTo, hA, encAns, binVal, isNil, hsj, hm, hlast, hlt, -getElem?_pos]
  · simp [runG, fn_commitLog_EarliestOffsetAfterTimestamp, gomini, encLog, view, earliestSpec, lastNext, tsExt, hs, encErrK, globals, builtin, lookup, binVal, isNil,
      binVal_int, binInt, asList, truthy, getField, hm, hlast, encSegA]
  · simp [runG, fn_commitLog_EarliestOffsetAfterTimestamp, gomini, encLog, view, earliestSpec, lastNext, tsExt, hs, encErrK, globals, builtin, lookup, binVal, isNil]

/-! ### the model's look-ups are these decisions -/
open Liftbridge.Log Liftbridge.Subscribe

/-- what the model's segment answers for the timestamp -/
def segA (ts : Int) (s : Seg) : SegA :=
  { nextOffset := s.nextOffset, isEmpty := s.isEmpty, firstWriteTime := s.firstTs,
    ansE := match findEntryByTs s ts with | some r => .found r.offset | none => .notFound,
    ansL := .notFound }

def toOutcome : Res Int → Option Outcome
  | .ok o => some (.offset o)
  | .err _ => some .error
  | .panic => none

theorem lastNext_map (ts : Int) (segs : List Seg) (hne : segs ≠ []) :
    lastNext (segs.map (segA ts)) = some (.offset (lastNextOffset segs)) := by
  have h : segs.length - 1 < segs.length := by
    cases segs with | nil => exact absurd rfl hne | cons a b => simp
  simp [lastNext, lastNextOffset, List.getLast?_eq_getElem?, List.getElem?_eq_getElem h, segA]

theorem model_earliest (l : CLog) (ts : Int) (hne : l.segs ≠ []) (idx : Nat) (err : Bool)
    (hr : findSegIdxByTs l.segs ts true = (idx, err)) :
    toOutcome (earliestAfterTs l ts) =
      earliestSpec (l.segs.map (segA ts)) idx (if err then .eof else .none) := by
  unfold earliestAfterTs
  simp only [Gen.Subscribe.tsEarliestInclusive, hr]
  cases err
  · simp only [Bool.false_eq_true, ↓reduceIte, earliestSpec]
    by_cases h0 : idx = 0
    · subst h0
      simp only [↓reduceIte, List.getElem?_map]
      cases hs : l.segs[0]? with
      | none => simp [toOutcome]
      | some s =>
        simp only [Option.map_some, segA]
        cases hf : findEntryByTs s ts with
        | some r => simp [toOutcome]
        | none =>
          simp [Gen.Subscribe.tsNextSegCmp, Gen.Subscribe.tsNextSegOff, Cmp.evalInt, hs, hf, toOutcome, lastNext_map ts l.segs hne]
    · simp only [h0, ↓reduceIte, List.getElem?_map]
      cases hs : l.segs[idx - 1]? with
      | none => simp [toOutcome]
      | some s =>
        simp only [Option.map_some, segA]
        cases hf : findEntryByTs s ts with
        | some r => simp [toOutcome]
        | none =>
          by_cases hlt : idx < l.segs.length
          · cases hs2 : l.segs[idx]? with
            | none => simp [List.getElem?_eq_getElem hlt] at hs2
            | some s2 =>
              cases hf2 : findEntryByTs s2 ts <;>
                simp [Gen.Subscribe.tsNextSegCmp, Gen.Subscribe.tsNextSegOff, Cmp.evalInt, hf, hf2, hlt, toOutcome, lastNext_map ts l.segs hne, segA]
          · simp [Gen.Subscribe.tsNextSegCmp, Gen.Subscribe.tsNextSegOff, Cmp.evalInt, hf, hlt, toOutcome, lastNext_map ts l.segs hne]
  · simp [earliestSpec, toOutcome, lastNext_map ts l.segs hne]

/-- the model's `findLatestEntryByTimestamp`: the entry before the first one with a later timestamp -/
def latestIdx (s : Seg) (ts : Int) : Nat :=
  goSearch s.recs.length fun i => match s.recs[i]? with
    | some r => Gen.Subscribe.tsLatestCmp.evalInt r.ts ts
    | none => true

def segL (ts : Int) (s : Seg) : SegA :=
  { nextOffset := s.nextOffset, isEmpty := s.isEmpty, firstWriteTime := s.firstTs,
    ansE := .notFound,
    ansL := if latestIdx s ts = 0 then .notFound else
      match s.recs[latestIdx s ts - 1]? with | some r => .found r.offset | none => .failed }

theorem model_latest (l : CLog) (ts : Int) (idx : Nat) (err : Bool)
    (hr : findSegIdxByTs l.segs ts = (idx, err)) :
    toOutcome (latestBeforeTs l ts) =
      latestSpec (l.segs.map (segL ts)) ts idx (if err then .failed else .none) := by
  unfold latestBeforeTs
  simp only [hr]
  cases err
  · simp only [Bool.false_eq_true, ↓reduceIte, latestSpec, List.getElem?_map]
    have key : ∀ s : Seg, (if idx = 0 then l.segs[0]? else l.segs[idx - 1]?) = some s →
        toOutcome (if idx = 0 ∧ ((Gen.Subscribe.tsLatestEmptyCheck && s.isEmpty) = true ∨ ts < s.firstTs) then Res.err "timestamp" else
          if Gen.Subscribe.tsLatestExact = true then
            (let n := s.recs.length
             let i := goSearch n fun i => match s.recs[i]? with
               | some r => Gen.Subscribe.tsLatestCmp.evalInt r.ts ts
               | none => true
             if i = 0 then Res.err "timestamp" else
             match s.recs[i - 1]? with
             | some r => Res.ok r.offset
             | none => Res.panic)
          else
            match findEntryByTs s ts with
            | some r => if r.ts = ts then Res.ok r.offset else Res.ok (r.offset - 1)
            | none => Res.ok s.lastOffset) =
        (if idx = 0 ∧ ((segL ts s).isEmpty = true ∨ ts < (segL ts s).firstWriteTime) then some Outcome.error else
          match (segL ts s).ansL with
          | .found o => some (.offset o)
          | _ => some .error) := by
      intro s _
      have hle : latestIdx s ts ≤ s.recs.length := GoCode.goSearch_le _ _
      by_cases hc : idx = 0 ∧ (s.isEmpty = true ∨ ts < s.firstTs)
      · simp [Gen.Subscribe.tsLatestEmptyCheck, segL, hc, toOutcome]
      · simp only [Gen.Subscribe.tsLatestEmptyCheck, Bool.true_and, segL, hc, ↓reduceIte, Gen.Subscribe.tsLatestExact]
        show toOutcome (if latestIdx s ts = 0 then Res.err "timestamp" else
            match s.recs[latestIdx s ts - 1]? with | some r => Res.ok r.offset | none => Res.panic) = _
        by_cases hz : latestIdx s ts = 0
        · simp [hz, toOutcome]
        · have hlt : latestIdx s ts - 1 < s.recs.length := by omega
          simp [hz, toOutcome, List.getElem?_eq_getElem hlt]
    by_cases h0 : idx = 0
    · subst h0
      cases hs : l.segs[0]? with
      | none => simp [toOutcome]
      | some s =>
        have k := key s (by simp [hs])
        simp only [↓reduceIte, true_and, Option.map_some] at k ⊢
        exact k
    · cases hs : l.segs[idx - 1]? with
      | none => simp [toOutcome, h0, hs]
      | some s =>
        have k := key s (by simp [hs, h0])
        simp only [h0, ↓reduceIte, false_and, Option.map_some] at k ⊢
        exact k
  · simp [latestSpec, toOutcome]

/-- non-vacuity: three segments, the search points at the second one, the first has nothing at or after the timestamp, the
second does (offset 7) -> 7; nothing anywhere -> the end of the log (12) -/
example : earliestSpec [⟨5, false, 1, .notFound, .notFound⟩, ⟨9, false, 4, .found 7, .notFound⟩, ⟨12, false, 8, .notFound, .notFound⟩] 1 .none = some (.offset 7) ∧
    earliestSpec [⟨5, false, 1, .notFound, .notFound⟩, ⟨9, false, 4, .eof, .notFound⟩, ⟨12, true, 0, .notFound, .notFound⟩] 1 .none = some (.offset 12) := by
  decide

end Liftbridge.Props.GoTimestamps
