/-
Cleans that race with the writer (C08 "appends that roll new segments while a compaction is
running", C09 "cleans that run while new segments are appended"): `Compact.cleanLogDuring`
models `commitLog.Clean()` whose snapshot holds the first `n` segments of the log `l1` that
exists when it swaps the segment list (the appends in between extended segment `n-1` and may
have rolled further segments, which are rebased onto the cleaned ones).
-/
import Liftbridge.Model.Compact
import Liftbridge.Proofs.Compact
import Liftbridge.Proofs.CleanRace

namespace Liftbridge.Props.CleanRace
open Liftbridge Liftbridge.Log Liftbridge.Log.CLog Liftbridge.Compact Liftbridge.Proofs.Compact
open Liftbridge.Proofs.CleanRace

/-- Records of the segments rolled while the clean ran. -/
def rolledDuring (n : Nat) (l1 : CLog) : List Rec := (l1.segs.drop n).flatMap Seg.recs

/-- Nothing appended into a segment rolled during the clean is lost, with or without compaction,
however many segments were rolled. -/
theorem rolled_segments_survive (lim : Retention.Limits) (ttl : Int) (c : Bool) (n : Nat) (l1 : CLog)
    (hn : 0 < n) (hle : n ≤ l1.segs.length) :
    ∀ r ∈ rolledDuring n l1, r ∈ (cleanLogDuring lim ttl c n l1).abs :=
  race_rolled lim ttl c n l1 (take_ne_nil hn hle)

/-- The segment that was active when the clean started (and everything appended to it
meanwhile) survives. -/
theorem active_segment_survives (lim : Retention.Limits) (ttl : Int) (c : Bool) (n : Nat) (l1 : CLog)
    (hn : 0 < n) (hle : n ≤ l1.segs.length) (s : Seg) (hs : l1.segs[n - 1]? = some s) :
    ∀ r ∈ s.recs, r ∈ (cleanLogDuring lim ttl c n l1).abs :=
  race_active lim ttl c n l1 hn hle s hs

/-- Retention racing with appends still leaves a contiguous suffix of the log (C09): only whole
oldest segments are gone, nothing in the middle. -/
theorem retention_race_suffix (lim : Retention.Limits) (ttl : Int) (n : Nat) (l1 : CLog)
    (hn : 0 < n) (hle : n ≤ l1.segs.length) :
    (cleanLogDuring lim ttl false n l1).abs <:+ l1.abs :=
  race_suffix lim ttl n l1 (take_ne_nil hn hle)

/-- Compaction racing with appends: every surviving message is an unchanged message of the log,
in the original order (C08), and no segment appears twice. -/
theorem compaction_race_sublist (lim : Retention.Limits) (ttl : Int) (n : Nat) (l1 : CLog)
    (hn : 0 < n) (hle : n ≤ l1.segs.length) :
    (cleanLogDuring lim ttl true n l1).abs.Sublist l1.abs :=
  race_sublist lim ttl true n l1 (take_ne_nil hn hle)

/-- The invariant of possibly-compacted logs survives a clean that raced with appends, so the
reader theorems (C08 `readUncommitted_sparse`, `readCommitted_sparse`) apply to its result. -/
theorem race_keeps_invariant (lim : Retention.Limits) (ttl : Int) (c : Bool) (n : Nat) (l1 : CLog)
    (h : InvC l1) (hn : 0 < n) (hle : n ≤ l1.segs.length) :
    InvC (cleanLogDuring lim ttl c n l1) :=
  race_invC lim ttl c n l1 h (take_ne_nil hn hle)

/-- Without a race (`n` = all segments) it is the plain clean. -/
theorem no_race_is_cleanLog (lim : Retention.Limits) (ttl : Int) (c : Bool) (l : CLog) (hne : l.segs ≠ []) :
    (cleanLogDuring lim ttl c l.segs.length l).segs = (cleanLog lim ttl c l).segs :=
  no_race_segs lim ttl c l hne

/-- The end of the log and the HW are not moved by a racing clean. -/
theorem race_keeps_ends (lim : Retention.Limits) (ttl : Int) (c : Bool) (n : Nat) (l1 : CLog)
    (hn : 0 < n) (hle : n ≤ l1.segs.length) :
    (cleanLogDuring lim ttl c n l1).nextOffset = l1.nextOffset ∧ (cleanLogDuring lim ttl c n l1).hw = l1.hw :=
  ⟨race_nextOffset lim ttl c n l1 (take_ne_nil hn hle), cleanLogDuring_hw lim ttl c n l1⟩

end Liftbridge.Props.CleanRace
