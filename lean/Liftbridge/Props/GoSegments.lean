/-
The segment lookups of the commit-log model ARE the translated Go code.

`Gen/GoSegments.lean` is regenerated on every run from server/commitlog/util.go (`findSegment`,
`findSegmentContains`, `findSegmentByBaseOffset`, `roundDown`). For every list of segments and every
offset the translated bodies return the segment (and index) the model's `CLog.findSegmentIdx` /
`CLog.findSegmentByBaseIdx` compute; the binary search of the embedding is Go's `sort.Search`
literally (`GoMini.search = goSearch`, Proofs/GoCodeBase). No sortedness is assumed: the equality
holds on any list, the *meaning* of the result on sorted lists is Proofs/Search.
-/
import Liftbridge.Proofs.GoCodeBase
import Liftbridge.Gen.GoSegments

namespace Liftbridge.Props.GoSegments
open Liftbridge Liftbridge.GoMini Liftbridge.GoCode Liftbridge.Log
open Liftbridge.Gen.GoSegments

/-- every construct of the translated functions is inside the subset -/
theorem translation_complete : unsupported = [] := rfl

def encSegs (segs : List Seg) : Val := .list (segs.map encSeg)

@[simp] theorem lk_a : evalE.lookup' "findSegment" prog = some fn_findSegment := by simp [prog, gomini]
@[simp] theorem lk_b : evalE.lookup' "findSegmentContains" prog = some fn_findSegmentContains := by simp [prog, gomini]
@[simp] theorem lk_c : evalE.lookup' "findSegmentByBaseOffset" prog = some fn_findSegmentByBaseOffset := by simp [prog, gomini]
@[simp] theorem lk_d : evalE.lookup' "roundDown" prog = some fn_roundDown := by simp [prog, gomini]
@[simp] theorem lk_e : evalE.lookup' "NextOffset" prog = none := by simp [prog, gomini]

@[simp] theorem sig_a : fn_findSegment.recv = none ∧ fn_findSegment.params = ["segments", "offset"] := ⟨rfl, rfl⟩
@[simp] theorem sig_b : fn_findSegmentContains.recv = none ∧ fn_findSegmentContains.params = ["segments", "offset"] := ⟨rfl, rfl⟩
@[simp] theorem sig_c : fn_findSegmentByBaseOffset.recv = none ∧ fn_findSegmentByBaseOffset.params = ["segments", "offset"] := ⟨rfl, rfl⟩
@[simp] theorem sig_d : fn_roundDown.recv = none ∧ fn_roundDown.params = ["total", "factor"] := ⟨rfl, rfl⟩

theorem facts : Gen.Log.findSegmentCmp = .gt ∧ Gen.Log.findSegmentByBaseCmp = .ge ∧ Gen.Log.containsCmp = .le := by decide

/-- what `findSegment` returns, from the model's index -/
def segResult (segs : List Seg) : Option Nat → List Val
  | some i => [match segs[i]? with | some s => encSeg s | none => .nil, .int i]
  | none => [.nil, .int segs.length]

/-- the model's search index for `findSegment` -/
def fsIdx (segs : List Seg) (offset : Int) : Nat :=
  goSearch segs.length (fun i => match segs[i]? with | some s => Gen.Log.findSegmentCmp.evalInt s.nextOffset offset | none => true)

theorem findSegmentIdx_eq (segs : List Seg) (offset : Int) :
    CLog.findSegmentIdx segs offset = if fsIdx segs offset = segs.length then none else some (fsIdx segs offset) := rfl

/-- `findSegment` at the level of its body (any fuel ≥ 12, any effect trace) -/
theorem findSegment_body (n : Nat) (segs : List Seg) (offset : Int) (eff : List (String × List Val)) :
    runBlock (exec prog noExt (n+12)) fn_findSegment.body
        { env := envOf [("segments", encSegs segs), ("offset", .int offset)], eff := eff } =
      .ok (.ret (segResult segs (CLog.findSegmentIdx segs offset)),
        (({ env := envOf [("segments", encSegs segs), ("offset", .int offset)], eff := eff } : St).set "n" (.int segs.length)).set "idx"
          (.int (fsIdx segs offset))) := by
  simp [fn_findSegment, gomini, encSegs]
  rw [search_eq segs.length _ (fun i => match segs[i]? with | some s => Gen.Log.findSegmentCmp.evalInt s.nextOffset offset | none => true)]
  · simp only [findSegmentIdx_eq]
    rw [show goSearch segs.length (fun i => match segs[i]? with | some s => Gen.Log.findSegmentCmp.evalInt s.nextOffset offset | none => true) = fsIdx segs offset from rfl]
    have hle : fsIdx segs offset ≤ segs.length := goSearch_le _ _
    by_cases hj : fsIdx segs offset = segs.length
    · simp [hj, gomini, binInt, segResult]
    · have hlt : fsIdx segs offset < segs.length := by omega
      have h2 : ((fsIdx segs offset : Int) = (segs.length : Int)) = False := by apply eq_false; omega
      simp [hj, gomini, binInt, segResult, h2, hlt]
  · intro k hk
    have : segs[k]? = some segs[k] := by simp [hk]
    simp [gomini, this, encSeg, binInt, facts, Cmp.evalInt]

/-- `findSegment(segments, offset)`: the first segment whose next offset is above `offset` and its index,
or `(nil, len)` — exactly the model's `findSegmentIdx`, for every list and offset. -/
theorem go_findSegment (segs : List Seg) (offset : Int) :
    run prog noExt 20 "findSegment" none [encSegs segs, .int offset] =
      .ok { rets := segResult segs (CLog.findSegmentIdx segs offset), recv := none, eff := [] } := by
  have hb := findSegment_body 8 segs offset []
  simp only [encSegs, Nat.reduceAdd] at hb
  simp [run, runG, gomini, encSegs, hb]

/-- what `findSegmentContains` returns -/
def containsResult (segs : List Seg) (offset : Int) : List Val :=
  match CLog.findSegmentIdx segs offset with
  | none => [.nil, .bool false]
  | some i => match segs[i]? with
    | some s => [encSeg s, .bool (Gen.Log.containsCmp.evalInt s.base offset)]
    | none => [.nil, .bool false]

/-- `findSegmentContains`: the segment found by `findSegment`, and whether its base offset is at or below
the offset (an offset in a gap BEFORE the segment is "not contained") -/
theorem go_findSegmentContains (segs : List Seg) (offset : Int) :
    run prog noExt 30 "findSegmentContains" none [encSegs segs, .int offset] =
      .ok { rets := containsResult segs offset, recv := none, eff := [] } := by
  have hb := findSegment_body 17 segs offset []
  simp only [encSegs, Nat.reduceAdd] at hb
  cases hi : CLog.findSegmentIdx segs offset with
  | none =>
    simp only [hi, segResult] at hb
    simp [run, runG, fn_findSegmentContains, gomini, builtin, convert, encSegs, hb, containsResult, hi, binVal, isNil]
  | some i =>
    cases hs : segs[i]? with
    | none =>
      simp only [hi, segResult, hs] at hb
      simp [run, runG, fn_findSegmentContains, gomini, builtin, convert, encSegs, hb, containsResult, hi, hs, binVal, isNil]
    | some sg =>
      simp only [hi, segResult, hs] at hb
      simp [run, runG, fn_findSegmentContains, gomini, builtin, convert, encSegs, hb, containsResult, hi, hs, binVal, isNil, encSeg, binInt, facts, Cmp.evalInt]

/-- the model's search index for `findSegmentByBaseOffset` -/
def fbIdx (segs : List Seg) (offset : Int) : Nat :=
  goSearch segs.length (fun i => match segs[i]? with | some s => Gen.Log.findSegmentByBaseCmp.evalInt s.base offset | none => true)

theorem findSegmentByBaseIdx_eq (segs : List Seg) (offset : Int) :
    CLog.findSegmentByBaseIdx segs offset = if fbIdx segs offset = segs.length then none else some (fbIdx segs offset) := rfl

/-- `findSegmentByBaseOffset`: the first segment whose base offset is at or above `offset`, or nil —
the model's `findSegmentByBaseIdx`, for every list and offset. -/
theorem go_findSegmentByBaseOffset (segs : List Seg) (offset : Int) :
    run prog noExt 20 "findSegmentByBaseOffset" none [encSegs segs, .int offset] =
      .ok { rets := [match CLog.findSegmentByBaseIdx segs offset with
                     | some i => (match segs[i]? with | some s => encSeg s | none => .nil)
                     | none => .nil],
            recv := none, eff := [] } := by
  simp [run, runG, fn_findSegmentByBaseOffset, gomini, encSegs]
  rw [search_eq segs.length _ (fun i => match segs[i]? with | some s => Gen.Log.findSegmentByBaseCmp.evalInt s.base offset | none => true)]
  · simp only [findSegmentByBaseIdx_eq]
    rw [show goSearch segs.length (fun i => match segs[i]? with | some s => Gen.Log.findSegmentByBaseCmp.evalInt s.base offset | none => true) = fbIdx segs offset from rfl]
    have hle : fbIdx segs offset ≤ segs.length := goSearch_le _ _
    by_cases hj : fbIdx segs offset = segs.length
    · simp [hj, gomini, binInt]
    · have hlt : fbIdx segs offset < segs.length := by omega
      have h2 : ((fbIdx segs offset : Int) = (segs.length : Int)) = False := by apply eq_false; omega
      simp [hj, gomini, binInt, h2, hlt]
  · intro k hk
    have : segs[k]? = some segs[k] := by simp [hk]
    simp [gomini, this, encSeg, binInt, facts, Cmp.evalInt]

/-- `roundDown(total, factor)` = `factor * (total / factor)` with Go's truncating division; a zero factor
panics (integer division by zero) -/
theorem go_roundDown (total factor : Int) :
    run prog noExt 10 "roundDown" none [.int total, .int factor] =
      if factor = 0 then .panic else .ok { rets := [.int (factor * Int.tdiv total factor)], recv := none, eff := [] } := by
  by_cases h : factor = 0 <;> simp [run, runG, fn_roundDown, gomini, binInt, h]

/-- for the sizes it is used with (non-negative total, positive factor) the result is the largest multiple of
`factor` that does not exceed `total` -/
theorem roundDown_spec (total factor : Int) (ht : 0 ≤ total) (hf : 0 < factor) :
    factor * Int.tdiv total factor ≤ total ∧ total < factor * Int.tdiv total factor + factor := by
  rw [Int.tdiv_eq_ediv_of_nonneg ht]
  have h1 := Int.mul_ediv_add_emod total factor
  have h2 := Int.emod_nonneg total (by omega : factor ≠ 0)
  have h3 := Int.emod_lt_of_pos total hf
  omega

/-! ### non-vacuity: two segments, offsets inside, between and beyond them -/
def p0 : Payload := { key := none, val := some [1], hdrs := [] }
def s0 : Seg := { base := 0, recs := [{ offset := 0, ts := 1, epoch := 1, body := p0 }, { offset := 1, ts := 2, epoch := 1, body := p0 }] }
def s1 : Seg := { base := 5, recs := [{ offset := 5, ts := 3, epoch := 1, body := p0 }] }
theorem idx_examples : CLog.findSegmentIdx [s0, s1] 1 = some 0 ∧ CLog.findSegmentIdx [s0, s1] 3 = some 1 ∧
    CLog.findSegmentIdx [s0, s1] 6 = none := by
  simp [CLog.findSegmentIdx, goSearch, goSearchAux, s0, s1, Seg.nextOffset, Seg.lastOffset, facts, Cmp.evalInt]
example : containsResult [s0, s1] 1 = [encSeg s0, .bool true] := by
  rw [containsResult, idx_examples.1]; simp [facts, Cmp.evalInt, s0]
example : containsResult [s0, s1] 3 = [encSeg s1, .bool false] := by
  rw [containsResult, idx_examples.2.1]; simp [facts, Cmp.evalInt, s1]
example : containsResult [s0, s1] 6 = [.nil, .bool false] := by
  rw [containsResult, idx_examples.2.2]

end Liftbridge.Props.GoSegments
