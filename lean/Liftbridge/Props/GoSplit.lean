/-
C01 at the level of the function bodies: when the log rolls a new segment - `segment.CheckSplit`, `segment.NextOffset`
and `commitLog.checkAndPerformSplit` (server/commitlog) - translated from the code. `Gen/GoSplit.lean` is regenerated on
every run.

`go_CheckSplit`: for every segment state, roll time and clock: split iff the segment is full (`position >= maxBytes`), or
age rolling is on, the segment has been written to, and `now - firstWriteTime >= logRollTime`. `model_needSplit`: the model's
`CLog.needSplit` is the size disjunct (the harnesses disable age rolling; an empty segment is never rolled by age).
`go_NextOffset` = the model's `Seg.nextOffset` (base offset for a segment without messages, last offset + 1 otherwise) -
the offset the next append is given.
`go_checkAndPerformSplit_*`: nothing to split -> (false, nil), no call of `split`, nothing sealed; a successful split ->
the OLD active segment is sealed, after the split, and (true, nil); a failing split (other than "another thread did it") ->
(false, err) and nothing is sealed. The retry after `ErrSegmentExists` re-reads the active segment, which changes
underneath - a second thread - and stays with the correspondence runs.
-/
import Liftbridge.Proofs.GoCodeBase
import Liftbridge.Gen.GoSplit

set_option linter.unusedSimpArgs false

namespace Liftbridge.Props.GoSplit
open Liftbridge Liftbridge.GoMini Liftbridge.GoCode Liftbridge.Log
open Liftbridge.Gen.GoSplit

attribute [local gomini] runFor_succ

theorem translation_complete : unsupported = [] := rfl

theorem binVal_int (op : String) (a b : Int) : binVal op (Val.int a) (Val.int b) = binInt op a b := rfl
@[simp] theorem lk_capfs : evalE.lookup' "checkAndPerformSplit" prog = some fn_commitLog_checkAndPerformSplit := by simp [prog, gomini]
@[simp] theorem lk_CheckSplit : evalE.lookup' "CheckSplit" prog = some fn_segment_CheckSplit := by simp [prog, gomini]
@[simp] theorem lk_NextOffset : evalE.lookup' "NextOffset" prog = some fn_segment_NextOffset := by simp [prog, gomini]
@[simp] theorem lk_timestamp : evalE.lookup' "timestamp" prog = none := by simp [prog, gomini]
@[simp] theorem lk_int64 : evalE.lookup' "int64" prog = none := by simp [prog, gomini]
@[simp] theorem lk_activeSegment : evalE.lookup' "activeSegment" prog = none := by simp [prog, gomini]
@[simp] theorem lk_split : evalE.lookup' "split" prog = none := by simp [prog, gomini]
@[simp] theorem lk_Seal : evalE.lookup' "Seal" prog = none := by simp [prog, gomini]

def encSegS (position maxBytes firstWriteTime : Int) : Val :=
  .struct [("position", .int position), ("maxBytes", .int maxBytes), ("firstWriteTime", .int firstWriteTime)]

set_option maxRecDepth 8000 in
set_option maxHeartbeats 1000000 in
/-- the clock (`timestamp()`) and the outcome of `l.split(...)` -/
def splitExt (now : Int) (splitErr : Val) : Ext := fun f _ _ =>
  if f = "timestamp" then some (.int now) else if f = "split" then some splitErr else none

def rets : R Out → Option (List Val)
  | .ok o => some o.rets
  | _ => none

/-- the decision of `CheckSplit` -/
def checkSplitSpec (position maxBytes firstWriteTime rollTime now : Int) : Bool :=
  decide (position ≥ maxBytes) || (decide (rollTime ≠ 0) && decide (firstWriteTime ≠ 0) && decide (now - firstWriteTime ≥ rollTime))

theorem go_CheckSplit (position maxBytes firstWriteTime rollTime now : Int) (hr : wrapS 64 rollTime = rollTime) :
    rets (runG prog (splitExt now .nil) 30 "CheckSplit" (some (encSegS position maxBytes firstWriteTime)) [.int rollTime] []) =
      some [.bool (checkSplitSpec position maxBytes firstWriteTime rollTime now)] := by
  by_cases h1 : position ≥ maxBytes
  · simp [runG, fn_segment_CheckSplit, gomini, rets, encSegS, checkSplitSpec, binVal_int, binInt, truthy, getField, lookup, h1]
  · by_cases h2 : rollTime = 0
    · simp [runG, fn_segment_CheckSplit, gomini, rets, encSegS, checkSplitSpec, binVal_int, binInt, truthy, getField, lookup, h1, h2]
    · by_cases h3 : firstWriteTime = 0
      · simp [runG, fn_segment_CheckSplit, gomini, rets, encSegS, checkSplitSpec, binVal_int, binInt, truthy, getField, lookup, h1, h2, h3]
      · simp [runG, fn_segment_CheckSplit, gomini, rets, encSegS, checkSplitSpec, binVal_int, binInt, truthy, getField, lookup, h1, h2, h3, splitExt,
          builtin, convert, hr]

/-- the model rolls on size (age rolling off: roll time 0) -/
theorem model_needSplit (l : CLog) (firstWriteTime now : Int) :
    l.needSplit = checkSplitSpec (l.active.position : Int) l.maxSegBytes firstWriteTime 0 now := by
  simp [CLog.needSplit, checkSplitSpec, Gen.Log.splitCmp, Cmp.evalInt]

def encSegN (base lastOffset : Int) : Val := .struct [("BaseOffset", .int base), ("lastOffset", .int lastOffset)]

theorem go_NextOffset (base lastOffset : Int) :
    rets (runG prog noExt 30 "NextOffset" (some (encSegN base lastOffset)) [] []) =
      some [.int (if lastOffset = -1 then base else lastOffset + 1)] := by
  by_cases h : lastOffset = -1 <;>
    simp [runG, fn_segment_NextOffset, gomini, rets, encSegN, binVal_int, binInt, truthy, getField, lookup, h]

/-- the model's `Seg.nextOffset` is that function of the segment's base and last offset -/
theorem model_nextOffset (s : Seg) : s.nextOffset = (if s.lastOffset = -1 then s.base else s.lastOffset + 1) := rfl

/-! ### `checkAndPerformSplit` -/

def encLogS (position maxBytes firstWriteTime age : Int) : Val :=
  .struct [("activeSegment", encSegS position maxBytes firstWriteTime), ("MaxSegmentAge", .int age)]

/-- (returned values, the calls of `split` and `Seal` in order) -/
def splitView : R Out → Option (List Val × List String)
  | .ok o => some (o.rets, (o.eff.filter fun e => e.1 = "split" ∨ e.1 = "Seal").map (·.1))
  | _ => none

def glob : List (String × Val) := [("ErrSegmentExists", .str "ErrSegmentExists")]

set_option maxRecDepth 8000 in
set_option maxHeartbeats 1000000 in
theorem go_checkAndPerformSplit_none (position maxBytes firstWriteTime age now : Int) (splitErr : Val) (hr : wrapS 64 age = age)
    (h : checkSplitSpec position maxBytes firstWriteTime age now = false) :
    splitView (runG prog (splitExt now splitErr) 30 "checkAndPerformSplit" (some (encLogS position maxBytes firstWriteTime age)) [] glob) =
      some ([.bool false, .nil], []) := by
  simp [checkSplitSpec] at h
  obtain ⟨h1, h2⟩ := h
  have h1' : ¬ maxBytes ≤ position := by omega
  by_cases ha : age = 0
  · simp [runG, fn_commitLog_checkAndPerformSplit, fn_segment_CheckSplit, gomini, splitView, encLogS, encSegS, binVal_int, binInt, truthy, getField, lookup, h1, h1', ha,
      bindParams, envOf, splitExt]
  · by_cases hf : firstWriteTime = 0
    · simp [runG, fn_commitLog_checkAndPerformSplit, fn_segment_CheckSplit, gomini, splitView, encLogS, encSegS, binVal_int, binInt, truthy, getField, lookup, h1, h1', ha, hf,
        bindParams, envOf, splitExt]
    · have h3 := h2 ha hf
      have h3' : ¬ age ≤ now - firstWriteTime := by omega
      simp [runG, fn_commitLog_checkAndPerformSplit, fn_segment_CheckSplit, gomini, splitView, encLogS, encSegS, binVal_int, binInt, truthy, getField, lookup, h1, h1', ha, hf, h3, h3',
        bindParams, envOf, splitExt, builtin, convert, hr]

set_option maxRecDepth 8000 in
set_option maxHeartbeats 1000000 in
/-- a full segment (the size disjunct; age rolling needs the clock only) and a successful split: the old active segment is
sealed AFTER the split, and the call reports that it rolled -/
theorem go_checkAndPerformSplit_rolled (position maxBytes firstWriteTime age now : Int) (h : position ≥ maxBytes) :
    splitView (runG prog (splitExt now .nil) 30 "checkAndPerformSplit" (some (encLogS position maxBytes firstWriteTime age)) [] glob) =
      some ([.bool true, .nil], ["split", "Seal"]) := by
  have h' : maxBytes ≤ position := by omega
  simp [runG, fn_commitLog_checkAndPerformSplit, fn_segment_CheckSplit, gomini, splitView, encLogS, encSegS, binVal_int, binInt, truthy, getField, lookup, h, h',
    bindParams, envOf, splitExt, binVal, isNil, glob]

set_option maxRecDepth 8000 in
set_option maxHeartbeats 1000000 in
/-- a split that fails with anything but "another thread did it": the error is returned and nothing is sealed -/
theorem go_checkAndPerformSplit_failed (position maxBytes firstWriteTime age now : Int) (e : String) (he : e ≠ "ErrSegmentExists")
    (h : position ≥ maxBytes) :
    splitView (runG prog (splitExt now (.str e)) 30 "checkAndPerformSplit" (some (encLogS position maxBytes firstWriteTime age)) [] glob) =
      some ([.bool false, .str e], ["split"]) := by
  have h' : maxBytes ≤ position := by omega
  simp [runG, fn_commitLog_checkAndPerformSplit, fn_segment_CheckSplit, gomini, splitView, encLogS, encSegS, binVal_int, binInt, truthy, getField, lookup, h, h',
    bindParams, envOf, splitExt, binVal, isNil, glob, he]

/-- non-vacuity: a 100-byte segment with limit 64 splits whatever the clock; a 10-byte one does not with age rolling off -/
example : checkSplitSpec 100 64 5 0 9 = true ∧ checkSplitSpec 10 64 5 0 9 = false ∧ checkSplitSpec 10 64 5 3 9 = true := by decide

end Liftbridge.Props.GoSplit
