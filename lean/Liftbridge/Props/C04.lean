/-
C04 — Acknowledgements mean what the ack policy says.

Model: `Liftbridge/Model/Protocol.lean` (the replication protocol of one partition as the code
is: `publishStep` = one iteration of `messageProcessingLoop`, `commitStep` = one iteration of
`commitLoop`, acks are appended to `State.acks`). Layering (IronFleet style): the theorems below
are about single steps of that model and hold in EVERY state (no reachability needed); they
say what the leader CHECKS before it sends an ack. The property itself (`C04_asStated`) is
about what the replicas really STORE; it is false on the current code (`C04_asStated_false`,
witness found by `Search/Protocol.lean`, replayed on real commit logs by the harness), because
the leader's view `isrOff` is not tied to the replicas' logs across leadership terms
(`isrOff_unsound_across_terms`). `C04_partial` states what does hold: an ALL ack implies every
ISR member stores the message provided the leader's view is exact.
A global induction over reachable states is NOT done (see DESIGN §4 C02 step 4).
-/
import Liftbridge.Model.Protocol
import Liftbridge.Proofs.Protocol
import Liftbridge.Proofs.ProtocolInv
import Liftbridge.Props.C16

namespace Liftbridge.Props.C04
open Liftbridge Liftbridge.Log Liftbridge.Log.CLog Liftbridge.Protocol Liftbridge.Proofs.Log Liftbridge.Proofs.Protocol

/-! ### what the leader checks (every state, every step) -/

/-- ALL policy: at a commit step an ack is sent for a queued entry only if its offset is at most
the minimum of the offsets the leader has recorded for the members of its ISR view — hence at
most the recorded offset of EVERY member — and that view has at least `minISR` members. -/
theorem ack_all_step (c : Cfg) (st st' : State) (l : Sid) (h : step c st (.commit l) = some st')
    (a : Ack) (ha : a ∈ newAcks st st') :
    ∃ sv, st.get l = some sv ∧ a.policy = .all ∧ a ∈ sv.queue ∧
      a.offset ≤ goMin (sv.isrOff.map (·.2)) ∧ c.minISR ≤ sv.isrOff.length ∧
      ∀ r v, lookup sv.isrOff r = some v → a.offset ≤ v := by
  obtain ⟨sv, hsv, _, _, hst⟩ := step_commit h
  have hacks : newAcks st st' = (commitStep c sv).2 := by
    rw [hst]; simp [newAcks]
  rw [hacks] at ha
  obtain ⟨h1, h2, h3, h4⟩ := commitStep_acks c sv ha
  exact ⟨sv, hsv, h1, h2, h3, h4, fun r v hr => commitStep_ack_le_all c sv ha hr⟩

/-- LEADER policy: a positive ack published by a publish step is a LEADER-policy ack of a message
of that batch, with its correlation id, and the leader's log holds exactly that message at the
acknowledged offset at the moment the ack is sent. -/
theorem ack_leader_step (c : Cfg) (st st' : State) (l : Sid) (b : List PubMsg)
    (h : step c st (.publish l b) = some st') (hinv : ∀ sv, st.get l = some sv → Inv sv.log)
    (a : Ack) (ha : a ∈ newAcks st st') (hok : a.err = .ok) :
    a.policy = .leader ∧ a.by_ = l ∧ (∃ m ∈ b, a.cid = m.cid ∧ a.mid = m.mid ∧ m.policy = .leader) ∧
    ∃ sv', st'.get l = some sv' ∧ ∃ r ∈ sv'.log.abs, r.offset = a.offset ∧ r.body = bodyOf a.mid := by
  obtain ⟨sv, sv', as, hsv, _, hp, hst⟩ := step_publish h
  have hacks : newAcks st st' = as := by rw [hst]; simp [newAcks]
  rw [hacks] at ha
  obtain ⟨h1, h2, h3, h4⟩ := publishStep_ack_leader (hinv sv hsv) hp ha hok
  refine ⟨h1, h2, h3, sv', ?_, h4⟩
  rw [hst]
  have hl : l < st.srv.length := by
    unfold State.get at hsv
    exact (List.getElem?_eq_some_iff.mp hsv).1
  simp [State.get, State.set, hl]

/-- NONE policy: no step ever publishes a positive ack for it (LEADER acks come from the publish
step, ALL acks from the commit step, nothing else writes to the ack stream). -/
theorem ack_none_never (c : Cfg) (st st' : State) (s : Step) (h : step c st s = some st')
    (a : Ack) (ha : a ∈ newAcks st st') (hok : a.err = .ok) : a.policy ≠ .none := by
  by_cases hp : ∃ l b, s = .publish l b
  · obtain ⟨l, b, rfl⟩ := hp
    obtain ⟨sv, sv', as, _, _, hpub, hst⟩ := step_publish h
    have hacks : newAcks st st' = as := by rw [hst]; simp [newAcks]
    rw [hacks] at ha
    rcases publishStep_cases hpub with ⟨_, _, hacks⟩ | ⟨e, _, _, hacks⟩ | ⟨log, offs, _, _, hacks, _⟩
    · rw [hacks] at ha
      exact absurd hok (screen_nacks l sv.leaderEpoch b (published_sub ha)).1
    · rcases hacks a ha with h1 | ⟨h1, _⟩
      · exact absurd hok (screen_nacks l sv.leaderEpoch b h1).1
      · rw [hok] at h1; cases h1
    · rw [hacks] at ha
      rcases List.mem_append.mp (published_sub ha) with h1 | h1
      · exact absurd hok (screen_nacks l sv.leaderEpoch b h1).1
      · have := (pending_spec c l sv.leaderEpoch _ offs).1 a h1
        rw [this]; simp
  · by_cases hc : ∃ l, s = .commit l
    · obtain ⟨l, rfl⟩ := hc
      obtain ⟨sv, _, _, _, hst⟩ := step_commit h
      have hacks : newAcks st st' = (commitStep c sv).2 := by rw [hst]; simp [newAcks]
      rw [hacks] at ha
      rw [(commitStep_acks c sv ha).1]; simp
    · have := step_acks_other h (fun l b hs => hp ⟨l, b, hs⟩) (fun l hs => hc ⟨l, hs⟩)
      simp [newAcks, this] at ha

/-- Every ack a publish step builds — sent at once (LEADER) or queued for the commit loop (ALL,
and LEADER/NONE entries that are only dequeued) — is positive and carries the correlation id,
policy and identity of one accepted message of the batch together with the offset `Append`
assigned to that message. -/
theorem ack_carries_offset_and_correlation (c : Cfg) (me : Sid) (epoch : Nat) (b : List PubMsg) (offs : List Int) :
    ∀ a ∈ (pending c me epoch (screen me epoch b).1 offs).1 ++ (pending c me epoch (screen me epoch b).1 offs).2,
      a.err = .ok ∧ ∃ m o, (m, o) ∈ (screen me epoch b).1.zip offs ∧ m ∈ b ∧
        a.cid = m.cid ∧ a.mid = m.mid ∧ a.policy = m.policy ∧ a.offset = o := by
  intro a hmem
  obtain ⟨h1, m, o, hz, h2, h3, h4, h5, _⟩ := (pending_spec c me epoch _ offs).2 a hmem
  have hm : m ∈ b := by
    have := (List.of_mem_zip hz).1
    rw [screen_ok] at this
    exact (List.mem_filter.mp this).1
  exact ⟨h1, m, o, hz, hm, h2, h3, h4, h5⟩

/-- A rejected message is negatively acknowledged and never stored: the messages refused for
size or sealing never reach `Append` (the records appended are exactly the accepted ones), and
when `Append` refuses the expected offset the log keeps exactly its records (C16
`rejected_unchanged`). -/
theorem nack_not_stored (c : Cfg) (me : Sid) (sv sv' : Srv) (b : List PubMsg) (acks : List Ack)
    (hinv : Inv sv.log) (h : publishStep c me sv b = some (sv', acks)) :
    (∀ a ∈ acks, a.err ≠ .ok →
      (∃ m ∈ b, (m.sealFails ∨ m.tooLarge) ∧ a.mid = m.mid ∧ a.cid = m.cid) ∨
      (a.err = .incorrectOffset ∧ sv'.log.abs = sv.log.abs)) ∧
    (sv'.log.abs = sv.log.abs ∨
      ∃ rs, sv'.log.abs = sv.log.abs ++ rs ∧
        rs.map (·.body) = (b.filter (fun m => !m.sealFails && !m.tooLarge)).map (fun m => bodyOf m.mid)) := by
  refine ⟨fun a ha herr => publishStep_nack h ha herr, ?_⟩
  have := publishStep_appends hinv h
  rwa [screen_ok] at this

/-- The single-message conditional publish of C16 is this step: a publish refused by the log
leaves the records and the next offset unchanged. -/
theorem nack_incorrect_offset_unchanged (l : CLog) (m : CLog.Msg) (e : String) (h : Inv l)
    (hp : (C16.publish l m).2 = .err e) :
    (C16.publish l m).1.abs = l.abs ∧ (C16.publish l m).1.nextOffset = l.nextOffset :=
  C16.rejected_unchanged l m e h hp

/-! ### the full statement, its negation, and the part that holds -/

/-- C04 as stated: in every reachable state, every step publishes only acks that are justified by
what the replicas really store (`ackProblems`: ALL ⇒ every member of the leader's ISR view stores
that message at that offset and the view is at least `minISR` big; LEADER ⇒ the leader stores it;
NONE ⇒ never; offset/identity match), and no negatively acknowledged message is stored anywhere. -/
def C04_asStated (c : Cfg) : Prop :=
  ∀ pre post s, Reachable c pre → step c pre s = some post →
    ackViolations c pre post = [] ∧ nackedStored post = []

/-- Search witness `stale-isr-offsets-across-terms` (corpus/C04): server 0 leads, its followers
report offset 0, server 2 leads for a while, server 0 leads again and commits its next message
with the offsets of its FIRST term. -/
def staleIsrWitness : List IStep :=
  [.raftCommit (.create 0), .applyNext 0, .publish 0 [{ mid := 0, cid := 100, policy := .all }], .commit 0,
   .applyNext 1, .offServe 0 0, .reconcile 1 0, .fetch 1, .serve 0 0, .applyResp 1 0, .fetch 1, .serve 0 0,
   .applyResp 1 0, .commit 0, .applyNext 2, .offServe 0 0, .reconcile 2 0, .electDecision 2,
   .raftCommit (.changeLeader 2), .applyNext 2, .applyNext 0, .offServe 2 0, .reconcile 0 0, .electDecision 0,
   .raftCommit (.changeLeader 0), .applyNext 0, .publish 0 [{ mid := 1, cid := 101, policy := .all }],
   .applyNext 2, .offServe 0 0, .reconcile 2 0, .fetch 2, .serve 0 0, .applyResp 2 0, .fetch 2, .serve 0 0,
   .applyResp 2 0]

/-- The protocol with `becomeLeader` as it was before repair fixes/C04-isr-offsets-reset.diff (the
model of the code as it is follows the source through `Gen.Protocol.becomeLeaderResetsOffsets`). -/
def legacy : Cfg := { fixes := { legacyIsr := true } }

/-- The last step of the witness (the commit loop of server 0) sends an ALL ack for message 1 at
offset 0 although server 1 — a member of the ISR — stores message 0 there. -/
theorem staleIsr_violates :
    ackViolationsAfter legacy staleIsrWitness (.commit 0) = some ["all-ack-not-stored-by-isr"] := by
  decide +kernel

/-- C04 as stated does not hold for the protocol with the stale offsets … -/
theorem C04_asStated_false_legacy : ¬ C04_asStated legacy := by
  intro hall
  obtain ⟨pre, post, s, hr, hs, hv⟩ := witness_reaches staleIsr_violates
  rw [(hall pre post s hr hs).1] at hv
  cases hv

/-- Search witness `epoch-start-minus-one-sentinel` (corpus/C04), up to the commit that sends the
unjustified ack: a leader elected with an empty log, a follower that keeps its old message at
offset 0 and reports it. Independent of the stale-offset defect. -/
def sentinelWitness : List IStep :=
  [.raftCommit (.create 0), .applyNext 0, .publish 0 [{ mid := 0, cid := 100, policy := .all }], .commit 0,
   .applyNext 1, .offServe 0 0, .reconcile 1 0, .fetch 1, .serve 0 0, .applyResp 1 0, .applyNext 2, .offServe 0 0,
   .reconcile 2 0, .electDecision 2, .raftCommit (.changeLeader 2), .applyNext 2,
   .publish 2 [{ mid := 1, cid := 101, policy := .all }], .commit 2, .applyNext 0, .offServe 2 0, .reconcile 0 0,
   .fetch 0, .serve 2 0, .applyResp 0 0, .commit 2, .applyNext 1, .offServe 2 0, .reconcile 1 0, .fetch 1, .serve 2 0,
   .applyResp 1 0]

theorem sentinel_violates :
    ackViolationsAfter {} sentinelWitness (.commit 2) = some ["all-ack-not-stored-by-isr"] ∧
    ackViolationsAfter { fixes := { isrReset := true } } sentinelWitness (.commit 2) = some ["all-ack-not-stored-by-isr"] ∧
    ackViolationsAfter legacy sentinelWitness (.commit 2) = some ["all-ack-not-stored-by-isr"] := by
  decide +kernel

/-- … nor for the protocol as the source has it now, with or without that repair (an ALL ack for a
message where an ISR member holds a DIFFERENT record: the C04 face of the epoch-boundary defects). -/
theorem C04_asStated_false : ¬ C04_asStated {} := by
  intro hall
  obtain ⟨pre, post, s, hr, hs, hv⟩ := witness_reaches sentinel_violates.1
  rw [(hall pre post s hr hs).1] at hv
  cases hv

/-- The same run with `partition.isr` offsets forgotten on becoming leader (repair `isrReset`)
sends no unjustified ack: the witness is caused by the stale offsets and nothing else. -/
theorem staleIsr_repaired :
    replayLenient { fixes := { isrReset := true } } (init { fixes := { isrReset := true } }) [] []
      (staleIsrWitness ++ [.commit 0]) = [] := by
  decide +kernel

/-- The leader's view `isrOff` is NOT tied to the replicas' logs across leadership terms: after
the prefix of the witness up to server 0's second `becomeLeader`, server 0 still records offset
0 for itself and for server 1 although its own log is empty again. -/
theorem isrOff_unsound_across_terms :
    ((irun legacy (init legacy) (staleIsrWitness.take 26)).bind fun st => (st.get 0).map fun sv =>
      (sv.role, sv.leaderEpoch, lookup sv.isrOff 0, lookup sv.isrOff 1, sv.log.newest)) =
    some (.leader, 3, some 0, some 0, -1) := by
  decide +kernel

/-- WITHIN a leadership term the leader's view is tied to the replicas' logs: `TermInv` (every
recorded offset `isrOff r = v` is at most the newest offset of replica `r`'s real log; requests in
flight report at most their sender's newest offset; responses carry sorted records; logs are
well-formed) holds initially (`termInv_init`) and is preserved by every step that neither changes a
role nor truncates a log. `becomeLeader` on a partition object that led before does not
re-establish it (`isrOff_unsound_across_terms`). -/
theorem isrOff_sound_within_term (c : Cfg) (steps : List Step) (st st' : State) (J : TermInv st)
    (hin : ∀ s ∈ steps, InTerm s) (h : run c st steps = some st') :
    TermInv st' ∧ ∀ l sv, st'.get l = some sv → ∀ r v, lookup sv.isrOff r = some v →
      ∃ sr, st'.get r = some sr ∧ v ≤ sr.log.newest := by
  have J' := termInv_run c steps st st' J hin h
  exact ⟨J', J'.offs⟩

/-- What does hold (the strongest variant): if the leader's view is EXACT for an ALL ack — every
member `r` of its ISR view with recorded offset `v` stores, at every offset up to `v`, the record
the leader stores there — and the leader stores the acknowledged message at the acknowledged
offset (true for every queue entry, `ack_carries_offset_and_correlation` + `ack_leader_step`'s
storage clause), then every member of the ISR stores that message at that offset and the ISR has
at least `minISR` members. The excluded case is exactly `isrOff_unsound_across_terms`. -/
theorem C04_partial (c : Cfg) (st st' : State) (l : Sid) (h : step c st (.commit l) = some st')
    (a : Ack) (ha : a ∈ newAcks st st') (sv : Srv) (hsv : st.get l = some sv)
    (hstored : ∃ r, recAt sv.log a.offset = some r ∧ Rec.mid r = a.mid)
    (hexact : ∀ r v, lookup sv.isrOff r = some v → ∃ sr, st.get r = some sr ∧
      ∀ o, o ≤ v → recAt sr.log o = recAt sv.log o) :
    c.minISR ≤ sv.isrOff.length ∧
    ∀ r v, lookup sv.isrOff r = some v → ∃ sr, st.get r = some sr ∧
      ∃ rec, recAt sr.log a.offset = some rec ∧ Rec.mid rec = a.mid := by
  obtain ⟨sv0, hsv0, _, _, hst⟩ := step_commit h
  rw [hsv] at hsv0
  cases hsv0
  have hacks : newAcks st st' = (commitStep c sv).2 := by rw [hst]; simp [newAcks]
  rw [hacks] at ha
  refine ⟨(commitStep_acks c sv ha).2.2.2, ?_⟩
  intro r v hr
  obtain ⟨sr, hsr, hex⟩ := hexact r v hr
  obtain ⟨rec, hrec, hmid⟩ := hstored
  exact ⟨sr, hsr, rec, by rw [hex a.offset (commitStep_ack_le_all c sv ha hr)]; exact hrec, hmid⟩

/-! ### non-vacuity -/

/-- A leader with ISR offsets 0:3, 1:2, 2:5 and queued ALL acks at offsets 1, 2, 3 commits up to
offset 2 and acks exactly the first two. -/
example : ((commitStep { minISR := 2 }
    { log := CLog.init 1024 false, role := .leader, commitCheck := 1, isrOff := [(0, 3), (1, 2), (2, 5)],
      queue := [{ cid := 1, policy := .all, offset := 1, err := .ok, mid := 1, by_ := 0, epoch := 1 },
                { cid := 2, policy := .all, offset := 2, err := .ok, mid := 2, by_ := 0, epoch := 1 },
                { cid := 3, policy := .all, offset := 3, err := .ok, mid := 3, by_ := 0, epoch := 1 }] }).2.map (·.offset))
    = [1, 2] := by decide

/-- Below the minimum ISR size nothing is acknowledged. -/
example : (commitStep { minISR := 2 }
    { log := CLog.init 1024 false, role := .leader, commitCheck := 1, isrOff := [(0, 3)],
      queue := [{ cid := 1, policy := .all, offset := 1, err := .ok, mid := 1, by_ := 0, epoch := 1 }] }).2 = [] := by
  decide

/-- Replication factor 1 fast path: a LEADER-policy message is acked at once, the HW moves without
the commit queue, nothing is queued. -/
example : ((publishStep { n := 1, minISR := 1 } 0
    { log := CLog.init 1024 false, role := .leader, leaderEpoch := 1, isrOff := [(0, -1)] }
    [{ mid := 7, cid := 107, policy := .leader }]).map fun r => (r.1.log.hw, r.1.queue.length, r.2.map (·.offset)))
    = some (0, 0, [0]) := by decide +kernel

end Liftbridge.Props.C04
