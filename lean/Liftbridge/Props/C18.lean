/-
C18 — The activity stream lists metadata changes in commit order, at least once.

Property theorems only (helper lemmas: Proofs/Activity.lean). Every theorem below quantifies over
ALL sequences of steps of the model (Model/Activity.lean): commits of metadata operations and
Raft-internal entries, iterations of the controller's dispatch goroutine and of stale goroutines
of earlier leaderships with every outcome of publish / record, controller changes to any FSM
view, restarts, snapshots with log truncation. `init false` = ack policy LEADER/ALL (the default
is ALL — regenerated); what `none` does is shown separately (`ack_none_can_lose`).
-/
import Liftbridge.Proofs.Activity

namespace Liftbridge.Props.C18
open Liftbridge Liftbridge.Activity

/-! ### the regenerated table of event-bearing operations -/

def opNum (name : String) : Option Nat := (Gen.Activity.protoOps.find? (·.1 == name)).map (·.2)
def actNum (name : String) : Option Nat := (Gen.Activity.activityOps.find? (·.1 == name)).map (·.2)

/-- The stream and consumer-group operations of the property statement and the event each must
produce (a group creation is published as the join of its first member). Hand-written: this is the
specification the regenerated switch of `handleRaftLog` is compared with. -/
def specOps : List (String × String) :=
  [("CREATE_STREAM", "CREATE_STREAM"), ("DELETE_STREAM", "DELETE_STREAM"), ("PAUSE_STREAM", "PAUSE_STREAM"),
   ("RESUME_STREAM", "RESUME_STREAM"), ("SET_STREAM_READONLY", "SET_STREAM_READONLY"),
   ("CREATE_CONSUMER_GROUP", "JOIN_CONSUMER_GROUP"), ("JOIN_CONSUMER_GROUP", "JOIN_CONSUMER_GROUP"),
   ("LEAVE_CONSUMER_GROUP", "LEAVE_CONSUMER_GROUP")]

/-- Operations of the FSM that are cluster-internal bookkeeping, not stream / group operations. -/
def internalOps : List String :=
  ["SHRINK_ISR", "CHANGE_LEADER", "EXPAND_ISR", "CHANGE_CONSUMER_GROUP_COORDINATOR", "PUBLISH_ACTIVITY"]

/-- Every stream / consumer-group operation of the FSM is event-bearing with the right activity
op, and every operation the FSM applies is classified (a new `proto.Op` handled by `Server.apply`
but absent from both lists makes this fail, so it cannot be forgotten silently). The only guarded
skip is a group creation without members. -/
theorem event_table_covers_spec :
    (specOps.all fun (o, a) =>
      match opNum o, actNum a with
      | some n, some m => Gen.Activity.eventCases.any (fun c => c.1 == n && c.2.1 == m)
      | _, _ => false) = true ∧
    (Gen.Activity.fsmOps.all fun n =>
      Gen.Activity.eventCases.any (fun c => c.1 == n) ||
      internalOps.any (fun o => opNum o == some n)) = true ∧
    (Gen.Activity.eventCases.all fun c => c.2.2 == (some c.1 == opNum "CREATE_CONSUMER_GROUP")) = true ∧
    Gen.Activity.defaultSkips = true := by decide

/-! ### ids -/

/-- Every event in the stream carries as id the Raft index of a committed, event-bearing
operation, and the activity op of exactly that operation. -/
theorem id_is_index (steps : List Step) :
    let s := run (init false) steps
    ∀ ev ∈ s.stream, ∃ e, entryAt s.raft ev.id = some e ∧ eventOf e = some ev.op :=
  (inv_run inv_init steps).evs

/-- Redeliveries are identical: two events with the same id are the same event; and (by
`id_is_index`) two deliveries of the same operation have the same id, its Raft index. -/
theorem redelivery_same_event (steps : List Step) :
    let s := run (init false) steps
    ∀ ev₁ ∈ s.stream, ∀ ev₂ ∈ s.stream, ev₁.id = ev₂.id → ev₁ = ev₂ := by
  intro s ev₁ h₁ ev₂ h₂ hid
  obtain ⟨e₁, he₁, ha₁⟩ := id_is_index steps ev₁ h₁
  obtain ⟨e₂, he₂, ha₂⟩ := id_is_index steps ev₂ h₂
  rw [hid, he₂] at he₁
  cases he₁
  rw [ha₂] at ha₁
  cases ev₁; cases ev₂
  simp_all

/-- Ids grow with the commit order: every id ever delivered is at most the current commit index,
and the next operation committed gets the index `commit index + 1` — strictly greater than the
ids of all earlier operations. -/
theorem later_operations_get_greater_ids (steps : List Step) (e : Entry) (hpa : isPA e = false) :
    let s := run (init false) steps
    let s' := step s (.commit e)
    entryAt s'.raft (s.raft.length + 1) = some e ∧ ∀ y ∈ ids s', y < s.raft.length + 1 := by
  intro s s'
  have hs' : s' = { s with raft := s.raft ++ [e] } := by
    show step s (.commit e) = _
    simp [step, stepE, hpa]
  refine ⟨?_, ?_⟩
  · rw [hs']; simp [entryAt]
  · intro y hy
    have hy' : y ∈ ids s := by rw [hs'] at hy; exact hy
    have := (ids_le (s := s) (inv_run inv_init steps) hy').2
    omega

/-! ### order -/

/-- A dispatch goroutine (the controller's or a stale one) whose index is `i` has already
delivered every event-bearing operation below `i`. -/
theorem no_skip (steps : List Step) :
    let s := run (init false) steps
    (∀ d, s.dispatcher = some d → ∀ j, j < d.next → evAt s.raft j = true → j ∈ ids s) ∧
    (∀ d ∈ s.zombies, ∀ j, j < d.next → evAt s.raft j = true → j ∈ ids s) := by
  intro s
  have h := inv_run inv_init steps
  exact ⟨fun d hd => (h.disp d hd).below, fun d hd => (h.zomb d hd).below⟩

/-- The resume point after a restart or a controller change never passes an undelivered
operation — whatever backlog there is at that moment (operations committed between an event and
the PUBLISH_ACTIVITY entry that records it, publish failures, earlier restarts). `no_skip` for
runs that end with the step that starts the new dispatcher; stated separately because this is
where the rule of `fsm.go` — store `PublishActivityOp.RaftIndex`, not the position of the
bookkeeping entry (regenerated: `applyStoresArg`) — is needed. -/
theorem resume_never_skips (steps : List Step) (st : Step)
    (_hst : st = .restart ∨ ∃ view linger, st = .leaderChange view linger) :
    let s := run (init false) (steps ++ [st])
    ∀ d, s.dispatcher = some d → ∀ j, j < d.next → evAt s.raft j = true → j ∈ ids s :=
  (no_skip (steps ++ [st])).1

/-- No gaps: when an event is in the stream, the events of all earlier event-bearing operations
are in the stream too. -/
theorem no_gap (steps : List Step) :
    let s := run (init false) steps
    ∀ y ∈ ids s, ∀ j, j < y → evAt s.raft j = true → j ∈ ids s :=
  (inv_run inv_init steps).closed

/-- The first deliveries appear in commit order: the ids of the stream, duplicates after the
first occurrence removed, are strictly increasing. -/
theorem first_occurrence_order (steps : List Step) :
    (firsts (ids (run (init false) steps))).Pairwise (· < ·) :=
  (inv_run inv_init steps).sorted

/-! ### at least once -/

/-- "At least once", as an invariant that implies progress (no temporal logic): while an
event-bearing committed operation `j` is undelivered, the controller's dispatcher has not passed
it (it targets the smallest such operation), it is not waiting, and — unless it is behind the
compaction floor — `j + 1 - next` successful iterations deliver `j`. Failed iterations leave the
dispatcher where it is (head-of-line blocking), so they only delay this. -/
theorem at_least_once_enabled (steps : List Step) (d : Disp) (j : Nat) :
    let s := run (init false) steps
    s.dispatcher = some d → evAt s.raft j = true → j ∉ ids s →
    d.next ≤ j ∧ j ≤ s.raft.length ∧
    (s.crashed = false → s.floor ≤ d.next → j ∈ ids (drive (j + 1 - d.next) s)) := by
  intro s hd hev hj
  have h := inv_run inv_init steps
  have hle : d.next ≤ j := by
    apply Nat.le_of_not_lt
    intro hlt
    exact hj ((h.disp d hd).below j hlt hev)
  refine ⟨hle, (evAt_le hev).2, ?_⟩
  intro hc hf
  have := drive_publishes (j - d.next) s d j hd hc hf (h.disp d hd).pos (by omega) (evAt_le hev).2 hev
  have he : j - d.next + 1 = j + 1 - d.next := by omega
  rw [he] at this
  exact this

/-! ### never reading below the compaction floor — FALSE on the current code -/

/-- Full-strength statement: the controller's dispatcher never asks the log store for an index
that was truncated away. -/
def never_reads_compacted_asStated : Prop :=
  ∀ (steps : List Step) (d : Disp),
    (run (init false) steps).dispatcher = some d → (run (init false) steps).floor ≤ d.next

/-- Witness: become controller; create a stream (index 1); deliver it (record = index 2); skip the
record entry; create another stream (index 3); snapshot at 3 truncating the log to `[3, …]`;
restart. -/
def wCompact : List Step :=
  [.leaderChange none false, .commit {}, .dispatch 0 .ok, .dispatch 0 .ok, .commit {},
   .snapshot 3 3, .restart]

/-- The statement is false: the FSM snapshot does not carry the last published index
(regenerated fact), so after the restart the dispatcher starts from index 1, below the floor 3. -/
theorem never_reads_compacted_asStated_false
    (_hc : Gen.Activity.snapshotCarriesLastPublished = false) : ¬ never_reads_compacted_asStated := by
  intro h
  have := h wCompact { next := 1, holding := false } (by decide)
  revert this
  decide

/-- … and the very next iteration of the dispatcher kills the process (`panic(err)` on
`GetLog`, regenerated). -/
theorem compacted_restart_panics :
    (run (init false) (wCompact ++ [.dispatch 0 .ok])).crashed = true := by decide

/-- What does hold: the dispatcher can only get below the floor through one of the steps excluded
by `Gentle` — a compaction overtaking the recorded index / the running dispatcher, a restart or
fail-over to an FSM view below the floor (the snapshot does not carry the index), or a stale
goroutine recording an old index. Runs without such steps never read a truncated index. -/
theorem never_reads_compacted_partial (ackNone : Bool) (steps : List Step)
    (hg : GentleRun (init ackNone) steps) (d : Disp) :
    (run (init ackNone) steps).dispatcher = some d → (run (init ackNone) steps).floor ≤ d.next :=
  (nr_run (nr_init ackNone) steps hg).disp d

/-- Full-strength "at least once" as a possibility statement: whatever happened so far, retries,
restarts and further operations can still deliver every event-bearing committed operation. -/
def at_least_once_asStated : Prop :=
  ∀ (steps : List Step) (j : Nat), evAt (run (init false) steps).raft j = true →
    ∃ more : List Step, (∀ st ∈ more, Retry st) ∧ j ∈ ids (run (run (init false) steps) more)

/-- False: after `wCompact` operation 3 (a committed stream creation) can never be delivered —
every restart recomputes index 1, every iteration panics, for ever. -/
theorem at_least_once_asStated_false
    (hc : Gen.Activity.snapshotCarriesLastPublished = false) : ¬ at_least_once_asStated := by
  intro h
  obtain ⟨more, hr, hj⟩ := h wCompact 3 (by decide)
  have hw : Wedged (run (init false) wCompact) :=
    ⟨by decide, by decide, by intro d hd; have : some d = some (startDisp 0) := hd ▸ (by decide); cases this; decide⟩
  have := (wedged_run hc hw more hr).2
  have hids : ids (run (run (init false) wCompact) more) = ids (run (init false) wCompact) := by
    simp [ids, this]
  rw [hids] at hj
  revert hj
  decide

/-- In general: a state whose restart view lies below the floor stays wedged under retries,
restarts and further operations, and nothing is ever appended to the stream again. -/
theorem wedged_forever (hc : Gen.Activity.snapshotCarriesLastPublished = false) (s : State)
    (h : Wedged s) (more : List Step) (hr : ∀ st ∈ more, Retry st) :
    Wedged (run s more) ∧ (run s more).stream = s.stream :=
  wedged_run hc h more hr

/-! ### ack policy `none` (accepted by the configuration parser — regenerated) -/

/-- With `activity.stream.publish.ack.policy: none` the index is recorded without any
confirmation that the event reached the stream: the dispatcher passes an operation that was
never delivered, so `no_skip` needs the LEADER/ALL policies. -/
theorem ack_none_can_lose :
    let s := run (init true) [.leaderChange none false, .commit {}, .dispatch 0 .lost]
    s.dispatcher = some { next := 2, holding := false } ∧ evAt s.raft 1 = true ∧ 1 ∉ ids s := by decide

/-! ### non-vacuity: the hypotheses are satisfiable and the interesting behaviours occur -/

/-- A run with a failed publish, a publish whose record failed (redelivery), a controller change
with a lingering old goroutine that publishes once more, a snapshot (no truncation) and a restart
after which the whole history is delivered again from index 1. -/
def demo : List Step :=
  [.leaderChange none false, .commit {}, .commit { cmd := false }, .commit { op := 5 },
   .dispatch 0 .pubFail, .dispatch 0 .appended, .dispatch 0 .ok, .dispatch 0 .ok,
   .leaderChange none true, .dispatch 1 .appended, .dispatch 0 .ok, .dispatch 0 .ok,
   .snapshot 5 1, .restart, .dispatch 0 .ok]

/-- A backlog at the restart: three operations (indices 1–3), the first is delivered and recorded
(record entry at index 4), then the controller restarts. The new dispatcher resumes at index 2 —
after the recorded EVENT, not after the record ENTRY (that would be 5, past the undelivered
operations 2 and 3) — and three more iterations deliver the rest (the fourth entry is skipped). -/
def backlogRestart : List Step :=
  [.leaderChange none false, .commit {}, .commit { op := 6 }, .commit { op := 5 }, .dispatch 0 .ok, .restart]

example : (run (init false) backlogRestart).raft.length = 4 ∧
    (run (init false) backlogRestart).lastPublished = 1 ∧
    (run (init false) backlogRestart).dispatcher = some { next := 2, holding := false } := by decide
example : ids (drive 2 (run (init false) backlogRestart)) = [1, 2, 3] := by decide
/-- the same across a controller change, the old goroutine still around -/
example : (run (init false) (backlogRestart.dropLast ++ [.leaderChange none true])).dispatcher
    = some { next := 2, holding := false } := by decide

example : ids (run (init false) demo) = [1, 1, 3, 3, 1] := by decide
example : firsts (ids (run (init false) demo)) = [1, 3] := by decide
example : (run (init false) demo).crashed = false := by decide
example : GentleRun (init false) [.leaderChange none false, .commit {}, .dispatch 0 .ok, .snapshot 2 2] := by
  decide
example : ¬ GentleRun (init false) wCompact := by decide
example : (run (init false) wCompact).dispatcher = some { next := 1, holding := false } ∧
    (run (init false) wCompact).floor = 3 := by decide
example : Gen.Activity.ackNoneAccepted = true ∧ Gen.Activity.defaultAckPolicyAll = true := by decide

end Liftbridge.Props.C18
