/-
C18 at the level of the function body: `activityManager.publishActivityEvent` (server/activity.go) - what ONE
iteration of the dispatcher does with an event - and the retry back-off, translated from the code.
`Gen/GoActivity.lean` is regenerated on every run. The publish into the activity stream (`publishInternal`) and
the Raft proposal that records the published index (`applyOperation`, then the future's `Error()`) are external
calls whose outcomes are parameters; every call is recorded with its arguments.

`go_publishActivityEvent`: for every event and every outcome:
  * the event is published FIRST, to the activity stream, with the configured ack policy;
  * a failed publish is an error and NOTHING is proposed - the index is not recorded, the dispatcher retries this
    entry (the model's step outcome "publish failed");
  * after a successful publish exactly one PUBLISH_ACTIVITY operation is proposed, carrying the event's id (= the
    Raft index of the operation it reports); the call succeeds iff the proposal and its future succeed (outcomes
    "appended but error reported" / "ok" of the model's dispatch step).
`go_backoff`: 1 s after the first failure, then doubled, capped by `maxActivityPublishBackoff`.
-/
import Liftbridge.Proofs.GoCodeBase
import Liftbridge.Gen.GoActivity

set_option linter.unusedSimpArgs false

namespace Liftbridge.Props.GoActivity
open Liftbridge Liftbridge.GoMini Liftbridge.GoCode
open Liftbridge.Gen.GoActivity

theorem translation_complete : unsupported = [] := rfl

theorem binVal_eq_nil_nil : binVal "==" Val.nil Val.nil = .ok (.bool true) := by simp [binVal, isNil]
theorem binVal_ne_nil_nil : binVal "!=" Val.nil Val.nil = .ok (.bool false) := by simp [binVal, isNil]
theorem binVal_ne_str_nil (s : String) : binVal "!=" (Val.str s) Val.nil = .ok (.bool true) := by simp [binVal, isNil]
theorem binVal_eq_str_nil (s : String) : binVal "==" (Val.str s) Val.nil = .ok (.bool false) := by simp [binVal, isNil]
theorem binVal_int (op : String) (a b : Int) : binVal op (Val.int a) (Val.int b) = binInt op a b := rfl

def errOf : Option String → Val
  | some m => .str m
  | none => .nil

/-- outcomes: of the publish, of proposing the PUBLISH_ACTIVITY operation, of its future -/
def actExt (pubErr propErr futErr : Option String) : Ext := fun f _ _ =>
  if f = "pb.Marshal" then some (.tup [.str "event-bytes", .nil])
  else if f = "context.Background" then some (.str "background")
  else if f = "context.WithTimeout" then some (.tup [.str "ctx", .str "cancel"])
  else if f = "publishInternal" then some (.tup [.nil, errOf pubErr])
  else if f = "applyOperation" then some (.tup [.struct [("Error", errOf futErr)], errOf propErr])
  else none

def manager (policy timeout : Int) : Val :=
  .struct [("config", .struct [("ActivityStream", .struct [("PublishTimeout", .int timeout), ("PublishAckPolicy", .int policy)])]),
           ("api", .struct [("kind", .str "api")]), ("getRaft", .struct [("kind", .str "raft")])]

def globals : List (String × Val) := [("activityStream", .str "__activity"), ("proto.Op_PUBLISH_ACTIVITY", .int 8)]

def eventV (id : Int) (op : Int) : Val := .struct [("Id", .int id), ("Op", .int op)]

/-- (nil error?, the publishes and proposals with their arguments) -/
def view : R Out → Option (Bool × List (String × List Val))
  | .ok o => some (match o.rets with | [e] => isNil e | _ => false,
      o.eff.filter fun e => e.1 = "publishInternal" ∨ e.1 = "applyOperation")
  | _ => none

def publishCall (policy : Int) : String × List Val :=
  ("publishInternal", [.str "ctx", .struct [("Value", .str "event-bytes"), ("Stream", .str "__activity"), ("AckPolicy", .int policy)]])

def recordCall (id : Int) : String × List Val :=
  ("applyOperation", [.str "ctx", .struct [("Op", .int 8), ("PublishActivityOp", .struct [("RaftIndex", .int id)])], .nil])

set_option maxRecDepth 8000 in
set_option maxHeartbeats 2000000 in
theorem go_publishActivityEvent (policy timeout id op : Int) (pubErr propErr futErr : Option String) :
    view (runG prog (actExt pubErr propErr futErr) 40 "publishActivityEvent" (some (manager policy timeout)) [eventV id op] globals) =
      some (match pubErr with
        | some _ => (false, [publishCall policy])
        | none => (propErr.isNone && futErr.isNone, [publishCall policy, recordCall id])) := by
  cases pubErr <;> cases propErr <;> cases futErr <;>
    simp [runG, fn_activityManager_publishActivityEvent, prog, gomini, actExt, errOf, manager, globals, eventV, view, publishCall, recordCall, isNil,
      binVal_eq_nil_nil, binVal_ne_nil_nil, binVal_ne_str_nil, binVal_eq_str_nil, builtin, lookup]

def backoffGlobals (second max : Int) : List (String × Val) := [("time.Second", .int second), ("maxActivityPublishBackoff", .int max)]

set_option maxRecDepth 8000 in
theorem go_backoff (prev second max : Int) :
    (match runG prog noExt 20 "computeActivityPublishBackoff" none [.int prev] (backoffGlobals second max) with
      | .ok o => some o.rets | _ => none) =
      some [.int (if prev = 0 then second else if prev * 2 > max then max else prev * 2)] := by
  by_cases h0 : prev = 0
  · simp [runG, fn_computeActivityPublishBackoff, prog, gomini, backoffGlobals, binVal_int, binInt, h0]
  · by_cases h1 : prev * 2 > max
    · have h1' : max < prev * 2 := h1
      simp [runG, fn_computeActivityPublishBackoff, prog, gomini, backoffGlobals, binVal_int, binInt, h0, h1, h1']
    · have h1' : ¬ max < prev * 2 := h1
      simp [runG, fn_computeActivityPublishBackoff, prog, gomini, backoffGlobals, binVal_int, binInt, h0, h1, h1']

end Liftbridge.Props.GoActivity
