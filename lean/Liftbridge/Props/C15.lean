/-
C15 — with ACLs on, an unauthorised call is refused and changes nothing.

The theorems are about `Gen.Handlers.handlers`, the table of authorisation skeletons that
is REGENERATED from server/api.go on every run (one per method of the gRPC service, plus
the async publish loop), under the semantics of Model/Authz.lean. The policy is
universally quantified everywhere (casbin's `Enforce` is an arbitrary predicate).

On the current code the full-strength statement is FALSE (`C15_asStated_false`): the four
consumer-group RPCs never ask (Subscribe and the async publish loop were repaired and are
no longer tolerated as violators). What holds is
`C15_partial` (every handler that checks first — the list is computed, not hand-picked),
`C15_asStated_iff` (the full statement holds exactly when the computed list of violators
is empty, so a repaired tree flips it) and `C15_violators_known` (no handler outside the
recorded findings violates — a removed or displaced check elsewhere breaks this theorem).
-/
import Liftbridge.Proofs.Authz
import Liftbridge.Gen.Handlers

namespace Liftbridge.C15
open Liftbridge.Authz Liftbridge.Gen.Handlers

/-- The property for one handler: for EVERY policy and client, if the policy does not grant
the handler's (resource, action), no effect is executed on any path and every path ends in
a refusal. -/
def Holds (h : Handler) : Prop :=
  ∀ (pol : Policy) (cl : Client), ¬ pol cl h.res h.act = true →
    (run pol cl h.body).effects = [] ∧ (run pol cl h.body).denied = true

/-- C15 as stated: every handler of the regenerated table. -/
def C15_asStated : Prop := ∀ h ∈ handlers, Holds h

/-- Handlers for which the deny-all policy exhibits an effect or a missing refusal. -/
def violators : List Handler := handlers.filter Handler.violates

/-- Findings recorded as OPEN for the current code (known_findings.json): the
consumer-group RPCs (no check at all). Subscribe and PublishAsync / its loop were repaired
(fixes/C15-subscribe-order.diff, fixes/C15-publishasync-continue.diff) and must not
violate any more. -/
def knownViolators : List String :=
  ["JoinConsumerGroup", "LeaveConsumerGroup",
   "FetchConsumerGroupAssignments", "ReportConsumerGroupCoordinator"]

/-- C15 for every handler that checks its own permission first and stops on a denial; the
list is computed from the regenerated table. Holds for all policies and clients. -/
theorem C15_partial : ∀ h ∈ handlers.filter Handler.checkedFirst, Holds h := by
  intro h hm pol cl hden
  exact checkedFirst_sound h (List.mem_filter.mp hm).2 pol cl hden

/-- The syntactic procedure decides every handler of the table: it either checks first or
the deny-all policy is a counterexample (no handler is left undetermined). -/
theorem C15_classified : ∀ h ∈ handlers, h.checkedFirst = true ∨ h.violates = true := by
  decide

/-- The full statement holds exactly when the computed list of violators is empty. -/
theorem C15_asStated_iff : C15_asStated ↔ violators = [] := by
  constructor
  · intro hs
    simp only [violators, List.filter_eq_nil_iff]
    intro h hm hv
    exact violates_witness h hv "" (hs h hm (fun _ _ _ => false) "" (by simp))
  · intro hv h hm
    simp only [violators, List.filter_eq_nil_iff] at hv
    rcases C15_classified h hm with hc | hvi
    · exact fun pol cl hden => checkedFirst_sound h hc pol cl hden
    · exact absurd hvi (hv h hm)

/-- C15 as stated is false on the current code: some handler has an effect, or does not
refuse, under the deny-all policy. -/
theorem C15_asStated_false : ¬ C15_asStated := by
  rw [C15_asStated_iff]
  decide

/-- Every violator is one of the recorded findings: any OTHER handler losing or displacing
its check makes this theorem fail on the next run. -/
theorem C15_violators_known :
    (violators.map (·.name)).all (fun n => knownViolators.contains n) = true := by
  decide

/-- The table covers the whole gRPC service: every method of `APIServer` has a skeleton (or
is answered by `UnimplementedAPIServer`). -/
theorem C15_covers_service :
    serviceMethods.all (fun m => (handlers.map (·.name)).contains m || unimplemented.contains m) = true := by
  decide

/-- Extracted facts behind "the policy is consulted per call, a reload is seen by the next
call": `enforcePolicy` calls `Enforce(subject, object, action)` under the read lock on every
call, the check forwards (client id, resource, action) unchanged and is gated by
`config.TLSClientAuthz` only, and SIGHUP reloads under the write lock. -/
theorem C15_policy_consulted_per_call :
    enforcePerCall = true ∧ enforceArgOrder = true ∧ checkPassesArgs = true ∧
    checkGatedByConfig = true ∧ sighupReloads = true ∧ guardEmptyClient = .eq := by
  decide

/-- Reload: the outcome of a call depends only on the policy in force at that call. -/
theorem C15_reload (h : Handler) (hm : h ∈ handlers.filter Handler.checkedFirst)
    (_polBefore polAfter : Policy) (cl : Client) (hden : ¬ polAfter cl h.res h.act = true) :
    (run polAfter cl h.body).effects = [] ∧ (run polAfter cl h.body).denied = true :=
  C15_partial h hm polAfter cl hden

-- ---------------------------------------------------------------- the check itself

/-- A call whose context carries NO client identity (no value under the key, or a value that
is not a string) is never allowed while authorisation is enabled — whatever the enforcer
would answer. Statement about the decision tree regenerated from
`ensureAuthorizationPermission`. -/
theorem no_identity_never_allowed (enfErr enfOk : Bool) :
    ensureDecision.eval ⟨true, none, enfErr, enfOk⟩ ≠ .allow := by
  rw [DTree.eval_bits]; revert enfErr enfOk; decide

/-- The empty identity (a certificate without common name) is never allowed either. -/
theorem empty_identity_never_allowed (enfErr enfOk : Bool) :
    ensureDecision.eval ⟨true, some "", enfErr, enfOk⟩ ≠ .allow := by
  rw [DTree.eval_bits]; revert enfErr enfOk; decide

theorem allowed_bits : ∀ hasId nonEmpty ee eo : Bool,
    (ensureDecision.evalB true hasId nonEmpty ee eo = .allow) ↔
      (hasId = true ∧ nonEmpty = true ∧ ee = false ∧ eo = true) := by decide

/-- With authorisation enabled the check allows EXACTLY when the context carries a non-empty
client id and the enforcer answers "yes" without error for (that id, resource, action):
every other combination of inputs is refused. -/
theorem allowed_iff_policy_entry (i : DIn) (hen : i.enabled = true) :
    ensureDecision.eval i = .allow ↔
      ∃ id, i.ident = some id ∧ id ≠ "" ∧ i.enfErr = false ∧ i.enfOk = true := by
  rw [DTree.eval_bits, hen, allowed_bits]
  cases hi : i.ident with
  | none => simp
  | some s => simp [String.length_eq_zero_iff]

/-- The answers the handlers' checks get from the regenerated `ensureAuthorizationPermission`
when authorisation is enabled: context identity `ident`, policy `pol`, and `err` telling for
which questions the enforcer fails. -/
def allowOf (ident : Option String) (pol : Policy) (err : Client → Res → Act → Bool) :
    Res → Act → Bool :=
  fun r a => (ensureDecision.eval
    ⟨true, ident, err (ident.getD "") r a, pol (ident.getD "") r a⟩).isAllow

/-- C15 end to end for the handlers that check first: for EVERY context identity (absent,
empty, unknown, known), policy and enforcer failure behaviour, unless the context carries a
non-empty id for which the policy has the handler's (resource, action) entry, no effect is
executed on any path and every path refuses. -/
theorem C15_partial_identity : ∀ h ∈ handlers.filter Handler.checkedFirst,
    ∀ (ident : Option String) (pol : Policy) (err : Client → Res → Act → Bool),
    ¬ (∃ id, ident = some id ∧ id ≠ "" ∧ pol id h.res h.act = true) →
    (runWith (allowOf ident pol err) h.body).effects = [] ∧
    (runWith (allowOf ident pol err) h.body).denied = true := by
  intro h hm ident pol err hno
  apply checkedFirst_sound_with h (List.mem_filter.mp hm).2
  cases hd : allowOf ident pol err h.res h.act with
  | false => rfl
  | true =>
    exfalso
    have ha : ensureDecision.eval
        ⟨true, ident, err (ident.getD "") h.res h.act, pol (ident.getD "") h.res h.act⟩ = .allow := by
      simp only [allowOf] at hd
      cases he : ensureDecision.eval
        ⟨true, ident, err (ident.getD "") h.res h.act, pol (ident.getD "") h.res h.act⟩ with
      | allow => rfl
      | refuse w => rw [he] at hd; cases hd
    obtain ⟨id, hid, hne, _, hok⟩ := (allowed_iff_policy_entry _ rfl).mp ha
    simp only at hid hok
    exact hno ⟨id, hid, hne, by simpa [hid] using hok⟩

-- ---------------------------------------------------------------- streaming sessions

/-- Every client-streaming RPC of the service has a per-message loop in the regenerated
table, and every per-message loop body checks first: its authorisation call is an
unconditional statement of the loop body (not nested under any condition), nothing but the
`Recv` error test precedes it, and its denial branch has no effect and never falls through
(`spineGuard`); semantically, under deny-all no path of the body has an effect or fails to
refuse (`checkedFirst`). -/
theorem C15_session_check_unconditional :
    clientStreamingMethods.all (fun m => sessionLoops.any (·.name == m)) = true ∧
    sessionLoops.all (fun l => spineGuard l.res l.act l.body && l.checkedFirst) = true := by
  decide

/-- Sessions of any length: in EVERY execution of a per-message loop over the messages of one
session — policies may differ from message to message (reload) — every message for which an
effect was executed (published to NATS, stream resumed) or that was not answered by a refusal
had its own (client, stream, action) entry in the policy in force when it was processed. A
denial of an earlier message, or a grant of an earlier message to the same stream, has no
influence. By induction over the list of messages (`sessions_sound`). -/
theorem C15_session_every_published_had_entry : ∀ l ∈ sessionLoops,
    ∀ (cl : Client) (msgs : List Msg), ∀ tr ∈ sessions l.res cl l.body 0 msgs, ∀ d ∈ tr,
      (d.effects ≠ [] ∨ d.refused = false) →
      ∃ m, msgs[d.idx]? = some m ∧ m.pol cl m.stream l.act = true := by
  intro l hl cl msgs tr htr d hd hbad
  have hc : l.checkedFirst = true := by
    have := C15_session_check_unconditional.2
    simp only [List.all_eq_true, Bool.and_eq_true] at this
    exact (this l hl).2
  obtain ⟨k, m, hk, hm, hg⟩ := sessions_sound l hc cl msgs 0 tr htr d hd hbad
  exact ⟨m, by simpa [hk] using hm, hg⟩

/-- Streaming RPCs that are not client-streaming (one request, answers streamed: Subscribe)
are covered by `C15_partial`: they are in the computed list of handlers that check first. -/
theorem C15_server_streaming_checked_first :
    (streamingMethods.filter (fun m => !clientStreamingMethods.contains m)).all
      (fun m => (handlers.filter Handler.checkedFirst).any (·.name == m)) = true := by
  decide

-- ---------------------------------------------------------------- non-vacuity

/-- the partial theorem is not about an empty list -/
example : ((handlers.filter Handler.checkedFirst).map (·.name)).contains "CreateStream" = true := by decide
example : 10 ≤ (handlers.filter Handler.checkedFirst).length := by decide
/-- a denying policy exists, and an allowing run does have effects (the skeletons are not empty) -/
example : ¬ (fun (_ : Client) (_ : Res) (_ : Act) => false) "alice" h_CreateStream.res h_CreateStream.act = true := by simp
example : (run (fun _ _ _ => true) "alice" h_CreateStream.body).effects.contains "createStream" = true := by decide
example : (run (fun _ _ _ => true) "alice" h_CreateStream.body).denied = false := by decide
/-- a policy granting OTHER actions on the same resource still refuses -/
example : (run (fun _ _ a => a != "DeleteStream") "alice" h_DeleteStream.body) = ⟨[], true⟩ := by decide

/-- the session theorem is not about an empty table, and a session in which a granted message
is published and a denied one (same stream, after a reload) is refused does exist -/
example : sessionLoops.length ≥ 1 := by decide
example : (sessions "req.Stream" "alice" (.seq (.check "req.Stream" "Publish" (.seq .report .cont)) (.effect "natsPublish")) 0
    [⟨"foo", fun _ _ _ => true⟩, ⟨"foo", fun _ _ _ => false⟩]) =
    [[⟨0, ["natsPublish"], false⟩, ⟨1, [], true⟩]] := by decide
/-- the mutated shape (check only when the stream differs from the previous one = nested under
a condition) has an execution that publishes a denied message, and is rejected by `spineGuard` -/
example : [⟨0, [], true⟩, ⟨1, ["natsPublish"], false⟩] ∈
    sessions "req.Stream" "mallory"
      (.seq (.ite (.check "req.Stream" "Publish" (.seq .report .cont)) .skip) (.effect "natsPublish")) 0
      [⟨"bar", fun _ _ _ => false⟩, ⟨"bar", fun _ _ _ => false⟩] := by decide
example : spineGuard "req.Stream" "Publish"
    (.seq (.ite (.check "req.Stream" "Publish" (.seq .report .cont)) .skip) (.effect "natsPublish")) = false := by decide
/-- the decision tree does allow a known client with an entry, and a tree with an early
`return nil` for a missing identity is told apart -/
example : ensureDecision.eval ⟨true, some "alice", false, true⟩ = .allow := by decide
example : ensureDecision.eval ⟨false, none, false, false⟩ = .allow := by decide
example : (DTree.ite .enabled (.ite .hasID (.ite (.idVsEmpty .eq) (.ret (.refuse "id")) (.ite .enfOk (.ret .allow) (.ret (.refuse "no"))))
    (.ret .allow)) (.ret .allow)).eval ⟨true, none, false, false⟩ = .allow := by decide

-- ---------------------------------------------------------------- the defects, frozen

/-- Subscribe as of the unrepaired tree (api.go:225-236): set-up, deferred close, THEN the
check. Under deny-all the stream is resumed and the subscription (with group take-over)
is made before the refusal. -/
def subscribe_prefix_defect : Stmt :=
  .seq (.effect "resumeStream") (.seq (.effect "subscribe") (.seq (.ite (.ret .err) .skip)
  (.seq (.effect "closeSub") (.seq (.check "req.Stream" "Subscribe" (.ret .auth)) (.ret .ok)))))

example : (paths denyAll subscribe_prefix_defect).contains
    ⟨["resumeStream", "subscribe", "closeSub"], true, false, .ret .auth⟩ = true := by decide
example : (run (fun _ _ _ => false) "mallory" subscribe_prefix_defect).effects ≠ [] := by decide

/-- The async publish loop as of the unrepaired tree (api.go:1101-1106): the denial is
reported, there is no `continue`, the message is published. -/
def publishLoop_prefix_defect : Stmt :=
  .loop true (.seq (.check "req.Stream" "Publish" .report)
    (.seq (.effect "resumeStream") (.effect "natsPublish")))

example : run (fun _ _ _ => false) "mallory" publishLoop_prefix_defect
    = ⟨["resumeStream", "natsPublish"], true⟩ := by decide

/-- with the `continue` the same loop is clean -/
example : run (fun _ _ _ => false) "mallory"
    (.loop true (.seq (.check "req.Stream" "Publish" (.seq .report .cont))
      (.seq (.effect "resumeStream") (.effect "natsPublish")))) = ⟨[], true⟩ := by decide

end Liftbridge.C15
