/-
C15 — with ACLs on, an unauthorised call is refused and changes nothing.

The theorems are about `Gen.Handlers.handlers`, the table of authorisation skeletons that
is REGENERATED from server/api.go on every run (one per method of the gRPC service, plus
the async publish loop), under the semantics of Model/Authz.lean. The policy is
universally quantified everywhere (casbin's `Enforce` is an arbitrary predicate).

On the current code the full-strength statement is FALSE (`C15_asStated_false`): Subscribe
sets the subscription up before it asks, the async publish loop reports a denial and
publishes anyway, and the four consumer-group RPCs never ask. What holds is
`C15_partial` (every handler that checks first — the list is computed, not hand-picked),
`C15_asStated_iff` (the full statement holds exactly when the computed list of violators
is empty, so a repaired tree flips it) and `C15_violators_known` (no handler outside the
recorded findings violates — a removed or displaced check elsewhere breaks this theorem).
-/
import Liftbridge.Proofs.Authz
import Liftbridge.Gen.Handlers

namespace Liftbridge.C15
open Liftbridge.Authz Liftbridge.Gen.Handlers

/-- The property for one handler: for EVERY policy and client, if the policy does not grant
the handler's (resource, action), no effect is executed on any path and every path ends in
a refusal. -/
def Holds (h : Handler) : Prop :=
  ∀ (pol : Policy) (cl : Client), ¬ pol cl h.res h.act = true →
    (run pol cl h.body).effects = [] ∧ (run pol cl h.body).denied = true

/-- C15 as stated: every handler of the regenerated table. -/
def C15_asStated : Prop := ∀ h ∈ handlers, Holds h

/-- Handlers for which the deny-all policy exhibits an effect or a missing refusal. -/
def violators : List Handler := handlers.filter Handler.violates

/-- Findings recorded for the current code (known_findings.json / fixes/): Subscribe
(authorises after set-up), PublishAsync and its loop (report and carry on), and the
consumer-group RPCs (no check at all). -/
def knownViolators : List String :=
  ["Subscribe", "PublishAsync", "publishLoop", "JoinConsumerGroup", "LeaveConsumerGroup",
   "FetchConsumerGroupAssignments", "ReportConsumerGroupCoordinator"]

/-- C15 for every handler that checks its own permission first and stops on a denial; the
list is computed from the regenerated table. Holds for all policies and clients. -/
theorem C15_partial : ∀ h ∈ handlers.filter Handler.checkedFirst, Holds h := by
  intro h hm pol cl hden
  exact checkedFirst_sound h (List.mem_filter.mp hm).2 pol cl hden

/-- The syntactic procedure decides every handler of the table: it either checks first or
the deny-all policy is a counterexample (no handler is left undetermined). -/
theorem C15_classified : ∀ h ∈ handlers, h.checkedFirst = true ∨ h.violates = true := by
  decide

/-- The full statement holds exactly when the computed list of violators is empty. -/
theorem C15_asStated_iff : C15_asStated ↔ violators = [] := by
  constructor
  · intro hs
    simp only [violators, List.filter_eq_nil_iff]
    intro h hm hv
    exact violates_witness h hv "" (hs h hm (fun _ _ _ => false) "" (by simp))
  · intro hv h hm
    simp only [violators, List.filter_eq_nil_iff] at hv
    rcases C15_classified h hm with hc | hvi
    · exact fun pol cl hden => checkedFirst_sound h hc pol cl hden
    · exact absurd hvi (hv h hm)

/-- C15 as stated is false on the current code: some handler has an effect, or does not
refuse, under the deny-all policy. -/
theorem C15_asStated_false : ¬ C15_asStated := by
  rw [C15_asStated_iff]
  decide

/-- Every violator is one of the recorded findings: any OTHER handler losing or displacing
its check makes this theorem fail on the next run. -/
theorem C15_violators_known :
    (violators.map (·.name)).all (fun n => knownViolators.contains n) = true := by
  decide

/-- The table covers the whole gRPC service: every method of `APIServer` has a skeleton (or
is answered by `UnimplementedAPIServer`). -/
theorem C15_covers_service :
    serviceMethods.all (fun m => (handlers.map (·.name)).contains m || unimplemented.contains m) = true := by
  decide

/-- Extracted facts behind "the policy is consulted per call, a reload is seen by the next
call": `enforcePolicy` calls `Enforce(subject, object, action)` under the read lock on every
call, the check forwards (client id, resource, action) unchanged and is gated by
`config.TLSClientAuthz` only, and SIGHUP reloads under the write lock. -/
theorem C15_policy_consulted_per_call :
    enforcePerCall = true ∧ enforceArgOrder = true ∧ checkPassesArgs = true ∧
    checkGatedByConfig = true ∧ sighupReloads = true ∧ guardEmptyClient = .eq := by
  decide

/-- Reload: the outcome of a call depends only on the policy in force at that call. -/
theorem C15_reload (h : Handler) (hm : h ∈ handlers.filter Handler.checkedFirst)
    (_polBefore polAfter : Policy) (cl : Client) (hden : ¬ polAfter cl h.res h.act = true) :
    (run polAfter cl h.body).effects = [] ∧ (run polAfter cl h.body).denied = true :=
  C15_partial h hm polAfter cl hden

-- ---------------------------------------------------------------- non-vacuity

/-- the partial theorem is not about an empty list -/
example : ((handlers.filter Handler.checkedFirst).map (·.name)).contains "CreateStream" = true := by decide
example : 10 ≤ (handlers.filter Handler.checkedFirst).length := by decide
/-- a denying policy exists, and an allowing run does have effects (the skeletons are not empty) -/
example : ¬ (fun (_ : Client) (_ : Res) (_ : Act) => false) "alice" h_CreateStream.res h_CreateStream.act = true := by simp
example : (run (fun _ _ _ => true) "alice" h_CreateStream.body).effects.contains "createStream" = true := by decide
example : (run (fun _ _ _ => true) "alice" h_CreateStream.body).denied = false := by decide
/-- a policy granting OTHER actions on the same resource still refuses -/
example : (run (fun _ _ a => a != "DeleteStream") "alice" h_DeleteStream.body) = ⟨[], true⟩ := by decide

-- ---------------------------------------------------------------- the defects, frozen

/-- Subscribe as of the unrepaired tree (api.go:225-236): set-up, deferred close, THEN the
check. Under deny-all the stream is resumed and the subscription (with group take-over)
is made before the refusal. -/
def subscribe_prefix_defect : Stmt :=
  .seq (.effect "resumeStream") (.seq (.effect "subscribe") (.seq (.ite (.ret .err) .skip)
  (.seq (.effect "closeSub") (.seq (.check "req.Stream" "Subscribe" (.ret .auth)) (.ret .ok)))))

example : (paths denyAll subscribe_prefix_defect).contains
    ⟨["resumeStream", "subscribe", "closeSub"], true, false, .ret .auth⟩ = true := by decide
example : (run (fun _ _ _ => false) "mallory" subscribe_prefix_defect).effects ≠ [] := by decide

/-- The async publish loop as of the unrepaired tree (api.go:1101-1106): the denial is
reported, there is no `continue`, the message is published. -/
def publishLoop_prefix_defect : Stmt :=
  .loop true (.seq (.check "req.Stream" "Publish" .report)
    (.seq (.effect "resumeStream") (.effect "natsPublish")))

example : run (fun _ _ _ => false) "mallory" publishLoop_prefix_defect
    = ⟨["resumeStream", "natsPublish"], true⟩ := by decide

/-- with the `continue` the same loop is clean -/
example : run (fun _ _ _ => false) "mallory"
    (.loop true (.seq (.check "req.Stream" "Publish" (.seq .report .cont))
      (.seq (.effect "resumeStream") (.effect "natsPublish")))) = ⟨[], true⟩ := by decide

end Liftbridge.C15
