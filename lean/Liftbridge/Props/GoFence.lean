/-
C07 at the level of the function bodies: the fence in front of every in-sync-set change - `metadataAPI.checkLeaderGeneration`,
`partitionExists`, `checkShrinkISRPreconditions`, `checkExpandISRPreconditions`, `checkChangeLeaderPreconditions`
(server/metadata.go), evaluated under the Raft lock when the operation is proposed - translated from the code.
`Gen/GoFence.lean` is regenerated on every run; the package's sentinel errors are values of their own in this unit (a
translated callee sees its receiver and parameters only).

`go_checkLeaderGeneration`: the check passes iff the stream and the partition exist AND the request names the partition's
CURRENT leader AND its CURRENT leader epoch; a stale leader, a stale epoch or a future epoch is refused ("in-sync-set changes
... that name a stale leader or epoch are refused"). `go_checkShrinkExpand`: ShrinkISR and ExpandISR are fenced by exactly that
check on the pair their request carries.
-/
import Liftbridge.Proofs.GoCodeBase
import Liftbridge.Gen.GoFence

set_option linter.unusedSimpArgs false

namespace Liftbridge.Props.GoFence
open Liftbridge Liftbridge.GoMini Liftbridge.GoCode
open Liftbridge.Gen.GoFence

theorem translation_complete : unsupported = [] := rfl

@[simp] theorem lk_clg : evalE.lookup' "checkLeaderGeneration" prog = some fn_metadataAPI_checkLeaderGeneration := by simp [prog, gomini]
@[simp] theorem lk_pe : evalE.lookup' "partitionExists" prog = some fn_metadataAPI_partitionExists := by simp [prog, gomini]
@[simp] theorem lk_cs : evalE.lookup' "checkShrinkISRPreconditions" prog = some fn_metadataAPI_checkShrinkISRPreconditions := by simp [prog, gomini]
@[simp] theorem lk_ce : evalE.lookup' "checkExpandISRPreconditions" prog = some fn_metadataAPI_checkExpandISRPreconditions := by simp [prog, gomini]
@[simp] theorem lk_ccl : evalE.lookup' "checkChangeLeaderPreconditions" prog = some fn_metadataAPI_checkChangeLeaderPreconditions := by simp [prog, gomini]
@[simp] theorem lk_other (f : String) (h3 : f ≠ "checkLeaderGeneration") (h4 : f ≠ "partitionExists") (h5 : f ≠ "checkShrinkISRPreconditions")
    (h6 : f ≠ "checkExpandISRPreconditions") (h7 : f ≠ "checkChangeLeaderPreconditions") :
    evalE.lookup' f prog = none := by simp [prog, gomini, h3, h4, h5, h6, h7]

def mV : Val := .struct [("kind", .str "metadataAPI")]

/-! ### the fence of in-sync-set changes: a request must name the CURRENT leader and leader epoch -/

/-- the metadata as the checks see it: is the stream there, is the partition there, who leads it under which epoch -/
def fenceExt (stream partition : Bool) (curLeader : String) (curEpoch : Int) : Ext := fun f _ _ =>
  if f = "GetStream" then (if stream then some (.struct [("kind", .str "stream")]) else some .nil)
  else if f = "GetPartition" then (if partition then some (.struct [("GetLeader", .tup [.str curLeader, .int curEpoch])]) else some .nil)
  else none

inductive Fence where | ok | streamNotFound | partitionNotFound | mismatch
  deriving DecidableEq, Repr

def fenceOf : R Out → Option Fence
  | .ok o => match o.rets with
    | [.nil] => some .ok
    | [.str "ErrStreamNotFound"] => some .streamNotFound
    | [.str "ErrPartitionNotFound"] => some .partitionNotFound
    | [.str _] => some .mismatch
    | _ => none
  | _ => none

def fenceSpec (stream partition : Bool) (curLeader : String) (curEpoch : Int) (leader : String) (epoch : Int) : Fence :=
  if !stream then .streamNotFound else if !partition then .partitionNotFound
  else if leader ≠ curLeader ∨ epoch ≠ curEpoch then .mismatch else .ok

set_option maxRecDepth 8000 in
set_option maxHeartbeats 2000000 in
/-- `checkLeaderGeneration`: passes iff stream and partition exist AND the request names the current leader AND the current
leader epoch - a stale leader or a stale (or future) epoch is refused -/
theorem go_checkLeaderGeneration (stream partition : Bool) (curLeader : String) (curEpoch : Int) (s : String) (id : Int) (leader : String) (epoch : Int) :
    fenceOf (runG prog (fenceExt stream partition curLeader curEpoch) 30 "checkLeaderGeneration" (some mV) [.str s, .int id, .str leader, .int epoch] []) =
      some (fenceSpec stream partition curLeader curEpoch leader epoch) := by
  cases stream <;> cases partition <;> by_cases h1 : leader = curLeader <;> by_cases h2 : epoch = curEpoch <;>
    simp [runG, fn_metadataAPI_checkLeaderGeneration, fn_metadataAPI_partitionExists, gomini, fenceOf, fenceSpec, fenceExt, mV, truthy, getField, lookup, builtin,
      bindParams, envOf, binInt, h1, h2]

def encShrink (s : String) (id : Int) (leader : String) (epoch : Int) (field : String) : Val :=
  .struct [(field, .struct [("Stream", .str s), ("Partition", .int id), ("Leader", .str leader), ("LeaderEpoch", .int epoch)])]

set_option maxRecDepth 8000 in
set_option maxHeartbeats 2000000 in
/-- ShrinkISR and ExpandISR are fenced by exactly that check, on the (leader, epoch) pair the request carries -/
theorem go_checkShrinkExpand (stream partition : Bool) (curLeader : String) (curEpoch : Int) (s : String) (id : Int) (leader : String) (epoch : Int) :
    fenceOf (runG prog (fenceExt stream partition curLeader curEpoch) 30 "checkShrinkISRPreconditions" (some mV) [encShrink s id leader epoch "ShrinkISROp"] []) =
      some (fenceSpec stream partition curLeader curEpoch leader epoch) ∧
    fenceOf (runG prog (fenceExt stream partition curLeader curEpoch) 30 "checkExpandISRPreconditions" (some mV) [encShrink s id leader epoch "ExpandISROp"] []) =
      some (fenceSpec stream partition curLeader curEpoch leader epoch) := by
  constructor <;> cases stream <;> cases partition <;> by_cases h1 : leader = curLeader <;> by_cases h2 : epoch = curEpoch <;>
    simp [runG, fn_metadataAPI_checkShrinkISRPreconditions, fn_metadataAPI_checkExpandISRPreconditions, fn_metadataAPI_checkLeaderGeneration,
      fn_metadataAPI_partitionExists, gomini, fenceOf, fenceSpec, fenceExt, mV, truthy, getField, lookup, builtin, bindParams, envOf, binInt, h1, h2, encShrink]

end Liftbridge.Props.GoFence
