/-
C08 — Compaction keeps the latest value of every key and changes nothing else.
Theorems about `Liftbridge.Compact` for every key pattern, segment layout and HW position.
`InvC` (Proofs/Compact.lean) is the invariant of logs that may have been compacted or
trimmed (it follows from `Inv` and is preserved by cleaning); the reader theorems of C01 are
re-proved under it, i.e. without assuming dense offsets.
-/
import Liftbridge.Model.Compact
import Liftbridge.Proofs.Log
import Liftbridge.Proofs.Compact

namespace Liftbridge.Props.C08
open Liftbridge Liftbridge.Log Liftbridge.Log.CLog Liftbridge.Compact Liftbridge.Proofs.Log
open Liftbridge.Proofs.Compact

/-- A clean with compaction enabled and no retention limit. -/
def compactLog (l : CLog) : CLog := cleanLog ⟨0, 0, 0⟩ 0 true l

/-- Records of the newest (active) segment. -/
def newestSegRecs (l : CLog) : List Rec := (l.segs.getLast?.map Seg.recs).getD []

/-- `r` is the most recent committed message of its key. Keys are compared as given: no key
(`none`) is not a key, and the empty key `some []` is a key of its own. -/
def LatestOfKey (l : CLog) (r : Rec) : Prop :=
  ∃ k, r.body.key = some k ∧ r.offset ≤ l.hw ∧
    ∀ r' ∈ l.abs, r'.body.key = some k → r'.offset ≤ l.hw → r'.offset ≤ r.offset

theorem invC_of_inv (l : CLog) (h : Inv l) : InvC l := invC_of_inv' h

/-- Cleaning (any retention limits, compaction on or off) preserves the invariant. -/
theorem invC_cleanLog (l : CLog) (lim : Retention.Limits) (ttl : Int) (c : Bool) (h : InvC l) :
    InvC (cleanLog lim ttl c l) := invC_cleanLog' l lim ttl c h

/-- Each surviving message is unchanged, at its original offset and in its original order:
the compacted log is a sublist of the log before (records carry offset, timestamp, epoch,
key, value and headers). -/
theorem survivors_unchanged (l : CLog) : (compactLog l).abs.Sublist l.abs := survivors_sublist l

/-- The most recent committed message of every key survives. -/
theorem latest_kept (l : CLog) (h : InvC l) (r : Rec) (hr : r ∈ l.abs) (hl : LatestOfKey l r) :
    r ∈ (compactLog l).abs := latest_kept' l h r hr hl

/-- Every message without a key survives. -/
theorem keyless_kept (l : CLog) (r : Rec) (hr : r ∈ l.abs) (hk : r.body.key = none) :
    r ∈ (compactLog l).abs := kept_of_retain l r hr (retain_keyless _ _ r hk)

/-- Every message at or above the high watermark survives. -/
theorem above_hw_kept (l : CLog) (r : Rec) (hr : r ∈ l.abs) (hhw : l.hw ≤ r.offset) :
    r ∈ (compactLog l).abs := kept_of_retain l r hr (retain_above_hw _ _ r hhw)

/-- Every message in the newest segment survives. -/
theorem newest_segment_kept (l : CLog) (r : Rec) (hr : r ∈ newestSegRecs l) :
    r ∈ (compactLog l).abs := newest_kept l r hr

/-- Nothing else changes: a message is removed only if a later committed message has the same key. -/
theorem removed_only_superseded (l : CLog) (h : InvC l) (r : Rec) (hr : r ∈ l.abs)
    (hgone : r ∉ (compactLog l).abs) :
    ∃ k r', r.body.key = some k ∧ r' ∈ l.abs ∧ r'.body.key = some k ∧ r.offset < r'.offset ∧ r'.offset ≤ l.hw :=
  removed_only_superseded' l h r hr hgone

/-- The record at the high watermark survives, so committed readers stay well defined. -/
theorem hw_record_survives (l : CLog) (r : Rec) (hr : r ∈ l.abs) (hhw : r.offset = l.hw) :
    r ∈ (compactLog l).abs := above_hw_kept l r hr (by omega)

set_option linter.unusedVariables false in -- holds even without `InvC` (the last segment is untouched)
/-- Compaction does not move the end of the log or the high watermark. -/
theorem compact_keeps_ends (l : CLog) (h : InvC l) :
    (compactLog l).nextOffset = l.nextOffset ∧ (compactLog l).hw = l.hw :=
  ⟨compactLog_nextOffset l, cleanLog_hw _ _ _ l⟩

/-- Repeated compaction (no appends in between) removes nothing more. -/
theorem compact_idempotent (l : CLog) (h : InvC l) : (compactLog (compactLog l)).abs = (compactLog l).abs :=
  compact_idempotent' l h

/-- Forward readers on a compacted (sparse) log: from ANY start offset, exactly the surviving
messages at or after it, in order. -/
theorem readUncommitted_sparse (l : CLog) (s : Int) (h : InvC l) (hs : ∃ r ∈ l.abs, s ≤ r.offset) :
    l.readUncommitted s = .ok (l.abs.filter (fun r => s ≤ r.offset)) :=
  readUncommitted_sparse' l s h hs

/-- Committed readers on a compacted log (the HW record always survives compaction). -/
theorem readCommitted_sparse (l : CLog) (s : Int) (h : InvC l)
    (hhw : ∃ r ∈ l.abs, r.offset = l.hw) (hs : s ≤ l.hw) :
    l.readCommitted s = .ok (l.abs.filter (fun r => s ≤ r.offset ∧ r.offset ≤ l.hw)) :=
  readCommitted_sparse' l s h hhw hs

end Liftbridge.Props.C08
