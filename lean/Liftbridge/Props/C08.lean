import Liftbridge.Model.Compact
namespace Liftbridge.Props.C08
end Liftbridge.Props.C08
