/-
C14 — No NATS payload can crash or confuse the server.
Property theorems only (helper lemmas live in Proofs/). Every theorem quantifies over
*all* byte strings / message types / CRC functions / protobuf codecs.
-/
import Liftbridge.Model.Envelope

namespace Liftbridge.Props.C14
open Liftbridge Liftbridge.Envelope

private theorem index_ne_panic_of_lt {α} (d : List α) (i : Nat) (h : i < d.length) :
    ∃ x, index d i = .ok x := by
  unfold index
  simp [List.getElem?_eq_getElem h]

/-- Decoding any byte string as any envelope type never panics. -/
theorem check_total (crc : Bytes → Nat) (data : Bytes) (ty : UInt8) :
    check crc data ty ≠ .panic := by
  unfold check
  simp only [Gen.Envelope.guardShort, Gen.Envelope.guardHeaderBeyond, Gen.Envelope.guardCrcHeader,
    Cmp.evalNat, minHeaderLen, Gen.Envelope.minHeaderLen, decide_eq_true_eq]
  split
  · simp
  · rename_i hlen
    split
    · simp
    · have h8 : 8 ≤ data.length := by omega
      obtain ⟨v, hv⟩ := index_ne_panic_of_lt data 4 (by omega)
      obtain ⟨hl, hhl⟩ := index_ne_panic_of_lt data 5 (by omega)
      obtain ⟨fl, hfl⟩ := index_ne_panic_of_lt data 6 (by omega)
      obtain ⟨t, ht⟩ := index_ne_panic_of_lt data 7 (by omega)
      simp only [hv, hhl, hfl, ht, Res.bind_ok]
      split
      · simp
      · split
        · simp
        · rename_i hb
          have hle : hl.toNat ≤ data.length := by omega
          simp only [sliceFrom, hle, if_true, Res.bind_ok]
          split
          · simp
          · split
            · split
              · simp
              · rename_i h12
                have : hl.toNat = 12 := by omega
                simp only [slice, this]
                have : (8 ≤ 12 ∧ 12 ≤ data.length) := by omega
                simp only [this, and_self, if_true, Res.bind_ok]
                split <;> simp
            · simp

/-- No envelope decoder panics, whatever the protobuf decoder does. -/
theorem unmarshal_total {μ} (crc : Bytes → Nat) (pbDec : Bytes → Option μ) (data : Bytes) (ty : UInt8) :
    unmarshal crc pbDec data ty ≠ .panic := by
  unfold unmarshal
  have := check_total crc data ty
  cases h : check crc data ty with
  | ok p => simp only [Res.bind_ok]; split <;> simp
  | err e => simp
  | panic => exact absurd h this

/-- The replication-response decoder (which slices the payload itself) never panics. -/
theorem replResp_total (crc : Bytes → Nat) (data : Bytes) : unmarshalReplResp crc data ≠ .panic := by
  unfold unmarshalReplResp
  have := check_total crc data 3
  cases h : check crc data 3 with
  | ok p =>
    simp only [Res.bind_ok, Gen.Envelope.guardReplShort, Gen.Envelope.replMinLen, Cmp.evalNat,
      decide_eq_true_eq]
    split
    · simp
    · rename_i h16
      have h1 : (0 ≤ 8 ∧ 8 ≤ p.length) := by omega
      have h2 : 8 ≤ p.length := by omega
      have h3 : 16 ≤ p.length := by omega
      simp [slice, sliceFrom, h1, h3]
  | err e => simp
  | panic => exact absurd h this

/-- The publish path's envelope-or-raw decision never panics. -/
theorem classify_total {μ} (crc : Bytes → Nat) (pbDec : Bytes → Option μ) (data : Bytes) :
    classify crc pbDec data ≠ .panic := by
  unfold classify
  have := unmarshal_total crc pbDec data 0
  split <;> simp_all

/-- Envelope round-trip on the framing: what `marshalEnvelope` produces is accepted and yields
exactly the payload, for every payload and type. -/
theorem check_marshal (crc : Bytes → Nat) (p : Bytes) (ty : UInt8) :
    check crc (marshal p ty) ty = .ok p := by
  unfold check marshal
  simp [magic, Gen.Envelope.magic, minHeaderLen, Gen.Envelope.minHeaderLen, protoV0,
    Gen.Envelope.protoV0, Gen.Envelope.guardShort, Gen.Envelope.guardHeaderBeyond, Cmp.evalNat,
    index, sliceFrom]
  have h : ¬ (List.length p + 1 + 1 + 1 + 1 + 1 + 1 + 1 + 1 < 8) := by omega
  simp [h]

/-- Encoding then decoding any protocol message returns the same message (relative to the
protobuf codec being a right-inverse pair — recorded hypothesis, not an axiom). -/
theorem unmarshal_marshal {μ} (crc : Bytes → Nat) (pbDec : Bytes → Option μ) (pbEnc : μ → Bytes)
    (hpb : ∀ m, pbDec (pbEnc m) = some m) (m : μ) (ty : UInt8) :
    unmarshal crc pbDec (marshal (pbEnc m) ty) ty = .ok m := by
  unfold unmarshal
  simp [check_marshal, hpb]

/-- Whatever is accepted is exactly the envelope the bytes encode: magic, version and type
match, the header length is within the data and the payload is the rest. With the CRC flag
set, the header is 12 bytes and the stored checksum equals the checksum of the payload —
i.e. a payload whose optional checksum does not match is rejected. -/
theorem check_ok_exact (crc : Bytes → Nat) (data p : Bytes) (ty : UInt8)
    (h : check crc data ty = .ok p) :
    8 ≤ data.length ∧ data.take 4 = magic ∧ data[4]? = some protoV0 ∧ data[7]? = some ty ∧
    ∃ hl fl, data[5]? = some hl ∧ data[6]? = some fl ∧ hl.toNat ≤ data.length ∧
      p = data.drop hl.toNat ∧
      (fl.toNat % 2 = 1 → hl.toNat = 12 ∧ crc p = beNat ((data.take 12).drop 8)) := by
  unfold check at h
  simp only [Gen.Envelope.guardShort, Gen.Envelope.guardHeaderBeyond, Gen.Envelope.guardCrcHeader,
    Cmp.evalNat, minHeaderLen, Gen.Envelope.minHeaderLen, decide_eq_true_eq] at h
  split at h
  · simp at h
  · rename_i hlen
    split at h
    · simp at h
    · rename_i hmagic
      have h8 : 8 ≤ data.length := by omega
      obtain ⟨v, hv⟩ := index_ne_panic_of_lt data 4 (by omega)
      obtain ⟨hl, hhl⟩ := index_ne_panic_of_lt data 5 (by omega)
      obtain ⟨fl, hfl⟩ := index_ne_panic_of_lt data 6 (by omega)
      obtain ⟨t, ht⟩ := index_ne_panic_of_lt data 7 (by omega)
      simp only [hv, hhl, hfl, ht, Res.bind_ok] at h
      have gv : data[4]? = some v := by
        unfold index at hv; split at hv <;> simp_all
      have ghl : data[5]? = some hl := by
        unfold index at hhl; split at hhl <;> simp_all
      have gfl : data[6]? = some fl := by
        unfold index at hfl; split at hfl <;> simp_all
      have gt : data[7]? = some t := by
        unfold index at ht; split at ht <;> simp_all
      split at h
      · simp at h
      · rename_i hver
        split at h
        · simp at h
        · rename_i hb
          have hle : hl.toNat ≤ data.length := by omega
          simp only [sliceFrom, hle, if_true, Res.bind_ok] at h
          split at h
          · simp at h
          · rename_i hty
            have hmag : data.take 4 = magic := by
              have : magic.length = 4 := by simp [magic, Gen.Envelope.magic]
              rw [this] at hmagic
              simpa using hmagic
            have hv' : v = protoV0 := by simpa using hver
            have ht' : t = ty := by simpa using hty
            subst hv' ht'
            refine ⟨h8, hmag, gv, gt, hl, fl, ghl, gfl, hle, ?_, ?_⟩
            · split at h
              · split at h
                · simp at h
                · rename_i h12
                  have e12 : hl.toNat = 12 := by omega
                  simp only [slice, e12] at h
                  have : (8 ≤ 12 ∧ 12 ≤ data.length) := by omega
                  simp only [this, and_self, if_true, Res.bind_ok] at h
                  split at h
                  · simp at h
                  · rw [e12]; injection h with h; exact h.symm
              · injection h with h; exact h.symm
            · intro hodd
              simp only [hodd, if_true] at h
              split at h
              · simp at h
              · rename_i h12
                have e12 : hl.toNat = 12 := by omega
                simp only [slice, e12] at h
                have : (8 ≤ 12 ∧ 12 ≤ data.length) := by omega
                simp only [this, and_self, if_true, Res.bind_ok] at h
                split at h
                · simp at h
                · rename_i hcrc
                  refine ⟨e12, ?_⟩
                  injection h with h
                  subst h
                  simpa using hcrc

/-- A payload that is not a valid publish envelope is stored verbatim. -/
theorem raw_verbatim {μ} (crc : Bytes → Nat) (pbDec : Bytes → Option μ) (data v : Bytes)
    (h : classify crc pbDec data = .ok (.raw v)) : v = data := by
  unfold classify at h
  split at h <;> simp_all

/-- A payload classified as an envelope is exactly the message its payload bytes encode. -/
theorem envelope_exact {μ} (crc : Bytes → Nat) (pbDec : Bytes → Option μ) (data : Bytes) (m : μ)
    (h : classify crc pbDec data = .ok (.envelope m)) :
    ∃ p, check crc data 0 = .ok p ∧ pbDec p = some m := by
  unfold classify at h
  split at h
  · rename_i m' hm
    unfold unmarshal at hm
    cases hc : check crc data 0 with
    | ok p =>
      refine ⟨p, rfl, ?_⟩
      simp only [hc, Res.bind_ok] at hm
      split at hm <;> simp_all
    | err e => simp [hc] at hm
    | panic => simp [hc] at hm
  · simp at h
  · simp at h

/-! Non-vacuity: concrete inputs meeting the hypotheses above. -/
example : check (fun _ => 0) (marshal [1, 2, 3] 0) 0 = .ok [1, 2, 3] := by decide
example : check (fun _ => 7) ([0xB9, 0x0E, 0x43, 0xB4, 0, 12, 1, 0, 0, 0, 0, 7, 42]) 0 = .ok [42] := by decide
example : check (fun _ => 7) ([0xB9, 0x0E, 0x43, 0xB4, 0, 12, 1, 0, 0, 0, 0, 8, 42]) 0 = .err "crc" := by decide
/-- The former crash input (header length beyond the data) is now an error. -/
example : check (fun _ => 0) ([0xB9, 0x0E, 0x43, 0xB4, 0, 200, 0, 0]) 0 = .err "hdrlen" := by decide

end Liftbridge.Props.C14
