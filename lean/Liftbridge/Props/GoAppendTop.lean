/-
C01 / C16 at the level of the function bodies: the two entry points of the commit log's write path - `commitLog.Append` (the
leader) and `commitLog.AppendMessageSet` (a follower replicating) - translated from server/commitlog/commitlog.go
(`Gen/GoAppendTop.lean`, regenerated on every run). The roll decision (`Props.GoSplit`), the stamping of a batch
(`Props.GoMessageSet`) and the write itself (`Props.GoAppend`, `Props.GoSegFiles`) are parameters here; what these theorems fix
is the ORDER in which they are combined: the active segment, its position and its next offset are read AFTER the roll check -
a batch that makes the log roll is stamped and indexed for the NEW segment (the seeded change
C01-replicated-set-indexed-before-roll reads the position before the check).

`go_Append_*`: a read-only log refuses before anything else happens; a failing roll or a refused batch (e.g. the
concurrency-control check) ends the call without any write; otherwise exactly one `append`, to the segment that is active after
the roll check, of the batch stamped with THAT segment's next offset and position and the log's concurrency-control setting.
`go_AppendMessageSet_*`: no read-only check (a follower must be able to replicate into a read-only log); the index entries are
computed at the position of the segment active after the roll check, and that segment receives the set.
-/
import Liftbridge.Proofs.GoCodeBase
import Liftbridge.Gen.GoAppendTop

set_option linter.unusedSimpArgs false

namespace Liftbridge.Props.GoAppendTop
open Liftbridge Liftbridge.GoMini Liftbridge.GoCode
open Liftbridge.Gen.GoAppendTop

theorem translation_complete : unsupported = [] := rfl

@[simp] theorem lk_Append : evalE.lookup' "Append" prog = some fn_commitLog_Append := by simp [prog, gomini]
@[simp] theorem lk_AMS : evalE.lookup' "AppendMessageSet" prog = some fn_commitLog_AppendMessageSet := by simp [prog, gomini]
@[simp] theorem lk_other (f : String) (h1 : f ≠ "Append") (h2 : f ≠ "AppendMessageSet") : evalE.lookup' f prog = none := by simp [prog, gomini, h1, h2]

def segV (name : String) (position next : Int) : Val := .struct [("name", .str name), ("Position", .int position), ("NextOffset", .int next)]

def errV : Option String → Val
  | some e => .str e
  | none => .nil

/-- the log's collaborators. The active segment is `old` until the roll check has run and rolled, `new` afterwards. -/
def topExt (readonly : Bool) (splitErr : Option String) (rolled occ : Bool) (stampErr : Option String) (old new : Val) : Ext := fun f args eff =>
  if f = "IsReadonly" then some (.bool readonly)
  else if f = "IsConcurrencyControlEnabled" then some (.bool occ)
  else if f = "checkAndPerformSplit" then some (.tup [.bool rolled, errV splitErr])
  else if f = "activeSegment" then some (if rolled && eff.any (fun e => e.1 = "checkAndPerformSplit") then new else old)
  else if f = "newMessageSetFromProto" then
    match args with
    | [bo, bp, _, o] => some (.tup [.struct [("stampedAt", .list [bo, bp, o])], .str "entries", errV stampErr])
    | _ => none
  else if f = "entriesForMessageSet" then
    match args with
    | [bp, _] => some (.struct [("entriesAt", bp)])
    | _ => none
  else if f = "append" then some (.tup [.list [], .nil])
  else none

/-- (error returned, the `append` calls with their arguments: segment, message set, entries) -/
def topView : R Out → Option (Val × List (List Val))
  | .ok o => some (o.rets.getD 1 .nil, (o.eff.filter fun e => e.1 = "append").map (·.2))
  | _ => none

def lV : Val := .struct [("kind", .str "commit log")]
def globals : List (String × Val) := [("ErrCommitLogReadonly", .str "ErrCommitLogReadonly")]

set_option maxRecDepth 8000 in
theorem go_Append_readonly (splitErr stampErr : Option String) (rolled occ : Bool) (old new msgs : Val) :
    topView (runG prog (topExt true splitErr rolled occ stampErr old new) 30 "Append" (some lV) [msgs] globals) =
      some (.str "ErrCommitLogReadonly", []) := by
  simp [runG, fn_commitLog_Append, gomini, topView, topExt, lV, globals, truthy, lookup, envOf]

set_option maxRecDepth 8000 in
set_option maxHeartbeats 2000000 in
theorem go_Append_refused (splitErr stampErr : Option String) (rolled occ : Bool) (old new msgs : Val) (pn nn : Int)
    (hnew : new = segV "new" 0 nn) (hold : old = segV "old" pn nn) (h : splitErr.isSome ∨ stampErr.isSome) :
    ∃ e, topView (runG prog (topExt false splitErr rolled occ stampErr old new) 30 "Append" (some lV) [msgs] globals) = some (.str e, []) := by
  subst hnew hold
  cases splitErr with
  | some e => exact ⟨e, by simp [runG, fn_commitLog_Append, gomini, topView, topExt, lV, globals, truthy, lookup, envOf, errV, assignAll, assignTo, builtin]⟩
  | none =>
    cases stampErr with
    | none => simp at h
    | some e =>
      refine ⟨e, ?_⟩
      cases rolled <;>
        simp [runG, fn_commitLog_Append, gomini, topView, topExt, lV, globals, truthy, lookup, envOf, errV, assignAll, assignTo, segV, getField, builtin]

set_option maxRecDepth 8000 in
set_option maxHeartbeats 2000000 in
/-- one append, to the segment active AFTER the roll check, stamped with that segment's next offset and position -/
theorem go_Append_ok (rolled occ : Bool) (msgs : Val) (po no nn : Int) :
    topView (runG prog (topExt false none rolled occ none (segV "old" po no) (segV "new" 0 nn)) 30 "Append" (some lV) [msgs] globals) =
      some (.nil, [[if rolled then segV "new" 0 nn else segV "old" po no,
                    .struct [("stampedAt", .list [.int (if rolled then nn else no), .int (if rolled then 0 else po), .bool occ])], .str "entries"]]) := by
  cases rolled <;>
    simp [runG, fn_commitLog_Append, gomini, topView, topExt, lV, globals, truthy, lookup, envOf, errV, assignAll, assignTo, segV, getField, builtin]

set_option maxRecDepth 8000 in
set_option maxHeartbeats 2000000 in
/-- replication: no read-only check; the entries are computed at the position of the segment active after the roll check -/
theorem go_AppendMessageSet_ok (readonly rolled occ : Bool) (ms : Val) (po no nn : Int) :
    topView (runG prog (topExt readonly none rolled occ none (segV "old" po no) (segV "new" 0 nn)) 30 "AppendMessageSet" (some lV) [ms] globals) =
      some (.nil, [[if rolled then segV "new" 0 nn else segV "old" po no, ms, .struct [("entriesAt", .int (if rolled then 0 else po))]]]) := by
  cases rolled <;>
    simp [runG, fn_commitLog_AppendMessageSet, gomini, topView, topExt, lV, globals, truthy, lookup, envOf, errV, assignAll, assignTo, segV, getField, builtin]

set_option maxRecDepth 8000 in
theorem go_AppendMessageSet_split_fails (readonly rolled occ : Bool) (ms old new : Val) (e : String) :
    topView (runG prog (topExt readonly (some e) rolled occ none old new) 30 "AppendMessageSet" (some lV) [ms] globals) = some (.str e, []) := by
  simp [runG, fn_commitLog_AppendMessageSet, gomini, topView, topExt, lV, globals, truthy, lookup, envOf, errV, assignAll, assignTo, builtin]

end Liftbridge.Props.GoAppendTop
