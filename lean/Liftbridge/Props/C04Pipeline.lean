/-
C04 — Acknowledgements mean what the ack policy says: the LEADER'S PUBLISH PIPELINE.

Model: `Liftbridge/Model/Pipeline.lean` — `messageProcessingLoop` with its receive sites (every
site evaluated through the regenerated per-site facts `Gen.Pipeline.sites`), the Append error
path, `processPendingMessage`, the RF=1 fast path and `commitLoop` with its gate, within one
leadership term. The theorems are about ARBITRARY event sequences (`Pipeline.run`, induction via
the invariant `Proofs.Pipeline.Inv`): receives at any site the control state allows, batch
dispatches, commit-loop iterations, replica progress reports, ISR shrinks and expansions, from any
initial ISR (also one that is below `minISR` from the start), any replication factor / min ISR /
batch size, with or without optimistic concurrency control.

They rest on what the source says NOW (`source_facts`); a site that stops leaving before the
join, a nack that is dropped, a commit gate that no longer reads the current ISR size make
`Proofs.Pipeline.facts_*` — and with them every theorem below — fail to check.

What is NOT here: that a replica's REPORTED offset means it really stores the prefix (that is the
cross-term business of Props/C04.lean: `C04_partial`, `isrOff_sound_within_term` and the known
findings); the commit log itself (C01 / C16: Append assigns contiguous offsets and stores nothing
when it refuses an expected offset).
-/
import Liftbridge.Model.Pipeline
import Liftbridge.Proofs.Pipeline

namespace Liftbridge.Props.C04Pipeline
open Liftbridge Liftbridge.Pipeline Liftbridge.Proofs.Pipeline
open Liftbridge.Protocol (PubMsg Ack Policy AckErr Sid lookup)

/-- The structural facts regenerated from server/partition.go that the theorems below rest on:
every receive site of `messageProcessingLoop` checks seal errors and the size, sends the negative
ack and leaves before `msgBatch = append(msgBatch, m)`; a refused Append leaves before any positive
ack is built and nacks `msgBatch[0]` with INCORRECT_OFFSET; with concurrency control the batch size
is 1; a positive ack takes offset / correlation id / inbox / policy from `offsets[i]` and
`msgBatch[i]`; the commit loop's gate compares the current size of `p.isr` with `p.minISR`. -/
theorem source_facts :
    Gen.Pipeline.sites.all siteSound = true ∧ 3 ≤ Gen.Pipeline.sites.length ∧
    Gen.Pipeline.appendErrSkips = true ∧ Gen.Pipeline.incorrectOffsetNack = true ∧
    Gen.Pipeline.incorrectOffsetNackFirst = true ∧ Gen.Partition.occBatchOne = true ∧
    ackFieldsOK = true ∧ Gen.Pipeline.commitGateCurrentIsr = true ∧ Gen.Pipeline.commitGateCmp = .lt := by
  decide

/-- REJECTED ⇒ NEGATIVELY ACKNOWLEDGED ∧ NEVER STORED. After any event sequence, every message the
property calls rejected — its seal failed, it was too large (at whatever receive site it arrived),
or Append refused its expected offset — is listed in `rejected` (first clause), is at no offset of
the leader's log and in no pending batch, has no positive ack published or queued, and, if it
carried an ack inbox, its negative ack with its correlation id and the reason was published. -/
theorem rejected_nacked_not_stored (c : Cfg) (isr : List Sid) (evs : List Ev) :
    let st := run c (init isr) evs
    (∀ m ∈ st.received, ∀ e, rejectReason m = some e → (m, e) ∈ st.rejected) ∧
    ∀ p ∈ st.rejected,
      (∀ s ∈ st.log, s.seq ≠ p.1.mid) ∧ (∀ m ∈ st.batch, m.mid ≠ p.1.mid) ∧
      (∀ a ∈ st.acks ++ st.queue, a.err = .ok → a.mid ≠ p.1.mid) ∧
      (p.1.ackInbox = true → ∃ a ∈ st.acks, a.mid = p.1.mid ∧ a.cid = p.1.cid ∧ a.err = p.2 ∧ p.2 ≠ .ok) := by
  intro st
  have J : Inv c st := inv_run evs (inv_init c isr)
  refine ⟨J.rejComplete, fun p hp => ⟨?_, ?_, ?_, ?_⟩⟩
  · exact fun s hs h => J.logNotRej s hs p hp h.symm
  · exact fun m hm h => J.batchNotRej m hm p hp h.symm
  · intro a ha hok hmid
    have hj : Justified st a := by
      rcases List.mem_append.mp ha with ha | ha
      · exact (J.ackOK a ha hok).2
      · exact (J.queueOK a ha).2
    obtain ⟨o, _, hlog, _⟩ := hj
    exact J.logNotRej _ (List.mem_of_getElem? hlog) p hp hmid.symm
  · intro hin
    obtain ⟨a, ha, h1, h2, h3⟩ := J.nacked p hp hin
    refine ⟨a, ha, h1, h2, h3, ?_⟩
    -- the reason is never `ok`: reasons come from `rejectReason` or are `incorrectOffset`
    intro hok
    have := J.ackOK a ha (by rw [h3, hok])
    obtain ⟨o, _, hlog, _⟩ := this.2
    exact J.logNotRej _ (List.mem_of_getElem? hlog) p hp h1.symm

/-- POSITIVE ACK ⇒ STORED AT THAT OFFSET WITH THAT CORRELATION ID. After any event sequence, every
positive ack on the ack stream carries an offset of the leader's log at which exactly the
acknowledged message is stored, together with the correlation id and the ack policy that message
was published with; the policy is LEADER or ALL (never NONE). Since the invariant holds in every
state, a LEADER ack is only ever on the stream when the leader has stored the message. -/
theorem positive_ack_stored (c : Cfg) (isr : List Sid) (evs : List Ev) :
    let st := run c (init isr) evs
    ∀ a ∈ st.acks, a.err = .ok →
      a.policy ≠ .none ∧
      ∃ o : Nat, a.offset = (o : Int) ∧ st.log[o]? = some ⟨a.mid, a.cid⟩ ∧
        ∃ m ∈ st.received, m.mid = a.mid ∧ m.cid = a.cid ∧ m.policy = a.policy ∧ rejectReason m = none := by
  intro st a ha hok
  have J : Inv c st := inv_run evs (inv_init c isr)
  obtain ⟨h1, o, h2, h3, m, hm, h4, h5, h6⟩ := J.ackOK a ha hok
  refine ⟨h1, o, h2, h3, m, hm, h4, h5, h6, ?_⟩
  cases hr : rejectReason m with
  | none => rfl
  | some e =>
    exact absurd h4 (J.logNotRej _ (List.mem_of_getElem? h3) _ (J.rejComplete m hm e hr))

/-- NONE ⇒ NO ACK. A message published with the NONE policy never gets a positive ack, whatever
site it arrived at and whatever happens afterwards. -/
theorem none_never_acked (c : Cfg) (isr : List Sid) (evs : List Ev) :
    let st := run c (init isr) evs
    ∀ m ∈ st.received, m.policy = .none → ∀ a ∈ st.acks, a.err = .ok → a.mid ≠ m.mid := by
  intro st m hm hnone a ha hok hmid
  have J : Inv c st := inv_run evs (inv_init c isr)
  obtain ⟨h1, _, _, _, m', hm', h4, _, h6⟩ := J.ackOK a ha hok
  have : m' = m := received_unique J hm' hm (by rw [h4, hmid])
  subst this
  rw [hnone] at h6
  exact h1 h6.symm

/-- ALL ACK ⇒ |ISR AT THAT MOMENT| ≥ minISR ∧ EVERY ISR MEMBER REPORTED IT ∧ THE LEADER STORES IT.
In the state reached by any event sequence, a positive ALL-policy ack is published only by a
commit-loop iteration, and then the CURRENT in-sync set of the leader has at least `minISR`
members, the offset recorded for every one of them is at least the ack's offset, and the leader's
log holds exactly that message with that correlation id at that offset. In particular a partition
whose ISR is below the minimum — from the start or after a shrink — never acknowledges ALL. -/
theorem all_ack_checked (c : Cfg) (isr : List Sid) (evs : List Ev) (e : Ev) (st' : St) :
    let st := run c (init isr) evs
    step c st e = some st' → ∀ a ∈ newAcks st st', a.err = .ok → a.policy = .all →
      e = .commit ∧ c.minISR ≤ st.isr.length ∧ (∀ r v, lookup st.isr r = some v → a.offset ≤ v) ∧
      ∃ o : Nat, a.offset = (o : Int) ∧ st.log[o]? = some ⟨a.mid, a.cid⟩ := by
  intro st h a ha hok hall
  have J : Inv c st := inv_run evs (inv_init c isr)
  obtain ⟨he, hc⟩ := all_ack_from_commit h ha hok hall
  obtain ⟨_, hq, hmin, hle⟩ := commitAcks_checked hc
  obtain ⟨o, h1, h2, _⟩ := (J.queueOK a hq).2
  exact ⟨he, hmin, hle, o, h1, h2⟩

/-- Below the minimum ISR size the commit loop publishes nothing and does not move the HW. -/
theorem below_min_isr_no_commit (c : Cfg) (st : St) (h : st.isr.length < c.minISR) :
    commitAcks c st = [] ∧ (commit c st).hw = st.hw ∧ (commit c st).queue = st.queue := by
  have hg : gate c st = true := by
    simp [gate, facts_gate, facts_gateCmp, Cmp.evalNat, h]
  simp [commitAcks, commit, hg]

/-- The batch-level `Protocol.screen` (behind `nack_not_stored`, `ack_leader_step`, … of
Props/C04.lean) is justified site by site: whatever sound sites the messages of a batch arrive at,
the receive phase lets through and negatively acknowledges exactly what `screen` says. -/
theorem screen_is_sitewise (c : Cfg) (xs : List (Site × PubMsg)) (hs : ∀ p ∈ xs, p.1 ∈ Gen.Pipeline.sites) :
    joinAll c xs = Protocol.screen c.me 0 (xs.map (·.2)) :=
  joinAll_eq_screen c xs (fun p hp => List.all_eq_true.mp facts_sites p.1 (hs p hp))

/-! ### non-vacuity -/

/-- A batch opened by a small message (site 0), an oversized message arriving during the timed
wait (site 2), a small NONE-policy message drained (site 1), dispatch, commit on a single-replica
partition: offsets 0 and 1 are stored, the oversized message got its TOO_LARGE nack and is not
stored, the LEADER message is acked at offset 0, the NONE message is not acked. -/
example :
    let st := run { rf := 1, minISR := 1 } (init [0])
      [.recv 0 { mid := 0, cid := 10, policy := .leader }, .recv 2 { mid := 0, cid := 11, policy := .leader, tooLarge := true },
       .recv 1 { mid := 0, cid := 12, policy := .none }, .dispatch, .commit]
    (st.log, st.acks.map (fun a => (a.cid, a.err, a.offset)), st.rejected.map (fun p => (p.1.cid, p.2)), st.hw) =
      ([⟨0, 10⟩, ⟨2, 12⟩], [(11, .tooLarge, 0), (10, .ok, 0)], [(11, .tooLarge)], 1) := by
  decide

/-- A partition that STARTS with an ISR below the minimum (replication factor 1, min ISR 2): the
LEADER-policy message is acked, the ALL-policy message is stored and queued but never acked, and the
HW does not move past the fast-path value. -/
example :
    let st := run { rf := 1, minISR := 2 } (init [0])
      [.recv 0 { mid := 0, cid := 10, policy := .leader }, .dispatch, .commit,
       .recv 0 { mid := 0, cid := 11, policy := .all }, .dispatch, .commit, .commit]
    (st.log.length, st.acks.map (fun a => (a.cid, a.err, a.offset)), st.queue.map (·.cid), st.hw) =
      (2, [(10, .ok, 0)], [11], 0) := by
  decide

/-- Optimistic concurrency control: a wrong expected offset is nacked with INCORRECT_OFFSET and
nothing is stored; the right one is stored and acked. -/
example :
    let st := run { rf := 1, minISR := 1, occ := true } (init [0])
      [.recv 0 { mid := 0, cid := 10, policy := .leader, expected := 5 }, .dispatch,
       .recv 0 { mid := 0, cid := 11, policy := .leader, expected := 0 }, .dispatch]
    (st.log, st.acks.map (fun a => (a.cid, a.err, a.offset))) = ([⟨1, 11⟩], [(10, .incorrectOffset, 0), (11, .ok, 0)]) := by
  decide

end Liftbridge.Props.C04Pipeline
