/-
C04 (and C02) at the level of the function bodies: what the leader's commit loop computes the high watermark FROM -
`min` (the minimum over the in-sync replicas' latest offsets), `replica.updateLatestOffset` / `resetLatestOffset` /
`getLatestOffset`, `partition.updateISRLatestOffset`, `minInt64` (server/partition.go) - translated from the code.
`Gen/GoCommit.lean` is regenerated on every run.

`go_min`: for EVERY slice (loop lemma `min_loop`, induction over the elements still to visit; the fuel is `len + 9`
because a three-clause `for` consumes fuel per iteration) the translated body returns the model's `Protocol.goMin`;
`goMin_le` / `goMin_mem`: that value is below the offset of every in-sync replica and is the offset of one of them - an
ALL acknowledgement, which the commit loop sends for queue entries at or below it, is therefore only sent for messages
every in-sync replica has stored. `go_updateLatestOffset`: a replica's recorded offset only moves upwards and the answer
tells whether it moved; `go_resetLatestOffset`: unconditional (start of a leadership term: the repair df4f8de);
`go_updateISRLatestOffset_*`: the commit loop is signalled exactly when the replica is in the in-sync map and the offset
is above the recorded one. `model_updateOffset` ties the model's `updateOffset` to the same shape. `commitLoop` itself
(a `select` loop) stays tied by regenerated facts and the correspondence runs.

Translator: named results are declared with their zero value when the function starts and a bare `return` returns them
(before this unit a bare `return` in a function with named results was translated as returning nothing - no translated
unit contained one; regenerating all units gave byte-identical files).
-/
import Liftbridge.Proofs.GoCodeBase
import Liftbridge.Gen.GoCommit
import Liftbridge.Model.Protocol

set_option linter.unusedSimpArgs false

namespace Liftbridge.Props.GoCommit
open Liftbridge Liftbridge.GoMini Liftbridge.GoCode
open Liftbridge.Gen.GoCommit

theorem translation_complete : unsupported = [] := rfl

theorem binVal_int (op : String) (a b : Int) : binVal op (Val.int a) (Val.int b) = binInt op a b := rfl
@[simp] theorem lk_min : evalE.lookup' "min" prog = some fn_min := by simp [prog, gomini]
@[simp] theorem lk_minInt64 : evalE.lookup' "minInt64" prog = some fn_minInt64 := by simp [prog, gomini]
@[simp] theorem lk_update : evalE.lookup' "updateLatestOffset" prog = some fn_replica_updateLatestOffset := by simp [prog, gomini]
@[simp] theorem lk_reset : evalE.lookup' "resetLatestOffset" prog = some fn_replica_resetLatestOffset := by simp [prog, gomini]
@[simp] theorem lk_get : evalE.lookup' "getLatestOffset" prog = some fn_replica_getLatestOffset := by simp [prog, gomini]
@[simp] theorem lk_updISR : evalE.lookup' "updateISRLatestOffset" prog = some fn_partition_updateISRLatestOffset := by simp [prog, gomini]
@[simp] theorem lk_trySend : evalE.lookup' "chan.trySend" prog = none := by simp [prog, gomini]
@[simp] theorem lk_mapLookup2 : evalE.lookup' "mapLookup2" prog = none := by simp [prog, gomini]

def condE : Expr := (.bin "<" (.var "i") (.len (.var "v")))
def loopBody : List Stmt :=
  [(.ite [] (.bin "<" (.idx (.var "v") (.var "i")) (.var "m")) [(.assign [(.var "m")] [(.idx (.var "v") (.var "i"))])] [])]
def postB : List Stmt := [(.opAssign "+" (.var "i") (.int 1))]

def step (m y : Int) : Int := if y < m then y else m

theorem St.set_same (st : St) (x : String) (v : Val) (h : st.env x = some v) : st.set x v = st := by
  cases st with
  | mk env eff =>
    simp only [St.set, St.mk.injEq, and_true]
    funext y
    by_cases hy : y = x
    · subst hy; simpa using h.symm
    · simp [hy]

set_option maxRecDepth 8000 in
set_option maxHeartbeats 2000000 in
theorem min_loop (m0 : Nat) (xs : List Int) :
    ∀ (suf pre : List Int) (iters : Nat) (st : St) (cur : Int), xs = pre ++ suf → suf.length + 1 ≤ iters →
      st.env "i" = some (.int pre.length) → st.env "v" = some (.list (xs.map .int)) → st.env "m" = some (.int cur) →
      ∃ st', runFor (forCond prog noExt (m0 + 8) condE) (runBlock (exec prog noExt (m0 + 8)) loopBody)
          (runBlock (exec prog noExt (m0 + 8)) postB) iters st = .ok (.next, st') ∧
        st'.env "m" = some (.int (suf.foldl step cur)) ∧ st'.eff = st.eff := by
  intro suf
  induction suf with
  | nil =>
    intro pre iters st cur hx hit hi hv hm
    obtain ⟨k, rfl⟩ : ∃ k, iters = k + 1 := ⟨iters - 1, by omega⟩
    simp at hx
    subst hx
    refine ⟨st, ?_, by simpa using hm, rfl⟩
    simp [runFor_succ, forCond, condE, gomini, hi, hv, binVal_int, binInt, lenOf, truthy, bind, R.bind, pure]
  | cons y rest ih =>
    intro pre iters st cur hx hit hi hv hm
    obtain ⟨k, rfl⟩ : ∃ k, iters = k + 1 := ⟨iters - 1, by simp at hit; omega⟩
    have hlen : (pre.length : Int) < ((pre ++ y :: rest).length : Int) := by simp; omega
    have hlen' : (pre.length : Int) < ↑pre.length + (↑rest.length + 1) := by omega
    have hget : (List.map Val.int xs)[pre.length]? = some (.int y) := by subst hx; simp
    let st1 : St := (st.set "m" (.int (step cur y))).set "i" (.int ((pre ++ [y]).length))
    obtain ⟨st', h1, h2, h3⟩ := ih (pre ++ [y]) k st1 (step cur y) (by simp [hx]) (by simp at hit; omega)
      (by simp [st1, gomini]) (by simp [st1, gomini, hv]) (by simp [st1, gomini])
    refine ⟨st', ?_, by simpa using h2, by rw [h3]; simp [st1, gomini]⟩
    rw [runFor_succ]
    subst hx
    by_cases hlt : y < cur
    · simp [forCond, condE, loopBody, postB, gomini, hi, hv, hm, binVal_int, binInt, lenOf, truthy, hlen, hlen', hget, asList, hlt, assignTo]
      simpa [st1, step, hlt, gomini, condE, loopBody, postB] using h1
    · simp [forCond, condE, loopBody, postB, gomini, hi, hv, hm, binVal_int, binInt, lenOf, truthy, hlen, hlen', hget, asList, hlt, assignTo]
      have h1' := h1
      simp only [st1, step, hlt, ↓reduceIte, St.set_same st "m" (.int cur) hm] at h1'
      simpa [gomini, condE, loopBody, postB] using h1'

def rets : R Out → Option (List Val)
  | .ok o => some o.rets
  | _ => none

/-- `min(v []int64)` = the model's `Protocol.goMin`, for every slice (0 for the empty one) -/
theorem goMin_eq (x : Int) (rest : List Int) : Protocol.goMin (x :: rest) = rest.foldl step x := rfl

set_option maxRecDepth 8000 in
set_option maxHeartbeats 2000000 in
theorem go_min (xs : List Int) :
    rets (runG prog noExt (xs.length + 9) "min" none [.list (xs.map .int)] []) = some [.int (Protocol.goMin xs)] := by
  cases xs with
  | nil =>
    simp [runG, fn_min, gomini, rets, Protocol.goMin, binVal_int, binInt, lenOf, truthy, runFor_succ, -exec_forC, exec_forC_some, forCond]
  | cons x rest =>
    let st0 : St := ((({ env := envOf [("v", .list ((x :: rest).map .int))], eff := [] } : St).set "m" (.int 0)).set "m" (.int x)).set "i" (.int 1)
    obtain ⟨st', h1, h2, h3⟩ := min_loop (rest.length + 1) (x :: rest) rest [x] (rest.length + 9) st0 x (by simp) (by omega)
      (by simp [st0, gomini]) (by simp [st0, gomini, envOf, lookup]) (by simp [st0, gomini])
    simp [condE, loopBody, postB, st0] at h1
    simp [runG, fn_min, gomini, rets, goMin_eq, binVal_int, binInt, lenOf, truthy, -exec_forC, exec_forC_some, asList, assignTo, h1, h2]

/-- what the minimum is: below every element, and one of them -/
theorem foldl_step_le (xs : List Int) : ∀ cur : Int, xs.foldl step cur ≤ cur ∧ ∀ y ∈ xs, xs.foldl step cur ≤ y := by
  induction xs with
  | nil => intro cur; simp
  | cons a tl ih =>
    intro cur
    have h := ih (step cur a)
    have hs : step cur a ≤ cur ∧ step cur a ≤ a := by unfold step; split <;> omega
    refine ⟨by simp only [List.foldl_cons]; omega, ?_⟩
    intro y hy
    simp only [List.foldl_cons]
    rcases List.mem_cons.mp hy with rfl | hy
    · omega
    · exact h.2 y hy

theorem foldl_step_mem (xs : List Int) : ∀ cur : Int, xs.foldl step cur = cur ∨ xs.foldl step cur ∈ xs := by
  induction xs with
  | nil => intro cur; simp
  | cons a tl ih =>
    intro cur
    simp only [List.foldl_cons, List.mem_cons]
    rcases ih (step cur a) with h | h
    · rw [h]; unfold step; split <;> simp
    · exact Or.inr (Or.inr h)

/-- the high watermark the commit loop sets never exceeds what any in-sync replica has stored -/
theorem goMin_le (xs : List Int) (y : Int) (hy : y ∈ xs) : Protocol.goMin xs ≤ y := by
  cases xs with
  | nil => simp at hy
  | cons x rest =>
    rw [goMin_eq]
    rcases List.mem_cons.mp hy with rfl | hy
    · exact (foldl_step_le rest _).1
    · exact (foldl_step_le rest x).2 y hy

/-- and it is the offset of one of them (nothing smaller than needed) -/
theorem goMin_mem (xs : List Int) (hne : xs ≠ []) : Protocol.goMin xs ∈ xs := by
  cases xs with
  | nil => exact absurd rfl hne
  | cons x rest =>
    rw [goMin_eq]
    rcases foldl_step_mem rest x with h | h
    · rw [h]; simp
    · exact List.mem_cons_of_mem _ h

/-! ### the per-replica offset the minimum is taken over -/

def encReplica (offset : Int) : Val := .struct [("offset", .int offset)]

def replicaView : R Out → Option (List Val × Option Val)
  | .ok o => some (o.rets, o.recv)
  | _ => none

/-- `replica.updateLatestOffset`: only upwards, and the answer says whether it moved -/
theorem go_updateLatestOffset (cur offset : Int) :
    replicaView (runG prog noExt 30 "updateLatestOffset" (some (encReplica cur)) [.int offset] []) =
      some ([.bool (decide (offset > cur))], some (encReplica (if offset > cur then offset else cur))) := by
  by_cases h : offset > cur <;>
    simp [runG, fn_replica_updateLatestOffset, gomini, replicaView, encReplica, binVal_int, binInt, truthy, getField, setField, lookup, update, h, assignTo]

/-- `replica.resetLatestOffset`: unconditionally (the start of a leadership term) -/
theorem go_resetLatestOffset (cur offset : Int) :
    replicaView (runG prog noExt 30 "resetLatestOffset" (some (encReplica cur)) [.int offset] []) =
      some ([], some (encReplica offset)) := by
  simp [runG, fn_replica_resetLatestOffset, gomini, replicaView, encReplica, getField, setField, lookup, update, assignTo]

theorem go_getLatestOffset (cur : Int) :
    replicaView (runG prog noExt 30 "getLatestOffset" (some (encReplica cur)) [] []) = some ([.int cur], some (encReplica cur)) := by
  simp [runG, fn_replica_getLatestOffset, gomini, replicaView, encReplica, getField, lookup]

theorem go_minInt64 (a b : Int) :
    rets (runG prog noExt 30 "minInt64" none [.int a, .int b] []) = some [.int (if a < b then a else b)] := by
  by_cases h : a < b <;> simp [runG, fn_minInt64, gomini, rets, binVal_int, binInt, truthy, h]

/-- `partition.updateISRLatestOffset`: the commit loop is signalled exactly when the replica is in the in-sync map AND the
offset is above the one recorded for it; a replica outside the map is ignored. (The embedding has no aliasing: the write
into the shared `*replica` is the theorem above; here the observable is the signal.) -/
def signalView : R Out → Option (List (String × List Val))
  | .ok o => some o.eff
  | _ => none

theorem go_updateISRLatestOffset_absent (isr : List (String × Val)) (rest : List (String × Val)) (r : String) (offset : Int)
    (hl : lookup r isr = none) :
    signalView (runG prog noExt 30 "updateISRLatestOffset" (some (.struct (("isr", .struct isr) :: rest))) [.str r, .int offset] []) = some [] := by
  simp [runG, fn_partition_updateISRLatestOffset, gomini, signalView, builtin, lookup, getField, hl, truthy]

set_option maxRecDepth 8000 in
theorem go_updateISRLatestOffset_member (isr : List (String × Val)) (rest : List (String × Val)) (r : String) (offset cur : Int)
    (hl : lookup r isr = some (encReplica cur)) :
    signalView (runG prog noExt 30 "updateISRLatestOffset" (some (.struct (("isr", .struct isr) :: rest))) [.str r, .int offset] []) =
      some (if offset > cur then [("chan.trySend", [.str "p.commitCheck"])] else []) := by
  by_cases h : offset > cur <;>
    simp [runG, fn_partition_updateISRLatestOffset, fn_replica_updateLatestOffset, gomini, signalView, builtin, lookup, getField, setField, update, hl, truthy,
      binVal_int, binInt, h, assignTo, bindParams, envOf, encReplica]

/-- the model's `updateOffset` has the same shape: members only, upwards only, and it reports whether the offset moved -/
theorem model_updateOffset (m : List (Protocol.Sid × Int)) (k : Protocol.Sid) (v : Int) :
    Protocol.updateOffset m k v =
      (match Protocol.lookup m k with
       | none => (m, false)
       | some cur => if v > cur then (Protocol.mSet m k v, true) else (m, false)) := by
  unfold Protocol.updateOffset
  cases Protocol.lookup m k <;> simp [Gen.Protocol.updateOffsetCmp, Cmp.evalInt]

/-- non-vacuity: the minimum over three in-sync offsets; the empty slice answers 0 -/
example : Protocol.goMin [7, 3, 9] = 3 ∧ Protocol.goMin [] = 0 := by decide

end Liftbridge.Props.GoCommit
