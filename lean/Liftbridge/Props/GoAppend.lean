/-
The leader-epoch bookkeeping of an append in the model IS the translated Go code.

`commitLog.append` (server/commitlog/commitlog.go) is translated into the same program as the epoch-cache
functions (Gen/GoEpochCache.lean), so that its calls of `leaderEpochCache.LastLeaderEpoch` and `Assign` run the
translated bodies of those functions. `go_append`: for EVERY epoch cache and EVERY entry list, the translated body
returns exactly the offsets of the entries, and the epoch cache it leaves behind is exactly the model's
`assignEpochs c c.latestEpoch entries` — the `epochs` component of `CLog.write`, which every theorem about appends
goes through. `segment.WriteMessageSet` is an external call assumed to succeed (its failure returns the error; the
cache has then already been advanced, which is what the comment in the Go code says and C05's model covers).
-/
import Liftbridge.Proofs.GoEpochCache

set_option linter.unusedSimpArgs false

namespace Liftbridge.Props.GoAppend
open Liftbridge Liftbridge.GoMini Liftbridge.Log Liftbridge.Log.CLog Liftbridge.GoCode
open Liftbridge.Gen.GoEpochCache Liftbridge.Props.GoEpochCache

/-- `*entry`: what `append` reads -/
def encEntry (r : Rec) : Val := .struct [("Offset", .int r.offset), ("LeaderEpoch", .int r.epoch)]

@[simp] theorem lk_append : evalE.lookup' "append" prog = some fn_commitLog_append := by simp [prog, gomini]
@[simp] theorem lk_wms : evalE.lookup' "WriteMessageSet" prog = none := by simp [prog, gomini]
@[simp] theorem sig_append : fn_commitLog_append.recv = some "l" ∧ fn_commitLog_append.params = ["segment", "ms", "entries"] := ⟨rfl, rfl⟩
@[simp] theorem sig_Assign : fn_leaderEpochCache_Assign.recv = some "l" ∧ fn_leaderEpochCache_Assign.params = ["epoch", "offset"] := ⟨rfl, rfl⟩
@[simp] theorem sig_assign : fn_leaderEpochCache_assign.recv = some "l" ∧ fn_leaderEpochCache_assign.params = ["epoch", "offset"] := ⟨rfl, rfl⟩
@[simp] theorem sig_LLE : fn_leaderEpochCache_LastLeaderEpoch.recv = some "l" ∧ fn_leaderEpochCache_LastLeaderEpoch.params = [] := ⟨rfl, rfl⟩

theorem facts : Gen.Log.appendEpochCmp = .gt ∧ Gen.Log.assignEpochCmp = .gt ∧ Gen.Log.assignOffsetCmp = .ge := by decide

/-- `Assign(epoch, offset)` at the level of its body: the receiver afterwards is the model's `assign` -/
theorem Assign_body (n : Nat) (c : Epochs) (epoch : Nat) (offset : Int) (eff : List (String × List Val)) :
    ∃ st', runBlock (exec prog noExt (n + 16)) fn_leaderEpochCache_Assign.body
        { env := envOf [("l", encCache c), ("epoch", .int epoch), ("offset", .int offset)], eff := eff } =
      .ok (.ret [.nil], st') ∧ st'.env "l" = some (encCache (c.assign epoch offset)) := by
  have h1 := latestEpoch_body (n + 6) c
  have h2 := latestOffset_body (n + 6) c
  simp only [encCache, Nat.add_assoc, Nat.reduceAdd] at h1 h2
  by_cases ha : (c.latestEpoch : Int) < epoch ∧ c.latestOffset ≤ offset
  · obtain ⟨a1, a2⟩ := ha
    have a1' : c.latestEpoch < epoch := by omega
    refine ⟨?w1, ?g1, ?g2⟩
    case g1 =>
      simp [fn_leaderEpochCache_Assign, fn_leaderEpochCache_assign, gomini, h1, h2, binInt, a1, a2, encCache, builtin]
      rfl
    case g2 =>
      simp [gomini, Epochs.assign, facts, Cmp.evalNat, Cmp.evalInt, a1', a2, encCache, encEpoch]
  · have hm : ¬ (c.latestEpoch < epoch ∧ c.latestOffset ≤ offset) := by
      intro h; exact ha ⟨by omega, h.2⟩
    refine ⟨?w2, ?g3, ?g4⟩
    case g3 =>
      by_cases b1 : (c.latestEpoch : Int) < epoch
      · have b2 : ¬ c.latestOffset ≤ offset := fun h => ha ⟨b1, h⟩
        simp [fn_leaderEpochCache_Assign, fn_leaderEpochCache_assign, gomini, h1, h2, binInt, b1, b2, encCache, builtin]
        rfl
      · simp [fn_leaderEpochCache_Assign, fn_leaderEpochCache_assign, gomini, h1, h2, binInt, b1, encCache, builtin]
    case g4 =>
      by_cases b1 : c.latestEpoch < epoch
      · have b2 : ¬ c.latestOffset ≤ offset := fun h => hm ⟨b1, h⟩
        simp [gomini, Epochs.assign, facts, Cmp.evalNat, Cmp.evalInt, b1, b2, encCache]
      · simp [gomini, Epochs.assign, facts, Cmp.evalNat, Cmp.evalInt, b1, encCache]

/-- `LastLeaderEpoch()` at the level of its body -/
theorem LastLeaderEpoch_body (n : Nat) (c : Epochs) (eff : List (String × List Val)) :
    ∃ st', runBlock (exec prog noExt (n + 12)) fn_leaderEpochCache_LastLeaderEpoch.body
        { env := envOf [("l", encCache c)], eff := eff } = .ok (.ret [.int c.latestEpoch], st') ∧
      st'.env "l" = some (encCache c) ∧ st'.eff = eff := by
  have h1 := latestEpoch_body (n + 3) c
  simp only [encCache, Nat.add_assoc, Nat.reduceAdd] at h1
  refine ⟨?w1, ?g1, ?g2, ?g3⟩
  case g1 =>
    simp [fn_leaderEpochCache_LastLeaderEpoch, gomini, h1, encCache]
    rfl
  case g2 => simp [gomini, encCache]
  case g3 => simp [gomini]

def loopBody : List Stmt :=
  match fn_commitLog_append.body with
  | [_, _, .forRange _ _ _ b, _, _, _, _] => b
  | _ => []

/-- the receiver's epoch cache, whatever else the record holds -/
def cacheOf (st : St) : Option Val :=
  match st.env "l" with
  | some (.struct fs) => lookup "leaderEpochCache" fs
  | _ => none

theorem set_at_length (P : List Val) (x v : Val) (R : List Val) : (P ++ x :: R).set P.length v = P ++ v :: R := by
  induction P with
  | nil => rfl
  | cons a P ih => simp [ih]

/-- the loop of `append` over the entries: the cache becomes `assignEpochs`, the offsets are collected -/
theorem append_loop (F : Nat) (hF : 24 ≤ F) : ∀ (xs : List Rec) (P : List Val) (c : Epochs) (last : Nat) (st : St),
    cacheOf st = some (encCache c) → st.env "lastLeaderEpoch" = some (.int last) →
    st.env "offsets" = some (.list (P ++ List.replicate xs.length .nil)) →
    ∃ st', runRange (runBlock (exec prog noExt F) loopBody) (some "i") (some "entry") P.length (xs.map encEntry) st = .ok (.next, st') ∧
      cacheOf st' = some (encCache (assignEpochs c last xs)) ∧
      st'.env "offsets" = some (.list (P ++ xs.map fun r => .int r.offset)) ∧
      (∀ y, y = "segment" ∨ y = "ms" ∨ y = "entries" → st'.env y = st.env y) := by
  obtain ⟨n, rfl⟩ : ∃ n, F = n + 24 := ⟨F - 24, by omega⟩
  intro xs
  induction xs with
  | nil =>
    intro P c last st hc hl ho
    exact ⟨st, by simp [gomini], by simpa [assignEpochs] using hc, by simpa using ho, fun _ _ => rfl⟩
  | cons r rest ih =>
    intro P c last st hc hl ho
    -- the receiver record
    have hc' := hc
    unfold cacheOf at hc'
    cases hL : st.env "l" with
    | none => simp [hL] at hc'
    | some lv =>
      cases lv with
      | struct fs =>
        simp [hL] at hc'
        by_cases hgt : last < r.epoch
        · -- a new leader epoch: Assign runs
          have hgt' : ((last : Int) < (r.epoch : Int)) := by omega
          obtain ⟨sa, ha, hal⟩ := Assign_body (n + 5) c r.epoch r.offset st.eff
          simp only [encCache, Nat.add_assoc, Nat.reduceAdd] at ha hal
          have hlt : P.length < P.length + (rest.length + 1) := by omega
          have hstep : ∃ st1, runBlock (exec prog noExt (n + 24)) loopBody ((st.set "i" (.int P.length)).set "entry" (encEntry r)) = .ok (.next, st1) ∧
              cacheOf st1 = some (encCache (c.assign r.epoch r.offset)) ∧ st1.env "lastLeaderEpoch" = some (.int r.epoch) ∧
              st1.env "offsets" = some (.list ((P ++ [.int r.offset]) ++ List.replicate rest.length .nil)) ∧
              (∀ y, y = "segment" ∨ y = "ms" ∨ y = "entries" → st1.env y = st.env y) := by
            by_cases hb : Val.beq (Val.struct [("epochOffsets", Val.list (List.map encEpoch c))])
                (Val.struct [("epochOffsets", Val.list (List.map encEpoch (c.assign r.epoch r.offset)))]) = true
            · have heq := Val.eq_of_beq _ _ hb
              refine ⟨?s1, ?h1, ?_, ?_, ?_, ?_⟩
              case h1 =>
                simp [loopBody, fn_commitLog_append, gomini, encEntry, binInt, hl, hgt', hL, hc', encCache, ha, hal, ho, hlt, hb]
                rfl
              · simp [cacheOf, gomini, hL, hc', encCache]; simpa using heq
              · simp [gomini]
              · simp [gomini]; rfl
              · intro y hy; rcases hy with rfl | rfl | rfl <;> simp [gomini]
            · refine ⟨?s2, ?h2, ?_, ?_, ?_, ?_⟩
              case h2 =>
                simp [loopBody, fn_commitLog_append, gomini, encEntry, binInt, hl, hgt', hL, hc', encCache, ha, hal, ho, hlt, hb]
                rfl
              · simp [cacheOf, gomini, encCache]
              · simp [gomini]
              · simp [gomini]; rfl
              · intro y hy; rcases hy with rfl | rfl | rfl <;> simp [gomini]
          obtain ⟨st1, hs, k1, k2, k3, k4⟩ := hstep
          obtain ⟨st', hr, r1, r2, r3⟩ := ih (P ++ [.int r.offset]) (c.assign r.epoch r.offset) r.epoch st1 k1 k2 k3
          refine ⟨st', ?_, ?_, ?_, ?_⟩
          · simp only [List.map_cons, runRange_cons, hs]
            simpa using hr
          · simpa [assignEpochs, facts, Cmp.evalNat, hgt] using r1
          · simpa using r2
          · intro y hy; rw [r3 y hy, k4 y hy]
        · -- same or older epoch: only the offset is recorded
          have hgt' : ¬ ((last : Int) < (r.epoch : Int)) := by omega
          have hlt : P.length < P.length + (rest.length + 1) := by omega
          have hstep : ∃ st1, runBlock (exec prog noExt (n + 24)) loopBody ((st.set "i" (.int P.length)).set "entry" (encEntry r)) = .ok (.next, st1) ∧
              cacheOf st1 = some (encCache c) ∧ st1.env "lastLeaderEpoch" = some (.int last) ∧
              st1.env "offsets" = some (.list ((P ++ [.int r.offset]) ++ List.replicate rest.length .nil)) ∧
              (∀ y, y = "segment" ∨ y = "ms" ∨ y = "entries" → st1.env y = st.env y) := by
            refine ⟨?s3, ?h3, ?_, ?_, ?_, ?_⟩
            case h3 =>
              simp [loopBody, fn_commitLog_append, gomini, encEntry, binInt, hl, hgt', hL, ho, hlt]
              rfl
            · simp [cacheOf, gomini, hL, hc']
            · simp [gomini, hl]
            · simp [gomini]; rfl
            · intro y hy; rcases hy with rfl | rfl | rfl <;> simp [gomini]
          obtain ⟨st1, hs, k1, k2, k3, k4⟩ := hstep
          obtain ⟨st', hr, r1, r2, r3⟩ := ih (P ++ [.int r.offset]) c last st1 k1 k2 k3
          refine ⟨st', ?_, ?_, ?_, ?_⟩
          · simp only [List.map_cons, runRange_cons, hs]
            simpa using hr
          · simpa [assignEpochs, facts, Cmp.evalNat, hgt] using r1
          · simpa using r2
          · intro y hy; rw [r3 y hy, k4 y hy]
      | _ => simp [hL] at hc'

/-- what `append` leaves behind: offsets returned, and the receiver's epoch cache -/
def view : R Out → Option (List Val × Option Val)
  | .ok o => match o.rets, o.recv with
    | [.list offs, .nil], some (.struct fs) => some (offs, lookup "leaderEpochCache" fs)
    | _, _ => none
  | _ => none

/-- **`commitLog.append` = the model's `write`**: the offsets of the entries are returned and the epoch cache becomes
`assignEpochs c c.latestEpoch entries`, for every cache and entry list (the write to the segment succeeding). -/
theorem go_append (c : Epochs) (es : List Rec) :
    view (run prog noExt 40 "append" (some (.struct [("leaderEpochCache", encCache c)]))
        [.struct [("seg", .int 0)], .list [], .list (es.map encEntry)]) =
      some (es.map (fun r => .int r.offset), some (encCache (assignEpochs c c.latestEpoch es))) := by
  obtain ⟨sl, hl1, hl2, hl3⟩ := LastLeaderEpoch_body 27 c []
  simp only [encCache, Nat.add_assoc, Nat.reduceAdd] at hl1 hl2
  let s0 : St := { env := envOf ([("l", .struct [("leaderEpochCache", encCache c)]), ("segment", .struct [("seg", .int 0)]),
    ("ms", .list []), ("entries", .list (es.map encEntry))] ++ []), eff := [] }
  let s1 : St := (({ s0 with eff := sl.eff } : St).set "lastLeaderEpoch" (.int c.latestEpoch)).set "offsets" (.list (List.replicate es.length .nil))
  obtain ⟨st', hr, r1, r2, r3⟩ := append_loop 39 (by omega) es [] c c.latestEpoch s1
    (by simp [cacheOf, s1, s0, gomini]) (by simp [s1, gomini]) (by simp [s1, gomini])
  simp [s1, s0, loopBody, fn_commitLog_append, encCache] at hr
  have hseg := r3 "segment" (Or.inl rfl)
  have hms := r3 "ms" (Or.inr (Or.inl rfl))
  have hen := r3 "entries" (Or.inr (Or.inr rfl))
  simp [s1, s0, gomini] at hseg hms hen r2
  unfold cacheOf at r1
  cases hL : st'.env "l" with
  | none => simp [hL] at r1
  | some lv =>
    cases lv with
    | struct fs =>
      simp [hL] at r1
      simp [run, runG, fn_commitLog_append, gomini, builtin, encCache, hl1, hl2, hr, hseg, hms, hen, r2, hL, view, r1]
    | _ => simp [hL] at r1

/-- every construct of the translated function is inside the subset -/
theorem translation_complete : unsupported = [] := rfl

/-- with `CLog.write`: the epoch component of a successful write is exactly what the translated `append` leaves -/
theorem write_epochs (l : CLog) (rs : List Rec) (l' : CLog) (offs : List Int) (h : l.write rs = .ok (l', offs)) :
    l'.epochs = assignEpochs l.epochs l.epochs.latestEpoch rs ∧ offs = rs.map Rec.offset := by
  unfold CLog.write at h
  split at h
  · cases h
  · injection h with h
    injection h with h1 h2
    subst h1; subst h2
    exact ⟨rfl, rfl⟩

/-! ### non-vacuity: two entries of a new epoch and one of the same epoch -/
def p0 : Payload := { key := none, val := some [1], hdrs := [] }
example : assignEpochs [(1, 0)] 1 [{ offset := 3, ts := 1, epoch := 2, body := p0 }, { offset := 4, ts := 2, epoch := 2, body := p0 },
    { offset := 5, ts := 3, epoch := 4, body := p0 }] = [(1, 0), (2, 3), (4, 5)] := by
  simp [assignEpochs, facts, Cmp.evalNat, Cmp.evalInt, Epochs.assign, Epochs.latestEpoch, Epochs.latestOffset]

end Liftbridge.Props.GoAppend
