/-
C06 at the level of the function bodies: `Server.apply` (server/fsm.go) and the `apply…` functions it
dispatches to, translated from the code.

`Gen/GoFSM.lean` is regenerated on every run. The metadata store and the activity manager are external
calls (recorded with their arguments). For every operation code and every log entry of that kind: exactly
ONE call into the metadata store, the one the model's transition function takes for that operation, with the
fields of the entry as arguments and - for the operations that carry an epoch - the Raft INDEX of the entry
as the epoch; a failing metadata call makes `apply` return an error; an unknown operation code is an error
without any call. CreateStream first stamps every partition of the stream with the index (leader epoch and
epoch): the loop over the pointer slice is translated as `setFieldsAll` (the extractor checks in
internal.pb.go that `Stream.Partitions` is a slice of pointers).
-/
import Liftbridge.Proofs.GoCodeBase
import Liftbridge.Gen.GoFSM

namespace Liftbridge.Props.GoFSM
open Liftbridge Liftbridge.GoMini Liftbridge.GoCode
open Liftbridge.Gen.GoFSM

/-- every construct of the translated functions is inside the subset -/
theorem translation_complete : unsupported = [] := rfl

/-- the operation codes: distinct values (which ones is irrelevant to the dispatch) -/
def globals : List (String × Val) :=
  [("proto.Op_CREATE_STREAM", .int 0), ("proto.Op_SHRINK_ISR", .int 1), ("proto.Op_CHANGE_LEADER", .int 2), ("proto.Op_EXPAND_ISR", .int 3),
   ("proto.Op_DELETE_STREAM", .int 4), ("proto.Op_PAUSE_STREAM", .int 5), ("proto.Op_RESUME_STREAM", .int 6), ("proto.Op_SET_STREAM_READONLY", .int 7),
   ("proto.Op_PUBLISH_ACTIVITY", .int 8), ("proto.Op_CREATE_CONSUMER_GROUP", .int 9), ("proto.Op_JOIN_CONSUMER_GROUP", .int 10),
   ("proto.Op_LEAVE_CONSUMER_GROUP", .int 11), ("proto.Op_CHANGE_CONSUMER_GROUP_COORDINATOR", .int 12), ("ErrStreamNotFound", .str "stream not found")]

/-- the metadata store: every operation answers `e` as its error (nil = success) -/
def metaExt (e : Val) : Ext := fun f _ _ =>
  if f = "metadata.AddStream" ∨ f = "metadata.ResumePartition" ∨ f = "metadata.AddConsumerGroup" then some (.tup [.str "object", e])
  else if f = "metadata.RemoveConsumerFromGroup" then some (.tup [.bool false, e])
  else if f = "metadata.GetStream" then some (.struct [("name", .str "the stream")])
  else if f = "metadata.RemoveFromISR" ∨ f = "metadata.AddToISR" ∨ f = "metadata.ChangeLeader" ∨ f = "metadata.RemoveStream" ∨
    f = "metadata.PausePartitions" ∨ f = "metadata.SetReadonly" ∨ f = "metadata.AddConsumerToGroup" ∨ f = "metadata.ChangeGroupCoordinator" then some e
  else none

def server : Val := .struct [("metadata", .struct [("kind", .str "metadata")]), ("activity", .struct [("kind", .str "activity")])]

def entry (op : Int) (field : String) (body : List (String × Val)) : Val := .struct [("Op", .int op), (field, .struct body)]

/-- (did apply return a nil error?, the external calls with their arguments) -/
def view : R Out → Option (Bool × List (String × List Val))
  | .ok o => some (match o.rets with | [_, e] => isNil e | _ => false, o.eff)
  | _ => none

def errOf : Option String → Val
  | some m => .str m
  | none => .nil

set_option maxRecDepth 8000 in
set_option maxHeartbeats 2000000 in
/-- ShrinkISR: RemoveFromISR(stream, replica, partition, epoch = Raft index); the result of `apply` is an error exactly when the store reports one -/
theorem go_apply_shrink (stream : String) (replica : String) (part : Int) (index : Int) (recovered : Bool) (fail : Option String) :
    view (runG prog (metaExt (errOf fail)) 60 "apply" (some server)
      [entry 1 "ShrinkISROp" [("Stream", .str stream), ("ReplicaToRemove", .str replica), ("Partition", .int part)], .int index, .bool recovered] globals)
      = some (fail.isNone, [("metadata.RemoveFromISR", [.str stream, .str replica, .int part, .int index])]) := by
  cases fail <;>
    simp [runG, fn_Server_apply, fn_Server_applyShrinkISR, prog, gomini, metaExt, errOf, view, server, entry, globals, isNil, binVal, binInt, builtin]

set_option maxRecDepth 8000 in
set_option maxHeartbeats 2000000 in
/-- ChangeLeader(stream, leader, partition, epoch = Raft index); the result of `apply` is an error exactly when the store reports one -/
theorem go_apply_changeLeader (stream : String) (leader : String) (part : Int) (index : Int) (recovered : Bool) (fail : Option String) :
    view (runG prog (metaExt (errOf fail)) 60 "apply" (some server)
      [entry 2 "ChangeLeaderOp" [("Stream", .str stream), ("Leader", .str leader), ("Partition", .int part)], .int index, .bool recovered] globals)
      = some (fail.isNone, [("metadata.ChangeLeader", [.str stream, .str leader, .int part, .int index])]) := by
  cases fail <;>
    simp [runG, fn_Server_apply, fn_Server_applyChangePartitionLeader, prog, gomini, metaExt, errOf, view, server, entry, globals, isNil, binVal, binInt, builtin]

set_option maxRecDepth 8000 in
set_option maxHeartbeats 2000000 in
/-- ExpandISR: AddToISR(stream, replica, partition, epoch = Raft index); the result of `apply` is an error exactly when the store reports one -/
theorem go_apply_expand (stream : String) (replica : String) (part : Int) (index : Int) (recovered : Bool) (fail : Option String) :
    view (runG prog (metaExt (errOf fail)) 60 "apply" (some server)
      [entry 3 "ExpandISROp" [("Stream", .str stream), ("ReplicaToAdd", .str replica), ("Partition", .int part)], .int index, .bool recovered] globals)
      = some (fail.isNone, [("metadata.AddToISR", [.str stream, .str replica, .int part, .int index])]) := by
  cases fail <;>
    simp [runG, fn_Server_apply, fn_Server_applyExpandISR, prog, gomini, metaExt, errOf, view, server, entry, globals, isNil, binVal, binInt, builtin]

set_option maxRecDepth 8000 in
set_option maxHeartbeats 2000000 in
/-- DeleteStream: the stream is looked up, then RemoveStream(stream, recovered, epoch = Raft index); the result of `apply` is an error exactly when the store reports one -/
theorem go_apply_delete (stream : String) (index : Int) (recovered : Bool) (fail : Option String) :
    view (runG prog (metaExt (errOf fail)) 60 "apply" (some server)
      [entry 4 "DeleteStreamOp" [("Stream", .str stream)], .int index, .bool recovered] globals)
      = some (fail.isNone, [("metadata.GetStream", [.str stream]), ("metadata.RemoveStream", [.struct [("name", .str "the stream")], .bool recovered, .int index])]) := by
  cases fail <;>
    simp [runG, fn_Server_apply, fn_Server_applyDeleteStream, prog, gomini, metaExt, errOf, view, server, entry, globals, isNil, binVal, binInt, builtin]

set_option maxRecDepth 8000 in
set_option maxHeartbeats 2000000 in
/-- PauseStream: PausePartitions(stream, partitions, resumeAll); the result of `apply` is an error exactly when the store reports one -/
theorem go_apply_pause (stream : String) (parts : Val) (flag : Bool) (index : Int) (recovered : Bool) (fail : Option String) :
    view (runG prog (metaExt (errOf fail)) 60 "apply" (some server)
      [entry 5 "PauseStreamOp" [("Stream", .str stream), ("Partitions", parts), ("ResumeAll", .bool flag)], .int index, .bool recovered] globals)
      = some (fail.isNone, [("metadata.PausePartitions", [.str stream, parts, .bool flag])]) := by
  cases fail <;>
    simp [runG, fn_Server_apply, fn_Server_applyPauseStream, prog, gomini, metaExt, errOf, view, server, entry, globals, isNil, binVal, binInt, builtin]

set_option maxRecDepth 8000 in
set_option maxHeartbeats 2000000 in
/-- SetStreamReadonly: SetReadonly(stream, partitions, readonly); the result of `apply` is an error exactly when the store reports one -/
theorem go_apply_readonly (stream : String) (parts : Val) (flag : Bool) (index : Int) (recovered : Bool) (fail : Option String) :
    view (runG prog (metaExt (errOf fail)) 60 "apply" (some server)
      [entry 7 "SetStreamReadonlyOp" [("Stream", .str stream), ("Partitions", parts), ("Readonly", .bool flag)], .int index, .bool recovered] globals)
      = some (fail.isNone, [("metadata.SetReadonly", [.str stream, parts, .bool flag])]) := by
  cases fail <;>
    simp [runG, fn_Server_apply, fn_Server_applySetStreamReadonly, prog, gomini, metaExt, errOf, view, server, entry, globals, isNil, binVal, binInt, builtin]

set_option maxRecDepth 8000 in
set_option maxHeartbeats 2000000 in
/-- CreateConsumerGroup: AddConsumerGroup(group, recovered); the result of `apply` is an error exactly when the store reports one -/
theorem go_apply_createGroup (group : Val) (index : Int) (recovered : Bool) (fail : Option String) :
    view (runG prog (metaExt (errOf fail)) 60 "apply" (some server)
      [entry 9 "CreateConsumerGroupOp" [("ConsumerGroup", group)], .int index, .bool recovered] globals)
      = some (fail.isNone, [("metadata.AddConsumerGroup", [group, .bool recovered])]) := by
  cases fail <;>
    simp [runG, fn_Server_apply, fn_Server_applyCreateConsumerGroup, prog, gomini, metaExt, errOf, view, server, entry, globals, isNil, binVal, binInt, builtin]

set_option maxRecDepth 8000 in
set_option maxHeartbeats 2000000 in
/-- JoinConsumerGroup: AddConsumerToGroup(group, consumer, streams, epoch = Raft index); the result of `apply` is an error exactly when the store reports one -/
theorem go_apply_join (g : String) (c : String) (streams : Val) (index : Int) (recovered : Bool) (fail : Option String) :
    view (runG prog (metaExt (errOf fail)) 60 "apply" (some server)
      [entry 10 "JoinConsumerGroupOp" [("GroupId", .str g), ("ConsumerId", .str c), ("Streams", streams)], .int index, .bool recovered] globals)
      = some (fail.isNone, [("metadata.AddConsumerToGroup", [.str g, .str c, streams, .int index])]) := by
  cases fail <;>
    simp [runG, fn_Server_apply, fn_Server_applyJoinConsumerGroup, prog, gomini, metaExt, errOf, view, server, entry, globals, isNil, binVal, binInt, builtin]

set_option maxRecDepth 8000 in
set_option maxHeartbeats 2000000 in
/-- LeaveConsumerGroup: RemoveConsumerFromGroup(group, consumer, epoch = Raft index); the result of `apply` is an error exactly when the store reports one -/
theorem go_apply_leave (g : String) (c : String) (index : Int) (recovered : Bool) (fail : Option String) :
    view (runG prog (metaExt (errOf fail)) 60 "apply" (some server)
      [entry 11 "LeaveConsumerGroupOp" [("GroupId", .str g), ("ConsumerId", .str c)], .int index, .bool recovered] globals)
      = some (fail.isNone, [("metadata.RemoveConsumerFromGroup", [.str g, .str c, .int index])]) := by
  cases fail <;>
    simp [runG, fn_Server_apply, fn_Server_applyLeaveConsumerGroup, prog, gomini, metaExt, errOf, view, server, entry, globals, isNil, binVal, binInt, builtin]

set_option maxRecDepth 8000 in
set_option maxHeartbeats 2000000 in
/-- ChangeConsumerGroupCoordinator: ChangeGroupCoordinator(group, coordinator, epoch = Raft index); the result of `apply` is an error exactly when the store reports one -/
theorem go_apply_changeCoordinator (g : String) (coord : String) (index : Int) (recovered : Bool) (fail : Option String) :
    view (runG prog (metaExt (errOf fail)) 60 "apply" (some server)
      [entry 12 "ChangeConsumerGroupCoordinatorOp" [("GroupId", .str g), ("Coordinator", .str coord)], .int index, .bool recovered] globals)
      = some (fail.isNone, [("metadata.ChangeGroupCoordinator", [.str g, .str coord, .int index])]) := by
  cases fail <;>
    simp [runG, fn_Server_apply, fn_Server_applyChangeConsumerGroupCoordinator, prog, gomini, metaExt, errOf, view, server, entry, globals, isNil, binVal, binInt, builtin]

set_option maxRecDepth 8000 in
set_option maxHeartbeats 2000000 in
/-- PublishActivity: only the activity manager hears of it (the index that was published), never the metadata store -/
theorem go_apply_publishActivity (raftIndex index : Int) (recovered : Bool) (e : Val) :
    view (runG prog (metaExt e) 60 "apply" (some server)
      [entry 8 "PublishActivityOp" [("RaftIndex", .int raftIndex)], .int index, .bool recovered] globals)
      = some (true, [("activity.SetLastPublishedRaftIndex", [.int raftIndex])]) := by
  simp [runG, fn_Server_apply, prog, gomini, metaExt, view, server, entry, globals, isNil, binVal, binInt, builtin]

set_option maxRecDepth 8000 in
set_option maxHeartbeats 2000000 in
/-- an operation code outside the table: an error, and nothing is called -/
theorem go_apply_unknown (op : Int) (h : op < 0 ∨ 12 < op) (body : List (String × Val)) (index : Int) (recovered : Bool) (e : Val) :
    view (runG prog (metaExt e) 60 "apply" (some server) [entry op "X" body, .int index, .bool recovered] globals) = some (false, []) := by
  have h0 : op ≠ 0 := by omega
  have h1 : op ≠ 1 := by omega
  have h2 : op ≠ 2 := by omega
  have h3 : op ≠ 3 := by omega
  have h4 : op ≠ 4 := by omega
  have h5 : op ≠ 5 := by omega
  have h6 : op ≠ 6 := by omega
  have h7 : op ≠ 7 := by omega
  have h8 : op ≠ 8 := by omega
  have h9 : op ≠ 9 := by omega
  have h10 : op ≠ 10 := by omega
  have h11 : op ≠ 11 := by omega
  have h12 : op ≠ 12 := by omega
  simp [runG, fn_Server_apply, prog, gomini, metaExt, view, server, entry, globals, isNil, binVal, binInt, builtin,
    h0, h1, h2, h3, h4, h5, h6, h7, h8, h9, h10, h11, h12]

/-! ### CreateStream: every partition is stamped with the Raft index, then `AddStream(stream, recovered, index)` -/

theorem setFieldsAll_structs (upd : List (String × Val)) (parts : List (List (String × Val))) :
    setFieldsAll upd (parts.map Val.struct) =
      .ok (parts.map fun fs => Val.struct (upd.foldl (fun acc kv => update kv.1 kv.2 acc) fs)) := by
  induction parts with
  | nil => rfl
  | cons p ps ih => simp [setFieldsAll, ih, bind, R.bind]

/-- a partition record with leader epoch and epoch set to the index -/
def stamp (index : Int) (fs : List (String × Val)) : Val :=
  .struct (update "Epoch" (.int index) (update "LeaderEpoch" (.int index) fs))

set_option maxRecDepth 8000 in
set_option maxHeartbeats 2000000 in
theorem go_apply_createStream (name : String) (parts : List (List (String × Val))) (index : Int) (recovered : Bool) (fail : Option String) :
    view (runG prog (metaExt (errOf fail)) 60 "apply" (some server)
      [entry 0 "CreateStreamOp" [("Stream", .struct [("Name", .str name), ("Partitions", .list (parts.map Val.struct))])], .int index, .bool recovered] globals)
      = some (fail.isNone, [("metadata.AddStream",
          [.struct [("Name", .str name), ("Partitions", .list (parts.map (stamp index)))], .bool recovered, .int index])]) := by
  cases fail <;>
    simp [runG, fn_Server_apply, fn_Server_applyCreateStream, prog, gomini, metaExt, errOf, view, server, entry, globals, isNil, binVal, binInt, builtin,
      setFieldsAll_structs, setPath, getField, setField, update, stamp, bind, R.bind]

/-! ### ResumeStream: one `ResumePartition` per partition id, in order -/

def resumeBody : List Stmt :=
  match fn_Server_applyResumeStream.body with
  | (.forRange _ _ _ b) :: _ => b
  | _ => []

def resumeCalls (name : String) (recovered : Bool) (ids : List Int) : List (String × List Val) :=
  ids.map fun id => ("metadata.ResumePartition", [.str name, .int id, .bool recovered])

theorem lk_resumePartition : evalE.lookup' "metadata.ResumePartition" prog = none := by
  simp [prog, evalE.lookup']

set_option maxHeartbeats 1000000 in
theorem resume_loop (F : Nat) (hF : 12 ≤ F) (name : String) (recovered : Bool) : ∀ (ids : List Int) (i : Nat) (st : St),
    st.env "s" = some server → st.env "streamName" = some (.str name) → st.env "recovered" = some (.bool recovered) →
    ∃ st', runRange (runBlock (exec prog (metaExt .nil) F) resumeBody) none (some "id") i (ids.map Val.int) st = .ok (.next, st') ∧
      st'.eff = st.eff ++ resumeCalls name recovered ids ∧ st'.env "s" = some server := by
  obtain ⟨n, rfl⟩ : ∃ n, F = n + 12 := ⟨F - 12, by omega⟩
  intro ids
  induction ids with
  | nil => intro i st hs _ _; exact ⟨st, by simp [gomini], by simp [resumeCalls], hs⟩
  | cons id rest ih =>
    intro i st hs hn hr
    have hstep : ∃ st1, runBlock (exec prog (metaExt .nil) (n + 12)) resumeBody (st.set "id" (.int id)) = .ok (.next, st1) ∧
        st1.eff = st.eff ++ [("metadata.ResumePartition", [.str name, .int id, .bool recovered])] ∧
        st1.env "s" = some server ∧ st1.env "streamName" = some (.str name) ∧ st1.env "recovered" = some (.bool recovered) := by
      refine ⟨?s1, ?h1, ?_, ?_, ?_, ?_⟩
      case h1 =>
        simp [resumeBody, fn_Server_applyResumeStream, gomini, hs, hn, hr, server, metaExt, binVal, lk_resumePartition]
        rfl
      · simp [gomini]
      · simp [gomini, hs]
      · simp [gomini, hn]
      · simp [gomini, hr]
    obtain ⟨st1, h1, e1, k1, k2, k3⟩ := hstep
    obtain ⟨st', h2, e2, k4⟩ := ih (i + 1) st1 k1 k2 k3
    refine ⟨st', ?_, ?_, k4⟩
    · simp only [List.map_cons, runRange_cons, h1]
      simpa using h2
    · rw [e2, e1]; simp [resumeCalls]

theorem lk_apply : evalE.lookup' "apply" prog = some fn_Server_apply := by simp [prog, evalE.lookup']
theorem lk_applyResume : evalE.lookup' "applyResumeStream" prog = some fn_Server_applyResumeStream := by simp [prog, evalE.lookup']
@[simp] theorem resume_params : fn_Server_applyResumeStream.params = ["streamName", "partitionIDs", "recovered"] := rfl
@[simp] theorem resume_recv : fn_Server_applyResumeStream.recv = some "s" := rfl

set_option maxHeartbeats 1000000 in
/-- the body of `applyResumeStream` on its parameters -/
theorem resume_run (F : Nat) (hF : 14 ≤ F) (name : String) (recovered : Bool) (ids : List Int) (E : List (String × List Val)) :
    ∃ st2, runBlock (exec prog (metaExt .nil) F) fn_Server_applyResumeStream.body
        { env := envOf [("s", server), ("streamName", .str name), ("partitionIDs", .list (ids.map Val.int)), ("recovered", .bool recovered)], eff := E }
        = .ok (.ret [.nil], st2) ∧ st2.eff = E ++ resumeCalls name recovered ids ∧ st2.env "s" = some server := by
  obtain ⟨n, rfl⟩ : ∃ n, F = n + 14 := ⟨F - 14, by omega⟩
  obtain ⟨st', h, e, k⟩ := resume_loop (n + 13) (by omega) name recovered ids 0
    { env := envOf [("s", server), ("streamName", .str name), ("partitionIDs", .list (ids.map Val.int)), ("recovered", .bool recovered)], eff := E }
    (by simp [gomini]) (by simp [gomini]) (by simp [gomini])
  refine ⟨st', ?_, e, k⟩
  have hb : fn_Server_applyResumeStream.body = [.forRange none (some "id") (.var "partitionIDs") resumeBody, .ret [.nil]] := rfl
  rw [hb]
  simp [gomini, h]

set_option maxRecDepth 8000 in
set_option maxHeartbeats 2000000 in
/-- ResumeStream: `ResumePartition(stream, id, recovered)` for every partition id of the entry, in order, nothing else -/
theorem go_apply_resume (stream : String) (ids : List Int) (index : Int) (recovered : Bool) :
    view (runG prog (metaExt .nil) 60 "apply" (some server)
      [entry 6 "ResumeStreamOp" [("Stream", .str stream), ("Partitions", .list (ids.map Val.int))], .int index, .bool recovered] globals)
      = some (true, resumeCalls stream recovered ids) := by
  obtain ⟨st2, hrun, heff, henv⟩ := resume_run 49 (by omega) stream recovered ids []
  simp [runG, fn_Server_apply, lk_apply, lk_applyResume, gomini, metaExt, view, entry, globals, isNil, binVal, binInt, builtin, hrun, heff, henv, flowResult]

end Liftbridge.Props.GoFSM
