/-
C01 / C02 at the level of the function body: `commitLog.Truncate` (server/commitlog/commitlog.go) - what a follower does to its log
when it reconciles with a new leader, and what "truncate removes exactly the suffix" rests on - translated from the code.
`Gen/GoTruncate.lean` is regenerated on every run. `findSegment`, the segment scanner and the file system are parameters (the
k-th `Scan` answers the k-th message of the segment that holds the offset, then EOF; the file-system calls succeed).

Three loops, three loop lemmas, each by induction, for lists of every length: `del_loop` (every segment BEHIND the one that
holds the offset is deleted, and counted), `copy_loop` (the segments IN FRONT of it are taken over, in order: the new segment
list starts with exactly them), `scan_loop` (the messages of the segment are written to its truncated copy one by one, in
order, as long as their offset is below the truncation offset; the first one at or above it ends the copying).
`go_Truncate_replace`: for every segment list `pre ++ [seg] ++ post`, every content of `seg` and every offset strictly inside
`seg` (its base offset is not the truncation offset), the calls are, in this order: one `Delete` per segment of `post`,
`Truncated` (the empty copy), one `WriteMessageSet(ms, [entry])` per message below the offset, `Replace(seg)`, the switch of the
active segment to the copy, `ClearLatest(offset)` on the epoch cache; the log's segment list afterwards is `pre` followed by the
copy; the call returns what `ClearLatest` returns. `go_Truncate_nothing`: an offset beyond the end of the log changes nothing.
`go_Truncate_first`: the same when the offset lies anywhere in the FIRST segment, its base offset included (the first segment is never
deleted). `go_Truncate_drop`: the offset is the base offset of a later segment: that segment is deleted with everything behind it,
nothing is copied, the segment in front of it becomes the active one and the log ends with it. The three theorems cover every
case the code distinguishes. `copied_writes`: the messages written are the longest prefix of the segment below the offset - all of
those below it when offsets increase along the segment. Failing file-system calls stay with the model and the correspondence
runs; the fuel is `segments + messages + 14` because three-clause loops consume fuel per iteration.
-/
import Liftbridge.Proofs.GoCodeBase
import Liftbridge.Gen.GoTruncate

set_option linter.unusedSimpArgs false

namespace Liftbridge.Props.GoTruncate
open Liftbridge Liftbridge.GoMini Liftbridge.GoCode
open Liftbridge.Gen.GoTruncate

theorem translation_complete : unsupported = [] := rfl

@[simp] theorem lk_Truncate : evalE.lookup' "Truncate" prog = some fn_commitLog_Truncate := by simp [prog, gomini]
@[simp] theorem lk_other (f : String) (h : f ≠ "Truncate") : evalE.lookup' f prog = none := by simp [prog, gomini, h]

/-- a segment, as `Truncate` sees it: its base offset -/
def encS (b : Int) : Val := .struct [("BaseOffset", .int b)]

/-- the log: its segments and its epoch cache -/
def encL (bases : List Int) : Val := .struct [("segments", .list (bases.map encS)), ("leaderEpochCache", .struct [("kind", .str "epochs")])]

/-! ### loop 1: every segment behind the one that holds the offset is deleted -/

def delCond : Expr := (.bin "<" (.var "i") (.len (.sel (.var "l") "segments")))
def delBody : List Stmt :=
  [(.ite [(.assign [(.var "err")] [(.mcall (.idx (.sel (.var "l") "segments") (.var "i")) "Delete" [])])] (.bin "!=" (.var "err") .nil)
      [(.ret [(.var "err")])] []),
   (.skip "crashPoint(\"log.truncate.deleted\")"),
   (.opAssign "+" (.var "deleted") (.int 1))]
def delPost : List Stmt := [(.opAssign "+" (.var "i") (.int 1))]

/-- an `Ext` under which deleting succeeds (and which says nothing else the loop asks for) -/
def DelOk (x : Ext) : Prop := ∀ args eff, x "Delete" args eff = some .nil

set_option maxRecDepth 8000 in
set_option maxHeartbeats 2000000 in
theorem del_loop (m0 : Nat) (x : Ext) (hx : DelOk x) (bases : List Int) :
    ∀ (k i : Nat) (iters : Nat) (st : St) (d : Int), i + k = bases.length → k + 1 ≤ iters →
      st.env "i" = some (.int i) → st.env "l" = some (encL bases) → st.env "deleted" = some (.int d) →
      ∃ st', runFor (forCond prog x (m0 + 10) delCond) (runBlock (exec prog x (m0 + 10)) delBody) (runBlock (exec prog x (m0 + 10)) delPost) iters st =
          .ok (.next, st') ∧
        st'.env "deleted" = some (.int (d + k)) ∧ st'.eff = st.eff ++ List.replicate k ("Delete", []) ∧
        (∀ y, y ≠ "i" → y ≠ "deleted" → y ≠ "err" → st'.env y = st.env y) := by
  intro k
  induction k with
  | zero =>
    intro i iters st d hik hit hi hl hd
    obtain ⟨it, rfl⟩ : ∃ it, iters = it + 1 := ⟨iters - 1, by omega⟩
    have hlt : ¬ ((i : Int) < (bases.length : Int)) := by omega
    refine ⟨st, ?_, by simpa using hd, by simp, fun _ _ _ _ => rfl⟩
    simp [runFor_succ, forCond, delCond, gomini, hi, hl, encL, binInt, lenOf, truthy, getField, lookup, hlt, bind, R.bind, pure]
  | succ k ih =>
    intro i iters st d hik hit hi hl hd
    obtain ⟨it, rfl⟩ : ∃ it, iters = it + 1 := ⟨iters - 1, by omega⟩
    have hlt : (i : Int) < (bases.length : Int) := by omega
    have hnn : ¬ ((i : Int) < 0) := by omega
    obtain ⟨b, hb⟩ : ∃ b, bases[i]? = some b := ⟨bases[i]'(by omega), by simp [List.getElem?_eq_getElem (by omega : i < bases.length)]⟩
    let st1 : St := ((((st.log "Delete" []).set "err" .nil).set "deleted" (.int (d + 1))).set "i" (.int ((i : Int) + 1)))
    obtain ⟨st', h1, h2, h3, h4⟩ := ih (i + 1) it st1 (d + 1) (by omega) (by omega) (by simp [st1, gomini]) (by simp [st1, gomini, hl]) (by simp [st1, gomini])
    refine ⟨st', ?_, ?_, ?_, ?_⟩
    · rw [runFor_succ]
      simp [forCond, delCond, delBody, delPost, gomini, hi, hl, hd, encL, encS, binInt, lenOf, truthy, getField, lookup, hlt, hnn, hb, asList, hx _ _, assignTo,
        -getElem?_pos]
      simpa [st1, delCond, delBody, delPost, gomini, St.log] using h1
    · rw [h2]; congr 2; push_cast; omega
    · rw [h3]; simp [st1, gomini, St.log, List.replicate_succ]
    · intro y hy1 hy2 hy3; rw [h4 y hy1 hy2 hy3]; simp [st1, gomini, hy1, hy2, hy3, St.log]

/-! ### loop 2: the segments in front of it are kept -/

def cpCond : Expr := (.bin "<" (.var "i") (.var "idx"))
def cpBody : List Stmt := [(.assign [(.idx (.var "segments") (.var "i"))] [(.idx (.sel (.var "l") "segments") (.var "i"))])]

theorem set_take_replicate (xs : List Val) (i n : Nat) (v : Val) (hv : xs[i]? = some v) (hn : i < n) :
    (xs.take i ++ List.replicate (n - i) Val.nil).set i v = xs.take (i + 1) ++ List.replicate (n - (i + 1)) Val.nil := by
  have hi : i < xs.length := by
    rcases Nat.lt_or_ge i xs.length with h | h
    · exact h
    · have : xs[i]? = none := List.getElem?_eq_none h
      simp [this] at hv
  have hlen : (xs.take i).length = i := by simp; omega
  obtain ⟨r, hr⟩ : ∃ r, n - i = r + 1 := ⟨n - i - 1, by omega⟩
  have hr' : n - (i + 1) = r := by omega
  rw [List.set_append_right _ _ (by omega), hlen, Nat.sub_self, hr, hr', List.replicate_succ, List.set_cons_zero, List.take_add_one, hv]
  simp

set_option maxRecDepth 8000 in
set_option maxHeartbeats 2000000 in
theorem copy_loop (m0 : Nat) (x : Ext) (bases : List Int) (idx n : Nat) (hidx : idx ≤ bases.length) (hn : idx ≤ n) :
    ∀ (k i : Nat) (iters : Nat) (st : St), i + k = idx → k + 1 ≤ iters →
      st.env "i" = some (.int i) → st.env "idx" = some (.int idx) → st.env "l" = some (encL bases) →
      st.env "segments" = some (.list ((bases.map encS).take i ++ List.replicate (n - i) .nil)) →
      ∃ st', runFor (forCond prog x (m0 + 10) cpCond) (runBlock (exec prog x (m0 + 10)) cpBody) (runBlock (exec prog x (m0 + 10)) delPost) iters st =
          .ok (.next, st') ∧
        st'.env "segments" = some (.list ((bases.map encS).take idx ++ List.replicate (n - idx) .nil)) ∧ st'.eff = st.eff ∧
        (∀ y, y ≠ "i" → y ≠ "segments" → st'.env y = st.env y) := by
  intro k
  induction k with
  | zero =>
    intro i iters st hik hit hi hidxv hl hs
    obtain ⟨it, rfl⟩ : ∃ it, iters = it + 1 := ⟨iters - 1, by omega⟩
    have : i = idx := by omega
    subst this
    refine ⟨st, ?_, hs, rfl, fun _ _ _ => rfl⟩
    simp [runFor_succ, forCond, cpCond, gomini, hi, hidxv, binInt, truthy, bind, R.bind, pure]
  | succ k ih =>
    intro i iters st hik hit hi hidxv hl hs
    obtain ⟨it, rfl⟩ : ∃ it, iters = it + 1 := ⟨iters - 1, by omega⟩
    have hlt : (i : Int) < (idx : Int) := by omega
    have hnn : ¬ ((i : Int) < 0) := by omega
    obtain ⟨b, hb⟩ : ∃ b, bases[i]? = some b := ⟨bases[i]'(by omega), by simp [List.getElem?_eq_getElem (by omega : i < bases.length)]⟩
    have hv : (bases.map encS)[i]? = some (encS b) := by simp [hb]
    have hset := set_take_replicate (bases.map encS) i n (encS b) hv (by omega)
    let st1 : St := (st.set "segments" (.list ((bases.map encS).take (i + 1) ++ List.replicate (n - (i + 1)) .nil))).set "i" (.int ((i : Int) + 1))
    obtain ⟨st', h1, h2, h3, h4⟩ := ih (i + 1) it st1 (by omega) (by omega) (by simp [st1, gomini]) (by simp [st1, gomini, hidxv]) (by simp [st1, gomini, hl])
      (by simp [st1, gomini])
    have hbound : i < ((bases.map encS).take i ++ List.replicate (n - i) Val.nil).length := by simp; omega
    refine ⟨st', ?_, h2, by rw [h3]; simp [st1, gomini], ?_⟩
    · rw [runFor_succ]
      simp [forCond, cpCond, cpBody, delPost, gomini, hi, hidxv, hl, hs, encL, binInt, truthy, getField, lookup, hlt, hnn, hb, asList, assignTo, hset, hbound,
        -getElem?_pos, -List.length_append, -List.length_take, -List.length_replicate]
      simpa [st1, cpCond, cpBody, delPost, gomini] using h1
    · intro y hy1 hy2; rw [h4 y hy1 hy2]; simp [st1, gomini, hy1, hy2]

/-! ### loop 3: the segment that holds the offset is copied up to it -/

def encMs (o : Int) : Val := .struct [("Offset", .int o), ("kind", .str "message set")]
def encE (o : Int) : Val := .struct [("Offset", .int o), ("kind", .str "entry")]

def scans (eff : List (String × List Val)) : Nat := (eff.filter fun e => e.1 = "Scan").length

/-- the file system and the scanner of the segment being cut: the k-th `Scan` answers the k-th message of the segment, then EOF;
everything else succeeds; `findSegment` answers `found` -/
def truncExt (found : Val) (msgs : List Int) : Ext := fun f _ eff =>
  if f = "findSegment" then some found
  else if f = "Scan" then
    match msgs[scans eff]? with
    | some o => some (.tup [encMs o, encE o, .nil])
    | none => some (.tup [.nil, .nil, .str "EOF"])
  else if f = "newSegmentScanner" then some (.struct [("kind", .str "scanner")])
  else if f = "Truncated" then some (.tup [.struct [("kind", .str "truncated copy")], .nil])
  else some .nil

/-- what the loop does with the messages still to scan: those below the offset are written to the copy (each followed by the next
scan); the first one at or above it ends the loop -/
def copied (offset : Int) : List Int → List (String × List Val)
  | [] => []
  | o :: rest => if o < offset then ("WriteMessageSet", [encMs o, .list [encE o]]) :: ("Scan", []) :: copied offset rest else []

def scCond : Expr := (.bin "==" (.var "err·1") .nil)
def scBody : List Stmt :=
  [(.ite [] (.bin "<" (.mcall (.var "ms") "Offset" []) (.var "offset"))
      [(.ite [(.assign [(.var "err·2")] [(.mcall (.var "newSegment") "WriteMessageSet" [(.var "ms"), (.listLit [(.var "e")])])])] (.bin "!=" (.var "err·2") .nil)
      [(.ret [(.var "err·2")])] [])]
      [.brk])]
def scPost : List Stmt := [(.assign [(.var "ms"), (.var "e"), (.var "err·1")] [(.mcall (.var "ss") "Scan" [])])]

def hMs : List Int → Val
  | o :: _ => encMs o
  | [] => .nil
def hE : List Int → Val
  | o :: _ => encE o
  | [] => .nil
def hErr : List Int → Val
  | [] => .str "EOF"
  | _ :: _ => .nil

structure Head (st : St) (suf : List Int) (offset : Int) : Prop where
  err : st.env "err·1" = some (hErr suf)
  ms : st.env "ms" = some (hMs suf)
  e : st.env "e" = some (hE suf)
  off : st.env "offset" = some (.int offset)
  ns : st.env "newSegment" = some (.struct [("kind", .str "truncated copy")])
  ss : st.env "ss" = some (.struct [("kind", .str "scanner")])

theorem scans_append (a b : List (String × List Val)) : scans (a ++ b) = scans a + scans b := by simp [scans]

set_option maxRecDepth 8000 in
set_option maxHeartbeats 4000000 in
theorem scan_loop (m0 : Nat) (found : Val) (msgs : List Int) (offset : Int) :
    ∀ (suf pre : List Int) (iters : Nat) (st : St), msgs = pre ++ suf → suf.length + 1 ≤ iters → scans st.eff = pre.length + 1 → Head st suf offset →
      ∃ st', runFor (forCond prog (truncExt found msgs) (m0 + 12) scCond) (runBlock (exec prog (truncExt found msgs) (m0 + 12)) scBody)
          (runBlock (exec prog (truncExt found msgs) (m0 + 12)) scPost) iters st = .ok (.next, st') ∧
        st'.eff = st.eff ++ copied offset suf ∧
        (∀ y, y ≠ "ms" → y ≠ "e" → y ≠ "err·1" → y ≠ "err·2" → st'.env y = st.env y) := by
  intro suf
  induction suf with
  | nil =>
    intro pre iters st _ hit _ hd
    obtain ⟨it, rfl⟩ : ∃ it, iters = it + 1 := ⟨iters - 1, by omega⟩
    refine ⟨st, ?_, by simp [copied], fun _ _ _ _ _ => rfl⟩
    simp [runFor_succ, forCond, scCond, gomini, hd.err, hErr, truthy, bind, R.bind, pure]
  | cons o rest ih =>
    intro pre iters st hm hit hsc hd
    obtain ⟨it, rfl⟩ : ∃ it, iters = it + 1 := ⟨iters - 1, by simp at hit; omega⟩
    by_cases hlt : o < offset
    · -- written to the copy, then the next scan
      have hnext : msgs[pre.length + 1]? = rest.head? := by
        subst hm
        cases rest <;> simp
      let st1 : St := (((((st.log "WriteMessageSet" [encMs o, .list [encE o]]).set "err·2" .nil).log "Scan" []).set "ms" (hMs rest)).set "e" (hE rest)).set "err·1"
          (hErr rest)
      obtain ⟨st', h1, h2, h3⟩ := ih (pre ++ [o]) it st1 (by simp [hm]) (by simp at hit; omega)
        (by
          have he : st1.eff = st.eff ++ [("WriteMessageSet", [encMs o, .list [encE o]]), ("Scan", [])] := by simp [st1, gomini, St.log]
          rw [he, scans_append, hsc]; simp [scans])
        ⟨by simp [st1, gomini], by simp [st1, gomini], by simp [st1, gomini], by simp [st1, gomini, St.log, hd.off], by simp [st1, gomini, St.log, hd.ns],
         by simp [st1, gomini, St.log, hd.ss]⟩
      refine ⟨st', ?_, ?_, ?_⟩
      · rw [runFor_succ]
        have hcount : scans (st.eff ++ [("WriteMessageSet", [encMs o, Val.list [encE o]])]) = pre.length + 1 := by
          rw [scans_append, hsc]; simp [scans]
        simp only [encMs, encE] at hcount
        cases rest with
        | nil =>
          simp only [List.head?_nil] at hnext
          simp [forCond, scCond, scBody, scPost, gomini, hd.err, hd.ms, hd.e, hd.off, hd.ns, hd.ss, truthy, encMs, getField, lookup, binInt, hlt, truncExt, St.log,
            assignAll, assignTo, hcount, hnext, hErr, hMs, hE, encE, -getElem?_pos]
          simpa [st1, scCond, scBody, scPost, gomini, St.log, encMs, encE, hErr, hMs, hE] using h1
        | cons r rs =>
          simp only [List.head?_cons] at hnext
          simp [forCond, scCond, scBody, scPost, gomini, hd.err, hd.ms, hd.e, hd.off, hd.ns, hd.ss, truthy, encMs, getField, lookup, binInt, hlt, truncExt, St.log,
            assignAll, assignTo, hcount, hnext, hErr, hMs, hE, encE, -getElem?_pos]
          simpa [st1, scCond, scBody, scPost, gomini, St.log, encMs, encE, hErr, hMs, hE] using h1
      · rw [h2]; simp [st1, gomini, St.log, copied, hlt]
      · intro y hy1 hy2 hy3 hy4; rw [h3 y hy1 hy2 hy3 hy4]; simp [st1, gomini, St.log, hy1, hy2, hy3, hy4]
    · -- at or above the offset: break
      refine ⟨st, ?_, by simp [copied, hlt], fun _ _ _ _ _ => rfl⟩
      rw [runFor_succ]
      simp [forCond, scCond, scBody, gomini, hd.err, hd.ms, hd.off, truthy, encMs, getField, lookup, binInt, hlt, hErr, hMs]

/-! ### the whole function -/

def isTr (f : String) : Bool := f = "Delete" || f = "Truncated" || f = "WriteMessageSet" || f = "Replace" || f = "atomic.StorePointer" || f = "ClearLatest"

/-- (returned values, the file-system / cache calls in order, the log's segment list afterwards) -/
def trView : R Out → Option (List Val × List (String × List Val) × Option Val)
  | .ok o => some (o.rets, o.eff.filter (fun e => isTr e.1), match o.recv with | some (.struct fs) => lookup "segments" fs | _ => none)
  | _ => none

def newSegV : Val := .struct [("kind", .str "truncated copy")]

/-- no segment holds the offset (it is beyond the end of the log): nothing happens -/
theorem go_Truncate_nothing (bases : List Int) (msgs : List Int) (offset : Int) :
    trView (runG prog (truncExt (.tup [.nil, .int 0]) msgs) 30 "Truncate" (some (encL bases)) [.int offset] []) =
      some ([.nil], [], some (.list (bases.map encS))) := by
  simp [runG, fn_commitLog_Truncate, gomini, trView, truncExt, encL, isTr, lookup, getField, truthy, builtin]

theorem delOk_truncExt (found : Val) (msgs : List Int) : DelOk (truncExt found msgs) := by
  intro args eff; simp [truncExt]

/-- the calls of `Truncate` in the REPLACE case: every later segment deleted, the copy created, the messages below the offset
written to it in order, the copy put in the segment's place, the active segment switched to it, the epoch cache trimmed -/
def replaceTrace (post : List Int) (b : Int) (offset : Int) (msgs : List Int) : List (String × List Val) :=
  List.replicate post.length ("Delete", []) ++ [("Truncated", [])] ++ (copied offset msgs).filter (fun e => isTr e.1) ++
    [("Replace", [encS b]), ("atomic.StorePointer", [.str "l.vActiveSegment", newSegV]), ("ClearLatest", [.int offset])]

set_option maxRecDepth 16000 in
set_option maxHeartbeats 8000000 in
theorem go_Truncate_replace (pre : List Int) (b : Int) (post : List Int) (msgs : List Int) (offset : Int)
    (hb : b ≠ offset) :
    trView (runG prog (truncExt (.tup [encS b, .int pre.length]) msgs) ((pre ++ b :: post).length + msgs.length + 14) "Truncate"
        (some (encL (pre ++ b :: post))) [.int offset] []) =
      some ([.nil], replaceTrace post b offset msgs, some (.list (pre.map encS ++ [newSegV]))) := by
  simp only [List.length_append, List.length_cons]
  let x : Ext := truncExt (.tup [encS b, .int pre.length]) msgs
  let segsV : Val := .list (List.map encS pre ++ encS b :: List.map encS post)
  let lV : Val := .struct [("segments", segsV), ("leaderEpochCache", .struct [("kind", .str "epochs")])]
  let st0 : St := ((((({ env := envOf [("l", lV), ("offset", .int offset)], eff := [] } : St).log "findSegment" [segsV, .int offset]).set "seg" (encS b)).set
      "idx" (.int pre.length)).set "deleted" (.int 0)).set "i" (.int ((pre.length : Int) + 1))
  obtain ⟨st1, a1, a2, a3, a4⟩ := del_loop (pre.length + (post.length + 1) + msgs.length + 3) x (delOk_truncExt _ _) (pre ++ b :: post)
    post.length (pre.length + 1) (pre.length + (post.length + 1) + msgs.length + 13) st0 0 (by simp; omega) (by omega)
    (by simp [st0, gomini]) (by simp [st0, gomini, St.log, envOf, lookup, lV, segsV, encL]) (by simp [st0, gomini])
  have b1 := a4 "seg" (by decide) (by decide) (by decide)
  have b2 := a4 "idx" (by decide) (by decide) (by decide)
  have b3 := a4 "offset" (by decide) (by decide) (by decide)
  have b4 := a4 "l" (by decide) (by decide) (by decide)
  have b2' := b2
  have b4' := b4
  have a3' := a3
  have hmk1 : ¬ ((pre.length : Int) + ((post.length : Int) + 1) - (post.length : Int) < 0) := by omega
  have hmk2 : ((pre.length : Int) + ((post.length : Int) + 1)).toNat - post.length = pre.length + 1 := by omega
  let st2 : St := (((st1.set "replace" (.bool false)).set "replace" (.bool true)).set "segments" (.list (List.replicate (pre.length + 1) .nil))).set "i" (.int 0)
  obtain ⟨st3, c1, c2, c3, c4⟩ := copy_loop (pre.length + (post.length + 1) + msgs.length + 3) x (pre ++ b :: post) pre.length (pre.length + 1)
    (by simp) (by omega) pre.length 0 (pre.length + (post.length + 1) + msgs.length + 13) st2 (by omega) (by omega)
    (by simp [st2, gomini]) (by simp [st2, gomini, b2', st0]) (by simp [st2, gomini, b4', st0, lV, segsV, encL, St.log, envOf, lookup])
    (by simp [st2, gomini])
  have c3' := c3
  have d1 := c4 "seg" (by decide) (by decide)
  have d2 := c4 "idx" (by decide) (by decide)
  have d3 := c4 "offset" (by decide) (by decide)
  have d4 := c4 "l" (by decide) (by decide)
  have d5 := c4 "replace" (by decide) (by decide)
  try simp [x, st0, lV, segsV, delCond, delBody, delPost, gomini, envOf, lookup, encS] at a1
  try simp [x, st0, lV, segsV, delCond, delBody, delPost, gomini, envOf, lookup, encS] at a2
  try simp [x, st0, lV, segsV, delCond, delBody, delPost, gomini, envOf, lookup, encS] at a3
  try simp [x, st0, lV, segsV, delCond, delBody, delPost, gomini, envOf, lookup, encS] at b1
  try simp [x, st0, lV, segsV, delCond, delBody, delPost, gomini, envOf, lookup, encS] at b2
  try simp [x, st0, lV, segsV, delCond, delBody, delPost, gomini, envOf, lookup, encS] at b3
  try simp [x, st0, lV, segsV, delCond, delBody, delPost, gomini, envOf, lookup, encS] at b4
  try simp [x, st2, cpCond, cpBody, delPost, gomini, encS, b1, b2, b3, b4] at c1
  try simp [x, st2, cpCond, cpBody, delPost, gomini, encS, b1, b2, b3, b4] at c2
  try simp [x, st2, cpCond, cpBody, delPost, gomini, encS, b1, b2, b3, b4] at c3
  try simp [x, st2, cpCond, cpBody, delPost, gomini, encS, b1, b2, b3, b4] at d1
  try simp [x, st2, cpCond, cpBody, delPost, gomini, encS, b1, b2, b3, b4] at d2
  try simp [x, st2, cpCond, cpBody, delPost, gomini, encS, b1, b2, b3, b4] at d3
  try simp [x, st2, cpCond, cpBody, delPost, gomini, encS, b1, b2, b3, b4] at d4
  try simp [x, st2, cpCond, cpBody, delPost, gomini, encS, b1, b2, b3, b4] at d5
  have hst3 : scans st3.eff = 0 := by
    rw [c3']; simp [st2, gomini, a3', st0, scans, List.filter_append, List.filter_replicate]
  let stS : St := (((((st3.log "newSegmentScanner" [encS b]).set "ss" (.struct [("kind", .str "scanner")])).log "Truncated" []).set "newSegment" newSegV).set "err" .nil).log "Scan" []
  let st4 : St := ((stS.set "ms" (hMs msgs)).set "e" (hE msgs)).set "err·1" (hErr msgs)
  obtain ⟨st5, e1, e2, e3⟩ := scan_loop (pre.length + (post.length + 1) + msgs.length) (.tup [encS b, .int pre.length]) msgs offset msgs [] 
    (pre.length + (post.length + 1) + msgs.length + 12) st4 (by simp) (by omega)
    (by
      have he : st4.eff = st3.eff ++ [("newSegmentScanner", [encS b]), ("Truncated", []), ("Scan", [])] := by simp [st4, stS, gomini]
      rw [he, scans_append, hst3]; simp [scans])
    ⟨by simp [st4, gomini], by simp [st4, gomini], by simp [st4, gomini], by simp [st4, stS, gomini, d3, st2, b3, st0, envOf, lookup],
     by simp [st4, stS, gomini, newSegV], by simp [st4, stS, gomini]⟩
  have f1 := e3 "seg" (by decide) (by decide) (by decide) (by decide)
  have f2 := e3 "idx" (by decide) (by decide) (by decide) (by decide)
  have f3 := e3 "offset" (by decide) (by decide) (by decide) (by decide)
  have f4 := e3 "l" (by decide) (by decide) (by decide) (by decide)
  have f5 := e3 "segments" (by decide) (by decide) (by decide) (by decide)
  have f6 := e3 "newSegment" (by decide) (by decide) (by decide) (by decide)
  have hsc0 : scans (("findSegment", [Val.list (List.map encS pre ++ Val.struct [("BaseOffset", Val.int b)] :: List.map encS post), Val.int offset]) ::
      (List.replicate post.length ("Delete", []) ++ [("newSegmentScanner", [Val.struct [("BaseOffset", Val.int b)]]), ("Truncated", [])])) = 0 := by
    simp [scans, List.filter_append, List.filter_replicate]
  try simp [x, st0, lV, segsV, delCond, delBody, delPost, gomini, envOf, lookup, encS] at a1
  try simp [x, st0, lV, segsV, delCond, delBody, delPost, gomini, envOf, lookup, encS] at a2
  try simp [x, st0, lV, segsV, delCond, delBody, delPost, gomini, envOf, lookup, encS] at a3
  try simp [x, st0, lV, segsV, delCond, delBody, delPost, gomini, envOf, lookup, encS] at b1
  try simp [x, st0, lV, segsV, delCond, delBody, delPost, gomini, envOf, lookup, encS] at b2
  try simp [x, st0, lV, segsV, delCond, delBody, delPost, gomini, envOf, lookup, encS] at b3
  try simp [x, st0, lV, segsV, delCond, delBody, delPost, gomini, envOf, lookup, encS] at b4
  try simp [x, st2, cpCond, cpBody, delPost, gomini, encS, b1, b2, b3, b4] at c1
  try simp [x, st2, cpCond, cpBody, delPost, gomini, encS, b1, b2, b3, b4] at c2
  try simp [x, st2, cpCond, cpBody, delPost, gomini, encS, b1, b2, b3, b4] at c3
  try simp [x, st2, cpCond, cpBody, delPost, gomini, encS, b1, b2, b3, b4] at d1
  try simp [x, st2, cpCond, cpBody, delPost, gomini, encS, b1, b2, b3, b4] at d2
  try simp [x, st2, cpCond, cpBody, delPost, gomini, encS, b1, b2, b3, b4] at d3
  try simp [x, st2, cpCond, cpBody, delPost, gomini, encS, b1, b2, b3, b4] at d4
  try simp [x, st2, cpCond, cpBody, delPost, gomini, encS, b1, b2, b3, b4] at d5
  try simp [x, st4, stS, scCond, scBody, scPost, gomini, encS, newSegV] at e1
  try simp [st4, stS, gomini, encS, c3, a3] at e2
  try simp [st4, stS, gomini, encS, newSegV, d1, d2, d3, d4, d5, c2] at f1
  try simp [st4, stS, gomini, encS, newSegV, d1, d2, d3, d4, d5, c2] at f2
  try simp [st4, stS, gomini, encS, newSegV, d1, d2, d3, d4, d5, c2] at f3
  try simp [st4, stS, gomini, encS, newSegV, d1, d2, d3, d4, d5, c2] at f4
  try simp [st4, stS, gomini, encS, newSegV, d1, d2, d3, d4, d5, c2] at f5
  try simp [st4, stS, gomini, encS, newSegV, d1, d2, d3, d4, d5, c2] at f6
  have hscan0 : (match msgs[0]? with
      | some o => some (Val.tup [encMs o, encE o, Val.nil])
      | none => some (Val.tup [Val.nil, Val.nil, Val.str "EOF"])) = some (Val.tup [hMs msgs, hE msgs, hErr msgs]) := by
    cases msgs <;> simp [hMs, hE, hErr]
  simp [runG, fn_commitLog_Truncate, gomini, -exec_forC, exec_forC_some, trView, encL, lookup, getField, truthy, builtin, binInt, assignAll, assignTo, truncExt, encS,
    a1, a2, a3, b1, b2, b3, b4, hb, lenOf, hmk1, hmk2, c1, c2, c3, d1, d2, d3, d4, d5, hsc0, hscan0, e1, e2, f1, f2, f3, f4, f5, f6]
  simp [replaceTrace, isTr, newSegV, List.filter_append, List.filter_replicate, encS]

set_option maxRecDepth 16000 in
set_option maxHeartbeats 8000000 in
/-- the offset lies in the FIRST segment - anywhere in it, its base offset included: the first segment is never deleted, it is replaced
by its truncated copy (an empty one when the offset is its base offset and offsets increase) -/
theorem go_Truncate_first (pre : List Int) (b : Int) (post : List Int) (msgs : List Int) (offset : Int)
    (hp : pre = []) :
    trView (runG prog (truncExt (.tup [encS b, .int pre.length]) msgs) ((pre ++ b :: post).length + msgs.length + 14) "Truncate"
        (some (encL (pre ++ b :: post))) [.int offset] []) =
      some ([.nil], replaceTrace post b offset msgs, some (.list (pre.map encS ++ [newSegV]))) := by
  have hpT : (pre = []) = True := eq_true hp
  simp only [List.length_append, List.length_cons]
  let x : Ext := truncExt (.tup [encS b, .int pre.length]) msgs
  let segsV : Val := .list (List.map encS pre ++ encS b :: List.map encS post)
  let lV : Val := .struct [("segments", segsV), ("leaderEpochCache", .struct [("kind", .str "epochs")])]
  let st0 : St := ((((({ env := envOf [("l", lV), ("offset", .int offset)], eff := [] } : St).log "findSegment" [segsV, .int offset]).set "seg" (encS b)).set
      "idx" (.int pre.length)).set "deleted" (.int 0)).set "i" (.int ((pre.length : Int) + 1))
  obtain ⟨st1, a1, a2, a3, a4⟩ := del_loop (pre.length + (post.length + 1) + msgs.length + 3) x (delOk_truncExt _ _) (pre ++ b :: post)
    post.length (pre.length + 1) (pre.length + (post.length + 1) + msgs.length + 13) st0 0 (by simp; omega) (by omega)
    (by simp [st0, gomini]) (by simp [st0, gomini, St.log, envOf, lookup, lV, segsV, encL]) (by simp [st0, gomini])
  have b1 := a4 "seg" (by decide) (by decide) (by decide)
  have b2 := a4 "idx" (by decide) (by decide) (by decide)
  have b3 := a4 "offset" (by decide) (by decide) (by decide)
  have b4 := a4 "l" (by decide) (by decide) (by decide)
  have b2' := b2
  have b4' := b4
  have a3' := a3
  have hmk1 : ¬ ((pre.length : Int) + ((post.length : Int) + 1) - (post.length : Int) < 0) := by omega
  have hmk2 : ((pre.length : Int) + ((post.length : Int) + 1)).toNat - post.length = pre.length + 1 := by omega
  let st2 : St := (((st1.set "replace" (.bool false)).set "replace" (.bool true)).set "segments" (.list (List.replicate (pre.length + 1) .nil))).set "i" (.int 0)
  obtain ⟨st3, c1, c2, c3, c4⟩ := copy_loop (pre.length + (post.length + 1) + msgs.length + 3) x (pre ++ b :: post) pre.length (pre.length + 1)
    (by simp) (by omega) pre.length 0 (pre.length + (post.length + 1) + msgs.length + 13) st2 (by omega) (by omega)
    (by simp [st2, gomini]) (by simp [st2, gomini, b2', st0]) (by simp [st2, gomini, b4', st0, lV, segsV, encL, St.log, envOf, lookup])
    (by simp [st2, gomini])
  have c3' := c3
  have d1 := c4 "seg" (by decide) (by decide)
  have d2 := c4 "idx" (by decide) (by decide)
  have d3 := c4 "offset" (by decide) (by decide)
  have d4 := c4 "l" (by decide) (by decide)
  have d5 := c4 "replace" (by decide) (by decide)
  try simp [x, st0, lV, segsV, delCond, delBody, delPost, gomini, envOf, lookup, encS] at a1
  try simp [x, st0, lV, segsV, delCond, delBody, delPost, gomini, envOf, lookup, encS] at a2
  try simp [x, st0, lV, segsV, delCond, delBody, delPost, gomini, envOf, lookup, encS] at a3
  try simp [x, st0, lV, segsV, delCond, delBody, delPost, gomini, envOf, lookup, encS] at b1
  try simp [x, st0, lV, segsV, delCond, delBody, delPost, gomini, envOf, lookup, encS] at b2
  try simp [x, st0, lV, segsV, delCond, delBody, delPost, gomini, envOf, lookup, encS] at b3
  try simp [x, st0, lV, segsV, delCond, delBody, delPost, gomini, envOf, lookup, encS] at b4
  try simp [x, st2, cpCond, cpBody, delPost, gomini, encS, b1, b2, b3, b4] at c1
  try simp [x, st2, cpCond, cpBody, delPost, gomini, encS, b1, b2, b3, b4] at c2
  try simp [x, st2, cpCond, cpBody, delPost, gomini, encS, b1, b2, b3, b4] at c3
  try simp [x, st2, cpCond, cpBody, delPost, gomini, encS, b1, b2, b3, b4] at d1
  try simp [x, st2, cpCond, cpBody, delPost, gomini, encS, b1, b2, b3, b4] at d2
  try simp [x, st2, cpCond, cpBody, delPost, gomini, encS, b1, b2, b3, b4] at d3
  try simp [x, st2, cpCond, cpBody, delPost, gomini, encS, b1, b2, b3, b4] at d4
  try simp [x, st2, cpCond, cpBody, delPost, gomini, encS, b1, b2, b3, b4] at d5
  have hst3 : scans st3.eff = 0 := by
    rw [c3']; simp [st2, gomini, a3', st0, scans, List.filter_append, List.filter_replicate]
  let stS : St := (((((st3.log "newSegmentScanner" [encS b]).set "ss" (.struct [("kind", .str "scanner")])).log "Truncated" []).set "newSegment" newSegV).set "err" .nil).log "Scan" []
  let st4 : St := ((stS.set "ms" (hMs msgs)).set "e" (hE msgs)).set "err·1" (hErr msgs)
  obtain ⟨st5, e1, e2, e3⟩ := scan_loop (pre.length + (post.length + 1) + msgs.length) (.tup [encS b, .int pre.length]) msgs offset msgs [] 
    (pre.length + (post.length + 1) + msgs.length + 12) st4 (by simp) (by omega)
    (by
      have he : st4.eff = st3.eff ++ [("newSegmentScanner", [encS b]), ("Truncated", []), ("Scan", [])] := by simp [st4, stS, gomini]
      rw [he, scans_append, hst3]; simp [scans])
    ⟨by simp [st4, gomini], by simp [st4, gomini], by simp [st4, gomini], by simp [st4, stS, gomini, d3, st2, b3, st0, envOf, lookup],
     by simp [st4, stS, gomini, newSegV], by simp [st4, stS, gomini]⟩
  have f1 := e3 "seg" (by decide) (by decide) (by decide) (by decide)
  have f2 := e3 "idx" (by decide) (by decide) (by decide) (by decide)
  have f3 := e3 "offset" (by decide) (by decide) (by decide) (by decide)
  have f4 := e3 "l" (by decide) (by decide) (by decide) (by decide)
  have f5 := e3 "segments" (by decide) (by decide) (by decide) (by decide)
  have f6 := e3 "newSegment" (by decide) (by decide) (by decide) (by decide)
  have hsc0 : scans (("findSegment", [Val.list (List.map encS pre ++ Val.struct [("BaseOffset", Val.int b)] :: List.map encS post), Val.int offset]) ::
      (List.replicate post.length ("Delete", []) ++ [("newSegmentScanner", [Val.struct [("BaseOffset", Val.int b)]]), ("Truncated", [])])) = 0 := by
    simp [scans, List.filter_append, List.filter_replicate]
  try simp [x, st0, lV, segsV, delCond, delBody, delPost, gomini, envOf, lookup, encS] at a1
  try simp [x, st0, lV, segsV, delCond, delBody, delPost, gomini, envOf, lookup, encS] at a2
  try simp [x, st0, lV, segsV, delCond, delBody, delPost, gomini, envOf, lookup, encS] at a3
  try simp [x, st0, lV, segsV, delCond, delBody, delPost, gomini, envOf, lookup, encS] at b1
  try simp [x, st0, lV, segsV, delCond, delBody, delPost, gomini, envOf, lookup, encS] at b2
  try simp [x, st0, lV, segsV, delCond, delBody, delPost, gomini, envOf, lookup, encS] at b3
  try simp [x, st0, lV, segsV, delCond, delBody, delPost, gomini, envOf, lookup, encS] at b4
  try simp [x, st2, cpCond, cpBody, delPost, gomini, encS, b1, b2, b3, b4] at c1
  try simp [x, st2, cpCond, cpBody, delPost, gomini, encS, b1, b2, b3, b4] at c2
  try simp [x, st2, cpCond, cpBody, delPost, gomini, encS, b1, b2, b3, b4] at c3
  try simp [x, st2, cpCond, cpBody, delPost, gomini, encS, b1, b2, b3, b4] at d1
  try simp [x, st2, cpCond, cpBody, delPost, gomini, encS, b1, b2, b3, b4] at d2
  try simp [x, st2, cpCond, cpBody, delPost, gomini, encS, b1, b2, b3, b4] at d3
  try simp [x, st2, cpCond, cpBody, delPost, gomini, encS, b1, b2, b3, b4] at d4
  try simp [x, st2, cpCond, cpBody, delPost, gomini, encS, b1, b2, b3, b4] at d5
  try simp [x, st4, stS, scCond, scBody, scPost, gomini, encS, newSegV] at e1
  try simp [st4, stS, gomini, encS, c3, a3] at e2
  try simp [st4, stS, gomini, encS, newSegV, d1, d2, d3, d4, d5, c2] at f1
  try simp [st4, stS, gomini, encS, newSegV, d1, d2, d3, d4, d5, c2] at f2
  try simp [st4, stS, gomini, encS, newSegV, d1, d2, d3, d4, d5, c2] at f3
  try simp [st4, stS, gomini, encS, newSegV, d1, d2, d3, d4, d5, c2] at f4
  try simp [st4, stS, gomini, encS, newSegV, d1, d2, d3, d4, d5, c2] at f5
  try simp [st4, stS, gomini, encS, newSegV, d1, d2, d3, d4, d5, c2] at f6
  have hscan0 : (match msgs[0]? with
      | some o => some (Val.tup [encMs o, encE o, Val.nil])
      | none => some (Val.tup [Val.nil, Val.nil, Val.str "EOF"])) = some (Val.tup [hMs msgs, hE msgs, hErr msgs]) := by
    cases msgs <;> simp [hMs, hE, hErr]
  simp [runG, fn_commitLog_Truncate, gomini, -exec_forC, exec_forC_some, trView, encL, lookup, getField, truthy, builtin, binInt, assignAll, assignTo, truncExt, encS,
    a1, a2, a3, b1, b2, b3, b4, hpT, lenOf, hmk1, hmk2, c1, c2, c3, d1, d2, d3, d4, d5, hsc0, hscan0, e1, e2, f1, f2, f3, f4, f5, f6]
  simp [replaceTrace, isTr, newSegV, List.filter_append, List.filter_replicate, encS]


/-- the calls of `Truncate` when the offset is the base offset of a segment that is not the first: that segment goes too -/
def dropTrace (pl : Int) (post : List Int) (offset : Int) : List (String × List Val) :=
  List.replicate (post.length + 1) ("Delete", []) ++
    [("atomic.StorePointer", [.str "l.vActiveSegment", encS pl]), ("ClearLatest", [.int offset])]

set_option maxRecDepth 16000 in
set_option maxHeartbeats 8000000 in
/-- the offset is the base offset of a segment that is not the first (`init ++ [pl]` lie in front of it): that segment and every
later one are deleted, nothing is copied, the log ends with `pl`, which becomes the active segment -/
theorem go_Truncate_drop (init : List Int) (pl b : Int) (post : List Int) (msgs : List Int) :
    trView (runG prog (truncExt (.tup [encS b, .int (init ++ [pl]).length]) msgs) (((init ++ [pl]) ++ b :: post).length + msgs.length + 14) "Truncate"
        (some (encL ((init ++ [pl]) ++ b :: post))) [.int b] []) =
      some ([.nil], dropTrace pl post b, some (.list ((init ++ [pl]).map encS))) := by
  generalize hpre : init ++ [pl] = pre
  have hne : pre ≠ [] := by rw [← hpre]; simp
  have hlastP : pre.getLast? = some pl := by rw [← hpre]; simp
  simp only [List.length_append, List.length_cons]
  let x : Ext := truncExt (.tup [encS b, .int pre.length]) msgs
  let segsV : Val := .list (List.map encS pre ++ encS b :: List.map encS post)
  let lV : Val := .struct [("segments", segsV), ("leaderEpochCache", .struct [("kind", .str "epochs")])]
  let st0 : St := ((((({ env := envOf [("l", lV), ("offset", .int b)], eff := [] } : St).log "findSegment" [segsV, .int b]).set "seg" (encS b)).set
      "idx" (.int pre.length)).set "deleted" (.int 0)).set "i" (.int ((pre.length : Int) + 1))
  obtain ⟨st1, a1, a2, a3, a4⟩ := del_loop (pre.length + (post.length + 1) + msgs.length + 3) x (delOk_truncExt _ _) (pre ++ b :: post)
    post.length (pre.length + 1) (pre.length + (post.length + 1) + msgs.length + 13) st0 0 (by simp; omega) (by omega)
    (by simp [st0, gomini]) (by simp [st0, gomini, St.log, envOf, lookup, lV, segsV, encL]) (by simp [st0, gomini])
  have b1 := a4 "seg" (by decide) (by decide) (by decide)
  have b2 := a4 "idx" (by decide) (by decide) (by decide)
  have b3 := a4 "offset" (by decide) (by decide) (by decide)
  have b4 := a4 "l" (by decide) (by decide) (by decide)
  have b2' := b2
  have b4' := b4
  have hne0 : ¬ ((pre.length : Int) = 0) := by
    intro h; apply hne; exact List.eq_nil_of_length_eq_zero (by omega)
  have hmk1 : ¬ ((pre.length : Int) + ((post.length : Int) + 1) - ((post.length : Int) + 1) < 0) := by omega
  have hmk2 : ((pre.length : Int) + ((post.length : Int) + 1)).toNat - (post.length + 1) = pre.length := by omega
  let st2 : St := ((((((st1.set "replace" (.bool false)).log "Delete" []).set "err" .nil).set "deleted" (.int ((post.length : Int) + 1))).set "segments"
      (.list (List.replicate pre.length .nil))).set "i" (.int 0))
  obtain ⟨st3, c1, c2, c3, c4⟩ := copy_loop (pre.length + (post.length + 1) + msgs.length + 3) x (pre ++ b :: post) pre.length pre.length
    (by simp) (by omega) pre.length 0 (pre.length + (post.length + 1) + msgs.length + 13) st2 (by omega) (by omega)
    (by simp [st2, gomini]) (by simp [st2, gomini, b2', st0]) (by simp [st2, gomini, b4', st0, lV, segsV, encL, St.log, envOf, lookup])
    (by simp [st2, gomini])
  have d3 := c4 "offset" (by decide) (by decide)
  have d4 := c4 "l" (by decide) (by decide)
  have d5 := c4 "replace" (by decide) (by decide)
  have hlastV : pre[pre.length - 1]? = some pl := by
    rw [← hpre]; simp
  have hpos : 0 < pre.length := by rw [← hpre]; simp
  have hnn1 : ¬ ((pre.length : Int) - 1 < 0) := by omega
  try simp [x, st0, lV, segsV, delCond, delBody, delPost, gomini, envOf, lookup, encS] at a1
  try simp [x, st0, lV, segsV, delCond, delBody, delPost, gomini, envOf, lookup, encS] at a2
  try simp [x, st0, lV, segsV, delCond, delBody, delPost, gomini, envOf, lookup, encS] at a3
  try simp [x, st0, lV, segsV, delCond, delBody, delPost, gomini, envOf, lookup, encS] at b1
  try simp [x, st0, lV, segsV, delCond, delBody, delPost, gomini, envOf, lookup, encS] at b2
  try simp [x, st0, lV, segsV, delCond, delBody, delPost, gomini, envOf, lookup, encS] at b3
  try simp [x, st0, lV, segsV, delCond, delBody, delPost, gomini, envOf, lookup, encS] at b4
  try simp [x, st2, cpCond, cpBody, delPost, gomini, encS, b1, b2, b3, b4] at c1
  try simp [x, st2, cpCond, cpBody, delPost, gomini, encS, b1, b2, b3, b4] at c2
  try simp [x, st2, cpCond, cpBody, delPost, gomini, encS, b1, b2, b3, b4, a3] at c3
  try simp [x, st2, cpCond, cpBody, delPost, gomini, encS, b1, b2, b3, b4] at d3
  try simp [x, st2, cpCond, cpBody, delPost, gomini, encS, b1, b2, b3, b4] at d4
  try simp [x, st2, cpCond, cpBody, delPost, gomini, encS, b1, b2, b3, b4] at d5
  simp [runG, fn_commitLog_Truncate, gomini, -exec_forC, exec_forC_some, trView, encL, lookup, getField, truthy, builtin, binInt, assignAll, assignTo, truncExt, encS,
    a1, a2, a3, b1, b2, b3, b4, lenOf, hne0, hne, hmk1, hmk2, c1, c2, c3, d3, d4, d5, hlastV, hnn1, -getElem?_pos]
  simp [dropTrace, isTr, List.filter_append, List.filter_replicate, encS, List.replicate_succ', List.append_assoc]

/-- what gets written: the longest prefix of the segment's messages below the offset -/
theorem copied_writes (offset : Int) (msgs : List Int) :
    ((copied offset msgs).filter fun e => e.1 = "WriteMessageSet") =
      (msgs.takeWhile fun o => decide (o < offset)).map fun o => ("WriteMessageSet", [encMs o, .list [encE o]]) := by
  induction msgs with
  | nil => simp [copied]
  | cons o rest ih =>
    by_cases h : o < offset
    · simp [copied, h, List.takeWhile_cons, ih]
    · simp [copied, h, List.takeWhile_cons]

/-- non-vacuity: segments with bases 0, 10, 20, 30; offset 23 lies in the third, which holds 20..25: the fourth segment is deleted,
20, 21, 22 are copied, the log ends with the copy -/
example : replaceTrace [30] 20 23 [20, 21, 22, 23, 24, 25] =
    [("Delete", []), ("Truncated", []),
     ("WriteMessageSet", [encMs 20, .list [encE 20]]), ("WriteMessageSet", [encMs 21, .list [encE 21]]), ("WriteMessageSet", [encMs 22, .list [encE 22]]),
     ("Replace", [encS 20]), ("atomic.StorePointer", [.str "l.vActiveSegment", newSegV]), ("ClearLatest", [.int 23])] := by
  simp [replaceTrace, copied, isTr]

end Liftbridge.Props.GoTruncate
