/-
C13 — Only one member of a consumer group consumes a partition at a time.

Theorems about `Liftbridge.GroupSub` (small-step model of `partition.Subscribe` /
`subscription.Close` / the subscribe-loop goroutine's deferred `removeGroupSubscriber` in
server/partition.go) for EVERY interleaving — every finite list of steps from the empty
partition: group subscribes with any epochs and any (same or different) consumer ids, in any of
the three outcomes of the non-modelled part of `Subscribe` (accepted / start-stop validation
fails / reader creation fails after the previous subscriber was closed), client cancellations,
loop exits of cancelled and of never-cancelled subscriptions, non-group subscriptions mixed in.
Proved by induction over the step list with the invariants of `Proofs/GroupSub.lean`.

The model evaluates its two decision points through `Gen.GroupSub` (regenerated from the source
on every run): the refusal comparison `existing.groupEpoch > groupEpoch` and WHAT
`removeGroupSubscriber` compares. The theorems about `Cfg.current` need the clean-up to compare the
SUBSCRIPTION (fixes/C13-cleanup-by-subscription.diff). On a tree where it compares consumer ids
this file does not build — and the statements are then really false: see the frozen
`…_preFix_false` theorems below (configuration `Cfg.preFix`, independent of `Gen`), whose witness
is replayed on the real code by the harness (corpus/C13/cleanup-by-consumer-id.ops, tag
`group-sub-cleanup-by-consumer-id`).

Only property statements here; lemmas are in `Liftbridge/Proofs/GroupSub.lean`.
-/
import Liftbridge.Model.GroupSub
import Liftbridge.Proofs.GroupSub

namespace Liftbridge.Props.C13
open Liftbridge Liftbridge.GroupSub Liftbridge.Proofs.GroupSub

/-! Shape of the Go source the model relies on without evaluating it through `Gen` (a change
breaks the build of this file and thereby the check): one mutex section from the look-up to the
return of `Subscribe`; an accepted subscriber always replaces whoever is registered; the previous
subscription is closed iff there was one; registration under `groupID != ""` with
{consumerID, groupEpoch, sub}; statement order refusal < validation < Close(previous) < reader
creation < loop start < registration; the loop defers the clean-up under `groupID != ""` before
its read loop and hands over what the clean-up compares; the clean-up runs under the mutex. -/
example : Gen.GroupSub.subscribeLocked = true := rfl
example : Gen.GroupSub.replaceAny = true := rfl
example : Gen.GroupSub.closePrevious = true := rfl
example : Gen.GroupSub.registerGuarded = true := rfl
example : Gen.GroupSub.orderOk = true := rfl
example : Gen.GroupSub.cleanupDeferred = true := rfl
example : Gen.GroupSub.cleanupArgMatches = true := rfl
example : Gen.GroupSub.cleanupLocked = true := rfl

/-- The partition after an arbitrary interleaving. -/
abbrev reach (cfg : Cfg) (steps : List Step) : State := run cfg State.empty steps

/-! ## Full-strength statements, for a configuration `cfg` of the two decision points -/

/-- At any moment at most one subscription per consumer group is active. -/
def AtMostOneActive (cfg : Cfg) : Prop :=
  ∀ (steps : List Step) (g : String), g ≠ "" → (activeOf (reach cfg steps) g).length ≤ 1

/-- An active group subscription is the registered member of its group — with exactly its
consumer id, epoch and subscription. -/
def ActiveIsRegistered (cfg : Cfg) : Prop :=
  ∀ (steps : List Step), ∀ l ∈ (reach cfg steps).loops, l.group ≠ "" → l.active = true →
    lookup l.group (reach cfg steps).consumers = some ⟨l.consumer, l.epoch, l.subId⟩

/-- A registered member names a subscription of that group, consumer id and epoch whose loop has
not exited (its clean-up is still to come): no stale entries, no entry for the empty group id. -/
def RegisteredIsLive (cfg : Cfg) : Prop :=
  ∀ (steps : List Step) (g : String) (m : Member), lookup g (reach cfg steps).consumers = some m →
    g ≠ "" ∧ ∃ l ∈ (reach cfg steps).loops,
      l.subId = m.subId ∧ l.group = g ∧ l.consumer = m.consumer ∧ l.epoch = m.epoch ∧ l.exited = false

/-- A subscriber carrying an older epoch than the group's active subscription is refused and
NOTHING changes (whatever else is wrong or right with its request). -/
def OlderRefusedUntouched (cfg : Cfg) : Prop :=
  ∀ (steps : List Step) (g c : String) (e : Nat) (o : Outcome), g ≠ "" →
    ∀ l ∈ activeOf (reach cfg steps) g, e < l.epoch →
      step cfg (reach cfg steps) (.subscribe g c e o) = (reach cfg steps, .refused)

/-- A valid subscriber with an equal or newer epoch than the group's active subscription is
accepted, registered, is afterwards the ONLY active subscription of the group, and the previous
one is closed. -/
def NewerReplaces (cfg : Cfg) : Prop :=
  ∀ (steps : List Step) (g c : String) (e : Nat), g ≠ "" →
    ∀ l ∈ activeOf (reach cfg steps) g, l.epoch ≤ e →
      let s := reach cfg steps
      let r := step cfg s (.subscribe g c e .ok)
      r.2 = .sub s.loops.length ∧
      activeOf r.1 g = [⟨s.loops.length, g, c, e, false, false⟩] ∧
      lookup g r.1.consumers = some ⟨c, e, s.loops.length⟩ ∧
      ∀ l' ∈ r.1.loops, l'.subId = l.subId → l'.cancelled = true

/-! ## The code as it is (after the repair) -/

/-- Tie: the clean-up of the current source compares the subscription. Fails to build on a tree
where `removeGroupSubscriber` compares consumer ids. -/
theorem current_cleanup_by_subscription : Cfg.current.bySub = true := rfl

/-- Tie: the current source refuses exactly `existing.groupEpoch > groupEpoch`. -/
theorem current_refuses_older : Cfg.current.refuse = .gt := rfl

private theorem good_current (steps : List Step) : Good Cfg.current (reach Cfg.current steps) :=
  good_run_bySub _ current_cleanup_by_subscription steps _ (good_empty _)

/-- **C13.** After ANY interleaving of subscribes, cancellations and loop exits, every consumer
group has at most one active subscription on the partition. -/
theorem at_most_one_active : AtMostOneActive Cfg.current := by
  intro steps g hg
  have h := good_current steps
  exact atMostOne_of_reg h.inv h.reg g hg

/-- After any interleaving every active group subscription is the registered member of its
group (same consumer id, epoch, subscription): the next subscriber will find it. -/
theorem active_is_registered : ActiveIsRegistered Cfg.current := by
  intro steps l hl hg ha
  have h := good_current steps
  exact registered_exact h.inv h.reg hl hg ha

/-- After any interleaving a registered member names a loop that has not exited — holds whatever
the clean-up compares (`registered_is_live_any`). -/
theorem registered_is_live : RegisteredIsLive Cfg.current := by
  intro steps g m hm
  have h := inv_run Cfg.current steps _ inv_empty
  refine ⟨?_, h.live g m hm⟩
  intro hg
  rw [hg, h.noEmpty] at hm
  cases hm

/-- An older epoch than the active subscription's is refused and changes nothing. -/
theorem older_refused_untouched : OlderRefusedUntouched Cfg.current := by
  intro steps g c e o hg l hl he
  have h := good_current steps
  exact older_refused_of_good current_refuses_older h.inv h.reg hl hg c he o

/-- An equal or newer epoch replaces: previous closed, new one registered and alone. -/
theorem newer_replaces : NewerReplaces Cfg.current := by
  intro steps g c e hg l hl he
  have h := good_current steps
  exact newer_replaces_of_good current_refuses_older h.inv h.reg hl hg c he

/-- `refused` is answered exactly when a member with a strictly newer epoch is registered
(by `registered_is_live` that member's loop is still running: a closed-but-not-yet-exited
subscription keeps fencing older epochs until its loop ends). In particular a group without a
registered member accepts any epoch. -/
theorem refused_iff (steps : List Step) (g c : String) (e : Nat) (o : Outcome) (hg : g ≠ "") :
    (step Cfg.current (reach Cfg.current steps) (.subscribe g c e o)).2 = .refused ↔
      ∃ ex, lookup g (reach Cfg.current steps).consumers = some ex ∧ e < ex.epoch :=
  refused_iff_of_gt current_refuses_older _ g c e o hg

/-- A subscribe on group `g` (accepted, refused or failed) neither changes the registration nor
the active subscriptions of any other group. -/
theorem other_groups_untouched (steps : List Step) (g c : String) (e : Nat) (o : Outcome)
    (g' : String) (hne : g' ≠ g) :
    let s := reach Cfg.current steps
    let r := step Cfg.current s (.subscribe g c e o)
    lookup g' r.1.consumers = lookup g' s.consumers ∧ activeOf r.1 g' = activeOf s g' :=
  subscribe_frame _ (inv_run _ steps _ inv_empty) g c e o g' hne

/-- The two failure outcomes of the non-modelled part of `Subscribe`, as the code orders them:
a validation failure changes nothing; a reader-creation failure has already closed the previous
subscriber (and only that: the registration is unchanged, nobody new is active). -/
theorem failed_subscribe_effects (s : State) (g c : String) (e : Nat) :
    ((step Cfg.current s (.subscribe g c e .early)).1 = s) ∧
    ((step Cfg.current s (.subscribe g c e .late)).1.consumers = s.consumers) ∧
    (∀ g', (activeOf (step Cfg.current s (.subscribe g c e .late)).1 g').length ≤
            (activeOf s g').length) := by
  refine ⟨?_, ?_, ?_⟩
  · simp only [step]
    rcases subscribe_cases Cfg.current s g c e .early with ⟨_, hs⟩ | ⟨_, ⟨_, hs⟩ | ⟨h, _⟩ | ⟨h, _⟩⟩
    · rw [hs]
    · rw [hs]
    · cases h
    · cases h
  · simp only [step]
    rcases subscribe_cases Cfg.current s g c e .late with ⟨_, hs⟩ | ⟨_, ⟨h, _⟩ | ⟨_, hs⟩ | ⟨h, _⟩⟩
    · rw [hs]
    · cases h
    · rw [hs, closePrev_consumers]
    · cases h
  · intro g'
    simp only [step]
    rcases subscribe_cases Cfg.current s g c e .late with ⟨_, hs⟩ | ⟨_, ⟨h, _⟩ | ⟨_, hs⟩ | ⟨h, _⟩⟩
    · rw [hs]; exact Nat.le_refl _
    · cases h
    · rw [hs]
      exact activeOf_closePrev_le s _ g'
    · cases h

/-- "Registered ⇒ ACTIVE" cannot be claimed: `Close()` by the client and the loop's clean-up are
two steps, in between the closed subscription is still registered (it is live, not active). -/
def registered_is_active_asStated : Prop :=
  ∀ (steps : List Step) (g : String) (m : Member),
    lookup g (reach Cfg.current steps).consumers = some m →
      ∃ l ∈ activeOf (reach Cfg.current steps) g, l.subId = m.subId

theorem registered_is_active_asStated_false : ¬ registered_is_active_asStated := by
  intro h
  have := h [.subscribe "g" "A" 1 .ok, .cancel 0] "g" ⟨"A", 1, 0⟩ (by decide)
  revert this
  decide

/-! ## Whatever the clean-up compares -/

/-- No stale or empty-group entries, for every configuration of the two decision points. -/
theorem registered_is_live_any (cfg : Cfg) : RegisteredIsLive cfg := by
  intro steps g m hm
  have h := inv_run cfg steps _ inv_empty
  refine ⟨?_, h.live g m hm⟩
  intro hg
  rw [hg, h.noEmpty] at hm
  cases hm

/-- Subscription ids are handed out once: the loops of a reachable state have distinct ids. -/
theorem subscription_ids_distinct (cfg : Cfg) (steps : List Step) :
    ∀ a ∈ (reach cfg steps).loops, ∀ b ∈ (reach cfg steps).loops, a.subId = b.subId → a = b :=
  eq_of_subId_eq (inv_run cfg steps _ inv_empty).nodup

/-! ## The code before the repair (frozen: `Cfg.preFix` = `>` and clean-up by consumer id) -/

/-- F-C13-a. Consumer A subscribes with epoch 5 (s0), re-subscribes with epoch 6 (s1; s0 is
closed), then the loop of s0 ends: its clean-up finds an entry of consumer A and deletes it —
the entry of s1. Then consumer B with the OLDER epoch 1 finds no entry and is accepted. -/
def witness : List Step :=
  [.subscribe "g" "A" 5 .ok, .subscribe "g" "A" 6 .ok, .loopExit 0, .subscribe "g" "B" 1 .ok]

/-- The witness, state by state, on the pre-fix configuration: after the third step s1 is active
and unregistered; after the fourth s1 (A, epoch 6) and s2 (B, epoch 1) are both active. -/
theorem preFix_witness_trace :
    (activeOf (reach Cfg.preFix (witness.take 2)) "g").map Loop.subId = [1] ∧
    lookup "g" (reach Cfg.preFix (witness.take 2)).consumers = some ⟨"A", 6, 1⟩ ∧
    (activeOf (reach Cfg.preFix (witness.take 3)) "g").map Loop.subId = [1] ∧
    lookup "g" (reach Cfg.preFix (witness.take 3)).consumers = none ∧
    (step Cfg.preFix (reach Cfg.preFix (witness.take 3)) (.subscribe "g" "B" 1 .ok)).2 = .sub 2 ∧
    (activeOf (reach Cfg.preFix witness) "g").map (fun l => (l.subId, l.consumer, l.epoch)) =
      [(2, "B", 1), (1, "A", 6)] := by
  decide

/-- With the clean-up by consumer id two members of a group consume the partition at once. -/
theorem at_most_one_active_preFix_false : ¬ AtMostOneActive Cfg.preFix := by
  intro h
  have := h witness "g" (by decide)
  revert this
  decide

theorem active_is_registered_preFix_false : ¬ ActiveIsRegistered Cfg.preFix := by
  intro h
  have := h (witness.take 3) ⟨1, "g", "A", 6, false, false⟩ (by decide) (by decide) (by decide)
  revert this
  decide

theorem older_refused_untouched_preFix_false : ¬ OlderRefusedUntouched Cfg.preFix := by
  intro h
  have := h (witness.take 3) "g" "B" 1 .ok (by decide) ⟨1, "g", "A", 6, false, false⟩ (by decide)
    (by decide)
  revert this
  decide

/-- …and a NEWER subscriber no longer closes the active one either. -/
theorem newer_replaces_preFix_false : ¬ NewerReplaces Cfg.preFix := by
  intro h
  have := (h (witness.take 3) "g" "B" 7 (by decide) ⟨1, "g", "A", 6, false, false⟩ (by decide)
    (by decide)).2.1
  revert this
  decide

/-- The same four steps on the repaired configuration: the entry of s1 survives the exit of s0
and B's older epoch is refused. (Non-vacuity of the hypotheses of `older_refused_untouched`.) -/
example :
    lookup "g" (reach ⟨.gt, true⟩ (witness.take 3)).consumers = some ⟨"A", 6, 1⟩ ∧
    (step ⟨.gt, true⟩ (reach ⟨.gt, true⟩ (witness.take 3)) (.subscribe "g" "B" 1 .ok)).2 = .refused ∧
    (activeOf (reach ⟨.gt, true⟩ witness) "g").map Loop.subId = [1] := by
  decide

/-- Strongest true variant for the pre-fix code: as long as a consumer id never subscribes again
in a group while a loop of its earlier subscription in that group is still running, every
statement above holds. (The official client violates the hypothesis on every group epoch change:
it cancels and re-subscribes with the SAME consumer id without waiting for the old loop.) -/
theorem at_most_one_active_preFix_partial (steps : List Step)
    (h : NoLiveReuse Cfg.preFix State.empty steps) (g : String) (hg : g ≠ "") :
    (activeOf (reach Cfg.preFix steps) g).length ≤ 1 := by
  have hgood := good_run_noLiveReuse Cfg.preFix steps _ (good_empty _) h
  exact atMostOne_of_reg hgood.inv hgood.reg g hg

theorem active_is_registered_preFix_partial (steps : List Step)
    (h : NoLiveReuse Cfg.preFix State.empty steps) :
    ∀ l ∈ (reach Cfg.preFix steps).loops, l.group ≠ "" → l.active = true →
      lookup l.group (reach Cfg.preFix steps).consumers = some ⟨l.consumer, l.epoch, l.subId⟩ := by
  intro l hl hg ha
  have hgood := good_run_noLiveReuse Cfg.preFix steps _ (good_empty _) h
  exact registered_exact hgood.inv hgood.reg hl hg ha

theorem older_refused_untouched_preFix_partial (steps : List Step)
    (h : NoLiveReuse Cfg.preFix State.empty steps) (g c : String) (e : Nat) (o : Outcome)
    (hg : g ≠ "") (l : Loop) (hl : l ∈ activeOf (reach Cfg.preFix steps) g) (he : e < l.epoch) :
    step Cfg.preFix (reach Cfg.preFix steps) (.subscribe g c e o) = (reach Cfg.preFix steps, .refused) := by
  have hgood := good_run_noLiveReuse Cfg.preFix steps _ (good_empty _) h
  exact older_refused_of_good rfl hgood.inv hgood.reg hl hg c he o

/-- Simplest sufficient condition: the (group, consumer id) pairs of all subscribe steps are
pairwise distinct. -/
theorem at_most_one_active_preFix_partial_distinct_ids (steps : List Step)
    (h : (subscribers steps).Nodup) (g : String) (hg : g ≠ "") :
    (activeOf (reach Cfg.preFix steps) g).length ≤ 1 :=
  at_most_one_active_preFix_partial steps
    (noLiveReuse_of_nodup _ steps _ (by intro l hl; cases hl) h) g hg

/-! ## Non-vacuity -/

/-- The hypotheses of `newer_replaces` / `older_refused_untouched` are satisfiable, and the
hand-over does what they say on a concrete history (two groups, a non-group subscription, a
cancelled-but-running loop, a late failure). -/
example :
    let steps : List Step := [.subscribe "g" "A" 2 .ok, .subscribe "" "X" 0 .ok, .subscribe "h" "A" 1 .ok,
      .subscribe "g" "B" 2 .ok, .subscribe "g" "A" 1 .early, .cancel 3, .subscribe "g" "C" 1 .ok,
      .loopExit 3, .subscribe "g" "C" 1 .ok, .subscribe "h" "B" 1 .late, .loopExit 0]
    let s := reach ⟨.gt, true⟩ steps
    (activeOf s "g").map Loop.subId = [4] ∧ activeOf s "h" = [] ∧
    lookup "g" s.consumers = some ⟨"C", 1, 4⟩ ∧ lookup "h" s.consumers = some ⟨"A", 1, 2⟩ ∧
    (activeOf s "").map Loop.subId = [1] := by
  decide

example : NoLiveReuse Cfg.preFix State.empty
    [.subscribe "g" "A" 5 .ok, .subscribe "g" "B" 6 .ok, .loopExit 0, .subscribe "g" "A" 7 .ok] := by
  decide

example : ¬ NoLiveReuse Cfg.preFix State.empty witness := by decide

end Liftbridge.Props.C13
