/-
C12 at the level of function bodies - the part of `server/groups.go` that is free of shared pointers: the ORDER of the
subscriber heap and a consumer's load counter. `Gen/GoGroups.lean` is regenerated on every run.

* `go_Less`: `consumerHeap.Less(i, j)` for any two consumers = "fewer assigned partitions, ties broken by the smaller
  id" - the order by which `balanceAssignmentsForStream` takes the next holder (`Groups.lean` selects the minimum of
  exactly this order).
* `go_assignPartition`, `go_removeStreamAssignments`: a consumer's `assignedCount` moves by exactly the number of
  partitions added to / dropped from its assignments - the load the order above compares.
(The rebalancing itself walks `container/heap` over consumers shared between several heaps and the member map: pointer
aliasing, outside the embedding. It is tied by regenerated facts and the exhaustive / random correspondence.)
-/
import Liftbridge.Proofs.GoCodeBase
import Liftbridge.Gen.GoGroups

set_option linter.unusedSimpArgs false

namespace Liftbridge.Props.GoGroups
open Liftbridge Liftbridge.GoMini Liftbridge.GoCode
open Liftbridge.Gen.GoGroups

theorem translation_complete : unsupported = [] := rfl

theorem binVal_int (op : String) (a b : Int) : binVal op (Val.int a) (Val.int b) = binInt op a b := rfl
theorem binVal_str_lt (a b : String) : binVal "<" (Val.str a) (Val.str b) = .ok (.bool (decide (a < b))) := by
  simp [binVal]

def encConsumer (id : String) (count : Int) (assignments : List (String × Val)) : Val :=
  .struct [("id", .str id), ("assignedCount", .int count), ("assignments", .struct assignments)]

def boolOf : R Out → Option Bool
  | .ok o => (match o.rets with | [.bool b] => some b | _ => none)
  | _ => none

set_option maxRecDepth 8000 in
/-- the heap order: by load, then by id -/
theorem go_Less (id1 id2 : String) (n1 n2 : Int) (a1 a2 : List (String × Val)) :
    boolOf (runG prog noExt 30 "Less" (some (.list [encConsumer id1 n1 a1, encConsumer id2 n2 a2])) [.int 0, .int 1] []) =
      some (if n1 = n2 then decide (id1 < id2) else decide (n1 < n2)) := by
  by_cases h : n1 = n2
  · subst h
    simp [runG, fn_consumerHeap_Less, prog, gomini, encConsumer, boolOf, binVal_int, binVal_str_lt, binInt, lookup]
  · simp [runG, fn_consumerHeap_Less, prog, gomini, encConsumer, boolOf, binVal_int, binVal_str_lt, binInt, lookup, h]

/-- the consumer after the call: (assignedCount, assignments) -/
def consumerOf : R Out → Option (Val × Val)
  | .ok o => (match o.recv with
      | some (.struct fs) => some ((lookup "assignedCount" fs).getD .nil, (lookup "assignments" fs).getD .nil)
      | _ => none)
  | _ => none

set_option maxRecDepth 8000 in
/-- one more partition of `stream`: appended to that stream's list (created when absent), the counter grows by one -/
theorem go_assignPartition (id stream : String) (n part : Int) (asg : List (String × Val)) (cur : List Val)
    (h : lookup stream asg = some (.list cur) ∨ lookup stream asg = none) :
    consumerOf (runG prog noExt 30 "assignPartition" (some (encConsumer id n asg)) [.str stream, .int part] []) =
      some (.int (n + 1), .struct (update stream (.list ((match lookup stream asg with | some (.list xs) => xs | _ => []) ++ [.int part])) asg)) := by
  rcases h with h | h <;>
    simp [runG, fn_consumer_assignPartition, prog, gomini, encConsumer, consumerOf, builtin, binInt, lookup, update, h, setField, getField, asList]

set_option maxRecDepth 8000 in
/-- all partitions of `stream` dropped: the counter shrinks by their number, the stream's entry is gone -/
theorem go_removeStreamAssignments (id stream : String) (n : Int) (asg : List (String × Val)) (cur : List Val)
    (h : lookup stream asg = some (.list cur) ∨ lookup stream asg = none) :
    consumerOf (runG prog noExt 30 "removeStreamAssignments" (some (encConsumer id n asg)) [.str stream] []) =
      some (.int (n - (match lookup stream asg with | some (.list xs) => (xs.length : Int) | _ => 0)), .struct (eraseKey stream asg)) := by
  rcases h with h | h <;>
    simp [runG, fn_consumer_removeStreamAssignments, prog, gomini, encConsumer, consumerOf, builtin, binInt, lookup, h, lenOf, setField, getField, update]

end Liftbridge.Props.GoGroups
