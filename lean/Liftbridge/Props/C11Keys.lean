/-
C11 is about (cursor id, stream, partition) TRIPLES; the cursors stream stores one record per KEY built by
`cursorManager.getCursorKey` = `fmt.Sprintf("%s,%s,%d", cursorID, streamName, partitionID)` (format string and
argument order regenerated: `Gen.Cursors.keyFormat`). The Cursors model keys its map by the triple, i.e. it ASSUMES
the key function is injective. It is not:

* `key_collision` — two different triples with the same key (replayed on the real server by `TestVerifC11Keys`:
  FetchCursor("a", "b,c", 0) returns what was set for ("a,b", "c", 0)); hence `keys_injective_asStated_false`.
  Recorded as a known finding (`cursor-key-collision`), not repaired: an unambiguous key changes the key of cursors
  already stored under ids or stream names that contain a comma.
* `key_injective_partial` — the assumption does hold for ids and stream names WITHOUT a comma (every partition
  number): for those the model's triple-keyed map is the code's key-keyed record set.
-/
import Liftbridge.Gen.Cursors

namespace Liftbridge.Props.C11Keys
open Liftbridge

/-- the format the theorems are about (a changed format is a broken obligation here) -/
theorem format_is : Gen.Cursors.keyFormat = "%s,%s,%d" := by decide

/-- `fmt.Sprintf("%s,%s,%d", id, stream, part)` on character lists; `digits` = the decimal digits of the partition -/
def key (id stream digits : List Char) : List Char := id ++ [','] ++ stream ++ [','] ++ digits

def keyOf (id stream : String) (part : Nat) : List Char := key id.toList stream.toList (toString part).toList

/-- two different triples, one key -/
theorem key_collision : keyOf "a,b" "c" 0 = keyOf "a" "b,c" 0 ∧ ("a,b", "c") ≠ ("a", "b,c") := by decide

/-- the injectivity the triple-keyed model assumes is false as stated -/
theorem keys_injective_asStated_false :
    ¬ (∀ (i1 s1 i2 s2 : String) (p1 p2 : Nat), keyOf i1 s1 p1 = keyOf i2 s2 p2 → (i1, s1, p1) = (i2, s2, p2)) := by
  intro h
  have := h "a,b" "c" "a" "b,c" 0 0 key_collision.1
  exact absurd this (by decide)

/-- splitting at the first comma is unique when the prefix has none -/
theorem split_first_comma : ∀ (a b x y : List Char), ',' ∉ a → ',' ∉ b → a ++ ',' :: x = b ++ ',' :: y → a = b ∧ x = y
  | [], [], x, y, _, _, h => by simpa using h
  | [], c :: b, x, y, _, hb, h => by
    simp at h
    exact absurd h.1.symm (by intro e; exact hb (by simp [e]))
  | c :: a, [], x, y, ha, _, h => by
    simp at h
    exact absurd h.1 (by intro e; exact ha (by simp [e]))
  | c :: a, d :: b, x, y, ha, hb, h => by
    simp at h
    obtain ⟨hcd, hrest⟩ := h
    have ha' : ',' ∉ a := fun m => ha (List.mem_cons_of_mem _ m)
    have hb' : ',' ∉ b := fun m => hb (List.mem_cons_of_mem _ m)
    obtain ⟨e1, e2⟩ := split_first_comma a b x y ha' hb' hrest
    exact ⟨by rw [hcd, e1], e2⟩

/-- **ids and stream names without a comma: the key determines the triple** (for digit strings without a comma, which
decimal numbers are) -/
theorem key_injective_partial (i1 s1 d1 i2 s2 d2 : List Char)
    (h1 : ',' ∉ i1) (h2 : ',' ∉ s1) (h3 : ',' ∉ i2) (h4 : ',' ∉ s2)
    (h : key i1 s1 d1 = key i2 s2 d2) : i1 = i2 ∧ s1 = s2 ∧ d1 = d2 := by
  unfold key at h
  simp only [List.append_assoc, List.singleton_append] at h
  obtain ⟨e1, r1⟩ := split_first_comma i1 i2 _ _ h1 h3 h
  obtain ⟨e2, r2⟩ := split_first_comma s1 s2 _ _ h2 h4 r1
  exact ⟨e1, e2, r2⟩

/-- non-vacuity: the hypotheses hold for ordinary names -/
example : ',' ∉ "orders-consumer".toList ∧ ',' ∉ "orders".toList := by decide

end Liftbridge.Props.C11Keys
