import Liftbridge.Model.Log
namespace Liftbridge.Props.C01
end Liftbridge.Props.C01
