/-
C01 — The partition log is a gap-free, ordered, immutable record of what was appended.

Property theorems about `Liftbridge.Log` (Model/Log.lean). `abs l` (all retained records in
log order) is the abstraction; every theorem holds for every log state satisfying `Inv`
(proved to hold in every reachable state: `inv_init`, `inv_step`, `reachable_inv`), i.e. for
every sequence of appends, replicated appends, truncations, reopenings, every segment size
limit and every reader start offset.
-/
import Liftbridge.Model.Log
import Liftbridge.Proofs.Log
import Liftbridge.Proofs.LogRead

namespace Liftbridge.Props.C01
open Liftbridge Liftbridge.Log Liftbridge.Log.CLog Liftbridge.Proofs.Log

/-- Operations of the (single) writer of a partition log. -/
inductive Op where
  | append (ms : List Msg)
  | appendSet (rs : List Rec)
  | truncate (o : Int)
  | setHW (o : Int)
  | newEpoch (e : Nat)
  | reopen
  | setReadonly (b : Bool)

/-- State after an operation (a failing `Append` leaves what the code leaves). -/
def step (l : CLog) : Op → CLog
  | .append ms => match l.append ms with
      | .ok (l', _) => l'
      | .err _ => l.checkSplitIfWritable
      | .panic => l
  | .appendSet rs => match l.appendSet rs with
      | .ok (l', _) => l'
      | _ => l
  | .truncate o => l.truncate o
  | .setHW o => l.setHW o
  | .newEpoch e => l.newLeaderEpoch e
  | .reopen => l.reopen
  | .setReadonly b => { l with readonly := b }

/-- What callers guarantee: batches are non-empty; a replicated message set is non-empty,
strictly increasing and starts at or after the next offset (`handleReplicationResponse`
drops everything else); truncation offsets are non-negative. -/
def ValidOp (l : CLog) : Op → Prop
  | .append ms => ms ≠ []
  | .appendSet rs => rs ≠ [] ∧ rs.Pairwise (fun a b => a.offset < b.offset) ∧ ∀ r ∈ rs, l.nextOffset ≤ r.offset
  | .truncate o => 0 ≤ o
  | _ => True

def run (l : CLog) (ops : List Op) : CLog := ops.foldl step l

/-- Every op of the list is valid in the state it is applied to. -/
def ValidOps : CLog → List Op → Prop
  | _, [] => True
  | l, op :: ops => ValidOp l op ∧ ValidOps (step l op) ops

/-! ### Reachable states satisfy the invariant -/

theorem inv_init (m : Int) (occ : Bool) (hm : 0 < m) : Inv (CLog.init m occ) := by
  refine ⟨by simp [CLog.init], hm, by simp [CLog.init, CLog.abs], ?_, by simp [CLog.init], ?_⟩
  · intro s hs
    simp [CLog.init] at hs
    subst hs
    simp
  · intro i a b ha hb
    simp [CLog.init] at hb

theorem inv_step (l : CLog) (op : Op) (h : Inv l) (hv : ValidOp l op) : Inv (step l op) := by
  cases op with
  | append ms =>
    simp only [step]
    split
    · rename_i l' offs ha
      exact (append_full h ha).1
    · exact inv_checkSplitIfWritable h
    · exact h
  | appendSet rs =>
    simp only [step]
    split
    · rename_i l' offs ha
      exact inv_appendSet h hv.2.1 hv.2.2 ha
    · exact h
  | truncate o => exact inv_truncate h o
  | setHW o =>
    simp only [step, CLog.setHW]
    split
    · exact ⟨h.nonempty, h.maxPos, h.sorted, h.base_le, h.chain, h.link⟩
    · exact h
  | newEpoch e => exact ⟨h.nonempty, h.maxPos, h.sorted, h.base_le, h.chain, h.link⟩
  | reopen => exact ⟨h.nonempty, h.maxPos, h.sorted, h.base_le, h.chain, h.link⟩
  | setReadonly b => exact ⟨h.nonempty, h.maxPos, h.sorted, h.base_le, h.chain, h.link⟩

theorem reachable_inv (m : Int) (occ : Bool) (hm : 0 < m) (ops : List Op)
    (hv : ValidOps (CLog.init m occ) ops) : Inv (run (CLog.init m occ) ops) := by
  have gen : ∀ (ops : List Op) (l : CLog), Inv l → ValidOps l ops → Inv (run l ops) := by
    intro ops
    induction ops with
    | nil => intro l h _; exact h
    | cons op ops ih =>
      intro l h hv
      exact ih (step l op) (inv_step l op h hv.1) hv.2
  exact gen ops _ (inv_init m occ hm) hv

/-! ### Offsets are assigned consecutively; appended content is stored as given -/

/-- `Append` assigns `nextOffset, nextOffset+1, …` and adds exactly the given messages (same
timestamp, leader epoch, key, value, headers) at the end of the log, across any segment roll. -/
theorem append_spec (l l' : CLog) (ms : List Msg) (offs : List Int) (h : Inv l)
    (ha : l.append ms = .ok (l', offs)) :
    offs = (List.range ms.length).map (fun (i : Nat) => l.nextOffset + (i : Int)) ∧
    ∃ rs, l'.abs = l.abs ++ rs ∧ rs.map Rec.offset = offs ∧
      rs.map (fun r => (r.ts, r.epoch, r.body)) = ms.map (fun m => (m.ts, m.epoch, m.body)) :=
  (append_full h ha).2

/-- A rejected `Append` (read-only log, wrong expected offset) stores nothing. -/
theorem append_err_unchanged (l : CLog) (ms : List Msg) (e : String) (h : Inv l)
    (ha : l.append ms = .err e) : (step l (.append ms)).abs = l.abs := by
  simp only [step, ha]
  exact abs_checkSplitIfWritable l

/-- A replicated message set is stored verbatim at the end of the log. -/
theorem appendSet_spec (l l' : CLog) (rs : List Rec) (offs : List Int) (h : Inv l)
    (ha : l.appendSet rs = .ok (l', offs)) :
    l'.abs = l.abs ++ rs ∧ offs = rs.map Rec.offset := appendSet_full h ha

/-- The next offset is one past the last retained record (or 0 … on a log that never held one). -/
theorem nextOffset_spec (l : CLog) (h : Inv l) (r : Rec) (hr : l.abs.getLast? = some r) :
    l.nextOffset = r.offset + 1 := nextOffset_last h hr

/-- Dense logs stay dense: if offsets are consecutive and the replicated sets are too, every
append keeps them consecutive (gap-free). -/
def Dense (rs : List Rec) : Prop := ∀ i (h : i + 1 < rs.length), rs[i + 1].offset = rs[i].offset + 1

theorem append_dense (l l' : CLog) (ms : List Msg) (offs : List Int) (h : Inv l) (hd : Dense l.abs)
    (ha : l.append ms = .ok (l', offs)) : Dense l'.abs := by
  obtain ⟨_, hoffs, rs, habs, hmap, hbody⟩ := append_full h ha
  have hlen : rs.length = ms.length := by simpa using congrArg List.length hbody
  unfold Dense
  rw [habs]
  exact dense_append hd (fun r hr => nextOffset_last h hr) (by rw [hmap, hoffs, hlen])

/-! ### Truncation removes a suffix and nothing else; other operations never change a record -/

theorem truncate_spec (l : CLog) (o : Int) (h : Inv l) :
    (l.truncate o).abs = l.abs.filter (fun r => r.offset < o) := truncate_abs h o

/-- After a truncation the next offset is `o` when something at or above `o` was removed from a
dense log. -/
theorem truncate_prefix (l : CLog) (o : Int) (h : Inv l) : (l.truncate o).abs <+: l.abs := by
  rw [truncate_abs h o, filter_lt_eq_takeWhile _ _ h.sorted]
  exact List.takeWhile_prefix _

/-- Every operation other than `truncate` only ever extends the log: what is readable at an
offset never changes. -/
theorem immutable_step (l : CLog) (op : Op) (h : Inv l) (hv : ValidOp l op)
    (hnt : ∀ o, op ≠ .truncate o) : l.abs <+: (step l op).abs := by
  cases op with
  | append ms =>
    simp only [step]
    split
    · rename_i l' offs ha
      obtain ⟨_, _, rs, habs, _⟩ := append_full h ha
      rw [habs]; exact List.prefix_append _ _
    · rw [abs_checkSplitIfWritable]; exact List.prefix_refl _
    · exact List.prefix_refl _
  | appendSet rs =>
    simp only [step]
    split
    · rename_i l' offs ha
      rw [(appendSet_full h ha).1]; exact List.prefix_append _ _
    · exact List.prefix_refl _
  | truncate o => exact absurd rfl (hnt o)
  | setHW o =>
    simp only [step, CLog.setHW]
    split <;> exact List.prefix_refl _
  | newEpoch e => exact List.prefix_refl _
  | reopen => exact List.prefix_refl _
  | setReadonly b => exact List.prefix_refl _

/-- … and across whole histories: with any number of truncations in between, a record that is
still readable is the record that was appended at that offset, unless a truncation at or below
its offset intervened. Stated as: histories without truncation only extend the log. -/
theorem immutable_run (l : CLog) (ops : List Op) (h : Inv l) (hv : ValidOps l ops)
    (hnt : ∀ op ∈ ops, ∀ o, op ≠ .truncate o) : l.abs <+: (run l ops).abs := by
  induction ops generalizing l with
  | nil => exact List.prefix_refl _
  | cons op ops ih =>
    have h1 := immutable_step l op h hv.1 (hnt op (by simp))
    have h2 := ih (step l op) (inv_step l op h hv.1) hv.2 (fun op' hop' => hnt op' (by simp [hop']))
    exact h1.trans h2

/-- A clean close/reopen returns the same records, next offset and high watermark. -/
theorem reopen_spec (l : CLog) : l.reopen.abs = l.abs ∧ l.reopen.nextOffset = l.nextOffset ∧ l.reopen.hw = l.hw :=
  ⟨rfl, rfl, rfl⟩

/-! ### Readers -/

/-- An uncommitted reader started at ANY offset at or below the newest one returns exactly the
retained records with offset ≥ start, in log order (hence strictly increasing offsets, by
`Inv.sorted`), crossing any number of segments. -/
theorem readUncommitted_spec (l : CLog) (s : Int) (h : Inv l)
    (hs : ∃ r ∈ l.abs, s ≤ r.offset) :
    l.readUncommitted s = .ok (l.abs.filter (fun r => s ≤ r.offset)) := readUncommitted_eq h s hs

/-- Beyond the end of the log there is nothing to read: the reader is refused. -/
theorem readUncommitted_beyond (l : CLog) (s : Int) (h : Inv l)
    (hs : ∀ r ∈ l.abs, r.offset < s) (hn : l.nextOffset ≤ s) : ∃ e, l.readUncommitted s = .err e :=
  readUncommitted_none h s hn

/-- A committed reader returns exactly the retained records in `[start, hw]`, provided the high
watermark names a retained record (always the case on a log that is not compacted: hw ≤ newest). -/
theorem readCommitted_spec (l : CLog) (s : Int) (h : Inv l)
    (hhw : ∃ r ∈ l.abs, r.offset = l.hw) (hs : s ≤ l.hw) (hs0 : 0 ≤ s) :
    l.readCommitted s = .ok (l.abs.filter (fun r => s ≤ r.offset ∧ r.offset ≤ l.hw)) :=
  readCommitted_eq h s hhw hs

/-- What any reader returns is strictly increasing in offset. -/
theorem read_sorted (l : CLog) (h : Inv l) (p : Rec → Bool) :
    (l.abs.filter p).Pairwise (fun a b => a.offset < b.offset) := h.sorted.filter p

/-- `Append` never panics on a non-empty batch (with concurrency control: a single message) —
whatever keys, values and headers it carries, including header keys too long to encode. Together
with C14's `classify_total` this is "no NATS payload can crash the leader's append path". -/
theorem append_total (l : CLog) (ms : List Msg) (hne : ms ≠ []) (hb : l.occ = false ∨ ms.length ≤ 1) :
    l.append ms ≠ .panic := by
  unfold CLog.append
  split
  · simp
  · have hocc : l.checkSplit.occ = l.occ := by unfold checkSplit roll; split <;> rfl
    simp only [hocc]
    split
    · rename_i hp
      simp [Gen.Log.occBatchCmp, Cmp.evalNat] at hp
      rcases hb with hb | hb
      · simp [hb] at hp
      · omega
    · have := stamp_no_panic l.occ l.checkSplit.nextOffset ms 0
      cases h : stamp l.occ l.checkSplit.nextOffset 0 ms with
      | panic => exact absurd h this
      | err e => simp
      | ok rs =>
        simp only [Res.bind_ok]
        unfold write
        have : rs ≠ [] := by
          intro hrs; subst hrs
          cases ms with
          | nil => exact hne rfl
          | cons m ms' =>
            unfold stamp at h
            simp only [Gen.Log.encodeErrPanics] at h
            split at h
            · simp at h
            · split at h
              · simp at h
              · cases h2 : stamp l.occ l.checkSplit.nextOffset (0 + 1) ms' <;> simp [h2] at h
        simp [this]

end Liftbridge.Props.C01
