/-
C03 — Consumers see only committed messages: all of them, once, in order.

Property theorems about the small-step model `Liftbridge.HWReader` (Model/HWReader.lean):
a shared commit log with high watermark and `hwWaiters`, any number of committed readers, and
an environment that appends, rolls segments, moves the HW (any value, any step size) and
toggles read-only. `run s ops` applies a list of operations, each ONE critical section of the
Go code; "for every interleaving" is "for every `ops : List Op`". Every theorem below is
universally quantified over the initial log (any log satisfying the log invariant `Inv` of
C01 — fresh, rolled, trimmed by retention or compacted), over `ops`, and over the reader.

Safety (`hw_monotone`, `never_beyond_hw`, `in_order_once`, `parked_complete`,
`no_lost_wakeup`, `readers_independent`) holds for ALL schedules, including a HW set beyond
the end of the log. The "eventually receives" half of the property is proved as ENABLEDNESS
invariants, not as temporal liveness (`progress_partial`): in every reachable state a reader
that has not seen the current HW is not parked and has an operation that changes it, and it is
not dead — the latter only for runs whose HW writers are `Disciplined` (never name a message
the log does not have). Without that side condition it is false (`progress_asStated_false`):
a HW beyond the log end kills every committed reader that re-syncs
(`getHWPos` → ErrSegmentNotFound); this is how `partition.handleReplicationResponse` drives a
follower's log unless the regenerated flag `Gen.HWReader.followerHWCapped` holds.

Not covered (see the manifest): the Go memory model, `sync.RWMutex` and channel semantics are
ASSUMED to implement the atomic steps; truncation, retention and compaction WHILE readers run
are outside the step relation.
-/
import Liftbridge.Model.HWReader
import Liftbridge.Proofs.HWReader

namespace Liftbridge.Props.C03
open Liftbridge Liftbridge.Log Liftbridge.Log.CLog Liftbridge.HWReader Liftbridge.Proofs.Log
open Liftbridge.Proofs.HWReader

/-- Evaluation of the model on concrete runs (`decide` cannot unfold the well-founded
`sort.Search` mirror; `simp` can). -/
macro "eval_model" : tactic => `(tactic|
  simp [run, step, State.init, CLog.init, setReader, initReader, HWReader.setHW, wakeAll, beginRead, checkHW, resync,
    readStep, fail, nextOp, admissible, CLog.appendSet, CLog.checkSplit, CLog.needSplit, CLog.write, CLog.setActive,
    CLog.active, CLog.assignEpochs, Epochs.latestEpoch, Epochs.assign, Epochs.latestOffset, CLog.nextOffset,
    CLog.newest, CLog.abs, CLog.roll, CLog.hwPos, CLog.findSegmentIdx, CLog.findSegmentByBaseIdx, Seg.findEntryIdx,
    goSearch, goSearchAux, Seg.nextOffset, Seg.lastOffset, Seg.position, Seg.firstOffset, CLog.oldest, Rec.size,
    Payload.encLen, bytesLen, msgSetHeaderLen, Gen.Log.msgSetHeaderLen, Gen.Log.splitCmp, Gen.Log.appendEpochCmp,
    Gen.Log.assignEpochCmp, Gen.Log.assignOffsetCmp, Gen.Log.findSegmentCmp, Gen.Log.findSegmentByBaseCmp,
    Gen.Log.findEntryCmp, Gen.Log.containsCmp, Gen.Log.hwGoneCheck, Gen.Log.readerBeyondHWCmp, Gen.Log.setHWCmp,
    Gen.HWReader.setHWNotifies, Gen.HWReader.notifyClearsWaiters, Gen.HWReader.readerHWSameCmp,
    Gen.HWReader.waitRecheckCmp, Gen.HWReader.waitReadonlyCmp, Gen.HWReader.hwSegLimit,
    Gen.HWReader.waitRechecks, Gen.HWReader.notifyReadonlyCmp, registerWait, stepWith, runWith, HWReader.setReadonly,
    Gen.HWReader.resyncErrPropagates, Cmp.evalInt, Cmp.evalNat])

/-- Initial states: any log satisfying the commit-log invariant, HW at least -1, no readers. -/
def Start (l : CLog) : Prop := Inv l ∧ -1 ≤ l.hw

/-- Initial states of disciplined runs: additionally the HW names a retained message (or
nothing), and an empty log has nothing left to commit (true of every fresh log). -/
def LeaderStart (l : CLog) : Prop := Start l ∧ Covered l l.hw ∧ (l.abs = [] → l.newest ≤ l.hw)

theorem reach_ginv {l0 : CLog} (h : Start l0) (ops : List Op) : GInv (run (State.init l0) ops) :=
  ginv_run (ginv_init h.1 h.2) ops

/-! ### The high watermark -/

/-- While the log is open its HW never moves backwards: no operation, in any state, lowers it. -/
theorem hw_monotone_step (s : State) (op : Op) : s.log.hw ≤ (step s op).log.hw := step_hw_le s op

/-- ... hence along every run, from any state. -/
theorem hw_monotone (s : State) (ops ops' : List Op) :
    (run s ops).log.hw ≤ (run s (ops ++ ops')).log.hw := by
  have : run s (ops ++ ops') = run (run s ops) ops' := by simp [run, List.foldl_append]
  rw [this]
  exact run_hw_le _ _

/-- The writers of the HW are the three the model has operations for — the leader's fast path
and commit loop (`setHW`, disciplined), the follower's adoption (`followerHW`) — and nothing
outside tests calls `OverrideHighWatermark` (which could lower it). Regenerated from server/*.go. -/
theorem hw_writers_known :
    Gen.HWReader.hwWriterFuncs = ["commitLoop", "handleReplicationResponse", "messageProcessingLoop"] ∧
    Gen.HWReader.hwOverrideCalls = 0 := by decide

/-! ### Only committed messages -/

/-- NEVER BEYOND THE HW: in every reachable state, everything any committed reader has been
handed lies at or below the current HW — for every schedule (also when the HW was set past the
log end, or the message at the HW is no longer retained). -/
theorem never_beyond_hw {l0 : CLog} (h0 : Start l0) (ops : List Op) (id : Nat) (r : Reader)
    (hr : (run (State.init l0) ops).readers id = some r) :
    ∀ x ∈ r.delivered, x.offset ≤ (run (State.init l0) ops).log.hw := by
  intro x hx
  have g := reach_ginv h0 ops
  have ri := g.rinv id r hr
  have := delivered_le g.inv ri x hx
  have := ri.hw_le
  omega

/-- ... and was at or below the HW at the moment it was handed out: a delivery is one `readStep`,
and after it (as in every reachable state) the bound holds with the HW of that moment. -/
theorem never_beyond_hw_at_delivery {l0 : CLog} (h0 : Start l0) (ops : List Op) (id : Nat) (r r' : Reader)
    (hr : (run (State.init l0) ops).readers id = some r)
    (hr' : (step (run (State.init l0) ops) (.readStep id)).readers id = some r') :
    ∀ x ∈ r'.delivered, x.offset ≤ (run (State.init l0) ops).log.hw := by
  have hrun : step (run (State.init l0) ops) (.readStep id) = run (State.init l0) (ops ++ [.readStep id]) := by
    simp [run, List.foldl_append]
  have hlog := (step_frame (run (State.init l0) ops) (.readStep id) (id := id) rfl).1
  intro x hx
  rw [hrun] at hr' hlog
  have := never_beyond_hw h0 (ops ++ [.readStep id]) id r' hr' x hx
  rw [hlog] at this
  exact this

/-! ### All of them, once, in order -/

/-- IN ORDER, ONCE, NO SKIP: in every reachable state the deliveries of a reader are strictly
increasing in offset and form an initial part of the retained records at or above its effective
start `eff` (`start`, or creation-HW + 1 for a reader that parked at creation — the code's
`offset := r.hw + 1`): nothing is skipped, repeated or reordered. -/
theorem in_order_once {l0 : CLog} (h0 : Start l0) (ops : List Op) (id : Nat) (r : Reader)
    (hr : (run (State.init l0) ops).readers id = some r) :
    r.delivered.Pairwise (fun a b => a.offset < b.offset) ∧
    r.delivered <+: (run (State.init l0) ops).log.abs.filter (fun x => decide (r.eff ≤ x.offset)) := by
  have g := reach_ginv h0 ops
  exact ⟨delivered_sorted g.inv (g.rinv id r hr), delivered_prefix (g.rinv id r hr)⟩

/-- The effective start, case 1 (the parking rule of `newReaderCommitted`): a reader created beyond
the sampled HW, or on a log whose first segment is empty, is created unpositioned and will resume
at sampled-HW + 1 — whatever offset was asked for (cf. C10's recorded finding). -/
theorem eff_parked (l : CLog) (r : Reader)
    (h : (Gen.Log.readerBeyondHWCmp.evalInt r.start r.hwSeen || decide (l.oldest = -1)) = true) :
    (initReader l r).seg = none ∧ (initReader l r).eff = r.hwSeen + 1 ∧ (initReader l r).phase = .idle := by
  unfold initReader
  simp only [h, if_true, and_self]

/-- The effective start, case 2: a reader that `newReaderCommitted` positions starts at the offset
it was given. -/
theorem eff_positioned (l : CLog) (r : Reader) (i : Nat) (hn : r.seg = none)
    (hs : (initReader l r).seg = some i) : (initReader l r).eff = r.start := by
  revert hs
  unfold initReader fail
  dsimp only
  intro hs
  repeat' split at hs
  all_goals first | cases hs | (rw [hn] at hs; cases hs) | skip
  all_goals (repeat' split)
  all_goals first | rfl | simp_all

/-- A reader that stands at its limit (about to sample the HW, about to park, parked, about to
re-sync, or ended by read-only / cancellation) has delivered EXACTLY the retained records in
`[eff, hwSeen]`. -/
theorem at_limit_complete {l0 : CLog} (h0 : Start l0) (ops : List Op) (id : Nat) (r : Reader)
    (hr : (run (State.init l0) ops).readers id = some r) (ha : atLim r.phase = true) :
    r.delivered = (run (State.init l0) ops).log.abs.filter
      (fun x => decide (r.eff ≤ x.offset ∧ x.offset ≤ r.hwSeen)) := by
  have g := reach_ginv h0 ops
  exact delivered_complete g.inv (g.rinv id r hr) ha

/-! ### No lost wake-up -/

/-- NO LOST WAKE-UP: a parked reader is registered in `hwWaiters` and has seen the CURRENT HW;
so it is parked only while there is nothing new for it, and every effective `SetHighWatermark`
(which notifies all registered waiters) wakes it. -/
theorem no_lost_wakeup {l0 : CLog} (h0 : Start l0) (ops : List Op) (id : Nat) (r : Reader)
    (hr : (run (State.init l0) ops).readers id = some r) (hw : r.phase = .waiting) :
    r.hwSeen = (run (State.init l0) ops).log.hw ∧ id ∈ (run (State.init l0) ops).waiters := by
  have g := reach_ginv h0 ops
  exact ⟨(g.rinv id r hr).waiting_hw hw, g.wait_mem id r hr hw⟩

/-- Only parked readers are in the map (no stale entries that would swallow a notification). -/
theorem waiters_are_parked {l0 : CLog} (h0 : Start l0) (ops : List Op) (id : Nat)
    (hm : id ∈ (run (State.init l0) ops).waiters) :
    ∃ r, (run (State.init l0) ops).readers id = some r ∧ r.phase = .waiting :=
  (reach_ginv h0 ops).mem_wait id hm

/-- After an effective HW advance nobody is parked any more. -/
theorem setHW_wakes_all {l0 : CLog} (h0 : Start l0) (ops : List Op) (h : Int)
    (hgt : h > (run (State.init l0) ops).log.hw) (id : Nat) (r' : Reader)
    (hr' : (step (run (State.init l0) ops) (.setHW h)).readers id = some r') : r'.phase ≠ .waiting := by
  intro hw
  have g := reach_ginv h0 ops
  have g' := ginv_step g (.setHW h)
  have h1 := (g'.rinv id r' hr').waiting_hw hw
  have hhw : (step (run (State.init l0) ops) (.setHW h)).log.hw = h := by
    simp only [step, HWReader.setHW, Gen.Log.setHWCmp, Cmp.evalInt, decide_eq_true_eq, hgt, if_true,
      Gen.HWReader.setHWNotifies]
    rfl
  simp only [step, HWReader.setHW, Gen.Log.setHWCmp, Cmp.evalInt, decide_eq_true_eq, hgt, if_true,
    Gen.HWReader.setHWNotifies] at hr'
  obtain ⟨r, hr, hse, _⟩ := wakeAll_reader hr'
  have := (g.rinv id r hr).hw_le
  rw [hhw] at h1
  omega

/-- A parked reader has received everything committed so far: exactly the retained records
in `[eff, hw]`. -/
theorem parked_complete {l0 : CLog} (h0 : Start l0) (ops : List Op) (id : Nat) (r : Reader)
    (hr : (run (State.init l0) ops).readers id = some r) (hw : r.phase = .waiting) :
    r.delivered = (run (State.init l0) ops).log.abs.filter
      (fun x => decide (r.eff ≤ x.offset ∧ x.offset ≤ (run (State.init l0) ops).log.hw)) := by
  have := at_limit_complete h0 ops id r hr (by rw [hw]; rfl)
  rw [(no_lost_wakeup h0 ops id r hr hw).1] at this
  exact this

/-- A reader ended by "end of read-only log" has received everything in `[eff, hwSeen]`. -/
theorem readonly_end_complete {l0 : CLog} (h0 : Start l0) (ops : List Op) (id : Nat) (r : Reader)
    (hr : (run (State.init l0) ops).readers id = some r) (hf : r.phase = .failed "readonly") :
    r.delivered = (run (State.init l0) ops).log.abs.filter
      (fun x => decide (r.eff ≤ x.offset ∧ x.offset ≤ r.hwSeen)) :=
  at_limit_complete h0 ops id r hr (by rw [hf]; rfl)

/-! ### Readers do not disturb each other -/

/-- A reader's own operation changes neither the log nor any other reader; with
`in_order_once` / `at_limit_complete` (which describe a reader's deliveries by the log and its
own position only) the readers are independent of each other. -/
theorem readers_independent (s : State) (op : Op) (id : Nat) (hop : op.reader = some id) :
    (step s op).log = s.log ∧ ∀ j, j ≠ id → (step s op).readers j = s.readers j :=
  step_frame s op hop

/-! ### Progress (as enabledness) -/

/-- The statement one would like — no committed reader ever dies except by the end of a
read-only log or cancellation, in EVERY schedule. -/
def progress_asStated : Prop :=
  ∀ l0, LeaderStart l0 → ∀ (ops : List Op) (id : Nat) (r : Reader) (e : String),
    (run (State.init l0) ops).readers id = some r → r.phase = .failed e → e = "readonly" ∨ e = "eof"

def witnessOps : List Op :=
  [.newReader 0 0, .initReader 0, .setHW 0, .beginRead 0, .checkHW 0, .resync 0]

def rec0 : Rec := { offset := 0, ts := 1, epoch := 0, body := { key := none, val := none, hdrs := [] } }

/-- The witness: a reader parked on the empty log, the HW set to 0 before the message with
offset 0 is in the log (what a follower does when the leader's HW runs ahead of its log):
the reader samples the HW, re-syncs, `getHWPos` finds no segment, the reader is dead. -/
theorem witness_dead :
    ((run (State.init (CLog.init 1024 false)) witnessOps).readers 0).map (·.phase) =
      some (.failed "segment-not-found") := by
  simp only [witnessOps]
  eval_model

/-- ... and it never receives message 0, although message 0 is then appended below the HW. -/
theorem witness_misses :
    (run (State.init (CLog.init 1024 false)) (witnessOps ++ [.append [rec0]])).log.abs.map (·.offset) = [0] ∧
    (run (State.init (CLog.init 1024 false)) (witnessOps ++ [.append [rec0]])).log.hw = 0 ∧
    ((run (State.init (CLog.init 1024 false)) (witnessOps ++ [.append [rec0]])).readers 0).map
      (fun r => (r.delivered.length, nextOp 0 r.phase)) = some (0, none) := by
  simp only [witnessOps, rec0, List.cons_append, List.nil_append]
  eval_model

/-- The same undisciplined HW hits a reader that is already positioned and parked at its limit
inside `readLoop`. What the model does then follows the regenerated shape of the code: the error
of `getHWPos` ends the reader — unless `readLoop` swallows it (`err` shadowed by a loop-local
declaration: `Read` returns (0, nil), the caller parses a stale header and the CRC check of the
garbage read next panics), which the model represents by the terminal state "error-swallowed".
The harness replays this run on the implementation (corpus/C03/hw-beyond-log-positioned.ops). -/
theorem witness_positioned :
    ((run (State.init (CLog.init 1024 false))
      [.append [rec0], .setHW 0, .newReader 0 0, .initReader 0, .beginRead 0, .readStep 0, .beginRead 0,
       .readStep 0, .checkHW 0, .registerWait 0, .setHW 1, .checkHW 0, .resync 0]).readers 0).map
        (fun r => (r.delivered.length, r.phase)) =
      some (1, .failed (if Gen.HWReader.resyncErrPropagates then "segment-not-found" else "error-swallowed")) := by
  simp only [rec0]
  eval_model

theorem inv_init (m : Int) (occ : Bool) (hm : 0 < m) : Inv (CLog.init m occ) := by
  refine ⟨by simp [CLog.init], hm, by simp [CLog.init, CLog.abs], ?_, by simp [CLog.init], ?_⟩
  · intro s hs
    simp [CLog.init] at hs
    subst hs
    simp
  · intro i a b ha hb
    simp [CLog.init] at hb

theorem leaderStart_init (m : Int) (occ : Bool) (hm : 0 < m) : LeaderStart (CLog.init m occ) :=
  ⟨⟨inv_init m occ hm, by simp [CLog.init]⟩, Or.inl (by simp [CLog.init]),
    fun _ => by simp [CLog.init, CLog.newest, CLog.nextOffset, CLog.active, Seg.nextOffset, Seg.lastOffset]⟩

/-- `progress_asStated` is FALSE. -/
theorem progress_asStated_false : ¬ progress_asStated := by
  intro h
  have hw := witness_dead
  cases hr : (run (State.init (CLog.init 1024 false)) witnessOps).readers 0 with
  | none => rw [hr] at hw; cases hw
  | some r =>
    rw [hr] at hw
    simp only [Option.map_some, Option.some.injEq] at hw
    have := h (CLog.init 1024 false) (leaderStart_init 1024 false (by decide)) witnessOps 0 r _ hr hw
    revert this
    decide

/-- PROGRESS (partial: HW writers disciplined; enabledness instead of temporal liveness).
In every state reachable by a run in which every `SetHighWatermark` names a message the log has
(`Disciplined`: what the leader's two call sites do; the follower's iff
`Gen.HWReader.followerHWCapped`), for every reader:
* it is dead only by the end of a read-only log or cancellation;
* if it has not yet seen the current HW it is NOT parked;
* if it is neither parked nor dead it has an enabled operation, and that operation changes it
  (never a stutter) — so under any fair scheduling of the reader it keeps moving until it
  parks, which by `parked_complete` is only after it received everything up to the HW. -/
theorem progress_partial {l0 : CLog} (h0 : LeaderStart l0) (ops : List Op)
    (hd : DisciplinedRun (State.init l0) ops) (id : Nat) (r : Reader)
    (hr : (run (State.init l0) ops).readers id = some r) :
    (∀ e, r.phase = .failed e → e = "readonly" ∨ e = "eof") ∧
    (r.hwSeen < (run (State.init l0) ops).log.hw → r.phase ≠ .waiting) ∧
    (r.phase ≠ .waiting → (∀ e, r.phase ≠ .failed e) →
      ∃ op, nextOp id r.phase = some op ∧ op.reader = some id ∧
        (step (run (State.init l0) ops) op).readers id ≠ some r) := by
  have g0 := ginv_init h0.1.1 h0.1.2
  have g := reach_ginv h0.1 ops
  have li := linv_run g0 (linv_init h0.2.1 h0.2.2) hd
  refine ⟨fun e he => li.nofail id r e hr he, ?_, ?_⟩
  · intro hlt hw
    have := (g.rinv id r hr).waiting_hw hw
    omega
  · intro hnw hnf
    cases hp : r.phase with
    | waiting => exact absurd hp hnw
    | failed e => exact absurd hp (hnf e)
    | creating => exact ⟨_, rfl, rfl, step_changes g hr (by rw [hp]; rfl)⟩
    | idle => exact ⟨_, rfl, rfl, step_changes g hr (by rw [hp]; rfl)⟩
    | reading => exact ⟨_, rfl, rfl, step_changes g hr (by rw [hp]; rfl)⟩
    | atLimit => exact ⟨_, rfl, rfl, step_changes g hr (by rw [hp]; rfl)⟩
    | mustWait => exact ⟨_, rfl, rfl, step_changes g hr (by rw [hp]; rfl)⟩
    | resync h => exact ⟨_, rfl, rfl, step_changes g hr (by rw [hp]; rfl)⟩

/-- The follower's HW adoption is disciplined exactly when the regenerated call shape caps the
leader's HW at the follower's own log end. -/
theorem follower_disciplined_iff (s : State) (h : Int) :
    Disciplined s (.followerHW h) ↔ Gen.HWReader.followerHWCapped = true := Iff.rfl

/-- With the cap, a follower never sets its HW past its own log end. -/
theorem follower_capped_le_newest (hc : Gen.HWReader.followerHWCapped = true) (l : CLog) (h : Int) :
    followerArg l h ≤ l.newest ∧ followerArg l h ≤ h := by
  unfold followerArg
  rw [hc]
  simp only [if_true]
  split <;> constructor <;> omega

/-! ### Why `waitForHW` re-checks the HW under the log lock

`checkHW` (the reader samples `HighWatermark()` under a read lock it releases again) and
`registerWait` (`commitLog.waitForHW` under the write lock) are two steps; `setHW` notifies only
readers that are ALREADY registered. `no_lost_wakeup` above holds because `registerWait` compares
the reader's sample with the current HW before it registers the reader — a fact regenerated from
the source (`Gen.HWReader.waitRechecks`, `Gen.HWReader.waitRecheckCmp`): without the comparison
the model parks unconditionally, `ginv_step` (hence every theorem above) no longer checks, and the
harness replays the witness below on the implementation (`committed-reader-lost-wakeup`). -/

/-- The model is run with the regenerated flag: `step` IS `stepWith Gen.HWReader.waitRechecks`. -/
theorem step_uses_extracted_recheck (s : State) (op : Op) :
    stepWith Gen.HWReader.waitRechecks s op = step s op := stepWith_gen s op

/-- THE RE-CHECK CLOSES THE WINDOW: in ANY state, a reader that decided to wait on a HW sample
which is no longer the log's HW (a `setHW` fell between its `checkHW` and its `registerWait`) is
NOT parked by `registerWait`: it is sent back to sample the HW again, and `hwWaiters` is untouched. -/
theorem recheck_closes_window (s : State) (id : Nat) (r : Reader) (hr : s.readers id = some r)
    (hp : r.phase = .mustWait) (hne : s.log.hw ≠ r.hwSeen) :
    (step s (.registerWait id)).readers id = some { r with phase := .atLimit } ∧
    (step s (.registerWait id)).waiters = s.waiters := by
  have hc : (Gen.HWReader.waitRechecks && Gen.HWReader.waitRecheckCmp.evalInt s.log.hw r.hwSeen) = true := by
    simp only [Gen.HWReader.waitRechecks, Gen.HWReader.waitRecheckCmp, Cmp.evalInt, Bool.true_and,
      decide_eq_true_eq]
    exact hne
  simp only [step, hr, hp, if_true, registerWait, hc]
  exact ⟨setReader_self _ _ _, rfl⟩

/-- The read-only verdict (`ErrCommitLogReadonly`: the subscription ends) is given by `registerWait`
only to a reader whose sample IS the current HW, with the HW at the end of a read-only log — so
(`readonly_end_complete`) such a reader has received everything the log will ever commit. -/
theorem readonly_verdict_at_current_hw (s : State) (id : Nat) (r r' : Reader) (hr : s.readers id = some r)
    (hp : r.phase = .mustWait) (hr' : (step s (.registerWait id)).readers id = some r')
    (hf : r'.phase = .failed "readonly") :
    r.hwSeen = s.log.hw ∧ s.log.hw = s.log.newest ∧ s.log.readonly = true := by
  simp only [step, hr, hp, if_true, registerWait] at hr'
  split at hr'
  · rw [setReader_self] at hr'; injection hr' with hr'; subst hr'; cases hf
  · rename_i hc
    simp only [Gen.HWReader.waitRechecks, Bool.true_and, Gen.HWReader.waitRecheckCmp, Cmp.evalInt,
      decide_eq_true_eq, ne_eq, Decidable.not_not] at hc
    split at hr'
    · rename_i hro
      simp only [Gen.HWReader.waitReadonlyCmp, Cmp.evalInt, Bool.and_eq_true, decide_eq_true_eq] at hro
      exact ⟨hc.symm, hro.1, hro.2⟩
    · have : (setReader s id { r with phase := .waiting }).readers id = some r' := hr'
      rw [setReader_self] at this; injection this with this; subst this; cases hf

def rec1 : Rec := { rec0 with offset := 1 }

/-- The witness schedule of the lost wake-up (one reader, one HW writer; the harness replays it
step by step on the real log: corpus/C03/wakeup-window.steps). -/
def lostWakeupOps : List Op :=
  [.append [rec0, rec1], .setHW 0,
   .newReader 0 0, .initReader 0, .beginRead 0, .readStep 0,   -- the reader receives message 0
   .beginRead 0, .readStep 0,                                   -- ... and reaches its limit
   .checkHW 0,                                                  -- the HW is still 0: it decides to wait
   .setHW 1,                                                    -- the writer commits message 1: nobody is registered, nobody is woken
   .registerWait 0]                                             -- the reader registers

/-- WITHOUT THE RE-CHECK the wake-up is lost: after the witness schedule message 1 is in the log
at the HW (committed), the reader — positioned before it, having received only message 0 — is
parked on the stale sample 0, registered, and has no enabled operation. -/
theorem lost_wakeup_without_recheck :
    (runWith false (State.init (CLog.init 1024 false)) lostWakeupOps).log.abs.map (·.offset) = [0, 1] ∧
    (runWith false (State.init (CLog.init 1024 false)) lostWakeupOps).log.hw = 1 ∧
    (runWith false (State.init (CLog.init 1024 false)) lostWakeupOps).waiters = [0] ∧
    ((runWith false (State.init (CLog.init 1024 false)) lostWakeupOps).readers 0).map
      (fun r => (r.phase, r.hwSeen, r.delivered.map (·.offset), nextOp 0 r.phase)) =
        some (.waiting, 0, [0], none) := by
  simp only [lostWakeupOps, rec0, rec1]
  eval_model

/-- ... and it stays lost however long the reader and everybody else is scheduled, until the NEXT
effective HW advance (or a read-only toggle, or its cancellation): under every continuation of
quiet operations — appends, rolls, HW writes that do not raise the HW, any operation of any reader
including its own — it is still parked with message 0 only, and the HW still is 1. Forever, if
message 1 was the last one published. -/
theorem lost_wakeup_without_recheck_forever (ops : List Op)
    (hq : QuietRun false 0 (runWith false (State.init (CLog.init 1024 false)) lostWakeupOps) ops) :
    (runWith false (State.init (CLog.init 1024 false)) (lostWakeupOps ++ ops)).log.hw = 1 ∧
    ((runWith false (State.init (CLog.init 1024 false)) (lostWakeupOps ++ ops)).readers 0).map
      (fun r => (r.phase, r.delivered.map (·.offset))) = some (.waiting, [0]) := by
  have hsplit : runWith false (State.init (CLog.init 1024 false)) (lostWakeupOps ++ ops) =
      runWith false (runWith false (State.init (CLog.init 1024 false)) lostWakeupOps) ops := by
    simp [runWith, List.foldl_append]
  obtain ⟨_, hhw, _, hrd⟩ := lost_wakeup_without_recheck
  cases hr : (runWith false (State.init (CLog.init 1024 false)) lostWakeupOps).readers 0 with
  | none => rw [hr] at hrd; cases hrd
  | some r =>
    rw [hr] at hrd
    simp only [Option.map_some, Option.some.injEq, Prod.mk.injEq] at hrd
    obtain ⟨h1, h2⟩ := parked_stays_run false ops hr hrd.1 hq
    rw [hsplit, h1, h2, hhw]
    exact ⟨rfl, by simp only [Option.map_some, hrd.1, hrd.2.2.1]⟩

/-- WITH the re-check (the model as regenerated from the code) the same schedule does not park
the reader, and three more steps of its own hand it message 1. -/
theorem same_schedule_with_recheck :
    ((run (State.init (CLog.init 1024 false)) lostWakeupOps).readers 0).map (·.phase) = some .atLimit ∧
    (run (State.init (CLog.init 1024 false)) lostWakeupOps).waiters = [] ∧
    ((run (State.init (CLog.init 1024 false)) (lostWakeupOps ++ [.checkHW 0, .resync 0, .readStep 0])).readers 0).map
      (fun r => r.delivered.map (·.offset)) = some [0, 1] := by
  simp only [lostWakeupOps, rec0, rec1, List.cons_append, List.nil_append]
  eval_model

/-- The read-only variant of the lost wake-up: if the log becomes read-only inside the same window
(`notifyReadonly` finds nobody registered), a `waitForHW` without the re-check gives the reader
the read-only verdict — the subscription ENDS with committed message 1 undelivered. -/
theorem readonly_end_incomplete_without_recheck :
    ((runWith false (State.init (CLog.init 1024 false))
      [.append [rec0, rec1], .setHW 0, .newReader 0 0, .initReader 0, .beginRead 0, .readStep 0,
       .beginRead 0, .readStep 0, .checkHW 0, .setHW 1, .setReadonly true, .registerWait 0]).readers 0).map
        (fun r => (r.phase, r.delivered.map (·.offset))) = some (.failed "readonly", [0]) := by
  simp only [rec0, rec1]
  eval_model

/-! ### The hypotheses are satisfiable; the model does something -/

/-- A disciplined run on a fresh log in which a reader created before any data receives both
messages and parks, and a second reader created beyond the HW starts at HW+1. -/
def demoOps : List Op :=
  [.newReader 0 0, .initReader 0, .beginRead 0, .checkHW 0, .registerWait 0,
   .append [rec0, rec1], .setHW 1,
   .checkHW 0, .resync 0, .readStep 0, .beginRead 0, .readStep 0, .beginRead 0, .readStep 0,
   .checkHW 0, .registerWait 0]

example : LeaderStart (CLog.init 1024 false) := leaderStart_init 1024 false (by decide)

example :
    ((run (State.init (CLog.init 1024 false)) demoOps).readers 0).map
      (fun r => (r.delivered.map (·.offset), r.phase)) = some ([0, 1], .waiting) ∧
    (run (State.init (CLog.init 1024 false)) demoOps).waiters = [0] ∧
    (run (State.init (CLog.init 1024 false)) demoOps).log.hw = 1 := by
  simp only [demoOps, rec0, rec1]
  eval_model

example : DisciplinedRun (State.init (CLog.init 1024 false)) demoOps := by
  simp only [demoOps, rec0, rec1, DisciplinedRun, Disciplined, Covered, and_true, true_and]
  eval_model

/-- The lost-wake-up window is real in the model: between `checkHW` (HW unchanged) and
`registerWait` the HW may move; `registerWait` then does NOT park. -/
example :
    ((run (State.init (CLog.init 1024 false))
      [.newReader 0 0, .initReader 0, .beginRead 0, .checkHW 0, .append [rec0], .setHW 0, .registerWait 0]).readers 0).map
        (·.phase) = some .atLimit ∧
    (run (State.init (CLog.init 1024 false))
      [.newReader 0 0, .initReader 0, .beginRead 0, .checkHW 0, .append [rec0], .setHW 0, .registerWait 0]).waiters = [] := by
  simp only [rec0]
  eval_model

end Liftbridge.Props.C03
