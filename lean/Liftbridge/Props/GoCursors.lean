/-
`SetCursor` of the hand-written Cursors model IS the translated Go code, as far as the ORDER of its two
effects goes: the cursor is published to the cursors partition first, and only a SUCCESSFUL publish is
followed by the cache write.

`Gen/GoCursors.lean` is regenerated on every run from the body of `cursorManager.SetCursor`
(server/cursors.go). For every manager, request and publish outcome: one publish; exactly one cache write
of (this key, this offset) when it succeeded; an error status and no cache write when it failed; neither
when this server does not lead the cursors partition. `model_agrees`: `Cursors.setCursor` touches the cache
only on success - the function C11's refinement theorem is about.
-/
import Liftbridge.Proofs.GoCodeBase
import Liftbridge.Gen.GoCursors
import Liftbridge.Model.Cursors

namespace Liftbridge.Props.GoCursors
open Liftbridge Liftbridge.GoMini Liftbridge.GoCode
open Liftbridge.Gen.GoCursors

/-- every construct of the translated function is inside the subset -/
theorem translation_complete : unsupported = [] := rfl

/-- the callees `SetCursor` does not own: key derivation, partition lookup, marshalling, the publish -/
def curExt (leader : String) (pubErr : Option String) : Ext := fun f args _ =>
  if f = "getCursorKey" then some (.str "key")
  else if f = "getCursorsPartitionID" then some (.tup [.int 0, .nil])
  else if f = "GetPartition" then some (.struct [("GetLeader", .tup [.str leader, .int 1])])
  else if f = "Marshal" then some (.tup [.str "cursor-bytes", .nil])
  else if f = "ensureTimeout" then some (.tup [.str "ctx", .nil])
  else if f = "Publish" then some (.tup [.nil, match pubErr with | none => .nil | some e => .str e])
  else if f = "Error" then some (args.headD .nil)
  else if f = "status.New" ∨ f = "status.Newf" then some (.str "status")
  else none

def encManager (me : String) (sets : Int) : Val :=
  .struct [("sets", .int sets), ("metadata", .struct []), ("api", .struct []), ("cache", .struct []),
           ("config", .struct [("Clustering", .struct [("ServerID", .str me)])])]

def globals : List (String × Val) :=
  [("cursorsStream", .str "__cursors"), ("defaultCursorTimeout", .int 5), ("codes.Internal", .int 13),
   ("codes.FailedPrecondition", .int 9)]

/-- (status returned is nil?, the cache writes, the publishes) -/
def setView : R Out → Option (Bool × List (List Val) × Nat)
  | .ok o => some (match o.rets with | [v] => isNil v | _ => false,
      (o.eff.filter (fun e => e.1 = "Add")).map (·.2), (o.eff.filter (fun e => e.1 = "Publish")).length)
  | _ => none

@[simp] theorem lk_1 : evalE.lookup' "SetCursor" prog = some fn_cursorManager_SetCursor := by simp [prog, gomini]
@[simp] theorem lk_g : evalE.lookup' "GetCursor" prog = some fn_cursorManager_GetCursor := by simp [prog, gomini]
@[simp] theorem lk_2 (f : String) (h : f ≠ "SetCursor") (h2 : f ≠ "GetCursor") : evalE.lookup' f prog = none := by simp [prog, gomini, h, h2]

set_option maxRecDepth 8000 in
set_option maxHeartbeats 1600000 in
/-- the publish succeeded: one publish, then exactly one cache write, of the key and the offset of THIS call -/
theorem go_SetCursor_ok (me : String) (sets : Int) (ctx : Val) (stream id : String) (part off : Int) :
    setView (runG prog (curExt me none) 40 "SetCursor" (some (encManager me sets))
      [ctx, .str stream, .str id, .int part, .int off] globals) = some (true, [[.str "key", .int off]], 1) := by
  simp [runG, fn_cursorManager_SetCursor, gomini, encManager, globals, curExt, builtin, convert, binInt, setView, isNil]

set_option maxRecDepth 8000 in
set_option maxHeartbeats 1600000 in
/-- the publish failed: an error status and NO cache write -/
theorem go_SetCursor_failed (me : String) (sets : Int) (ctx : Val) (stream id : String) (part off : Int) (e : String) :
    setView (runG prog (curExt me (some e)) 40 "SetCursor" (some (encManager me sets))
      [ctx, .str stream, .str id, .int part, .int off] globals) = some (false, [], 1) := by
  simp [runG, fn_cursorManager_SetCursor, gomini, encManager, globals, curExt, builtin, convert, binInt, setView, isNil]

set_option maxRecDepth 8000 in
set_option maxHeartbeats 1600000 in
/-- this server does not lead the cursors partition: refused before anything is published or cached -/
theorem go_SetCursor_not_leader (me leader : String) (h : leader ≠ me) (sets : Int) (ctx : Val) (stream id : String) (part off : Int)
    (pe : Option String) :
    setView (runG prog (curExt leader pe) 40 "SetCursor" (some (encManager me sets))
      [ctx, .str stream, .str id, .int part, .int off] globals) = some (false, [], 0) := by
  simp [runG, fn_cursorManager_SetCursor, gomini, encManager, globals, curExt, builtin, convert, binInt, setView, isNil, h]

/-- the model writes the cache exactly when the append (the publish) succeeded -/
theorem model_agrees (P : Cursors.Params) (s : Cursors.State) (k : Cursors.Key) (o : Int) (v : Bytes) :
    (∀ e, (Cursors.setCursor P s k o v).2 = .err e → (Cursors.setCursor P s k o v).1.cache = (Cursors.resume s).cache) ∧
    ((Cursors.setCursor P s k o v).2 = .ok () →
      (Cursors.setCursor P s k o v).1.cache = Cursors.Cache.add P.cap (Cursors.resume s).cache k o) := by
  unfold Cursors.setCursor
  cases h : ({ Cursors.resume s with seq := (Cursors.resume s).seq + 1 } : Cursors.State).log.append [Cursors.cursorMsg P k v] with
  | ok r => obtain ⟨l, offs⟩ := r; simp [h]
  | err e => simp [h]
  | panic => simp [h]

/-! ### `GetCursor`

A fetch answers from the cache when the key is there, and otherwise from a scan of the log whose result it then caches. The
guard `c.sets == sets` (no `SetCursor` ran while the log was scanned - the repair 13d1a3b) compares two reads of a field that
only ANOTHER goroutine changes in between: a sequential embedding cannot tell it from `true`, so that guard stays with the
model (`Cursors.fetch…`) and the overlapping-calls harness (`TestVerifC11ConcurrentSets`). What the translated body fixes:
the refusal when this server does not lead the cursors partition (nothing is read), the cache hit (no scan, no cache
write), the failed scan (an error and NO cache write), the successful scan (the scanned offset is returned and cached
under the key of THIS call). -/

/-- the callees of `GetCursor`: the cache answers `cached`, the scan answers `scan` -/
def getExt (leader : String) (cached : Option Int) (scan : Int ⊕ String) : Ext := fun f args _ =>
  if f = "getCursorKey" then some (.str "key")
  else if f = "getCursorsPartitionID" then some (.tup [.int 0, .nil])
  else if f = "GetPartition" then some (.struct [("GetLeader", .tup [.str leader, .int 1])])
  else if f = "Get" then
    match cached with
    | some o => some (.tup [.int o, .bool true])
    | none => some (.tup [.nil, .bool false])
  else if f = "getLatestCursorOffset" then
    match scan with
    | .inl o => some (.tup [.int o, .nil])
    | .inr e => some (.tup [.int 0, .str e])
  else if f = "Error" then some (args.headD .nil)
  else if f = "status.New" ∨ f = "status.Newf" then some (.str "status")
  else none

def encManagerG (me : String) (sets : Int) (disableCache : Bool) : Val :=
  .struct [("sets", .int sets), ("disableCache", .bool disableCache), ("metadata", .struct []), ("cache", .struct []),
           ("config", .struct [("Clustering", .struct [("ServerID", .str me)])])]

/-- (values returned, the cache writes, the number of log scans) -/
def getView : R Out → Option (List Val × List (List Val) × Nat)
  | .ok o => some (o.rets, (o.eff.filter (fun e => e.1 = "Add")).map (·.2), (o.eff.filter (fun e => e.1 = "getLatestCursorOffset")).length)
  | _ => none

set_option maxRecDepth 8000 in
set_option maxHeartbeats 1600000 in
theorem go_GetCursor_not_leader (me leader : String) (h : leader ≠ me) (sets : Int) (dc : Bool) (ctx : Val) (stream id : String) (part : Int)
    (cached : Option Int) (scan : Int ⊕ String) :
    getView (runG prog (getExt leader cached scan) 40 "GetCursor" (some (encManagerG me sets dc)) [ctx, .str stream, .str id, .int part] globals) =
      some ([.int 0, .str "status"], [], 0) := by
  simp [runG, fn_cursorManager_GetCursor, gomini, encManagerG, globals, getExt, builtin, getView, h]

set_option maxRecDepth 8000 in
set_option maxHeartbeats 1600000 in
/-- a cached cursor is answered from the cache: no scan, no cache write -/
theorem go_GetCursor_hit (me : String) (sets : Int) (ctx : Val) (stream id : String) (part : Int) (o : Int) (scan : Int ⊕ String) :
    getView (runG prog (getExt me (some o) scan) 40 "GetCursor" (some (encManagerG me sets false)) [ctx, .str stream, .str id, .int part] globals) =
      some ([.int o, .nil], [], 0) := by
  simp [runG, fn_cursorManager_GetCursor, gomini, encManagerG, globals, getExt, builtin, getView, truthy]

set_option maxRecDepth 8000 in
set_option maxHeartbeats 1600000 in
/-- a miss (or the cache switched off): one scan; its offset is returned and cached under the key of this call -/
theorem go_GetCursor_miss (me : String) (sets : Int) (dc : Bool) (ctx : Val) (stream id : String) (part : Int) (cached : Option Int) (o : Int)
    (h : dc = true ∨ cached = none) :
    getView (runG prog (getExt me cached (.inl o)) 40 "GetCursor" (some (encManagerG me sets dc)) [ctx, .str stream, .str id, .int part] globals) =
      some ([.int o, .nil], [[.str "key", .int o]], 1) := by
  cases dc
  · have hc : cached = none := by rcases h with h | h; exact absurd h (by decide); exact h
    subst hc
    simp [runG, fn_cursorManager_GetCursor, gomini, encManagerG, globals, getExt, builtin, getView, truthy, binInt]
  · cases cached <;> simp [runG, fn_cursorManager_GetCursor, gomini, encManagerG, globals, getExt, builtin, getView, truthy, binInt]

set_option maxRecDepth 8000 in
set_option maxHeartbeats 1600000 in
/-- a scan that fails: an error status, and nothing is cached -/
theorem go_GetCursor_scan_failed (me : String) (sets : Int) (ctx : Val) (stream id : String) (part : Int) (e : String) :
    getView (runG prog (getExt me none (.inr e)) 40 "GetCursor" (some (encManagerG me sets false)) [ctx, .str stream, .str id, .int part] globals) =
      some ([.int 0, .str "status"], [], 1) := by
  simp [runG, fn_cursorManager_GetCursor, gomini, encManagerG, globals, getExt, builtin, getView, truthy, binInt]

end Liftbridge.Props.GoCursors
