/-
The offset stamping and the concurrency-control decision of the model ARE the translated Go code.

`Gen/GoMessageSet.lean` is regenerated on every run from server/commitlog/message_set.go
(`newMessageSetFromProto`). `go_newMessageSet`: for EVERY base offset, message list and
concurrency-control flag, the translated body panics exactly when the model's `append` does
(concurrency control with a batch of more than one message), returns the encode error / the
incorrect-offset error exactly when `CLog.stamp` does, and otherwise returns one index entry per
message carrying exactly the offsets, timestamps and leader epochs `CLog.stamp` assigns.
`encode`, `binary.Write` and the buffer are external calls (the byte layout is C01's codec model);
positions and sizes of the entries are not part of this statement.
-/
import Liftbridge.Proofs.GoCodeBase
import Liftbridge.Gen.GoMessageSet

set_option linter.unusedSimpArgs false

namespace Liftbridge.Props.GoMessageSet
open Liftbridge Liftbridge.GoMini Liftbridge.GoCode Liftbridge.Log Liftbridge.Log.CLog
open Liftbridge.Gen.GoMessageSet

/-- every construct of the translated function is inside the subset -/
theorem translation_complete : unsupported = [] := rfl

/-- `*Message`: what `newMessageSetFromProto` reads, and what `encode` says about it -/
def encMsg (m : Msg) : Val :=
  .struct [("Offset", .int m.expected), ("Timestamp", .int m.ts), ("LeaderEpoch", .int m.epoch),
           ("encodable", .bool m.body.encodable), ("encLen", .int m.body.encLen)]

/-- `encode(m)` yields `encLen` bytes or its error; `buf.Write` two values; `binary.Write` nil -/
def msExt : Ext := fun f args _ =>
  if f = "encode" then
    match args with
    | [.struct fs] =>
      match lookup "encodable" fs, lookup "encLen" fs with
      | some (.bool true), some (.int k) => some (.tup [.list (List.replicate k.toNat (.int 0)), .nil])
      | some (.bool false), _ => some (.tup [.nil, .str "error: encode"])
      | _, _ => none
    | _ => none
  else if f = "Write" then some (.tup [.int 0, .nil])
  else none

def globals : List (String × Val) := [("ErrIncorrectOffset", .str "incorrect offset"), ("encoding", .struct [])]

/-- (offset, timestamp, leader epoch) of an index entry -/
def entryView : Val → Option (Int × Int × Int)
  | .struct fs => match lookup "Offset" fs, lookup "Timestamp" fs, lookup "LeaderEpoch" fs with
    | some (.int o), some (.int t), some (.int e) => some (o, t, e)
    | _, _, _ => none
  | _ => none

def entriesView : List Val → Option (List (Int × Int × Int))
  | [] => some []
  | v :: rest => match entryView v, entriesView rest with
    | some x, some xs => some (x :: xs)
    | _, _ => none

inductive Outcome where
  | entries (es : List (Int × Int × Int))
  | encodeError
  | incorrectOffset
  | panic
  | other
  deriving Repr, DecidableEq

def ofGo : R Out → Outcome
  | .ok o => match o.rets with
    | [_, .list es, .nil] => (match entriesView es with | some v => .entries v | none => .other)
    | [.nil, .nil, .str "error: encode"] => .encodeError
    | [.nil, .nil, .str "incorrect offset"] => .incorrectOffset
    | _ => .other
  | .panic => .panic
  | .stuck _ => .other

/-- the model: `append`'s batch check, then `stamp` -/
def ofModel (occ : Bool) (base : Int) (ms : List Msg) : Outcome :=
  if occ && Gen.Log.occBatchCmp.evalNat ms.length 1 then .panic else
  match stamp occ base 0 ms with
  | .ok rs => .entries (rs.map fun r => (r.offset, r.ts, (r.epoch : Int)))
  | .err e => if e = "encode" then .encodeError else if e = "incorrect-offset" then .incorrectOffset else .other
  | .panic => .panic

@[simp] theorem lk_a : evalE.lookup' "newMessageSetFromProto" prog = some fn_newMessageSetFromProto := by simp [prog, gomini]
@[simp] theorem lk_b : evalE.lookup' "encode" prog = none := by simp [prog, gomini]
@[simp] theorem lk_c : evalE.lookup' "binary.Write" prog = none := by simp [prog, gomini]
@[simp] theorem lk_d : evalE.lookup' "Write" prog = none := by simp [prog, gomini]
@[simp] theorem lk_e : evalE.lookup' "Bytes" prog = none := by simp [prog, gomini]
@[simp] theorem lk_f : evalE.lookup' "fmt.Errorf" prog = none := by simp [prog, gomini]
@[simp] theorem sig_a : fn_newMessageSetFromProto.recv = none ∧
    fn_newMessageSetFromProto.params = ["baseOffset", "basePos", "msgs", "concurrencyControl"] := ⟨rfl, rfl⟩

theorem facts : Gen.Log.occExpectedCmp = .ne ∧ Gen.Log.occWaiveCmp = .ne ∧ Gen.Log.occBatchCmp = .gt ∧
    Gen.Log.encodeErrPanics = false := by decide

/-- concurrency control and more than one message: the body panics, as the model's `append` does -/
theorem go_batch_panics (base pos : Int) (ms : List Msg) (h : 1 < ms.length) :
    ofGo (runG prog msExt 40 "newMessageSetFromProto" none
      [.int base, .int pos, .list (ms.map encMsg), .bool true] globals) = ofModel true base ms := by
  have h' : ((1 : Int) < (ms.length : Int)) := by omega
  simp [runG, fn_newMessageSetFromProto, gomini, binInt, h', builtin, ofGo, ofModel, facts, Cmp.evalNat, h]

def loopBody : List Stmt :=
  match fn_newMessageSetFromProto.body with
  | [_, _, _, _, .forRange _ _ _ b, _] => b
  | _ => []

theorem body_shape : ∃ a b c d e, fn_newMessageSetFromProto.body = [a, b, c, d, .forRange (some "i") (some "m") (.var "msgs") loopBody, e] :=
  ⟨_, _, _, _, _, rfl⟩

def triple (r : Rec) : Int × Int × Int := (r.offset, r.ts, (r.epoch : Int))

def errVal (e : String) : Val := if e = "encode" then .str "error: encode" else .str "incorrect offset"

theorem set_at_length (P : List Val) (x v : Val) (R : List Val) : (P ++ x :: R).set P.length v = P ++ v :: R := by
  induction P with
  | nil => rfl
  | cons a P ih => simp [ih]

theorem wrapS64_nat (i : Nat) (h : i < 2 ^ 63) : wrapS 64 (i : Int) = i := by
  unfold wrapS
  have h1 : ((i : Int) % (2 ^ 64 : Int)) = i := by
    apply Int.emod_eq_of_lt <;> omega
  simp only [h1]
  split <;> omega

theorem entriesView_append (A B : List Val) (a b : List (Int × Int × Int)) (ha : entriesView A = some a) (hb : entriesView B = some b) :
    entriesView (A ++ B) = some (a ++ b) := by
  induction A generalizing a with
  | nil => simp [entriesView] at ha; subst ha; simpa using hb
  | cons x A ih =>
    simp only [List.cons_append, entriesView] at ha ⊢
    cases hx : entryView x with
    | none => simp [hx] at ha
    | some t =>
      cases hA : entriesView A with
      | none => simp [hx, hA] at ha
      | some as =>
        simp [hx, hA] at ha
        subst ha
        simp [ih as hA]

/-- what the loop over the messages does, by the model's `stamp` on the remaining messages -/
theorem stamp_loop (F : Nat) (hF : 12 ≤ F) (occ : Bool) (base pos : Int) :
    ∀ (xs : List Msg) (i : Nat) (P : List Val) (nn : Int) (st : St),
    i + xs.length < 2 ^ 63 → P.length = i →
    st.env "concurrencyControl" = some (.bool occ) → st.env "baseOffset" = some (.int base) → st.env "basePos" = some (.int pos) →
    st.env "buf" = some (.struct []) → st.env "encoding" = some (.struct []) →
    st.env "ErrIncorrectOffset" = some (.str "incorrect offset") →
    st.env "entries" = some (.list (P ++ List.replicate xs.length .nil)) → st.env "n" = some (.int nn) →
    match stamp occ base i xs with
    | .ok rs => ∃ st' E, runRange (runBlock (exec prog msExt F) loopBody) (some "i") (some "m") i (xs.map encMsg) st = .ok (.next, st') ∧
        st'.env "entries" = some (.list (P ++ E)) ∧ entriesView E = some (rs.map triple) ∧ st'.env "buf" = some (.struct [])
    | .err e => ∃ st', runRange (runBlock (exec prog msExt F) loopBody) (some "i") (some "m") i (xs.map encMsg) st =
        .ok (.ret [.nil, .nil, errVal e], st')
    | .panic => False := by
  obtain ⟨n, rfl⟩ : ∃ n, F = n + 12 := ⟨F - 12, by omega⟩
  intro xs
  induction xs with
  | nil =>
    intro i P nn st _ _ _ _ _ hbuf _ _ hent _
    simp only [stamp]
    exact ⟨st, [], by simp [gomini], by simpa using hent, rfl, hbuf⟩
  | cons m rest ih =>
    intro i P nn st hi hP hocc hbase hpos hbuf henc herr hent hn
    subst hP
    have hi63 : P.length < 2 ^ 63 := by simp at hi; omega
    have hw := wrapS64_nat P.length hi63
    by_cases hencodable : m.body.encodable = true
    · by_cases hconf : occ = true ∧ m.expected ≠ -1 ∧ base + (P.length : Int) ≠ m.expected
      · obtain ⟨ho, he1, he2⟩ := hconf
        subst ho
        have he2' : ¬ ((P.length : Int) + base = m.expected) := by omega
        simp only [stamp, hencodable, facts, Cmp.evalInt]
        simp [he1, he2]
        refine ⟨?w2, ?h2⟩
        case h2 =>
          simp [loopBody, fn_newMessageSetFromProto, gomini, encMsg, msExt, hencodable, builtin, convert, binInt, errVal,
            hocc, hbase, hn, hw, he1, he2', herr]
          rfl
      · -- this message is stamped; the rest by induction
        have hgo : (occ && (decide (m.expected ≠ -1)) && decide (base + (P.length : Int) ≠ m.expected)) = false := by
          cases occ <;> simp at hconf ⊢
          intro h1; exact hconf h1
        let v : Val := .struct [("Offset", .int ((P.length : Int) + base)), ("Timestamp", .int m.ts), ("LeaderEpoch", .int m.epoch),
          ("Position", .int (pos + wrapS 64 nn)), ("Size", .int (wrapS 32 (m.body.encLen : Int) + 28))]
        have hv : entryView v = some (base + (P.length : Int), m.ts, (m.epoch : Int)) := by
          simp [v, entryView, gomini]; omega
        obtain ⟨st1, nn', hstep, f1, f2, f3, f4, f5, f6, f7, f8⟩ : ∃ st1 nn',
            runBlock (exec prog msExt (n + 12)) loopBody ((st.set "i" (.int P.length)).set "m" (encMsg m)) = .ok (.next, st1) ∧
            st1.env "concurrencyControl" = some (.bool occ) ∧ st1.env "baseOffset" = some (.int base) ∧
            st1.env "basePos" = some (.int pos) ∧ st1.env "buf" = some (.struct []) ∧ st1.env "encoding" = some (.struct []) ∧
            st1.env "ErrIncorrectOffset" = some (.str "incorrect offset") ∧
            st1.env "entries" = some (.list ((P ++ [v]) ++ List.replicate rest.length .nil)) ∧ st1.env "n" = some (.int nn') := by
          refine ⟨?s1, nn + 8 + 8 + 8 + 4 + wrapS 32 (m.body.encLen : Int), ?hs1, ?_, ?_, ?_, ?_, ?_, ?_, ?_, ?_⟩
          case hs1 =>
            have hgo2 : (occ = true → m.expected = -1 ∨ (P.length : Int) + base = m.expected) := by
              intro ho; by_cases h1 : m.expected = -1
              · exact Or.inl h1
              · right; by_cases h2 : (P.length : Int) + base = m.expected
                · exact h2
                · exact absurd ⟨ho, h1, by omega⟩ hconf
            have hlt : P.length < P.length + (rest.length + 1) := by omega
            cases occ with
            | false =>
              simp [loopBody, fn_newMessageSetFromProto, gomini, encMsg, msExt, hencodable, builtin, convert, binInt,
                hocc, hbase, hpos, hn, hw, herr, hbuf, henc, hent, hlt]
              rfl
            | true =>
              rcases hgo2 rfl with h1 | h2
              · simp [loopBody, fn_newMessageSetFromProto, gomini, encMsg, msExt, hencodable, builtin, convert, binInt,
                  hocc, hbase, hpos, hn, hw, herr, hbuf, henc, hent, hlt, h1]
              · by_cases h1 : m.expected = -1
                · simp [loopBody, fn_newMessageSetFromProto, gomini, encMsg, msExt, hencodable, builtin, convert, binInt,
                    hocc, hbase, hpos, hn, hw, herr, hbuf, henc, hent, hlt, h1]
                · simp [loopBody, fn_newMessageSetFromProto, gomini, encMsg, msExt, hencodable, builtin, convert, binInt,
                    hocc, hbase, hpos, hn, hw, herr, hbuf, henc, hent, hlt, h1, h2]
          all_goals (try simp [gomini, hocc, hbase, hpos, hbuf, henc, herr])
          · rfl
        -- the rest of the loop
        have hrec := ih (P.length + 1) (P ++ [v]) _ st1 (by simp at hi ⊢; omega) (by simp) f1 f2 f3 f4 f5 f6 f7 f8
        have hst : stamp occ base P.length (m :: rest) = (do
            let r ← stamp occ base (P.length + 1) rest
            Res.ok ({ offset := base + (P.length : Int), ts := m.ts, epoch := m.epoch, body := m.body } :: r)) := by
          simp only [stamp, hencodable, facts, Cmp.evalInt]
          simp
          intro h1 h2 h3
          exact absurd ⟨h1, h2, h3⟩ hconf
        rw [hst]
        cases hs : stamp occ base (P.length + 1) rest with
        | ok rs =>
          rw [hs] at hrec
          obtain ⟨st', E, hr, e1, e2, e3⟩ := hrec
          refine ⟨st', v :: E, ?_, ?_, ?_, e3⟩
          · simp only [List.map_cons, runRange_cons, hstep]
            simpa using hr
          · simpa using e1
          · simp [entriesView, hv, e2, triple]
        | err e =>
          rw [hs] at hrec
          obtain ⟨st', hr⟩ := hrec
          refine ⟨st', ?_⟩
          simp only [List.map_cons, runRange_cons, hstep]
          simpa using hr
        | panic =>
          rw [hs] at hrec
          exact hrec.elim
    · have hencf : m.body.encodable = false := by simpa using hencodable
      simp only [stamp, hencf, facts]
      refine ⟨?w, ?h⟩
      case h =>
        simp [loopBody, fn_newMessageSetFromProto, gomini, encMsg, msExt, hencf, builtin, convert, binInt, errVal]
        rfl

theorem stamp_err_kinds (occ : Bool) (base : Int) : ∀ (ms : List Msg) (i : Nat) (e : String),
    stamp occ base i ms = .err e → e = "encode" ∨ e = "incorrect-offset" := by
  intro ms
  induction ms with
  | nil => intro i e h; simp [stamp] at h
  | cons m rest ih =>
    intro i e h
    simp only [stamp, facts] at h
    by_cases h1 : m.body.encodable = true
    · simp only [h1, Bool.not_true, Bool.false_eq_true, if_false] at h
      split at h
      · right; simpa using h.symm
      · cases hs : stamp occ base (i + 1) rest with
        | ok rs => rw [hs] at h; simp [bind, Res.bind] at h
        | err e' =>
          rw [hs] at h
          have : e' = e := by simpa [bind, Res.bind] using h
          exact this ▸ ih (i + 1) e' hs
        | panic => rw [hs] at h; simp [bind, Res.bind] at h
    · have h1' : m.body.encodable = false := by simpa using h1
      simp [h1'] at h
      left; exact h.symm

theorem entriesView_map_triple_inj (rs : List Rec) : (rs.map triple) = rs.map (fun r => (r.offset, r.ts, (r.epoch : Int))) := rfl

/-- **`newMessageSetFromProto` = the model's batch check + `stamp`**: the same panic, the same refusal
(encode error / incorrect offset), the same offsets, timestamps and leader epochs for the index entries —
for every base offset, message list (shorter than 2^63) and concurrency-control flag. -/
theorem go_newMessageSet (occ : Bool) (base pos : Int) (ms : List Msg) (hlen : ms.length < 2 ^ 63) :
    ofGo (runG prog msExt 40 "newMessageSetFromProto" none
      [.int base, .int pos, .list (ms.map encMsg), .bool occ] globals) = ofModel occ base ms := by
  by_cases hb : occ = true ∧ 1 < ms.length
  · obtain ⟨rfl, h⟩ := hb
    exact go_batch_panics base pos ms h
  · have hnn : ((ms.length : Int) < 0) = False := by apply eq_false; omega
    have hcondM : (occ && Gen.Log.occBatchCmp.evalNat ms.length 1) = false := by
      cases occ <;> simp [facts, Cmp.evalNat] at hb ⊢; omega
    let s0 : St := { env := envOf ([("baseOffset", .int base), ("basePos", .int pos), ("msgs", .list (ms.map encMsg)),
      ("concurrencyControl", .bool occ)] ++ globals), eff := [] }
    let s1 : St := ((s0.set "buf" (.struct [])).set "entries" (.list (List.replicate ms.length .nil))).set "n" (.int 0)
    have hloop := stamp_loop 39 (by omega) occ base pos ms 0 [] 0 s1 (by simpa using hlen) rfl
      (by simp [s1, s0, gomini, globals]) (by simp [s1, s0, gomini, globals]) (by simp [s1, s0, gomini, globals])
      (by simp [s1, s0, gomini, globals]) (by simp [s1, s0, gomini, globals]) (by simp [s1, s0, gomini, globals])
      (by simp [s1, s0, gomini, globals]) (by simp [s1, s0, gomini, globals])
    simp only [ofModel, hcondM]
    cases hs : stamp occ base 0 ms with
    | ok rs =>
      rw [hs] at hloop
      obtain ⟨st', E, hr, e1, e2, e3⟩ := hloop
      simp [s1, s0, loopBody, globals, fn_newMessageSetFromProto] at hr
      cases occ with
      | false =>
        simp [runG, fn_newMessageSetFromProto, gomini, binInt, builtin, globals, hr, e1, e3, hnn, ofGo, e2, triple, msExt]
      | true =>
        have h1 : ((1 : Int) < (ms.length : Int)) = False := by apply eq_false; simp at hb; omega
        simp [runG, fn_newMessageSetFromProto, gomini, binInt, builtin, globals, hr, e1, e3, hnn, ofGo, e2, triple, h1, msExt]
    | err e =>
      rw [hs] at hloop
      obtain ⟨st', hr⟩ := hloop
      simp [s1, s0, loopBody, globals, fn_newMessageSetFromProto] at hr
      have he : e = "encode" ∨ e = "incorrect-offset" := stamp_err_kinds occ base ms 0 e hs
      cases occ with
      | false =>
        rcases he with rfl | rfl <;>
          simp [runG, fn_newMessageSetFromProto, gomini, binInt, builtin, globals, hr, hnn, ofGo, errVal, msExt]
      | true =>
        have h1 : ((1 : Int) < (ms.length : Int)) = False := by apply eq_false; simp at hb; omega
        rcases he with rfl | rfl <;>
          simp [runG, fn_newMessageSetFromProto, gomini, binInt, builtin, globals, hr, hnn, ofGo, errVal, msExt, h1]
    | panic => rw [hs] at hloop; exact hloop.elim

/-! ### non-vacuity: with concurrency control a stale expected offset is refused, the right one is stamped -/
def pl : Payload := { key := none, val := some [1], hdrs := [] }
example : ofModel true 5 [{ ts := 9, epoch := 2, body := pl, expected := 4 }] = .incorrectOffset := by
  simp [ofModel, stamp, facts, Cmp.evalNat, Cmp.evalInt, pl, Payload.encodable, Gen.Log.headerCountCmp, Gen.Log.putStringLenCmp]
example : ofModel true 5 [{ ts := 9, epoch := 2, body := pl, expected := 5 }] = .entries [(5, 9, 2)] := by
  simp [ofModel, stamp, facts, Cmp.evalNat, Cmp.evalInt, pl, Payload.encodable, Gen.Log.headerCountCmp, Gen.Log.putStringLenCmp]
example : ofModel false 5 [{ ts := 9, epoch := 2, body := pl, expected := 4 }, { ts := 10, epoch := 2, body := pl }] =
    .entries [(5, 9, 2), (6, 10, 2)] := by
  simp [ofModel, stamp, facts, Cmp.evalNat, Cmp.evalInt, pl, Payload.encodable, Gen.Log.headerCountCmp, Gen.Log.putStringLenCmp]

end Liftbridge.Props.GoMessageSet
