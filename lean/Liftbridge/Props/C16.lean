import Liftbridge.Model.Log
namespace Liftbridge.Props.C16
end Liftbridge.Props.C16
